(* Driver for the extracted model: reads the case file (same text format as the
   Rust harness), runs every case through [Vfsmodel.run_case] and prints one
   observation line per op.  Parsing and printing only; no model logic here. *)
open Vfsmodel
type path = n list list
type bytes = n list

let rec pos_of_int i = if i = 1 then XH else if i land 1 = 0 then XO (pos_of_int (i lsr 1)) else XI (pos_of_int (i lsr 1))
let n_of_int i = if i = 0 then N0 else Npos (pos_of_int i)
let rec int_of_pos = function XH -> 1 | XO p -> 2 * int_of_pos p | XI p -> 2 * int_of_pos p + 1
let int_of_n = function N0 -> 0 | Npos p -> int_of_pos p
let rec nat_of_int i = if i <= 0 then O else S (nat_of_int (i - 1))
let rec int_of_nat = function O -> 0 | S n -> 1 + int_of_nat n

(* arbitrary precision for Z through decimal strings is overkill: times and offsets fit in
   OCaml's 63-bit ints except i64::MIN/MAX and u64::MAX, which we pass as special tokens *)
let rec pos_of_z_string (s : string) : positive =
  (* decimal string -> positive, by repeated division by 2 *)
  let digits = Array.init (String.length s) (fun i -> Char.code s.[i] - 48) in
  let is_one () = let nz = ref 0 and v = ref 0 in
    Array.iter (fun d -> if d <> 0 || !nz > 0 then (incr nz; v := !v * 10 + d)) digits; (!nz <= 1 && !v = 1) in
  if is_one () then XH else begin
    let rem = ref 0 in
    let q = Array.map (fun d -> let cur = !rem * 10 + d in rem := cur mod 2; cur / 2) digits in
    let r = !rem in
    let qs = String.concat "" (Array.to_list (Array.map string_of_int q)) in
    let p = pos_of_z_string qs in
    if r = 0 then XO p else XI p
  end
let z_of_string (s : string) : z =
  let s = String.trim s in
  if s = "0" || s = "-0" then Z0
  else if s.[0] = '-' then Zneg (pos_of_z_string (String.sub s 1 (String.length s - 1)))
  else Zpos (pos_of_z_string s)
(* positive -> decimal string *)
let rec dec_of_pos (p : positive) : string =
  let double_plus (s : string) (c : int) : string =
    let n = String.length s in
    let out = Bytes.make (n + 1) '0' in
    let carry = ref c in
    for i = n - 1 downto 0 do
      let v = (Char.code s.[i] - 48) * 2 + !carry in
      Bytes.set out (i + 1) (Char.chr (48 + v mod 10)); carry := v / 10
    done;
    Bytes.set out 0 (Char.chr (48 + !carry));
    let r = Bytes.to_string out in
    if r.[0] = '0' then String.sub r 1 n else r in
  match p with
  | XH -> "1"
  | XO q -> double_plus (dec_of_pos q) 0
  | XI q -> double_plus (dec_of_pos q) 1
let string_of_z = function Z0 -> "0" | Zpos p -> dec_of_pos p | Zneg p -> "-" ^ dec_of_pos p
let string_of_n = function N0 -> "0" | Npos p -> dec_of_pos p

let unhex (s : string) : n list =
  if s = "-" then [] else
  let len = String.length s / 2 in
  List.init len (fun i -> n_of_int (int_of_string ("0x" ^ String.sub s (2 * i) 2)))
let hex (l : n list) : string =
  if l = [] then "-" else
  let b = Buffer.create (2 * List.length l) in
  List.iter (fun x -> Buffer.add_string b (Printf.sprintf "%02x" (int_of_n x))) l;
  Buffer.contents b
let hexpath (p : path) : string = hex (rnd p)

let split_on c s = String.split_on_char c s

let parse_pathspec (s : string) : pathspec =
  match split_on ':' s with
  | [k; steps] ->
      let steps = if steps = "" then [] else split_on ',' steps in
      { ps_fs = nat_of_int (int_of_string k);
        ps_steps = List.map (fun st -> if st = "p" then JParent else if st = "r" then JRoot else JJoin (unhex (String.sub st 1 (String.length st - 1)))) steps }
  | _ -> failwith ("bad pathspec " ^ s)

let parse_op (toks : string list) : op =
  let ps = parse_pathspec in
  let nat s = nat_of_int (int_of_string s) in
  match toks with
  | ["asstr"; p] -> OAsStr (ps p)
  | ["filename"; p] -> OFilename (ps p)
  | ["extension"; p] -> OExtension (ps p)
  | ["isroot"; p] -> OIsRoot (ps p)
  | ["eq"; p; q] -> OPathEq (ps p, ps q)
  | ["exists"; p] -> OExists (ps p)
  | ["metadata"; p] -> OMetadata (ps p)
  | ["isfile"; p] -> OIsFile (ps p)
  | ["isdir"; p] -> OIsDir (ps p)
  | ["readdir"; p] -> OReadDir (ps p)
  | ["createdir"; p] -> OCreateDir (ps p)
  | ["createdirall"; p] -> OCreateDirAll (ps p)
  | ["createfile"; p] -> OCreateFile (ps p)
  | ["appendfile"; p] -> OAppendFile (ps p)
  | ["openfile"; p] -> OOpenFile (ps p)
  | ["removefile"; p] -> ORemoveFile (ps p)
  | ["removedir"; p] -> ORemoveDir (ps p)
  | ["removedirall"; p] -> ORemoveDirAll (ps p)
  | ["setctime"; p; t] -> OSetCTime (ps p, z_of_string t)
  | ["setmtime"; p; t] -> OSetMTime (ps p, z_of_string t)
  | ["setatime"; p; t] -> OSetATime (ps p, z_of_string t)
  | ["readtostring"; p] -> OReadToString (ps p)
  | ["copyfile"; p; q] -> OCopyFile (ps p, ps q)
  | ["movefile"; p; q] -> OMoveFile (ps p, ps q)
  | ["copydir"; p; q] -> OCopyDir (ps p, ps q)
  | ["movedir"; p; q] -> OMoveDir (ps p, ps q)
  | ["walkdir"; p] -> OWalkDir (ps p)
  | ["walkrm"; p; k; q] -> OWalkRm (ps p, nat k, ps q)
  | ["probe"; p] -> OProbe (ps p)
  | ["snap"; k] -> OSnap (nat k)
  | ["tree"; k] -> OTree (nat k)
  | ["hread"; r; n] -> OHRead (nat r, n_of_int (int_of_string n))
  | ["hreadn"; r; n] -> OHRead (nat r, n_of_int (int_of_string n))
  | ["hseek"; r; w; o] ->
      let o = z_of_string o in
      OHSeek (nat r, (match w with "s" -> SeekStart o | "c" -> SeekCurrent o | "e" -> SeekEnd o | _ -> failwith "whence"))
  | ["hwrite"; r; h] -> OHWrite (nat r, unhex h)
  | ["hflush"; r] -> OHFlush (nat r)
  | ["hdrop"; r] -> OHDrop (nat r)
  | ["hdropunwind"; r] -> OHDrop (nat r)     (* dropped during unwinding: a drop like any other *)
  | ["hreadtoend"; r] -> OHReadToEnd (nat r)
  | ["setsame"; _; _] -> ONop
  | ["setfault"; id; k] -> OSetFault (nat id, nat k)
  | ["setiofault"; m] -> OSetIo (match m with "r" -> IoReads | "w" -> IoWrites | _ -> IoAll)
  | ["clearlog"] -> OClearLog
  | x :: _ when String.length x > 0 && x.[0] = 'x' -> ONop
  | _ -> failwith ("bad op " ^ String.concat " " toks)

(* printing *)
let kind_s = function
  | ENotFound -> "NotFound" | EInvalidPath -> "InvalidPath" | EOther -> "Other"
  | EDirExists -> "DirExists" | EFileExists -> "FileExists" | ENotSupported -> "NotSupported"
  | EIo -> "Io" | EFuel -> "MODEL-STUCK"
let epath_s = function
  | PUnfilled -> "U" | PPath p -> "P" ^ hexpath p | PRaw s -> "P" ^ hex s
let err_s (e : err) = kind_s e.e_kind ^ ":" ^ epath_s e.e_path
let res_s (f : 'a -> string) (r : 'a res) : string =
  match r with Ok v -> "ok:" ^ f v | Err e -> "err:" ^ err_s e | Panic -> "panic"
let time_s = function None -> "none" | Some TAuto -> "auto" | Some (TSet t) -> "set:" ^ string_of_z t
let meta_s (m : meta) =
  Printf.sprintf "meta:%s:%s:%s:%s:%s" (match m.m_type with File -> "file" | Dir -> "dir")
    (string_of_n m.m_len) (time_s m.m_created) (time_s m.m_modified) (time_s m.m_accessed)
let bool_s b = if b then "bool:1" else "bool:0"
let paths_s (l : path list) = "paths:" ^ String.concat "," (List.map hexpath l)
let bytes_s b = "bytes:" ^ hex b
let item_s = function Ok p -> "o" ^ hexpath p | Err e -> "e" ^ kind_s e.e_kind ^ "@" ^ epath_s e.e_path | Panic -> "panic"
let value_s = function
  | VUnit -> "unit"
  | VBool b -> bool_s b
  | VStr s -> "str:" ^ hex s
  | VOptStr None -> "optstr:none"
  | VOptStr (Some s) -> "optstr:" ^ hex s
  | VPaths l -> paths_s l
  | VMeta m -> meta_s m
  | VBytes b -> bytes_s b
  | VN n -> "n:" ^ string_of_n n
  | VZ z -> "z:" ^ string_of_z z
  | VItems l -> "items:" ^ String.concat "," (List.map item_s l)
  | VProbe p ->
      "probe:" ^ String.concat ";" [ res_s bool_s p.pr_exists; res_s meta_s p.pr_meta; res_s bool_s p.pr_is_file;
                                      res_s bool_s p.pr_is_dir; res_s paths_s p.pr_list; res_s bytes_s p.pr_read ]
  | VSnap l ->
      "snap:" ^ String.concat "|" (List.map (fun e ->
        String.concat ";" [ hexpath e.sn_path; res_s meta_s e.sn_meta;
                            (match e.sn_content with None -> "-" | Some r -> res_s bytes_s r);
                            (match e.sn_list_err with None -> "-" | Some er -> err_s er) ]) l)
let call_s (c : fscall) =
  let p1 n p = n ^ ":" ^ hexpath p and p2 n a b = n ^ ":" ^ hexpath a ^ ":" ^ hexpath b in
  match c with
  | CReadDir p -> p1 "read_dir" p | CCreateDir p -> p1 "create_dir" p | COpenFile p -> p1 "open_file" p
  | CCreateFile p -> p1 "create_file" p | CAppendFile p -> p1 "append_file" p | CMetadata p -> p1 "metadata" p
  | CSetCTime (p, _) -> p1 "set_creation_time" p | CSetMTime (p, _) -> p1 "set_modification_time" p
  | CSetATime (p, _) -> p1 "set_access_time" p | CExists p -> p1 "exists" p | CRemoveFile p -> p1 "remove_file" p
  | CRemoveDir p -> p1 "remove_dir" p | CCopyFile (a, b) -> p2 "copy_file" a b | CMoveFile (a, b) -> p2 "move_file" a b
  | CMoveDir (a, b) -> p2 "move_dir" a b

let label_s = function
  | LExists -> "memfs:exists" | LScan -> "memfs:scan" | LInsertDir -> "memfs:insert_dir" | LSetC -> "memfs:set_creation"
  | LSetM -> "memfs:set_modification" | LSetA -> "memfs:set_access" | LGetReader -> "memfs:get_reader"
  | LInsertFile -> "memfs:insert_file" | LAppendOpen -> "memfs:append_open" | LMeta -> "memfs:metadata"
  | LRemoveFile -> "memfs:remove_file" | LRemove -> "memfs:remove" | LPublish -> "memfs:publish"

type pending = { mutable name : string; mutable bases : basekind list; mutable cfg : fsref list;
                 mutable ops : op list; mutable fuel : int; mutable embfiles : (path * bytes) list;
                 mutable conc : bool; mutable setup : op list; mutable threads : op list list; mutable sched : string }

(* `vfsmodel --async SEED file`: the case through the async model (futures driven under an oracle
   of Pendings that is a function of the seed, the case and the op index) *)
let async_seed = if Array.length Sys.argv > 2 && Sys.argv.(1) = "--async" then Some (int_of_string Sys.argv.(2)) else None
let oracle_for seed name idx =
  let st = ref ((Hashtbl.hash (seed, name, int_of_nat idx)) land 0x3fffffff) in
  let next () = st := (!st * 1103515245 + 12345) land 0x3fffffff; (!st lsr 12) in
  let n = next () mod 48 in
  let rec bits k = if k = 0 then [] else (next () mod 3 = 0) :: bits (k - 1) in
  bits n

let () =
  let argi = if async_seed = None then 1 else 3 in
  let ic = if Array.length Sys.argv > argi then Stdlib.open_in Sys.argv.(argi) else Stdlib.stdin in
  let cur = { name = ""; bases = []; cfg = []; ops = []; fuel = 400; embfiles = []; conc = false; setup = []; threads = []; sched = "" } in
  let finish_conc () =
    let cfg = List.rev cur.cfg in
    let sch = if cur.sched = "" then [] else List.map (fun x -> nat_of_int (int_of_string x)) (split_on ',' cur.sched) in
    let c = { cc_bases = List.rev cur.bases; cc_cfg = cfg; cc_setup = List.rev cur.setup;
              cc_threads = List.rev (List.map List.rev cur.threads); cc_schedule = sch;
              cc_target = nat_of_int (List.length cfg - 1) } in
    let ((res, labels), snap) = run_conc (nat_of_int cur.fuel) c in
    let tres = List.map (function None -> "UNFINISHED" | Some l -> String.concat ";" (List.map (res_s value_s) l)) res in
    Printf.printf "run %s %s labels %s :: %s || %s\n" cur.name cur.sched
      (String.concat "," (List.map (fun (t, l) -> string_of_int (int_of_nat t) ^ ":" ^ label_s l) labels))
      (String.concat " | " tres) (res_s value_s snap) in
  let finish () =
    if cur.conc then finish_conc () else
    let cfg = List.rev cur.cfg in
    let c = { c_bases = List.rev cur.bases; c_cfg = cfg; c_ops = List.rev cur.ops } in
    let outs = (match async_seed with
      | None -> run_case (nat_of_int cur.fuel) c
      | Some seed -> run_case_async (nat_of_int cur.fuel) (oracle_for seed cur.name) c) in
    List.iteri (fun i (o, log) ->
      Printf.printf "r %s %d %s\n" cur.name i (res_s value_s o);
      if log <> [] then
        Printf.printf "l %s %d %s\n" cur.name i
          (String.concat " " (List.map (fun (id, c) -> string_of_int (int_of_nat id) ^ ":" ^ call_s c) log))) outs in
  (try
    while true do
      let line = String.trim (input_line ic) in
      if line <> "" && line.[0] <> '#' then begin
        match split_on ' ' line with
        | ["case"; n] -> cur.name <- n; cur.bases <- []; cur.cfg <- []; cur.ops <- []; cur.fuel <- 400; cur.embfiles <- []; cur.conc <- false
        | ["conc"; n] -> cur.name <- n; cur.bases <- []; cur.cfg <- []; cur.ops <- []; cur.fuel <- 400; cur.embfiles <- [];
                         cur.conc <- true; cur.setup <- []; cur.threads <- []; cur.sched <- ""
        | "setup" :: toks -> cur.setup <- parse_op toks :: cur.setup
        | ["thread"; _] -> cur.threads <- [] :: cur.threads
        | ["schedule"; s] -> cur.sched <- s
        | ["schedule"] -> cur.sched <- ""
        | "mode" :: _ -> ()
        | ["base"; "mem"] -> cur.bases <- KMem :: cur.bases
        | ["base"; "phys"] -> cur.bases <- KPhys :: cur.bases
        | ["embfile"; p; b] -> cur.embfiles <- (prs (unhex p), unhex b) :: cur.embfiles
        | ["base"; "emb"] | ["base"; "embd"] -> cur.bases <- KEmb (List.rev cur.embfiles) :: cur.bases; cur.embfiles <- []
        | ["base"; "embempty"] -> cur.bases <- KEmb [] :: cur.bases; cur.embfiles <- []
        | ["base"; "physfix"] | ["base"; "physlnk"] -> cur.bases <- KPhysDir (List.rev cur.embfiles) :: cur.bases; cur.embfiles <- []
        | "fs" :: rest ->
            let k = nat_of_int (List.length cur.cfg) in
            let get j = List.nth (List.rev cur.cfg) (int_of_string j) in
            let f = (match rest with
              | ["base"; i] -> FBase (k, nat_of_int (int_of_string i))
              | ["unit"; i] -> FBase (k, nat_of_int (int_of_string i))   (* a stateless user filesystem: only path operations are run on it *)
              | ["alt"; j; p] -> FAlt (k, get j, prs (unhex p))
              | "ovl" :: _n :: layers ->
                  let rec pairs = function a :: b :: r -> (get a, prs (unhex b)) :: pairs r | _ -> [] in
                  (match pairs layers with t :: lower -> FOvl (k, t, lower) | [] -> failwith "ovl needs layers")
              | _ -> failwith ("bad fs " ^ line)) in
            (* every instance is wrapped by the harness's recording/fault wrapper with its own id *)
            cur.cfg <- FWrap (k, f) :: cur.cfg
        | ["fuel"; n] -> cur.fuel <- int_of_string n
        | "op" :: toks when cur.conc ->
            (match cur.threads with t :: rest -> cur.threads <- (parse_op toks :: t) :: rest | [] -> failwith "op outside thread")
        | "op" :: toks -> cur.ops <- parse_op toks :: cur.ops
        | ["end"] -> finish ()
        | _ -> failwith ("bad line " ^ line)
      end
    done
  with End_of_file -> ())
