#!/bin/sh
# Build the framework from files on disk only (offline): Coq development (full .vo build),
# extracted model + OCaml driver, Rust harness against /repo's working tree.
set -e
cd "$(dirname "$0")"
export CARGO_NET_OFFLINE=true
mkdir -p work evidence replays harness/fixtures/empty
( cd coq && coq_makefile -f _CoqProject -o Makefile >/dev/null && timeout 3000 make -j16 ) 
( cd ocaml && coqc -Q ../coq/theories VFS ../coq/theories/Extract.v >/dev/null && ocamlfind ocamlopt -O3 -w -a -package str vfsmodel.mli vfsmodel.ml driver.ml -o vfsmodel )
( cd harness && cargo build --offline 2>&1 | tail -2 && cargo build --offline --release 2>&1 | tail -2 )
echo setup-ok
