(** Proofs about the string layer (any alphabet with a decidable equality and
    two distinct letters '/' and '.'). *)
From Coq Require Import List Bool Arith Lia.
Import ListNotations.
From VFS Require Import Path.Str.

Section StrProofs.
  Context {A : Type}.
  Variable eqb : A -> A -> bool.
  Variable slash dot : A.
  Hypothesis eqb_spec : forall a b, reflect (a = b) (eqb a b).
  Hypothesis slash_dot : slash <> dot.

  Notation str := (@str A).
  Notation split := (split eqb slash).
  Notation rfind := (rfind eqb slash).
  Notation rfind_from := (rfind_from eqb slash).
  Notation has_slash := (has_slash eqb slash).
  Notation render := (@render A slash).
  Notation parse := (parse eqb slash).
  Notation parent_internal := (parent_internal eqb slash).
  Notation filename_internal := (filename_internal eqb slash).
  Notation extension_internal := (extension_internal eqb slash dot).
  Notation join_internal := (join_internal eqb slash dot).
  Notation join_step := (join_step eqb slash dot).
  Notation resolve := (resolve eqb slash dot).
  Notation resolve_step := (resolve_step eqb dot).
  Notation good_comp := (good_comp eqb slash dot).
  Notation canonical := (canonical eqb slash dot).
  Notation is_dot := (is_dot eqb dot).
  Notation is_dotdot := (is_dotdot eqb dot).
  Notation str_eqb := (str_eqb eqb).

  Lemma eqb_refl a : eqb a a = true.
  Proof. destruct (eqb_spec a a); congruence. Qed.
  Lemma eqb_neq a b : a <> b -> eqb a b = false.
  Proof. destruct (eqb_spec a b); congruence. Qed.

  Lemma str_eqb_spec a b : reflect (a = b) (str_eqb a b).
  Proof.
    revert b; induction a as [|x a IH]; intros [|y b]; cbn; try (constructor; congruence).
    destruct (eqb_spec x y) as [->|Hn]; cbn.
    - destruct (IH b) as [->|Hn]; constructor; congruence.
    - constructor; congruence.
  Qed.

  (** ** split *)
  Lemma split_nonnil s : split s <> [].
  Proof.
    destruct s as [|c s]; cbn; [discriminate|].
    destruct (eqb c slash); [discriminate|]. destruct (split s); discriminate.
  Qed.

  Lemma split_noslash c : has_slash c = false -> split c = [c].
  Proof.
    induction c as [|x c IH]; cbn; [reflexivity|]; intros H.
    apply orb_false_elim in H as [Hx Hc]. rewrite Hx, (IH Hc). reflexivity.
  Qed.

  Lemma split_app_slash c s :
    has_slash c = false -> split (c ++ slash :: s) = c :: split s.
  Proof.
    induction c as [|x c IH]; cbn; intros H.
    - rewrite eqb_refl. reflexivity.
    - apply orb_false_elim in H as [Hx Hc]. rewrite Hx, (IH Hc). reflexivity.
  Qed.

  Lemma split_all_noslash s : Forall (fun c => has_slash c = false) (split s).
  Proof.
    induction s as [|x s IH]; cbn; [repeat constructor|].
    destruct (eqb x slash) eqn:E; [constructor; [reflexivity|exact IH]|].
    destruct (split s) as [|w ws]; [repeat constructor; cbn; now rewrite E|].
    inversion IH; subst. constructor; [cbn; rewrite E; assumption|assumption].
  Qed.

  Lemma split_render cs :
    Forall (fun c => has_slash c = false) cs ->
    split (render cs) = match cs with [] => [[]] | _ => [] :: cs end.
  Proof.
    induction cs as [|c cs IH]; intros H; [reflexivity|].
    inversion H as [|? ? Hc Hcs]; subst.
    change (render (c :: cs)) with (slash :: c ++ render cs).
    cbn [Str.split]. rewrite eqb_refl. f_equal.
    destruct cs as [|c' cs].
    - cbn. rewrite app_nil_r. now apply split_noslash.
    - change (render (c' :: cs)) with (slash :: c' ++ render cs).
      rewrite (split_app_slash c (c' ++ render cs) Hc).
      f_equal. specialize (IH Hcs).
      change (render (c' :: cs)) with (slash :: c' ++ render cs) in IH.
      cbn [Str.split] in IH. rewrite eqb_refl in IH. now inversion IH.
  Qed.

  Lemma parse_render cs :
    Forall (fun c => has_slash c = false) cs -> parse (render cs) = cs.
  Proof.
    intros H. unfold Str.parse. rewrite (split_render cs H). now destruct cs.
  Qed.

  Lemma has_slash_app a b : has_slash (a ++ b) = has_slash a || has_slash b.
  Proof. induction a as [|x a IH]; cbn; [reflexivity|]. now rewrite IH, orb_assoc. Qed.

  (** ** rfind *)
  Lemma rfind_from_app i a s acc :
    rfind_from i (a ++ s) acc = rfind_from (i + length a) s (rfind_from i a acc).
  Proof.
    revert i acc; induction a as [|x a IH]; intros i acc; cbn.
    - now rewrite Nat.add_0_r.
    - rewrite IH. f_equal. lia.
  Qed.

  Lemma rfind_from_noslash i b acc : has_slash b = false -> rfind_from i b acc = acc.
  Proof.
    revert i acc; induction b as [|x b IH]; intros i acc H; cbn in *; [reflexivity|].
    apply orb_false_elim in H as [Hx Hb]. rewrite Hx. now apply IH.
  Qed.

  Lemma rfind_last a b : has_slash b = false -> rfind (a ++ slash :: b) = Some (length a).
  Proof.
    intros Hb. unfold Str.rfind. rewrite rfind_from_app. cbn. rewrite eqb_refl.
    now rewrite rfind_from_noslash.
  Qed.

  Lemma rfind_none b : has_slash b = false -> rfind b = None.
  Proof. intros Hb. unfold Str.rfind. now rewrite rfind_from_noslash. Qed.

  (** ** render *)
  Lemma render_app xs ys : render (xs ++ ys) = render xs ++ render ys.
  Proof. unfold Str.render. now rewrite map_app, concat_app. Qed.

  Lemma render_snoc cs c : render (cs ++ [c]) = render cs ++ slash :: c.
  Proof. rewrite render_app. cbn. now rewrite app_nil_r. Qed.

  (** ** parent / filename on canonical strings *)
  Lemma parent_render_snoc cs c :
    has_slash c = false -> parent_internal (render (cs ++ [c])) = render cs.
  Proof.
    intros Hc. unfold Str.parent_internal. rewrite render_snoc, (rfind_last _ _ Hc).
    now rewrite firstn_app, Nat.sub_diag, firstn_all, app_nil_r.
  Qed.

  Lemma parent_render_nil : parent_internal (render []) = [].
  Proof. reflexivity. Qed.

  Lemma parent_render cs :
    Forall (fun c => has_slash c = false) cs ->
    parent_internal (render cs) = render (removelast cs).
  Proof.
    intros H. destruct cs as [|c0 cs0] using rev_ind; [reflexivity|].
    apply Forall_app in H as [_ Hc]. inversion Hc; subst.
    rewrite removelast_last. now apply parent_render_snoc.
  Qed.

  Lemma filename_render_snoc cs c :
    has_slash c = false -> filename_internal (render (cs ++ [c])) = c.
  Proof.
    intros Hc. unfold Str.filename_internal. rewrite render_snoc, (rfind_last _ _ Hc).
    replace (S (length (render cs))) with (length (render cs ++ [slash])) by (rewrite app_length; cbn; lia).
    change (slash :: c) with ([slash] ++ c). rewrite app_assoc.
    now rewrite skipn_app, skipn_all, Nat.sub_diag.
  Qed.

  Lemma filename_root : filename_internal [] = [].
  Proof. reflexivity. Qed.

  (** ** good components *)
  Lemma good_comp_noslash c : good_comp c = true -> has_slash c = false.
  Proof.
    unfold Str.good_comp. intros H.
    repeat (apply andb_true_iff in H as [H ?]).
    now apply negb_true_iff.
  Qed.

  Lemma good_all_noslash cs :
    forallb good_comp cs = true -> Forall (fun c => has_slash c = false) cs.
  Proof.
    rewrite forallb_forall, Forall_forall. intros H c Hc. apply good_comp_noslash, H, Hc.
  Qed.

  Lemma good_comp_intro c :
    has_slash c = false -> c <> [] -> is_dot c = false -> is_dotdot c = false -> good_comp c = true.
  Proof.
    intros Hs Hn Hd Hdd. unfold Str.good_comp. rewrite Hs, Hd, Hdd.
    destruct c; [congruence|reflexivity].
  Qed.

  Lemma forallb_app {B} (f : B -> bool) xs ys :
    forallb f (xs ++ ys) = forallb f xs && forallb f ys.
  Proof. induction xs; cbn; [reflexivity|]. now rewrite IHxs, andb_assoc. Qed.

  Lemma forallb_removelast {B} (f : B -> bool) xs :
    forallb f xs = true -> forallb f (removelast xs) = true.
  Proof.
    destruct xs as [|x0 xs0] using rev_ind; [trivial|].
    rewrite removelast_last, forallb_app. intros H. now apply andb_true_iff in H as [H _].
  Qed.

  (** ** the join loop simulates lexical resolution *)
  Lemma join_step_sim bs comps component :
    forallb good_comp bs = true -> forallb good_comp comps = true ->
    has_slash component = false ->
    exists bs' comps',
      join_step (render bs, comps) component = (render bs', comps') /\
      bs' ++ comps' = resolve_step (bs ++ comps) component /\
      forallb good_comp bs' = true /\ forallb good_comp comps' = true.
  Proof.
    intros Hbs Hcomps Hc. unfold Str.join_step, Str.resolve_step.
    destruct (is_dot component || Str.is_nil component) eqn:E1.
    { exists bs, comps. auto. }
    destruct (is_dotdot component) eqn:E2.
    { destruct comps as [|c0 comps0].
      - exists (removelast bs), []. rewrite app_nil_r.
        rewrite (parent_render bs (good_all_noslash _ Hbs)).
        repeat split; auto using forallb_removelast. now rewrite app_nil_r.
      - exists bs, (removelast (c0 :: comps0)).
        repeat split; auto using forallb_removelast.
        rewrite removelast_app by discriminate. reflexivity. }
    exists bs, (comps ++ [component]).
    repeat split; auto.
    - now rewrite app_assoc.
    - rewrite forallb_app, Hcomps. cbn. rewrite andb_true_r.
      apply orb_false_elim in E1 as [E1a E1b].
      apply good_comp_intro; auto. intros ->. discriminate.
  Qed.

  Lemma join_fold_sim l : forall bs comps,
    forallb good_comp bs = true -> forallb good_comp comps = true ->
    Forall (fun c => has_slash c = false) l ->
    exists bs' comps',
      fold_left join_step l (render bs, comps) = (render bs', comps') /\
      bs' ++ comps' = fold_left resolve_step l (bs ++ comps) /\
      forallb good_comp bs' = true /\ forallb good_comp comps' = true.
  Proof.
    induction l as [|c l IH]; intros bs comps Hbs Hcomps Hl; cbn [fold_left].
    - exists bs, comps. auto.
    - inversion Hl as [|? ? Hc Hl']; subst.
      destruct (join_step_sim bs comps c Hbs Hcomps Hc) as (bs1 & comps1 & E & R & G1 & G2).
      rewrite E, <- R. now apply IH.
  Qed.

  (** C06: acceptance criterion *)
  Lemma join_reject_iff base arg :
    join_internal base arg = None <->
    (1 < length arg /\ exists a, arg = a ++ [slash]).
  Proof.
    unfold Str.join_internal. destruct arg as [|x arg]; [split; [discriminate|]; cbn; intros []; lia|].
    set (p := x :: arg).
    destruct ((1 <? length p) && Str.ends_with_slash eqb slash p) eqn:E.
    - split; [intros _|reflexivity]. apply andb_true_iff in E as [E1 E2].
      apply Nat.ltb_lt in E1. split; [exact E1|].
      unfold Str.ends_with_slash in E2. destruct (rev p) as [|c r] eqn:Er; [discriminate|].
      destruct (eqb_spec c slash) as [->|]; [|discriminate].
      exists (rev r). rewrite <- (rev_involutive p), Er. reflexivity.
    - split.
      + destruct (fold_left _ _ _). discriminate.
      + intros [H1 [a Ha]]. exfalso.
        apply andb_false_iff in E as [E|E].
        * apply Nat.ltb_ge in E. lia.
        * unfold Str.ends_with_slash in E. rewrite Ha, rev_app_distr in E. cbn in E.
          now rewrite eqb_refl in E.
  Qed.

  (** C06: the result is the lexical resolution, in canonical form *)
  Lemma join_resolve bs arg r :
    forallb good_comp bs = true ->
    join_internal (render bs) arg = Some r ->
    r = render (resolve bs arg) /\ forallb good_comp (resolve bs arg) = true.
  Proof.
    intros Hbs. unfold Str.join_internal, Str.resolve.
    destruct arg as [|x arg].
    { intros [= <-]. cbn. auto. }
    set (p := x :: arg).
    destruct ((1 <? length p) && _); [discriminate|].
    set (b0 := if Str.starts_with_slash eqb slash p then [] else bs).
    assert (Hb0 : forallb good_comp b0 = true) by (unfold b0; destruct (Str.starts_with_slash _ _ _); auto).
    replace (if Str.starts_with_slash eqb slash p then [] else render bs) with (render b0)
      by (unfold b0; destruct (Str.starts_with_slash _ _ _); reflexivity).
    destruct (join_fold_sim (split p) b0 [] Hb0 eq_refl (split_all_noslash p))
      as (bs' & comps' & E & R & G1 & G2).
    intros Hj.
    assert (Hr : Some (render bs' ++ render comps') = Some r).
    { change (match (render bs', comps') with (bp, nc) => Some (bp ++ render nc) end = Some r).
      rewrite <- E. exact Hj. }
    injection Hr as <-. rewrite app_nil_r in R. rewrite <- R, render_app.
    split; [reflexivity|]. now rewrite forallb_app, G1, G2.
  Qed.

  Lemma join_canonical base arg r :
    canonical base -> join_internal base arg = Some r -> canonical r.
  Proof.
    intros (bs & -> & Hbs) Hj. destruct (join_resolve bs arg r Hbs Hj) as [-> G].
    now exists (resolve bs arg).
  Qed.

  (** total: on canonical bases the function always answers ([Some] unless trailing slash) *)
  Lemma join_total base arg :
    (exists r, join_internal base arg = Some r) \/ join_internal base arg = None.
  Proof. destruct (join_internal base arg); eauto. Qed.

  (** '..' at the root stays at the root; a leading '/' restarts from the root *)

  Lemma is_dot_dotdot : is_dot [dot; dot] = false.
  Proof. cbn. rewrite eqb_refl. reflexivity. Qed.
  Lemma is_dotdot_dotdot : is_dotdot [dot; dot] = true.
  Proof. cbn. now rewrite !eqb_refl. Qed.

  Lemma resolve_step_dotdot cs : resolve_step cs [dot; dot] = removelast cs.
  Proof. unfold Str.resolve_step. now rewrite is_dot_dotdot, is_dotdot_dotdot. Qed.

  Lemma resolve_dotdot_root : resolve_step [] [dot; dot] = [].
  Proof. now rewrite resolve_step_dotdot. Qed.

  Lemma resolve_absolute bs bs' arg :
    Str.starts_with_slash eqb slash arg = true -> resolve bs arg = resolve bs' arg.
  Proof. intros H. unfold Str.resolve. now rewrite H. Qed.

  (** never above the root: the length of the resolution is bounded below by 0
      trivially; the real content is that resolution from the root of any number
      of leading ".." equals resolution of the rest. *)
  Lemma resolve_step_nil_dotdots n rest :
    fold_left resolve_step (repeat [dot; dot] n ++ rest) [] = fold_left resolve_step rest [].
  Proof.
    induction n as [|n IH]; [reflexivity|].
    cbn [repeat app fold_left]. now rewrite resolve_dotdot_root.
  Qed.

  (** joining a plain name appends it; parent undoes it *)
  Lemma join_name bs n :
    forallb good_comp bs = true -> good_comp n = true ->
    join_internal (render bs) n = Some (render (bs ++ [n])).
  Proof.
    intros Hbs Hn. pose proof (good_comp_noslash n Hn) as Hs.
    destruct (join_internal (render bs) n) as [r|] eqn:E.
    - destruct (join_resolve bs n r Hbs E) as [-> _]. f_equal. f_equal.
      unfold Str.resolve. rewrite (split_noslash n Hs).
      assert (Str.starts_with_slash eqb slash n = false) as ->.
      { destruct n as [|x n]; [reflexivity|]. cbn in *. now apply orb_false_elim in Hs as [-> _]. }
      cbn. unfold Str.resolve_step. unfold Str.good_comp in Hn.
      repeat (apply andb_true_iff in Hn as [Hn ?]).
      repeat match goal with H : negb _ = true |- _ => apply negb_true_iff in H; rewrite H end.
      try (apply negb_true_iff in Hn; rewrite Hn); reflexivity.
    - exfalso. apply join_reject_iff in E as [_ [a ->]].
      rewrite has_slash_app in Hs. cbn in Hs. rewrite eqb_refl in Hs.
      now rewrite orb_true_r in Hs.
  Qed.

  Lemma parent_join bs n p :
    forallb good_comp bs = true -> good_comp n = true ->
    join_internal (render bs) n = Some p -> parent_internal p = render bs.
  Proof.
    intros Hbs Hn. rewrite (join_name bs n Hbs Hn). intros [= <-].
    apply parent_render_snoc, good_comp_noslash, Hn.
  Qed.

  Lemma filename_join bs n p :
    forallb good_comp bs = true -> good_comp n = true ->
    join_internal (render bs) n = Some p -> filename_internal p = n.
  Proof.
    intros Hbs Hn. rewrite (join_name bs n Hbs Hn). intros [= <-].
    apply filename_render_snoc, good_comp_noslash, Hn.
  Qed.

  (** canonical forms are closed under parent and under appending a listed child *)
  Lemma parent_canonical s : canonical s -> canonical (parent_internal s).
  Proof.
    intros (cs & -> & H). exists (removelast cs). split.
    - apply parent_render, good_all_noslash, H.
    - now apply forallb_removelast.
  Qed.

  Lemma child_canonical s n :
    canonical s -> good_comp n = true -> canonical (s ++ slash :: n).
  Proof.
    intros (cs & -> & H) Hn. exists (cs ++ [n]). split.
    - now rewrite render_snoc.
    - rewrite forallb_app, H. cbn. now rewrite Hn.
  Qed.

  Lemma root_canonical : canonical [].
  Proof. now exists []. Qed.

  (** filename is the last component; the root has the empty file name *)
  Lemma filename_canonical cs :
    forallb good_comp cs = true -> filename_internal (render cs) = last cs [].
  Proof.
    intros H. destruct cs as [|c0 cs0] using rev_ind; [reflexivity|].
    rewrite last_last. apply filename_render_snoc.
    rewrite forallb_app in H. apply andb_true_iff in H as [_ H]. cbn in H.
    rewrite andb_true_r in H. now apply good_comp_noslash.
  Qed.
  (** ** extension: the suffix after the last '.', when something precedes it *)
  Notation rfind_dot_from := (rfind_dot_from eqb dot).
  Fixpoint has_dot (c : str) : bool :=
    match c with [] => false | x :: c' => eqb x dot || has_dot c' end.

  Lemma rfind_dot_from_app i a s acc :
    rfind_dot_from i (a ++ s) acc = rfind_dot_from (i + length a) s (rfind_dot_from i a acc).
  Proof.
    revert i acc; induction a as [|x a IH]; intros i acc; cbn.
    - now rewrite Nat.add_0_r.
    - rewrite IH. f_equal. lia.
  Qed.
  Lemma rfind_dot_from_nodot i b acc : has_dot b = false -> rfind_dot_from i b acc = acc.
  Proof.
    revert i acc; induction b as [|x b IH]; intros i acc H; cbn in *; [reflexivity|].
    apply orb_false_elim in H as [Hx Hb]. rewrite Hx. now apply IH.
  Qed.

  Lemma extension_nodot cs n :
    has_slash n = false -> has_dot n = false ->
    extension_internal (render (cs ++ [n])) = None.
  Proof.
    intros Hs Hd. unfold Str.extension_internal. rewrite (filename_render_snoc cs n Hs).
    now rewrite rfind_dot_from_nodot.
  Qed.

  Lemma extension_lastdot cs (n b e : str) :
    n = b ++ dot :: e -> has_slash n = false -> has_dot e = false ->
    extension_internal (render (cs ++ [n])) =
    match b with [] => None | _ => Some e end.
  Proof.
    intros Hn Hs Hd. unfold Str.extension_internal. rewrite (filename_render_snoc cs n Hs). subst n.
    rewrite rfind_dot_from_app. cbn. rewrite eqb_refl, (rfind_dot_from_nodot _ e _ Hd).
    rewrite firstn_app, Nat.sub_diag, firstn_all. cbn. rewrite app_nil_r.
    destruct b as [|x b]; [reflexivity|].
    f_equal. cbn [app length].
    change (skipn (S (length b)) (b ++ dot :: e) = e).
    replace (S (length b)) with (length (b ++ [dot])) by (rewrite app_length; cbn; lia).
    change (dot :: e) with ([dot] ++ e). rewrite app_assoc, skipn_app, skipn_all, Nat.sub_diag.
    reflexivity.
  Qed.

  (** ** the relative-join bridge used by AltrootFS::path and OverlayFS: joining the
      string of a canonical path without its leading '/' appends its components *)
  Lemma resolve_render_tail bs cs :
    forallb good_comp cs = true -> cs <> [] ->
    resolve bs (tl (render cs)) = bs ++ cs.
  Proof.
    intros Hcs Hne. destruct cs as [|c cs]; [congruence|].
    change (render (c :: cs)) with (slash :: c ++ render cs). cbn [tl].
    assert (Hall := good_all_noslash _ Hcs). inversion Hall as [|? ? Hc Hrest]; subst.
    unfold Str.resolve.
    assert (Hst : Str.starts_with_slash eqb slash (c ++ render cs) = false).
    { cbn in Hcs. apply andb_true_iff in Hcs as [Hg _].
      destruct c as [|x c]; [discriminate|]. cbn in *. now apply orb_false_elim in Hc as [-> _]. }
    rewrite Hst.
    assert (Hsplit : split (c ++ render cs) = c :: cs).
    { destruct cs as [|c' cs'].
      - cbn. rewrite app_nil_r. now apply split_noslash.
      - change (render (c' :: cs')) with (slash :: c' ++ render cs').
        rewrite (split_app_slash c _ Hc). f_equal.
        pose proof (split_render (c' :: cs') Hrest) as E.
        change (render (c' :: cs')) with (slash :: c' ++ render cs') in E.
        cbn [Str.split] in E. rewrite eqb_refl in E. now inversion E. }
    rewrite Hsplit.
    clear Hsplit Hst Hall Hc Hrest Hne. revert bs.
    generalize (c :: cs) Hcs. clear c cs Hcs.
    intros l; induction l as [|x l IH]; intros Hl bs; cbn [fold_left].
    - now rewrite app_nil_r.
    - cbn in Hl. apply andb_true_iff in Hl as [Hx Hl].
      rewrite (IH Hl). unfold Str.resolve_step.
      unfold Str.good_comp in Hx.
      repeat (apply andb_true_iff in Hx as [Hx ?]).
      repeat match goal with H : negb _ = true |- _ => apply negb_true_iff in H; rewrite H end.
      destruct x as [|x0 x]; [discriminate|]. cbn. now rewrite <- app_assoc.
  Qed.

  Lemma join_relative bs cs :
    forallb good_comp bs = true -> forallb good_comp cs = true -> cs <> [] ->
    join_internal (render bs) (tl (render cs)) = Some (render (bs ++ cs)).
  Proof.
    intros Hbs Hcs Hne.
    destruct (join_internal (render bs) (tl (render cs))) as [r|] eqn:E.
    - destruct (join_resolve bs _ r Hbs E) as [-> _]. now rewrite resolve_render_tail.
    - exfalso. apply join_reject_iff in E as [_ [a Ha]].
      (* a canonical string never ends in '/' *)
      destruct cs as [|c0 cs0] using rev_ind; [congruence|].
      rewrite render_snoc in Ha.
      rewrite forallb_app in Hcs. apply andb_true_iff in Hcs as [_ Hc]. cbn in Hc.
      rewrite andb_true_r in Hc.
      assert (Hne0 : c0 <> []) by (intros ->; discriminate).
      pose proof (good_comp_noslash _ Hc) as Hns.
      destruct c0 as [|x c0] using rev_ind; [congruence|].
      assert (Hlast : last (tl (render cs0 ++ slash :: c0 ++ [x])) slash = x).
      { destruct (render cs0) as [|y r0]; cbn [tl app].
        - now rewrite last_last.
        - rewrite app_comm_cons, app_assoc. now rewrite last_last. }
      rewrite Ha, last_last in Hlast. subst x.
      rewrite has_slash_app in Hns. cbn in Hns. rewrite eqb_refl in Hns.
      now rewrite orb_true_r in Hns.
  Qed.
End StrProofs.
