(** The string-level listing scan of MemoryFS ([MemoryFsImpl::list], src/impls/memory.rs):
    a key is a child of [path] when it starts with [path ++ "/"] and the rest holds no further
    '/'.  On rendered component lists this is exactly "key = path ++ [name]" - the component-level
    [child_of] the filesystem model uses. *)
From Coq Require Import List Bool Arith Lia.
Import ListNotations.
From VFS Require Import Path.Str Path.StrProofs.

Section StrChild.
  Context {A : Type}.
  Variable eqb : A -> A -> bool.
  Variable slash dot : A.
  Hypothesis eqb_spec : forall a b, reflect (a = b) (eqb a b).

  Notation str := (@str A).
  Notation has_slash := (has_slash eqb slash).
  Notation render := (@render A slash).
  Notation parse := (parse eqb slash).

  (** [candidate.starts_with(prefix)] with the rest: [&candidate[prefix.len()..]] *)
  Fixpoint strip_prefix (p s : str) : option str :=
    match p, s with
    | [], _ => Some s
    | _ :: _, [] => None
    | a :: p', b :: s' => if eqb a b then strip_prefix p' s' else None
    end.

  (** the body of the [filter_map] closure *)
  Definition str_child (path cand : str) : option str :=
    match strip_prefix (path ++ [slash]) cand with
    | Some rest => if has_slash rest then None else Some rest
    | None => None
    end.

  Lemma strip_prefix_spec p : forall s r, strip_prefix p s = Some r <-> s = p ++ r.
  Proof.
    induction p as [|a p IH]; intros s r; cbn.
    - split; [intros [= ->]; reflexivity|intros ->; reflexivity].
    - destruct s as [|b s]; [split; [discriminate|intros H; discriminate]|].
      destruct (eqb_spec a b) as [->|Hne].
      + rewrite IH. split; [intros ->; reflexivity|intros [= ->]; reflexivity].
      + split; [discriminate|intros [= -> _]; congruence].
  Qed.

  Definition noslash (cs : list str) : Prop := Forall (fun c => has_slash c = false) cs.

  Lemma render_inj cs ds : noslash cs -> noslash ds -> render cs = render ds -> cs = ds.
  Proof.
    intros Hc Hd E. rewrite <- (parse_render eqb slash eqb_spec cs Hc), <- (parse_render eqb slash eqb_spec ds Hd).
    now rewrite E.
  Qed.

  (** the scan selects exactly the keys one component below [p], and yields that component *)
  Theorem str_child_spec p k n :
    noslash p -> noslash k ->
    str_child (render p) (render k) = Some n <-> (k = p ++ [n] /\ has_slash n = false).
  Proof.
    intros Hp Hk. unfold str_child. split.
    - destruct (strip_prefix (render p ++ [slash]) (render k)) as [rest|] eqn:E; [|discriminate].
      destruct (has_slash rest) eqn:Hs; [discriminate|]. intros [= <-].
      apply strip_prefix_spec in E. split; [|exact Hs].
      apply render_inj; [exact Hk| |].
      + apply Forall_app. split; [exact Hp|]. constructor; [exact Hs|constructor].
      + rewrite E, (render_snoc slash p rest), <- app_assoc. reflexivity.
    - intros [-> Hs].
      assert (E : strip_prefix (render p ++ [slash]) (render (p ++ [n])) = Some n).
      { apply strip_prefix_spec. rewrite (render_snoc slash p n), <- app_assoc. reflexivity. }
      rewrite E, Hs. reflexivity.
  Qed.

  (** a name that merely starts like the directory's own name (a sibling [p ++ suffix]) is never a
      child: the scan looks at the separator *)
  Corollary str_child_sibling p c suffix :
    noslash (p ++ [c]) -> noslash (p ++ [c ++ suffix]) -> suffix <> [] ->
    str_child (render (p ++ [c])) (render (p ++ [c ++ suffix])) = None.
  Proof.
    intros H1 H2 Hne.
    destruct (str_child (render (p ++ [c])) (render (p ++ [c ++ suffix]))) as [n|] eqn:E; [|reflexivity].
    apply str_child_spec in E as [E _]; [|exact H1|exact H2].
    exfalso. assert (L : length (p ++ [c ++ suffix]) = length ((p ++ [c]) ++ [n])) by now rewrite E.
    rewrite !app_length in L. cbn in L. lia.
  Qed.
End StrChild.
