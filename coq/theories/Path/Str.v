(** * String layer: line-for-line transcription of the string manipulation in
    src/path.rs (PathLike: join_internal, parent_internal, filename_internal,
    extension_internal) over an abstract alphabet.

    A string is a list of letters.  Rust strings are UTF-8 byte sequences and
    the only letters the crate inspects are '/' and '.', both ASCII, so every
    [rfind('/')], [split('/')], [starts_with], [ends_with] and slice at an index
    returned by one of them acts on the byte list exactly as written here
    (fact F3 of DESIGN.md).  No proofs in this file: it must keep extracting
    and running when a proof is broken. *)
From Coq Require Import List Bool Arith.
Import ListNotations.

Section Str.
  Context {A : Type}.
  Variable eqb : A -> A -> bool.
  Variable slash dot : A.

  Definition str := list A.

  Fixpoint str_eqb (a b : str) : bool :=
    match a, b with
    | [], [] => true
    | x :: a', y :: b' => eqb x y && str_eqb a' b'
    | _, _ => false
    end.

  (** [str::split('/')]: "" -> [""], "a/b" -> ["a";"b"], "/a" -> ["";"a"], "a/" -> ["a";""]. *)
  Fixpoint split (s : str) : list str :=
    match s with
    | [] => [[]]
    | c :: s' =>
        if eqb c slash then [] :: split s'
        else match split s' with
             | [] => [[c]]
             | w :: ws => (c :: w) :: ws
             end
    end.

  (** [str::rfind('/')]: index of the last slash. *)
  Fixpoint rfind_from (i : nat) (s : str) (acc : option nat) : option nat :=
    match s with
    | [] => acc
    | c :: s' => rfind_from (S i) s' (if eqb c slash then Some i else acc)
    end.
  Definition rfind (s : str) : option nat := rfind_from 0 s None.

  Definition starts_with_slash (s : str) : bool :=
    match s with c :: _ => eqb c slash | [] => false end.
  Definition ends_with_slash (s : str) : bool :=
    match rev s with c :: _ => eqb c slash | [] => false end.

  (** path.rs:47  parent_internal: [path[..idx]] for the last '/', else "". *)
  Definition parent_internal (p : str) : str :=
    match rfind p with Some i => firstn i p | None => [] end.

  (** path.rs:27  filename_internal: [path[index..]] with index = rfind+1 or 0. *)
  Definition filename_internal (p : str) : str :=
    match rfind p with Some i => skipn (S i) p | None => p end.

  (** [rsplitn(2,'.')] on the file name: (after, Some before) for the last dot,
      (whole, None) if there is none. *)
  Fixpoint rfind_dot_from (i : nat) (s : str) (acc : option nat) : option nat :=
    match s with
    | [] => acc
    | c :: s' => rfind_dot_from (S i) s' (if eqb c dot then Some i else acc)
    end.
  (** path.rs:33  extension_internal *)
  Definition extension_internal (p : str) : option str :=
    let f := filename_internal p in
    match rfind_dot_from 0 f None with
    | None => None                       (* before = None *)
    | Some i => match firstn i f with
                | [] => None             (* before = Some("") *)
                | _ => Some (skipn (S i) f)
                end
    end.

  Definition is_dot (c : str) : bool := str_eqb c [dot].
  Definition is_dotdot (c : str) : bool := str_eqb c [dot; dot].
  Definition is_nil (c : str) : bool := match c with [] => true | _ => false end.

  (** One iteration of the [for component in path.split('/')] loop, path.rs:63-75.
      State: (base_path, new_components). *)
  Definition join_step (st : str * list str) (component : str) : str * list str :=
    let '(base_path, new_components) := st in
    if is_dot component || is_nil component then st
    else if is_dotdot component then
           match new_components with
           | [] => (parent_internal base_path, [])
           | _ => (base_path, removelast new_components)
           end
         else (base_path, new_components ++ [component]).

  (** [path += "/"; path += component] for each component *)
  Definition render (cs : list str) : str := concat (map (fun c => slash :: c) cs).

  (** path.rs:52  join_internal; [None] = Err(InvalidPath). *)
  Definition join_internal (in_path path : str) : option str :=
    match path with
    | [] => Some in_path
    | _ =>
        let base0 := if starts_with_slash path then [] else in_path in
        if (1 <? length path) && ends_with_slash path then None
        else
          let '(base_path, new_components) := fold_left join_step (split path) (base0, []) in
          Some (base_path ++ render new_components)
    end.

  (** Component view of a canonical string: "" -> [], "/a/b" -> [a;b]. *)
  Definition parse (s : str) : list str := tl (split s).

  (** * Reference semantics used in the statements of C06 *)
  Definition resolve_step (cs : list str) (component : str) : list str :=
    if is_dot component || is_nil component then cs
    else if is_dotdot component then removelast cs
         else cs ++ [component].
  (** lexical resolution of [arg] against the component list [bs] *)
  Definition resolve (bs : list str) (arg : str) : list str :=
    fold_left resolve_step (split arg) (if starts_with_slash arg then [] else bs).

  Fixpoint has_slash (c : str) : bool :=
    match c with [] => false | x :: c' => eqb x slash || has_slash c' end.
  (** a valid path component: non-empty, no '/', not "." and not ".." *)
  Definition good_comp (c : str) : bool :=
    negb (is_nil c) && negb (has_slash c) && negb (is_dot c) && negb (is_dotdot c).
  (** canonical form: "" or ("/" component)+ *)
  Definition canonical (s : str) : Prop :=
    exists cs, s = render cs /\ forallb good_comp cs = true.
  Definition canonicalb (s : str) : bool :=
    match s with
    | [] => true
    | _ => starts_with_slash s && forallb good_comp (parse s)
    end.
End Str.
