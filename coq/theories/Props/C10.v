(** * C10 — Overlay deletions persist, re-creation starts fresh, bookkeeping is hidden (pinned
    statements).  partial: the theorems characterise the marker mechanism for ANY layers and any
    later history (a present marker hides the path from every observation; distinct paths have
    distinct markers; the bookkeeping directory is never listed; a listed marker is subtracted from
    its directory's listing); that removal sets the marker and re-creation clears it is part of the
    model programs ([set_whiteout], [clear_whiteout]) checked by the correspondence runs. *)
From stdpp Require Import gmap list.
From Coq Require Import NArith ZArith.
From VFS Require Import Core.Types Core.Prog Core.Calls Base.MemFS Layer.VfsPath Layer.Overlay
  Proofs.Leaves Proofs.OvlProofs.

(** while the marker of a path is present the path is absent from exists, metadata, open_file and
    read_dir - for every handler (so for all layer contents and all later histories that keep the marker) *)
Theorem C10_marker_hides : forall (S : Type) (h : handler brep S) top lower p s s1,
  p <> [] -> run h (vp_exists (fst top) (whiteout_path top p)) s = (s1, Ok true) ->
  run h (ovl_exists top lower p) s = (s1, Ok false) /\
  run h (ovl_metadata top lower p) s = (s1, fail ENotFound) /\
  run h (ovl_impl top lower (COpenFile p)) s = (s1, fail ENotFound) /\
  run h (ovl_read_dir top lower p) s = (s1, fail ENotFound).
Proof.
  intros S h top lower p s s1 Hp H. repeat split.
  - now apply marker_exists. - now apply marker_metadata. - now apply marker_open_file. - now apply marker_read_dir.
Qed.

(** a marker belongs to exactly one path: removing one entry never hides another *)
Theorem C10_marker_injective : forall (top : vfs * list (list N)) p q,
  Forall (fun n => n <> []) p -> Forall (fun n => n <> []) q ->
  whiteout_path top p = whiteout_path top q -> p = q.
Proof. exact whiteout_path_inj. Qed.

(** the bookkeeping directory never appears in the root listing, whatever the layers answer *)
Theorem C10_bookkeeping_hidden : forall top lower,
  leaves (fun _ _ => True) (fun r => match r with Ok l => whiteout_name ∉ l | _ => True end)
         (ovl_read_dir top lower []).
Proof. exact root_listing_hides_markers. Qed.

(** an entry whose marker is listed in the bookkeeping directory is subtracted from the listing *)
Theorem C10_listing_subtracts : forall (entries : list (list N)) (markers : list (list (list N))) x,
  (exists q, q ∈ markers /\ last q = Some (x ++ wo_suffix)) ->
  x ∉ foldl (fun a q => match last q with
                        | Some n => if ends_with_wo n then remove_name (strip_wo n) a else a
                        | None => a
                        end) entries markers.
Proof. exact subtract_markers. Qed.

Example C10_example :
  whiteout_path (v0, [[117%N]]) [[97%N]; [98%N]] = [[117%N]; whiteout_name; [97%N]; [98%N; 95%N; 119%N; 111%N]] /\
  whiteout_path (v0, []) [] = [whiteout_name; wo_suffix].
Proof. vm_compute. split; reflexivity. Qed.

Print Assumptions C10_marker_hides.
Print Assumptions C10_marker_injective.
Print Assumptions C10_bookkeeping_hidden.
Print Assumptions C10_listing_subtracts.
Print Assumptions C10_example.
