(** * C10 — Overlay deletions persist, re-creation starts fresh, bookkeeping is hidden (pinned
    statements).  partial: the theorems characterise the marker mechanism for ANY layers and any
    later history (a present marker hides the path from every observation; distinct paths have
    distinct markers; the bookkeeping directory is never listed; a listed marker is subtracted from
    its directory's listing); and, on an overlay of two MemoryFS layers with arbitrary contents, the
    life cycle itself: removing a file that exists only in the lower layer sets its marker (and
    changes nothing else: the lower layer not at all), after which the overlay does not see it;
    re-creating a deleted top-level file removes the marker and yields an empty file, whatever the
    lower layer holds; re-creating a deleted top-level directory removes the marker and puts an empty
    directory into the upper layer, and a directory of the upper layer whose lower-layer children
    are all marked lists NOTHING (a re-created directory is empty).  Removing a lower-only directory whose entries
    are all deleted sets its marker likewise.  Whole-subtree removal (the walk of remove_dir_all) and
    deeper re-creations are decided by the correspondence. *)
From stdpp Require Import gmap list.
From Coq Require Import NArith ZArith.
From VFS Require Import Core.Types Core.Prog Core.Calls Base.MemFS Base.Handles Base.Store Layer.VfsPath Layer.Overlay Layer.Config
  Spec.Tree Proofs.Leaves Proofs.MemProofs Proofs.ConcProofs Proofs.OvlProofs Proofs.OvlList Proofs.OvlLife Proofs.OvlDeep.

Notation mstate := (gmap (list (list N)) memfile).

(** while the marker of a path is present - and the write layer does not hold the path itself: an entry
    of the write layer is newer than a marker (repair a7ee48b) - the path is absent from exists,
    metadata, open_file and read_dir, whatever the lower layers contain - for every handler (so for
    all layer contents and all later histories that keep the marker) *)
Theorem C10_marker_hides : forall (S : Type) (h : handler brep S) top lower p s s0 s1,
  p <> [] ->
  run h (vp_exists (fst top) (write_path top p)) s = (s0, Ok false) ->
  run h (vp_exists (fst top) (whiteout_path top p)) s0 = (s1, Ok true) ->
  run h (ovl_exists top lower p) s = (s1, Ok false) /\
  run h (ovl_metadata top lower p) s = (s1, fail ENotFound) /\
  run h (ovl_impl top lower (COpenFile p)) s = (s1, fail ENotFound) /\
  run h (ovl_read_dir top lower p) s = (s1, fail ENotFound).
Proof.
  intros S h top lower p s s0 s1 Hp Hu H. repeat split.
  - eapply marker_exists; eauto. - eapply marker_metadata; eauto. - eapply marker_open_file; eauto. - eapply marker_read_dir; eauto.
Qed.

(** a marker belongs to exactly one path: removing one entry never hides another *)
Theorem C10_marker_injective : forall (top : vfs * list (list N)) p q,
  Forall (fun n => n <> []) p -> Forall (fun n => n <> []) q ->
  whiteout_path top p = whiteout_path top q -> p = q.
Proof. exact whiteout_path_inj. Qed.

(** the bookkeeping directory never appears in the root listing, whatever the layers answer *)
Theorem C10_bookkeeping_hidden : forall top lower,
  leaves (fun _ _ => True) (fun r => match r with Ok l => whiteout_name ∉ l | _ => True end)
         (ovl_read_dir top lower []).
Proof. exact root_listing_hides_markers. Qed.

(** an entry whose marker is listed in the bookkeeping directory is subtracted from the listing *)
Theorem C10_listing_subtracts : forall (entries : list (list N)) (markers : list (list (list N))) x,
  (exists q, q ∈ markers /\ last q = Some (x ++ wo_suffix)) ->
  x ∉ foldl (fun a q => match last q with
                        | Some n => if ends_with_wo n then remove_name (strip_wo n) a else a
                        | None => a
                        end) entries markers.
Proof. exact subtract_markers. Qed.

(** removal sets the marker: a file present only in the lower layer, removed through the overlay *)
Theorem C10_removal_sets_marker : forall lg ft (s0 s1 : gmap (list (list N)) memfile) hs (p : path),
  wf s0 -> p <> [] ->
  s0 !! whiteout_path (v0, []) p = None -> s0 !! p = None -> is_Some (s1 !! p) ->
  Forall (not_file s0) (prefixes (removelast (whiteout_path (v0, []) p))) ->
  exists s0',
    run bhandler (ovl_impl (v0, []) [(v1, [])] (CRemoveFile p)) (mstore2 s0 s1 hs lg ft) =
      (mstore2 s0' s1 (hs ++ [HClosed]) lg ft, Ok tt) /\
    is_Some (s0' !! whiteout_path (v0, []) p) /\
    (forall q, q ∉ prefixes (whiteout_path (v0, []) p) -> s0' !! q = s0 !! q) /\
    wf s0'.
Proof. exact remove_lower_file_sets_marker. Qed.

(** a file that BOTH layers have (overwritten, appended to or re-created through the overlay): removing
    it deletes the upper copy and sets the marker - without the marker the lower copy would show
    through; nothing else changes *)
Theorem C10_removing_a_shadowing_file : forall lg ft (s0 s1 : gmap (list (list N)) memfile) hs (p : path) g,
  wf s0 -> p <> [] ->
  s0 !! whiteout_path (v0, []) p = None -> s0 !! p = Some g -> f_type g = File ->
  whiteout_path (v0, []) p <> p ->
  Forall (not_file s0) (prefixes (removelast (whiteout_path (v0, []) p))) ->
  p ∉ prefixes (removelast (whiteout_path (v0, []) p)) ->
  exists s0',
    run bhandler (ovl_impl (v0, []) [(v1, [])] (CRemoveFile p)) (mstore2 s0 s1 hs lg ft) =
      (mstore2 s0' s1 (hs ++ [HClosed]) lg ft, Ok tt) /\
    s0' !! p = None /\ is_Some (s0' !! whiteout_path (v0, []) p) /\
    (forall q, q <> p -> q ∉ prefixes (whiteout_path (v0, []) p) -> s0' !! q = s0 !! q) /\
    wf s0'.
Proof. exact remove_shadowing_file_sets_marker. Qed.

(** the same for a directory that exists only in the lower layer and whose entries have all been
    removed through the overlay (the last step of a remove_dir_all): remove_dir sets its marker,
    changes nothing else - the lower layer not at all -, after which C10_removed_is_absent applies *)
Theorem C10_dir_removal_sets_marker : forall lg ft (s0 s1 : gmap (list (list N)) memfile) hs (p : path),
  wf s0 -> p <> [] ->
  s0 !! whiteout_path (v0, []) p = None -> s0 !! p = None -> is_dir s1 p ->
  (s0 !! (whiteout_name :: p) = None \/ is_dir s0 (whiteout_name :: p)) ->
  (forall c, is_Some (s1 !! (p ++ [c])) -> is_Some (s0 !! whiteout_path (v0, []) (p ++ [c]))) ->
  Forall (not_file s0) (prefixes (removelast (whiteout_path (v0, []) p))) ->
  exists s0',
    run bhandler (ovl_impl (v0, []) [(v1, [])] (CRemoveDir p)) (mstore2 s0 s1 hs lg ft) =
      (mstore2 s0' s1 (hs ++ [HClosed]) lg ft, Ok tt) /\
    is_Some (s0' !! whiteout_path (v0, []) p) /\
    (forall q, q ∉ prefixes (whiteout_path (v0, []) p) -> s0' !! q = s0 !! q) /\
    wf s0'.
Proof. exact remove_lower_dir_sets_marker. Qed.

(** and from then on the overlay does not see the file although the lower layer still has it *)
Theorem C10_removed_is_absent : forall lg ft (s1 s0' : gmap (list (list N)) memfile) (hs' : list hstate) (p : path),
  p <> [] -> is_Some (s0' !! whiteout_path (v0, []) p) -> s0' !! p = None ->
  run bhandler (ovl_exists (v0, []) [(v1, [])] p) (mstore2 s0' s1 hs' lg ft) = (mstore2 s0' s1 hs' lg ft, Ok false) /\
  run bhandler (ovl_metadata (v0, []) [(v1, [])] p) (mstore2 s0' s1 hs' lg ft) = (mstore2 s0' s1 hs' lg ft, fail ENotFound).
Proof. exact removed_file_is_absent. Qed.

(** re-creation starts fresh: creating a deleted top-level file removes its marker and yields an
    empty file in the upper layer *)
Theorem C10_recreation_clears_marker : forall lg ft (s0 s1 : gmap (list (list N)) memfile) hs (n : list N) g,
  wf s0 -> s0 !! whiteout_path (v0, []) [] = None ->
  s0 !! whiteout_path (v0, []) [n] = Some g -> f_type g = File -> s0 !! [n] = None ->
  run bhandler (ovl_impl (v0, []) [(v1, [])] (CCreateFile [n])) (mstore2 s0 s1 hs lg ft) =
  (mstore2 (delete (whiteout_path (v0, []) [n]) (<[[n] := mkMemFile File [] TAuto (Some TAuto) (Some TAuto)]> s0)) s1
           (hs ++ [HMemWriter 0 [n] [] 0]) lg ft, Ok (length hs)).
Proof. exact recreate_clears_marker. Qed.

Theorem C10_recreated_file_is_fresh : forall lg ft (s0 s1 : gmap (list (list N)) memfile) hs (n : list N) g,
  s0 !! whiteout_path (v0, []) [n] = Some g ->
  let s0' := delete (whiteout_path (v0, []) [n]) (<[[n] := mkMemFile File [] TAuto (Some TAuto) (Some TAuto)]> s0) in
  run bhandler (ovl_metadata (v0, []) [(v1, [])] [n]) (mstore2 s0' s1 hs lg ft) =
  (mstore2 s0' s1 hs lg ft, Ok (mem_meta (mkMemFile File [] TAuto (Some TAuto) (Some TAuto)))).
Proof. exact recreated_file_is_fresh. Qed.

(** a re-created directory: the marker goes, an empty directory appears in the upper layer ... *)
Theorem C10_recreated_dir_clears_marker : forall lg ft (s0 s1 : gmap (list (list N)) memfile) hs (n : list N) g,
  wf s0 -> s0 !! whiteout_path (v0, []) [] = None ->
  s0 !! whiteout_path (v0, []) [n] = Some g -> f_type g = File -> s0 !! [n] = None ->
  run bhandler (ovl_impl (v0, []) [(v1, [])] (CCreateDir [n])) (mstore2 s0 s1 hs lg ft) =
  (mstore2 (delete (whiteout_path (v0, []) [n]) (<[[n] := mkMemFile Dir [] TAuto (Some TAuto) (Some TAuto)]> s0)) s1 hs lg ft, Ok tt).
Proof. exact recreate_dir_clears_marker. Qed.

(** ... and it is empty: what the lower layer holds below it stays hidden by the markers of the
    earlier removal - for a directory at any depth *)
Theorem C10_recreated_dir_is_empty : forall lg ft (s0 s1 : gmap (list (list N)) memfile) hs (p : path),
  parent_closed s0 -> p <> [] ->
  s0 !! whiteout_path (v0, []) p = None -> is_dir s0 p ->
  (s0 !! (whiteout_name :: p) = None \/ is_dir s0 (whiteout_name :: p)) ->
  (forall c, s0 !! (p ++ [c]) = None) ->
  (forall c, is_Some (s1 !! (p ++ [c])) -> is_Some (s0 !! whiteout_path (v0, []) (p ++ [c]))) ->
  run bhandler (ovl_read_dir (v0, []) [(v1, [])] p) (mstore2 s0 s1 hs lg ft) = (mstore2 s0 s1 hs lg ft, Ok []).
Proof. exact recreated_dir_is_empty. Qed.

(** ** persistence across later operations.  [view s0 s1 q]: what the overlay shows at q; [view_step s1 p a b]: going
    from write-layer state a to b changes the view at no path of the caller's namespace other than p.  The
    mutating calls characterised in C09 (create_dir, create_file, remove_file, remove_dir at any depth) are such
    steps for the path they name; along ANY chain of such steps a path that no step names keeps showing what it
    showed - a deleted entry stays absent, with the lower layer's bytes hidden, however many operations follow. *)
Theorem C10_unnamed_paths_keep_their_view : forall (s1 a c : mstate) (ps : list path) (q : path),
  view_chain s1 a ps c -> user_path q -> q ∉ ps -> view c s1 q = view a s1 q.
Proof. exact chain_keeps_view. Qed.

Theorem C10_deleted_stays_deleted : forall (s1 a c : mstate) (ps : list path) (q : path),
  view_chain s1 a ps c -> user_path q -> q ∉ ps -> view a s1 q = None -> view c s1 q = None.
Proof. intros s1 a c ps q Hc Hq Hn Ha. rewrite (chain_keeps_view s1 a c ps q Hc Hq Hn). exact Ha. Qed.

(** the calls are such steps (the existential states are those of the C09 theorems) *)
Theorem C10_create_dir_is_a_step : forall lg ft (s0 s1 : mstate) hs (p : path),
  wf s0 -> p <> [] -> reachable s0 s1 p -> view s0 s1 p = None ->
  (forall g, s0 !! whiteout_path (v0, []) p = Some g -> f_type g = File) ->
  exists s0', run bhandler (ovl_impl (v0, []) [(v1, [])] (CCreateDir p)) (mstore2 s0 s1 hs lg ft) = (mstore2 s0' s1 hs lg ft, Ok tt) /\
              view_step s1 p s0 s0'.
Proof.
  intros lg ft s0 s1 hs p Hwf Hp Hr Hn Hm. destruct (create_dir_deep lg ft s0 s1 hs p Hwf Hp Hr Hn Hm) as (s0' & Hrun & _ & Hv).
  exists s0'. split; [exact Hrun|]. eapply eq_view_step. exact Hv.
Qed.

Theorem C10_remove_file_is_a_step : forall lg ft (s0 s1 : mstate) hs (p : path) (b : list N),
  wf s0 -> p <> [] -> user_path p -> no_collision p ->
  (is_Some (s0 !! p) -> s0 !! whiteout_path (v0, []) p = None) ->
  view s0 s1 p = Some (NFile b) ->
  Forall (not_file s0) (prefixes (removelast (whiteout_path (v0, []) p))) ->
  exists s0', run bhandler (ovl_impl (v0, []) [(v1, [])] (CRemoveFile p)) (mstore2 s0 s1 hs lg ft) =
                (mstore2 s0' s1 (hs ++ [HClosed]) lg ft, Ok tt) /\
              view_step s1 p s0 s0' /\ view s0' s1 p = None.
Proof.
  intros lg ft s0 s1 hs p b Hwf Hp Hu Hnc Hi Hv Hf.
  destruct (remove_file_deep lg ft s0 s1 hs p b Hwf Hp Hu Hnc Hi Hv Hf) as (s0' & Hrun & _ & Hview).
  exists s0'. split; [exact Hrun|]. split; [eapply eq_view_step; exact Hview|].
  rewrite (Hview p Hu). now rewrite decide_True.
Qed.

Example C10_example :
  whiteout_path (v0, [[117%N]]) [[97%N]; [98%N]] = [[117%N]; whiteout_name; [97%N]; [98%N; 95%N; 119%N; 111%N]] /\
  whiteout_path (v0, []) [] = [whiteout_name; wo_suffix].
Proof. vm_compute. split; reflexivity. Qed.

(** a removed directory does not come back through a FAILING call below it: append_file below a directory the
    overlay does not show (marker present, nothing in the write layer) fails before it copies anything up - both
    layers and the handle table are unchanged *)
Theorem C10_failed_append_below_removed_dir : forall lg ft (s0 s1 : mstate) hs (d : list (list N)) (n : list N),
  d <> [] -> s0 !! (d ++ [n]) = None -> s0 !! d = None -> is_Some (s0 !! whiteout_path (v0, []) d) ->
  exists e, run bhandler (ovl_impl (v0, []) [(v1, [])] (CAppendFile (d ++ [n]))) (mstore2 s0 s1 hs lg ft) =
            (mstore2 s0 s1 hs lg ft, Err e).
Proof. exact append_below_removed_dir. Qed.

(** an OverlayFS has no state of its own: two instances over the same layers (a second handle on the stack, or the stack
    re-opened later) are the same program on every call - what one of them removed stays removed for the other, because
    deletions live in the write layer *)
Theorem C10_instance_has_no_state : forall (k k' : nat) t lower c,
  interp (FOvl k t lower) c = interp (FOvl k' t lower) c.
Proof. reflexivity. Qed.

Print Assumptions C10_marker_hides.
Print Assumptions C10_marker_injective.
Print Assumptions C10_bookkeeping_hidden.
Print Assumptions C10_listing_subtracts.
Print Assumptions C10_example.
Print Assumptions C10_removal_sets_marker.
Print Assumptions C10_removed_is_absent.
Print Assumptions C10_recreation_clears_marker.
Print Assumptions C10_recreated_file_is_fresh.
Print Assumptions C10_recreated_dir_clears_marker.
Print Assumptions C10_recreated_dir_is_empty.
Print Assumptions C10_dir_removal_sets_marker.
Print Assumptions C10_removing_a_shadowing_file.
Print Assumptions C10_unnamed_paths_keep_their_view.
Print Assumptions C10_deleted_stays_deleted.
Print Assumptions C10_create_dir_is_a_step.
Print Assumptions C10_remove_file_is_a_step.
Print Assumptions C10_failed_append_below_removed_dir.
Print Assumptions C10_instance_has_no_state.
