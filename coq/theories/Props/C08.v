(** * C08 — OverlayFS never modifies lower layers; observers modify nothing.
    Pinned statements only; proofs in Proofs/AdapterOk.v and Proofs/ConfigOk.v.
    [calls_ok ok m] says that every call the program [m] can issue satisfies
    [ok], whatever the layers reply (the continuations are functions of the
    reply, so failing and faulted executions are covered). *)
From stdpp Require Import gmap list.
From Coq Require Import NArith.
From VFS Require Import Core.Types Core.Prog Core.Calls Layer.VfsPath Layer.Overlay Layer.Config Layer.Run
  Base.Store Base.MemFS Base.Handles Proofs.CallsOk Proofs.AdapterOk Proofs.ConfigOk Proofs.LowerKept.

(** For ANY implementations of the layers (memory, physical, altroot, nested
    overlays, custom filesystems): if the write layer tolerates every call and each
    other layer tolerates observers, the overlay issues only tolerated calls.  A
    lower layer is asked a mutating call only if it is the very instance that is
    also the write layer. *)
Theorem C08_any_layers : forall (ok : bcall -> Prop),
  (forall h o, ok (BH h o)) ->
  forall (top : vfs * list (list N)) (lower : list (vfs * list (list N))),
  (forall c, calls_ok ok (v_impl (fst top) c)) ->
  Forall (fun l => layer_ok ok top (fst l)) lower ->
  forall c, calls_ok ok (ovl_impl top lower c).
Proof. exact ovl_impl_ok. Qed.

(** Observers (read_dir, open_file, metadata, exists) of every stacking issue no
    mutating call to any base filesystem *)
Theorem C08_observers_pure : forall (f : fsref) c,
  mutating c = false -> calls_ok nonmut (interp f c).
Proof. exact interp_pure. Qed.

(** Every call of every stacking sends mutating calls only to the base filesystems
    below its write path; for an overlay that is the write path of layer 0 *)
Theorem C08_writes_below_write_path : forall (f : fsref),
  consistent f -> forall c, calls_ok (mut_in (wbases f)) (interp f c).
Proof. exact interp_writes. Qed.

Theorem C08_overlay_writes_layer0 : forall k g r lower,
  consistent (FOvl k (g, r) lower) ->
  forall c, calls_ok (mut_in (wbases g)) (interp (FOvl k (g, r) lower) c).
Proof. intros k g r lower H c. exact (interp_writes (FOvl k (g, r) lower) H c). Qed.

(** the semantic reading: a component of the state that no permitted call changes
    is unchanged by the whole run *)
Theorem C08_preserved : forall (S X : Type) (h : handler brep S) (ok : bcall -> Prop) (proj : S -> X),
  (forall c s, ok c -> proj (fst (h c s)) = proj s) ->
  forall R (m : bprog R) s, calls_ok ok m -> proj (fst (run h m s)) = proj s.
Proof. intros S X h ok proj H R m s. exact (calls_ok_preserves h ok proj H m s). Qed.

(** non-vacuity: a three-layer overlay over an altroot and two memory filesystems;
    only base 0 (below the altroot of layer 0) can be written *)
Example C08_example :
  let f := FOvl 5 (FAlt 3 (FBase 0 0) [[117%N]], []) [(FBase 1 1, []); (FBase 2 2, [[108%N]])] in
  consistent f /\ wbases f = [0].
Proof. cbn. repeat split; intros; discriminate. Qed.

(** the same for the STATE, every kind of base at once (proofs in Proofs/LowerKept.v).
    [kept i X st]: the deep snapshot of base [i] -- its whole contents, every time stamp
    except the access times of a MemoryFS (D20 below) -- is [X], and no open handle can
    write to base [i].  Every call of every consistent stacking keeps it for every base
    that is not below the write path; so do the calls of any program that sends mutating
    calls to the write bases only, and whatever the caller does afterwards with the
    handles it was given. *)
Theorem C08_other_bases_kept : forall (f : fsref) (i : nat) (X : option bstate) c (st : store),
  consistent f -> i ∉ wbases f -> kept i X st ->
  kept i X (fst (run bhandler (interp f c) st)).
Proof. exact stacking_keeps_other_bases. Qed.

Theorem C08_programs_keep_other_bases : forall (W : list nat) (i : nat) (X : option bstate) R (m : bprog R) (st : store),
  i ∉ W -> calls_ok (mut_in W) m -> kept i X st -> kept i X (fst (run bhandler m st)).
Proof. exact writes_keep_other_bases. Qed.

Theorem C08_handle_ops_keep_other_bases : forall (i : nat) (X : option bstate) (ops : list (hid * hop)) (st : store),
  kept i X st ->
  kept i X (fold_left (fun s ho => fst (handle_op (fst ho) (snd ho) s)) ops st).
Proof. exact handle_ops_keep_other_bases. Qed.

(** non-vacuity: a lower memory layer holding a file, an open writer on the upper layer and a
    reader on the lower one; the premises hold with the lower layer's own snapshot *)
Example C08_kept_example :
  let lower : gmap (list (list N)) memfile :=
    <[ [[102%N]] := mkMemFile File [1%N; 2%N] TAuto (Some TAuto) None ]> mem_new in
  let st := mkStore [BMem mem_new; BMem lower]
                    [HMemWriter 0 [[103%N]] [7%N] 1; HMemReader [1%N; 2%N] 0] [] None IoOff in
  kept 1 (lview 1 st) st /\ 1 ∉ wbases (FOvl 2 (FBase 0 0, []) [(FBase 1 1, [])]) /\
  consistent (FOvl 2 (FBase 0 0, []) [(FBase 1 1, [])]).
Proof.
  cbn. split; [split; [|reflexivity]|split].
  - repeat constructor; cbn; intros H; try discriminate; tauto.
  - intros H. apply elem_of_list_singleton in H. discriminate.
  - repeat split; intros; discriminate.
Qed.

(** KNOWN FINDING (D20), kept visible: the statement "no operation re-times anything
    in a lower layer" is false of the faithful model, because MemoryFS::open_file
    itself stamps the access time of the file it opens.  Witness: reading a
    lower-layer file through the overlay changes the lower filesystem. *)
Definition retime_case : case :=
  mkCase [KMem; KMem]
         [FWrap 0 (FBase 0 0); FWrap 1 (FBase 1 1); FWrap 2 (FOvl 2 (FBase 0 0, []) [(FBase 1 1, [])])]
         [OCreateFile (PS 1 [JJoin [102%N]]); OHDrop 0; OSetATime (PS 1 [JJoin [102%N]]) 5;
          OMetadata (PS 1 [JJoin [102%N]]); OReadToString (PS 2 [JJoin [102%N]]);
          OMetadata (PS 1 [JJoin [102%N]])].
Example C08_retimes_witness :
  map fst (run_case 20 retime_case) !! 3%nat =
    Some (Ok (VMeta (mkMeta File 0 (Some TAuto) (Some TAuto) (Some (TSet 5))))) /\
  map fst (run_case 20 retime_case) !! 5%nat =
    Some (Ok (VMeta (mkMeta File 0 (Some TAuto) (Some TAuto) (Some TAuto)))).
Proof. vm_compute. split; reflexivity. Qed.

Print Assumptions C08_any_layers.
Print Assumptions C08_observers_pure.
Print Assumptions C08_writes_below_write_path.
Print Assumptions C08_overlay_writes_layer0.
Print Assumptions C08_preserved.
Print Assumptions C08_example.
Print Assumptions C08_other_bases_kept.
Print Assumptions C08_programs_keep_other_bases.
Print Assumptions C08_handle_ops_keep_other_bases.
Print Assumptions C08_kept_example.
Print Assumptions C08_retimes_witness.
