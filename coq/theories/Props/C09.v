(** * C09 — OverlayFS shows the upper-shadows-lower union (pinned statements).
    partial: the resolution rule of the union view is proved for an overlay of two MemoryFS layers
    and every pair of layer contents; that each mutating operation then obeys the contracts of C01
    relative to that union is decided by the contract oracle of the correspondence check (and by
    the theorems of C08 on where the writes go).  Known finding D15. *)
From stdpp Require Import gmap list.
From Coq Require Import NArith ZArith.
From VFS Require Import Core.Types Core.Prog Core.Calls Base.MemFS Base.Store Layer.VfsPath Layer.Overlay
  Proofs.OvlProofs.

Notation mstate := (gmap (list (list N)) memfile).

(** a path is served from the first layer that has it (upper before lower), unless its deletion
    marker is present; resolving changes neither layer - for all layer contents and all paths *)
Theorem C09_served_from_first_layer : forall hs lg ft (s0 s1 : mstate) p, p <> [] ->
  run bhandler (read_path (v0, []) [(v1, [])] p) (mstore2 s0 s1 hs lg ft) =
  (mstore2 s0 s1 hs lg ft,
   if bool_decide (is_Some (s0 !! whiteout_path (v0, []) p)) then fail ENotFound
   else if bool_decide (is_Some (s0 !! p)) then Ok (v0, p)
   else if bool_decide (is_Some (s1 !! p)) then Ok (v1, p)
   else fail ENotFound).
Proof. exact read_path_rule. Qed.

(** existence in the overlay is existence in the union minus the deleted paths *)
Theorem C09_exists_is_union : forall hs lg ft (s0 s1 : mstate) p, p <> [] ->
  run bhandler (ovl_exists (v0, []) [(v1, [])] p) (mstore2 s0 s1 hs lg ft) =
  (mstore2 s0 s1 hs lg ft,
   Ok (negb (bool_decide (is_Some (s0 !! whiteout_path (v0, []) p))) &&
       (bool_decide (is_Some (s0 !! p)) || bool_decide (is_Some (s1 !! p))))).
Proof. exact exists_rule. Qed.

(** non-vacuity: a file present in both layers is served from the upper one *)
Example C09_example :
  let f0 := mkMemFile File [1%N] TAuto None None in
  let f1 := mkMemFile File [2%N] TAuto None None in
  let s0 : mstate := <[ [[102%N]] := f0 ]> mem_new in
  let s1 : mstate := <[ [[102%N]] := f1 ]> (<[ [[103%N]] := f1 ]> mem_new) in
  snd (run bhandler (ovl_impl (v0, []) [(v1, [])] (CMetadata [[102%N]])) (mstore2 s0 s1 [] [] None))
    = Ok (mkMeta File 1 (Some TAuto) None None) /\
  snd (run bhandler (ovl_exists (v0, []) [(v1, [])] [[103%N]]) (mstore2 s0 s1 [] [] None)) = Ok true /\
  snd (run bhandler (ovl_exists (v0, []) [(v1, [])] [[104%N]]) (mstore2 s0 s1 [] [] None)) = Ok false.
Proof. vm_compute. repeat split; reflexivity. Qed.

Print Assumptions C09_served_from_first_layer.
Print Assumptions C09_exists_is_union.
Print Assumptions C09_example.
