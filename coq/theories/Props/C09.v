(** * C09 — OverlayFS shows the upper-shadows-lower union (pinned statements).
    partial: the union view - resolution, existence, metadata, the bytes a reader gets, and the merged
    listing of a directory - is proved for an overlay of two MemoryFS layers and every pair of layer
    contents; that each mutating operation then obeys the contracts of C01
    relative to that union is decided by the contract oracle of the correspondence check (and by
    the theorems of C08 on where the writes go).  Known finding D15. *)
From stdpp Require Import gmap list.
From Coq Require Import NArith ZArith.
From VFS Require Import Proofs.OvlLayers.
From VFS Require Import Core.Types Core.Prog Core.Calls Base.MemFS Base.Handles Base.Store Layer.VfsPath Layer.Overlay Layer.Config Layer.Run
  Spec.Tree Proofs.MemProofs Proofs.MemPublic Proofs.ConcProofs Proofs.OvlProofs Proofs.OvlList Proofs.OvlLife Proofs.CopyFile Proofs.OvlAppend Proofs.OvlDeep.

Notation mstate := (gmap (list (list N)) memfile).

(** a path is served from the upper layer if it is there; else - unless its deletion marker is
    present, which hides the lower layers - from the lower one; resolving changes neither layer -
    for all layer contents and all paths *)
Theorem C09_served_from_first_layer : forall hs lg ft (s0 s1 : mstate) p, p <> [] ->
  run bhandler (read_path (v0, []) [(v1, [])] p) (mstore2 s0 s1 hs lg ft) =
  (mstore2 s0 s1 hs lg ft,
   if bool_decide (is_Some (s0 !! p)) then Ok (v0, p)
   else if bool_decide (is_Some (s0 !! whiteout_path (v0, []) p)) then fail ENotFound
   else if bool_decide (is_Some (s1 !! p)) then Ok (v1, p)
   else fail ENotFound).
Proof. exact read_path_rule. Qed.

(** existence in the overlay: in the upper layer, or in the lower one and not deleted *)
Theorem C09_exists_is_union : forall hs lg ft (s0 s1 : mstate) p, p <> [] ->
  run bhandler (ovl_exists (v0, []) [(v1, [])] p) (mstore2 s0 s1 hs lg ft) =
  (mstore2 s0 s1 hs lg ft,
   Ok (bool_decide (is_Some (s0 !! p)) ||
       (negb (bool_decide (is_Some (s0 !! whiteout_path (v0, []) p))) && bool_decide (is_Some (s1 !! p))))).
Proof. exact exists_rule. Qed.

(** non-vacuity: a file present in both layers is served from the upper one *)
(** metadata comes from the first layer that has the path *)
Theorem C09_metadata_from_first_layer : forall hs lg ft (s0 s1 : mstate) p, p <> [] ->
  run bhandler (ovl_metadata (v0, []) [(v1, [])] p) (mstore2 s0 s1 hs lg ft) =
  (mstore2 s0 s1 hs lg ft,
   match s0 !! p with
   | Some f => Ok (mem_meta f)
   | None =>
       if bool_decide (is_Some (s0 !! whiteout_path (v0, []) p)) then fail ENotFound
       else match s1 !! p with Some f => Ok (mem_meta f) | None => fail ENotFound end
   end).
Proof. exact metadata_rule. Qed.

(** and so do the bytes: a reader opened through the overlay holds the content of the upper file if
    there is one, else of the lower file *)
Theorem C09_bytes_from_upper : forall hs lg ft (s0 s1 : mstate) p f, p <> [] ->
  s0 !! p = Some f -> f_type f = File ->
  run bhandler (ovl_impl (v0, []) [(v1, [])] (COpenFile p)) (mstore2 s0 s1 hs lg ft) =
  (mstore2 (<[p := mkMemFile File (f_content f) (f_created f) (f_modified f) (Some TAuto)]> s0) s1
           (hs ++ [HMemReader (f_content f) 0]) lg ft, Ok (length hs)).
Proof. exact open_file_upper. Qed.
Theorem C09_bytes_from_lower : forall hs lg ft (s0 s1 : mstate) p f, p <> [] ->
  s0 !! whiteout_path (v0, []) p = None -> s0 !! p = None -> s1 !! p = Some f -> f_type f = File ->
  run bhandler (ovl_impl (v0, []) [(v1, [])] (COpenFile p)) (mstore2 s0 s1 hs lg ft) =
  (mstore2 s0 (<[p := mkMemFile File (f_content f) (f_created f) (f_modified f) (Some TAuto)]> s1)
           (hs ++ [HMemReader (f_content f) 0]) lg ft, Ok (length hs)).
Proof. exact open_file_lower. Qed.

(** directories merge the children of all layers: the listing of a directory of the overlay holds
    exactly the names that are children of it in a layer in which it is a directory, minus the names
    whose deletion marker is present; listing changes neither layer *)
Theorem C09_listing_merges_layers : forall hs lg ft (s0 s1 : mstate) (p : path),
  parent_closed s0 -> p <> [] ->
  s0 !! whiteout_path (v0, []) p = None ->
  (is_dir s0 p \/ (s0 !! p = None /\ is_dir s1 p)) ->
  (s0 !! (whiteout_name :: p) = None \/ is_dir s0 (whiteout_name :: p)) ->
  exists l, run bhandler (ovl_read_dir (v0, []) [(v1, [])] p) (mstore2 s0 s1 hs lg ft) = (mstore2 s0 s1 hs lg ft, Ok l) /\
    forall n, n ∈ l <->
      ((is_dir s0 p /\ is_Some (s0 !! (p ++ [n]))) \/ (is_dir s1 p /\ is_Some (s1 !! (p ++ [n])))) /\
      s0 !! whiteout_path (v0, []) (p ++ [n]) = None.
Proof. exact read_dir_rule. Qed.

(** creating over an entry that exists only in a lower layer fails as already existing (according to
    the occupant) and changes neither layer *)
Theorem C09_create_over_lower_entry : forall lg ft (s0 s1 : mstate) hs (n : list N) f,
  wf s0 -> s0 !! whiteout_path (v0, []) [] = None -> s0 !! whiteout_path (v0, []) [n] = None ->
  s0 !! [n] = None -> s1 !! [n] = Some f ->
  run bhandler (ovl_impl (v0, []) [(v1, [])] (CCreateDir [n])) (mstore2 s0 s1 hs lg ft) =
  (mstore2 s0 s1 hs lg ft, fail (match f_type f with File => EFileExists | Dir => EDirExists end)).
Proof. exact create_dir_over_lower_entry. Qed.

(** removing a directory that still has lower-layer children fails as non-empty and changes neither layer *)
Theorem C09_remove_dir_with_lower_children : forall lg ft (s0 s1 : mstate) hs (p : path) (c : list N),
  parent_closed s0 -> p <> [] ->
  s0 !! whiteout_path (v0, []) p = None ->
  (is_dir s0 p \/ (s0 !! p = None /\ is_dir s1 p)) ->
  (s0 !! (whiteout_name :: p) = None \/ is_dir s0 (whiteout_name :: p)) ->
  is_dir s1 p -> is_Some (s1 !! (p ++ [c])) -> s0 !! whiteout_path (v0, []) (p ++ [c]) = None ->
  run bhandler (ovl_impl (v0, []) [(v1, [])] (CRemoveDir p)) (mstore2 s0 s1 hs lg ft) = (mstore2 s0 s1 hs lg ft, fail EOther).
Proof. exact remove_dir_with_lower_children. Qed.

(** appending continues the lower layer's bytes: append_file on a top-level file that exists only in
    the lower layer copies it up (a stream copy between the two layers) and hands out a write handle
    whose buffer holds the lower file's bytes with the cursor at their end; the lower layer keeps
    its bytes (its access time is stamped by the open - finding D20) *)
Theorem C09_append_continues_lower_bytes : forall lg ft (s0 s1 : mstate) hs (n : list N) f,
  wf s0 -> s0 !! whiteout_path (v0, []) [] = None -> s0 !! whiteout_path (v0, []) [n] = None ->
  s0 !! [n] = None -> s1 !! [n] = Some f -> f_type f = File ->
  run bhandler (ovl_impl (v0, []) [(v1, [])] (CAppendFile [n])) (mstore2 s0 s1 hs lg ft) =
  (mstore2 (<[[n] := fresh_file (f_content f)]> s0) (<[[n] := touched f]> s1)
           (hs ++ [HClosed; HClosed; HMemWriter 0 [n] (f_content f) (Z.of_nat (length (f_content f)))]) lg ft,
   Ok (length hs + 2)%nat).
Proof. exact append_continues_lower_bytes. Qed.

Example C09_example :
  let f0 := mkMemFile File [1%N] TAuto None None in
  let f1 := mkMemFile File [2%N] TAuto None None in
  let s0 : mstate := <[ [[102%N]] := f0 ]> mem_new in
  let s1 : mstate := <[ [[102%N]] := f1 ]> (<[ [[103%N]] := f1 ]> mem_new) in
  snd (run bhandler (ovl_impl (v0, []) [(v1, [])] (CMetadata [[102%N]])) (mstore2 s0 s1 [] [] None))
    = Ok (mkMeta File 1 (Some TAuto) None None) /\
  snd (run bhandler (ovl_exists (v0, []) [(v1, [])] [[103%N]]) (mstore2 s0 s1 [] [] None)) = Ok true /\
  snd (run bhandler (ovl_exists (v0, []) [(v1, [])] [[104%N]]) (mstore2 s0 s1 [] [] None)) = Ok false.
Proof. vm_compute. repeat split; reflexivity. Qed.

(** creating a top-level entry that exists in no layer: it appears in the write layer with nothing in
    it, no other entry of either layer changes (C01's create contracts relative to the union) *)
Theorem C09_create_fresh_dir : forall lg ft (s0 s1 : mstate) hs (n : list N),
  wf s0 -> s0 !! whiteout_path (v0, []) [] = None -> s0 !! whiteout_path (v0, []) [n] = None ->
  s0 !! [n] = None -> s1 !! [n] = None ->
  run bhandler (ovl_impl (v0, []) [(v1, [])] (CCreateDir [n])) (mstore2 s0 s1 hs lg ft) =
  (mstore2 (<[[n] := mkMemFile Dir [] TAuto (Some TAuto) (Some TAuto)]> s0) s1 hs lg ft, Ok tt).
Proof. exact create_fresh_dir. Qed.

Theorem C09_create_fresh_file : forall lg ft (s0 s1 : mstate) hs (n : list N),
  wf s0 -> s0 !! whiteout_path (v0, []) [] = None -> s0 !! whiteout_path (v0, []) [n] = None ->
  s0 !! [n] = None -> s1 !! [n] = None ->
  run bhandler (ovl_impl (v0, []) [(v1, [])] (CCreateFile [n])) (mstore2 s0 s1 hs lg ft) =
  (mstore2 (<[[n] := mkMemFile File [] TAuto (Some TAuto) (Some TAuto)]> s0) s1 (hs ++ [HMemWriter 0 [n] [] 0]) lg ft,
   Ok (length hs)).
Proof. exact create_fresh_file. Qed.

(** ** the create contracts RELATIVE TO THE UNION, at any depth.
    [view s0 s1 q] is what the overlay shows at q: the write layer first, else - unless q is marked as
    deleted - the lower layer.  [reachable] : p is a path of the caller's namespace (not below the
    bookkeeping directory, no empty names) all of whose ancestors the view shows as directories - they may
    exist in the lower layer only, in which case the overlay copies them up, which the view does not
    show.  For ALL contents of the two layers: *)

(** create_dir on a path the view does not show (never there, or deleted): succeeds; afterwards the view
    shows a directory at p and is unchanged at every other path of the caller's namespace *)
Theorem C09_create_dir_any_depth : forall lg ft (s0 s1 : mstate) hs (p : path),
  wf s0 -> p <> [] -> reachable s0 s1 p -> view s0 s1 p = None ->
  (forall g, s0 !! whiteout_path (v0, []) p = Some g -> f_type g = File) ->
  exists s0',
    run bhandler (ovl_impl (v0, []) [(v1, [])] (CCreateDir p)) (mstore2 s0 s1 hs lg ft) = (mstore2 s0' s1 hs lg ft, Ok tt) /\
    wf s0' /\
    forall q, user_path q -> view s0' s1 q = if decide (q = p) then Some NDir else view s0 s1 q.
Proof. exact create_dir_deep. Qed.

(** create_file likewise: an EMPTY file appears at p (whatever the lower layer holds under a deleted p) *)
Theorem C09_create_file_any_depth : forall lg ft (s0 s1 : mstate) hs (p : path),
  wf s0 -> p <> [] -> reachable s0 s1 p -> view s0 s1 p = None ->
  (forall g, s0 !! whiteout_path (v0, []) p = Some g -> f_type g = File) ->
  exists s0',
    run bhandler (ovl_impl (v0, []) [(v1, [])] (CCreateFile p)) (mstore2 s0 s1 hs lg ft) =
      (mstore2 s0' s1 (hs ++ [HMemWriter 0 p [] 0]) lg ft, Ok (length hs)) /\
    wf s0' /\
    forall q, user_path q -> view s0' s1 q = if decide (q = p) then Some (NFile []) else view s0 s1 q.
Proof. exact create_file_deep. Qed.

(** create_dir on a path the view shows - in whichever layer: refused as directory-exists or
    file-exists according to what is shown; the view is unchanged at EVERY path *)
Theorem C09_create_dir_occupied_any_depth : forall lg ft (s0 s1 : mstate) hs (p : path) (x : node),
  wf s0 -> p <> [] -> reachable s0 s1 p -> view s0 s1 p = Some x ->
  exists s0',
    run bhandler (ovl_impl (v0, []) [(v1, [])] (CCreateDir p)) (mstore2 s0 s1 hs lg ft) =
      (mstore2 s0' s1 hs lg ft, fail (match x with NDir => EDirExists | NFile _ => EFileExists end)) /\
    wf s0' /\ forall q, view s0' s1 q = view s0 s1 q.
Proof. exact create_dir_occupied_deep. Qed.

(** remove_file on a FILE the view shows - served from the write layer, the lower layer, or both: exactly
    that entry vanishes from the view, every other path of the caller's namespace shows what it showed.
    [no_collision p]: no directory on the way to p's marker is itself some entry's marker path - it
    fails exactly when an ancestor's name ends in the marker suffix, which is finding D28 (second
    statement).  The hypothesis on p's own marker is the invariant between calls. *)
Theorem C09_remove_file_any_depth : forall lg ft (s0 s1 : mstate) hs (p : path) (b : list N),
  wf s0 -> p <> [] -> user_path p -> no_collision p ->
  (is_Some (s0 !! p) -> s0 !! whiteout_path (v0, []) p = None) ->
  view s0 s1 p = Some (NFile b) ->
  Forall (not_file s0) (prefixes (removelast (whiteout_path (v0, []) p))) ->
  exists s0',
    run bhandler (ovl_impl (v0, []) [(v1, [])] (CRemoveFile p)) (mstore2 s0 s1 hs lg ft) =
      (mstore2 s0' s1 (hs ++ [HClosed]) lg ft, Ok tt) /\
    wf s0' /\
    forall q, user_path q -> view s0' s1 q = if decide (q = p) then None else view s0 s1 q.
Proof. exact remove_file_deep. Qed.

(** remove_dir on a directory the view shows with no entries - the directory in the write layer, in the
    lower layer or in both, its former entries deleted or never there: exactly that entry vanishes *)
Theorem C09_remove_dir_any_depth : forall lg ft (s0 s1 : mstate) hs (p : path),
  wf s0 -> p <> [] -> user_path p -> no_collision p ->
  (is_Some (s0 !! p) -> s0 !! whiteout_path (v0, []) p = None) ->
  view s0 s1 p = Some NDir -> (forall n, view s0 s1 (p ++ [n]) = None) ->
  (s0 !! (whiteout_name :: p) = None \/ is_dir s0 (whiteout_name :: p)) ->
  Forall (not_file s0) (prefixes (removelast (whiteout_path (v0, []) p))) ->
  exists s0',
    run bhandler (ovl_impl (v0, []) [(v1, [])] (CRemoveDir p)) (mstore2 s0 s1 hs lg ft) =
      (mstore2 s0' s1 (hs ++ [HClosed]) lg ft, Ok tt) /\
    wf s0' /\
    forall q, user_path q -> view s0' s1 q = if decide (q = p) then None else view s0 s1 q.
Proof. exact remove_dir_deep. Qed.

(** removing what the view does not show (never there, or deleted): not-found, neither layer changes *)
Theorem C09_remove_absent : forall lg ft (s0 s1 : mstate) hs (p : path),
  p <> [] -> view s0 s1 p = None ->
  run bhandler (ovl_impl (v0, []) [(v1, [])] (CRemoveFile p)) (mstore2 s0 s1 hs lg ft) = (mstore2 s0 s1 hs lg ft, fail ENotFound) /\
  run bhandler (ovl_impl (v0, []) [(v1, [])] (CRemoveDir p)) (mstore2 s0 s1 hs lg ft) = (mstore2 s0 s1 hs lg ft, fail ENotFound).
Proof. exact remove_absent. Qed.

(** append_file on a file that only the lower layer has, at any depth: parent chain and file are copied up, the
    handle's buffer CONTINUES the lower layer's bytes, the view is unchanged; the lower layer keeps its bytes *)
Theorem C09_append_any_depth : forall lg ft (s0 s1 : mstate) hs (p : path) f,
  wf s0 -> p <> [] -> reachable s0 s1 p ->
  s0 !! p = None -> s0 !! whiteout_path (v0, []) p = None -> s1 !! p = Some f -> f_type f = File ->
  exists s0',
    run bhandler (ovl_impl (v0, []) [(v1, [])] (CAppendFile p)) (mstore2 s0 s1 hs lg ft) =
      (mstore2 s0' (<[p := touched f]> s1)
          (hs ++ [HClosed; HClosed; HMemWriter 0 p (f_content f) (Z.of_nat (length (f_content f)))]) lg ft,
       Ok (length hs + 2)%nat) /\
    wf s0' /\
    forall q, user_path q -> view s0' (<[p := touched f]> s1) q = view s0 s1 q.
Proof. exact append_lower_deep. Qed.

Theorem C09_collision_hypothesis_is_needed : ~ no_collision [[97%N] ++ wo_suffix; [120%N]].
Proof. exact collision_example. Qed.

(** non-vacuity: /a/b exists in the lower layer only; create_dir /a/b/c copies the chain up and shows c *)
Example C09_any_depth_example :
  let dirn := mkMemFile Dir [] TAuto (Some TAuto) (Some TAuto) in
  let lo : mstate := <[[[97%N]; [98%N]] := dirn]> (<[[[97%N]] := dirn]> mem_new) in
  let p := [[97%N]; [98%N]; [99%N]] in
  view mem_new lo [[97%N]; [98%N]] = Some NDir /\ view mem_new lo p = None /\
  exists s0', fst (run bhandler (ovl_impl (v0, []) [(v1, [])] (CCreateDir p)) (mstore2 mem_new lo [] [] None)) = mstore2 s0' lo [] [] None /\
              view s0' lo p = Some NDir /\ is_Some (s0' !! [[97%N]; [98%N]]).
Proof. vm_compute. repeat split; eauto. Qed.

(** KNOWN FINDING (D28), kept visible: "the union behaves as an ordinary tree" is false of the faithful
    model when a name ends in the marker suffix.  The marker of /a is the FILE /.whiteout/a_wo, the
    markers of the children of a directory /a_wo live in the DIRECTORY /.whiteout/a_wo: removing
    /a_wo/x through the overlay creates that directory, and the overlay then takes it for the marker
    of /a.  Witness: the lower layer holds /a and /a_wo/x; remove_file /a_wo/x hides /a, which no
    call has named (step 4: exists /a = true; step 6, after the removal: false; step 7: the lower
    layer still has it). *)
Definition marker_collision_case : case :=
  mkCase [KMem; KMem]
         [FWrap 0 (FBase 0 0); FWrap 1 (FBase 1 1); FWrap 2 (FOvl 2 (FBase 0 0, []) [(FBase 1 1, [])])]
         [OCreateDir (PS 1 [JJoin [97%N]]);
          OCreateDirAll (PS 1 [JJoin [97%N; 95%N; 119%N; 111%N]]);
          OCreateFile (PS 1 [JJoin [97%N; 95%N; 119%N; 111%N; 47%N; 120%N]]); OHDrop 2;
          OExists (PS 2 [JJoin [97%N]]);
          ORemoveFile (PS 2 [JJoin [97%N; 95%N; 119%N; 111%N; 47%N; 120%N]]);
          OExists (PS 2 [JJoin [97%N]]);
          OExists (PS 1 [JJoin [97%N]])].
Example C09_marker_collision_witness :
  map fst (run_case 20 marker_collision_case) =
  [Ok VUnit; Ok VUnit; Ok VUnit; Ok VUnit; Ok (VBool true); Ok VUnit; Ok (VBool false); Ok (VBool true)].
Proof. vm_compute. reflexivity. Qed.

Print Assumptions C09_served_from_first_layer.
Print Assumptions C09_exists_is_union.
(** ** any number of layers: WHICH layer serves a path.  Write layer s0, lower layers ss (any number, any contents):
    the write layer if it holds the path; else nothing if its marker is there; else the FIRST lower layer that holds
    it - never a later one, whatever that holds - and resolving changes nothing *)
Theorem C09_layer_precedence : forall hs lg ft (s0 : mstate) (ss : list mstate) (p : path), p <> [] ->
  run bhandler (read_path (vk 0, []) (lowers 1 (length ss)) p) (nstore hs lg ft (s0 :: ss)) =
  (nstore hs lg ft (s0 :: ss),
   if bool_decide (is_Some (s0 !! p)) then Ok (vk 0, p)
   else if bool_decide (is_Some (s0 !! whiteout_path (vk 0, []) p)) then fail ENotFound
   else match first_holding 1 ss p with Some lp => Ok lp | None => fail ENotFound end).
Proof. exact read_path_layers. Qed.

Theorem C09_first_holder_serves : forall hs lg ft (s0 : mstate) (ss1 : list mstate) (s : mstate) (ss2 : list mstate) (p : path),
  p <> [] -> s0 !! p = None -> s0 !! whiteout_path (vk 0, []) p = None ->
  Forall (fun s' => s' !! p = None) ss1 -> is_Some (s !! p) ->
  run bhandler (read_path (vk 0, []) (lowers 1 (length (ss1 ++ s :: ss2))) p) (nstore hs lg ft (s0 :: ss1 ++ s :: ss2)) =
  (nstore hs lg ft (s0 :: ss1 ++ s :: ss2), Ok (vk (1 + length ss1), p)).
Proof. exact first_holder_serves. Qed.

Theorem C09_metadata_of_first_holder : forall hs lg ft (s0 : mstate) (ss1 : list mstate) (s : mstate) (ss2 : list mstate) (p : path) f,
  p <> [] -> s0 !! p = None -> s0 !! whiteout_path (vk 0, []) p = None ->
  Forall (fun s' => s' !! p = None) ss1 -> s !! p = Some f ->
  run bhandler (ovl_metadata (vk 0, []) (lowers 1 (length (ss1 ++ s :: ss2))) p) (nstore hs lg ft (s0 :: ss1 ++ s :: ss2)) =
  (nstore hs lg ft (s0 :: ss1 ++ s :: ss2), Ok (mem_meta f)).
Proof. exact metadata_of_first_holder. Qed.

Theorem C09_exists_through_layers : forall hs lg ft (s0 : mstate) (ss : list mstate) (p : path), p <> [] ->
  run bhandler (ovl_exists (vk 0, []) (lowers 1 (length ss)) p) (nstore hs lg ft (s0 :: ss)) =
  (nstore hs lg ft (s0 :: ss),
   Ok (bool_decide (is_Some (s0 !! p)) ||
       (negb (bool_decide (is_Some (s0 !! whiteout_path (vk 0, []) p))) && bool_decide (Exists (fun s => is_Some (s !! p)) ss)))).
Proof. exact exists_layers. Qed.

(** listings: the names the overlay gathers for a directory are those of EVERY layer in which the path is a directory
    (the write layer first; the deletion markers are subtracted afterwards, see C09_listing_merges_layers) *)
Theorem C09_gathered_names_all_layers : forall hs lg ft (s0 : mstate) (ss : list mstate) (p : path) n,
  exists names,
    run bhandler (gather (layers (vk 0, []) (lowers 1 (length ss))) p []) (nstore hs lg ft (s0 :: ss)) =
      (nstore hs lg ft (s0 :: ss), Ok names) /\
    (n ∈ names <-> Exists (fun s => is_dir s p /\ is_Some (s !! (p ++ [n]))) (s0 :: ss)).
Proof. exact gathered_names. Qed.

(** bytes: opening a path hands out the FIRST holder's bytes; the only change anywhere is that holder's access time
    (MemoryFS stamps it on open: finding D20 for C08) and the new handle *)
Theorem C09_open_file_first_holder : forall lg ft hs (s0 : mstate) (ss1 : list mstate) (s : mstate) (ss2 : list mstate) (p : path) f,
  p <> [] -> s0 !! p = None -> s0 !! whiteout_path (vk 0, []) p = None ->
  Forall (fun s' => s' !! p = None) ss1 -> s !! p = Some f -> f_type f = File ->
  run bhandler (ovl_impl (vk 0, []) (lowers 1 (length (ss1 ++ s :: ss2))) (COpenFile p)) (nstore hs lg ft (s0 :: ss1 ++ s :: ss2)) =
  (nstore (hs ++ [HMemReader (f_content f) 0]) lg ft (s0 :: ss1 ++ <[p := touched f]> s :: ss2), Ok (length hs)).
Proof. exact open_file_first_holder. Qed.

(** four layers: /x is a FILE in the second lower layer and a DIRECTORY in the third; the overlay shows the file *)
Example C09_layers_example :
  let file := mkMemFile File [104%N; 105%N] TAuto (Some TAuto) (Some TAuto) in
  let dir := mkMemFile Dir [] TAuto (Some TAuto) (Some TAuto) in
  let ss := [mem_new; <[[[120%N]] := file]> mem_new; <[[[120%N]] := dir]> mem_new] in
  snd (run bhandler (ovl_metadata (vk 0, []) (lowers 1 3) [[120%N]]) (nstore [] [] None (mem_new :: ss))) = Ok (mem_meta file).
Proof. vm_compute. reflexivity. Qed.

Print Assumptions C09_example.
Print Assumptions C09_metadata_from_first_layer.
Print Assumptions C09_bytes_from_upper.
Print Assumptions C09_bytes_from_lower.
Print Assumptions C09_listing_merges_layers.
Print Assumptions C09_create_over_lower_entry.
Print Assumptions C09_remove_dir_with_lower_children.
Print Assumptions C09_append_continues_lower_bytes.
Print Assumptions C09_marker_collision_witness.
Print Assumptions C09_create_fresh_dir.
Print Assumptions C09_create_fresh_file.
Print Assumptions C09_create_dir_any_depth.
Print Assumptions C09_create_file_any_depth.
Print Assumptions C09_create_dir_occupied_any_depth.
Print Assumptions C09_any_depth_example.
Print Assumptions C09_remove_file_any_depth.
Print Assumptions C09_collision_hypothesis_is_needed.
Print Assumptions C09_remove_dir_any_depth.
Print Assumptions C09_remove_absent.
Print Assumptions C09_append_any_depth.
Print Assumptions C09_layer_precedence.
Print Assumptions C09_first_holder_serves.
Print Assumptions C09_metadata_of_first_holder.
Print Assumptions C09_layers_example.
Print Assumptions C09_exists_through_layers.
Print Assumptions C09_gathered_names_all_layers.
Print Assumptions C09_open_file_first_holder.
