(** * C12 — Errors name the caller's path and classify consistently (pinned statements).
    [leaves A Q m]: under assumption [A] on the replies of the base filesystems, every value the
    program [m] can return satisfies [Q].  [err_at P r]: if [r] is an error it carries a filled-in
    path satisfying [P] (the model-only out-of-fuel marker aside).  [near p q]: [q] is [p], an
    ancestor of [p] or a descendant of [p]. *)
From stdpp Require Import list.
From Coq Require Import NArith ZArith.
From VFS Require Import Path.Str Core.Types Core.Prog Core.Calls Layer.VfsPath Layer.Config Layer.Run
  Spec.Tree Proofs.Leaves Proofs.ErrPaths Proofs.MemPublic Props.C06.

(** the one call VfsPath does not relabel is exists; on every stacking of the built-in backends
    it cannot fail (no injected fault), so no placeholder can escape through it *)
Theorem C12_exists_total : forall (f : fsref) p,
  leaves A_nofault is_ok (v_impl (vfs_of f) (CExists p)).
Proof. exact exists_total_interp. Qed.

(** every primitive names the path it was called on - whatever the filesystem below answers *)
Theorem C12_primitives : forall (A : forall b, brep b -> Prop) (v : vfs) p,
  (forall q, leaves A is_ok (v_impl v (CExists q))) ->
  leaves A (err_at (near p)) (vp_metadata v p) /\ leaves A (err_at (near p)) (vp_open_file v p) /\
  leaves A (err_at (near p)) (vp_append_file v p) /\ leaves A (err_at (near p)) (vp_remove_file v p) /\
  leaves A (err_at (near p)) (vp_remove_dir v p) /\ leaves A (err_at (near p)) (vp_read_dir v p) /\
  leaves A (err_at (near p)) (vp_create_dir v p) /\ leaves A (err_at (near p)) (vp_create_file v p) /\
  leaves A (err_at (near p)) (vp_is_file v p) /\ leaves A (err_at (near p)) (vp_is_dir v p) /\
  (forall t, leaves A (err_at (near p)) (vp_set_ctime v p t) /\ leaves A (err_at (near p)) (vp_set_mtime v p t) /\
             leaves A (err_at (near p)) (vp_set_atime v p t)).
Proof.
  intros A v p H. repeat split.
  - apply vp_metadata_at. - apply vp_open_file_at. - apply vp_append_file_at. - apply vp_remove_file_at.
  - apply vp_remove_dir_at. - apply vp_read_dir_at. - now apply vp_create_dir_at. - now apply vp_create_file_at.
  - now apply vp_is_file_at. - now apply vp_is_dir_at.
  - apply vp_set_ctime_at. - apply vp_set_mtime_at. - apply vp_set_atime_at.
Qed.

(** create_dir_all names the ancestor at which it failed; remove_dir_all the descendant *)
Theorem C12_create_dir_all : forall (A : forall b, brep b -> Prop) (v : vfs) p,
  leaves A (err_at (near p)) (vp_create_dir_all v p).
Proof. intros A v p. apply vp_create_dir_all_at. Qed.
Theorem C12_remove_dir_all : forall (A : forall b, brep b -> Prop) (v : vfs) fuel p,
  (forall q, leaves A is_ok (v_impl v (CExists q))) ->
  leaves A (err_at (near p)) (vp_remove_dir_all v fuel p).
Proof. intros A v fuel p H. apply (vp_remove_dir_all_at A v H fuel p p). apply below_refl. Qed.

(** the transfer operations name the path they were called on *)
Theorem C12_transfers : forall (A : forall b, brep b -> Prop) fuel (v : vfs) p (v' : vfs) p',
  leaves A (err_at (fun q => q = p)) (vp_copy_file v p v' p') /\
  leaves A (err_at (fun q => q = p)) (vp_move_file v p v' p') /\
  leaves A (err_at (fun q => q = p)) (vp_copy_dir fuel v p v' p') /\
  leaves A (err_at (fun q => q = p)) (vp_move_dir fuel v p v' p').
Proof. intros. repeat split; apply transfer_relabelled. Qed.

(** every item of walk_dir - an entry or an error - lies below the walked directory *)
Theorem C12_walk_items : forall (A : forall b, brep b -> Prop) (v : vfs) root w,
  (forall q, leaves A is_ok (v_impl v (CExists q))) ->
  walker_below root w -> leaves A (item_at root) (walk_next v w).
Proof. intros A v root w H. now apply walk_next_at. Qed.

(** a trailing-slash join is an invalid-path error naming the rejected argument *)
Theorem C12_invalid_path : forall cur a rest,
  jn cur a = None -> resolve_steps cur (JJoin a :: rest) = Err (mkErr EInvalidPath (PRaw a)).
Proof. intros cur a rest H. cbn. now rewrite H. Qed.
Theorem C12_invalid_iff : forall base arg,
  jn base arg = None <-> (1 < length arg /\ exists a, arg = a ++ [slashN]).
Proof. exact C06_reject_iff. Qed.

(** classification (MemoryFS, every state and path): an entry missing from an existing directory is
    not-found; an occupied create_dir target is file-exists / directory-exists; see C01 for the full
    contracts *)
Theorem C12_classes_mem : forall t p,
  (t !! p = None -> snd (spec_remove_file t p) = KNotFound /\ (forall e, snd (spec_remove_dir t p e) = KNotFound)) /\
  (parent_dir t p -> t !! p = Some NDir -> snd (spec_create_dir t p) = KDirExists) /\
  (parent_dir t p -> (exists b, t !! p = Some (NFile b)) -> snd (spec_create_dir t p) = KFileExists).
Proof.
  intros t p. unfold spec_remove_file, spec_remove_dir, spec_create_dir. split; [|split].
  - intros H. rewrite H. auto.
  - intros Hp Hd. rewrite decide_True by assumption. now rewrite Hd.
  - intros Hp [b Hb]. rewrite decide_True by assumption. now rewrite Hb.
Qed.

Example C12_example :
  snd (run Base.Store.bhandler (vp_create_dir mv [[120%N]; [121%N]; [122%N]]) (mstore Base.MemFS.mem_new [] [] None))
  = Err (mkErr EOther (PPath [[120%N]; [121%N]; [122%N]])).
Proof. vm_compute. reflexivity. Qed.

Print Assumptions C12_exists_total.
Print Assumptions C12_primitives.
Print Assumptions C12_create_dir_all.
Print Assumptions C12_remove_dir_all.
Print Assumptions C12_transfers.
Print Assumptions C12_walk_items.
Print Assumptions C12_invalid_path.
Print Assumptions C12_invalid_iff.
Print Assumptions C12_classes_mem.
Print Assumptions C12_example.
