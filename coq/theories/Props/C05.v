(** * C05 — Existence, metadata, listings and traversal agree (pinned statements). *)
From stdpp Require Import gmap list.
From Coq Require Import NArith ZArith.
From VFS Require Import Core.Types Core.Prog Core.Calls Base.MemFS Base.Handles Base.Store Layer.VfsPath
  Layer.Overlay Proofs.MemProofs Proofs.MemCalls Proofs.MemPublic Proofs.WalkProofs Proofs.OvlProofs Proofs.OvlList Path.Str Path.StrChild.

Notation mstate := (gmap (list (list N)) memfile).

(** the tie between the listing SCAN of the code and the component-level listing of the model: on the
    keys MemoryFS stores (rendered component lists, components without '/'), "starts with
    [path ++ "/"] and the rest holds no further '/'" selects exactly the keys [p ++ [n]] and yields
    [n] - what [child_of] computes - for every directory, every key and every name, names that are
    prefixes or extensions of each other included *)
Theorem C05_listing_scan_is_child_of : forall (p k : list (list N)) (n : list N),
  Forall (fun c => Str.has_slash N.eqb 47%N c = false) p ->
  Forall (fun c => Str.has_slash N.eqb 47%N c = false) k ->
  str_child N.eqb 47%N (Str.render 47%N p) (Str.render 47%N k) = Some n <->
  (child_of p k = Some n /\ Str.has_slash N.eqb 47%N n = false).
Proof.
  intros p k n Hp Hk. rewrite child_of_spec.
  exact (str_child_spec N.eqb 47%N N.eqb_spec p k n Hp Hk).
Qed.
Example C05_listing_scan_example :
  str_child N.eqb 47%N [47; 97]%N [47; 97; 47; 120]%N = Some [120%N] /\
  str_child N.eqb 47%N [47; 97]%N [47; 97; 46; 98]%N = None /\
  str_child N.eqb 47%N [47; 97]%N [47; 97; 47; 120; 47; 121]%N = None.
Proof. vm_compute. repeat split; reflexivity. Qed.

(** a path exists iff its parent lists its name - for every path, absent ones and names that
    are prefixes of each other included: the listing holds exactly the names n with p ++ [n] present *)
Theorem C05_exists_iff_listed : forall (s : mstate) p n,
  n ∈ mem_children s p <-> is_Some (s !! (p ++ [n])).
Proof. exact mem_children_spec. Qed.

(** exactly once *)
Theorem C05_listed_once : forall (s : mstate) p, NoDup (mem_children s p).
Proof. exact mem_children_nodup. Qed.

(** exists answers presence; metadata succeeds iff present *)
Theorem C05_exists : forall (s : mstate) p,
  mem_step (CExists p) s = (s, Ok (bool_decide (is_Some (s !! p)))).
Proof. exact mem_exists. Qed.
Theorem C05_metadata : forall (s : mstate) p,
  mem_step (CMetadata p) s = (s, match s !! p with Some f => Ok (mem_meta f) | None => fail ENotFound end).
Proof. exact mem_metadata. Qed.

(** it is a directory iff it can be listed, and then the names are its children; a missing
    path is not-found *)
Theorem C05_read_dir : forall (s : mstate) p,
  mem_step (CReadDir p) s =
  (s, match s !! p with
      | None => fail ENotFound
      | Some f => match f_type f with File => fail EOther | Dir => Ok (mem_children s p) end
      end).
Proof. exact mem_read_dir. Qed.

(** it is a file iff it can be opened for reading, and then the bytes are its content *)
Theorem C05_open_file : forall (s : mstate) p,
  snd (mem_step (COpenFile p) s) =
  match s !! p with
  | None => fail ENotFound
  | Some f => match f_type f with Dir => fail EOther | File => Ok (f_content f) end
  end.
Proof.
  intros s p. rewrite ms_open_file. cbn [msec_sem].
  destruct (s !! p) as [f|] eqn:E; [destruct (f_type f)|]; reflexivity.
Qed.

(** walk_dir yields every descendant exactly once and every directory before anything inside it: on a
    well-formed MemoryFS of ANY size and depth, started on any directory [p0], the walk (given fuel
    for one step per descendant) ends with a list [L] of paths that is a permutation of the set of
    entries strictly below [p0] - so each is delivered exactly once and nothing else is - in which
    the parent of every item is [p0] or was delivered earlier; and the walk changes nothing *)
Theorem C05_walk_dir : forall hs lg ft (s : mstate) p0 fuel,
  wf s -> is_dir s p0 -> length (desc s p0) < fuel ->
  exists L,
    run bhandler (let* r := vp_walk_dir mv p0 in
                  match r with
                  | Ok w => walk_collect mv fuel w []
                  | Err e => Ret (Err e)
                  | Panic => Ret Panic
                  end) (mstore s hs lg ft) = (mstore s hs lg ft, Ok (map Ok L)) /\
    L ≡ₚ desc s p0 /\ pfirst p0 [] L.
Proof. intros hs lg ft s p0 fuel Hwf. exact (walk_dir_mem hs lg ft s Hwf p0 fuel). Qed.

Theorem C05_walk_exactly_the_descendants : forall (s : mstate) p0 L,
  L ≡ₚ desc s p0 -> NoDup L /\ forall k, k ∈ L <-> is_Some (s !! k) /\ below p0 k.
Proof.
  intros s p0 L HL. split; [rewrite HL; apply NoDup_desc|]. intros k. rewrite HL. apply elem_of_desc.
Qed.

Example C05_example :
  let s := fst (mem_step (CCreateDir [[97%N]; [98%N]]) (fst (mem_step (CCreateDir [[97%N]; [97%N]]) (fst (mem_step (CCreateDir [[97%N]]) mem_new))))) in
  mem_children s [[97%N]] = [[97%N]; [98%N]] /\ mem_children s [] = [[97%N]] /\ mem_children s [[97%N]; [97%N]] = [].
Proof. vm_compute. repeat split; reflexivity. Qed.

(** through an OverlayFS over two MemoryFS layers of arbitrary well-formed contents: a directory's
    listing and exists tell one story - a name is listed iff the child exists through the overlay.
    The marker hypothesis is the invariant the overlay keeps between calls (an entry of the write layer
    has no deletion marker of its own) *)
Theorem C05_overlay_listing_matches_exists : forall hs lg ft (s0 s1 : mstate) (p : path),
  wf s0 -> wf s1 -> p <> [] ->
  s0 !! whiteout_path (v0, []) p = None ->
  (is_dir s0 p \/ (s0 !! p = None /\ is_dir s1 p)) ->
  (s0 !! (whiteout_name :: p) = None \/ is_dir s0 (whiteout_name :: p)) ->
  (forall n, is_Some (s0 !! (p ++ [n])) -> s0 !! whiteout_path (v0, []) (p ++ [n]) = None) ->
  exists l, run bhandler (ovl_read_dir (v0, []) [(v1, [])] p) (mstore2 s0 s1 hs lg ft) = (mstore2 s0 s1 hs lg ft, Ok l) /\
    forall n, n ∈ l <->
      run bhandler (ovl_exists (v0, []) [(v1, [])] (p ++ [n])) (mstore2 s0 s1 hs lg ft) = (mstore2 s0 s1 hs lg ft, Ok true).
Proof. exact listing_matches_exists. Qed.

Print Assumptions C05_listing_scan_is_child_of.
Print Assumptions C05_listing_scan_example.
Print Assumptions C05_exists_iff_listed.
Print Assumptions C05_listed_once.
Print Assumptions C05_exists.
Print Assumptions C05_metadata.
Print Assumptions C05_read_dir.
Print Assumptions C05_open_file.
Print Assumptions C05_example.
Print Assumptions C05_walk_dir.
Print Assumptions C05_walk_exactly_the_descendants.
Print Assumptions C05_overlay_listing_matches_exists.
