(** * C16 — MemoryFS is linearizable under concurrent use (pinned statements).
    partial: the theorems are about the model at lock granularity; OS thread scheduling and RwLock
    fairness are the runtime's, and that nothing of MemoryFS is shared outside the lock is a stated
    assumption.  The model's interleaved semantics is compared with the real code under the same
    schedules by the correspondence check. *)
From stdpp Require Import gmap list.
From Coq Require Import NArith ZArith.
From VFS Require Import Core.Types Core.Calls Base.MemFS Proofs.MemProofs Proofs.MemCalls Proofs.ConcProofs.

Notation mstate := (gmap (list (list N)) memfile).

(** every trait call takes the lock exactly once (or not at all): its whole effect and its result are
    those of one lock section (open_file included since the repair e051178) *)
Theorem C16_one_section_per_call : forall (c : fscall) (s : mstate),
  (exists sec : msec, exists cast : msec_rep sec -> res (mval c),
      mem_step c s = (fst (msec_sem sec s), cast (snd (msec_sem sec s)))) \/
  fst (mem_step c s) = s.
Proof. exact single_section. Qed.

(** hence: for every number of threads, every per-thread list of calls and EVERY schedule, the
    interleaved execution is the sequential execution of the calls in the order in which they took
    the lock, and that order respects each thread's program order (what a thread has executed
    followed by what it still has to execute is its program) *)
Theorem C16_linearizable : forall sch (s : mstate) pool done,
  let '(s', pool', order) := arun sch s pool done in
  exists ext, order = reverse done ++ ext /\ s' = seq_run (map snd ext) s /\
    forall t, (map snd (filter (fun x => fst x = t) ext)) ++ default [] (pool' !! t) = default [] (pool !! t).
Proof. exact arun_is_sequential. Qed.

(** the tree stays well formed under every interleaving: each step is a trait call, and every trait
    call keeps well-formedness (only removing the root is excluded) *)
Theorem C16_wf_every_step : forall (c : fscall) (s : mstate), wf s -> call_guard c s -> wf (fst (mem_step c s)).
Proof. exact mem_step_wf. Qed.

(** no call panics, in any state an interleaving can reach *)
Theorem C16_no_panic : forall (c : fscall) (s : mstate), snd (mem_step c s) <> Panic.
Proof. exact mem_step_no_panic. Qed.

(** a write handle published after its file (and directory) were removed by another thread does not
    resurrect it *)
Theorem C16_publish_after_removal : forall (s : mstate) p buf,
  s !! p = None -> fst (msec_sem (MPublish p buf) s) = s.
Proof. intros s p buf H. cbn. now rewrite H. Qed.

(** what is committed stays committed while handles are in flight: opening for append (like every observer)
    is a section that changes nothing - the content it hands to the new handle is a copy; a create_file that
    fails changes nothing either, so there is nothing for it to publish later *)
Theorem C16_append_open_and_observers_change_nothing : forall (s : mstate) p,
  fst (msec_sem (MAppendOpen p) s) = s /\ fst (msec_sem (MExists p) s) = s /\
  fst (msec_sem (MScan p) s) = s /\ fst (msec_sem (MMeta p) s) = s.
Proof.
  intros s p. cbn. repeat split.
  - destruct (s !! p) as [f|]; [destruct (f_type f)|]; reflexivity.
  - destruct (s !! p) as [f|]; [destruct (f_type f)|]; reflexivity.
  - destruct (s !! p) as [f|]; reflexivity.
Qed.

Theorem C16_failed_call_changes_nothing : forall (c : msec) (s : mstate) e,
  snd (msec_sem c s) = Err e -> fst (msec_sem c s) = s.
Proof. exact msec_err_unchanged. Qed.

Example C16_example :
  let pool := [[CCreateDir [[97%N]; [98%N]]]; [CRemoveDir [[97%N]]; CCreateFile [[97%N]]]] in
  let s0 := fst (mem_step (CCreateDir [[97%N]]) mem_new) in
  let '(s', _, order) := arun [0;1;1]%nat s0 pool [] in
  map fst order = [0;1;1]%nat /\ is_Some (s' !! [[97%N]; [98%N]]) /\
  (* the other order: the directory is gone, the late create_dir is refused *)
  let '(s'', _, _) := arun [1;1;0]%nat s0 pool [] in s'' !! [[97%N]; [98%N]] = None.
Proof. vm_compute. repeat split; eauto. Qed.

Print Assumptions C16_one_section_per_call.
Print Assumptions C16_linearizable.
Print Assumptions C16_wf_every_step.
Print Assumptions C16_no_panic.
Print Assumptions C16_publish_after_removal.
Print Assumptions C16_example.
Print Assumptions C16_append_open_and_observers_change_nothing.
Print Assumptions C16_failed_call_changes_nothing.
