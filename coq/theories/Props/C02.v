(** * C02 — MemoryFS is a faithful stand-in for PhysicalFS (pinned statements).
    partial: the PhysicalFS side is the MODELLED operating system (Base/PhysFS.v: the outcome rules of
    std::fs on Linux that the crate relies on), validated against a real temporary directory by the
    correspondence check on every run.  Both models refine the same abstract contracts; the
    agreement theorems below are corollaries.  [abs]/[pabs] forget timestamps and inode numbers. *)
From stdpp Require Import gmap list.
From Coq Require Import NArith ZArith.
From VFS Require Import Core.Types Core.Prog Core.Calls Base.MemFS Base.PhysFS Base.Handles Base.Store Layer.VfsPath Spec.Tree
  Proofs.MemProofs Proofs.MemCalls Proofs.MemPublic Proofs.PhysProofs Proofs.PhysCreate.

Notation mstate := (gmap (list (list N)) memfile).

(** the kernel's path walk on a well-formed tree: an existing path is found, a path missing from an
    existing directory is ENOENT (which the crate normalises to not-found) *)
Theorem C02_walk_found : forall (s : physfs) p m,
  pwf (p_tree s) -> p_tree s !! p = Some m -> lookup_path s p = Found m.
Proof. exact lookup_found. Qed.
Theorem C02_walk_noent : forall (s : physfs) p n,
  pwf (p_tree s) -> p_is_dir (p_tree s) p -> p_tree s !! (p ++ [n]) = None -> lookup_path s (p ++ [n]) = NoEnt.
Proof. exact lookup_noent. Qed.

(** the modelled PhysicalFS refines the same contracts as MemoryFS (cf. C01) *)
Theorem C02_phys_exists : forall hs lg ft (s : physfs) p, pwf (p_tree s) ->
  run bhandler (vp_exists pv p) (pstore s hs lg ft) = (pstore s hs lg ft, Ok (spec_exists (pabs s) p)).
Proof. exact prefine_exists. Qed.
Theorem C02_phys_remove_file : forall hs lg ft (s : physfs) p, pwf (p_tree s) ->
  exists s' r, run bhandler (vp_remove_file pv p) (pstore s hs lg ft) = (pstore s' hs lg ft, r) /\
    pabs s' = fst (spec_remove_file (pabs s) p) /\ pwf (p_tree s') /\
    (class_of r = KOk <-> snd (spec_remove_file (pabs s) p) = KOk) /\
    (is_Some (pabs s !! p) \/ parent_dir (pabs s) p -> class_of r = snd (spec_remove_file (pabs s) p)).
Proof. exact prefine_remove_file. Qed.
Theorem C02_phys_remove_dir : forall hs lg ft (s : physfs) p, pwf (p_tree s) -> p <> [] ->
  exists s' r, run bhandler (vp_remove_dir pv p) (pstore s hs lg ft) = (pstore s' hs lg ft, r) /\
    pabs s' = fst (spec_remove_dir (pabs s) p (bool_decide (phys_children s p = []))) /\ pwf (p_tree s') /\
    (class_of r = KOk <-> snd (spec_remove_dir (pabs s) p (bool_decide (phys_children s p = []))) = KOk) /\
    (is_Some (pabs s !! p) \/ parent_dir (pabs s) p ->
     class_of r = snd (spec_remove_dir (pabs s) p (bool_decide (phys_children s p = [])))).
Proof. exact prefine_remove_dir. Qed.

(** agreement: from related states the two backends agree on success and failure, on the not-found
    class wherever the contracts fix it (the target exists or is missing from an existing
    directory), and they stay related - for every path, wrong-type calls included *)
Theorem C02_agree_exists : forall hs hs' lg lg' ft ft' (s : mstate) (ps : physfs) p,
  pwf (p_tree ps) -> abs s = pabs ps ->
  snd (run bhandler (vp_exists mv p) (mstore s hs lg ft)) = snd (run bhandler (vp_exists pv p) (pstore ps hs' lg' ft')).
Proof. exact agree_exists. Qed.
Theorem C02_agree_remove_file : forall hs hs' lg lg' ft ft' (s : mstate) (ps : physfs) p,
  wf s -> pwf (p_tree ps) -> abs s = pabs ps ->
  exists s' r ps' r',
    run bhandler (vp_remove_file mv p) (mstore s hs lg ft) = (mstore s' hs lg ft, r) /\
    run bhandler (vp_remove_file pv p) (pstore ps hs' lg' ft') = (pstore ps' hs' lg' ft', r') /\
    abs s' = pabs ps' /\ wf s' /\ pwf (p_tree ps') /\
    (class_of r = KOk <-> class_of r' = KOk) /\
    (is_Some (abs s !! p) \/ parent_dir (abs s) p -> class_of r = class_of r').
Proof. exact agree_remove_file. Qed.
Theorem C02_agree_remove_dir : forall hs hs' lg lg' ft ft' (s : mstate) (ps : physfs) p,
  wf s -> pwf (p_tree ps) -> abs s = pabs ps -> p <> [] ->
  exists s' r ps' r',
    run bhandler (vp_remove_dir mv p) (mstore s hs lg ft) = (mstore s' hs lg ft, r) /\
    run bhandler (vp_remove_dir pv p) (pstore ps hs' lg' ft') = (pstore ps' hs' lg' ft', r') /\
    abs s' = pabs ps' /\ wf s' /\ pwf (p_tree ps') /\
    (class_of r = KOk <-> class_of r' = KOk) /\
    (is_Some (abs s !! p) \/ parent_dir (abs s) p -> class_of r = class_of r').
Proof. exact agree_remove_dir. Qed.

(** the empty filesystems are related *)
(** create_dir on the modelled PhysicalFS meets the same contract as on MemoryFS (outcome class:
    ok / file-exists / directory-exists / error; exact effect), hence the backends agree on it *)
Theorem C02_phys_create_dir : forall hs lg ft (s : physfs) p, pwf (p_tree s) -> p <> [] ->
  exists s' r, run bhandler (vp_create_dir pv p) (pstore s hs lg ft) = (pstore s' hs lg ft, r) /\
    pabs s' = fst (spec_create_dir (pabs s) p) /\
    class_of r = snd (spec_create_dir (pabs s) p) /\ pwf (p_tree s').
Proof. exact prefine_create_dir. Qed.

Theorem C02_agree_create_dir : forall (hs hs' : list hstate) (lg lg' : list (nat * fscall)) (ft ft' : option (nat * nat))
    (s : mstate) (ps : physfs) (p : path),
  wf s -> pwf (p_tree ps) -> abs s = pabs ps -> p <> [] ->
  exists s' r ps' r',
    run bhandler (vp_create_dir mv p) (mstore s hs lg ft) = (mstore s' hs lg ft, r) /\
    run bhandler (vp_create_dir pv p) (pstore ps hs' lg' ft') = (pstore ps' hs' lg' ft', r') /\
    abs s' = pabs ps' /\ wf s' /\ pwf (p_tree ps') /\ class_of r = class_of r'.
Proof. exact agree_create_dir. Qed.

(** whole histories: ANY sequence of exists / create_dir / remove_file / remove_dir calls on any paths
    (calls of the wrong type for their target included; the root excluded for the two directory
    calls), run on MemoryFS and on the modelled PhysicalFS from related states: call by call the same
    success/failure and the same answer of exists, and the same tree at the end *)
Theorem C02_agree_history : forall (hs hs' : list hstate) (lg lg' : list (nat * fscall)) (ft ft' : option (nat * nat))
    (ops : list hop4) (s : mstate) (ps : physfs),
  Forall hop4_ok ops -> wf s -> pwf (p_tree ps) -> abs s = pabs ps ->
  exists s' ps',
    fst (hist_run mv ops (mstore s hs lg ft)) = mstore s' hs lg ft /\
    fst (hist_run pv ops (pstore ps hs' lg' ft')) = pstore ps' hs' lg' ft' /\
    snd (hist_run mv ops (mstore s hs lg ft)) = snd (hist_run pv ops (pstore ps hs' lg' ft')) /\
    abs s' = pabs ps' /\ wf s' /\ pwf (p_tree ps').
Proof. exact agree_history. Qed.

Example C02_example : abs mem_new = pabs phys_new /\ wf mem_new /\ pwf (p_tree phys_new).
Proof.
  split; [|split].
  - unfold abs, pabs, mem_new, phys_new. cbn. now rewrite !map_fmap_singleton.
  - apply wf_new.
  - split.
    + eexists. split; [apply lookup_singleton|reflexivity].
    + intros p n x H. cbn in H. apply lookup_singleton_Some in H as [H _]. destruct p; discriminate.
Qed.

Print Assumptions C02_walk_found.
Print Assumptions C02_walk_noent.
Print Assumptions C02_phys_exists.
Print Assumptions C02_phys_remove_file.
Print Assumptions C02_phys_remove_dir.
Print Assumptions C02_agree_exists.
Print Assumptions C02_agree_remove_file.
Print Assumptions C02_agree_remove_dir.
Print Assumptions C02_example.
Print Assumptions C02_phys_create_dir.
Print Assumptions C02_agree_create_dir.
Print Assumptions C02_agree_history.
