(** * C02 — MemoryFS is a faithful stand-in for PhysicalFS (pinned statements).
    partial: the PhysicalFS side is the MODELLED operating system (Base/PhysFS.v: the outcome rules of
    std::fs on Linux that the crate relies on), validated against a real temporary directory by the
    correspondence check on every run.  Both models refine the same abstract contracts; the
    agreement theorems below are corollaries.  [abs]/[pabs] forget timestamps and inode numbers. *)
From stdpp Require Import gmap list.
From Coq Require Import NArith ZArith.
From VFS Require Import Core.Types Core.Prog Core.Calls Base.MemFS Base.PhysFS Base.Handles Base.Store Layer.VfsPath Spec.Tree
  Proofs.MemProofs Proofs.MemCalls Proofs.MemPublic Proofs.PhysProofs Proofs.PhysCreate Proofs.PhysFiles.

Notation mstate := (gmap (list (list N)) memfile).

(** the kernel's path walk on a well-formed tree: an existing path is found, a path missing from an
    existing directory is ENOENT (which the crate normalises to not-found) *)
Theorem C02_walk_found : forall (s : physfs) p m,
  pwf (p_tree s) -> p_tree s !! p = Some m -> lookup_path s p = Found m.
Proof. exact lookup_found. Qed.
Theorem C02_walk_noent : forall (s : physfs) p n,
  pwf (p_tree s) -> p_is_dir (p_tree s) p -> p_tree s !! (p ++ [n]) = None -> lookup_path s (p ++ [n]) = NoEnt.
Proof. exact lookup_noent. Qed.

(** the modelled PhysicalFS refines the same contracts as MemoryFS (cf. C01) *)
Theorem C02_phys_exists : forall hs lg ft (s : physfs) p, pwf (p_tree s) ->
  run bhandler (vp_exists pv p) (pstore s hs lg ft) = (pstore s hs lg ft, Ok (spec_exists (pabs s) p)).
Proof. exact prefine_exists. Qed.
Theorem C02_phys_remove_file : forall hs lg ft (s : physfs) p, pwf (p_tree s) ->
  exists s' r, run bhandler (vp_remove_file pv p) (pstore s hs lg ft) = (pstore s' hs lg ft, r) /\
    pabs s' = fst (spec_remove_file (pabs s) p) /\ pwf (p_tree s') /\
    (class_of r = KOk <-> snd (spec_remove_file (pabs s) p) = KOk) /\
    (is_Some (pabs s !! p) \/ parent_dir (pabs s) p -> class_of r = snd (spec_remove_file (pabs s) p)).
Proof. exact prefine_remove_file. Qed.
Theorem C02_phys_remove_dir : forall hs lg ft (s : physfs) p, pwf (p_tree s) -> p <> [] ->
  exists s' r, run bhandler (vp_remove_dir pv p) (pstore s hs lg ft) = (pstore s' hs lg ft, r) /\
    pabs s' = fst (spec_remove_dir (pabs s) p (bool_decide (phys_children s p = []))) /\ pwf (p_tree s') /\
    (class_of r = KOk <-> snd (spec_remove_dir (pabs s) p (bool_decide (phys_children s p = []))) = KOk) /\
    (is_Some (pabs s !! p) \/ parent_dir (pabs s) p ->
     class_of r = snd (spec_remove_dir (pabs s) p (bool_decide (phys_children s p = [])))).
Proof. exact prefine_remove_dir. Qed.

(** agreement: from related states the two backends agree on success and failure, on the not-found
    class wherever the contracts fix it (the target exists or is missing from an existing
    directory), and they stay related - for every path, wrong-type calls included *)
Theorem C02_agree_exists : forall hs hs' lg lg' ft ft' (s : mstate) (ps : physfs) p,
  pwf (p_tree ps) -> abs s = pabs ps ->
  snd (run bhandler (vp_exists mv p) (mstore s hs lg ft)) = snd (run bhandler (vp_exists pv p) (pstore ps hs' lg' ft')).
Proof. exact agree_exists. Qed.
Theorem C02_agree_remove_file : forall hs hs' lg lg' ft ft' (s : mstate) (ps : physfs) p,
  wf s -> pwf (p_tree ps) -> abs s = pabs ps ->
  exists s' r ps' r',
    run bhandler (vp_remove_file mv p) (mstore s hs lg ft) = (mstore s' hs lg ft, r) /\
    run bhandler (vp_remove_file pv p) (pstore ps hs' lg' ft') = (pstore ps' hs' lg' ft', r') /\
    abs s' = pabs ps' /\ wf s' /\ pwf (p_tree ps') /\
    (class_of r = KOk <-> class_of r' = KOk) /\
    (is_Some (abs s !! p) \/ parent_dir (abs s) p -> class_of r = class_of r').
Proof. exact agree_remove_file. Qed.
Theorem C02_agree_remove_dir : forall hs hs' lg lg' ft ft' (s : mstate) (ps : physfs) p,
  wf s -> pwf (p_tree ps) -> abs s = pabs ps -> p <> [] ->
  exists s' r ps' r',
    run bhandler (vp_remove_dir mv p) (mstore s hs lg ft) = (mstore s' hs lg ft, r) /\
    run bhandler (vp_remove_dir pv p) (pstore ps hs' lg' ft') = (pstore ps' hs' lg' ft', r') /\
    abs s' = pabs ps' /\ wf s' /\ pwf (p_tree ps') /\
    (class_of r = KOk <-> class_of r' = KOk) /\
    (is_Some (abs s !! p) \/ parent_dir (abs s) p -> class_of r = class_of r').
Proof. exact agree_remove_dir. Qed.

(** the empty filesystems are related *)
(** create_dir on the modelled PhysicalFS meets the same contract as on MemoryFS (outcome class:
    ok / file-exists / directory-exists / error; exact effect), hence the backends agree on it *)
Theorem C02_phys_create_dir : forall hs lg ft (s : physfs) p, pwf (p_tree s) -> p <> [] ->
  exists s' r, run bhandler (vp_create_dir pv p) (pstore s hs lg ft) = (pstore s' hs lg ft, r) /\
    pabs s' = fst (spec_create_dir (pabs s) p) /\
    class_of r = snd (spec_create_dir (pabs s) p) /\ pwf (p_tree s').
Proof. exact prefine_create_dir. Qed.

Theorem C02_agree_create_dir : forall (hs hs' : list hstate) (lg lg' : list (nat * fscall)) (ft ft' : option (nat * nat))
    (s : mstate) (ps : physfs) (p : path),
  wf s -> pwf (p_tree ps) -> abs s = pabs ps -> p <> [] ->
  exists s' r ps' r',
    run bhandler (vp_create_dir mv p) (mstore s hs lg ft) = (mstore s' hs lg ft, r) /\
    run bhandler (vp_create_dir pv p) (pstore ps hs' lg' ft') = (pstore ps' hs' lg' ft', r') /\
    abs s' = pabs ps' /\ wf s' /\ pwf (p_tree ps') /\ class_of r = class_of r'.
Proof. exact agree_create_dir. Qed.

(** whole histories: ANY sequence of exists / create_dir / remove_file / remove_dir calls on any paths
    (calls of the wrong type for their target included; the root excluded for the two directory
    calls), run on MemoryFS and on the modelled PhysicalFS from related states: call by call the same
    success/failure and the same answer of exists, and the same tree at the end *)
Theorem C02_agree_history : forall (hs hs' : list hstate) (lg lg' : list (nat * fscall)) (ft ft' : option (nat * nat))
    (ops : list hop4) (s : mstate) (ps : physfs),
  Forall hop4_ok ops -> wf s -> pwf (p_tree ps) -> abs s = pabs ps ->
  exists s' ps',
    fst (hist_run mv ops (mstore s hs lg ft)) = mstore s' hs lg ft /\
    fst (hist_run pv ops (pstore ps hs' lg' ft')) = pstore ps' hs' lg' ft' /\
    snd (hist_run mv ops (mstore s hs lg ft)) = snd (hist_run pv ops (pstore ps hs' lg' ft')) /\
    abs s' = pabs ps' /\ wf s' /\ pwf (p_tree ps').
Proof. exact agree_history. Qed.

(** ** with files.  A write session (create_file - truncating -, write_all, drop) refines the same contract on the
    modelled PhysicalFS as on MemoryFS, although PhysicalFS writes through the descriptor at once and MemoryFS
    buffers and publishes on drop: *)
Theorem C02_phys_write_file : forall lg ft (s : physfs) hs p data, pgood s ->
  exists s' hs' r, run bhandler (write_file pv p data) (pstore s hs lg ft) = (pstore s' hs' lg ft, r) /\
    pabs s' = fst (spec_write_file (pabs s) p data) /\
    class_of r = snd (spec_write_file (pabs s) p data) /\ pgood s'.
Proof. exact prefine_write_file. Qed.

Theorem C02_mem_write_file : forall lg ft (s : mstate) hs p data, wf s ->
  (Z.of_nat (length data) <= i64_max)%Z ->
  exists s' hs' r, run bhandler (write_file mv p data) (mstore s hs lg ft) = (mstore s' hs' lg ft, r) /\
    abs s' = fst (spec_write_file (abs s) p data) /\
    class_of r = snd (spec_write_file (abs s) p data) /\ wf s'.
Proof. exact refine_write_file. Qed.

(** whole histories WITH FILES: every sequence of exists / create_dir / write sessions with arbitrary bytes /
    remove_file / remove_dir on any paths (wrong types, missing parents, overwriting an existing file included),
    run on both backends from related states - in particular from the two empty filesystems: call by call the
    same success or failure, exists answers the same, and the final trees are the same: entries, types and the
    BYTES of every file *)
Theorem C02_agree_history_with_files : forall (lg lg' : list (nat * fscall)) (ft ft' : option (nat * nat))
    (ops : list hop5) (s : mstate) (ps : physfs) (hs hs' : list hstate),
  Forall hop5_ok ops -> wf s -> pgood ps -> abs s = pabs ps ->
  exists s' ps' hs1 hs1',
    fst (hist5_run mv ops (mstore s hs lg ft)) = mstore s' hs1 lg ft /\
    fst (hist5_run pv ops (pstore ps hs' lg' ft')) = pstore ps' hs1' lg' ft' /\
    snd (hist5_run mv ops (mstore s hs lg ft)) = snd (hist5_run pv ops (pstore ps hs' lg' ft')) /\
    abs s' = pabs ps' /\ wf s' /\ pgood ps'.
Proof. exact agree_history_files. Qed.

(** the empty filesystems are related and meet the hypotheses; and a concrete history that creates, overwrites
    (shorter bytes) and removes files and directories, with two calls that fail, evaluated on both models *)
Example C02_files_example :
  pgood phys_new /\
  let ops := [FCreateDir [[97%N]]; FWriteFile [[97%N]; [102%N]] [1; 2; 3; 4]%N; FWriteFile [[97%N]; [102%N]] [9]%N;
              FWriteFile [[120%N]; [121%N]] [5]%N; FRemoveDir [[97%N]]; FExists [[97%N]; [102%N]];
              FRemoveFile [[97%N]; [102%N]]; FRemoveDir [[97%N]]; FExists [[97%N]]] in
  snd (hist5_run mv ops (mstore mem_new [] [] None)) = snd (hist5_run pv ops (pstore phys_new [] [] None)) /\
  snd (hist5_run mv ops (mstore mem_new [] [] None)) =
    [Some true; Some true; Some true; None; None; Some true; Some true; Some true; Some false].
Proof. split; [exact pgood_new|]. vm_compute. split; reflexivity. Qed.

Example C02_example : abs mem_new = pabs phys_new /\ wf mem_new /\ pwf (p_tree phys_new).
Proof.
  split; [|split].
  - unfold abs, pabs, mem_new, phys_new. cbn. now rewrite !map_fmap_singleton.
  - apply wf_new.
  - split.
    + eexists. split; [apply lookup_singleton|reflexivity].
    + intros p n x H. cbn in H. apply lookup_singleton_Some in H as [H _]. destruct p; discriminate.
Qed.

Print Assumptions C02_walk_found.
Print Assumptions C02_walk_noent.
Print Assumptions C02_phys_exists.
Print Assumptions C02_phys_remove_file.
Print Assumptions C02_phys_remove_dir.
Print Assumptions C02_agree_exists.
Print Assumptions C02_agree_remove_file.
Print Assumptions C02_agree_remove_dir.
Print Assumptions C02_example.
Print Assumptions C02_phys_create_dir.
Print Assumptions C02_agree_create_dir.
Print Assumptions C02_agree_history.
Print Assumptions C02_phys_write_file.
Print Assumptions C02_mem_write_file.
Print Assumptions C02_agree_history_with_files.
Print Assumptions C02_files_example.
