(** * C07 — AltrootFS is an exact and confined re-rooting (pinned statements). *)
From stdpp Require Import gmap list.
From Coq Require Import NArith.
From VFS Require Import Path.Str Core.Types Core.Prog Core.Calls Base.MemFS Base.Handles Base.Store
  Layer.VfsPath Layer.Altroot Layer.Config Layer.Run
  Proofs.CallsOk Proofs.AdapterOk Proofs.ConfigOk Proofs.MemPublic Proofs.AltExact Props.C06.

(** Confinement: whatever trait call is made on an altroot filesystem rooted at
    [root] of base filesystem [i], and whatever the base replies, every call that
    reaches the base goes to that base and names only paths of the form
    [root ++ q]; the single exception is the existence/type probe of the root's
    own parent made by VfsPath::create_dir / create_file on the altroot's root. *)
Theorem C07_confined : forall k i root c,
  calls_ok (confined_b i root) (alt_impl (mkVfs k (fun c' => Call (BFs i c') Ret)) root c).
Proof. exact alt_confined. Qed.

(** Hostile path expressions cannot leave the namespace: the argument of the public
    API is resolved lexically inside the altroot namespace before AltrootFS sees it
    (C06_resolve), and the path AltrootFS builds for a canonical [q] is [root ++ q]
    (C06_join_relative is the string-level statement of [alt_path]). *)
Theorem C07_no_escape : forall bs arg r,
  goods bs = true -> jn (rnd bs) arg = Some r ->
  exists q, r = rnd q /\ goods q = true /\ forall root, alt_path root q = root ++ q.
Proof.
  intros bs arg r Hb Hj. destruct (C06_resolve bs arg r Hb Hj) as [-> Hg].
  exists (lexical bs arg). auto.
Qed.

Theorem C07_path_is_join : forall root q,
  goods root = true -> goods q = true -> q <> [] ->
  jn (rnd root) (tl (rnd q)) = Some (rnd (alt_path root q)).
Proof. intros root q. unfold alt_path. apply C06_join_relative. Qed.

(** observers through any stack of altroots are observers below, and mutations stay
    below the write path (instances of the C08 theorems) *)
Theorem C07_altroot_pure : forall k g root c,
  mutating c = false -> calls_ok nonmut (interp (FAlt k g root) c).
Proof. intros k g root. exact (interp_pure (FAlt k g root)). Qed.

(** Exactness: an operation on path q of an altroot rooted at [root] IS that operation on [root ++ q]
    of the underlying filesystem - for ANY underlying filesystem [u] (a backend, another adapter, any
    stacking) and against ANY handler: same final state, same outcome, the path an error carries
    being the caller's q.  (read_dir: the children of root ++ q, shown below q.) *)
Theorem C07_exact_metadata : forall (u : vfs) root k (S : Type) (h : handler brep S) q s,
  run h (vp_metadata (altv u root k) q) s =
  (fst (run h (vp_metadata u (root ++ q)) s), relabel_to q (snd (run h (vp_metadata u (root ++ q)) s))).
Proof. exact alt_metadata_exact. Qed.
Theorem C07_exact_exists : forall (u : vfs) root k (S : Type) (h : handler brep S) q s,
  run h (vp_exists (altv u root k) q) s = run h (vp_exists u (root ++ q)) s.
Proof. exact alt_exists_exact. Qed.
Theorem C07_exact_open_file : forall (u : vfs) root k (S : Type) (h : handler brep S) q s,
  run h (vp_open_file (altv u root k) q) s =
  (fst (run h (vp_open_file u (root ++ q)) s), relabel_to q (snd (run h (vp_open_file u (root ++ q)) s))).
Proof. exact alt_open_file_exact. Qed.
Theorem C07_exact_append_file : forall (u : vfs) root k (S : Type) (h : handler brep S) q s,
  run h (vp_append_file (altv u root k) q) s =
  (fst (run h (vp_append_file u (root ++ q)) s), relabel_to q (snd (run h (vp_append_file u (root ++ q)) s))).
Proof. exact alt_append_file_exact. Qed.
Theorem C07_exact_remove_file : forall (u : vfs) root k (S : Type) (h : handler brep S) q s,
  run h (vp_remove_file (altv u root k) q) s =
  (fst (run h (vp_remove_file u (root ++ q)) s), relabel_to q (snd (run h (vp_remove_file u (root ++ q)) s))).
Proof. exact alt_remove_file_exact. Qed.
Theorem C07_exact_remove_dir : forall (u : vfs) root k (S : Type) (h : handler brep S) q s,
  run h (vp_remove_dir (altv u root k) q) s =
  (fst (run h (vp_remove_dir u (root ++ q)) s), relabel_to q (snd (run h (vp_remove_dir u (root ++ q)) s))).
Proof. exact alt_remove_dir_exact. Qed.
Theorem C07_exact_read_dir : forall (u : vfs) root k (S : Type) (h : handler brep S) q s,
  run h (vp_read_dir (altv u root k) q) s =
  (fst (run h (vp_read_dir u (root ++ q)) s),
   match snd (run h (vp_read_dir u (root ++ q)) s) with
   | Ok children => Ok (map (fun n => q ++ [n]) (omap (fun c => last c) children))
   | Err e => Err (with_path e (PPath q))
   | Panic => Panic
   end).
Proof. exact alt_read_dir_exact. Qed.

(** the two creating calls are the underlying call preceded by VfsPath's parent probe (as programs) *)
Theorem C07_create_is_probe_then_underlying : forall (u : vfs) root k q,
  vp_create_dir (altv u root k) q = (try* _ := vp_get_parent (altv u root k) q in labelled (vp_create_dir u (root ++ q)) q) /\
  vp_create_file (altv u root k) q = (try* _ := vp_get_parent (altv u root k) q in labelled (vp_create_file u (root ++ q)) q).
Proof. intros. split; reflexivity. Qed.

(** over a MemoryFS the probe is pure and repeats the underlying call's own check: creating through
    the altroot is creating at root ++ q, for every q but the altroot's own root *)
Theorem C07_exact_create_dir_mem : forall lg ft root k (s : mstate) hs q, q <> [] ->
  run bhandler (vp_create_dir (altv mv root k) q) (mstore s hs lg ft) =
  (fst (run bhandler (vp_create_dir mv (root ++ q)) (mstore s hs lg ft)),
   relabel_to q (snd (run bhandler (vp_create_dir mv (root ++ q)) (mstore s hs lg ft)))).
Proof. exact alt_create_dir_mem. Qed.
Theorem C07_exact_create_file_mem : forall lg ft root k (s : mstate) hs q, q <> [] ->
  run bhandler (vp_create_file (altv mv root k) q) (mstore s hs lg ft) =
  (fst (run bhandler (vp_create_file mv (root ++ q)) (mstore s hs lg ft)),
   relabel_to q (snd (run bhandler (vp_create_file mv (root ++ q)) (mstore s hs lg ft)))).
Proof. exact alt_create_file_mem. Qed.

Example C07_example :
  confined [[114%N]; [115%N]] (CCreateDir ([[114%N]; [115%N]] ++ [[97%N]])) /\
  ~ confined [[114%N]; [115%N]] (CCreateDir [[120%N]]).
Proof.
  split.
  - constructor; [left; now exists [[97%N]]|constructor].
  - intros H. inversion H as [|? ? [[s Hs]|[Hq []]] _]; subst. discriminate.
Qed.

Print Assumptions C07_confined.
Print Assumptions C07_no_escape.
Print Assumptions C07_path_is_join.
Print Assumptions C07_altroot_pure.
Print Assumptions C07_example.
Print Assumptions C07_exact_metadata.
Print Assumptions C07_exact_exists.
Print Assumptions C07_exact_open_file.
Print Assumptions C07_exact_append_file.
Print Assumptions C07_exact_remove_file.
Print Assumptions C07_exact_remove_dir.
Print Assumptions C07_exact_read_dir.
Print Assumptions C07_create_is_probe_then_underlying.
Print Assumptions C07_exact_create_dir_mem.
Print Assumptions C07_exact_create_file_mem.
