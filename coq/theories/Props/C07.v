(** * C07 — AltrootFS is an exact and confined re-rooting (pinned statements). *)
From stdpp Require Import list.
From Coq Require Import NArith.
From VFS Require Import Path.Str Core.Types Core.Prog Core.Calls Layer.VfsPath Layer.Altroot Layer.Config Layer.Run
  Proofs.CallsOk Proofs.AdapterOk Proofs.ConfigOk Props.C06.

(** Confinement: whatever trait call is made on an altroot filesystem rooted at
    [root] of base filesystem [i], and whatever the base replies, every call that
    reaches the base goes to that base and names only paths of the form
    [root ++ q]; the single exception is the existence/type probe of the root's
    own parent made by VfsPath::create_dir / create_file on the altroot's root. *)
Theorem C07_confined : forall k i root c,
  calls_ok (confined_b i root) (alt_impl (mkVfs k (fun c' => Call (BFs i c') Ret)) root c).
Proof. exact alt_confined. Qed.

(** Hostile path expressions cannot leave the namespace: the argument of the public
    API is resolved lexically inside the altroot namespace before AltrootFS sees it
    (C06_resolve), and the path AltrootFS builds for a canonical [q] is [root ++ q]
    (C06_join_relative is the string-level statement of [alt_path]). *)
Theorem C07_no_escape : forall bs arg r,
  goods bs = true -> jn (rnd bs) arg = Some r ->
  exists q, r = rnd q /\ goods q = true /\ forall root, alt_path root q = root ++ q.
Proof.
  intros bs arg r Hb Hj. destruct (C06_resolve bs arg r Hb Hj) as [-> Hg].
  exists (lexical bs arg). auto.
Qed.

Theorem C07_path_is_join : forall root q,
  goods root = true -> goods q = true -> q <> [] ->
  jn (rnd root) (tl (rnd q)) = Some (rnd (alt_path root q)).
Proof. intros root q. unfold alt_path. apply C06_join_relative. Qed.

(** observers through any stack of altroots are observers below, and mutations stay
    below the write path (instances of the C08 theorems) *)
Theorem C07_altroot_pure : forall k g root c,
  mutating c = false -> calls_ok nonmut (interp (FAlt k g root) c).
Proof. intros k g root. exact (interp_pure (FAlt k g root)). Qed.

Example C07_example :
  confined [[114%N]; [115%N]] (CCreateDir ([[114%N]; [115%N]] ++ [[97%N]])) /\
  ~ confined [[114%N]; [115%N]] (CCreateDir [[120%N]]).
Proof.
  split.
  - constructor; [left; now exists [[97%N]]|constructor].
  - intros H. inversion H as [|? ? [[s Hs]|[Hq []]] _]; subst. discriminate.
Qed.

Print Assumptions C07_confined.
Print Assumptions C07_no_escape.
Print Assumptions C07_path_is_join.
Print Assumptions C07_altroot_pure.
Print Assumptions C07_example.
