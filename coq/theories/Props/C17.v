(** * C17 — Concurrent create_dir_all calls all succeed (pinned statements).
    Threads run VfsPath::create_dir_all (one FileSystem::create_dir per prefix, DirectoryExists
    tolerated) against one MemoryFS; a schedule picks, at each step, the thread whose next
    create_dir takes the lock (since the repair of the check-then-act windows a create_dir is one
    lock section, so this is the lock-granularity interleaving semantics). *)
From stdpp Require Import gmap list.
From Coq Require Import NArith ZArith.
From VFS Require Import Core.Types Core.Calls Base.MemFS Layer.VfsPath Proofs.MemProofs Proofs.MemCalls Proofs.ConcProofs.

Notation mstate := (gmap (list (list N)) memfile).

(** For every number of threads, every list of requested paths (overlapping in any way), every
    well-formed state without files on the requested prefixes and EVERY schedule: no thread fails,
    and a thread that has finished has every requested prefix in place as a directory. *)
Theorem C17_all_succeed : forall (s : mstate) (Ps : list (list (list N))) (sch : list nat),
  wf s -> Forall (fun P => Forall (not_file s) (prefixes P)) Ps ->
  let '(s', pool') := crun sch s (map (fun P => Some (cda_thread P)) Ps) in
  Forall (fun x => x <> None) pool' /\
  Forall (fun x => match x with
                   | Some t => ct_todo t = [] -> Forall (is_dir s') (ct_done t)
                   | None => False
                   end) pool'.
Proof. exact create_dir_all_concurrent. Qed.

(** what a thread has dealt with plus what it still has to do is always the list of prefixes *)
Theorem C17_progress_is_prefixes : forall (s : mstate) t t',
  cstep s t = (fst (cstep s t), Some t') -> ct_done t' ++ ct_todo t' = ct_done t ++ ct_todo t.
Proof. exact cstep_preserves_list. Qed.

(** directories only grow under create_dir *)
Theorem C17_monotone : forall (s : mstate) d,
  (forall q, is_dir s q -> is_dir (fst (mem_step (CCreateDir d) s)) q) /\
  (forall q, not_file s q -> not_file (fst (mem_step (CCreateDir d) s)) q).
Proof. intros s d. exact (create_dir_mono s d). Qed.

(** non-vacuity: three threads on overlapping paths, an adversarial schedule *)
Example C17_example :
  let Ps := [[[97%N]; [98%N]; [99%N]]; [[97%N]; [98%N]]; [[97%N]; [100%N]]] in
  let '(s', pool') := crun [0;1;2;2;1;0;0]%nat mem_new (map (fun P => Some (cda_thread P)) Ps) in
  Forall (fun x => match x with Some t => ct_todo t = [] | None => False end) pool' /\
  is_Some (s' !! [[97%N]; [98%N]; [99%N]]) /\ is_Some (s' !! [[97%N]; [100%N]]).
Proof. vm_compute. repeat split; eauto; repeat constructor. Qed.

Print Assumptions C17_all_succeed.
Print Assumptions C17_progress_is_prefixes.
Print Assumptions C17_monotone.
Print Assumptions C17_example.
