(** * C17 — Concurrent create_dir_all calls all succeed (pinned statements).
    Threads run VfsPath::create_dir_all (one FileSystem::create_dir per prefix, DirectoryExists
    tolerated) against one MemoryFS; a schedule picks, at each step, the thread whose next
    create_dir takes the lock (since the repair of the check-then-act windows a create_dir is one
    lock section, so this is the lock-granularity interleaving semantics). *)
From stdpp Require Import gmap list.
From Coq Require Import NArith ZArith Lia.
From VFS Require Import Core.Types Core.Prog Core.Calls Base.MemFS Base.Handles Base.Store Layer.VfsPath Layer.Overlay
  Proofs.MemProofs Proofs.MemCalls Proofs.ConcProofs Proofs.OvlProofs Proofs.CallsOk Proofs.OvlConc.

Notation mstate := (gmap (list (list N)) memfile).

(** For every number of threads, every list of requested paths (overlapping in any way), every
    well-formed state without files on the requested prefixes and EVERY schedule: no thread fails,
    and a thread that has finished has every requested prefix in place as a directory. *)
Theorem C17_all_succeed : forall (s : mstate) (Ps : list (list (list N))) (sch : list nat),
  wf s -> Forall (fun P => Forall (not_file s) (prefixes P)) Ps ->
  let '(s', pool') := crun sch s (map (fun P => Some (cda_thread P)) Ps) in
  Forall (fun x => x <> None) pool' /\
  Forall (fun x => match x with
                   | Some t => ct_todo t = [] -> Forall (is_dir s') (ct_done t)
                   | None => False
                   end) pool'.
Proof. exact create_dir_all_concurrent. Qed.

(** what a thread has dealt with plus what it still has to do is always the list of prefixes *)
Theorem C17_progress_is_prefixes : forall (s : mstate) t t',
  cstep s t = (fst (cstep s t), Some t') -> ct_done t' ++ ct_todo t' = ct_done t ++ ct_todo t.
Proof. exact cstep_preserves_list. Qed.

(** directories only grow under create_dir *)
Theorem C17_monotone : forall (s : mstate) d,
  (forall q, is_dir s q -> is_dir (fst (mem_step (CCreateDir d) s)) q) /\
  (forall q, not_file s q -> not_file (fst (mem_step (CCreateDir d) s)) q).
Proof. intros s d. exact (create_dir_mono s d). Qed.

(** non-vacuity: three threads on overlapping paths, an adversarial schedule *)
Example C17_example :
  let Ps := [[[97%N]; [98%N]; [99%N]]; [[97%N]; [98%N]]; [[97%N]; [100%N]]] in
  let '(s', pool') := crun [0;1;2;2;1;0;0]%nat mem_new (map (fun P => Some (cda_thread P)) Ps) in
  Forall (fun x => match x with Some t => ct_todo t = [] | None => False end) pool' /\
  is_Some (s' !! [[97%N]; [98%N]; [99%N]]) /\ is_Some (s' !! [[97%N]; [100%N]]).
Proof. vm_compute. repeat split; eauto; repeat constructor. Qed.

(** ** through an AltrootFS over a MemoryFS: create_dir on q is the underlying create_dir on root ++ q
    (the C07_exact theorems), so a create_dir_all thread walks the shifted prefixes; the altroot's root must be a
    directory of the underlying filesystem *)
Theorem C17_altroot_all_succeed : forall (s : mstate) (root : list (list N)) (Ps : list (list (list N))) (sch : list nat),
  wf s -> is_dir s root -> Forall (fun P => Forall (not_file s) (map (app root) (prefixes P))) Ps ->
  let '(s', pool') := crun sch s (map (fun P => Some (alt_cda_thread root P)) Ps) in
  Forall (fun x => x <> None) pool' /\
  Forall (fun x => match x with
                   | Some t => ct_todo t = [] -> Forall (is_dir s') (ct_done t)
                   | None => False
                   end) pool'.
Proof. exact altroot_create_dir_all_concurrent. Qed.

(** ** through an OverlayFS over two MemoryFS layers
    The overlay's create_dir is some fifteen calls on its layers (resolve the parent, copy the parent
    chain up, resolve the target, create it in the write layer, remove its deletion marker), and a
    scheduling step is ONE such call of one thread ([prun]: at least as fine as lock granularity, since
    every MemoryFS call is one lock section).  For every number of threads, all requested paths
    (overlapping in any way), all contents of the two layers - deletion markers of earlier removals
    included - and EVERY schedule: a create_dir_all that has returned has returned Ok, and each
    directory it asked for is then visible through the overlay (a directory of the write layer, or
    one of the lower layer that is not marked as deleted).  Hypotheses: the write layer is a
    well-formed tree; on the requested prefixes no file is VISIBLE (the property's precondition): the
    write layer has none, and a file of the lower layer is hidden by its marker or shadowed by a
    write-layer directory (an entry removed through the overlay earlier - the stale file behind the
    marker must never surface while the threads re-create the path); names are non-empty and the first is not the bookkeeping directory, and the marker
    path of a requested prefix holds nothing but a marker (no directory: see finding D28).
    This is the statement that was FALSE before repair a7ee48b, which it was written to settle:
    with a marker present, a thread's parent check could see the marker of a directory another thread
    had just re-created. *)
Theorem C17_overlay_all_succeed :
  forall (hs : list hstate) (lg : list (nat * fscall)) (ft : option (nat * nat)) (s0 s1 : mstate)
         (Ps : list (list (list N))) (sch : list nat),
  wf s0 ->
  (forall P q, P ∈ Ps -> q ∈ prefixes P ->
     not_file s0 q /\
     (forall f, s1 !! q = Some f -> f_type f = File -> is_Some (s0 !! whiteout_path (v0, []) q) \/ is_dir s0 q) /\
     Forall (fun n => n <> []) q /\ head q <> Some whiteout_name /\
     (forall f, s0 !! whiteout_path (v0, []) q = Some f -> f_type f = File)) ->
  exists s0', fst (prun sch (mstore2 s0 s1 hs lg ft) (map (fun P => vp_create_dir_all ovl P) Ps)) = mstore2 s0' s1 hs lg ft /\
    wf s0' /\
    forall t P r, Ps !! t = Some P ->
      snd (prun sch (mstore2 s0 s1 hs lg ft) (map (fun P => vp_create_dir_all ovl P) Ps)) !! t = Some (Ret r) ->
      r = Ok tt /\ Forall (visible s0' s1) (prefixes P).
Proof. exact ovl_create_dir_all_concurrent. Qed.

(** the scheduling step: every call such a thread can issue, whatever the replies, is a trait call of
    one of the two MemoryFS layers - and each of those is one lock section (C16_one_section_per_call) *)
Theorem C17_overlay_steps_are_layer_calls : forall P : list (list N),
  calls_ok (fun b => match b with BFs i _ => i < 2 | BH _ _ => True | BLog _ _ => False end) (vp_create_dir_all ovl P).
Proof. exact cda_calls. Qed.

(** "visible" is what the caller observes: exists through the overlay answers true *)
Theorem C17_visible_is_exists : forall (hs : list hstate) (lg : list (nat * fscall)) (ft : option (nat * nat))
    (s0 s1 : mstate) (q : list (list N)),
  q <> [] -> visible s0 s1 q ->
  run bhandler (ovl_exists (v0, []) [(v1, [])] q) (mstore2 s0 s1 hs lg ft) = (mstore2 s0 s1 hs lg ft, Ok true).
Proof. exact visible_exists. Qed.

(** non-vacuity: /a exists in the lower layer and was removed through the overlay (its marker is in the
    write layer); two threads re-create /a/x and /a/y under an interleaving that switches inside
    create_dir; both return Ok, the marker is gone, the three directories are in the write layer *)
Definition c17_dir := mkMemFile Dir [] TAuto (Some TAuto) (Some TAuto).
Definition c17_upper : mstate :=
  <[[whiteout_name; [97%N] ++ wo_suffix] := mkMemFile File [] TAuto (Some TAuto) (Some TAuto)]>
    (<[[whiteout_name] := c17_dir]> mem_new).
Definition c17_lower : mstate := <[[[97%N]] := c17_dir]> mem_new.
Definition c17_run :=
  prun (concat (replicate 40 [0; 1; 1; 0; 0]%nat)) (mstore2 c17_upper c17_lower [] [] None)
       (map (fun P => vp_create_dir_all ovl P) [[[97%N]; [120%N]]; [[97%N]; [121%N]]]).
Example C17_overlay_example :
  snd c17_run = [Ret (Ok tt); Ret (Ok tt)] /\
  match st_bases (fst c17_run) !! 0%nat with
  | Some (BMem s) => map fst (map_to_list s)
  | _ => []
  end = [[]; [[97%N]]; [[97%N]; [121%N]]; [[97%N]; [120%N]]; [whiteout_name]].
Proof. vm_compute. split; reflexivity. Qed.

(** the example state meets the theorem's hypotheses, with the marker of /a present and /a in the lower layer *)
Example C17_overlay_hypotheses :
  wf c17_upper /\
  (forall P q, P ∈ [[[97%N]; [120%N]]; [[97%N]; [121%N]]] -> q ∈ prefixes P ->
     not_file c17_upper q /\
     (forall f, c17_lower !! q = Some f -> f_type f = File ->
        is_Some (c17_upper !! whiteout_path (v0, []) q) \/ is_dir c17_upper q) /\
     Forall (fun n => n <> []) q /\ head q <> Some whiteout_name /\
     (forall f, c17_upper !! whiteout_path (v0, []) q = Some f -> f_type f = File)) /\
  is_Some (c17_upper !! whiteout_path (v0, []) [[97%N]]) /\ is_dir c17_lower [[97%N]].
Proof.
  split; [|split; [|split]].
  - split.
    + eexists. split; [vm_compute; reflexivity|reflexivity].
    + intros p n f H. unfold c17_upper in H.
      apply lookup_insert_Some in H as [[E _]|[_ H]].
      { change [whiteout_name; [97%N] ++ wo_suffix] with ([whiteout_name] ++ [[97%N] ++ wo_suffix]) in E.
        apply snoc_inj in E as [<- _]. eexists. split; [vm_compute; reflexivity|reflexivity]. }
      apply lookup_insert_Some in H as [[E _]|[_ H]].
      { change [whiteout_name] with ([] ++ [whiteout_name]) in E. apply snoc_inj in E as [<- _].
        eexists. split; [vm_compute; reflexivity|reflexivity]. }
      unfold mem_new in H. apply lookup_singleton_Some in H as [E _]. destruct p; discriminate.
  - intros P q HP Hq.
    assert (Hcases : q = [[97%N]] \/ q = [[97%N]; [120%N]] \/ q = [[97%N]; [121%N]]).
    { apply elem_of_cons in HP as [-> | HP]; [|apply elem_of_list_singleton in HP as ->];
        cbn in Hq; apply elem_of_cons in Hq as [-> | Hq]; auto; apply elem_of_list_singleton in Hq as ->; auto. }
    destruct Hcases as [-> | [-> | ->]]; (split; [|split; [|split; [|split]]]);
      try (intros f Hf Hft; vm_compute in Hf; first [discriminate Hf|injection Hf as <-; discriminate Hft]);
      try (intros f Hf; vm_compute in Hf; first [discriminate|injection Hf as <-; reflexivity]);
      try (repeat constructor; discriminate); try (cbn; intros E; discriminate).
  - eexists. vm_compute. reflexivity.
  - eexists. split; [vm_compute; reflexivity|reflexivity].
Qed.

(** the same with a FILE behind the marker: /a was a file of the lower layer, removed through the overlay; the
    threads re-create /a/x and /a/y; the stale file never surfaces *)
Definition c17_lower_f : mstate := <[[[97%N]] := mkMemFile File [104%N] TAuto (Some TAuto) (Some TAuto)]> mem_new.
Definition c17_run_f :=
  prun (concat (replicate 40 [0; 1; 1; 0; 0]%nat)) (mstore2 c17_upper c17_lower_f [] [] None)
       (map (fun P => vp_create_dir_all ovl P) [[[97%N]; [120%N]]; [[97%N]; [121%N]]]).
Example C17_overlay_hidden_file_example :
  snd c17_run_f = [Ret (Ok tt); Ret (Ok tt)] /\
  (forall q f, c17_lower_f !! q = Some f -> f_type f = File -> q = [[97%N]]) /\
  is_Some (c17_upper !! whiteout_path (v0, []) [[97%N]]).
Proof.
  split; [vm_compute; reflexivity|]. split; [|eexists; vm_compute; reflexivity].
  intros q f Hf Hft. unfold c17_lower_f in Hf. apply lookup_insert_Some in Hf as [[<- _]|[_ Hf]]; [reflexivity|].
  unfold mem_new in Hf. apply lookup_singleton_Some in Hf as [_ <-]. discriminate Hft.
Qed.

Print Assumptions C17_all_succeed.
Print Assumptions C17_progress_is_prefixes.
Print Assumptions C17_monotone.
Print Assumptions C17_example.
Print Assumptions C17_overlay_all_succeed.
Print Assumptions C17_overlay_example.
Print Assumptions C17_overlay_hypotheses.
Print Assumptions C17_altroot_all_succeed.
Print Assumptions C17_visible_is_exists.
Print Assumptions C17_overlay_steps_are_layer_calls.
Print Assumptions C17_overlay_hidden_file_example.
