(** * C20 — Underlying failures are never reported as success (pinned statements).
    partial: the theorems below are the building blocks (the injected fault is an I/O error of the
    failing call; [?] propagates every error unchanged; the sites that inspect an error kind -
    create_dir_all, OverlayFS::exists, the same-instance fast path - let an I/O error through;
    lower overlay layers are never written whatever the replies are).  That every composite and
    adapter operation is built from these sites only is checked by the faulted correspondence runs. *)
From stdpp Require Import gmap list.
From Coq Require Import NArith ZArith.
From VFS Require Import Core.Types Core.Prog Core.Calls Base.Store Layer.VfsPath Layer.Overlay Layer.Config
  Proofs.CallsOk Proofs.AdapterOk Proofs.ConfigOk Proofs.Faults.

Theorem C20_fault_is_io_error : forall k inner c bases hs lg,
  run bhandler (wrap_impl k inner c) (mkStore bases hs lg (Some (k, 0))) =
  (mkStore bases hs ((k, c) :: lg) None, Err (mkErr EIo PUnfilled)).
Proof. exact wrap_fault_fires. Qed.

Theorem C20_question_mark_propagates : forall (S : Type) (h : handler brep S) T U
    (m : bprog (res T)) (f : T -> bprog (res U)) s s' e,
  run h m s = (s', Err e) -> run h (bind_res m f) s = (s', Err e).
Proof. intros S h T U. exact (try_propagates h). Qed.

Theorem C20_relabel_keeps_kind : forall (S : Type) (h : handler brep S) T (m : bprog (res T)) p s s' e,
  run h m s = (s', Err e) -> run h (labelled m p) s = (s', Err (mkErr (e_kind e) (PPath p))).
Proof. intros S h T. exact (labelled_kind h). Qed.

Theorem C20_create_dir_all_propagates : forall (S : Type) (h : handler brep S) (v : vfs) d ds s s' e,
  run h (v_impl v (CCreateDir d)) s = (s', Err e) -> e_kind e <> EDirExists ->
  run h (create_dirs v (d :: ds)) s = (s', Err (with_path e (PPath d))).
Proof. intros S h. exact (create_dirs_propagates h). Qed.

Theorem C20_overlay_exists_propagates : forall (S : Type) (h : handler brep S) top lower p s s1 s2 e,
  run h (vp_exists (fst top) (whiteout_path top p)) s = (s1, Ok false) ->
  run h (read_path top lower p) s1 = (s2, Err e) -> e_kind e <> ENotFound ->
  run h (ovl_exists top lower p) s = (s2, Err e).
Proof. intros S h. exact (ovl_exists_propagates h). Qed.

(** whatever fails and whatever the layers reply, a lower overlay layer is never written *)
Theorem C20_lower_layers_untouched_under_faults : forall (f : fsref),
  consistent f -> forall c, calls_ok (mut_in (wbases f)) (interp f c).
Proof. exact interp_writes. Qed.

Example C20_example :
  fst (run bhandler (wrap_impl 3 (fun c => Call (BFs 0 c) Ret) (CExists []))
         (mkStore [] [] [] (Some (3, 0)))) = mkStore [] [] [(3, CExists [])] None.
Proof. reflexivity. Qed.

Print Assumptions C20_fault_is_io_error.
Print Assumptions C20_question_mark_propagates.
Print Assumptions C20_relabel_keeps_kind.
Print Assumptions C20_create_dir_all_propagates.
Print Assumptions C20_overlay_exists_propagates.
Print Assumptions C20_lower_layers_untouched_under_faults.
Print Assumptions C20_example.
