(** * C20 — Underlying failures are never reported as success (pinned statements).
    The first group are the building blocks (the injected fault is an I/O error of the failing call;
    [?] propagates every error unchanged; the sites that inspect an error kind - create_dir_all,
    OverlayFS::exists, the same-instance fast path - let an I/O error through; lower overlay layers
    are never written whatever the replies are).  The second group (Proofs/IoStrict.v) is the
    whole-program statement: every trait call of every stacking and every operation of the path API
    is *strict* - on every path through its program tree on which an underlying I/O failure or an
    injected fault occurs, whatever all other replies are, it returns an I/O error (a walk yields one
    as an item) - and on the real base handler: if the armed fault fired, the outcome is an I/O error. *)
From stdpp Require Import gmap list.
From Coq Require Import NArith ZArith.
From VFS Require Import Core.Types Core.Prog Core.Calls Base.Store Layer.VfsPath Layer.Overlay Layer.Config
  Proofs.CallsOk Proofs.AdapterOk Proofs.ConfigOk Proofs.Faults Proofs.IoStrict Proofs.MemProofs Proofs.OvlProofs Proofs.CopyFile Proofs.IoCopy.
From VFS Require Import Base.MemFS Base.Handles.

Theorem C20_fault_is_io_error : forall k inner c bases hs lg io,
  run bhandler (wrap_impl k inner c) (mkStore bases hs lg (Some (k, 0)) io) =
  (mkStore bases hs ((k, c) :: lg) None io, Err (mkErr EIo PUnfilled)).
Proof. exact wrap_fault_fires. Qed.

Theorem C20_question_mark_propagates : forall (S : Type) (h : handler brep S) T U
    (m : bprog (res T)) (f : T -> bprog (res U)) s s' e,
  run h m s = (s', Err e) -> run h (bind_res m f) s = (s', Err e).
Proof. intros S h T U. exact (try_propagates h). Qed.

Theorem C20_relabel_keeps_kind : forall (S : Type) (h : handler brep S) T (m : bprog (res T)) p s s' e,
  run h m s = (s', Err e) -> run h (labelled m p) s = (s', Err (mkErr (e_kind e) (PPath p))).
Proof. intros S h T. exact (labelled_kind h). Qed.

Theorem C20_create_dir_all_propagates : forall (S : Type) (h : handler brep S) (v : vfs) d ds s s' e,
  run h (v_impl v (CCreateDir d)) s = (s', Err e) -> e_kind e <> EDirExists ->
  run h (create_dirs v (d :: ds)) s = (s', Err (with_path e (PPath d))).
Proof. intros S h. exact (create_dirs_propagates h). Qed.

Theorem C20_overlay_exists_propagates : forall (S : Type) (h : handler brep S) top lower p s s2 e,
  run h (read_path top lower p) s = (s2, Err e) -> e_kind e <> ENotFound ->
  run h (ovl_exists top lower p) s = (s2, Err e).
Proof. intros S h. exact (ovl_exists_propagates h). Qed.

(** whatever fails and whatever the layers reply, a lower overlay layer is never written *)
Theorem C20_lower_layers_untouched_under_faults : forall (f : fsref),
  consistent f -> forall c, calls_ok (mut_in (wbases f)) (interp f c).
Proof. exact interp_writes. Qed.

(** every trait call of every stacking (altroot, overlays of any number of layers, nested in any way,
    the fault-injecting wrapper anywhere) is strict *)
Theorem C20_stackings_strict : forall (f : fsref) (c : fscall), strict (interp f c).
Proof. exact st_interp. Qed.

(** and so is every operation of the path API on top of strict instances, the transfers between two
    instances included *)
Theorem C20_path_api_strict : forall (utf8 : bytes -> bool) (f g : fsref) fuel p q t,
  let v := vfs_of f in let v' := vfs_of g in
  strict (vp_exists v p) /\ strict (vp_metadata v p) /\ strict (vp_read_dir v p) /\
  strict (vp_create_dir v p) /\ strict (vp_create_file v p) /\ strict (vp_append_file v p) /\
  strict (vp_open_file v p) /\ strict (vp_remove_file v p) /\ strict (vp_remove_dir v p) /\
  strict (vp_set_ctime v p t) /\ strict (vp_set_mtime v p t) /\ strict (vp_set_atime v p t) /\
  strict (vp_is_file v p) /\ strict (vp_is_dir v p) /\
  strict (vp_create_dir_all v p) /\ strict (vp_remove_dir_all v fuel p) /\ strict (vp_walk_dir v p) /\
  strict (vp_read_to_string utf8 v p) /\
  strict (vp_copy_file v p v' q) /\ strict (vp_move_file v p v' q) /\
  strict (vp_copy_dir fuel v p v' q) /\ strict (vp_move_dir fuel v p v' q).
Proof.
  intros utf8 f g fuel p q t v v'.
  pose proof (st_vfs_of f) as Hv. pose proof (st_vfs_of g) as Hv'.
  repeat split;
    first [now apply st_exists|now apply st_metadata|now apply st_read_dir|now apply st_create_dir
          |now apply st_create_file|now apply st_append_file|now apply st_open_file|now apply st_remove_file
          |now apply st_remove_dir|now apply st_set_ctime|now apply st_set_mtime|now apply st_set_atime
          |now apply st_is_file|now apply st_is_dir|now apply st_create_dir_all|now apply st_remove_dir_all
          |now apply st_walk_dir|now apply st_read_to_string|now apply st_copy_file|now apply st_move_file
          |now apply st_copy_dir|now apply st_move_dir].
Qed.

(** what strictness means on the real base handler with its fault plan: if the fault that was armed
    before the operation has fired by its end, the operation reports an I/O error *)
Theorem C20_fired_fault_is_reported : forall T (m : bprog (res T)), strict m ->
  forall st id k, st_fault st = Some (id, k) -> st_fault (fst (run bhandler m st)) = None ->
  ioe (snd (run bhandler m st)).
Proof. exact @strict_fault. Qed.

(** a drained walk reports it as an item (out-of-fuel being the model's own artefact) *)
Theorem C20_walk_yields_the_failure : forall v fuel w, (forall c, strict (v_impl v c)) ->
  forall st id k, st_fault st = Some (id, k) ->
  st_fault (fst (run bhandler (walk_collect v fuel w []) st)) = None ->
  items_good (snd (run bhandler (walk_collect v fuel w []) st)).
Proof. exact walk_fault. Qed.

(** failing handle I/O (the harness arms [st_io]: reads, or writes and flushes, or both, on every handle answer
    with an I/O error, as a failing disk or a closed pipe would): a strict program whose run reaches such an
    operation returns an I/O error - copy_file, move_file, copy_dir, move_dir, read_to_string and the overlay's
    copy-up cannot report success when the stream copy failed; and the failed operation left the store alone *)
Theorem C20_failed_handle_io_is_reported : forall T (m : bprog (res T)), strict m ->
  forall st, io_fault_hits m st -> ioe (snd (run bhandler m st)).
Proof. exact @strict_io_fault. Qed.

Theorem C20_failed_handle_io_changes_nothing : forall h o st,
  io_fails st h o = true -> handle_op h o st = (st, fail EIo).
Proof. exact handle_op_armed. Qed.

Theorem C20_io_mode_survives : forall b st, st_io (fst (bhandler b st)) = st_io st.
Proof. exact bhandler_io. Qed.

(** the concrete picture between two MemoryFS instances: the copy reports an I/O error naming the caller's source
    path; the source keeps its bytes (its access time stamped by the open); the destination is left as the EMPTY
    file that create_file made - an error with a partial effect, never a success; both handles are closed *)
Theorem C20_copy_file_under_io_fault : forall lg ft (s0 s1 : mstate) hs (p q : path) f m,
  s1 !! p = Some f -> f_type f = File ->
  q <> [] -> is_dir s0 (removelast q) -> s0 !! q = None ->
  armed_for m (f_content f) ->
  run bhandler (vp_copy_file v1 p v0 q) (set_io (mstore2 s0 s1 hs lg ft) m) =
  (set_io (mstore2 (<[q := fresh_file []]> s0) (<[p := touched f]> s1) (hs ++ [HClosed; HClosed]) lg ft) m,
   Err (mkErr EIo (PPath p))).
Proof. exact copy_file_across_io_fault. Qed.

(** the overlay's copy-up under failing handle I/O: append_file on a lower-only file fails with an I/O error, the lower
    layer keeps its bytes; the EMPTY file left in the write layer by the failed copy now shadows them (an error with
    a partial effect - allowed here, since nothing is reported as success - recorded because it is what the code does) *)
Theorem C20_overlay_append_under_io_fault : forall lg ft (s0 s1 : mstate) hs (n : name) f m,
  wf s0 -> s0 !! whiteout_path (v0, []) [] = None -> s0 !! whiteout_path (v0, []) [n] = None ->
  s0 !! [n] = None -> s1 !! [n] = Some f -> f_type f = File -> armed_for m (f_content f) ->
  exists e,
    run bhandler (ovl_impl (v0, []) [(v1, [])] (CAppendFile [n])) (set_io (mstore2 s0 s1 hs lg ft) m) =
    (set_io (mstore2 (<[[n] := fresh_file []]> s0) (<[[n] := touched f]> s1) (hs ++ [HClosed; HClosed]) lg ft) m, Err e) /\
    e_kind e = EIo.
Proof. exact append_copy_up_io_fault. Qed.

Example C20_io_example :
  let s1 := fst (mem_step (CCreateFile [[97%N]]) mem_new) in
  let s1' := fst (msec_sem (MPublish [[97%N]] [104%N; 105%N]) s1) in
  let st m := mkStore [BMem mem_new; BMem s1'] [] [] None m in
  let cp := vp_copy_file v1 [[97%N]] v0 [[98%N]] in
  io_fault_hits cp (st IoWrites) /\ ioe (snd (run bhandler cp (st IoWrites))) /\
  io_fault_hits cp (st IoReads) /\ ioe (snd (run bhandler cp (st IoReads))) /\
  snd (run bhandler cp (st IoOff)) = Ok tt.
Proof.
  cbn zeta. repeat split; try (vm_compute; reflexivity);
    vm_compute; repeat first [left; reflexivity|right].
Qed.

Example C20_example :
  fst (run bhandler (wrap_impl 3 (fun c => Call (BFs 0 c) Ret) (CExists []))
         (mkStore [] [] [] (Some (3, 0)) IoOff)) = mkStore [] [] [(3, CExists [])] None IoOff.
Proof. reflexivity. Qed.

Print Assumptions C20_fault_is_io_error.
Print Assumptions C20_question_mark_propagates.
Print Assumptions C20_relabel_keeps_kind.
Print Assumptions C20_create_dir_all_propagates.
Print Assumptions C20_overlay_exists_propagates.
Print Assumptions C20_lower_layers_untouched_under_faults.
Print Assumptions C20_example.
Print Assumptions C20_stackings_strict.
Print Assumptions C20_path_api_strict.
Print Assumptions C20_fired_fault_is_reported.
Print Assumptions C20_walk_yields_the_failure.
Print Assumptions C20_failed_handle_io_is_reported.
Print Assumptions C20_failed_handle_io_changes_nothing.
Print Assumptions C20_io_mode_survives.
Print Assumptions C20_io_example.
Print Assumptions C20_copy_file_under_io_fault.
Print Assumptions C20_overlay_append_under_io_fault.
