(** * C13 — No operation panics (pinned statements; every Rust panic source of the modelled
    code is an explicit [Panic] outcome of the model). *)
From stdpp Require Import gmap list.
From Coq Require Import NArith ZArith.
From VFS Require Import Path.Str Core.Types Core.Prog Core.Calls Base.MemFS Base.PhysFS Base.Embedded Base.Handles Base.Store
  Layer.Config Layer.Run Proofs.Leaves
  Proofs.HandleProofs Proofs.MemProofs Proofs.MemCalls Proofs.MoreMem Proofs.NoPanic Proofs.NoPanicRun Props.C06.
Local Open Scope Z_scope.

Notation mstate := (gmap (list (list N)) memfile).

(** no lock section and no trait call of MemoryFS panics, on any state and any path (the root,
    wrong types, absent paths included) *)
Theorem C13_mem_sections : forall (c : msec) (s : mstate), snd (msec_sem c s) <> Panic.
Proof. exact msec_no_panic. Qed.
Theorem C13_mem_calls : forall (c : fscall) (s : mstate), snd (mem_step c s) <> Panic.
Proof. exact mem_step_no_panic. Qed.

(** the read handle of MemoryFS never panics: at every position a u64 can hold (before seeks
    that fail, at or past the end, on empty files) and for every buffer size (zero included)
    the read returns [Ok] *)
Theorem C13_reader_read : forall content pos n,
  0 <= pos <= u64_max -> exists out, fst (mem_reader_read content pos n) = Ok out.
Proof. intros content pos n H. rewrite (mem_reader_read_is_cursor content pos n H). eauto. Qed.
Theorem C13_reader_seek : forall content pos sf, fst (mem_reader_seek content pos sf) <> Panic.
Proof.
  intros content pos sf. rewrite mem_reader_seek_is_cursor.
  destruct (cursor_seek _ _ _); cbn; discriminate.
Qed.
(** positions stay in the u64 range under every script of seeks and reads *)
Theorem C13_reader_pos_seek : forall content pos sf,
  0 <= pos <= u64_max ->
  (match sf with SeekStart o => 0 <= o <= u64_max | _ => True end) ->
  0 <= snd (mem_reader_seek content pos sf) <= u64_max.
Proof.
  intros content pos sf Hp Hsf. destruct sf as [o|o|o]; cbn; [exact Hsf| |].
  - destruct (Z.leb_spec 0 (pos + o)), (Z.leb_spec (pos + o) u64_max); cbn; lia.
  - destruct (Z.leb_spec 0 (Z.of_nat (length content) + o)), (Z.leb_spec (Z.of_nat (length content) + o) u64_max); cbn; lia.
Qed.

(** the modelled OS never panics, and EmbeddedFS never panics (the root included) *)
Theorem C13_phys_calls : forall (s : physfs) c, snd (phys_step c s) <> Panic.
Proof. exact phys_no_panic. Qed.
Theorem C13_embedded_calls : forall (s : embfs) c, emb_step c s <> Panic.
Proof. exact emb_no_panic. Qed.

(** join, parent, filename and extension are total functions of arbitrary strings (they are
    Gallina functions; the only slices they take are at indices returned by rfind on the same
    string) - see C06 for what they return *)
Theorem C13_join_total : forall base arg, (exists r, jn base arg = Some r) \/ jn base arg = None.
Proof. intros base arg. destruct (jn base arg); eauto. Qed.

(** above the base filesystems: for EVERY stacking of adapters (altroot, overlay with any number of
    layers, nested in any way, with the harness wrapper anywhere) every trait call is a program that
    returns a panic only if a call into a base filesystem or a handle replied with one - whatever
    the other replies are *)
Theorem C13_stackings_add_no_panic : forall (f : fsref) (c : fscall),
  leaves NPb (fun r => np r) (interp f c).
Proof. exact np_interp. Qed.

(** the base level (MemoryFS, the modelled OS, EmbeddedFS, every kind of handle, the wrapper's
    bookkeeping) never replies with a panic, on any store in which reader positions are
    non-negative - which every call preserves *)
Theorem C13_base_never_panics : forall (b : bcall) (st : store),
  store_ok st -> NPb b (snd (bhandler b st)) /\ store_ok (fst (bhandler b st)).
Proof. exact bhandler_np. Qed.

(** end to end: whatever case the model is given - any bases, any configuration of stackings, any
    list of operations of the path API (primitives, composites, transfers between instances,
    walks, probes, snapshots), of handle operations (reads and seeks at any offset, zero-length
    buffers, handles of removed files) and of fault injections - no outcome is a panic, neither at
    the top level nor inside a walk, probe or snapshot *)
Theorem C13_no_case_panics : forall (fuel : nat) (c : case),
  Forall (fun ol => outcome_np (fst ol)) (run_case fuel c).
Proof. exact run_case_np. Qed.

Example C13_example :
  fst (mem_reader_read [1;2;3]%N 9 4) = Ok [] /\ snd (mem_step (COpenFile []) mem_new) = fail EOther /\
  emb_step (COpenFile []) (emb_new []) = fail ENotFound.
Proof. vm_compute. repeat split; reflexivity. Qed.

Print Assumptions C13_mem_sections.
Print Assumptions C13_mem_calls.
Print Assumptions C13_reader_read.
Print Assumptions C13_reader_seek.
Print Assumptions C13_reader_pos_seek.
Print Assumptions C13_phys_calls.
Print Assumptions C13_embedded_calls.
Print Assumptions C13_join_total.
Print Assumptions C13_stackings_add_no_panic.
Print Assumptions C13_base_never_panics.
Print Assumptions C13_no_case_panics.
Print Assumptions C13_example.
