(** * C18 — EmbeddedFS is a faithful read-only view of the embedded folder (pinned statements).
    The embedded folder is any list of (relative component path, bytes); a path is "below" a
    file path when it is a proper prefix of it (an implied directory). *)
From stdpp Require Import gmap list.
From Coq Require Import NArith ZArith.
From VFS Require Import Core.Types Core.Calls Base.MemFS Base.Embedded Proofs.EmbProofs Proofs.EmbMore Proofs.MoreMem.

Notation files_t := (list (list (list N) * list N)).

(** a directory lists exactly the next components of the embedded files below it, for every list
    of files (any depth, any names) *)
Theorem C18_listing : forall (files : files_t) d n,
  n ∈ default [] (e_dirs (emb_new files) !! d) <-> exists f r, f ∈ map fst files /\ f = d ++ n :: r.
Proof.
  intros files d n. rewrite emb_new_fold. pose proof (emb_fold_listed files (mkEmb {[ [] := [] ]} ∅) d n) as H.
  unfold listed in H. rewrite H. cbn [e_dirs]. split; [|tauto].
  intros [Hin|?]; [|assumption]. exfalso.
  destruct (decide (d = [])) as [->|Hne].
  - rewrite lookup_singleton in Hin. cbn in Hin. now apply elem_of_nil in Hin.
  - rewrite lookup_singleton_ne in Hin by congruence. cbn in Hin. now apply elem_of_nil in Hin.
Qed.

(** the directories are the root and the proper prefixes of file paths; the files are the files *)
Theorem C18_directories : forall (files : files_t) d,
  is_Some (e_dirs (emb_new files) !! d) <-> d = [] \/ exists f, f ∈ map fst files /\ below d f.
Proof.
  intros files d. rewrite emb_new_fold, emb_fold_dirs. cbn [e_dirs]. split; intros [H|H]; auto.
  - left. destruct (decide (d = [])) as [->|Hne]; [reflexivity|].
    rewrite lookup_singleton_ne in H by congruence. now destruct H.
  - left. subst. rewrite lookup_singleton. eauto.
Qed.
Theorem C18_files : forall (files : files_t) p,
  is_Some (e_files (emb_new files) !! p) <-> p ∈ map fst files.
Proof.
  intros files p. rewrite emb_new_fold, emb_fold_files. cbn [e_files]. rewrite lookup_empty.
  split; [intros [[? H]|H]; [discriminate|exact H]|auto].
Qed.
Theorem C18_bytes : forall (files : files_t) p b,
  NoDup (map fst files) -> (p, b) ∈ files -> emb_step (COpenFile p) (emb_new files) = Ok b.
Proof.
  intros files p b Hnd Hin. cbn. rewrite emb_new_fold, (emb_fold_content files _ p b Hnd Hin). reflexivity.
Qed.
Theorem C18_length : forall (files : files_t) p b,
  NoDup (map fst files) -> (p, b) ∈ files ->
  emb_step (CMetadata p) (emb_new files) = Ok (mkMeta File (N.of_nat (length b)) (Some TAuto) (Some TAuto) None).
Proof.
  intros files p b Hnd Hin. cbn. rewrite emb_new_fold, (emb_fold_content files _ p b Hnd Hin). reflexivity.
Qed.

(** exists agrees with "is a file, an implied directory or the root" *)
Theorem C18_exists : forall (files : files_t) p,
  exists b, emb_step (CExists p) (emb_new files) = Ok b /\
    (b = true <-> p ∈ map fst files \/ p = [] \/ exists f, f ∈ map fst files /\ below p f).
Proof.
  intros files p. cbn. eexists. split; [reflexivity|].
  rewrite !orb_true_iff, !bool_decide_eq_true, C18_files, C18_directories. tauto.
Qed.

(** the C05 story on the embedded view: every listing names each child once; a name is listed in
    [d] iff [d ++ [n]] exists; a path can be read iff its metadata says file; and - for folders in
    which no file lies below another file, which is every folder on disk - listed iff its metadata
    says directory *)
Theorem C18_listed_once : forall (files : files_t) d l,
  emb_step (CReadDir d) (emb_new files) = Ok l -> NoDup l.
Proof. exact emb_read_dir_nodup. Qed.
Theorem C18_exists_iff_listed : forall (files : files_t) d n,
  emb_step (CExists (d ++ [n])) (emb_new files) = Ok true <->
  n ∈ default [] (e_dirs (emb_new files) !! d).
Proof. exact emb_exists_iff_listed. Qed.
Theorem C18_file_iff_readable : forall (files : files_t) p,
  (exists b, emb_step (COpenFile p) (emb_new files) = Ok b) <->
  (exists m, emb_step (CMetadata p) (emb_new files) = Ok m /\ m_type m = File).
Proof. exact emb_file_iff_readable. Qed.
Theorem C18_dir_iff_listable : forall (files : files_t) p,
  prefix_free files -> (forall f, f ∈ map fst files -> f <> []) ->
  (exists l, emb_step (CReadDir p) (emb_new files) = Ok l) <->
  (exists m, emb_step (CMetadata p) (emb_new files) = Ok m /\ m_type m = Dir).
Proof. exact emb_dir_iff_listable. Qed.
(** the premises are met by the fixture's shape, and the statement is false without them: with a
    file below a file the model lists a path whose metadata says file *)
Example C18_prefix_free_example :
  prefix_free [([[97%N]; [98%N]], [1%N]); ([[101%N]], [])] /\
  let fs := emb_new [([[97%N]], [1%N]); ([[97%N]; [98%N]], [])] in
  emb_step (CReadDir [[97%N]]) fs = Ok [[98%N]] /\ emb_step (CMetadata [[97%N]]) fs = Ok (mkMeta File 1 (Some TAuto) (Some TAuto) None).
Proof.
  split; [|vm_compute; split; reflexivity].
  intros f g Hf Hg (n & r & E). cbn in Hf, Hg.
  repeat (apply elem_of_cons in Hf as [->|Hf]); [| |now apply elem_of_nil in Hf];
  repeat (apply elem_of_cons in Hg as [->|Hg]); try (now apply elem_of_nil in Hg); discriminate.
Qed.

(** every mutating call is refused as not-supported; the filesystem has no mutable state at all
    ([emb_step] returns no new state) *)
Theorem C18_readonly : forall (s : embfs) c, mutating c = true -> emb_step c s = fail ENotSupported.
Proof. exact emb_mutators_refused. Qed.

(** the root behaves like any directory, also when nothing is embedded *)
Theorem C18_empty_root :
  emb_step (CReadDir []) (emb_new []) = Ok [] /\
  emb_step (CMetadata []) (emb_new []) = Ok (mkMeta Dir 0 None None None) /\
  emb_step (CExists []) (emb_new []) = Ok true /\ emb_step (COpenFile []) (emb_new []) = fail ENotFound.
Proof. vm_compute. repeat split; reflexivity. Qed.

Example C18_example :
  let fs := emb_new [([[97%N]; [98%N]], [1%N]); ([[97%N]; [99%N]; [100%N]], []); ([[101%N]], [2%N; 3%N])] in
  emb_step (CReadDir [[97%N]]) fs = Ok [[98%N]; [99%N]] /\ emb_step (CReadDir []) fs = Ok [[97%N]; [101%N]] /\
  emb_step (CReadDir [[101%N]]) fs = fail EOther /\ emb_step (CExists [[97%N]; [99%N]]) fs = Ok true.
Proof. vm_compute. repeat split; reflexivity. Qed.

Print Assumptions C18_listing.
Print Assumptions C18_directories.
Print Assumptions C18_files.
Print Assumptions C18_bytes.
Print Assumptions C18_length.
Print Assumptions C18_exists.
Print Assumptions C18_listed_once.
Print Assumptions C18_exists_iff_listed.
Print Assumptions C18_file_iff_readable.
Print Assumptions C18_dir_iff_listable.
Print Assumptions C18_prefix_free_example.
Print Assumptions C18_readonly.
Print Assumptions C18_empty_root.
Print Assumptions C18_example.
