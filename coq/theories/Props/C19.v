(** * C19 — Timestamps round-trip and are independent of content (pinned statements). *)
From stdpp Require Import gmap list.
From Coq Require Import NArith ZArith.
From VFS Require Import Proofs.ConcProofs.
From VFS Require Import Core.Types Core.Calls Base.MemFS Base.PhysFS Base.Embedded
  Proofs.MemProofs Proofs.MemCalls Proofs.MoreMem Proofs.PhysProofs Proofs.PhysTimes Base.Store Proofs.SetterValue.

Notation mstate := (gmap (list (list N)) memfile).

(** setting one field stores exactly that value in that field of that entry and leaves
    type, bytes and the two other fields alone - for every time value, files and directories *)
Theorem C19_set_creation : forall (s : mstate) p t f, s !! p = Some f ->
  mem_step (CSetCTime p t) s =
  (<[p := mkMemFile (f_type f) (f_content f) (TSet t) (f_modified f) (f_accessed f)]> s, Ok tt).
Proof. exact mem_set_ctime. Qed.
Theorem C19_set_modification : forall (s : mstate) p t f, s !! p = Some f ->
  mem_step (CSetMTime p t) s =
  (<[p := mkMemFile (f_type f) (f_content f) (f_created f) (Some (TSet t)) (f_accessed f)]> s, Ok tt).
Proof. exact mem_set_mtime. Qed.
Theorem C19_set_access : forall (s : mstate) p t f, s !! p = Some f ->
  mem_step (CSetATime p t) s =
  (<[p := mkMemFile (f_type f) (f_content f) (f_created f) (f_modified f) (Some (TSet t))]> s, Ok tt).
Proof. exact mem_set_atime. Qed.

(** metadata reports the stored fields *)
Theorem C19_metadata_reports : forall (s : mstate) p,
  mem_step (CMetadata p) s = (s, match s !! p with Some f => Ok (mem_meta f) | None => fail ENotFound end).
Proof. exact mem_metadata. Qed.

(** hence the round trip: after set_X t, metadata.X = t and the rest is as before *)
Theorem C19_roundtrip_creation : forall (s : mstate) p t f, s !! p = Some f ->
  snd (mem_step (CMetadata p) (fst (mem_step (CSetCTime p t) s))) =
  Ok (mkMeta (f_type f) (N.of_nat (length (f_content f))) (Some (TSet t)) (f_modified f) (f_accessed f)).
Proof.
  intros s p t f H. rewrite (mem_set_ctime s p t f H), mem_metadata. cbn [fst snd].
  now rewrite lookup_insert.
Qed.
Theorem C19_roundtrip_modification : forall (s : mstate) p t f, s !! p = Some f ->
  snd (mem_step (CMetadata p) (fst (mem_step (CSetMTime p t) s))) =
  Ok (mkMeta (f_type f) (N.of_nat (length (f_content f))) (Some (f_created f)) (Some (TSet t)) (f_accessed f)).
Proof.
  intros s p t f H. rewrite (mem_set_mtime s p t f H), mem_metadata. cbn [fst snd].
  now rewrite lookup_insert.
Qed.
Theorem C19_roundtrip_access : forall (s : mstate) p t f, s !! p = Some f ->
  snd (mem_step (CMetadata p) (fst (mem_step (CSetATime p t) s))) =
  Ok (mkMeta (f_type f) (N.of_nat (length (f_content f))) (Some (f_created f)) (f_modified f) (Some (TSet t))).
Proof.
  intros s p t f H. rewrite (mem_set_atime s p t f H), mem_metadata. cbn [fst snd].
  now rewrite lookup_insert.
Qed.

(** no other entry is touched by any call *)
Theorem C19_other_entries : forall (c : fscall) (s : mstate) q,
  q ∉ call_paths c -> fst (mem_step c s) !! q = s !! q.
Proof. exact mem_step_frame. Qed.

(** a missing target is reported, nothing changes *)
Theorem C19_absent : forall (s : mstate) p t, s !! p = None ->
  mem_step (CSetCTime p t) s = (s, fail ENotFound) /\
  mem_step (CSetMTime p t) s = (s, fail ENotFound) /\
  mem_step (CSetATime p t) s = (s, fail ENotFound).
Proof. exact mem_set_time_absent. Qed.

(** publishing a write session (append included) keeps the creation and access times *)
Theorem C19_append_keeps_created : forall (s : mstate) p buf f,
  s !! p = Some f -> f_type f = File ->
  fst (msec_sem (MPublish p buf) s) = <[p := mkMemFile File buf (f_created f) (Some TAuto) (f_accessed f)]> s.
Proof. exact mem_publish_file. Qed.

(** where a backend does not support a field it says so and changes nothing *)
Theorem C19_physical_creation_unsupported : forall (s : physfs) p t,
  phys_step (CSetCTime p t) s = (s, fail ENotSupported).
Proof. exact phys_set_ctime_noop. Qed.
Theorem C19_embedded_unsupported : forall (s : embfs) c,
  mutating c = true -> emb_step c s = fail ENotSupported.
Proof. exact emb_mutators_refused. Qed.

(** on the modelled PhysicalFS the two supported setters round-trip the same way: exactly the value
    in exactly that field of that entry (files and directories), metadata reports it, the other
    field, the bytes and every other entry are untouched; a missing target changes nothing *)
Theorem C19_physical_modification : forall (s : physfs), pwf (p_tree s) -> forall p n t,
  p_tree s !! p = Some n ->
  let s' := fst (phys_step (CSetMTime p t) s) in
  snd (phys_step (CSetMTime p t) s) = Ok tt /\
  p_tree s' !! p = Some (mkPNode (pn_kind n) (TSet t) (pn_atime n)) /\
  (forall q, q <> p -> p_tree s' !! q = p_tree s !! q) /\
  p_inodes s' = p_inodes s /\
  (exists md, snd (phys_step (CMetadata p) s') = Ok md /\ m_modified md = Some (TSet t) /\ m_accessed md = Some (pn_atime n)).
Proof. exact phys_set_mtime_roundtrip. Qed.
Theorem C19_physical_access : forall (s : physfs), pwf (p_tree s) -> forall p n t,
  p_tree s !! p = Some n ->
  let s' := fst (phys_step (CSetATime p t) s) in
  snd (phys_step (CSetATime p t) s) = Ok tt /\
  p_tree s' !! p = Some (mkPNode (pn_kind n) (pn_mtime n) (TSet t)) /\
  (forall q, q <> p -> p_tree s' !! q = p_tree s !! q) /\
  p_inodes s' = p_inodes s /\
  (exists md, snd (phys_step (CMetadata p) s') = Ok md /\ m_accessed md = Some (TSet t) /\ m_modified md = Some (pn_mtime n)).
Proof. exact phys_set_atime_roundtrip. Qed.
Theorem C19_physical_absent : forall (s : physfs), pwf (p_tree s) -> forall p t,
  p_tree s !! p = None ->
  fst (phys_step (CSetMTime p t) s) = s /\ fst (phys_step (CSetATime p t) s) = s /\
  snd (phys_step (CSetMTime p t) s) <> Ok tt /\ snd (phys_step (CSetATime p t) s) <> Ok tt.
Proof. exact phys_set_time_absent. Qed.

Example C19_example :
  let s := fst (mem_step (CCreateDir [[97%N]]) mem_new) in
  snd (mem_step (CMetadata [[97%N]]) (fst (mem_step (CSetMTime [[97%N]] (-5)) (fst (mem_step (CSetCTime [[97%N]] 7) s))))) =
  Ok (mkMeta Dir 0 (Some (TSet 7)) (Some (TSet (-5))) (Some TAuto)).
Proof. vm_compute. reflexivity. Qed.

(** reading is not writing: opening a file stamps ITS access time and nothing else - every entry keeps its type,
    bytes, creation and modification time, and no entry appears or disappears (so a lower overlay layer read through
    the overlay keeps every timestamp but that one access time: finding D20) *)
Theorem C19_open_file_stamps_only_the_access_time : forall (s : mstate) (p q : list (list N)),
  match (fst (msec_sem (MGetReader p) s)) !! q, s !! q with
  | Some f', Some f => f_type f' = f_type f /\ f_content f' = f_content f /\ f_created f' = f_created f /\
                       f_modified f' = f_modified f /\ (q <> p -> f_accessed f' = f_accessed f)
  | None, None => True
  | _, _ => False
  end.
Proof. exact get_reader_only_atime. Qed.

(** whether a setter succeeds, is refused as not-supported or finds nothing is decided by the path and the state, never by
    the value: on every kind of base filesystem a setter called with the entry's current value answers as with any other *)
Theorem C19_setter_answer_is_value_free : forall (i : nat) p (t t' : Z) (st : store),
  snd (fs_call i (CSetCTime p t) st) = snd (fs_call i (CSetCTime p t') st) /\
  snd (fs_call i (CSetMTime p t) st) = snd (fs_call i (CSetMTime p t') st) /\
  snd (fs_call i (CSetATime p t) st) = snd (fs_call i (CSetATime p t') st).
Proof. intros. split; [apply ctime_value_free|split; [apply mtime_value_free|apply atime_value_free]]. Qed.

Print Assumptions C19_set_creation.
Print Assumptions C19_set_modification.
Print Assumptions C19_set_access.
Print Assumptions C19_metadata_reports.
Print Assumptions C19_roundtrip_creation.
Print Assumptions C19_roundtrip_modification.
Print Assumptions C19_roundtrip_access.
Print Assumptions C19_other_entries.
Print Assumptions C19_absent.
Print Assumptions C19_append_keeps_created.
Print Assumptions C19_physical_creation_unsupported.
Print Assumptions C19_embedded_unsupported.
Print Assumptions C19_example.
Print Assumptions C19_physical_modification.
Print Assumptions C19_physical_access.
Print Assumptions C19_physical_absent.
Print Assumptions C19_open_file_stamps_only_the_access_time.
Print Assumptions C19_setter_answer_is_value_free.
