(** * C06 — Path joining is total, canonical and cannot climb above the root.
    Only pinned statements here; proofs are in Path/StrProofs.v.  The theorems are
    stated for the executable instance (bytes as N, '/' = 47, '.' = 46) that the
    correspondence check runs against VfsPath::join; StrProofs proves them for every
    alphabet with two distinct letters. *)
From Coq Require Import List NArith Bool Arith.
Import ListNotations.
From VFS Require Import Path.Str Path.StrProofs Core.Types Layer.Run Proofs.PathEq.

Definition good (c : list N) : bool := good_comp N.eqb slashN dotN c.
Definition goods (cs : list (list N)) : bool := forallb good cs.
Definition canon (s : list N) : Prop := canonical N.eqb slashN dotN s.
Definition lexical (bs : list (list N)) (arg : list N) : list (list N) := resolve N.eqb slashN dotN bs arg.
Definition parent_s := parent_internal N.eqb slashN.
Definition filename_s := filename_internal N.eqb slashN.
Definition extension_s := extension_internal N.eqb slashN dotN.


(** join is a total function (it is a Gallina function, and it contains no partial
    slice: every index it uses comes from rfind on the same string); it rejects exactly
    the arguments longer than one character that end in '/' *)
Theorem C06_reject_iff : forall base arg,
  jn base arg = None <-> (1 < length arg /\ exists a, arg = a ++ [slashN]).
Proof. exact (join_reject_iff N.eqb slashN dotN N.eqb_spec). Qed.

(** otherwise the result is the lexical resolution of the argument against the base,
    and it is in canonical form *)
Theorem C06_resolve : forall bs arg r,
  goods bs = true -> jn (rnd bs) arg = Some r ->
  r = rnd (lexical bs arg) /\ goods (lexical bs arg) = true.
Proof. exact (join_resolve N.eqb slashN dotN N.eqb_spec). Qed.

Theorem C06_canonical : forall base arg r, canon base -> jn base arg = Some r -> canon r.
Proof. exact (join_canonical N.eqb slashN dotN N.eqb_spec). Qed.

(** '..' at the root stays at the root, for any number of them *)
Theorem C06_root_clamp : forall n rest,
  fold_left (resolve_step N.eqb dotN) (repeat [dotN; dotN] n ++ rest) [] =
  fold_left (resolve_step N.eqb dotN) rest [].
Proof. exact (resolve_step_nil_dotdots N.eqb dotN N.eqb_spec). Qed.

(** a leading '/' restarts from the root: the base is irrelevant *)
Theorem C06_absolute_restart : forall bs bs' arg,
  starts_with_slash N.eqb slashN arg = true -> lexical bs arg = lexical bs' arg.
Proof. exact (resolve_absolute N.eqb slashN dotN). Qed.

(** parent(join(p, name)) = p and filename(join(p, name)) = name for a plain name *)
Theorem C06_parent_join : forall bs n p,
  goods bs = true -> good n = true -> jn (rnd bs) n = Some p -> parent_s p = rnd bs.
Proof. exact (parent_join N.eqb slashN dotN N.eqb_spec). Qed.

Theorem C06_filename_join : forall bs n p,
  goods bs = true -> good n = true -> jn (rnd bs) n = Some p -> filename_s p = n.
Proof. exact (filename_join N.eqb slashN dotN N.eqb_spec). Qed.

(** filename is the last component (empty for the root) *)
Theorem C06_filename_last : forall cs, goods cs = true -> filename_s (rnd cs) = last cs [].
Proof. exact (filename_canonical N.eqb slashN dotN N.eqb_spec). Qed.

(** extension: the suffix after the last '.', provided something precedes that dot *)
Theorem C06_extension : forall cs n b e,
  n = b ++ dotN :: e -> has_slash N.eqb slashN n = false -> has_dot N.eqb dotN e = false ->
  extension_s (rnd (cs ++ [n])) = match b with [] => None | _ => Some e end.
Proof. exact (extension_lastdot N.eqb slashN dotN N.eqb_spec). Qed.

Theorem C06_extension_none : forall cs n,
  has_slash N.eqb slashN n = false -> has_dot N.eqb dotN n = false ->
  extension_s (rnd (cs ++ [n])) = None.
Proof. exact (extension_nodot N.eqb slashN dotN N.eqb_spec). Qed.

(** every path string reachable by root / join / parent / read_dir children is canonical (F2) *)
Theorem C06_reachable_root : canon [].
Proof. exact (root_canonical N.eqb slashN dotN). Qed.
Theorem C06_reachable_parent : forall s, canon s -> canon (parent_s s).
Proof. exact (parent_canonical N.eqb slashN dotN N.eqb_spec). Qed.
Theorem C06_reachable_child : forall s n, canon s -> good n = true -> canon (s ++ slashN :: n).
Proof. exact (child_canonical N.eqb slashN dotN). Qed.

(** canonical strings and component lists are in bijection, which licenses the
    filesystem layers of the model to work on component lists *)
Theorem C06_parse_render : forall cs, goods cs = true -> prs (rnd cs) = cs.
Proof.
  intros cs H. apply (parse_render N.eqb slashN N.eqb_spec).
  apply (good_all_noslash N.eqb slashN dotN), H.
Qed.

(** equality ([PartialEq for VfsPath], modelled by [path_eq] on instance identities and parsed strings): two paths are
    equal iff they belong to the same filesystem instance and have the same canonical string *)
Theorem C06_equality : forall (i i' : nat) cs cs', goods cs = true -> goods cs' = true ->
  (path_eq i (prs (rnd cs)) i' (prs (rnd cs')) = true <-> i = i' /\ rnd cs = rnd cs').
Proof.
  intros i i' cs cs' H H'. rewrite (C06_parse_render cs H), (C06_parse_render cs' H').
  rewrite path_eq_iff. split.
  - intros [-> ->]. split; reflexivity.
  - intros [-> E]. split; [reflexivity|].
    rewrite <- (C06_parse_render cs H), <- (C06_parse_render cs' H'). now rewrite E.
Qed.

Theorem C06_equality_components : forall (i i' : nat) (p p' : list (list N)),
  path_eq i p i' p' = true <-> i = i' /\ p = p'.
Proof.
  exact path_eq_iff.
Qed.

(** non-vacuity: same string on two instances, two strings on one instance, the same path reached two ways *)
Example C06_equality_example :
  path_eq 0 (prs (rnd [[97]]%N)) 1 (prs (rnd [[97]]%N)) = false /\
  path_eq 0 (prs (rnd [[97]]%N)) 0 (prs (rnd [[98]]%N)) = false /\
  path_eq 2 (prs (rnd [[97]; [98]]%N)) 2 (prs (rnd [[97]; [98]]%N)) = true.
Proof. vm_compute. repeat split. Qed.

(** root(): from any path back to the root of the same filesystem; what follows is resolved from there *)
Theorem C06_root_step : forall cur rest, resolve_steps cur (JRoot :: rest) = resolve_steps [] rest.
Proof. reflexivity. Qed.

(** the relative join used by AltrootFS::path and OverlayFS::{read,write}_path *)
Theorem C06_join_relative : forall bs cs,
  goods bs = true -> goods cs = true -> cs <> [] ->
  jn (rnd bs) (tl (rnd cs)) = Some (rnd (bs ++ cs)).
Proof. exact (join_relative N.eqb slashN dotN N.eqb_spec). Qed.

(** non-vacuity: a concrete canonical base and a hostile argument *)
Example C06_example :
  goods [[97]; [98; 46; 99]]%N = true /\
  jn (rnd [[97]; [98; 46; 99]]%N) [46;46;47;46;46;47;46;46;47;46;47;120;47;47;121]%N
    = Some (rnd [[120]; [121]]%N).
Proof. vm_compute. split; reflexivity. Qed.

Print Assumptions C06_reject_iff.
Print Assumptions C06_resolve.
Print Assumptions C06_canonical.
Print Assumptions C06_root_clamp.
Print Assumptions C06_absolute_restart.
Print Assumptions C06_parent_join.
Print Assumptions C06_filename_join.
Print Assumptions C06_filename_last.
Print Assumptions C06_extension.
Print Assumptions C06_extension_none.
Print Assumptions C06_reachable_root.
Print Assumptions C06_reachable_parent.
Print Assumptions C06_reachable_child.
Print Assumptions C06_parse_render.
Print Assumptions C06_join_relative.
Print Assumptions C06_root_step.
Print Assumptions C06_equality.
Print Assumptions C06_equality_components.
Print Assumptions C06_equality_example.
Print Assumptions C06_example.
