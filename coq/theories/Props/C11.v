(** * C11 — Recursive and transfer operations are exact (pinned statements).
    partial: create_dir_all, remove_dir_all, copy_file and move_file are proved exact for a MemoryFS
    instance (all paths, all states, all contents); copy_dir and move_dir, and the transfers across
    every ordered pair of instances - are decided by the model-independent contract oracle of the
    correspondence check and by the comparison with the model. *)
From stdpp Require Import gmap list.
From Coq Require Import NArith ZArith.
From VFS Require Import Core.Types Core.Prog Core.Calls Spec.Tree Base.MemFS Base.Handles Base.Store Layer.VfsPath
  Proofs.MemProofs Proofs.MemCalls Proofs.MemPublic Proofs.ConcProofs Proofs.Composite Proofs.ErrPaths Proofs.Leaves
  Proofs.WalkProofs Proofs.RemoveAll Proofs.CopyFile Proofs.OvlProofs Proofs.OvlAppend Proofs.SortNames Proofs.CopyDir Proofs.CopyDirSame.

Notation mstate := (gmap (list (list N)) memfile).

(** create_dir_all leaves exactly the requested chain of directories: with no file in the way it
    succeeds, every prefix of the path is then a directory, every other entry is untouched, existing
    directories stay, the tree stays well formed - for every path and every well-formed state *)
Theorem C11_create_dir_all_exact : forall (hs : list hstate) (lg : list (nat * fscall)) (ft : option (nat * nat))
    (s : mstate) (p : list (list N)),
  wf s -> Forall (not_file s) (prefixes p) ->
  exists s', run bhandler (vp_create_dir_all mv p) (mstore s hs lg ft) = (mstore s' hs lg ft, Ok tt) /\
    Forall (is_dir s') (prefixes p) /\ wf s' /\
    (forall q, q ∉ prefixes p -> s' !! q = s !! q) /\ (forall q, is_dir s q -> is_dir s' q).
Proof. exact create_dir_all_exact. Qed.

(** the loop is the fold of FileSystem::create_dir over the prefixes, tolerating only DirectoryExists *)
Theorem C11_create_dir_all_loop : forall hs lg ft ds (s : mstate),
  run bhandler (create_dirs mv ds) (mstore s hs lg ft) =
  (mstore (fst (cda_pure s ds)) hs lg ft, snd (cda_pure s ds)).
Proof. exact run_create_dirs. Qed.

(** every transfer reports failures on the path it was called on (whatever happens below) *)
Theorem C11_transfer_errors : forall (A : forall b, brep b -> Prop) fuel (v : vfs) p (v' : vfs) p',
  leaves A (err_at (fun q => q = p)) (vp_copy_file v p v' p') /\
  leaves A (err_at (fun q => q = p)) (vp_move_file v p v' p') /\
  leaves A (err_at (fun q => q = p)) (vp_copy_dir fuel v p v' p') /\
  leaves A (err_at (fun q => q = p)) (vp_move_dir fuel v p v' p').
Proof. intros. repeat split; apply transfer_relabelled. Qed.

(** remove_dir_all removes exactly the subtree: on a well-formed MemoryFS of any size, for any
    directory [p] other than the root (given fuel for the depth of the subtree) it succeeds, the
    resulting tree is the old one without [p] and everything below it - every other entry is
    untouched, timestamps and bytes included - and it is well formed *)
Theorem C11_remove_dir_all_exact : forall hs lg ft fuel (s : mstate) p,
  wf s -> p <> [] -> is_dir s p -> (forall k, k ∈ desc s p -> length k < length p + fuel) -> 0 < fuel ->
  exists s', run bhandler (vp_remove_dir_all mv fuel p) (mstore s hs lg ft) = (mstore s' hs lg ft, Ok tt) /\
             pruned s s' [p] /\ wf s'.
Proof. exact remove_dir_all_exact. Qed.

(** and on an absent path it succeeds without touching anything *)
Theorem C11_remove_dir_all_absent : forall hs lg ft fuel (s : mstate) p,
  s !! p = None -> run bhandler (vp_remove_dir_all mv (Datatypes.S fuel) p) (mstore s hs lg ft) = (mstore s hs lg ft, Ok tt).
Proof.
  intros hs lg ft fuel s p Hp. cbn [vp_remove_dir_all]. unfold bind_res at 1.
  rewrite ProgProofs.run_bind, call_exists, Hp.
  rewrite bool_decide_eq_false_2 by (intros [x Hx]; discriminate). reflexivity.
Qed.

(** copy_file within a MemoryFS instance, through the whole stream path (open, create, io::copy,
    publish on drop): for EVERY content the destination becomes a file with exactly the source's
    bytes, the source keeps its bytes (its access time is stamped by the open), every other entry is
    untouched, both handles are closed *)
Theorem C11_copy_file_exact : forall lg ft (s : mstate) (hs : list hstate) (p q : path) (f : memfile),
  s !! p = Some f -> f_type f = File -> q <> [] -> s !! q = None -> is_dir s (removelast q) ->
  run bhandler (vp_copy_file mv p mv q) (mstore s hs lg ft) =
  (mstore (<[q := fresh_file (f_content f)]> (<[p := touched f]> s)) (hs ++ [HClosed; HClosed]) lg ft, Ok tt).
Proof. exact copy_file_exact. Qed.

(** move_file: the same destination, and no trace of the source *)
Theorem C11_move_file_exact : forall lg ft (s : mstate) (hs : list hstate) (p q : path) (f : memfile),
  s !! p = Some f -> f_type f = File -> q <> [] -> s !! q = None -> is_dir s (removelast q) ->
  run bhandler (vp_move_file mv p mv q) (mstore s hs lg ft) =
  (mstore (<[q := fresh_file (f_content f)]> (delete p s)) (hs ++ [HClosed; HClosed]) lg ft, Ok tt).
Proof. exact move_file_exact. Qed.

(** ... and between TWO MemoryFS instances (source filesystem s1 behind v1, destination s0 behind v0): the
    same destination - exactly the source's bytes -, the source kept (access time stamped by the read)
    / removed, nothing else changed in either filesystem, both handles closed: the result is the same
    as within one instance *)
Theorem C11_copy_file_across_instances : forall lg ft (s0 s1 : mstate) (hs : list hstate) (p q : path) (f : memfile),
  s1 !! p = Some f -> f_type f = File -> q <> [] -> is_dir s0 (removelast q) -> s0 !! q = None ->
  run bhandler (vp_copy_file v1 p v0 q) (mstore2 s0 s1 hs lg ft) =
  (mstore2 (<[q := fresh_file (f_content f)]> s0) (<[p := touched f]> s1) (hs ++ [HClosed; HClosed]) lg ft, Ok tt).
Proof. exact copy_file_across. Qed.

Theorem C11_move_file_across_instances : forall lg ft (s0 s1 : mstate) (hs : list hstate) (p q : path) (f : memfile),
  s1 !! p = Some f -> f_type f = File -> q <> [] -> is_dir s0 (removelast q) -> s0 !! q = None ->
  run bhandler (vp_move_file v1 p v0 q) (mstore2 s0 s1 hs lg ft) =
  (mstore2 (<[q := fresh_file (f_content f)]> s0) (delete p s1) (hs ++ [HClosed; HClosed]) lg ft, Ok tt).
Proof. exact move_file_across. Qed.

(** copy_dir from a directory p of one MemoryFS (s1, behind v1) to a fresh path p' of another (s0, behind v0),
    for a source subtree of ANY size and shape and any contents: it succeeds and returns the number of entries
    below p; the destination directory exists and holds, for every entry y below p, an entry of the same type and
    the same bytes at p' ++ (y relative to p) - and nothing else below p'; nothing outside p' changes in the
    destination; the source filesystem keeps every entry, type and byte (abs: the tree without timestamps -
    reading a file stamps its access time).  [desc s1 p]: the entries strictly below p. *)
Theorem C11_copy_dir_across_instances : forall (lg : list (nat * fscall)) (ft : option (nat * nat)) (s0 s1 : mstate)
    (hs : list hstate) (p p' : path) (fuel : nat),
  wf s0 -> wf s1 -> is_dir s1 p ->
  p' <> [] -> is_dir s0 (removelast p') -> s0 !! p' = None ->
  length (desc s1 p) < fuel ->
  exists s0' s1' hs',
    run bhandler (vp_copy_dir fuel v1 p v0 p') (mstore2 s0 s1 hs lg ft) =
      (mstore2 s0' s1' hs' lg ft, Ok (N.of_nat (length (desc s1 p)))) /\
    abs s1' = abs s1 /\
    wf s0' /\ is_dir s0' p' /\
    (forall y, is_Some (s1 !! y) -> below p y -> absf <$> (s0' !! tr p p' y) = absf <$> (s1 !! y)) /\
    (forall q, q <> p' -> ~ below p' q -> s0' !! q = s0 !! q) /\
    (forall q, below p' q -> is_Some (s0' !! q) -> exists y, is_Some (s1 !! y) /\ below p y /\ q = tr p p' y).
Proof. exact copy_dir_across. Qed.

(** ... and WITHIN one MemoryFS instance (the common use), source and destination in the same map, the destination
    not inside the source (the crate, like cp -r, would otherwise copy for ever): the same exact copy and count;
    every entry outside the new subtree keeps its type and bytes (abs-level: the reads stamp access times) *)
Theorem C11_copy_dir_within_instance : forall (lg : list (nat * fscall)) (ft : option (nat * nat)) (s : mstate)
    (hs : list hstate) (p p' : path) (fuel : nat),
  wf s -> is_dir s p ->
  p' <> [] -> is_dir s (removelast p') -> s !! p' = None -> ~ below p p' ->
  length (desc s p) < fuel ->
  exists s' hs',
    run bhandler (vp_copy_dir fuel mv p mv p') (mstore s hs lg ft) =
      (mstore s' hs' lg ft, Ok (N.of_nat (length (desc s p)))) /\
    wf s' /\ is_dir s' p' /\
    (forall y, is_Some (s !! y) -> below p y -> absf <$> (s' !! tr p p' y) = absf <$> (s !! y)) /\
    (forall q, q <> p' -> ~ below p' q -> absf <$> (s' !! q) = absf <$> (s !! q)) /\
    (forall q, below p' q -> is_Some (s' !! q) -> exists y, is_Some (s !! y) /\ below p y /\ q = tr p p' y).
Proof. exact copy_dir_same. Qed.

(** move_dir within one MemoryFS instance (MemoryFS has no native move_dir: the copy, then remove_dir_all of the
    source): the destination subtree is the exact copy, NO TRACE of the source is left (p and everything below
    it is gone), every other entry keeps its type and bytes *)
Theorem C11_move_dir_within_instance : forall (lg : list (nat * fscall)) (ft : option (nat * nat)) (s : mstate)
    (hs : list hstate) (p p' : path) (fuel : nat),
  wf s -> p <> [] -> is_dir s p ->
  p' <> [] -> is_dir s (removelast p') -> s !! p' = None -> ~ below p p' ->
  length (desc s p) < fuel -> (forall k, k ∈ desc s p -> length k < length p + fuel) ->
  exists s' hs',
    run bhandler (vp_move_dir fuel mv p mv p') (mstore s hs lg ft) = (mstore s' hs' lg ft, Ok tt) /\
    wf s' /\ is_dir s' p' /\
    (forall y, is_Some (s !! y) -> below p y -> absf <$> (s' !! tr p p' y) = absf <$> (s !! y)) /\
    (forall q, under p q -> s' !! q = None) /\
    (forall q, q <> p' -> ~ below p' q -> ~ under p q -> absf <$> (s' !! q) = absf <$> (s !! q)) /\
    (forall q, below p' q -> is_Some (s' !! q) -> exists y, is_Some (s !! y) /\ below p y /\ q = tr p p' y).
Proof. exact move_dir_same. Qed.

(** the listing of a directory depends only on which entries exist (what lets the walk ignore the access-time
    stamps of the files already copied) *)
Theorem C11_listing_ignores_values : forall (s : mstate) (x : path) (f g : memfile) (p : path),
  s !! x = Some f -> mem_children (<[x := g]> s) p = mem_children s p.
Proof. exact mem_children_insert_same. Qed.

(** non-vacuity: directory /d with a file and a sub-directory holding a file, copied to /c of an empty
    filesystem: 3 entries, the bytes arrive *)
Example C11_copy_dir_example :
  let fl c := mkMemFile File c TAuto (Some TAuto) (Some (TSet 5)) in
  let dr := mkMemFile Dir [] TAuto (Some TAuto) (Some TAuto) in
  let src : mstate := <[[[100%N]; [115%N]; [103%N]] := fl [7; 8]%N]> (<[[[100%N]; [115%N]] := dr]>
                      (<[[[100%N]; [102%N]] := fl [1; 2; 3]%N]> (<[[[100%N]] := dr]> mem_new))) in
  let r := run bhandler (vp_copy_dir 20 v1 [[100%N]] v0 [[99%N]]) (mstore2 mem_new src [] [] None) in
  snd r = Ok 3%N /\
  match st_bases (fst r) !! 0%nat with
  | Some (BMem s) => absf <$> (s !! [[99%N]; [115%N]; [103%N]]) = Some (NFile [7; 8]%N) /\
                     absf <$> (s !! [[99%N]; [102%N]]) = Some (NFile [1; 2; 3]%N)
  | _ => False
  end.
Proof. vm_compute. repeat split; reflexivity. Qed.

Example C11_example :
  exists s', fst (run bhandler (vp_create_dir_all mv [[97%N]; [98%N]; [99%N]]) (mstore mem_new [] [] None)) = mstore s' [] [] None /\
             is_Some (s' !! [[97%N]; [98%N]; [99%N]]) /\ is_Some (s' !! [[97%N]; [98%N]]) /\ s' !! [[98%N]] = None.
Proof. eexists. vm_compute. repeat split; eauto. Qed.

(** a backend's native copy / move applies within ONE instance only: between two different instances copy_file and
    move_file are the stream transfer (create the destination, copy the bytes, for a move remove the source) - never the
    source backend's rename with the destination's path string resolved inside the source *)
Theorem C11_cross_instance_takes_the_stream_path : forall (v v' : vfs) (c : fscall) slow ev,
  v_id v <> v_id v' -> fast_path v v' c slow ev = slow.
Proof. intros v v' c slow ev H. unfold fast_path. now apply Nat.eqb_neq in H as ->. Qed.

Theorem C11_cross_instance_move_file : forall (v v' : vfs) p p', v_id v <> v_id v' ->
  vp_move_file v p v' p' =
  relabel (try* ex := vp_exists v' p' in
           if ex then ret_err EOther p' else stream_copy v p v' p' (vp_remove_file v p)) p.
Proof.
  intros v v' p p' H. unfold vp_move_file, fast_path. now apply Nat.eqb_neq in H as ->.
Qed.

Print Assumptions C11_create_dir_all_exact.
Print Assumptions C11_create_dir_all_loop.
Print Assumptions C11_transfer_errors.
Print Assumptions C11_example.
Print Assumptions C11_remove_dir_all_exact.
Print Assumptions C11_remove_dir_all_absent.
Print Assumptions C11_copy_file_exact.
Print Assumptions C11_move_file_exact.
Print Assumptions C11_copy_file_across_instances.
Print Assumptions C11_move_file_across_instances.
Print Assumptions C11_copy_dir_across_instances.
Print Assumptions C11_copy_dir_example.
Print Assumptions C11_listing_ignores_values.
Print Assumptions C11_copy_dir_within_instance.
Print Assumptions C11_move_dir_within_instance.
Print Assumptions C11_cross_instance_takes_the_stream_path.
Print Assumptions C11_cross_instance_move_file.
