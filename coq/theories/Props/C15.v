(** * C15 — The async port is behaviourally identical to the sync API (pinned statements).

    The port is a line-by-line copy in which every call into the layer below is awaited: a future
    is the program that remains, and a poll runs it up to the first call that is not ready.  The
    statements below quantify over every oracle, i.e. over every choice of how often and where
    futures and streams answer [Poll::Pending]. *)
From stdpp Require Import gmap list.
From Coq Require Import NArith ZArith.
From VFS Require Import Core.Types Core.Prog Core.Calls Base.MemFS Base.Handles Base.Store Layer.VfsPath Layer.Async
  Proofs.ProgProofs Proofs.AsyncProofs Proofs.HandleProofs.

(** every future built from awaited calls - all methods of the async filesystems and of
    AsyncVfsPath - completes with the outcome and the state of the sequential run *)
Theorem C15_pending_independent :
  forall (C : Type) (rep : C -> Type) (S : Type) (h : handler rep S) (R : Type)
         (o : list bool) (m : prog rep R) (s : S),
  drive h (Datatypes.S (length o)) m o s = Some (run h m s).
Proof. exact @drive_is_run. Qed.

(** a poll that answers Pending has run a prefix and parks the rest; nothing is lost or repeated *)
Theorem C15_pending_parks_rest :
  forall (C : Type) (rep : C -> Type) (S : Type) (h : handler rep S) (R : Type)
         (m : prog rep R) o s s1 rest o1,
  poll h m o s = (s1, PPending rest, o1) -> run h rest s1 = run h m s /\ length o1 < length o.
Proof. exact @poll_pending. Qed.

(** the hand-written walk_dir stream: [next().await] yields the item, the filesystem state and the
    iterator state of the sync iterator's [next()], whatever its stored futures and its parked item
    went through *)
Theorem C15_stream_next :
  forall (S : Type) (h : handler brep S) (v : vfs) (o : list bool) (w : awalker) (s : S),
  aw_wf w -> aw_idle w ->
  exists s1 o1 it w1, anext h v (Datatypes.S (length o)) w o s = Some (s1, o1, it, w1) /\
    run h (walk_next v (aw_abs w)) s = (s1, (it, aw_abs w1)) /\ aw_wf w1 /\ aw_idle w1.
Proof. exact @anext_is_walk_next. Qed.

(** one poll of the stream, from any state the iterator can be in between polls *)
Theorem C15_stream_poll :
  forall (S : Type) (h : handler brep S) (v : vfs) (w : awalker) (o : list bool) (s : S),
  aw_wf w -> apoll_post h v w o s (apoll_next h v w o s).
Proof. exact @apoll_next_spec. Qed.

(** the items of the whole stream are the items of the sync iterator *)
Theorem C15_stream_collect :
  forall (S : Type) (h : handler brep S) (v : vfs) fuel (o : list bool) children (s : S),
  acollect h v fuel (aw_start children) o s [] =
  run h (walk_collect v fuel (mkWalker children []) []) s.
Proof.
  intros S h v fuel o children s.
  exact (acollect_is_walk_collect h v fuel o (aw_start children) s [] (proj1 (aw_start_ok children)) (proj2 (aw_start_ok children))).
Qed.

(** the hand-written async read handle of the in-memory filesystem is the sync one *)
Theorem C15_reader_read : forall (content : bytes) (pos : Z) (n : N),
  (0 <= pos)%Z -> amem_reader_read content pos n = mem_reader_read content pos n.
Proof. exact amem_reader_read_is_sync. Qed.

Theorem C15_reader_seek : forall (content : bytes) (pos : Z) (sf : seekfrom),
  (0 <= pos <= u64_max)%Z -> (Z.of_nat (length content) <= u64_max)%Z ->
  amem_reader_seek content pos sf = mem_reader_seek content pos sf.
Proof. exact amem_reader_seek_is_sync. Qed.

(** non-vacuity: on a MemoryFS holding /a (a directory) and /a/b, an oracle parks the listing
    stream, the read_dir future and the metadata future in turn, and the items still arrive *)
Definition c15_fs : gmap path memfile :=
  {[ [] := mkMemFile Dir [] TAuto None None;
     [[97%N]] := mkMemFile Dir [] TAuto None None;
     [[97%N]; [98%N]] := mkMemFile File [1%N] TAuto None None ]}.
Definition c15_store : store := mkStore [BMem c15_fs] [] [] None IoOff.
Definition c15_v : vfs := mkVfs 0 (fun c => Call (BFs 0 c) Ret).
Definition c15_oracle : list bool := [false; true; false; true; false; true; false; false; false; true; false].

(** per poll: the parked fields (prev_result, read_dir_fut, metadata_fut) or the item *)
Definition c15_states (o : list bool) : list ((bool * bool * bool) + option (res path)) :=
  (fix go (k : nat) (w : awalker) (o : list bool) (s : store) :=
     match k with
     | O => []
     | Datatypes.S k' =>
         match apoll_next bhandler c15_v w o s with
         | (s1, o1, APending, w1) =>
             inl (bool_decide (is_Some (aw_prev w1)), match aw_rdfut w1 with Some _ => true | None => false end,
                  match aw_mdfut w1 with Some _ => true | None => false end) :: go k' w1 o1 s1
         | (s1, o1, AReady it, w1) => inr it :: go k' w1 o1 s1
         end
     end) 8%nat (aw_start [[[97%N]]]) o c15_store.

Example C15_example :
  c15_states c15_oracle =
    [inl (true, false, true); inr (Some (Ok [[97%N]]));
     inl (false, false, false); inl (false, true, false); inl (true, false, true);
     inr (Some (Ok [[97%N]; [98%N]])); inr None; inr None] /\
  snd (acollect bhandler c15_v 10 (aw_start [[[97%N]]]) c15_oracle c15_store []) =
    Ok [Ok [[97%N]]; Ok [[97%N]; [98%N]]] /\
  amem_reader_seek [1;2;3]%N 2 (SeekEnd (-9)) = (fail EIo, 2%Z) /\
  amem_reader_read [1;2;3]%N 1 9 = (Ok [2;3]%N, 3%Z).
Proof. vm_compute. repeat split; reflexivity. Qed.

Print Assumptions C15_pending_independent.
Print Assumptions C15_pending_parks_rest.
Print Assumptions C15_stream_next.
Print Assumptions C15_stream_poll.
Print Assumptions C15_stream_collect.
Print Assumptions C15_reader_read.
Print Assumptions C15_reader_seek.
Print Assumptions C15_example.
