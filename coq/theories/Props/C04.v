(** * C04 — Files return exactly the bytes that were written (pinned statements). *)
From stdpp Require Import gmap list.
From Coq Require Import NArith ZArith.
From VFS Require Import Core.Types Core.Calls Base.MemFS Base.Handles Proofs.HandleProofs Proofs.MemProofs
  Proofs.MemCalls Proofs.MoreMem.
Local Open Scope Z_scope.

(** a create session publishes what a growable cursor holds; append continues the bytes *)
Theorem C04_create_session : forall data, fst (cursor_write [] 0 data) = data.
Proof. exact create_session. Qed.
Theorem C04_append_session : forall content data,
  fst (cursor_write content (Z.of_nat (length content)) data) = content ++ data.
Proof. exact append_session. Qed.
Theorem C04_seek_past_end_zero_fills : forall content gap data,
  fst (cursor_write content (Z.of_nat (length content + gap)) data) = content ++ replicate gap 0%N ++ data.
Proof. exact gap_session. Qed.
Theorem C04_overwrite_in_place : forall (buf : list N) pos (data : list N),
  0 <= pos -> take (length data) (drop (Z.to_nat pos) (fst (cursor_write buf pos data))) = data.
Proof. exact cursor_write_data. Qed.

(** flush/drop publishes exactly the buffer, metadata reports exactly its length, and a
    reader opened afterwards gets exactly these bytes - for every byte string *)
Theorem C04_publish_exact : forall (s : gmap (list (list N)) memfile) p buf f,
  s !! p = Some f -> f_type f = File ->
  fst (msec_sem (MPublish p buf) s) = <[p := mkMemFile File buf (f_created f) (Some TAuto) (f_accessed f)]> s.
Proof. exact mem_publish_file. Qed.
Theorem C04_metadata_len : forall (s : gmap (list (list N)) memfile) p buf f,
  s !! p = Some f -> f_type f = File ->
  snd (mem_step (CMetadata p) (fst (msec_sem (MPublish p buf) s))) =
  Ok (mkMeta File (N.of_nat (length buf)) (Some (f_created f)) (Some TAuto) (f_accessed f)).
Proof. exact publish_len. Qed.
Theorem C04_flush_visible : forall (s : gmap (list (list N)) memfile) p buf f,
  s !! p = Some f -> f_type f = File ->
  snd (mem_step (COpenFile p) (fst (msec_sem (MPublish p buf) s))) = Ok buf.
Proof. exact flush_then_open. Qed.

(** reading with ANY sequence of buffer sizes delivers the content exactly once and in
    order (so neither the 1-byte fast path nor the 8 KiB copy buffer matter) *)
Theorem C04_read_any_buffers : forall content sizes,
  (N.of_nat (length content) <= sumN sizes)%N ->
  fst (read_all_with content 0 sizes) = content.
Proof. exact read_all_with_complete. Qed.
Theorem C04_read_prefix : forall content sizes pos,
  0 <= pos ->
  fst (read_all_with content pos sizes) = take (N.to_nat (sumN sizes)) (drop (Z.to_nat pos) content).
Proof. exact read_all_with_prefix. Qed.

(** directories always report length 0 *)
Theorem C04_dir_len0_inv : forall c (s : gmap (list (list N)) memfile),
  dirs_empty s -> dirs_empty (fst (msec_sem c s)).
Proof. exact msec_dirs_empty. Qed.
Theorem C04_dir_len0 : forall (s : gmap (list (list N)) memfile) p f,
  dirs_empty s -> s !! p = Some f -> f_type f = Dir -> m_len (mem_meta f) = 0%N.
Proof. exact dir_len0. Qed.

Example C04_example :
  fst (cursor_write (fst (cursor_write [] 0 [1;2;3;4;5]%N)) 2 [9;9]%N) = [1;2;9;9;5]%N /\
  fst (read_all_with [1;2;3;4;5]%N 0 [1;1;2;7]%N) = [1;2;3;4;5]%N.
Proof. vm_compute. split; reflexivity. Qed.

Print Assumptions C04_create_session.
Print Assumptions C04_append_session.
Print Assumptions C04_seek_past_end_zero_fills.
Print Assumptions C04_overwrite_in_place.
Print Assumptions C04_publish_exact.
Print Assumptions C04_metadata_len.
Print Assumptions C04_flush_visible.
Print Assumptions C04_read_any_buffers.
Print Assumptions C04_read_prefix.
Print Assumptions C04_dir_len0_inv.
Print Assumptions C04_dir_len0.
Print Assumptions C04_example.
