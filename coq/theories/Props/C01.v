(** * C01 — Every backend implements one abstract file tree (pinned statements).
    [Spec/Tree.v] is the abstract tree with the contract of each primitive call.  The theorems
    below state, for the public path API on a MemoryFS instance and every well-formed state and
    every path: the call's outcome class and the new abstract tree are exactly what the contract
    says ([abs] forgets timestamps), and well-formedness is kept; an AltrootFS over it meets the
    same contracts at [root ++ q] (by the exactness theorems of C07).  The remaining configurations
    are tied to the same contracts by the correspondence check (see DESIGN.md). *)
From stdpp Require Import gmap list.
From Coq Require Import NArith ZArith.
From VFS Require Import Core.Types Core.Prog Core.Calls Base.MemFS Base.Handles Base.Store Layer.VfsPath Spec.Tree
  Proofs.MemProofs Proofs.MemCalls Proofs.MemPublic Proofs.AltExact.

Notation mstate := (gmap (list (list N)) memfile).

Theorem C01_create_dir : forall hs lg ft (s : mstate) p, wf s ->
  exists s' r, run bhandler (vp_create_dir mv p) (mstore s hs lg ft) = (mstore s' hs lg ft, r) /\
               abs s' = fst (spec_create_dir (abs s) p) /\
               class_of r = snd (spec_create_dir (abs s) p) /\ wf s'.
Proof. exact refine_create_dir. Qed.

Theorem C01_create_file : forall lg ft (s : mstate) hs p, wf s ->
  exists s' hs' r, run bhandler (vp_create_file mv p) (mstore s hs lg ft) = (mstore s' hs' lg ft, r) /\
    abs s' = fst (spec_create_file (abs s) p) /\
    class_of r = snd (spec_create_file (abs s) p) /\ wf s' /\
    match r with
    | Ok h => hs' !! h = Some (HMemWriter 0 p [] 0) /\ (forall i, i <> h -> hs' !! i = hs !! i)
    | _ => hs' = hs
    end.
Proof. exact refine_create_file. Qed.

Theorem C01_remove_file : forall hs lg ft (s : mstate) p, wf s ->
  exists s' r, run bhandler (vp_remove_file mv p) (mstore s hs lg ft) = (mstore s' hs lg ft, r) /\
               abs s' = fst (spec_remove_file (abs s) p) /\
               class_of r = snd (spec_remove_file (abs s) p) /\ wf s'.
Proof. exact refine_remove_file. Qed.

Theorem C01_remove_dir : forall hs lg ft (s : mstate) p, wf s -> p <> [] ->
  exists s' r, run bhandler (vp_remove_dir mv p) (mstore s hs lg ft) = (mstore s' hs lg ft, r) /\
               abs s' = fst (spec_remove_dir (abs s) p (bool_decide (mem_children s p = []))) /\
               class_of r = snd (spec_remove_dir (abs s) p (bool_decide (mem_children s p = []))) /\ wf s'.
Proof. exact refine_remove_dir. Qed.
Theorem C01_remove_dir_emptiness : forall (s : mstate) p, mem_children s p = [] <-> t_empty (abs s) p.
Proof. exact children_nil_abs. Qed.

(** a completed write session changes exactly the file it was opened for *)
Theorem C01_write_session : forall lg ft (s : mstate) hs h dest buf pos, wf s ->
  hs !! h = Some (HMemWriter 0 dest buf pos) ->
  exists s', handle_op h HDrop (mstore s hs lg ft) = (mstore s' (<[h := HClosed]> hs) lg ft, Ok tt) /\
             abs s' = spec_publish (abs s) dest buf /\ wf s'.
Proof. exact refine_drop. Qed.

(** observers answer from the tree and change nothing *)
Theorem C01_exists : forall hs lg ft (s : mstate) p,
  run bhandler (vp_exists mv p) (mstore s hs lg ft) = (mstore s hs lg ft, Ok (spec_exists (abs s) p)).
Proof. exact refine_exists. Qed.
Theorem C01_metadata : forall hs lg ft (s : mstate) p,
  exists r, run bhandler (vp_metadata mv p) (mstore s hs lg ft) = (mstore s hs lg ft, r) /\
    match r with
    | Ok m => spec_kind (abs s) p = Some (m_type m)
    | Err e => spec_kind (abs s) p = None /\ e = mkErr ENotFound (PPath p)
    | Panic => False
    end.
Proof. exact refine_metadata. Qed.
Theorem C01_read_dir : forall hs lg ft (s : mstate) p,
  exists r, run bhandler (vp_read_dir mv p) (mstore s hs lg ft) = (mstore s hs lg ft, r) /\
    match r with
    | Ok l => spec_kind (abs s) p = Some Dir /\
              (forall n, p ++ [n] ∈ l <-> t_children (abs s) p n) /\ NoDup l
    | Err e => spec_kind (abs s) p <> Some Dir /\
               (spec_kind (abs s) p = None <-> e_kind e = ENotFound) /\ e_path e = PPath p
    | Panic => False
    end.
Proof. exact refine_read_dir. Qed.

(** the abstraction of a well-formed state is a well-formed tree *)
Theorem C01_abs_wf : forall (s : mstate), wf s -> t_wf (abs s).
Proof. exact abs_wf. Qed.

(** the contracts themselves say "a failed call changes nothing" and "a successful call changes
    exactly the entry it names" *)
Theorem C01_contract_failed_unchanged : forall t p,
  (snd (spec_create_dir t p) <> KOk -> fst (spec_create_dir t p) = t) /\
  (snd (spec_create_file t p) <> KOk -> fst (spec_create_file t p) = t) /\
  (snd (spec_remove_file t p) <> KOk -> fst (spec_remove_file t p) = t) /\
  (forall e, snd (spec_remove_dir t p e) <> KOk -> fst (spec_remove_dir t p e) = t).
Proof.
  intros t p. unfold spec_create_dir, spec_create_file, spec_remove_file, spec_remove_dir.
  repeat split; intros; repeat (case_decide || case_match); cbn in *; congruence.
Qed.
Theorem C01_contract_frame : forall t p q, q <> p ->
  fst (spec_create_dir t p) !! q = t !! q /\ fst (spec_create_file t p) !! q = t !! q /\
  fst (spec_remove_file t p) !! q = t !! q /\ (forall e, fst (spec_remove_dir t p e) !! q = t !! q) /\
  (forall b, spec_publish t p b !! q = t !! q).
Proof.
  intros t p q Hq. unfold spec_create_dir, spec_create_file, spec_remove_file, spec_remove_dir, spec_publish.
  repeat split; intros; repeat (case_decide || case_match); cbn;
    rewrite ?lookup_insert_ne, ?lookup_delete_ne by congruence; reflexivity.
Qed.

(** ** AltrootFS over a MemoryFS: the same contracts, at root ++ q *)
Lemma class_relabel {T} q (r : res T) : class_of (relabel_to q r) = class_of r.
Proof. destruct r as [x|e|]; reflexivity. Qed.

Theorem C01_altroot_create_dir : forall hs lg ft root k (s : mstate) q, wf s -> q <> [] ->
  exists s' r, run bhandler (vp_create_dir (altv mv root k) q) (mstore s hs lg ft) = (mstore s' hs lg ft, r) /\
               abs s' = fst (spec_create_dir (abs s) (root ++ q)) /\
               class_of r = snd (spec_create_dir (abs s) (root ++ q)) /\ wf s'.
Proof.
  intros hs lg ft root k s q Hwf Hq. rewrite (alt_create_dir_mem lg ft root k s hs q Hq).
  destruct (refine_create_dir hs lg ft s (root ++ q) Hwf) as (s' & r & E & A & C & W). rewrite E. cbn [fst snd].
  exists s'. eexists. split; [reflexivity|]. rewrite class_relabel. auto.
Qed.

Theorem C01_altroot_remove_file : forall hs lg ft root k (s : mstate) q, wf s ->
  exists s' r, run bhandler (vp_remove_file (altv mv root k) q) (mstore s hs lg ft) = (mstore s' hs lg ft, r) /\
               abs s' = fst (spec_remove_file (abs s) (root ++ q)) /\
               class_of r = snd (spec_remove_file (abs s) (root ++ q)) /\ wf s'.
Proof.
  intros hs lg ft root k s q Hwf. rewrite (alt_remove_file_exact mv root k bhandler).
  destruct (refine_remove_file hs lg ft s (root ++ q) Hwf) as (s' & r & E & A & C & W). rewrite E. cbn [fst snd].
  exists s'. eexists. split; [reflexivity|]. rewrite class_relabel. auto.
Qed.

Theorem C01_altroot_remove_dir : forall hs lg ft root k (s : mstate) q, wf s -> root ++ q <> [] ->
  exists s' r, run bhandler (vp_remove_dir (altv mv root k) q) (mstore s hs lg ft) = (mstore s' hs lg ft, r) /\
               abs s' = fst (spec_remove_dir (abs s) (root ++ q) (bool_decide (mem_children s (root ++ q) = []))) /\
               class_of r = snd (spec_remove_dir (abs s) (root ++ q) (bool_decide (mem_children s (root ++ q) = []))) /\ wf s'.
Proof.
  intros hs lg ft root k s q Hwf Hne. rewrite (alt_remove_dir_exact mv root k bhandler).
  destruct (refine_remove_dir hs lg ft s (root ++ q) Hwf Hne) as (s' & r & E & A & C & W). rewrite E. cbn [fst snd].
  exists s'. eexists. split; [reflexivity|]. rewrite class_relabel. auto.
Qed.

Theorem C01_altroot_exists : forall hs lg ft root k (s : mstate) q,
  run bhandler (vp_exists (altv mv root k) q) (mstore s hs lg ft) = (mstore s hs lg ft, Ok (spec_exists (abs s) (root ++ q))).
Proof. intros. rewrite (alt_exists_exact mv root k bhandler). apply refine_exists. Qed.

Example C01_example :
  let s := fst (mem_step (CCreateDir [[97%N]]) mem_new) in
  wf s /\ snd (spec_create_dir (abs s) [[97%N]]) = KDirExists /\
  snd (spec_create_dir (abs s) [[97%N]; [98%N]]) = KOk /\ snd (spec_remove_file (abs s) [[120%N]]) = KNotFound.
Proof.
  cbn zeta. split; [|vm_compute; auto].
  apply mem_step_wf; [apply wf_new|exact I].
Qed.

Print Assumptions C01_create_dir.
Print Assumptions C01_create_file.
Print Assumptions C01_remove_file.
Print Assumptions C01_remove_dir.
Print Assumptions C01_remove_dir_emptiness.
Print Assumptions C01_write_session.
Print Assumptions C01_exists.
Print Assumptions C01_metadata.
Print Assumptions C01_read_dir.
Print Assumptions C01_abs_wf.
Print Assumptions C01_contract_failed_unchanged.
Print Assumptions C01_contract_frame.
Print Assumptions C01_example.
Print Assumptions C01_altroot_create_dir.
Print Assumptions C01_altroot_remove_file.
Print Assumptions C01_altroot_remove_dir.
Print Assumptions C01_altroot_exists.
Print Assumptions class_relabel.
