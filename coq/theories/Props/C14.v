(** * C14 — File handles obey the Read, Write and Seek contracts (pinned statements). *)
From stdpp Require Import list.
From Coq Require Import NArith ZArith.
From stdpp Require Import gmap.
From VFS Require Import Core.Types Core.Calls Base.MemFS Base.Handles Base.Store Proofs.HandleProofs Proofs.MemPublic.
Local Open Scope Z_scope.

(** the read handle of MemoryFS is, call by call, a cursor over the file's bytes *)
Theorem C14_reader_read : forall content pos n,
  0 <= pos <= u64_max ->
  mem_reader_read content pos n =
  (Ok (fst (cursor_read content pos n)), snd (cursor_read content pos n)).
Proof. exact mem_reader_read_is_cursor. Qed.

Theorem C14_reader_seek : forall content pos sf,
  mem_reader_seek content pos sf =
  match cursor_seek (Z.of_nat (length content)) pos sf with
  | Some n => (Ok n, n)
  | None => (fail EIo, pos)
  end.
Proof. exact mem_reader_seek_is_cursor. Qed.

(** the cursor contract: a seek before the start is an error, reads never return
    bytes out of order or out of range, at or past the end they return nothing *)
Theorem C14_seek_before_start : forall len pos o,
  0 <= pos <= u64_max -> pos + o < 0 -> cursor_seek len pos (SeekCurrent o) = None.
Proof. exact cursor_seek_negative. Qed.

Theorem C14_read_in_order : forall content pos n,
  0 <= pos ->
  let '(out, pos') := cursor_read content pos n in
  out = take (N.to_nat n) (drop (Z.to_nat pos) content) /\ pos' = pos + Z.of_nat (length out).
Proof. exact cursor_read_slice. Qed.

Theorem C14_read_past_end : forall content pos n,
  Z.of_nat (length content) <= pos -> cursor_read content pos n = ([], pos).
Proof. exact cursor_read_past_end. Qed.

(** a seek from the end is relative to the file's LENGTH, wherever the handle stands: the answer is
    the same from every position; on success it is [length + o], which is also the new position;
    on failure the position is kept *)
Theorem C14_seek_end_ignores_position : forall content pos pos' o,
  fst (mem_reader_seek content pos (SeekEnd o)) = fst (mem_reader_seek content pos' (SeekEnd o)) /\
  (forall n, fst (mem_reader_seek content pos (SeekEnd o)) = Ok n ->
     n = Z.of_nat (length content) + o /\ snd (mem_reader_seek content pos (SeekEnd o)) = n) /\
  (forall e, fst (mem_reader_seek content pos (SeekEnd o)) = Err e ->
     snd (mem_reader_seek content pos (SeekEnd o)) = pos).
Proof. exact mem_reader_seek_end_ignores_position. Qed.
Example C14_seek_end_example :
  mem_reader_seek [1%N; 2%N; 3%N; 4%N] 3 (SeekEnd (-1)) = (Ok 3, 3) /\
  fst (mem_reader_seek [1%N; 2%N; 3%N; 4%N] 4 (SeekEnd (-5))) = fail EIo.
Proof. vm_compute. split; reflexivity. Qed.

(** the write handle is a growable cursor: data lands at the position, earlier bytes
    stay, a gap is filled with zeros, later bytes stay *)
Theorem C14_write_data : forall (buf : list N) pos (data : list N),
  0 <= pos -> take (length data) (drop (Z.to_nat pos) (fst (cursor_write buf pos data))) = data.
Proof. exact cursor_write_data. Qed.
Theorem C14_write_before : forall (buf : list N) pos (data : list N) i,
  0 <= pos -> (i < Z.to_nat pos)%nat ->
  fst (cursor_write buf pos data) !! i = Some (default 0%N (buf !! i)).
Proof. exact cursor_write_before. Qed.
Theorem C14_write_after : forall (buf : list N) pos (data : list N) i,
  0 <= pos -> (Z.to_nat pos + length data <= i)%nat ->
  fst (cursor_write buf pos data) !! i = (if decide (i < length buf)%nat then buf !! i else None).
Proof. exact cursor_write_after. Qed.

(** create starts empty, append starts at the end of the existing bytes *)
Theorem C14_create_session : forall data, fst (cursor_write [] 0 data) = data.
Proof. exact create_session. Qed.
Theorem C14_append_session : forall content data,
  fst (cursor_write content (Z.of_nat (length content)) data) = content ++ data.
Proof. exact append_session. Qed.
Theorem C14_gap_zero_filled : forall content gap data,
  fst (cursor_write content (Z.of_nat (length content + gap)) data) = content ++ replicate gap 0%N ++ data.
Proof. exact gap_session. Qed.

Example C14_example :
  mem_reader_read [1;2;3;4;5]%N 3 10 = (Ok [4;5]%N, 5) /\
  mem_reader_seek [1;2;3;4;5]%N 2 (SeekEnd (-9)) = (fail EIo, 2) /\
  mem_reader_read [1;2;3;4;5]%N 9 4 = (Ok [], 9).
Proof. vm_compute. repeat split; reflexivity. Qed.

(** the write handle at the level of the store: a write that fits (ends at most [isize::MAX] bytes in) only moves the
    handle's own cursor and buffer - nothing is published before flush or drop ... *)
Theorem C14_write_is_private : forall lg ft (s : gmap (list (list N)) memfile) hs h dest buf pos data,
  hs !! h = Some (HMemWriter 0 dest buf pos) -> data <> [] ->
  pos + Z.of_nat (length data) <= i64_max ->
  handle_op h (HWrite data) (mstore s hs lg ft) =
  (mstore s (<[h := HMemWriter 0 dest (fst (cursor_write buf pos data)) (snd (cursor_write buf pos data))]> hs) lg ft,
   Ok (N.of_nat (length data))).
Proof. exact refine_write. Qed.

(** ... and a non-empty write that would end beyond that (after a seek far past the end) is refused with an I/O error:
    no panic, nothing written, handle and filesystem as before (repair 14b1c2a; the unrepaired handle panicked with
    "capacity overflow") *)
Theorem C14_write_beyond_capacity_is_refused : forall lg ft (s : gmap (list (list N)) memfile) hs h dest buf pos data,
  hs !! h = Some (HMemWriter 0 dest buf pos) -> data <> [] ->
  i64_max < pos + Z.of_nat (length data) ->
  handle_op h (HWrite data) (mstore s hs lg ft) = (mstore s hs lg ft, fail EIo).
Proof. exact refine_write_too_large. Qed.

Example C14_capacity_example :
  handle_op 0 (HWrite [120%N]) (mstore mem_new [HMemWriter 0 [[102%N]] [97%N] 18446744073709551615] [] None) =
  (mstore mem_new [HMemWriter 0 [[102%N]] [97%N] 18446744073709551615] [] None, fail EIo).
Proof. eapply refine_write_too_large; [reflexivity|discriminate|reflexivity]. Qed.

Print Assumptions C14_seek_end_ignores_position.
Print Assumptions C14_seek_end_example.
Print Assumptions C14_reader_read.
Print Assumptions C14_reader_seek.
Print Assumptions C14_seek_before_start.
Print Assumptions C14_read_in_order.
Print Assumptions C14_read_past_end.
Print Assumptions C14_write_data.
Print Assumptions C14_write_before.
Print Assumptions C14_write_after.
Print Assumptions C14_create_session.
Print Assumptions C14_append_session.
Print Assumptions C14_gap_zero_filled.
Print Assumptions C14_example.
Print Assumptions C14_write_is_private.
Print Assumptions C14_write_beyond_capacity_is_refused.
Print Assumptions C14_capacity_example.
