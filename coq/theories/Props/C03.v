(** * C03 — The namespace is always a well-formed tree (pinned statements).
    [wf s]: the root is an existing directory and every existing non-root path has an
    existing parent that is a directory. *)
From stdpp Require Import gmap list.
From Coq Require Import NArith ZArith.
From VFS Require Import Core.Types Core.Prog Core.Calls Spec.Tree Base.MemFS Base.Handles Base.Store Layer.VfsPath Layer.Overlay
  Proofs.MemProofs Proofs.MemCalls Proofs.ConcProofs Proofs.OvlProofs Proofs.OvlDeep.

Notation mstate := (gmap (list (list N)) memfile).

Theorem C03_initial : wf mem_new.
Proof. exact wf_new. Qed.

(** every lock section of MemoryFS keeps the tree well formed ([sec_guard]: the root is not removed) *)
Theorem C03_sections : forall (c : msec) (s : mstate), wf s -> sec_guard c s -> wf (fst (msec_sem c s)).
Proof. exact msec_wf. Qed.

(** every trait call of MemoryFS - of the right or of the wrong type for its target, successful
    or failing, on any path - keeps the tree well formed; [call_guard] only excludes removing the root *)
Theorem C03_trait_calls : forall (c : fscall) (s : mstate), wf s -> call_guard c s -> wf (fst (mem_step c s)).
Proof. exact mem_step_wf. Qed.

(** publishing a write handle (flush or drop), at any later time, keeps the tree well formed:
    a removed file is not resurrected, a directory is not overwritten *)
Theorem C03_publish : forall (s : mstate) p buf, wf s -> wf (fst (msec_sem (MPublish p buf) s)).
Proof. intros s p buf H. exact (msec_wf (MPublish p buf) s H I). Qed.

(** a file never has children: no call can turn a non-empty directory into a file *)
Theorem C03_file_is_leaf : forall (s : mstate) q f,
  parent_closed s -> s !! q = Some f -> f_type f = File -> forall n, s !! (q ++ [n]) = None.
Proof. exact file_is_leaf. Qed.

(** every entry is reachable from the root through listings: it is listed by its parent *)
Theorem C03_listed_by_parent : forall (s : mstate) p n,
  is_Some (s !! (p ++ [n])) -> n ∈ mem_children s p.
Proof. intros s p n H. now apply mem_children_spec. Qed.

Example C03_example :
  let s := fst (mem_step (CCreateFile [[97%N]; [98%N]]) (fst (mem_step (CCreateDir [[97%N]]) mem_new))) in
  wf s /\ is_Some (s !! [[97%N]; [98%N]]) /\
  (* wrong-type calls change nothing *)
  fst (mem_step (CRemoveFile [[97%N]]) s) = s /\ fst (mem_step (CCreateFile [[97%N]]) s) = s /\
  fst (mem_step (CRemoveDir [[97%N]; [98%N]]) s) = s.
Proof.
  cbn zeta. split; [|vm_compute; repeat split; eauto].
  apply mem_step_wf; [apply mem_step_wf; [apply wf_new|exact I]|exact I].
Qed.

(** ** through an OverlayFS over two MemoryFS layers: the UNION the overlay shows stays a tree.
    [view_tree s0 s1]: every entry the overlay shows (in the caller's namespace) has a parent that it shows
    as a directory.  create_dir / create_file on a path that is not shown, remove_file on a shown file and remove_dir on a
    directory shown as empty -
    at any depth, for all layer contents, the parent chain possibly in the lower layer only - succeed and
    keep that invariant (and the write layer well formed).  Hypotheses as in the C09 theorems these are
    corollaries of; [no_collision] marks the boundary of finding D28.  (remove_file on a lower-layer
    DIRECTORY is finding D15: it breaks this invariant, and is pinned by an existing test.) *)
Theorem C03_overlay_create_dir_keeps_tree : forall lg ft (s0 s1 : mstate) hs (p : path),
  wf s0 -> p <> [] -> reachable s0 s1 p -> view s0 s1 p = None ->
  (forall g, s0 !! whiteout_path (v0, []) p = Some g -> f_type g = File) -> view_tree s0 s1 ->
  exists s0', run bhandler (ovl_impl (v0, []) [(v1, [])] (CCreateDir p)) (mstore2 s0 s1 hs lg ft) = (mstore2 s0' s1 hs lg ft, Ok tt) /\
              wf s0' /\ view_tree s0' s1.
Proof. exact create_dir_keeps_tree. Qed.

Theorem C03_overlay_create_file_keeps_tree : forall lg ft (s0 s1 : mstate) hs (p : path),
  wf s0 -> p <> [] -> reachable s0 s1 p -> view s0 s1 p = None ->
  (forall g, s0 !! whiteout_path (v0, []) p = Some g -> f_type g = File) -> view_tree s0 s1 ->
  exists s0', run bhandler (ovl_impl (v0, []) [(v1, [])] (CCreateFile p)) (mstore2 s0 s1 hs lg ft) =
                (mstore2 s0' s1 (hs ++ [HMemWriter 0 p [] 0]) lg ft, Ok (length hs)) /\
              wf s0' /\ view_tree s0' s1.
Proof. exact create_file_keeps_tree. Qed.

Theorem C03_overlay_remove_file_keeps_tree : forall lg ft (s0 s1 : mstate) hs (p : path) (b : list N),
  wf s0 -> p <> [] -> user_path p -> no_collision p ->
  (is_Some (s0 !! p) -> s0 !! whiteout_path (v0, []) p = None) ->
  view s0 s1 p = Some (NFile b) ->
  Forall (not_file s0) (prefixes (removelast (whiteout_path (v0, []) p))) -> view_tree s0 s1 ->
  exists s0', run bhandler (ovl_impl (v0, []) [(v1, [])] (CRemoveFile p)) (mstore2 s0 s1 hs lg ft) =
                (mstore2 s0' s1 (hs ++ [HClosed]) lg ft, Ok tt) /\
              wf s0' /\ view_tree s0' s1.
Proof. exact remove_file_keeps_tree. Qed.

Theorem C03_overlay_remove_dir_keeps_tree : forall lg ft (s0 s1 : mstate) hs (p : path),
  wf s0 -> p <> [] -> user_path p -> no_collision p ->
  (is_Some (s0 !! p) -> s0 !! whiteout_path (v0, []) p = None) ->
  view s0 s1 p = Some NDir -> (forall n, view s0 s1 (p ++ [n]) = None) ->
  (s0 !! (whiteout_name :: p) = None \/ is_dir s0 (whiteout_name :: p)) ->
  Forall (not_file s0) (prefixes (removelast (whiteout_path (v0, []) p))) -> view_tree s0 s1 ->
  exists s0', run bhandler (ovl_impl (v0, []) [(v1, [])] (CRemoveDir p)) (mstore2 s0 s1 hs lg ft) =
                (mstore2 s0' s1 (hs ++ [HClosed]) lg ft, Ok tt) /\
              wf s0' /\ view_tree s0' s1.
Proof. exact remove_dir_keeps_tree. Qed.

(** a call that FAILS leaves no debris either: append_file on a directory that only the lower layer has
    returns an error, opens nothing, leaves the lower layer as it was and shows the same filesystem - no
    file appears at p in the write layer, so the directory's children keep a directory for a parent *)
Theorem C03_overlay_failed_append_keeps_tree : forall lg ft (s0 s1 : mstate) hs (p : path) f,
  wf s0 -> p <> [] -> reachable s0 s1 p ->
  s0 !! p = None -> s0 !! whiteout_path (v0, []) p = None -> s1 !! p = Some f -> f_type f = Dir ->
  exists s0' e,
    run bhandler (ovl_impl (v0, []) [(v1, [])] (CAppendFile p)) (mstore2 s0 s1 hs lg ft) = (mstore2 s0' s1 hs lg ft, Err e) /\
    wf s0' /\ s0' !! p = None /\
    forall q, user_path q -> view s0' s1 q = view s0 s1 q.
Proof. exact append_lower_dir_fails. Qed.

(** ** finding D31 (recorded, not repaired): layers that CONFLICT in type.  A file /x in the write layer over a
    directory /x with a child /x/c in the lower layer: the overlay shows /x as a file and still resolves /x/c
    below it - the union is not a tree from the start.  (The [view_tree] theorems above assume a tree to begin
    with; this is the state they exclude, exhibited on the model and, by the check, on the code.) *)
Theorem C03_layer_type_conflict_witness :
  let file := mkMemFile File [104%N] TAuto (Some TAuto) (Some TAuto) in
  let dir := mkMemFile Dir [] TAuto (Some TAuto) (Some TAuto) in
  let s0 : mstate := <[[[120%N]] := file]> mem_new in
  let s1 : mstate := <[[[120%N]; [99%N]] := file]> (<[[[120%N]] := dir]> mem_new) in
  wf s0 /\ wf s1 /\
  snd (run bhandler (ovl_metadata (v0, []) [(v1, [])] [[120%N]]) (mstore2 s0 s1 [] [] None)) = Ok (mem_meta file) /\
  snd (run bhandler (ovl_exists (v0, []) [(v1, [])] [[120%N]; [99%N]]) (mstore2 s0 s1 [] [] None)) = Ok true.
Proof.
  cbn zeta. split; [|split; [|split; vm_compute; reflexivity]].
  - split; [eexists; split; [vm_compute; reflexivity|reflexivity]|].
    intros p n f H. apply lookup_insert_Some in H as [[E _]|[_ H]].
    + change [[120%N]] with ([] ++ [[120%N]]) in E. apply snoc_inj in E as [<- _].
      eexists. split; [vm_compute; reflexivity|reflexivity].
    + unfold mem_new in H. apply lookup_singleton_Some in H as [E _]. destruct p; discriminate.
  - split; [eexists; split; [vm_compute; reflexivity|reflexivity]|].
    intros p n f H. apply lookup_insert_Some in H as [[E _]|[_ H]].
    + change [[120%N]; [99%N]] with ([[120%N]] ++ [[99%N]]) in E. apply snoc_inj in E as [<- _].
      eexists. split; [vm_compute; reflexivity|reflexivity].
    + apply lookup_insert_Some in H as [[E _]|[_ H]].
      * change [[120%N]] with ([] ++ [[120%N]]) in E. apply snoc_inj in E as [<- _].
        eexists. split; [vm_compute; reflexivity|reflexivity].
      * unfold mem_new in H. apply lookup_singleton_Some in H as [E _]. destruct p; discriminate.
Qed.

Print Assumptions C03_initial.
Print Assumptions C03_sections.
Print Assumptions C03_trait_calls.
Print Assumptions C03_publish.
Print Assumptions C03_file_is_leaf.
Print Assumptions C03_listed_by_parent.
Print Assumptions C03_example.
Print Assumptions C03_overlay_create_dir_keeps_tree.
Print Assumptions C03_overlay_create_file_keeps_tree.
Print Assumptions C03_overlay_remove_file_keeps_tree.
Print Assumptions C03_overlay_remove_dir_keeps_tree.
Print Assumptions C03_overlay_failed_append_keeps_tree.
Print Assumptions C03_layer_type_conflict_witness.
