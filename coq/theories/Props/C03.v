(** * C03 — The namespace is always a well-formed tree (pinned statements).
    [wf s]: the root is an existing directory and every existing non-root path has an
    existing parent that is a directory. *)
From stdpp Require Import gmap list.
From Coq Require Import NArith ZArith.
From VFS Require Import Core.Types Core.Calls Base.MemFS Proofs.MemProofs Proofs.MemCalls.

Notation mstate := (gmap (list (list N)) memfile).

Theorem C03_initial : wf mem_new.
Proof. exact wf_new. Qed.

(** every lock section of MemoryFS keeps the tree well formed ([sec_guard]: the root is not removed) *)
Theorem C03_sections : forall (c : msec) (s : mstate), wf s -> sec_guard c s -> wf (fst (msec_sem c s)).
Proof. exact msec_wf. Qed.

(** every trait call of MemoryFS - of the right or of the wrong type for its target, successful
    or failing, on any path - keeps the tree well formed; [call_guard] only excludes removing the root *)
Theorem C03_trait_calls : forall (c : fscall) (s : mstate), wf s -> call_guard c s -> wf (fst (mem_step c s)).
Proof. exact mem_step_wf. Qed.

(** publishing a write handle (flush or drop), at any later time, keeps the tree well formed:
    a removed file is not resurrected, a directory is not overwritten *)
Theorem C03_publish : forall (s : mstate) p buf, wf s -> wf (fst (msec_sem (MPublish p buf) s)).
Proof. intros s p buf H. exact (msec_wf (MPublish p buf) s H I). Qed.

(** a file never has children: no call can turn a non-empty directory into a file *)
Theorem C03_file_is_leaf : forall (s : mstate) q f,
  parent_closed s -> s !! q = Some f -> f_type f = File -> forall n, s !! (q ++ [n]) = None.
Proof. exact file_is_leaf. Qed.

(** every entry is reachable from the root through listings: it is listed by its parent *)
Theorem C03_listed_by_parent : forall (s : mstate) p n,
  is_Some (s !! (p ++ [n])) -> n ∈ mem_children s p.
Proof. intros s p n H. now apply mem_children_spec. Qed.

Example C03_example :
  let s := fst (mem_step (CCreateFile [[97%N]; [98%N]]) (fst (mem_step (CCreateDir [[97%N]]) mem_new))) in
  wf s /\ is_Some (s !! [[97%N]; [98%N]]) /\
  (* wrong-type calls change nothing *)
  fst (mem_step (CRemoveFile [[97%N]]) s) = s /\ fst (mem_step (CCreateFile [[97%N]]) s) = s /\
  fst (mem_step (CRemoveDir [[97%N]; [98%N]]) s) = s.
Proof.
  cbn zeta. split; [|vm_compute; repeat split; eauto].
  apply mem_step_wf; [apply mem_step_wf; [apply wf_new|exact I]|exact I].
Qed.

Print Assumptions C03_initial.
Print Assumptions C03_sections.
Print Assumptions C03_trait_calls.
Print Assumptions C03_publish.
Print Assumptions C03_file_is_leaf.
Print Assumptions C03_listed_by_parent.
Print Assumptions C03_example.
