(** * Shared types of the executable model (no proofs here). *)
From stdpp Require Import gmap list.
From Coq Require Import NArith ZArith.

(** Bytes are [N] (values < 256 in every generated case; nothing depends on the
    bound).  A component name is a byte string without '/', a path is the list of
    its components (fact F2 of DESIGN.md: backends only see canonical paths,
    and [Path/StrProofs.v] relates canonical strings and component lists). *)
Notation byte := N (only parsing).
Notation bytes := (list N) (only parsing).
Notation name := (list N) (only parsing).
Notation path := (list (list N)) (only parsing).

Definition slashN : N := 47.
Definition dotN : N := 46.

(** [VfsErrorKind] after the normalisation of [From<VfsErrorKind> for VfsError]
    (io NotFound -> FileNotFound); messages and io sub-kinds are not modelled. *)
Inductive ekind := ENotFound | EInvalidPath | EOther | EDirExists | EFileExists
                 | ENotSupported | EIo
                 | EFuel. (* model only: a fuelled recursion ran out; never an outcome of the code *)
Global Instance ekind_eq_dec : EqDecision ekind.
Proof. solve_decision. Defined.

(** The [path] field of a [VfsError]: [PUnfilled] is the placeholder
    "PATH NOT FILLED BY VFS LAYER", [PStr] a path string given to [with_path]
    (kept as component list for canonical paths; [PRaw] for the raw argument of a
    rejected join). *)
Inductive epath := PUnfilled | PPath (p : path) | PRaw (s : list N).
Global Instance epath_eq_dec : EqDecision epath.
Proof. solve_decision. Defined.

Record err := mkErr { e_kind : ekind; e_path : epath }.
Global Instance err_eq_dec : EqDecision err.
Proof. solve_decision. Defined.

Inductive res (T : Type) : Type :=
| Ok (v : T)
| Err (e : err)
| Panic.
Arguments Ok {T} v.
Arguments Err {T} e.
Arguments Panic {T}.

Definition err_of (k : ekind) : err := mkErr k PUnfilled.
Definition fail {T} (k : ekind) : res T := Err (err_of k).
(** [VfsError::with_path] *)
Definition with_path (e : err) (p : epath) : err := mkErr (e_kind e) p.
Definition map_err {T} (r : res T) (f : err -> err) : res T :=
  match r with Ok v => Ok v | Err e => Err (f e) | Panic => Panic end.
Definition res_map {T U} (f : T -> U) (r : res T) : res U :=
  match r with Ok v => Ok (f v) | Err e => Err e | Panic => Panic end.

Inductive ftype := File | Dir.
Global Instance ftype_eq_dec : EqDecision ftype.
Proof. solve_decision. Defined.

(** A timestamp is either a value of [SystemTime::now()] taken at some moment
    ([TAuto]; the harness never compares those) or a value set explicitly. *)
Inductive time := TAuto | TSet (t : Z).
Global Instance time_eq_dec : EqDecision time.
Proof. solve_decision. Defined.

Record meta := mkMeta {
  m_type : ftype; m_len : N;
  m_created : option time; m_modified : option time; m_accessed : option time }.

(** [SeekFrom] *)
Inductive seekfrom := SeekStart (o : Z) | SeekCurrent (o : Z) | SeekEnd (o : Z).

Definition u64_max : Z := 18446744073709551615.
Definition i64_min : Z := -9223372036854775808.
Definition i64_max : Z := 9223372036854775807.
