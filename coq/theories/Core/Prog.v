(** * Programs over calls: the free monad used for every layer above the base
    filesystems (fact F1 of DESIGN.md: adapters and VfsPath composites hold no
    state of their own, each of their operations is a sequence of calls into the
    layers below). *)
From Coq Require Import List.
Import ListNotations.

Section Prog.
  Context {C : Type} {rep : C -> Type}.

  Inductive prog (R : Type) : Type :=
  | Ret (r : R)
  | Call (c : C) (k : rep c -> prog R).
  Arguments Ret {R} r.
  Arguments Call {R} c k.

  Fixpoint bind {R S} (m : prog R) (f : R -> prog S) : prog S :=
    match m with
    | Ret r => f r
    | Call c k => Call c (fun x => bind (k x) f)
    end.

  Definition call (c : C) : prog (rep c) := Call c Ret.

  (** Sequential semantics: a handler answers each call against a state. *)
  Definition handler (S : Type) := forall c : C, S -> S * rep c.

  Fixpoint run {S R} (h : handler S) (m : prog R) (s : S) : S * R :=
    match m with
    | Ret r => (s, r)
    | Call c k => let '(s', x) := h c s in run h (k x) s'
    end.
End Prog.
Arguments prog {C} rep R.
Arguments Ret {C rep R} r.
Arguments Call {C rep R} c k.
Arguments handler {C} rep S.

(** Substituting a program for each call (used to plug a filesystem
    implementation below an adapter). *)
Section Subst.
  Context {C D : Type} {repC : C -> Type} {repD : D -> Type}.
  Fixpoint subst {R} (f : forall c : C, prog repD (repC c)) (m : prog repC R) : prog repD R :=
    match m with
    | Ret r => Ret r
    | Call c k => bind (f c) (fun x => subst f (k x))
    end.
End Subst.

Notation "'let*' x ':=' m 'in' f" := (bind m (fun x => f))
  (at level 200, x pattern, m at level 100, f at level 200, right associativity).
