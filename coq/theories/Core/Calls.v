(** * The call languages: the [FileSystem] trait, handle operations, and the
    calls that reach base filesystems. *)
From stdpp Require Import gmap list.
From Coq Require Import NArith ZArith.
From VFS Require Import Core.Types Core.Prog.

(** ** The [FileSystem] trait (src/filesystem.rs) *)
Inductive fscall :=
| CReadDir (p : path)
| CCreateDir (p : path)
| COpenFile (p : path)
| CCreateFile (p : path)
| CAppendFile (p : path)
| CMetadata (p : path)
| CSetCTime (p : path) (t : Z)
| CSetMTime (p : path) (t : Z)
| CSetATime (p : path) (t : Z)
| CExists (p : path)
| CRemoveFile (p : path)
| CRemoveDir (p : path)
| CCopyFile (s d : path)
| CMoveFile (s d : path)
| CMoveDir (s d : path).

(** handles are indices into the store's handle table *)
Notation hid := nat (only parsing).

Definition fval (c : fscall) : Type :=
  match c with
  | CReadDir _ => list name
  | COpenFile _ | CCreateFile _ | CAppendFile _ => hid
  | CMetadata _ => meta
  | CExists _ => bool
  | _ => unit
  end.
Definition frep (c : fscall) : Type := res (fval c).

(** does the call modify the filesystem it is made on? (C08) *)
Definition mutating (c : fscall) : bool :=
  match c with
  | CReadDir _ | COpenFile _ | CMetadata _ | CExists _ => false
  | _ => true
  end.

(** the paths a call names *)
Definition call_paths (c : fscall) : list path :=
  match c with
  | CReadDir p | CCreateDir p | COpenFile p | CCreateFile p | CAppendFile p
  | CMetadata p | CSetCTime p _ | CSetMTime p _ | CSetATime p _ | CExists p
  | CRemoveFile p | CRemoveDir p => [p]
  | CCopyFile s d | CMoveFile s d | CMoveDir s d => [s; d]
  end.

(** ** Handle operations ([Read], [Write], [Seek], drop; [std::io::copy] and
    [read_to_string] are kept as primitives of the standard library) *)
Inductive hop :=
| HRead (n : N)               (* read into a buffer of n bytes *)
| HSeek (sf : seekfrom)
| HWrite (bs : bytes)         (* Write::write (the in-memory and file writers take everything) *)
| HFlush
| HDrop
| HCopyTo (dst : hid)         (* std::io::copy(self, dst) *)
| HReadToEnd.                 (* Read::read_to_end *)

Definition hval (o : hop) : Type :=
  match o with
  | HRead _ => bytes
  | HSeek _ => Z
  | HWrite _ => N
  | HFlush => unit
  | HDrop => unit
  | HCopyTo _ => N
  | HReadToEnd => bytes
  end.

(** ** Calls reaching the base level *)
Inductive bcall :=
| BFs (i : nat) (c : fscall)      (* trait call on base filesystem number i *)
| BH (h : hid) (o : hop)          (* operation on an open handle *)
| BLog (id : nat) (c : fscall).   (* the harness's recording/fault wrapper [id] sees call [c];
                                     the reply says whether to inject an I/O error *)
Definition brep (b : bcall) : Type :=
  match b with
  | BFs _ c => frep c
  | BH _ o => res (hval o)
  | BLog _ _ => bool
  end.

Definition bprog := prog brep.

(** A filesystem implementation: every trait call is a program over base calls. *)
Definition fsimpl := forall c : fscall, bprog (frep c).

(** An instance ([VfsPath::new(fs)], one [Arc<VFS>]): identity + implementation. *)
Record vfs := mkVfs { v_id : nat; v_impl : fsimpl }.
