(** Basic facts about programs and their sequential semantics. *)
From VFS Require Import Core.Prog.

Section ProgProofs.
  Context {C : Type} {rep : C -> Type} {S : Type}.
  Variable h : handler rep S.

  Lemma run_ret {R} (r : R) s : run h (Ret r) s = (s, r).
  Proof. reflexivity. Qed.

  Lemma run_call_ret (c : C) s : run h (Call c Ret) s = h c s.
  Proof. cbn. now destruct (h c s). Qed.

  Lemma run_bind {R T} (m : prog rep R) (f : R -> prog rep T) s :
    run h (bind m f) s = let '(s', r) := run h m s in run h (f r) s'.
  Proof.
    revert s; induction m as [r|c k IH]; intros s; cbn; [reflexivity|].
    destruct (h c s) as [s' x]. apply IH.
  Qed.

  (** an invariant of every handler step is an invariant of every run *)
  Lemma run_invariant {R} (I : S -> Prop) :
    (forall c s, I s -> I (fst (h c s))) ->
    forall (m : prog rep R) s, I s -> I (fst (run h m s)).
  Proof.
    intros Hstep m; induction m as [r|c k IH]; intros s Hs; cbn; [exact Hs|].
    specialize (Hstep c s Hs). destruct (h c s) as [s' x]. now apply IH.
  Qed.
End ProgProofs.
