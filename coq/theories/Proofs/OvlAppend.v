(** C09, third example: appending through the overlay to a file that exists only in the lower layer
    continues the lower layer's bytes - the file is first copied up (stream copy between the two
    layers), the lower layer keeps its bytes. *)
From stdpp Require Import gmap list sorting.
From Coq Require Import NArith ZArith Lia.
From VFS Require Import Core.Types Core.Prog Core.Calls Base.MemFS Base.Handles Base.PhysFS Base.Embedded Base.Store
  Layer.VfsPath Layer.Overlay Proofs.ProgProofs Proofs.MemProofs Proofs.MemCalls Proofs.MemPublic Proofs.ConcProofs
  Proofs.Composite Proofs.OvlProofs Proofs.OvlList Proofs.OvlLife Proofs.CopyFile.

Section Append.
  Variables (lg : list (nat * fscall)) (ft : option (nat * nat)).
  Notation S2 a b hs := (mstore2 a b hs lg ft).
  Notation top := (v0, @nil (list N)).
  Notation lower := [(v1, @nil (list N))].

  (** handle operations only look at the handle table (and, for a writer of base 0, at base 0) *)
  Lemma hop_copy2 (s0 s1 : mstate) tbl h1 h2 c q :
    tbl !! h1 = Some (HMemReader c 0) -> tbl !! h2 = Some (HMemWriter 0 q [] 0) -> h1 <> h2 ->
    handle_op h1 (HCopyTo h2) (S2 s0 s1 tbl) =
    (S2 s0 s1 (<[h2 := HMemWriter 0 q c (Z.of_nat (length c))]> (<[h1 := HMemReader c (Z.of_nat (length c))]> tbl)),
     Ok (N.of_nat (length c))).
  Proof.
    intros H1 H2 Hne. rewrite handle_op_no_io by reflexivity. unfold handle_op0, mstore2. cbn [st_handles]. rewrite H1. cbn [drain]. rewrite H2.
    assert (Hrest : rest_of c 0 = c).
    { unfold rest_of. rewrite Z.min_l by lia. reflexivity. }
    rewrite Hrest. rewrite Z.max_r by lia.
    destruct c as [|b c'].
    - cbn [put length]. f_equal. unfold set_handle. cbn. f_equal.
      symmetry. apply list_insert_id. rewrite list_lookup_insert_ne by exact Hne. exact H2.
    - cbn [put]. rewrite cursor_write_fresh. reflexivity.
  Qed.

  Lemma hop_drop_writer2 (s0 s1 : mstate) tbl h q buf pos g :
    tbl !! h = Some (HMemWriter 0 q buf pos) -> s0 !! q = Some g -> f_type g = File ->
    handle_op h HDrop (S2 s0 s1 tbl) =
    (S2 (<[q := mkMemFile File buf (f_created g) (Some TAuto) (f_accessed g)]> s0) s1 (<[h := HClosed]> tbl), Ok tt).
  Proof.
    intros Hh Hq Hg. rewrite handle_op_no_io by reflexivity. unfold handle_op0, mstore2. cbn [st_handles]. rewrite Hh.
    unfold mem_publish. cbn. rewrite Hq.
    destruct g as [ty c cr mo ac]. cbn in Hg. subst ty. reflexivity.
  Qed.

  Lemma hop_drop_reader2 (s0 s1 : mstate) tbl h c pos :
    tbl !! h = Some (HMemReader c pos) ->
    handle_op h HDrop (S2 s0 s1 tbl) = (S2 s0 s1 (<[h := HClosed]> tbl), Ok tt).
  Proof. intros Hh. rewrite handle_op_no_io by reflexivity. unfold handle_op0, mstore2. cbn [st_handles]. rewrite Hh. reflexivity. Qed.

  Lemma open_file1 (s0 s1 : mstate) hs p f :
    s1 !! p = Some f -> f_type f = File ->
    run bhandler (vp_open_file v1 p) (S2 s0 s1 hs) =
    (S2 s0 (<[p := touched f]> s1) (hs ++ [HMemReader (f_content f) 0]), Ok (length hs)).
  Proof.
    intros Hf Ht. cbn. unfold mem_fs_call. rewrite ms_open_file. cbn [msec_sem]. rewrite Hf, Ht. reflexivity.
  Qed.

  Lemma append_file0 (s0 s1 : mstate) hs p g :
    s0 !! p = Some g -> f_type g = File ->
    run bhandler (vp_append_file v0 p) (S2 s0 s1 hs) =
    (S2 s0 s1 (hs ++ [HMemWriter 0 p (f_content g) (Z.of_nat (length (f_content g)))]), Ok (length hs)).
  Proof.
    intros Hg Ht. cbn. unfold mem_fs_call. rewrite ms_append_file. cbn [msec_sem]. rewrite Hg, Ht. reflexivity.
  Qed.

  (** ** append to a top-level file that exists only in the lower layer *)
  Theorem append_continues_lower_bytes (s0 s1 : mstate) hs (n : name) f :
    wf s0 -> s0 !! whiteout_path top [] = None -> s0 !! whiteout_path top [n] = None ->
    s0 !! [n] = None -> s1 !! [n] = Some f -> f_type f = File ->
    run bhandler (ovl_impl top lower (CAppendFile [n])) (S2 s0 s1 hs) =
    (S2 (<[[n] := fresh_file (f_content f)]> s0) (<[[n] := touched f]> s1)
        (hs ++ [HClosed; HClosed; HMemWriter 0 [n] (f_content f) (Z.of_nat (length (f_content f)))]),
     Ok (length hs + 2)%nat).
  Proof.
    intros Hwf Hroot Hm Hup Hlow Hty.
    set (c := f_content f).
    cbn [ovl_impl]. unfold write_path. cbn [fst snd app].
    unfold bind_res at 1. rewrite run_bind, exists0, Hup.
    rewrite bool_decide_eq_false_2 by (intros [? ?]; discriminate).
    unfold bind_res at 1. rewrite run_bind.
    (* copy-up *)
    unfold bind_res at 1. rewrite run_bind, (ensure_parent_root lg ft s0 s1 hs n Hwf Hroot).
    unfold bind_res at 1. rewrite run_bind, (read_path_rule hs lg ft s0 s1 [n] ltac:(discriminate)), Hm, Hup, Hlow.
    repeat (rewrite bool_decide_eq_false_2 by (intros [? ?]; discriminate)).
    rewrite bool_decide_eq_true_2 by eauto. cbn [fst snd].
    (* VfsPath::copy_file between the two instances: no fast path, the stream copy *)
    unfold vp_copy_file, relabel, labelled, bind_res. rewrite !run_bind, exists0, Hup.
    rewrite bool_decide_eq_false_2 by (intros [? ?]; discriminate).
    unfold fast_path. cbn [v_id v0 v1 Nat.eqb].
    unfold stream_copy, bind_res. rewrite !run_bind.
    rewrite (open_file1 s0 s1 hs [n] f Hlow Hty).
    set (s1' := <[[n] := touched f]> s1).
    destruct Hwf as [(r & Hr & Hrt) Hpc].
    assert (Hrootdir : is_dir s0 (removelast [n])) by (cbn; exists r; auto).
    rewrite run_bind, (create_file0 lg ft s0 s1' _ [n] ltac:(discriminate) Hrootdir Hup).
    rewrite app_length. cbn [length]. rewrite <- app_assoc. cbn [app].
    assert (L1 : forall (a b : hstate), (hs ++ [a; b]) !! length hs = Some a).
    { intros a b. rewrite lookup_app_r by lia. now rewrite Nat.sub_diag. }
    assert (L2 : forall (a b : hstate), (hs ++ [a; b]) !! (length hs + 1)%nat = Some b).
    { intros a b. rewrite lookup_app_r by lia. replace (length hs + 1 - length hs)%nat with 1%nat by lia. reflexivity. }
    assert (I1 : forall (a b x : hstate), <[length hs := x]> (hs ++ [a; b]) = hs ++ [x; b]).
    { intros a b x. rewrite insert_app_r_alt by lia. now rewrite Nat.sub_diag. }
    assert (I2 : forall (a b x : hstate), <[(length hs + 1)%nat := x]> (hs ++ [a; b]) = hs ++ [a; x]).
    { intros a b x. rewrite insert_app_r_alt by lia. replace (length hs + 1 - length hs)%nat with 1%nat by lia. reflexivity. }
    rewrite run_bind. cbn [run bhandler].
    rewrite (hop_copy2 _ s1' _ (length hs) (length hs + 1)%nat c [n] (L1 _ _) (L2 _ _) ltac:(lia)).
    rewrite I1, I2. cbn [fst snd].
    rewrite run_bind. cbn [run].
    rewrite run_bind. cbn [run bhandler bind].
    rewrite (hop_drop_writer2 _ s1' _ (length hs + 1)%nat [n] c (Z.of_nat (length c)) (fresh_file []) (L2 _ _));
      [|apply lookup_insert|reflexivity].
    rewrite I2. cbn [fst snd f_created f_accessed fresh_file].
    rewrite (hop_drop_reader2 _ s1' _ (length hs) c (Z.of_nat (length c)) (L1 _ _)).
    rewrite I1. cbn [fst snd run map_err]. rewrite insert_insert.
    (* and now the append handle on the copied-up file *)
    fold (fresh_file c).
    rewrite (append_file0 _ s1' _ [n] (fresh_file c)); [|apply lookup_insert|reflexivity].
    rewrite <- app_assoc. cbn [app length f_content fresh_file].
    rewrite app_length. cbn [length]. reflexivity.
  Qed.
  (** ** C11 across two instances: copy_file / move_file from one MemoryFS to another go through the
      stream path (open, create, io::copy, publish on drop): the destination holds exactly the
      source's bytes, the source is kept (its access time stamped by the read) / gone, nothing else
      changes in either filesystem, both handles are closed *)
  Lemma remove_file1 (s0 s1 : mstate) hs q g :
    s1 !! q = Some g -> f_type g = File ->
    run bhandler (vp_remove_file v1 q) (S2 s0 s1 hs) = (S2 s0 (delete q s1) hs, Ok tt).
  Proof.
    intros Hq Hg. cbn. unfold mem_fs_call. rewrite ms_remove_file. cbn [msec_sem]. rewrite Hq, Hg. reflexivity.
  Qed.

  Lemma stream_copy_across (s0 s1 : mstate) hs (p q : path) f (after : bprog (res unit)) :
    s1 !! p = Some f -> f_type f = File ->
    q <> [] -> is_dir s0 (removelast q) -> s0 !! q = None ->
    run bhandler (stream_copy v1 p v0 q after) (S2 s0 s1 hs) =
    (let '(s', r) := run bhandler after
        (S2 (<[q := fresh_file []]> s0) (<[p := touched f]> s1)
            (hs ++ [HMemReader (f_content f) (Z.of_nat (length (f_content f)));
                    HMemWriter 0 q (f_content f) (Z.of_nat (length (f_content f)))])) in
     run bhandler (let* _ := Call (BH (length hs + 1)%nat HDrop) Ret in
                   let* _ := Call (BH (length hs) HDrop) Ret in Ret r) s').
  Proof.
    intros Hlow Hty Hq Hpar Hup.
    set (c := f_content f).
    unfold stream_copy, bind_res. rewrite !run_bind.
    rewrite (open_file1 s0 s1 hs p f Hlow Hty).
    set (s1' := <[p := touched f]> s1).
    rewrite run_bind, (create_file0 lg ft s0 s1' _ q Hq Hpar Hup).
    rewrite app_length. cbn [length]. rewrite <- app_assoc. cbn [app].
    assert (L1 : forall (a b : hstate), (hs ++ [a; b]) !! length hs = Some a).
    { intros a b. rewrite lookup_app_r by lia. now rewrite Nat.sub_diag. }
    assert (L2 : forall (a b : hstate), (hs ++ [a; b]) !! (length hs + 1)%nat = Some b).
    { intros a b. rewrite lookup_app_r by lia. replace (length hs + 1 - length hs)%nat with 1%nat by lia. reflexivity. }
    assert (I1 : forall (a b x : hstate), <[length hs := x]> (hs ++ [a; b]) = hs ++ [x; b]).
    { intros a b x. rewrite insert_app_r_alt by lia. now rewrite Nat.sub_diag. }
    assert (I2 : forall (a b x : hstate), <[(length hs + 1)%nat := x]> (hs ++ [a; b]) = hs ++ [a; x]).
    { intros a b x. rewrite insert_app_r_alt by lia. replace (length hs + 1 - length hs)%nat with 1%nat by lia. reflexivity. }
    rewrite run_bind. cbn [run bhandler].
    rewrite (hop_copy2 _ s1' _ (length hs) (length hs + 1)%nat c q (L1 _ _) (L2 _ _) ltac:(lia)).
    rewrite I1, I2. cbn [fst snd].
    rewrite run_bind. reflexivity.
  Qed.

  Lemma drops_after_copy (s0 s1 : mstate) hs (q : path) c (r : res unit) g :
    s0 !! q = Some g -> f_type g = File ->
    run bhandler (let* _ := Call (BH (length hs + 1)%nat HDrop) Ret in
                  let* _ := Call (BH (length hs) HDrop) Ret in Ret r)
        (S2 s0 s1 (hs ++ [HMemReader c (Z.of_nat (length c)); HMemWriter 0 q c (Z.of_nat (length c))])) =
    (S2 (<[q := mkMemFile File c (f_created g) (Some TAuto) (f_accessed g)]> s0) s1 (hs ++ [HClosed; HClosed]), r).
  Proof.
    intros Hg Hgt.
    assert (L1 : forall (a b : hstate), (hs ++ [a; b]) !! length hs = Some a).
    { intros a b. rewrite lookup_app_r by lia. now rewrite Nat.sub_diag. }
    assert (L2 : forall (a b : hstate), (hs ++ [a; b]) !! (length hs + 1)%nat = Some b).
    { intros a b. rewrite lookup_app_r by lia. replace (length hs + 1 - length hs)%nat with 1%nat by lia. reflexivity. }
    assert (I1 : forall (a b x : hstate), <[length hs := x]> (hs ++ [a; b]) = hs ++ [x; b]).
    { intros a b x. rewrite insert_app_r_alt by lia. now rewrite Nat.sub_diag. }
    assert (I2 : forall (a b x : hstate), <[(length hs + 1)%nat := x]> (hs ++ [a; b]) = hs ++ [a; x]).
    { intros a b x. rewrite insert_app_r_alt by lia. replace (length hs + 1 - length hs)%nat with 1%nat by lia. reflexivity. }
    cbn [bind run bhandler].
    rewrite (hop_drop_writer2 s0 s1 _ (length hs + 1)%nat q c (Z.of_nat (length c)) g (L2 _ _) Hg Hgt).
    rewrite I2. cbn [fst snd].
    rewrite (hop_drop_reader2 _ s1 _ (length hs) c (Z.of_nat (length c)) (L1 _ _)).
    rewrite I1. reflexivity.
  Qed.

  Theorem copy_file_across (s0 s1 : mstate) hs (p q : path) f :
    s1 !! p = Some f -> f_type f = File ->
    q <> [] -> is_dir s0 (removelast q) -> s0 !! q = None ->
    run bhandler (vp_copy_file v1 p v0 q) (S2 s0 s1 hs) =
    (S2 (<[q := fresh_file (f_content f)]> s0) (<[p := touched f]> s1) (hs ++ [HClosed; HClosed]), Ok tt).
  Proof.
    intros Hlow Hty Hq Hpar Hup.
    unfold vp_copy_file, relabel, labelled, bind_res. rewrite !run_bind, exists0, Hup.
    rewrite bool_decide_eq_false_2 by (intros [? ?]; discriminate).
    unfold fast_path. cbn [v_id v0 v1 Nat.eqb].
    rewrite (stream_copy_across s0 s1 hs p q f _ Hlow Hty Hq Hpar Hup). cbn [run].
    rewrite (drops_after_copy _ _ hs q (f_content f) (Ok tt) (fresh_file [])); [|apply lookup_insert|reflexivity].
    cbn [run map_err f_created f_accessed fresh_file]. rewrite insert_insert. reflexivity.
  Qed.

  Theorem move_file_across (s0 s1 : mstate) hs (p q : path) f :
    s1 !! p = Some f -> f_type f = File ->
    q <> [] -> is_dir s0 (removelast q) -> s0 !! q = None ->
    run bhandler (vp_move_file v1 p v0 q) (S2 s0 s1 hs) =
    (S2 (<[q := fresh_file (f_content f)]> s0) (delete p s1) (hs ++ [HClosed; HClosed]), Ok tt).
  Proof.
    intros Hlow Hty Hq Hpar Hup.
    unfold vp_move_file, relabel, labelled, bind_res. rewrite !run_bind, exists0, Hup.
    rewrite bool_decide_eq_false_2 by (intros [? ?]; discriminate).
    unfold fast_path. cbn [v_id v0 v1 Nat.eqb].
    rewrite (stream_copy_across s0 s1 hs p q f _ Hlow Hty Hq Hpar Hup).
    rewrite (remove_file1 _ _ _ p (touched f)); [|apply lookup_insert|reflexivity].
    rewrite delete_insert_delete.
    rewrite (drops_after_copy _ _ hs q (f_content f) (Ok tt) (fresh_file [])); [|apply lookup_insert|reflexivity].
    cbn [run map_err f_created f_accessed fresh_file]. rewrite insert_insert. reflexivity.
  Qed.

  (** ** the failing side: the stream copy opens its SOURCE first.  When the source is not a file (a
      directory, or nothing) the copy fails before it has created anything: the destination filesystem is
      untouched, no handle is opened - in particular no empty file is left at the destination *)
  Lemma open_file1_fails (s0 s1 : mstate) hs p :
    (forall f, s1 !! p = Some f -> f_type f = Dir) ->
    exists e, run bhandler (vp_open_file v1 p) (S2 s0 s1 hs) = (S2 s0 s1 hs, Err e).
  Proof.
    intros Hf. cbn. unfold mem_fs_call. rewrite ms_open_file. cbn [msec_sem].
    destruct (s1 !! p) as [f|] eqn:E; [rewrite (Hf f eq_refl)|]; cbn; eauto.
  Qed.

  Theorem copy_file_across_fails_early (s0 s1 : mstate) hs (p q : path) :
    (forall f, s1 !! p = Some f -> f_type f = Dir) -> s0 !! q = None ->
    exists e, run bhandler (vp_copy_file v1 p v0 q) (S2 s0 s1 hs) = (S2 s0 s1 hs, Err e).
  Proof.
    intros Hsrc Hup.
    unfold vp_copy_file, relabel, labelled, bind_res. rewrite !run_bind, exists0, Hup.
    rewrite bool_decide_eq_false_2 by (intros [? ?]; discriminate).
    unfold fast_path. cbn [v_id v0 v1 Nat.eqb].
    unfold stream_copy, bind_res. rewrite !run_bind.
    destruct (open_file1_fails s0 s1 hs p Hsrc) as (e & ->). cbn [run map_err]. eauto.
  Qed.
End Append.
