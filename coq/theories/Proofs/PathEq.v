(** [VfsPath == VfsPath] in the model: instance identity and component list *)
From stdpp Require Import base decidable list.
From Coq Require Import NArith Bool Arith.
From VFS Require Import Core.Types Layer.Run.

Lemma path_eq_iff (i i' : nat) (p p' : list (list N)) : path_eq i p i' p' = true <-> i = i' /\ p = p'.
Proof.
  unfold path_eq. rewrite Bool.andb_true_iff, Nat.eqb_eq, bool_decide_eq_true. tauto.
Qed.
