(** C20, the concrete side of failing handle I/O: a copy between two MemoryFS instances while reads, or
    writes, or both fail on every handle.  The copy reports an I/O error naming the caller's source path;
    the source keeps its bytes; the destination is left as the EMPTY file that create_file made (an error
    with a partial effect, never a success); both handles are closed.  [set_io]: arming the mode changes
    nothing else, and no trait call looks at it. *)
From stdpp Require Import gmap list.
From Coq Require Import NArith ZArith Lia.
From VFS Require Import Core.Types Core.Prog Core.Calls Base.MemFS Base.Handles Base.PhysFS Base.Embedded Base.Store
  Layer.VfsPath Layer.Overlay Proofs.ProgProofs Proofs.MemProofs Proofs.MemCalls Proofs.MemPublic
  Proofs.CallsOk Proofs.VfsPathOk Proofs.AdapterOk Proofs.IoStrict Proofs.OvlProofs Proofs.OvlLife Proofs.CopyFile Proofs.OvlAppend.

Definition set_io (st : store) (m : iomode) : store :=
  mkStore (st_bases st) (st_handles st) (st_log st) (st_fault st) m.
Definition nohandle (b : bcall) : Prop := match b with BH _ _ => False | _ => True end.

Lemma fs_call_set_io i c st m :
  fs_call i c (set_io st m) = (set_io (fst (fs_call i c st)) m, snd (fs_call i c st)).
Proof.
  unfold fs_call. cbn [set_io st_bases]. destruct (st_bases st !! i) as [[s|s|s]|]; [| | |reflexivity].
  - unfold mem_fs_call. destruct (mem_step c s) as [s' r].
    destruct c; cbn [mem_glue]; try reflexivity; destruct r; reflexivity.
  - unfold phys_fs_call. destruct (phys_step c s) as [s' r].
    destruct c; try reflexivity; destruct r; reflexivity.
  - unfold emb_fs_call. destruct c; try reflexivity; destruct (emb_step _ s); reflexivity.
Qed.

Lemma bhandler_set_io b st m : nohandle b ->
  bhandler b (set_io st m) = (set_io (fst (bhandler b st)) m, snd (bhandler b st)).
Proof.
  destruct b as [i c|h o|id c]; intros Hb; [|destruct Hb|]; cbn [bhandler].
  - apply fs_call_set_io.
  - unfold log_call. cbn [set_io st_fault st_log]. destruct (st_fault st) as [[fid k]|]; [|reflexivity].
    destruct (Nat.eqb fid id); [destruct k|]; reflexivity.
Qed.

Lemma run_set_io {R} (p : bprog R) : calls_ok nohandle p -> forall st m,
  run bhandler p (set_io st m) = (set_io (fst (run bhandler p st)) m, snd (run bhandler p st)).
Proof.
  induction 1 as [r|b k Hb Hk IH]; intros st m; cbn [run]; [reflexivity|].
  rewrite (bhandler_set_io b st m Hb). destruct (bhandler b st) as [st' x]. cbn [fst snd]. apply IH.
Qed.

(** dropping a handle is not I/O: it happens under every mode *)
Lemma drop_set_io h st m : st_io st = IoOff ->
  handle_op h HDrop (set_io st m) = (set_io (fst (handle_op h HDrop st)) m, snd (handle_op h HDrop st)).
Proof.
  intros Hoff. rewrite (handle_op_no_io h HDrop st Hoff).
  assert (E : handle_op h HDrop (set_io st m) = handle_op0 h HDrop (set_io st m)).
  { unfold handle_op, io_fails. cbn [st_io set_io]. destruct m; reflexivity. }
  rewrite E. unfold handle_op0. cbn [set_io st_handles].
  destruct (st_handles st !! h) as [x|]; [|reflexivity].
  destruct x; try reflexivity.
  cbn. unfold mem_publish. cbn [st_bases set_io]. destruct (st_bases st !! base) as [[| |]|]; reflexivity.
Qed.

Section IoCopy.
  Variables (lg : list (nat * fscall)) (ft : option (nat * nat)).
  Notation S2 a b hs := (mstore2 a b hs lg ft).

  Lemma v0_nohandle c : calls_ok nohandle (v_impl v0 c).
  Proof. cbn. constructor; [exact I|]. intros x. constructor. Qed.
  Lemma v1_nohandle c : calls_ok nohandle (v_impl v1 c).
  Proof. cbn. constructor; [exact I|]. intros x. constructor. Qed.

  Definition armed_for (m : iomode) (content : bytes) : Prop :=
    m = IoReads \/ m = IoAll \/ (m = IoWrites /\ content <> []).

  Theorem copy_file_across_io_fault (s0 s1 : mstate) hs (p q : path) f m :
    s1 !! p = Some f -> f_type f = File ->
    q <> [] -> is_dir s0 (removelast q) -> s0 !! q = None ->
    armed_for m (f_content f) ->
    run bhandler (vp_copy_file v1 p v0 q) (set_io (S2 s0 s1 hs) m) =
    (set_io (S2 (<[q := fresh_file []]> s0) (<[p := touched f]> s1) (hs ++ [HClosed; HClosed])) m,
     Err (mkErr EIo (PPath p))).
  Proof.
    intros Hlow Hty Hq Hpar Hup Harm.
    set (c := f_content f) in *.
    unfold vp_copy_file, relabel, labelled, bind_res. rewrite !run_bind.
    rewrite (run_set_io (vp_exists v0 q)) by (apply (vp_exists_ok nohandle v0 (fun _ => True)); [intros; apply v0_nohandle|exact I]).
    rewrite exists0, Hup. cbn [fst snd].
    rewrite bool_decide_eq_false_2 by (intros [? ?]; discriminate).
    unfold fast_path. cbn [v_id v0 v1 Nat.eqb].
    unfold stream_copy, bind_res. rewrite !run_bind.
    rewrite (run_set_io (vp_open_file v1 p)) by (apply (vp_open_file_ok nohandle v1 (fun _ => True)); [intros; apply v1_nohandle|exact I]).
    rewrite (open_file1 lg ft s0 s1 hs p f Hlow Hty). cbn [fst snd].
    set (s1' := <[p := touched f]> s1).
    rewrite run_bind.
    rewrite (run_set_io (vp_create_file v0 q)) by
      (apply (vp_create_file_ok nohandle v0 (fun _ => True)); [intros; apply v0_nohandle|exact I|exact I|exact I]).
    rewrite (create_file0 lg ft s0 s1' _ q Hq Hpar Hup). cbn [fst snd].
    rewrite app_length. cbn [length]. rewrite <- app_assoc. cbn [app].
    assert (L1 : forall (a b : hstate), (hs ++ [a; b]) !! length hs = Some a).
    { intros a b. rewrite lookup_app_r by lia. now rewrite Nat.sub_diag. }
    assert (L2 : forall (a b : hstate), (hs ++ [a; b]) !! (length hs + 1)%nat = Some b).
    { intros a b. rewrite lookup_app_r by lia. replace (length hs + 1 - length hs)%nat with 1%nat by lia. reflexivity. }
    assert (I1 : forall (a b x : hstate), <[length hs := x]> (hs ++ [a; b]) = hs ++ [x; b]).
    { intros a b x. rewrite insert_app_r_alt by lia. now rewrite Nat.sub_diag. }
    assert (I2 : forall (a b x : hstate), <[(length hs + 1)%nat := x]> (hs ++ [a; b]) = hs ++ [a; x]).
    { intros a b x. rewrite insert_app_r_alt by lia. replace (length hs + 1 - length hs)%nat with 1%nat by lia. reflexivity. }
    rewrite run_bind. cbn [run bhandler].
    (* io::copy fails: reads fail at once; writes fail because a non-empty chunk reaches the writer *)
    rewrite handle_op_armed.
    2:{ unfold io_fails. cbn [st_io set_io]. destruct Harm as [->|[->|[-> Hne]]]; [reflexivity|reflexivity|].
        unfold remaining. cbn [st_handles set_io mstore2]. rewrite L1. cbn [drain].
        assert (Hrest : rest_of c 0 = c). { unfold rest_of. rewrite Z.min_l by lia. reflexivity. }
        fold c. rewrite Hrest. destruct c; [congruence|reflexivity]. }
    cbn [fst snd]. unfold fail. cbn [bind run bhandler].
    (* the handles are dropped: the writer publishes its empty buffer *)
    rewrite drop_set_io by reflexivity.
    rewrite (hop_drop_writer2 lg ft _ s1' _ (length hs + 1)%nat q [] 0 (fresh_file []) (L2 _ _)); [|apply lookup_insert|reflexivity].
    rewrite I2. cbn [fst snd f_created f_accessed fresh_file]. rewrite insert_insert.
    rewrite drop_set_io by reflexivity.
    rewrite (hop_drop_reader2 lg ft _ s1' _ (length hs) (f_content f) 0 (L1 _ _)).
    rewrite I1. cbn [fst snd run map_err with_path e_kind]. reflexivity.
  Qed.

  (** ** the overlay's copy-up under failing handle I/O: append_file on a file that only the lower layer has
      fails with an I/O error, the lower layer keeps its bytes - but the EMPTY file that the failed copy left in
      the write layer now shadows them: through the overlay the file reads as empty.  An error with a partial
      effect (C20 allows it; nothing is reported as success), recorded here because it is what the code does. *)
  Notation top := (v0, @nil (list N)).
  Notation lower := [(v1, @nil (list N))].

  Lemma layers_nohandle : Forall (fun l => layer_ok nohandle top (fst l)) lower.
  Proof. constructor; [|constructor]. split; intros; apply v1_nohandle. Qed.

  Theorem append_copy_up_io_fault (s0 s1 : mstate) hs (n : name) f m :
    wf s0 -> s0 !! whiteout_path top [] = None -> s0 !! whiteout_path top [n] = None ->
    s0 !! [n] = None -> s1 !! [n] = Some f -> f_type f = File -> armed_for m (f_content f) ->
    exists e,
      run bhandler (ovl_impl top lower (CAppendFile [n])) (set_io (S2 s0 s1 hs) m) =
      (set_io (S2 (<[[n] := fresh_file []]> s0) (<[[n] := touched f]> s1) (hs ++ [HClosed; HClosed])) m, Err e) /\
      e_kind e = EIo.
  Proof.
    intros Hwf Hroot Hm Hup Hlow Hty Harm.
    cbn [ovl_impl]. unfold write_path. cbn [fst snd app].
    unfold bind_res at 1. rewrite run_bind.
    rewrite (run_set_io (vp_exists v0 [n])) by (apply (vp_exists_ok nohandle v0 (fun _ => True)); [intros; apply v0_nohandle|exact I]).
    rewrite exists0, Hup. cbn [fst snd].
    rewrite bool_decide_eq_false_2 by (intros [? ?]; discriminate).
    unfold bind_res at 1. rewrite run_bind.
    unfold bind_res at 1. rewrite run_bind.
    rewrite (run_set_io (ovl_ensure_has_parent top lower [n]))
      by (apply (ovl_ensure_has_parent_ok nohandle top lower); [intros; apply v0_nohandle|apply layers_nohandle]).
    rewrite (ensure_parent_root lg ft s0 s1 hs n Hwf Hroot). cbn [fst snd].
    unfold bind_res at 1. rewrite run_bind.
    rewrite (run_set_io (read_path top lower [n]))
      by (eapply calls_okQ_ok; apply (read_path_ok nohandle top lower); [intros; apply v0_nohandle|apply layers_nohandle]).
    rewrite (read_path_rule hs lg ft s0 s1 [n] ltac:(discriminate)), Hm, Hup, Hlow.
    repeat (rewrite bool_decide_eq_false_2 by (intros [? ?]; discriminate)).
    rewrite bool_decide_eq_true_2 by eauto. cbn [fst snd].
    destruct Hwf as [(r & Hr & Hrt) Hpc].
    assert (Hrootdir : is_dir s0 (removelast [n])) by (cbn; exists r; auto).
    rewrite (copy_file_across_io_fault s0 s1 hs [n] [n] f m Hlow Hty ltac:(discriminate) Hrootdir Hup Harm).
    cbn [run]. eexists. split; reflexivity.
  Qed.
End IoCopy.
