(** C09 for any number of layers: which layer serves a path.  An overlay over a write layer and n lower
    MemoryFS layers resolves a path to the write layer if it is there; else, unless its deletion marker is
    there, to the FIRST lower layer that holds it - never to a later one, whatever that holds (a file behind a
    directory, other bytes) - and resolving changes nothing.  The two-layer theorems of OvlProofs are the
    case n = 1. *)
From stdpp Require Import gmap list.
From Coq Require Import NArith ZArith Lia.
From VFS Require Import Core.Types Core.Prog Core.Calls Base.MemFS Base.Handles Base.PhysFS Base.Embedded Base.Store
  Layer.VfsPath Layer.Overlay Proofs.ProgProofs Proofs.MemProofs Proofs.MemCalls Proofs.OvlProofs Proofs.OvlList Proofs.CopyFile.

(** instance number k: base filesystem k, unwrapped *)
Definition vk (k : nat) : vfs := mkVfs k (fun c => Call (BFs k c) Ret).

Fixpoint lowers (k n : nat) : list (vfs * path) :=
  match n with O => [] | S n' => (vk k, []) :: lowers (S k) n' end.

(** the first of the states [ss] (numbered from k) that holds p *)
Fixpoint first_holding (k : nat) (ss : list mstate) (p : path) : option (vfs * path) :=
  match ss with
  | [] => None
  | s :: ss' => if bool_decide (is_Some (s !! p)) then Some (vk k, p) else first_holding (S k) ss' p
  end.

Section Layers.
  Variables (hs : list hstate) (lg : list (nat * fscall)) (ft : option (nat * nat)).

  Definition nstore (bs : list mstate) : store := mkStore (map BMem bs) hs lg ft IoOff.

  Lemma exists_k (bs : list mstate) (k : nat) (s : mstate) (p : path) :
    bs !! k = Some s ->
    run bhandler (vp_exists (vk k) p) (nstore bs) = (nstore bs, Ok (bool_decide (is_Some (s !! p)))).
  Proof.
    intros Hk. cbn. unfold fs_call, nstore. cbn [st_bases]. rewrite list_lookup_fmap, Hk. cbn [fmap option_fmap option_map].
    unfold mem_fs_call. rewrite ms_exists. cbn [msec_sem mem_glue fst snd].
    unfold set_base. cbn [st_bases st_handles st_log st_fault st_io].
    rewrite list_insert_id by (rewrite list_lookup_fmap, Hk; reflexivity). reflexivity.
  Qed.

  Lemma first_layer_first (pre ss : list mstate) (p : path) :
    run bhandler (first_layer (lowers (length pre) (length ss)) p) (nstore (pre ++ ss)) =
    (nstore (pre ++ ss), Ok (first_holding (length pre) ss p)).
  Proof.
    revert pre. induction ss as [|s ss IH]; intros pre; cbn [length lowers first_layer first_holding]; [reflexivity|].
    cbn [fst snd app]. unfold bind_res. rewrite run_bind.
    rewrite (exists_k (pre ++ s :: ss) (length pre) s p) by (rewrite lookup_app_r by lia; now rewrite Nat.sub_diag).
    destruct (bool_decide (is_Some (s !! p))); [reflexivity|].
    specialize (IH (pre ++ [s])). rewrite app_length in IH. cbn [length] in IH.
    rewrite Nat.add_1_r, <- app_assoc in IH. exact IH.
  Qed.

  (** the overlay over s0 (write layer) and the lower layers ss *)
  Notation topn := (vk 0, @nil (list N)).

  Theorem read_path_layers (s0 : mstate) (ss : list mstate) (p : path) : p <> [] ->
    run bhandler (read_path topn (lowers 1 (length ss)) p) (nstore (s0 :: ss)) =
    (nstore (s0 :: ss),
     if bool_decide (is_Some (s0 !! p)) then Ok (vk 0, p)
     else if bool_decide (is_Some (s0 !! whiteout_path topn p)) then fail ENotFound
     else match first_holding 1 ss p with Some lp => Ok lp | None => fail ENotFound end).
  Proof.
    intros Hp. destruct p as [|n p']; [congruence|]. cbn [read_path].
    unfold write_path. cbn [fst snd app]. unfold bind_res. rewrite run_bind.
    rewrite (exists_k (s0 :: ss) 0 s0 _ eq_refl).
    destruct (bool_decide (is_Some (s0 !! (n :: p')))); [reflexivity|].
    rewrite run_bind, (exists_k (s0 :: ss) 0 s0 _ eq_refl).
    destruct (bool_decide (is_Some (s0 !! whiteout_path topn (n :: p')))); [reflexivity|].
    rewrite run_bind. pose proof (first_layer_first [s0] ss (n :: p')) as Hfl. cbn [length app] in Hfl. rewrite Hfl.
    destruct (first_holding 1 ss (n :: p')); reflexivity.
  Qed.

  (** precedence: a layer BEHIND the first holder is never consulted for the answer *)
  Lemma first_holding_app (k : nat) (ss1 : list mstate) (s : mstate) (ss2 : list mstate) (p : path) :
    Forall (fun s' => s' !! p = None) ss1 -> is_Some (s !! p) ->
    first_holding k (ss1 ++ s :: ss2) p = Some (vk (k + length ss1), p).
  Proof.
    revert k. induction ss1 as [|a ss1 IH]; intros k Hnone Hs; cbn [app first_holding length].
    - rewrite bool_decide_eq_true_2 by exact Hs. now rewrite Nat.add_0_r.
    - apply Forall_cons in Hnone as [Ha Hnone]. rewrite Ha.
      rewrite bool_decide_eq_false_2 by (intros [? ?]; discriminate).
      rewrite IH by assumption. replace (S k + length ss1) with (k + S (length ss1)) by lia. reflexivity.
  Qed.

  Theorem first_holder_serves (s0 : mstate) (ss1 : list mstate) (s : mstate) (ss2 : list mstate) (p : path) : p <> [] ->
    s0 !! p = None -> s0 !! whiteout_path topn p = None ->
    Forall (fun s' => s' !! p = None) ss1 -> is_Some (s !! p) ->
    run bhandler (read_path topn (lowers 1 (length (ss1 ++ s :: ss2))) p) (nstore (s0 :: ss1 ++ s :: ss2)) =
    (nstore (s0 :: ss1 ++ s :: ss2), Ok (vk (1 + length ss1), p)).
  Proof.
    intros Hp H0 Hm Hnone Hs. rewrite (read_path_layers s0 (ss1 ++ s :: ss2) p Hp), H0, Hm.
    rewrite !bool_decide_eq_false_2 by (intros [? ?]; discriminate).
    rewrite (first_holding_app 1 ss1 s ss2 p Hnone Hs). reflexivity.
  Qed.

  Lemma metadata_k (bs : list mstate) (k : nat) (s : mstate) (p : path) :
    bs !! k = Some s ->
    run bhandler (vp_metadata (vk k) p) (nstore bs) =
    (nstore bs, match s !! p with Some f => Ok (mem_meta f) | None => Err (mkErr ENotFound (PPath p)) end).
  Proof.
    intros Hk. unfold vp_metadata, labelled. cbn [v_impl vk]. rewrite run_bind. cbn [run bhandler].
    unfold fs_call, nstore. cbn [st_bases]. rewrite list_lookup_fmap, Hk. cbn [fmap option_fmap option_map].
    unfold mem_fs_call. rewrite ms_metadata. cbn [msec_sem].
    destruct (s !! p) as [f|]; cbn [mem_glue fst snd run map_err with_path fail err_of e_kind];
      unfold set_base; cbn [st_bases st_handles st_log st_fault st_io];
      rewrite list_insert_id by (rewrite list_lookup_fmap, Hk; reflexivity); reflexivity.
  Qed.

  (** what the caller sees at p is the FIRST holder's entry: its type, its length, its timestamps *)
  Theorem metadata_of_first_holder (s0 : mstate) (ss1 : list mstate) (s : mstate) (ss2 : list mstate) (p : path) f : p <> [] ->
    s0 !! p = None -> s0 !! whiteout_path topn p = None ->
    Forall (fun s' => s' !! p = None) ss1 -> s !! p = Some f ->
    run bhandler (ovl_metadata topn (lowers 1 (length (ss1 ++ s :: ss2))) p) (nstore (s0 :: ss1 ++ s :: ss2)) =
    (nstore (s0 :: ss1 ++ s :: ss2), Ok (mem_meta f)).
  Proof.
    intros Hp H0 Hm Hnone Hs. unfold ovl_metadata, bind_res. rewrite run_bind.
    rewrite (first_holder_serves s0 ss1 s ss2 p Hp H0 Hm Hnone) by eauto. cbn [fst snd].
    rewrite (metadata_k (s0 :: ss1 ++ s :: ss2) (1 + length ss1) s p), Hs; [reflexivity|].
    cbn [Nat.add]. rewrite lookup_cons. rewrite lookup_app_r by lia. now rewrite Nat.sub_diag.
  Qed.

  (** existence through n layers: in the write layer, or - no marker - in some lower layer *)
  Lemma first_holding_some (k : nat) (ss : list mstate) (p : path) :
    is_Some (first_holding k ss p) <-> Exists (fun s => is_Some (s !! p)) ss.
  Proof.
    revert k. induction ss as [|s ss IH]; intros k; cbn [first_holding].
    - split; [intros [? ?]; discriminate|intros H; inversion H].
    - case_bool_decide as E.
      + split; [intros _; now constructor|eauto].
      + rewrite IH. split; [intros H; now apply Exists_cons_tl|].
        intros H. apply Exists_cons in H as [H|H]; [contradiction|exact H].
  Qed.

  Lemma first_holding_holds (k : nat) (ss : list mstate) (p : path) v q :
    first_holding k ss p = Some (v, q) -> exists i s, v = vk (k + i) /\ q = p /\ ss !! i = Some s /\ is_Some (s !! p).
  Proof.
    revert k. induction ss as [|s ss IH]; intros k; cbn [first_holding]; [discriminate|].
    case_bool_decide as E.
    - intros [= <- <-]. exists 0, s. rewrite Nat.add_0_r. auto.
    - intros H. destruct (IH _ H) as (i & s' & -> & -> & Hi & Hs). exists (S i), s'.
      replace (k + S i) with (S k + i) by lia. auto.
  Qed.

  Theorem exists_layers (s0 : mstate) (ss : list mstate) (p : path) : p <> [] ->
    run bhandler (ovl_exists topn (lowers 1 (length ss)) p) (nstore (s0 :: ss)) =
    (nstore (s0 :: ss),
     Ok (bool_decide (is_Some (s0 !! p)) ||
         (negb (bool_decide (is_Some (s0 !! whiteout_path topn p))) && bool_decide (Exists (fun s => is_Some (s !! p)) ss)))).
  Proof.
    intros Hp. unfold ovl_exists. rewrite run_bind, (read_path_layers s0 ss p Hp).
    destruct (bool_decide (is_Some (s0 !! p))) eqn:E0.
    - cbn [fst snd orb]. rewrite (exists_k (s0 :: ss) 0 s0 p eq_refl), E0. reflexivity.
    - destruct (bool_decide (is_Some (s0 !! whiteout_path topn p))) eqn:Ew; [reflexivity|].
      cbn [orb negb andb]. destruct (first_holding 1 ss p) as [[v q]|] eqn:Ef.
      + destruct (first_holding_holds 1 ss p v q Ef) as (i & s & -> & -> & Hi & Hs). cbn [fst snd].
        rewrite (exists_k (s0 :: ss) (1 + i) s p) by exact Hi.
        rewrite bool_decide_eq_true_2 by exact Hs.
        rewrite bool_decide_eq_true_2; [reflexivity|]. apply first_holding_some with (k := 1). rewrite Ef. eauto.
      + cbn [run fail err_of e_kind]. rewrite bool_decide_eq_false_2; [reflexivity|].
        intros H. apply (first_holding_some 1) in H. rewrite Ef in H. destruct H; discriminate.
  Qed.

  (** ** listings through n layers: the names gathered are those of EVERY layer in which the path is a directory *)
  Lemma isdir_k (bs : list mstate) (k : nat) (s : mstate) (p : path) :
    bs !! k = Some s ->
    run bhandler (vp_is_dir (vk k) p) (nstore bs) = (nstore bs, Ok (bool_decide (is_dir s p))).
  Proof.
    intros Hk. unfold vp_is_dir, bind_res. rewrite run_bind, (exists_k bs k s p Hk).
    destruct (s !! p) as [f|] eqn:E.
    - rewrite bool_decide_eq_true_2 by eauto. cbn [negb]. rewrite run_bind, (metadata_k bs k s p Hk), E. cbn [run mem_meta m_type].
      f_equal. f_equal. apply bool_decide_ext. unfold is_dir. rewrite E. split; [eauto|]. intros (g & [= <-] & Hg). exact Hg.
    - rewrite bool_decide_eq_false_2 by (intros [? ?]; congruence). cbn [negb run].
      f_equal. f_equal. symmetry. apply bool_decide_eq_false. intros (g & Hg & _). congruence.
  Qed.

  Lemma rd_k (bs : list mstate) (k : nat) (s : mstate) (p : path) :
    bs !! k = Some s -> is_dir s p ->
    run bhandler (vp_read_dir (vk k) p) (nstore bs) = (nstore bs, Ok (map (fun n => p ++ [n]) (mem_children s p))).
  Proof.
    intros Hk (f & Hf & Hft). unfold vp_read_dir, labelled, bind_res. cbn [v_impl vk]. rewrite !run_bind. cbn [run bhandler].
    unfold fs_call, nstore. cbn [st_bases]. rewrite list_lookup_fmap, Hk. cbn [fmap option_fmap option_map].
    unfold mem_fs_call. rewrite mem_read_dir, Hf, Hft. cbn [mem_glue fst snd run map_err].
    unfold set_base. cbn [st_bases st_handles st_log st_fault st_io].
    rewrite list_insert_id by (rewrite list_lookup_fmap, Hk; reflexivity). reflexivity.
  Qed.

  Definition add_children (acc : list name) (s : mstate) (p : path) : list name :=
    if bool_decide (is_dir s p)
    then foldl (fun a q => match last q with Some m => add_name m a | None => a end) acc (map (fun n => p ++ [n]) (mem_children s p))
    else acc.

  Lemma gather_layers (pre ss : list mstate) (p : path) (acc : list name) :
    run bhandler (gather (lowers (length pre) (length ss)) p acc) (nstore (pre ++ ss)) =
    (nstore (pre ++ ss), Ok (foldl (fun a s => add_children a s p) acc ss)).
  Proof.
    revert pre acc. induction ss as [|s ss IH]; intros pre acc; cbn [length lowers gather foldl]; [reflexivity|].
    cbn [fst snd app]. unfold bind_res. rewrite run_bind.
    assert (Hk : (pre ++ s :: ss) !! length pre = Some s) by (rewrite lookup_app_r by lia; now rewrite Nat.sub_diag).
    rewrite (isdir_k _ _ s p Hk). unfold add_children at 2. case_bool_decide as Hd.
    - rewrite run_bind, (rd_k _ _ s p Hk Hd).
      specialize (IH (pre ++ [s])). rewrite app_length in IH. cbn [length] in IH.
      rewrite Nat.add_1_r, <- app_assoc in IH. apply IH.
    - specialize (IH (pre ++ [s])). rewrite app_length in IH. cbn [length] in IH.
      rewrite Nat.add_1_r, <- app_assoc in IH. apply IH.
  Qed.

  Lemma elem_of_add_children (acc : list name) (s : mstate) (p : path) n :
    n ∈ add_children acc s p <-> n ∈ acc \/ (is_dir s p /\ is_Some (s !! (p ++ [n]))).
  Proof.
    unfold add_children. case_bool_decide as Hd.
    - rewrite merge_fold, <- mem_children_spec. tauto.
    - tauto.
  Qed.

  Lemma elem_of_gathered (ss : list mstate) (p : path) n : forall acc,
    n ∈ foldl (fun a s => add_children a s p) acc ss <->
    n ∈ acc \/ Exists (fun s => is_dir s p /\ is_Some (s !! (p ++ [n]))) ss.
  Proof.
    induction ss as [|s ss IH]; intros acc; cbn [foldl].
    - split; [auto|]. intros [H|H]; [exact H|inversion H].
    - rewrite IH, elem_of_add_children, Exists_cons. tauto.
  Qed.

  (** all layers (the write layer first): a name is gathered iff some layer in which p is a directory holds it *)
  Theorem gathered_names (s0 : mstate) (ss : list mstate) (p : path) n :
    exists names,
      run bhandler (gather (layers topn (lowers 1 (length ss))) p []) (nstore (s0 :: ss)) = (nstore (s0 :: ss), Ok names) /\
      (n ∈ names <-> Exists (fun s => is_dir s p /\ is_Some (s !! (p ++ [n]))) (s0 :: ss)).
  Proof.
    pose proof (gather_layers [] (s0 :: ss) p []) as H. cbn [length app lowers] in H.
    eexists. split; [exact H|]. rewrite elem_of_gathered, elem_of_nil. tauto.
  Qed.
End Layers.

(** ** bytes: opening a path through n layers hands out the FIRST holder's bytes; the only change anywhere is
    that holder's access time (MemoryFS stamps it) and the new handle *)
Section LayersOpen.
  Variables (lg : list (nat * fscall)) (ft : option (nat * nat)).
  Notation topn := (vk 0, @nil (list N)).

  Lemma open_k (hs : list hstate) (bs : list mstate) (k : nat) (s : mstate) (p : path) f :
    bs !! k = Some s -> s !! p = Some f -> f_type f = File ->
    run bhandler (vp_open_file (vk k) p) (nstore hs lg ft bs) =
    (nstore (hs ++ [HMemReader (f_content f) 0]) lg ft (<[k := <[p := touched f]> s]> bs), Ok (length hs)).
  Proof.
    intros Hk Hf Hft. unfold vp_open_file, labelled. cbn [v_impl vk]. rewrite run_bind. cbn [run bhandler].
    unfold fs_call, nstore. cbn [st_bases]. rewrite list_lookup_fmap, Hk. cbn [fmap option_fmap option_map].
    unfold mem_fs_call. rewrite ms_open_file. cbn [msec_sem]. rewrite Hf, Hft. cbn [mem_glue fst snd].
    unfold alloc_handle, set_base. cbn [st_bases st_handles st_log st_fault st_io run map_err].
    rewrite list_fmap_insert. reflexivity.
  Qed.

  Theorem open_file_first_holder (hs : list hstate) (s0 : mstate) (ss1 : list mstate) (s : mstate) (ss2 : list mstate) (p : path) f :
    p <> [] -> s0 !! p = None -> s0 !! whiteout_path topn p = None ->
    Forall (fun s' => s' !! p = None) ss1 -> s !! p = Some f -> f_type f = File ->
    run bhandler (ovl_impl topn (lowers 1 (length (ss1 ++ s :: ss2))) (COpenFile p)) (nstore hs lg ft (s0 :: ss1 ++ s :: ss2)) =
    (nstore (hs ++ [HMemReader (f_content f) 0]) lg ft (s0 :: ss1 ++ <[p := touched f]> s :: ss2), Ok (length hs)).
  Proof.
    intros Hp H0 Hm Hnone Hs Hft. cbn [ovl_impl]. unfold bind_res. rewrite run_bind.
    rewrite (first_holder_serves hs lg ft s0 ss1 s ss2 p Hp H0 Hm Hnone) by eauto. cbn [fst snd].
    assert (Hk : (s0 :: ss1 ++ s :: ss2) !! (1 + length ss1) = Some s).
    { cbn [Nat.add]. rewrite lookup_cons. rewrite lookup_app_r by lia. now rewrite Nat.sub_diag. }
    rewrite (open_k hs _ _ s p f Hk Hs Hft). f_equal. f_equal.
    change (1 + length ss1) with (S (length ss1)). change (<[S (length ss1) := <[p := touched f]> s]> (s0 :: ss1 ++ s :: ss2))
      with (s0 :: <[length ss1 := <[p := touched f]> s]> (ss1 ++ s :: ss2)). f_equal.
    rewrite insert_app_r_alt by lia. rewrite Nat.sub_diag. reflexivity.
  Qed.
End LayersOpen.
