(** C13 above the base filesystems: no path operation, no adapter and no stacking of adapters
    introduces a panic.  In the model every Rust panic site of the transcribed code is an explicit
    [Panic] outcome; the statements below say that the programs of VfsPath, AltrootFS, OverlayFS and
    the harness wrapper only ever return [Panic] if a call into a base filesystem or a handle
    replied [Panic] - and those never do ([bhandler_np]). *)
From stdpp Require Import list gmap.
From Coq Require Import NArith ZArith Lia.
From VFS Require Import Core.Types Core.Prog Core.Calls Base.MemFS Base.Handles Base.PhysFS Base.Embedded Base.Store
  Layer.VfsPath Layer.Altroot Layer.Overlay Layer.Config
  Proofs.ProgProofs Proofs.Leaves Proofs.HandleProofs Proofs.MemCalls Proofs.MoreMem Proofs.ConfigOk.

Definition np {T} (r : res T) : Prop := match r with Panic => False | _ => True end.

(** what is assumed of the replies: base filesystems and handles do not panic *)
Definition NPb (b : bcall) : brep b -> Prop :=
  match b as b return brep b -> Prop with
  | BFs _ c => fun r => np r
  | BH _ o => fun r => np r
  | BLog _ _ => fun _ => True
  end.

Notation NP m := (leaves NPb (@np _) m).

Lemma np_try {T U} (m : bprog (res T)) (f : T -> bprog (res U)) :
  NP m -> (forall x, NP (f x)) -> NP (bind_res m f).
Proof.
  intros Hm Hf. eapply leaves_bind_res with (Q := fun _ => True); [|intros; apply Hf].
  eapply leaves_weaken; [|exact Hm]. intros [x|e|]; cbn; auto.
Qed.

Lemma np_let {T U} (Q : U -> Prop) (m : bprog (res T)) (k : res T -> bprog U) :
  NP m -> (forall r, np r -> leaves NPb Q (k r)) -> leaves NPb Q (bind m k).
Proof. intros Hm Hk. eapply leaves_bind; [exact Hm|exact Hk]. Qed.

Lemma np_labelled {T} (m : bprog (res T)) p : NP m -> NP (labelled m p).
Proof.
  intros Hm. unfold labelled. eapply leaves_bind; [exact Hm|].
  intros [x|e|] H; constructor; cbn; auto.
Qed.

Lemma np_hcall h o : NP (Call (BH h o) Ret).
Proof. constructor. intros x Hx. constructor. exact Hx. Qed.

Lemma np_fscall i c : NP (Call (BFs i c) Ret).
Proof. constructor. intros x Hx. constructor. exact Hx. Qed.

Ltac np_step :=
  lazymatch goal with
  | |- leaves NPb _ (Ret _) => constructor; cbn; try exact I
  | |- leaves NPb _ (ret_err _ _) => constructor; exact I
  | |- leaves NPb _ (Call (BH _ _) Ret) => apply np_hcall
  | |- leaves NPb _ (bind_res _ _) => apply np_try; [|intros ?]
  | |- leaves NPb _ (labelled _ _) => apply np_labelled
  | |- leaves NPb _ (relabel _ _) => apply np_labelled
  | |- leaves NPb _ (bind _ _) => apply np_let; [|let H := fresh "Hnp" in intros [?|?|] H; [| |destruct H]]
  | |- leaves NPb _ (if ?b then _ else _) => destruct b
  | |- leaves NPb _ (match ?x with _ => _ end) => destruct x
  end.
Ltac np_auto := repeat np_step.

(** ** VfsPath *)
Section VfsPathNP.
  Variable v : vfs.
  Hypothesis Hv : forall c, NP (v_impl v c).

  Lemma np_exists p : NP (vp_exists v p).  Proof. exact (Hv (CExists p)). Qed.
  Lemma np_metadata p : NP (vp_metadata v p).  Proof. apply np_labelled. exact (Hv (CMetadata p)). Qed.
  Lemma np_open_file p : NP (vp_open_file v p).  Proof. apply np_labelled. exact (Hv (COpenFile p)). Qed.
  Lemma np_append_file p : NP (vp_append_file v p).  Proof. apply np_labelled. exact (Hv (CAppendFile p)). Qed.
  Lemma np_remove_file p : NP (vp_remove_file v p).  Proof. apply np_labelled. exact (Hv (CRemoveFile p)). Qed.
  Lemma np_remove_dir p : NP (vp_remove_dir v p).  Proof. apply np_labelled. exact (Hv (CRemoveDir p)). Qed.
  Lemma np_set_ctime p t : NP (vp_set_ctime v p t).  Proof. apply np_labelled. exact (Hv (CSetCTime p t)). Qed.
  Lemma np_set_mtime p t : NP (vp_set_mtime v p t).  Proof. apply np_labelled. exact (Hv (CSetMTime p t)). Qed.
  Lemma np_set_atime p t : NP (vp_set_atime v p t).  Proof. apply np_labelled. exact (Hv (CSetATime p t)). Qed.

  Lemma np_read_dir p : NP (vp_read_dir v p).
  Proof. unfold vp_read_dir. np_step; [apply np_labelled; exact (Hv (CReadDir p))|]. np_auto. Qed.

  Lemma np_get_parent p : NP (vp_get_parent v p).
  Proof. unfold vp_get_parent. np_step; [apply np_exists|]. np_step; [np_auto|]. np_step; [apply np_metadata|]. np_auto. Qed.

  Lemma np_create_dir p : NP (vp_create_dir v p).
  Proof. unfold vp_create_dir. np_step; [apply np_get_parent|]. apply np_labelled. exact (Hv (CCreateDir p)). Qed.
  Lemma np_create_file p : NP (vp_create_file v p).
  Proof. unfold vp_create_file. np_step; [apply np_get_parent|]. apply np_labelled. exact (Hv (CCreateFile p)). Qed.

  Lemma np_create_dirs ds : NP (create_dirs v ds).
  Proof.
    induction ds as [|d ds IH]; cbn [create_dirs]; [np_auto|].
    apply np_let; [exact (Hv (CCreateDir d))|]. intros [u|e|] Hnp; [exact IH| |destruct Hnp].
    destruct (e_kind e); try (constructor; exact I). exact IH.
  Qed.
  Lemma np_create_dir_all p : NP (vp_create_dir_all v p).
  Proof. apply np_create_dirs. Qed.

  Lemma np_is_file p : NP (vp_is_file v p).
  Proof. unfold vp_is_file. np_step; [apply np_exists|]. np_step; [np_auto|]. np_step; [apply np_metadata|]. np_auto. Qed.
  Lemma np_is_dir p : NP (vp_is_dir v p).
  Proof. unfold vp_is_dir. np_step; [apply np_exists|]. np_step; [np_auto|]. np_step; [apply np_metadata|]. np_auto. Qed.

  Lemma np_remove_dir_all fuel : forall p, NP (vp_remove_dir_all v fuel p).
  Proof.
    induction fuel as [|fuel IH]; intros p; cbn [vp_remove_dir_all]; [constructor; exact I|].
    np_step; [apply np_exists|]. np_step; [np_auto|].
    np_step; [apply np_read_dir|]. np_step; [|apply np_remove_dir].
    match goal with |- leaves _ _ (?loop ?l) => induction l as [|child cs IHcs] end; [np_auto|].
    np_step; [apply np_metadata|]. np_step; [|exact IHcs].
    np_step; [apply np_remove_file|apply IH].
  Qed.

  (** walk_dir: neither the iterator's construction nor any item is a panic *)
  Definition np_item (iw : option (res path) * walker) : Prop :=
    match fst iw with Some Panic => False | _ => True end.

  Lemma np_walk_dir p : NP (vp_walk_dir v p).
  Proof. unfold vp_walk_dir. np_step; [apply np_read_dir|]. np_auto. Qed.

  Lemma np_walk_find todo : forall inner, leaves NPb np_item (walk_find v todo inner).
  Proof.
    induction todo as [|d todo IH]; intros inner; destruct inner as [|x inner]; cbn [walk_find];
      try (constructor; exact I).
    apply np_let; [apply np_read_dir|]. intros [ch|e|] Hnp; [apply IH|constructor; exact I|destruct Hnp].
  Qed.

  Lemma np_walk_next w : leaves NPb np_item (walk_next v w).
  Proof.
    unfold walk_next. eapply leaves_bind; [apply np_walk_find|].
    intros [[[x|e|]|] w'] Hi; cbn [fst snd] in *; try (constructor; exact I); [|destruct Hi].
    apply np_let; [apply np_metadata|]. intros [md|e|] Hnp; [|constructor; exact I|destruct Hnp].
    destruct (m_type md); constructor; exact I.
  Qed.

  Definition np_items (r : res (list (res path))) : Prop :=
    match r with Ok l => Forall np l | Err _ => True | Panic => False end.

  Lemma np_walk_collect fuel : forall w acc, Forall np acc -> leaves NPb np_items (walk_collect v fuel w acc).
  Proof.
    induction fuel as [|fuel IH]; intros w acc Hacc; cbn [walk_collect]; [constructor; exact I|].
    eapply leaves_bind; [apply np_walk_next|].
    intros [[it|] w'] Hi; cbn [fst snd] in *.
    - apply IH. constructor; [|exact Hacc]. destruct it; cbn in *; auto.
    - constructor. cbn. now apply Forall_reverse.
  Qed.
End VfsPathNP.

(** ** transfers between two instances *)
Section TransferNP.
  Variable utf8_valid : bytes -> bool.
  Variables v v' : vfs.
  Hypothesis Hv : forall c, NP (v_impl v c).
  Hypothesis Hv' : forall c, NP (v_impl v' c).

  Lemma np_read_to_string p : NP (vp_read_to_string utf8_valid v p).
  Proof.
    unfold vp_read_to_string. np_step; [now apply np_metadata|]. np_step; [|np_auto].
    np_step; [now apply np_open_file|].
    apply np_let; [apply np_hcall|]. intros r Hr.
    apply np_let; [apply np_hcall|]. intros _ _.
    destruct r as [bs|e|]; [destruct (utf8_valid bs)| |destruct Hr]; constructor; exact I.
  Qed.

  Lemma np_stream_copy p p' after : NP after -> NP (stream_copy v p v' p' after).
  Proof.
    intros Ha. unfold stream_copy. np_step; [now apply np_open_file|].
    apply np_let; [now apply np_create_file|]. intros [dst|e|] Hd; [| |destruct Hd].
    - apply np_let; [apply np_hcall|]. intros rc Hrc.
      eapply leaves_bind with (Q := @np _).
      { destruct rc as [n|e|]; [exact Ha|constructor; exact I|destruct Hrc]. }
      intros ra Hra. apply np_let; [apply np_hcall|]. intros _ _.
      apply np_let; [apply np_hcall|]. intros _ _. constructor. exact Hra.
    - apply np_let; [apply np_hcall|]. intros _ _. constructor. exact I.
  Qed.

  Lemma np_fast_path (c : fscall) slow (ev : frep c -> res unit) :
    (forall r, np r -> np (ev r)) -> NP slow -> NP (fast_path v v' c slow ev).
  Proof.
    intros Hev Hs. unfold fast_path. destruct (Nat.eqb _ _); [|exact Hs].
    apply np_let; [exact (Hv c)|]. intros r Hr. specialize (Hev r Hr).
    destruct (ev r) as [u|e|]; [constructor; exact I| |destruct Hev].
    destruct (e_kind e); try (constructor; exact I). exact Hs.
  Qed.

  Lemma np_copy_file p p' : NP (vp_copy_file v p v' p').
  Proof.
    unfold vp_copy_file. apply np_labelled. np_step; [now apply np_exists|]. np_step; [np_auto|].
    apply np_fast_path; [auto|]. apply np_stream_copy. constructor; exact I.
  Qed.

  Lemma np_move_file p p' : NP (vp_move_file v p v' p').
  Proof.
    unfold vp_move_file. apply np_labelled. np_step; [now apply np_exists|]. np_step; [np_auto|].
    apply np_fast_path; [auto|]. apply np_stream_copy. now apply np_remove_file.
  Qed.

  Lemma np_copy_entries fuel p p' : forall w n, NP (copy_entries fuel v p v' p' w n).
  Proof.
    induction fuel as [|fuel IH]; intros w n; cbn [copy_entries]; [constructor; exact I|].
    eapply leaves_bind; [now apply np_walk_next|].
    intros [[[x|e|]|] w'] Hi; cbn [fst snd] in *; try (constructor; exact I); [|destruct Hi].
    np_step; [now apply np_metadata|]. np_step; [|apply IH].
    np_step; [apply np_copy_file|now apply np_create_dir].
  Qed.

  Lemma np_copy_dir fuel p p' : NP (vp_copy_dir fuel v p v' p').
  Proof.
    unfold vp_copy_dir. apply np_labelled. np_step; [now apply np_exists|]. np_step; [np_auto|].
    np_step; [now apply np_create_dir|]. np_step; [now apply np_walk_dir|]. apply np_copy_entries.
  Qed.

  Lemma np_move_dir fuel p p' : NP (vp_move_dir fuel v p v' p').
  Proof.
    unfold vp_move_dir. apply np_labelled. np_step; [now apply np_exists|]. np_step; [np_auto|].
    apply np_fast_path; [auto|].
    np_step; [now apply np_create_dir|]. np_step; [now apply np_walk_dir|].
    np_step; [apply np_copy_entries|]. now apply np_remove_dir_all.
  Qed.
End TransferNP.

(** ** AltrootFS *)
Lemma np_alt_impl (u : vfs) root : (forall c, NP (v_impl u c)) -> forall c, NP (alt_impl u root c).
Proof.
  intros Hu c. destruct c; cbn [alt_impl].
  - np_step; [now apply np_read_dir|]. np_auto.
  - now apply np_create_dir.
  - now apply np_open_file.
  - now apply np_create_file.
  - now apply np_append_file.
  - now apply np_metadata.
  - now apply np_set_ctime.
  - now apply np_set_mtime.
  - now apply np_set_atime.
  - now apply np_exists.
  - now apply np_remove_file.
  - now apply np_remove_dir.
  - destruct d; [constructor; exact I|]. now apply np_copy_file.
  - constructor; exact I.
  - constructor; exact I.
Qed.

(** ** OverlayFS *)
Section OverlayNP.
  Variable top : vfs * path.
  Variable lower : list (vfs * path).
  Hypothesis Hall : Forall (fun l => forall c, NP (v_impl (fst l) c)) (layers top lower).

  Lemma np_top : forall c, NP (v_impl (fst top) c).
  Proof. now inversion Hall. Qed.

  Definition np_layer (r : res (option (vfs * path))) : Prop :=
    match r with
    | Ok (Some lp) => forall c, NP (v_impl (fst lp) c)
    | Ok None | Err _ => True
    | Panic => False
    end.
  Definition np_lp (r : res (vfs * path)) : Prop :=
    match r with Ok lp => forall c, NP (v_impl (fst lp) c) | Err _ => True | Panic => False end.

  Lemma np_first_layer ls p :
    Forall (fun l => forall c, NP (v_impl (fst l) c)) ls -> leaves NPb np_layer (first_layer ls p).
  Proof.
    induction 1 as [|l ls Hl Hls IH]; cbn [first_layer]; [constructor; exact I|].
    eapply leaves_bind; [exact (np_exists (fst l) Hl (snd l ++ p))|].
    intros [ex|e|] Hnp; [|constructor; exact I|destruct Hnp].
    destruct ex; [constructor; exact Hl|exact IH].
  Qed.

  Lemma np_lower : Forall (fun l => forall c, NP (v_impl (fst l) c)) lower.
  Proof. now inversion Hall. Qed.

  Lemma np_read_path p : leaves NPb np_lp (read_path top lower p).
  Proof.
    unfold read_path. destruct p as [|x p']; [constructor; exact np_top|]. set (p := x :: p').
    eapply leaves_bind; [exact (np_exists (fst top) np_top _)|].
    intros [up|e|] Hnp; [|constructor; exact I|destruct Hnp].
    destruct up; [constructor; exact np_top|].
    eapply leaves_bind; [exact (np_exists (fst top) np_top _)|].
    intros [wo|e|] Hnp2; [|constructor; exact I|destruct Hnp2].
    destruct wo; [constructor; exact I|].
    eapply leaves_bind; [apply np_first_layer, np_lower|].
    intros [[lp|]|e|] Hl; [constructor; exact Hl|constructor; exact I|constructor; exact I|destruct Hl].
  Qed.

  (** continue with the layer that serves the path *)
  Lemma np_with_read_path {T} p (f : vfs * path -> bprog (res T)) :
    (forall lp, (forall c, NP (v_impl (fst lp) c)) -> NP (f lp)) -> NP (bind_res (read_path top lower p) f).
  Proof.
    intros Hf. unfold bind_res. eapply leaves_bind; [apply np_read_path|].
    intros [lp|e|] Hl; [now apply Hf|constructor; exact I|destruct Hl].
  Qed.

  Lemma np_ovl_exists p : NP (ovl_exists top lower p).
  Proof.
    unfold ovl_exists.
    eapply leaves_bind; [apply np_read_path|].
    intros [lp|e|] Hl; [exact (np_exists (fst lp) Hl _)| |destruct Hl].
    destruct (e_kind e); constructor; exact I.
  Qed.

  Lemma np_ovl_metadata p : NP (ovl_metadata top lower p).
  Proof. unfold ovl_metadata. apply np_with_read_path. intros lp Hl. now apply np_metadata. Qed.

  Lemma np_gather ls p : Forall (fun l => forall c, NP (v_impl (fst l) c)) ls -> forall acc, NP (gather ls p acc).
  Proof.
    induction 1 as [|l ls Hl Hls IH]; intros acc; cbn [gather]; [constructor; exact I|].
    np_step; [now apply np_is_dir|]. np_step; [|apply IH].
    np_step; [now apply np_read_dir|]. apply IH.
  Qed.

  Lemma np_ovl_read_dir p : NP (ovl_read_dir top lower p).
  Proof.
    unfold ovl_read_dir. apply np_with_read_path. intros lp Hl.
    np_step; [now apply np_metadata|]. np_step; [constructor; exact I|].
    np_step; [apply np_gather, Hall|].
    np_step; [exact (np_exists (fst top) np_top _)|].
    np_step; [|constructor; exact I].
    np_step; [|constructor; exact I].
    np_step; [apply (np_read_dir (fst top) np_top)|]. constructor; exact I.
  Qed.

  Lemma np_ensure_has_parent p : NP (ovl_ensure_has_parent top lower p).
  Proof.
    unfold ovl_ensure_has_parent. destruct p as [|x p']; [constructor; exact I|].
    np_step; [apply np_ovl_exists|]. np_step; [|constructor; exact I].
    np_step; [apply np_ovl_metadata|]. np_step; [constructor; exact I|].
    np_step; [apply (np_create_dir_all (fst top) np_top)|]. constructor; exact I.
  Qed.

  Lemma np_clear_whiteout p : NP (clear_whiteout top p).
  Proof.
    unfold clear_whiteout. np_step; [exact (np_exists (fst top) np_top _)|].
    np_step; [apply (np_remove_file (fst top) np_top)|constructor; exact I].
  Qed.

  Lemma np_set_whiteout p : NP (set_whiteout top p).
  Proof.
    unfold set_whiteout. np_step; [apply (np_create_dir_all (fst top) np_top)|].
    np_step; [apply (np_create_file (fst top) np_top)|].
    apply np_let; [apply np_hcall|]. intros _ _. constructor; exact I.
  Qed.

  Theorem np_ovl_impl c : NP (ovl_impl top lower c).
  Proof.
    destruct c; cbn [ovl_impl].
    - apply np_ovl_read_dir.
    - np_step; [apply np_ensure_has_parent|]. np_step; [apply np_ovl_exists|]. np_step.
      + np_step; [apply np_ovl_metadata|]. constructor; exact I.
      + np_step; [apply (np_create_dir (fst top) np_top)|]. apply np_clear_whiteout.
    - apply np_with_read_path. intros lp Hl. now apply np_open_file.
    - np_step; [apply np_ensure_has_parent|]. np_step; [apply np_ovl_exists|].
      np_step.
      { np_step; [|constructor; exact I]. np_step; [apply np_ovl_metadata|]. constructor; exact I. }
      np_step; [constructor; exact I|].
      np_step; [apply (np_create_file (fst top) np_top)|].
      apply np_let; [apply np_clear_whiteout|]. intros [u|e|] Hr; [constructor; exact I| |destruct Hr].
      apply np_let; [apply np_hcall|]. intros _ _. constructor; exact I.
    - np_step; [exact (np_exists (fst top) np_top _)|].
      np_step; [|apply (np_append_file (fst top) np_top)].
      np_step; [constructor; exact I|].
      np_step; [apply np_ensure_has_parent|].
      apply np_with_read_path. intros lp Hl. apply np_copy_file; [exact Hl|exact np_top].
    - apply np_ovl_metadata.
    - apply (np_set_ctime (fst top) np_top).
    - apply (np_set_mtime (fst top) np_top).
    - apply (np_set_atime (fst top) np_top).
    - apply np_ovl_exists.
    - apply np_with_read_path. intros lp Hl.
      np_step; [exact (np_exists (fst top) np_top _)|].
      np_step; [|apply np_set_whiteout].
      np_step; [apply (np_remove_file (fst top) np_top)|constructor; exact I].
    - apply np_with_read_path. intros lp Hl.
      np_step; [apply np_ovl_read_dir|]. np_step; [|constructor; exact I].
      np_step; [exact (np_exists (fst top) np_top _)|].
      np_step; [|apply np_set_whiteout].
      np_step; [apply (np_remove_dir (fst top) np_top)|constructor; exact I].
    - constructor; exact I.
    - constructor; exact I.
    - constructor; exact I.
  Qed.
End OverlayNP.

(** ** every stacking *)
Theorem np_interp (f : fsref) : forall c, NP (interp f c).
Proof.
  induction f as [k i|k g r IH|k t lower IHt IHl|k g IH] using fsref_ind'; intros c; cbn [interp].
  - apply np_fscall.
  - apply np_alt_impl. exact IH.
  - apply np_ovl_impl. constructor.
    + destruct t as [g r]. exact IHt.
    + apply Forall_fmap. eapply Forall_impl; [exact IHl|]. intros [g r] H. exact H.
  - unfold wrap_impl. constructor. intros inject _. cbn. destruct inject; [constructor; exact I|apply IH].
Qed.

Lemma np_vfs_of f : forall c, NP (v_impl (vfs_of f) c).
Proof. exact (np_interp f). Qed.

(** ** the base level never replies [Panic] *)
Definition reader_ok (x : hstate) : Prop :=
  match x with HMemReader _ pos => (0 <= pos)%Z | _ => True end.
Definition store_ok (st : store) : Prop := Forall reader_ok (st_handles st).


Lemma store_ok_set st h x : store_ok st -> reader_ok x -> store_ok (set_handle st h x).
Proof.
  unfold store_ok, set_handle. cbn. intros H Hx. apply Forall_insert; assumption.
Qed.
Lemma store_ok_alloc st x : store_ok st -> reader_ok x -> store_ok (fst (alloc_handle st x)).
Proof. unfold store_ok, alloc_handle. cbn. intros H Hx. apply Forall_app. split; [exact H|constructor; [exact Hx|constructor]]. Qed.
Lemma store_ok_set_base st i b : store_ok st -> store_ok (set_base st i b).
Proof. exact id. Qed.

Lemma store_ok_lookup st h x : store_ok st -> st_handles st !! h = Some x -> reader_ok x.
Proof. unfold store_ok. intros H Hl. exact (Forall_lookup_1 _ _ _ _ H Hl). Qed.

Lemma mem_reader_read_np content pos n : (0 <= pos)%Z ->
  np (fst (mem_reader_read content pos n)) /\ (0 <= snd (mem_reader_read content pos n))%Z.
Proof.
  intros Hp. unfold mem_reader_read, mem_reader_len.
  set (amt := Z.min (Z.of_N n) (Z.max 0 (Z.of_nat (length content) - pos))).
  destruct (amt =? 0)%Z eqn:E0; [cbn; auto|].
  destruct (amt =? 1)%Z eqn:E1.
  - assert (Hlt : (Z.to_nat pos < length content)%nat) by lia.
    destruct (lookup_lt_is_Some_2 content (Z.to_nat pos) Hlt) as [b Hb]. rewrite Hb. cbn. split; [exact I|lia].
  - destruct (Nat.leb_spec (Z.to_nat (pos + amt)) (length content)) as [_|Hc]; [cbn; split; [exact I|lia]|lia].
Qed.

Lemma mem_reader_seek_np content pos sf : (0 <= pos)%Z ->
  (match sf with SeekStart o => (0 <= o)%Z | _ => True end) ->
  np (fst (mem_reader_seek content pos sf)) /\ (0 <= snd (mem_reader_seek content pos sf))%Z.
Proof.
  intros Hp Hsf. destruct sf as [o|o|o]; cbn; [auto| |].
  - destruct (Z.leb_spec 0 (pos + o)), (Z.leb_spec (pos + o) u64_max); cbn; auto.
  - destruct (Z.leb_spec 0 (Z.of_nat (length content) + o)), (Z.leb_spec (Z.of_nat (length content) + o) u64_max); cbn; auto.
Qed.

Lemma put_ok st h x data st' : store_ok st -> put st h x data = Some st' -> store_ok st'.
Proof.
  intros Hst. destruct x; cbn; try discriminate.
  - destruct data; [intros [= <-]; exact Hst|].
    destruct (cursor_write buf pos (n :: data)) as [buf' pos']. intros [= <-]. apply store_ok_set; [exact Hst|exact I].
  - destruct data; [intros [= <-]; exact Hst|].
    intros [= <-]. apply store_ok_set; [|exact I].
    unfold phys_set_content. destruct (st_bases st !! base) as [[| |]|]; exact Hst.
Qed.

Lemma drain_ok st x out x' : reader_ok x -> drain st x = Some (out, x') -> reader_ok x'.
Proof. destruct x; cbn; try discriminate; intros Hx [= <- <-]; cbn in *; try exact I. lia. Qed.

Lemma mem_publish_ok st i d b : store_ok st -> store_ok (mem_publish st i d b).
Proof. unfold mem_publish. destruct (st_bases st !! i) as [[| |]|]; intros H; exact H. Qed.

Ltac fin_np Hst :=
  cbn [fst snd]; split;
  [exact I
  |first [exact Hst
         |unfold store_ok; cbn; apply Forall_app; split;
          [exact Hst|constructor; [cbn; first [exact I|lia]|constructor]]]].

(** every base call, on every store reachable from the initial one: the reply is not a panic and
    the invariant on reader positions is kept *)
Theorem bhandler_np (b : bcall) (st : store) :
  store_ok st -> NPb b (snd (bhandler b st)) /\ store_ok (fst (bhandler b st)).
Proof.
  intros Hst. destruct b as [i c|h o|id c]; cbn [bhandler NPb].
  - (* trait call on a base filesystem *)
    unfold fs_call. destruct (st_bases st !! i) as [[s|s|s]|]; [| | |cbn; auto].
    + unfold mem_fs_call. pose proof (mem_step_no_panic c s) as Hnp.
      destruct (mem_step c s) as [s' r]. cbn [snd] in Hnp.
      destruct c; cbn [mem_glue]; (destruct r as [x|e|]; [| |exfalso; apply Hnp; reflexivity]);
        unfold alloc_handle; fin_np Hst.
    + unfold phys_fs_call. pose proof (phys_no_panic s c) as Hnp.
      destruct (phys_step c s) as [s' r]. cbn [snd] in Hnp.
      destruct c; (destruct r as [x|e|]; [| |exfalso; apply Hnp; reflexivity]);
        unfold alloc_handle; fin_np Hst.
    + unfold emb_fs_call. pose proof (emb_no_panic s c) as Hnp.
      destruct c; (destruct (emb_step _ s) as [x|e|]; [| |exfalso; apply Hnp; reflexivity]);
        unfold alloc_handle; fin_np Hst.
  - (* handle operation *)
    destruct (handle_op_cases h o st) as [->| ->]; [cbn; auto|].
    unfold handle_op0. destruct (st_handles st !! h) as [x|] eqn:Ex; [|cbn; auto].
    pose proof (store_ok_lookup st h x Hst Ex) as Hx.
    destruct o as [n|sf|data| | |dst|].
    + destruct x; cbn; auto.
      * cbn in Hx. destruct (mem_reader_read_np content pos n Hx) as [H1 H2].
        destruct (mem_reader_read content pos n) as [r pos']. cbn in *. split; [exact H1|]. now apply store_ok_set.
      * split; [exact I|]. now apply store_ok_set.
      * split; [exact I|]. now apply store_ok_set.
    + destruct (match sf with SeekStart o => (o <? 0)%Z | _ => false end) eqn:Et; [cbn; auto|].
      assert (Hsf : match sf with SeekStart o => (0 <= o)%Z | _ => True end).
      { destruct sf; auto. apply Z.ltb_ge in Et. exact Et. }
      destruct x; cbn; auto.
      * cbn in Hx. destruct (mem_reader_seek_np content pos sf Hx Hsf) as [H1 H2].
        destruct (mem_reader_seek content pos sf) as [r pos']. cbn in *. split; [exact H1|]. now apply store_ok_set.
      * destruct (cursor_seek _ pos sf); cbn; auto. split; [exact I|]. now apply store_ok_set.
      * destruct (cursor_seek _ pos sf); cbn; auto. split; [exact I|]. now apply store_ok_set.
      * destruct (cursor_seek _ pos sf) as [n|]; cbn; auto. destruct (n <=? i64_max)%Z; cbn; auto.
        split; [exact I|]. now apply store_ok_set.
      * destruct (cursor_seek _ pos sf) as [n|]; cbn; auto. destruct (n <=? i64_max)%Z; cbn; auto.
        split; [exact I|]. now apply store_ok_set.
    + destruct (write_too_large x data); [cbn; auto|].
      destruct (put st h x data) as [st'|] eqn:Ep; cbn; auto. split; [exact I|]. eapply put_ok; eauto.
    + destruct x; cbn; auto. split; [exact I|]. now apply mem_publish_ok.
    + destruct x; cbn; auto; split; try exact I; try (apply store_ok_set; [|exact I]); try exact Hst.
      now apply mem_publish_ok.
    + destruct (drain st x) as [[out x']|] eqn:Ed; [|cbn; auto].
      destruct (st_handles st !! dst) as [y|] eqn:Ey; [|cbn; auto].
      destruct (put (set_handle st h x') dst y out) as [st2|] eqn:Ep; cbn; auto.
      split; [exact I|]. eapply put_ok; [|exact Ep]. apply store_ok_set; [exact Hst|]. eapply drain_ok; eauto.
    + destruct (drain st x) as [[out x']|] eqn:Ed; cbn; auto.
      split; [exact I|]. apply store_ok_set; [exact Hst|]. eapply drain_ok; eauto.
  - (* the harness wrapper's bookkeeping *)
    split; [exact I|]. unfold log_call.
    destruct (st_fault st) as [[fid k]|]; [destruct (Nat.eqb fid id); [destruct k|]|]; exact Hst.
Qed.

Lemma store_ok_init bases : store_ok (mkStore bases [] [] None IoOff).
Proof. constructor. Qed.

(** a program whose only source of panics are the replies, run on the real base handler *)
Lemma np_run {R} (Q : R -> Prop) (m : bprog R) :
  leaves NPb Q m -> forall st, store_ok st -> Q (snd (run bhandler m st)) /\ store_ok (fst (run bhandler m st)).
Proof.
  induction 1 as [r Hr|b k Hk IH]; intros st Hst; cbn [run]; [auto|].
  destruct (bhandler_np b st Hst) as [H1 H2]. destruct (bhandler b st) as [st' x]. cbn [fst snd] in *.
  now apply IH.
Qed.

(** and over whole histories: any sequence of programs, each without panics of its own *)
Lemma np_runs {R} (ms : list (bprog (res R))) :
  Forall (fun m => NP m) ms -> forall st, store_ok st ->
  Forall (fun r => np r) (fst (foldl (fun acc m => let '(outs, st) := acc in
                                           let '(st', r) := run bhandler m st in (outs ++ [r], st')) ([], st) ms)).
Proof.
  intros Hms. assert (Hgen : forall st outs, store_ok st -> Forall (fun r => np r) outs ->
    Forall (fun r => np r) (fst (foldl (fun acc m => let '(outs, st) := acc in
                                           let '(st', r) := run bhandler m st in (outs ++ [r], st')) (outs, st) ms))).
  { induction Hms as [|m ms Hm Hms IH]; intros st outs Hst Houts; cbn [foldl fst]; [exact Houts|].
    destruct (np_run _ m Hm st Hst) as [H1 H2]. destruct (run bhandler m st) as [st' r]. cbn [fst snd] in *.
    apply IH; [exact H2|]. apply Forall_app. split; [exact Houts|constructor; [exact H1|constructor]]. }
  intros st Hst. apply Hgen; [exact Hst|constructor].
Qed.
