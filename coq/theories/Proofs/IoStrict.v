(** C20: an I/O failure below is an I/O failure above.

    [io b x] says that the reply [x] to the base call [b] is an underlying failure: a trait call on a
    base filesystem that answered with an I/O error, a read / write / flush on a handle that answered
    with an I/O error, or the harness wrapper deciding to inject its fault.  A program is *strict* if on every path through its tree on which such a reply occurs -
    whatever all the other replies are - the value it returns is an I/O error.  The predicate is
    compositional ([strict_try], [strict_let]) and closed under every adapter, so it holds of every
    trait call of every stacking and of every operation of the path API on top. *)
From stdpp Require Import list gmap.
From Coq Require Import NArith ZArith Lia.
From VFS Require Import Core.Types Core.Prog Core.Calls Base.MemFS Base.Handles Base.PhysFS Base.Embedded Base.Store
  Layer.VfsPath Layer.Altroot Layer.Overlay Layer.Config
  Proofs.ProgProofs Proofs.Leaves Proofs.ConfigOk.

Definition ioe {T} (r : res T) : Prop := match r with Err e => e_kind e = EIo | _ => False end.

Definition io (b : bcall) : brep b -> Prop :=
  match b as b return brep b -> Prop with
  | BFs _ c => fun r => ioe r
  | BH _ o => fun r => io_hit o = true /\ ioe r
  | BLog _ _ => fun inject => inject = true
  end.

(** [tr seen Q m]: on every path through [m], [Q] holds of (has an underlying failure been seen,
    the value returned) *)
Inductive tr {R} (Q : Prop -> R -> Prop) : Prop -> bprog R -> Prop :=
| T_ret (seen : Prop) (r : R) : Q seen r -> tr Q seen (Ret r)
| T_call (seen : Prop) (b : bcall) (k : brep b -> bprog R) :
    (forall x, tr Q (seen \/ io b x) (k x)) -> tr Q seen (Call b k).

Lemma tr_bind {R T} (Q : Prop -> R -> Prop) (Q' : Prop -> T -> Prop) (m : bprog R) (f : R -> bprog T) seen :
  tr Q seen m -> (forall s r, Q s r -> tr Q' s (f r)) -> tr Q' seen (bind m f).
Proof.
  intros Hm Hf. induction Hm as [seen r Hr|seen b k Hk IH]; cbn [bind]; [now apply Hf|].
  constructor. intros x. apply IH.
Qed.

Lemma tr_weaken {R} (Q Q' : Prop -> R -> Prop) (m : bprog R) seen :
  (forall s r, Q s r -> Q' s r) -> tr Q seen m -> tr Q' seen m.
Proof. intros H. induction 1; constructor; auto. Qed.

Lemma tr_seen_iff {R} (Q : Prop -> R -> Prop) (m : bprog R) (s s' : Prop) :
  (forall a b r, (a <-> b) -> Q a r -> Q b r) -> (s <-> s') -> tr Q s m -> tr Q s' m.
Proof.
  intros HQ Hs Hm. revert s' Hs. induction Hm as [seen r Hr|seen b k Hk IH]; intros s' Hs.
  - constructor. eapply HQ; eauto.
  - constructor. intros x. apply IH. tauto.
Qed.

(** a component: either nothing new was seen inside it, or it returns an I/O error *)
Definition post {T} (seen : Prop) : Prop -> res T -> Prop :=
  fun seen' r => (seen' <-> seen) \/ (seen' /\ ioe r).
Definition strict {T} (m : bprog (res T)) : Prop := forall seen, tr (post seen) seen m.

Lemma post_iff {T} seen a b (r : res T) : (a <-> b) -> post seen a r -> post seen b r.
Proof. unfold post. tauto. Qed.

Lemma strict_ret {T} (r : res T) : strict (Ret r).
Proof. intros seen. constructor. left. tauto. Qed.

Lemma strict_try {T U} (m : bprog (res T)) (f : T -> bprog (res U)) :
  strict m -> (forall x, strict (f x)) -> strict (bind_res m f).
Proof.
  intros Hm Hf seen. unfold bind_res. eapply tr_bind; [apply Hm|].
  intros s r [Hs|[Hs Hio]].
  - destruct r as [x|e|].
    + eapply tr_seen_iff; [intros; eapply post_iff; eauto| |apply Hf]. tauto.
    + constructor. left. exact Hs.
    + constructor. left. exact Hs.
  - destruct r as [x|e|]; [destruct Hio| |destruct Hio]. constructor. right. split; [exact Hs|exact Hio].
Qed.

(** all leaves are I/O errors *)
Definition all_ioe {T} (m : bprog (res T)) : Prop := leaves (fun _ _ => True) (fun r => ioe r) m.

Lemma tr_of_all_ioe {T} (m : bprog (res T)) (seen0 seen : Prop) :
  seen -> all_ioe m -> tr (post seen0) seen m.
Proof.
  intros Hs Hm. revert seen Hs. induction Hm as [r Hr|b k Hk IH]; intros seen Hs.
  - constructor. right. auto.
  - constructor. intros x. apply IH; auto.
Qed.

(** a continuation that inspects the result itself: it must be strict for every result, and turn an
    I/O error into an I/O error *)
Lemma strict_let {T U} (m : bprog (res T)) (k : res T -> bprog (res U)) :
  strict m -> (forall r, strict (k r)) -> (forall r, ioe r -> all_ioe (k r)) -> strict (bind m k).
Proof.
  intros Hm Hk Hio seen. eapply tr_bind; [apply Hm|].
  intros s r [Hs|[Hs Hr]].
  - eapply tr_seen_iff; [intros; eapply post_iff; eauto| |apply Hk]. tauto.
  - apply tr_of_all_ioe; [exact Hs|]. now apply Hio.
Qed.

(** a call whose reply is ignored as a value (dropping a handle) *)
Lemma strict_then_h {U} h o (k : bprog (res U)) :
  io_hit o = false -> strict k -> strict (bind (Call (BH h o) Ret) (fun _ => k)).
Proof.
  intros Ho Hk seen. cbn. constructor. intros x. cbn [io]. rewrite Ho.
  eapply tr_seen_iff; [intros; eapply post_iff; eauto| |apply Hk]. intuition discriminate.
Qed.

Lemma all_ioe_then_h {U} h o (k : bprog (res U)) : all_ioe k -> all_ioe (bind (Call (BH h o) Ret) (fun _ => k)).
Proof. intros Hk. cbn. constructor. intros x _. exact Hk. Qed.

Lemma all_ioe_ret {T} (e : err) : e_kind e = EIo -> all_ioe (Ret (Err e : res T)).
Proof. intros H. constructor. exact H. Qed.

Lemma strict_labelled {T} (m : bprog (res T)) p : strict m -> strict (labelled m p).
Proof.
  intros Hm. unfold labelled. apply strict_let; [exact Hm|intros r; apply strict_ret|].
  intros [x|e|] Hr; [destruct Hr| |destruct Hr]. constructor. cbn. exact Hr.
Qed.

Lemma strict_fscall i c : strict (Call (BFs i c) Ret).
Proof.
  intros seen. constructor. intros x. constructor. cbn [io].
  destruct x as [v|e|]; cbn; try (left; tauto).
  destruct (decide (e_kind e = EIo)) as [E|E]; [right; cbn; tauto|left; cbn; tauto].
Qed.

Ltac st_step :=
  lazymatch goal with
  | |- strict (Ret _) => apply strict_ret
  | |- strict (ret_err _ _) => apply strict_ret
  | |- strict (bind_res _ _) => apply strict_try; [|intros ?]
  | |- strict (labelled _ _) => apply strict_labelled
  | |- strict (relabel _ _) => apply strict_labelled
  | |- strict (if ?b then _ else _) => destruct b
  | |- strict (match ?x with _ => _ end) => destruct x
  end.
Ltac st_auto := repeat st_step.

(** ** VfsPath *)
Section VfsPathStrict.
  Variable v : vfs.
  Hypothesis Hv : forall c, strict (v_impl v c).

  Lemma st_exists p : strict (vp_exists v p).  Proof. exact (Hv (CExists p)). Qed.
  Lemma st_metadata p : strict (vp_metadata v p).  Proof. apply strict_labelled. exact (Hv (CMetadata p)). Qed.
  Lemma st_open_file p : strict (vp_open_file v p).  Proof. apply strict_labelled. exact (Hv (COpenFile p)). Qed.
  Lemma st_append_file p : strict (vp_append_file v p).  Proof. apply strict_labelled. exact (Hv (CAppendFile p)). Qed.
  Lemma st_remove_file p : strict (vp_remove_file v p).  Proof. apply strict_labelled. exact (Hv (CRemoveFile p)). Qed.
  Lemma st_remove_dir p : strict (vp_remove_dir v p).  Proof. apply strict_labelled. exact (Hv (CRemoveDir p)). Qed.
  Lemma st_set_ctime p t : strict (vp_set_ctime v p t).  Proof. apply strict_labelled. exact (Hv (CSetCTime p t)). Qed.
  Lemma st_set_mtime p t : strict (vp_set_mtime v p t).  Proof. apply strict_labelled. exact (Hv (CSetMTime p t)). Qed.
  Lemma st_set_atime p t : strict (vp_set_atime v p t).  Proof. apply strict_labelled. exact (Hv (CSetATime p t)). Qed.

  Lemma st_read_dir p : strict (vp_read_dir v p).
  Proof. unfold vp_read_dir. st_step; [apply strict_labelled; exact (Hv (CReadDir p))|]. st_auto. Qed.

  Lemma st_get_parent p : strict (vp_get_parent v p).
  Proof. unfold vp_get_parent. st_step; [apply st_exists|]. st_step; [st_auto|]. st_step; [apply st_metadata|]. st_auto. Qed.

  Lemma st_create_dir p : strict (vp_create_dir v p).
  Proof. unfold vp_create_dir. st_step; [apply st_get_parent|]. apply strict_labelled. exact (Hv (CCreateDir p)). Qed.
  Lemma st_create_file p : strict (vp_create_file v p).
  Proof. unfold vp_create_file. st_step; [apply st_get_parent|]. apply strict_labelled. exact (Hv (CCreateFile p)). Qed.

  (** create_dir_all tolerates DirectoryExists only *)
  Lemma st_create_dirs ds : strict (create_dirs v ds).
  Proof.
    induction ds as [|d ds IH]; cbn [create_dirs]; [apply strict_ret|].
    apply strict_let; [exact (Hv (CCreateDir d))| |].
    - intros [u|e|]; [exact IH| |apply strict_ret]. destruct (e_kind e); try apply strict_ret. exact IH.
    - intros [u|e|] Hr; [destruct Hr| |destruct Hr]. cbn in Hr. rewrite Hr. constructor. cbn. exact Hr.
  Qed.
  Lemma st_create_dir_all p : strict (vp_create_dir_all v p).
  Proof. apply st_create_dirs. Qed.

  Lemma st_is_file p : strict (vp_is_file v p).
  Proof. unfold vp_is_file. st_step; [apply st_exists|]. st_step; [st_auto|]. st_step; [apply st_metadata|]. st_auto. Qed.
  Lemma st_is_dir p : strict (vp_is_dir v p).
  Proof. unfold vp_is_dir. st_step; [apply st_exists|]. st_step; [st_auto|]. st_step; [apply st_metadata|]. st_auto. Qed.

  Lemma st_remove_dir_all fuel : forall p, strict (vp_remove_dir_all v fuel p).
  Proof.
    induction fuel as [|fuel IH]; intros p; cbn [vp_remove_dir_all]; [apply strict_ret|].
    st_step; [apply st_exists|]. st_step; [st_auto|].
    st_step; [apply st_read_dir|]. st_step; [|apply st_remove_dir].
    match goal with |- strict (?loop ?l) => induction l as [|child cs IHcs] end; [apply strict_ret|].
    st_step; [apply st_metadata|]. st_step; [|exact IHcs].
    st_step; [apply st_remove_file|apply IH].
  Qed.

  Lemma st_walk_dir p : strict (vp_walk_dir v p).
  Proof. unfold vp_walk_dir. st_step; [apply st_read_dir|]. st_auto. Qed.
End VfsPathStrict.

(** ** generalities used below *)
Lemma tr_of_leaves {R} (P : R -> Prop) (m : bprog R) (seen0 seen : Prop) :
  seen -> leaves (fun _ _ => True) P m -> tr (fun s' r => (s' <-> seen0) \/ (s' /\ P r)) seen m.
Proof.
  intros Hs Hm. revert seen Hs. induction Hm as [r Hr|b k Hk IH]; intros seen Hs.
  - constructor. right. auto.
  - constructor. intros x. apply IH; auto.
Qed.


(** a component that also tells something about the value it returns *)
Definition strictP {T} (P : res T -> Prop) (m : bprog (res T)) : Prop :=
  forall seen, tr (fun s r => post seen s r /\ P r) seen m.

Lemma strictP_strict {T} (P : res T -> Prop) (m : bprog (res T)) : strictP P m -> strict m.
Proof. intros H seen. eapply tr_weaken; [|apply H]. intros s r [H1 _]. exact H1. Qed.

Lemma strict_try_P {T U} (P : res T -> Prop) (m : bprog (res T)) (f : T -> bprog (res U)) :
  strictP P m -> (forall x, P (Ok x) -> strict (f x)) -> strict (bind_res m f).
Proof.
  intros Hm Hf seen. unfold bind_res. eapply tr_bind; [apply Hm|].
  intros s r [[Hs|[Hs Hio]] HP].
  - destruct r as [x|e|].
    + eapply tr_seen_iff; [intros; eapply post_iff; eauto| |apply Hf, HP]. tauto.
    + constructor. left. exact Hs.
    + constructor. left. exact Hs.
  - destruct r as [x|e|]; [destruct Hio| |destruct Hio]. constructor. right. split; [exact Hs|exact Hio].
Qed.

Lemma strict_let_P {T U} (P : res T -> Prop) (m : bprog (res T)) (k : res T -> bprog (res U)) :
  strictP P m -> (forall r, P r -> strict (k r)) -> (forall r, ioe r -> all_ioe (k r)) -> strict (bind m k).
Proof.
  intros Hm Hk Hio seen. eapply tr_bind; [apply Hm|].
  intros s r [[Hs|[Hs Hr]] HP].
  - eapply tr_seen_iff; [intros; eapply post_iff; eauto| |apply Hk, HP]. tauto.
  - apply tr_of_all_ioe; [exact Hs|]. now apply Hio.
Qed.

(** a handle operation whose reply is used: the continuation is strict for every reply, and turns a
    failed read / write / flush into an I/O error *)
Lemma strict_hcall {U} h o (k : res (hval o) -> bprog (res U)) :
  (forall x, strict (k x)) -> (forall x, io_hit o = true -> ioe x -> all_ioe (k x)) ->
  strict (bind (Call (BH h o) Ret) k).
Proof.
  intros Hk Hio seen. cbn. constructor. intros x. cbn [io].
  destruct (io_hit o) eqn:Ho.
  - destruct x as [v|e|].
    + eapply tr_seen_iff; [intros; eapply post_iff; eauto| |apply Hk]. cbn. tauto.
    + destruct (e_kind e) eqn:Ek;
        try (eapply tr_seen_iff; [intros; eapply post_iff; eauto| |apply Hk]; cbn; rewrite Ek; intuition discriminate).
      apply tr_of_all_ioe; [right; split; [reflexivity|exact Ek]|]. apply Hio; [reflexivity|exact Ek].
    + eapply tr_seen_iff; [intros; eapply post_iff; eauto| |apply Hk]. cbn. tauto.
  - eapply tr_seen_iff; [intros; eapply post_iff; eauto| |apply Hk]. intuition discriminate.
Qed.

(** seek and drop are not I/O: their reply never counts as an underlying failure *)
Lemma strict_hcall_quiet {U} h o (k : res (hval o) -> bprog (res U)) :
  io_hit o = false -> (forall x, strict (k x)) -> strict (bind (Call (BH h o) Ret) k).
Proof.
  intros Ho Hk seen. cbn. constructor. intros x. cbn [io]. rewrite Ho.
  eapply tr_seen_iff; [intros; eapply post_iff; eauto| |apply Hk]. intuition discriminate.
Qed.

Lemma all_ioe_hcall {U} h o (k : res (hval o) -> bprog (res U)) :
  (forall x, all_ioe (k x)) -> all_ioe (bind (Call (BH h o) Ret) k).
Proof. intros Hk. cbn. constructor. intros x _. apply Hk. Qed.

(** ** the walk: an underlying failure is yielded as an I/O error item *)
Section WalkStrict.
  Variable v : vfs.
  Hypothesis Hv : forall c, strict (v_impl v c).

  Definition item_ioe (iw : option (res path) * walker) : Prop :=
    match fst iw with Some r => ioe r | None => False end.
  Definition istrict (m : bprog (option (res path) * walker)) : Prop :=
    forall seen, tr (fun s iw => (s <-> seen) \/ (s /\ item_ioe iw)) seen m.

  Lemma ipost_iff seen a b iw : (a <-> b) -> ((a <-> seen) \/ (a /\ item_ioe iw)) -> ((b <-> seen) \/ (b /\ item_ioe iw)).
  Proof. tauto. Qed.

  Lemma st_walk_find todo : forall inner, istrict (walk_find v todo inner).
  Proof.
    induction todo as [|d todo IH]; intros inner seen; destruct inner as [|x inner]; cbn [walk_find];
      try (constructor; left; tauto).
    eapply tr_bind; [apply (st_read_dir v Hv d)|].
    intros s r [Hs|[Hs Hio]].
    - destruct r as [ch|e|]; [|constructor; left; exact Hs|constructor; left; exact Hs].
      eapply tr_seen_iff; [intros a b iw; apply ipost_iff| |apply IH]. tauto.
    - destruct r as [ch|e|]; [destruct Hio| |destruct Hio]. constructor. right. split; [exact Hs|exact Hio].
  Qed.

  Lemma st_walk_next w : istrict (walk_next v w).
  Proof.
    intros seen. unfold walk_next. eapply tr_bind; [apply st_walk_find|].
    intros s [item w'] [Hs|[Hs Hio]]; cbn [fst snd] in *.
    - destruct item as [[x|e|]|]; try (constructor; left; exact Hs).
      eapply tr_bind; [apply (st_metadata v Hv x)|].
      intros s2 r [Hs2|[Hs2 Hio]].
      + destruct r as [md|e|]; [destruct (m_type md)| |]; constructor; left; tauto.
      + destruct r as [md|e|]; [destruct Hio| |destruct Hio]. constructor. right. split; [exact Hs2|exact Hio].
    - unfold item_ioe in Hio. cbn in Hio. destruct item as [[x|e|]|]; [destruct Hio| |destruct Hio|destruct Hio].
      constructor. right. split; [exact Hs|]. unfold item_ioe. cbn. exact Hio.
  Qed.

  (** the collected walk: either nothing failed below, or the list holds an I/O error item (or the
      model ran out of fuel) *)
  Definition items_good (r : res (list (res path))) : Prop :=
    r = out_of_fuel \/ exists l, r = Ok l /\ Exists (fun x => ioe x) l.

  Lemma collect_keeps fuel : forall w acc, Exists (fun x => ioe x) acc ->
    leaves (fun _ _ => True) items_good (walk_collect v fuel w acc).
  Proof.
    induction fuel as [|fuel IH]; intros w acc Hacc; cbn [walk_collect]; [constructor; left; reflexivity|].
    eapply leaves_bind; [apply leaves_true|]. intros [[it|] w'] _; cbn [fst snd].
    - apply IH. now apply Exists_cons_tl.
    - constructor. right. eexists. split; [reflexivity|]. apply Exists_exists.
      apply Exists_exists in Hacc as (x & Hin & Hx). exists x. split; [|exact Hx].
      apply elem_of_reverse. exact Hin.
  Qed.

  Lemma st_walk_collect fuel : forall w acc seen,
    tr (fun s r => (s <-> seen) \/ (s /\ items_good r)) seen (walk_collect v fuel w acc).
  Proof.
    induction fuel as [|fuel IH]; intros w acc seen; cbn [walk_collect]; [constructor; left; tauto|].
    eapply tr_bind; [apply st_walk_next|].
    intros s [item w'] [Hs|[Hs Hio]]; cbn [fst snd] in *.
    - destruct item as [it|]; [|constructor; left; exact Hs].
      eapply tr_seen_iff; [| |apply IH]; [intros a b r Hab; tauto|tauto].
    - unfold item_ioe in Hio. cbn in Hio. destruct item as [it|]; [|destruct Hio].
      apply tr_of_leaves; [exact Hs|]. apply collect_keeps. now apply Exists_cons_hd.
  Qed.
End WalkStrict.

(** ** transfers *)
Section TransferStrict.
  Variable utf8_valid : bytes -> bool.
  Variables v v' : vfs.
  Hypothesis Hv : forall c, strict (v_impl v c).
  Hypothesis Hv' : forall c, strict (v_impl v' c).

  Lemma st_read_to_string p : strict (vp_read_to_string utf8_valid v p).
  Proof.
    unfold vp_read_to_string. st_step; [now apply st_metadata|]. st_step; [|apply strict_ret].
    st_step; [now apply st_open_file|].
    apply strict_hcall.
    - intros r. apply strict_hcall_quiet; [reflexivity|]. intros _.
      destruct r as [bs|e|]; [destruct (utf8_valid bs)| |]; apply strict_ret.
    - intros r _ Hr. apply all_ioe_hcall. intros _. destruct r as [bs|e|]; [destruct Hr| |destruct Hr].
      constructor. reflexivity.
  Qed.

  Lemma st_stream_copy p p' after : strict after -> strict (stream_copy v p v' p' after).
  Proof.
    intros Ha. unfold stream_copy. st_step; [now apply st_open_file|].
    apply strict_let; [now apply st_create_file| |].
    - intros [dst|e|]; [| |apply strict_ret].
      + apply strict_hcall.
        * intros rc. apply strict_let.
          -- destruct rc as [n|e|]; [exact Ha|apply strict_ret|apply strict_ret].
          -- intros ra. apply strict_hcall_quiet; [reflexivity|]. intros _.
             apply strict_hcall_quiet; [reflexivity|]. intros _. apply strict_ret.
          -- intros ra Hra. apply all_ioe_hcall. intros _. apply all_ioe_hcall. intros _. constructor. exact Hra.
        * intros rc _ Hrc. destruct rc as [n|e|]; [destruct Hrc| |destruct Hrc].
          cbn [bind]. apply all_ioe_hcall. intros _. apply all_ioe_hcall. intros _. constructor. reflexivity.
      + apply strict_hcall_quiet; [reflexivity|]. intros _. apply strict_ret.
    - intros [dst|e|] Hr; [destruct Hr| |destruct Hr].
      apply all_ioe_hcall. intros _. constructor. exact Hr.
  Qed.

  Lemma st_fast_path (c : fscall) slow (ev : frep c -> res unit) :
    (forall r, ioe r -> ioe (ev r)) -> strict slow -> strict (fast_path v v' c slow ev).
  Proof.
    intros Hev Hs. unfold fast_path. destruct (Nat.eqb _ _); [|exact Hs].
    apply (strict_let (v_impl v c)); [exact (Hv c)| |].
    - intros r. destruct (ev r) as [u|e|]; [apply strict_ret| |apply strict_ret].
      destruct (e_kind e); try apply strict_ret. exact Hs.
    - intros r Hr. specialize (Hev r Hr). destruct (ev r) as [u|e|]; [destruct Hev| |destruct Hev].
      cbn in Hev. rewrite Hev. constructor. exact Hev.
  Qed.

  Lemma st_copy_file p p' : strict (vp_copy_file v p v' p').
  Proof.
    unfold vp_copy_file. apply strict_labelled. st_step; [now apply st_exists|]. st_step; [apply strict_ret|].
    apply st_fast_path; [auto|]. apply st_stream_copy. apply strict_ret.
  Qed.

  Lemma st_move_file p p' : strict (vp_move_file v p v' p').
  Proof.
    unfold vp_move_file. apply strict_labelled. st_step; [now apply st_exists|]. st_step; [apply strict_ret|].
    apply st_fast_path; [auto|]. apply st_stream_copy. now apply st_remove_file.
  Qed.

  Lemma st_copy_entries fuel p p' : forall w n, strict (copy_entries fuel v p v' p' w n).
  Proof.
    induction fuel as [|fuel IH]; intros w n; cbn [copy_entries]; [apply strict_ret|]. intros seen.
    eapply tr_bind; [now apply st_walk_next|].
    intros s [item w'] [Hs|[Hs Hio]]; cbn [fst snd] in *.
    - destruct item as [[x|e|]|]; try (constructor; left; exact Hs).
      assert (Hst : strict (try* md := vp_metadata v x in
                            try* _ := match m_type md with
                                      | Dir => vp_create_dir v' (p' ++ drop (length p) x)
                                      | File => vp_copy_file v x v' (p' ++ drop (length p) x)
                                      end in
                            copy_entries fuel v p v' p' w' (n + 1)%N)).
      { st_step; [now apply st_metadata|]. st_step; [|apply IH]. st_step; [apply st_copy_file|now apply st_create_dir]. }
      eapply tr_seen_iff; [intros; eapply post_iff; eauto| |apply Hst]. tauto.
    - unfold item_ioe in Hio. cbn in Hio. destruct item as [[x|e|]|]; [destruct Hio| |destruct Hio|destruct Hio].
      constructor. right. split; [exact Hs|exact Hio].
  Qed.

  Lemma st_copy_dir fuel p p' : strict (vp_copy_dir fuel v p v' p').
  Proof.
    unfold vp_copy_dir. apply strict_labelled. st_step; [now apply st_exists|]. st_step; [apply strict_ret|].
    st_step; [now apply st_create_dir|]. st_step; [now apply st_walk_dir|]. apply st_copy_entries.
  Qed.

  Lemma st_move_dir fuel p p' : strict (vp_move_dir fuel v p v' p').
  Proof.
    unfold vp_move_dir. apply strict_labelled. st_step; [now apply st_exists|]. st_step; [apply strict_ret|].
    apply st_fast_path; [auto|].
    st_step; [now apply st_create_dir|]. st_step; [now apply st_walk_dir|].
    st_step; [apply st_copy_entries|]. now apply st_remove_dir_all.
  Qed.
End TransferStrict.

Lemma strict_strictP {T} (m : bprog (res T)) : strict m -> strictP (fun _ => True) m.
Proof. intros H seen. eapply tr_weaken; [|apply H]. intros s r Hr. split; [exact Hr|exact I]. Qed.

Lemma postP_iff {T} (P : res T -> Prop) seen a b (r : res T) :
  (a <-> b) -> post seen a r /\ P r -> post seen b r /\ P r.
Proof. unfold post. tauto. Qed.

Lemma strictP_try_P {T U} (P0 : res T -> Prop) (P : res U -> Prop) (m : bprog (res T)) (f : T -> bprog (res U)) :
  strictP P0 m -> (forall x, P0 (Ok x) -> strictP P (f x)) -> (forall e, P (Err e)) -> P Panic ->
  strictP P (bind_res m f).
Proof.
  intros Hm Hf He Hp seen. unfold bind_res. eapply tr_bind; [apply Hm|].
  intros s r [[Hs|[Hs Hio]] HP].
  - destruct r as [x|e|].
    + eapply tr_seen_iff; [intros a b r0; apply postP_iff| |apply Hf, HP]. tauto.
    + constructor. split; [left; exact Hs|apply He].
    + constructor. split; [left; exact Hs|apply Hp].
  - destruct r as [x|e|]; [destruct Hio| |destruct Hio]. constructor. split; [right; split; [exact Hs|exact Hio]|apply He].
Qed.

Lemma strictP_ret {T} (P : res T -> Prop) (r : res T) : P r -> strictP P (Ret r).
Proof. intros H seen. constructor. split; [left; tauto|exact H]. Qed.

(** ** AltrootFS *)
Lemma st_alt_impl (u : vfs) root : (forall c, strict (v_impl u c)) -> forall c, strict (alt_impl u root c).
Proof.
  intros Hu c. destruct c; cbn [alt_impl].
  - st_step; [now apply st_read_dir|]. apply strict_ret.
  - now apply st_create_dir.
  - now apply st_open_file.
  - now apply st_create_file.
  - now apply st_append_file.
  - now apply st_metadata.
  - now apply st_set_ctime.
  - now apply st_set_mtime.
  - now apply st_set_atime.
  - now apply st_exists.
  - now apply st_remove_file.
  - now apply st_remove_dir.
  - destruct d; [apply strict_ret|]. now apply st_copy_file.
  - apply strict_ret.
  - apply strict_ret.
Qed.

(** ** OverlayFS *)
Section OverlayStrict.
  Variable top : vfs * path.
  Variable lower : list (vfs * path).
  Definition Lok (l : vfs) : Prop := forall c, strict (v_impl l c).
  Hypothesis Hall : Forall (fun l => Lok (fst l)) (layers top lower).

  Lemma st_top : Lok (fst top).
  Proof. now inversion Hall. Qed.

  Definition P_layer (r : res (option (vfs * path))) : Prop :=
    match r with Ok (Some lp) => Lok (fst lp) | _ => True end.
  Definition P_lp (r : res (vfs * path)) : Prop :=
    match r with Ok lp => Lok (fst lp) | _ => True end.

  Lemma st_first_layer ls p : Forall (fun l => Lok (fst l)) ls -> strictP P_layer (first_layer ls p).
  Proof.
    induction 1 as [|l ls Hl Hls IH]; cbn [first_layer]; [apply strictP_ret; exact I|].
    eapply strictP_try_P with (P0 := fun _ => True); [apply strict_strictP, (st_exists (fst l) Hl)| |intros; exact I|exact I].
    intros ex _. destruct ex; [apply strictP_ret; exact Hl|exact IH].
  Qed.

  Lemma st_lower : Forall (fun l => Lok (fst l)) lower.
  Proof. now inversion Hall. Qed.

  Lemma st_read_path p : strictP P_lp (read_path top lower p).
  Proof.
    unfold read_path. destruct p as [|x p']; [apply strictP_ret; exact st_top|]. set (p := x :: p').
    eapply strictP_try_P with (P0 := fun _ => True); [apply strict_strictP, (st_exists (fst top) st_top)| |intros; exact I|exact I].
    intros up _. destruct up; [apply strictP_ret; exact st_top|].
    eapply strictP_try_P with (P0 := fun _ => True); [apply strict_strictP, (st_exists (fst top) st_top)| |intros; exact I|exact I].
    intros wo _. destruct wo; [apply strictP_ret; exact I|].
    eapply strictP_try_P; [apply st_first_layer, st_lower| |intros; exact I|exact I].
    intros [lp|] Hl; apply strictP_ret; [exact Hl|exact I].
  Qed.

  Lemma st_with_read_path {T} p (f : vfs * path -> bprog (res T)) :
    (forall lp, Lok (fst lp) -> strict (f lp)) -> strict (bind_res (read_path top lower p) f).
  Proof. intros Hf. eapply strict_try_P; [apply st_read_path|]. intros lp Hl. now apply Hf. Qed.

  Lemma st_ovl_exists p : strict (ovl_exists top lower p).
  Proof.
    unfold ovl_exists.
    eapply strict_let_P; [apply st_read_path| |].
    - intros [lp|e|] Hl; [exact (st_exists (fst lp) Hl _)| |apply strict_ret].
      destruct (e_kind e); apply strict_ret.
    - intros [lp|e|] Hr; [destruct Hr| |destruct Hr]. cbn in Hr. rewrite Hr. constructor. exact Hr.
  Qed.

  Lemma st_ovl_metadata p : strict (ovl_metadata top lower p).
  Proof. unfold ovl_metadata. apply st_with_read_path. intros lp Hl. now apply st_metadata. Qed.

  Lemma st_gather ls p : Forall (fun l => Lok (fst l)) ls -> forall acc, strict (gather ls p acc).
  Proof.
    induction 1 as [|l ls Hl Hls IH]; intros acc; cbn [gather]; [apply strict_ret|].
    st_step; [now apply st_is_dir|]. st_step; [|apply IH].
    st_step; [now apply st_read_dir|]. apply IH.
  Qed.

  Lemma st_ovl_read_dir p : strict (ovl_read_dir top lower p).
  Proof.
    unfold ovl_read_dir. apply st_with_read_path. intros lp Hl.
    st_step; [now apply st_metadata|]. st_step; [apply strict_ret|].
    st_step; [apply st_gather, Hall|].
    st_step; [exact (st_exists (fst top) st_top _)|].
    st_step; [|apply strict_ret].
    st_step; [|apply strict_ret].
    st_step; [apply (st_read_dir (fst top) st_top)|]. apply strict_ret.
  Qed.

  Lemma st_ensure_has_parent p : strict (ovl_ensure_has_parent top lower p).
  Proof.
    unfold ovl_ensure_has_parent. destruct p as [|x p']; [apply strict_ret|].
    st_step; [apply st_ovl_exists|]. st_step; [|apply strict_ret].
    st_step; [apply st_ovl_metadata|]. st_step; [apply strict_ret|].
    st_step; [apply (st_create_dir_all (fst top) st_top)|]. apply strict_ret.
  Qed.

  Lemma st_clear_whiteout p : strict (clear_whiteout top p).
  Proof.
    unfold clear_whiteout. st_step; [exact (st_exists (fst top) st_top _)|].
    st_step; [apply (st_remove_file (fst top) st_top)|apply strict_ret].
  Qed.

  Lemma st_set_whiteout p : strict (set_whiteout top p).
  Proof.
    unfold set_whiteout. st_step; [apply (st_create_dir_all (fst top) st_top)|].
    st_step; [apply (st_create_file (fst top) st_top)|].
    apply strict_hcall_quiet; [reflexivity|]. intros _. apply strict_ret.
  Qed.

  Theorem st_ovl_impl c : strict (ovl_impl top lower c).
  Proof.
    destruct c; cbn [ovl_impl].
    - apply st_ovl_read_dir.
    - st_step; [apply st_ensure_has_parent|]. st_step; [apply st_ovl_exists|]. st_step.
      + st_step; [apply st_ovl_metadata|]. apply strict_ret.
      + st_step; [apply (st_create_dir (fst top) st_top)|]. apply st_clear_whiteout.
    - apply st_with_read_path. intros lp Hl. now apply st_open_file.
    - st_step; [apply st_ensure_has_parent|]. st_step; [apply st_ovl_exists|].
      st_step.
      { st_step; [|apply strict_ret]. st_step; [apply st_ovl_metadata|]. apply strict_ret. }
      st_step; [apply strict_ret|].
      st_step; [apply (st_create_file (fst top) st_top)|].
      apply strict_let; [apply st_clear_whiteout| |].
      + intros [u|e|]; [apply strict_ret| |apply strict_ret]. apply strict_hcall_quiet; [reflexivity|]. intros _. apply strict_ret.
      + intros [u|e|] Hr; [destruct Hr| |destruct Hr]. apply all_ioe_hcall. intros _. constructor. exact Hr.
    - st_step; [exact (st_exists (fst top) st_top _)|].
      st_step; [|apply (st_append_file (fst top) st_top)].
      st_step; [apply strict_ret|].
      st_step; [apply st_ensure_has_parent|].
      apply st_with_read_path. intros lp Hl. apply st_copy_file; [exact Hl|exact st_top].
    - apply st_ovl_metadata.
    - apply (st_set_ctime (fst top) st_top).
    - apply (st_set_mtime (fst top) st_top).
    - apply (st_set_atime (fst top) st_top).
    - apply st_ovl_exists.
    - apply st_with_read_path. intros lp Hl.
      st_step; [exact (st_exists (fst top) st_top _)|].
      st_step; [|apply st_set_whiteout].
      st_step; [apply (st_remove_file (fst top) st_top)|apply strict_ret].
    - apply st_with_read_path. intros lp Hl.
      st_step; [apply st_ovl_read_dir|]. st_step; [|apply strict_ret].
      st_step; [exact (st_exists (fst top) st_top _)|].
      st_step; [|apply st_set_whiteout].
      st_step; [apply (st_remove_dir (fst top) st_top)|apply strict_ret].
    - apply strict_ret.
    - apply strict_ret.
    - apply strict_ret.
  Qed.
End OverlayStrict.

(** ** every stacking *)
Theorem st_interp (f : fsref) : forall c, strict (interp f c).
Proof.
  induction f as [k i|k g r IH|k t lower IHt IHl|k g IH] using fsref_ind'; intros c; cbn [interp].
  - apply strict_fscall.
  - apply st_alt_impl. exact IH.
  - apply st_ovl_impl. constructor.
    + destruct t as [g r]. exact IHt.
    + apply Forall_fmap. eapply Forall_impl; [exact IHl|]. intros [g r] H. exact H.
  - unfold wrap_impl. intros seen. cbn. constructor. intros inject. cbn [io].
    destruct inject.
    + constructor. right. split; [right; reflexivity|reflexivity].
    + eapply tr_seen_iff; [intros; eapply post_iff; eauto| |apply IH].
      split; [tauto|]. intros [H|H]; [exact H|discriminate].
Qed.

Lemma st_vfs_of f : forall c, strict (v_impl (vfs_of f) c).
Proof. exact (st_interp f). Qed.

(** ** the semantic reading on the real base handler and its fault plan *)
Fixpoint io_in_run {R} (m : bprog R) (st : store) : Prop :=
  match m with
  | Ret _ => False
  | Call b k => io b (snd (bhandler b st)) \/ io_in_run (k (snd (bhandler b st))) (fst (bhandler b st))
  end.

Lemma tr_run {R} (Q : Prop -> R -> Prop) (m : bprog R) seen :
  (forall a b r, (a <-> b) -> Q a r -> Q b r) ->
  tr Q seen m -> forall st, Q (seen \/ io_in_run m st) (snd (run bhandler m st)).
Proof.
  intros HQ Hm. induction Hm as [seen r Hr|seen b k Hk IH]; intros st; cbn [run io_in_run].
  - eapply HQ; [|exact Hr]. tauto.
  - destruct (bhandler b st) as [st' x] eqn:E. cbn [fst snd].
    eapply HQ; [|apply (IH x st')]. tauto.
Qed.

Lemma fs_call_fault i c st : st_fault (fst (fs_call i c st)) = st_fault st.
Proof.
  unfold fs_call. destruct (st_bases st !! i) as [[s|s|s]|]; [| | |reflexivity].
  - unfold mem_fs_call. destruct (mem_step c s) as [s' r].
    destruct c; cbn [mem_glue]; try reflexivity; destruct r; reflexivity.
  - unfold phys_fs_call. destruct (phys_step c s) as [s' r].
    destruct c; try reflexivity; destruct r; reflexivity.
  - unfold emb_fs_call. destruct c; try reflexivity; destruct (emb_step _ s); reflexivity.
Qed.

Lemma put_fault st h x data st' : put st h x data = Some st' -> st_fault st' = st_fault st.
Proof.
  destruct x; cbn; try discriminate.
  - destruct data; [intros [= <-]; reflexivity|]. intros [= <-]. reflexivity.
  - destruct data; [intros [= <-]; reflexivity|]. intros [= <-]. cbn.
    unfold phys_set_content. destruct (st_bases st !! base) as [[| |]|]; reflexivity.
Qed.

Lemma handle_op_fault h o st : st_fault (fst (handle_op h o st)) = st_fault st.
Proof.
  destruct (handle_op_cases h o st) as [->| ->]; [reflexivity|].
  unfold handle_op0. destruct (st_handles st !! h) as [x|]; [|reflexivity].
  destruct o as [n|sf|data| | |dst|].
  - destruct x; try reflexivity. destruct (mem_reader_read content pos n); reflexivity.
  - destruct (match sf with SeekStart o => (o <? 0)%Z | _ => false end); [reflexivity|].
    destruct x; try reflexivity.
    + destruct (mem_reader_seek content pos sf); reflexivity.
    + destruct (cursor_seek _ pos sf); reflexivity.
    + destruct (cursor_seek _ pos sf); reflexivity.
    + destruct (cursor_seek _ pos sf) as [n|]; [destruct (n <=? i64_max)%Z|]; reflexivity.
    + destruct (cursor_seek _ pos sf) as [n|]; [destruct (n <=? i64_max)%Z|]; reflexivity.
  - destruct (write_too_large x data); [reflexivity|].
    destruct (put st h x data) as [st'|] eqn:E; [|reflexivity]. cbn. eapply put_fault; eauto.
  - destruct x; try reflexivity. cbn. unfold mem_publish. destruct (st_bases st !! base) as [[| |]|]; reflexivity.
  - destruct x; try reflexivity. cbn. unfold mem_publish. destruct (st_bases st !! base) as [[| |]|]; reflexivity.
  - destruct (drain st x) as [[out x']|]; [|reflexivity].
    destruct (st_handles st !! dst) as [y|]; [|reflexivity].
    destruct (put (set_handle st h x') dst y out) as [st2|] eqn:E; [|reflexivity].
    cbn. apply put_fault in E. exact E.
  - destruct (drain st x) as [[out x']|]; reflexivity.
Qed.

(** if the armed fault has fired by the end of a run, an underlying failure was seen in it *)
Lemma fault_fired_io {R} (m : bprog R) : forall st id k,
  st_fault st = Some (id, k) -> st_fault (fst (run bhandler m st)) = None -> io_in_run m st.
Proof.
  induction m as [r|b kont IH]; intros st id k Hf Hn; cbn [run io_in_run] in *; [cbn in Hn; congruence|].
  destruct (bhandler b st) as [st' x] eqn:E. cbn [fst snd] in *.
  destruct b as [i c|h o|id' c]; cbn [bhandler] in E.
  - right. apply (IH x st' id k); [|exact Hn].
    rewrite <- Hf. pose proof (fs_call_fault i c st) as H. rewrite E in H. exact H.
  - right. apply (IH x st' id k); [|exact Hn].
    rewrite <- Hf. pose proof (handle_op_fault h o st) as H. rewrite E in H. exact H.
  - unfold log_call in E. rewrite Hf in E. destruct (Nat.eqb id id') eqn:Eid.
    + destruct k as [|k']; injection E as <- <-.
      * left. reflexivity.
      * right. apply (IH false _ id k'); [reflexivity|exact Hn].
    + injection E as <- <-. right. apply (IH false _ id k); [reflexivity|exact Hn].
Qed.

(** C20: when the fault that was armed has fired during an operation, the operation reports an
    I/O error - for every strict program, hence for every trait call of every stacking and every
    operation of the path API *)
Theorem strict_fault {T} (m : bprog (res T)) : strict m ->
  forall st id k, st_fault st = Some (id, k) -> st_fault (fst (run bhandler m st)) = None ->
  ioe (snd (run bhandler m st)).
Proof.
  intros Hm st id k Hf Hn.
  pose proof (tr_run _ m False (fun a b r Hab => post_iff False a b r Hab) (Hm False) st) as H.
  pose proof (fault_fired_io m st id k Hf Hn) as Hio.
  destruct H as [H|[_ H]]; [tauto|exact H].
Qed.

Lemma gpost_iff {R} (P : R -> Prop) (seen a b : Prop) (r : R) :
  (a <-> b) -> ((a <-> seen) \/ (a /\ P r)) -> ((b <-> seen) \/ (b /\ P r)).
Proof. tauto. Qed.

(** the same for a drained walk: the failure shows up as an item *)
Theorem walk_fault v fuel w : (forall c, strict (v_impl v c)) ->
  forall st id k, st_fault st = Some (id, k) -> st_fault (fst (run bhandler (walk_collect v fuel w []) st)) = None ->
  items_good (snd (run bhandler (walk_collect v fuel w []) st)).
Proof.
  intros Hv st id k Hf Hn.
  pose proof (tr_run _ (walk_collect v fuel w []) False
                (fun a b r => gpost_iff items_good False a b r) (st_walk_collect v Hv fuel w [] False) st) as H.
  pose proof (fault_fired_io (walk_collect v fuel w []) st id k Hf Hn) as Hio.
  destruct H as [H|[_ H]]; [tauto|exact H].
Qed.

(** ** failing handle I/O: while the harness's I/O fault is armed every read / write / flush on a
    handle answers with an I/O error.  The flag survives every base call, so: a strict program that
    performs such an operation at all returns an I/O error - it cannot report success *)
Lemma fs_call_io i c st : st_io (fst (fs_call i c st)) = st_io st.
Proof.
  unfold fs_call. destruct (st_bases st !! i) as [[s|s|s]|]; [| | |reflexivity].
  - unfold mem_fs_call. destruct (mem_step c s) as [s' r].
    destruct c; cbn [mem_glue]; try reflexivity; destruct r; reflexivity.
  - unfold phys_fs_call. destruct (phys_step c s) as [s' r].
    destruct c; try reflexivity; destruct r; reflexivity.
  - unfold emb_fs_call. destruct c; try reflexivity; destruct (emb_step _ s); reflexivity.
Qed.

Lemma put_io st h x data st' : put st h x data = Some st' -> st_io st' = st_io st.
Proof.
  destruct x; cbn; try discriminate.
  - destruct data; [intros [= <-]; reflexivity|]. intros [= <-]. reflexivity.
  - destruct data; [intros [= <-]; reflexivity|]. intros [= <-]. cbn.
    unfold phys_set_content. destruct (st_bases st !! base) as [[| |]|]; reflexivity.
Qed.

Lemma handle_op_io h o st : st_io (fst (handle_op h o st)) = st_io st.
Proof.
  destruct (handle_op_cases h o st) as [->| ->]; [reflexivity|].
  unfold handle_op0. destruct (st_handles st !! h) as [x|]; [|reflexivity].
  destruct o as [n|sf|data| | |dst|].
  - destruct x; try reflexivity. destruct (mem_reader_read content pos n); reflexivity.
  - destruct (match sf with SeekStart o => (o <? 0)%Z | _ => false end); [reflexivity|].
    destruct x; try reflexivity.
    + destruct (mem_reader_seek content pos sf); reflexivity.
    + destruct (cursor_seek _ pos sf); reflexivity.
    + destruct (cursor_seek _ pos sf); reflexivity.
    + destruct (cursor_seek _ pos sf) as [n|]; [destruct (n <=? i64_max)%Z|]; reflexivity.
    + destruct (cursor_seek _ pos sf) as [n|]; [destruct (n <=? i64_max)%Z|]; reflexivity.
  - destruct (write_too_large x data); [reflexivity|].
    destruct (put st h x data) as [st'|] eqn:E; [|reflexivity]. cbn. eapply put_io; eauto.
  - destruct x; try reflexivity. cbn. unfold mem_publish. destruct (st_bases st !! base) as [[| |]|]; reflexivity.
  - destruct x; try reflexivity. cbn. unfold mem_publish. destruct (st_bases st !! base) as [[| |]|]; reflexivity.
  - destruct (drain st x) as [[out x']|]; [|reflexivity].
    destruct (st_handles st !! dst) as [y|]; [|reflexivity].
    destruct (put (set_handle st h x') dst y out) as [st2|] eqn:E; [|reflexivity].
    cbn. apply put_io in E. exact E.
  - destruct (drain st x) as [[out x']|]; reflexivity.
Qed.

Lemma bhandler_io b st : st_io (fst (bhandler b st)) = st_io st.
Proof.
  destruct b as [i c|h o|id c]; cbn [bhandler].
  - apply fs_call_io.
  - apply handle_op_io.
  - unfold log_call. destruct (st_fault st) as [[fid k]|]; [|reflexivity].
    destruct (Nat.eqb fid id); [destruct k|]; reflexivity.
Qed.

(** the run reaches a handle operation that the armed mode makes fail *)
Fixpoint io_fault_hits {R} (m : bprog R) (st : store) : Prop :=
  match m with
  | Ret _ => False
  | Call b k =>
      match b with BH h o => io_fails st h o = true | _ => False end \/
      io_fault_hits (k (snd (bhandler b st))) (fst (bhandler b st))
  end.

Lemma hits_io_in_run {R} (m : bprog R) : forall st, io_fault_hits m st -> io_in_run m st.
Proof.
  induction m as [r|b kont IH]; intros st Hd; cbn [io_fault_hits io_in_run] in *; [exact Hd|].
  destruct Hd as [Hb|Hd].
  - left. destruct b as [i c|h o|id c]; try contradiction. cbn [bhandler io].
    split; [now apply (io_fails_hit st h)|]. unfold handle_op. rewrite Hb. reflexivity.
  - right. apply IH. exact Hd.
Qed.

Theorem strict_io_fault {T} (m : bprog (res T)) : strict m ->
  forall st, io_fault_hits m st -> ioe (snd (run bhandler m st)).
Proof.
  intros Hm st Hd.
  pose proof (tr_run _ m False (fun a b r Hab => post_iff False a b r Hab) (Hm False) st) as H.
  pose proof (hits_io_in_run m st Hd) as Hin.
  destruct H as [H|[_ H]]; [tauto|exact H].
Qed.

(** and the failure is not a half-performed success either way round: the handle operation that failed left
    the store as it was *)
Lemma handle_op_armed h o st : io_fails st h o = true -> handle_op h o st = (st, fail EIo).
Proof. intros Hio. unfold handle_op. now rewrite Hio. Qed.
