(** C13, end to end: no case the model can be given - any configuration of stackings, any list of
    operations of the public API and of handle operations, any fault plan - produces a [Panic]
    outcome, at the top level or inside a listing, walk, probe or snapshot. *)
From stdpp Require Import list gmap.
From Coq Require Import NArith ZArith Lia.
From VFS Require Import Path.Str Core.Types Core.Prog Core.Calls Base.MemFS Base.Handles Base.Store
  Layer.VfsPath Layer.Altroot Layer.Overlay Layer.Config Layer.Utf8 Layer.Run
  Proofs.ProgProofs Proofs.Leaves Proofs.NoPanic.

Definition entry_np (e : snapentry) : Prop :=
  np (sn_meta e) /\ match sn_content e with Some r => np r | None => True end.

Definition value_np (v : value) : Prop :=
  match v with
  | VItems l => Forall (fun r => np r) l
  | VProbe p => np (pr_exists p) /\ np (pr_meta p) /\ np (pr_is_file p) /\ np (pr_is_dir p) /\ np (pr_list p) /\ np (pr_read p)
  | VSnap l => Forall entry_np l
  | _ => True
  end.
Definition outcome_np (o : outcome) : Prop :=
  match o with Ok v => value_np v | Err _ => True | Panic => False end.

Lemma resolve_steps_np steps : forall cur, np (resolve_steps cur steps).
Proof.
  induction steps as [|[a| |] steps IH]; intros cur; cbn; [exact I| |apply IH|apply IH].
  destruct (jn cur a); [apply IH|exact I].
Qed.

Lemma np_lift {T} (f : T -> value) (m : bprog (res T)) :
  (forall x, value_np (f x)) -> NP m -> leaves NPb outcome_np (lift f m).
Proof.
  intros Hf Hm. unfold lift. eapply leaves_bind; [exact Hm|].
  intros [x|e|] H; constructor; cbn; auto.
Qed.

Section RunNP.
  Variable cfg : list fsref.
  Variable fuel : nat.

  Lemma inst_np k v : inst cfg k = Some v -> forall c, NP (v_impl v c).
  Proof.
    unfold inst. destruct (cfg !! k) as [f|]; cbn; [|discriminate]. intros [= <-]. apply np_vfs_of.
  Qed.

  Lemma locate_np ps : match locate cfg ps with Ok (v, _) => forall c, NP (v_impl v c) | Err _ => True | Panic => False end.
  Proof.
    unfold locate. destruct (inst cfg (ps_fs ps)) as [v|] eqn:Ei; [|exact I].
    pose proof (resolve_steps_np (ps_steps ps) []) as H.
    destruct (resolve_steps [] (ps_steps ps)); cbn in *; auto. eapply inst_np; eauto.
  Qed.

  Lemma on_path_np ps f :
    (forall v p, (forall c, NP (v_impl v c)) -> leaves NPb outcome_np (f v p)) ->
    leaves NPb outcome_np (on_path cfg ps f).
  Proof.
    intros Hf. unfold on_path. pose proof (locate_np ps) as H.
    destruct (locate cfg ps) as [[v s]|e|]; [now apply Hf|constructor; exact I|destruct H].
  Qed.

  Lemma on_paths_np ps qs f :
    (forall v p v' p', (forall c, NP (v_impl v c)) -> (forall c, NP (v_impl v' c)) -> leaves NPb outcome_np (f v p v' p')) ->
    leaves NPb outcome_np (on_paths cfg ps qs f).
  Proof.
    intros Hf. unfold on_paths. pose proof (locate_np ps) as H1. pose proof (locate_np qs) as H2.
    destruct (locate cfg ps) as [[v s]|e|]; [|constructor; exact I|destruct H1].
    destruct (locate cfg qs) as [[v' s']|e|]; [now apply Hf|constructor; exact I|destruct H2].
  Qed.

  Lemma string_op_np ps f : (forall s, value_np (f s)) -> leaves NPb outcome_np (string_op cfg ps f).
  Proof.
    intros Hf. unfold string_op. pose proof (locate_np ps) as H.
    destruct (locate cfg ps) as [[v s]|e|]; [constructor; apply Hf|constructor; exact I|destruct H].
  Qed.

  (** reading a whole file *)
  Lemma read_all_np v p : (forall c, NP (v_impl v c)) -> NP (read_all v p).
  Proof.
    intros Hv. unfold read_all. np_step; [now apply np_open_file|].
    apply np_let; [apply np_hcall|]. intros r Hr.
    apply np_let; [apply np_hcall|]. intros _ _. constructor. exact Hr.
  Qed.

  (** snapshots: every recorded metadata and content is the reply of a call that did not panic *)
  Lemma snap_dir_gen_np reads fl : forall v p, (forall c, NP (v_impl v c)) ->
    leaves NPb (Forall entry_np) (snap_dir_gen reads fl v p).
  Proof.
    induction fl as [|fl IH]; intros v p Hv; cbn [snap_dir_gen].
    - constructor. constructor; [split; exact I|constructor].
    - apply np_let; [now apply np_read_dir|]. intros [children|e|] Hr; [| |destruct Hr].
      + clear Hr. induction children as [|c cs IHcs]; [constructor; constructor|].
        apply np_let; [now apply np_metadata|]. intros md Hmd.
        eapply leaves_bind with (Q := Forall entry_np).
        * destruct md as [m|e|]; [|constructor; constructor; [split; [exact I|exact I]|constructor]|destruct Hmd].
          destruct (m_type m).
          -- destruct reads.
             ++ apply np_let; [now apply read_all_np|]. intros bs Hbs. constructor.
                constructor; [split; [exact I|exact Hbs]|constructor].
             ++ constructor. constructor; [split; exact I|constructor].
          -- eapply leaves_bind; [apply IH, Hv|]. intros sub Hsub. constructor.
             constructor; [split; exact I|exact Hsub].
        * intros here Hhere. eapply leaves_bind; [exact IHcs|]. intros rest Hrest. constructor.
          apply Forall_app. split; assumption.
      + constructor. constructor; [split; exact I|constructor].
  Qed.

  Lemma snap_dir_np fl : forall v p, (forall c, NP (v_impl v c)) ->
    leaves NPb (Forall entry_np) (snap_dir fl v p).
  Proof.
    induction fl as [|fl IH]; intros v p Hv; cbn [snap_dir].
    - constructor. constructor; [split; exact I|constructor].
    - apply np_let; [now apply np_read_dir|]. intros [children|e|] Hr; [| |destruct Hr].
      + clear Hr. induction children as [|c cs IHcs]; [constructor; constructor|].
        apply np_let; [now apply np_metadata|]. intros md Hmd.
        eapply leaves_bind with (Q := Forall entry_np).
        * destruct md as [m|e|]; [|constructor; constructor; [split; [exact I|exact I]|constructor]|destruct Hmd].
          destruct (m_type m).
          -- apply np_let; [now apply read_all_np|]. intros bs Hbs. constructor.
             constructor; [split; [exact I|exact Hbs]|constructor].
          -- eapply leaves_bind; [apply IH, Hv|]. intros sub Hsub. constructor.
             constructor; [split; exact I|exact Hsub].
        * intros here Hhere. eapply leaves_bind; [exact IHcs|]. intros rest Hrest. constructor.
          apply Forall_app. split; assumption.
      + constructor. constructor; [split; exact I|constructor].
  Qed.

  Lemma snapshot_np v : (forall c, NP (v_impl v c)) -> leaves NPb outcome_np (snapshot fuel v).
  Proof.
    intros Hv. unfold snapshot. apply np_let; [now apply np_metadata|]. intros md Hmd.
    eapply leaves_bind; [now apply snap_dir_np|]. intros rest Hrest. constructor. cbn.
    constructor; [split; [exact Hmd|exact I]|exact Hrest].
  Qed.
  Lemma stat_tree_np v : (forall c, NP (v_impl v c)) -> leaves NPb outcome_np (stat_tree fuel v).
  Proof.
    intros Hv. unfold stat_tree. apply np_let; [now apply np_metadata|]. intros md Hmd.
    eapply leaves_bind; [now apply snap_dir_gen_np|]. intros rest Hrest. constructor. cbn.
    constructor; [split; [exact Hmd|exact I]|exact Hrest].
  Qed.

  Lemma probe_np v p : (forall c, NP (v_impl v c)) -> leaves NPb outcome_np (do_probe v p).
  Proof.
    intros Hv. unfold do_probe.
    apply np_let; [now apply np_exists|]. intros ex Hex.
    apply np_let; [now apply np_metadata|]. intros md Hmd.
    apply np_let; [now apply np_is_file|]. intros isf Hisf.
    apply np_let; [now apply np_is_dir|]. intros isd Hisd.
    apply np_let; [now apply np_read_dir|]. intros ls Hls.
    apply np_let; [now apply read_all_np|]. intros rd Hrd.
    constructor. cbn. auto 10.
  Qed.

  Lemma walk_np v p : (forall c, NP (v_impl v c)) ->
    leaves NPb outcome_np (let* r := vp_walk_dir v p in
                           match r with
                           | Ok w => lift VItems (walk_collect v fuel w [])
                           | Err e => Ret (Err e)
                           | Panic => Ret Panic
                           end).
  Proof.
    intros Hv. apply np_let; [now apply np_walk_dir|]. intros [w|e|] Hr; [|constructor; exact I|destruct Hr].
    unfold lift. eapply leaves_bind; [apply np_walk_collect; [exact Hv|constructor]|].
    intros [l|e|] Hl; constructor; cbn in *; auto.
  Qed.

  Lemma walk_take_np v k : (forall c, NP (v_impl v c)) -> forall w acc, Forall (fun r => np r) acc ->
    leaves NPb (fun aw => Forall (fun r => np r) (fst aw)) (walk_take v k w acc).
  Proof.
    intros Hv. induction k as [|k IH]; intros w acc Hacc; cbn [walk_take]; [constructor; exact Hacc|].
    eapply leaves_bind; [now apply np_walk_next|].
    intros [[it|] w'] Hi; cbn [fst snd] in *.
    - apply IH. constructor; [|exact Hacc]. destruct it; cbn in *; auto.
    - constructor. exact Hacc.
  Qed.

  Lemma remove_any_np v q : (forall c, NP (v_impl v c)) -> NP (remove_any fuel v q).
  Proof.
    intros Hv. unfold remove_any. apply np_let; [now apply np_remove_file|].
    intros [u|e|] Hr; [constructor; exact I|now apply np_remove_dir_all|destruct Hr].
  Qed.

  Lemma walkrm_np v p k v' q : (forall c, NP (v_impl v c)) -> (forall c, NP (v_impl v' c)) ->
    leaves NPb outcome_np (let* r := vp_walk_dir v p in
                           match r with
                           | Ok w =>
                               let* aw := walk_take v k w [] in
                               let* _ := remove_any fuel v' q in
                               lift VItems (walk_collect v fuel (snd aw) (fst aw))
                           | Err e => Ret (Err e)
                           | Panic => Ret Panic
                           end).
  Proof.
    intros Hv Hv'. apply np_let; [now apply np_walk_dir|]. intros [w|e|] Hr; [|constructor; exact I|destruct Hr].
    eapply leaves_bind; [apply walk_take_np; [exact Hv|constructor]|]. intros aw Haw.
    apply np_let; [now apply remove_any_np|]. intros _ _.
    unfold lift. eapply leaves_bind; [apply np_walk_collect; [exact Hv|exact Haw]|].
    intros [l|e|] Hl; constructor; cbn in *; auto.
  Qed.

  (** every operation that does not touch the register file *)
  Theorem op_prog_np (o : op) : leaves NPb outcome_np (op_prog cfg fuel o).
  Proof.
    destruct o; cbn [op_prog];
      try (apply string_op_np; intros; exact I);
      try (apply on_path_np; intros v p0 Hv);
      try (apply on_paths_np; intros v p0 v' p' Hv Hv');
      try (apply np_lift; [intros; exact I|]);
      try (constructor; exact I).
    - now apply np_exists.
    - now apply np_metadata.
    - now apply np_is_file.
    - now apply np_is_dir.
    - now apply np_read_dir.
    - now apply np_create_dir.
    - now apply np_create_dir_all.
    - now apply np_remove_file.
    - now apply np_remove_dir.
    - now apply np_remove_dir_all.
    - now apply np_set_ctime.
    - now apply np_set_mtime.
    - now apply np_set_atime.
    - now apply np_read_to_string.
    - now apply np_copy_file.
    - now apply np_move_file.
    - now apply np_copy_dir.
    - now apply np_move_dir.
    - now apply walk_np.
    - now apply walkrm_np.
    - now apply probe_np.
    - destruct (inst cfg k) as [v|] eqn:Ei; [|constructor; exact I]. apply snapshot_np. eapply inst_np; eauto.
    - destruct (inst cfg k) as [v|] eqn:Ei; [|constructor; exact I]. apply stat_tree_np. eapply inst_np; eauto.
  Qed.

  (** ** steps of a case *)
  Definition rs_ok (rs : rstate) : Prop := store_ok (rs_store rs).

  Lemma run_handle_op_np (o : hop) rs r (f : hval o -> value) :
    (forall x, value_np (f x)) -> rs_ok rs ->
    outcome_np (snd (run_handle_op (o := o) rs r f)) /\ rs_ok (fst (run_handle_op (o := o) rs r f)).
  Proof.
    intros Hf Hrs. unfold run_handle_op. destruct (handle_of rs r) as [h|]; [|cbn; auto].
    destruct (bhandler_np (BH h o) (rs_store rs) Hrs) as [H1 H2]. cbn [bhandler NPb] in *.
    destruct (handle_op h o (rs_store rs)) as [st x]. cbn [fst snd] in *. split; [|exact H2].
    destruct x as [y|e|]; cbn in *; auto.
  Qed.

  Lemma open_op_np idx rs ps (f : vfs -> path -> bprog (res hid)) :
    (forall v p, (forall c, NP (v_impl v c)) -> NP (f v p)) -> rs_ok rs ->
    outcome_np (snd (open_op cfg idx rs ps f)) /\ rs_ok (fst (open_op cfg idx rs ps f)).
  Proof.
    intros Hf Hrs. unfold open_op. pose proof (locate_np ps) as Hl.
    destruct (locate cfg ps) as [[v s]|e|]; [|cbn; auto|destruct Hl].
    destruct (np_run _ _ (Hf v (prs s) Hl) (rs_store rs) Hrs) as [H1 H2].
    destruct (run bhandler (f v (prs s)) (rs_store rs)) as [st r]. cbn [fst snd] in *.
    destruct r as [h|e|]; cbn in *; auto.
  Qed.

  Theorem run_op_np idx o rs : rs_ok rs ->
    outcome_np (snd (run_op cfg fuel idx o rs)) /\ rs_ok (fst (run_op cfg fuel idx o rs)).
  Proof.
    intros Hrs.
    assert (Hdef : outcome_np (snd (let '(st, r) := run bhandler (op_prog cfg fuel o) (rs_store rs) in (mkRS st (rs_regs rs), r)))
                   /\ rs_ok (fst (let '(st, r) := run bhandler (op_prog cfg fuel o) (rs_store rs) in (mkRS st (rs_regs rs), r)))).
    { destruct (np_run _ _ (op_prog_np o) (rs_store rs) Hrs) as [H1 H2].
      destruct (run bhandler (op_prog cfg fuel o) (rs_store rs)) as [st r]. cbn [fst snd] in *. auto. }
    destruct o; cbn [run_op]; try exact Hdef;
      try (apply run_handle_op_np; [intros; exact I|exact Hrs]);
      try (apply open_op_np; [|exact Hrs]; intros v p0 Hv).
    - now apply np_create_file.
    - now apply np_append_file.
    - now apply np_open_file.
  Qed.

  (** the whole case: no outcome is a panic *)
  Theorem run_ops_np ops : forall idx rs, rs_ok rs ->
    Forall (fun ol => outcome_np (fst ol)) (run_ops cfg fuel idx ops rs).
  Proof.
    induction ops as [|o ops IH]; intros idx rs Hrs; cbn [run_ops]; [constructor|].
    set (rs0 := mkRS (mkStore (st_bases (rs_store rs)) (st_handles (rs_store rs)) [] (st_fault (rs_store rs)) (st_io (rs_store rs))) (rs_regs rs)).
    assert (H0 : rs_ok rs0) by exact Hrs.
    destruct (run_op_np idx o rs0 H0) as [H1 H2].
    destruct (run_op cfg fuel idx o rs0) as [rs' r]. cbn [fst snd] in *.
    constructor; [exact H1|]. apply IH. exact H2.
  Qed.
End RunNP.

Theorem run_case_np fuel (c : case) : Forall (fun ol => outcome_np (fst ol)) (run_case fuel c).
Proof. unfold run_case. apply run_ops_np. unfold rs_ok, init_store. cbn. constructor. Qed.
