(** C11: copy_dir from one MemoryFS instance into another is EXACT - for a source subtree of any size and
    shape the destination becomes a structure-identical, byte-identical copy, the number of entries
    copied is returned, the source is untouched and so is everything outside the destination.

    The walk (VfsPath::walk_dir, a lazily expanded stack of directories) runs on the source while the
    loop creates directories and stream-copies files into the destination; the proof follows the
    iterator invariant of [WalkProofs] (what has been delivered, what is still to come, parents
    first) and carries the state of the destination along.

    Reading a file stamps its access time, so the source filesystem is not literally constant during the
    copy; it keeps its SHAPE ([same_shape]: the same entries with the same types and bytes, hence - by
    [SortNames] - the same listings), which is all the walk looks at. *)
From stdpp Require Import gmap list sorting.
From Coq Require Import NArith ZArith Lia.
From VFS Require Import Core.Types Core.Prog Core.Calls Spec.Tree Base.MemFS Base.Handles Base.PhysFS Base.Embedded Base.Store
  Layer.VfsPath Proofs.ProgProofs Proofs.MemProofs Proofs.MemCalls Proofs.MemPublic Proofs.ConcProofs Proofs.Composite
  Proofs.WalkProofs Proofs.CopyFile Proofs.OvlProofs Proofs.OvlList Proofs.OvlLife Proofs.OvlAppend Proofs.SortNames.

Lemma absf_is_dir f : absf f = NDir <-> f_type f = Dir.
Proof. unfold absf. destruct (f_type f); split; congruence. Qed.

Section CopyDir.
  Variables (lg : list (nat * fscall)) (ft : option (nat * nat)).
  Notation S2 a b hs := (mstore2 a b hs lg ft).
  Variable s1 : mstate.                     (* the source filesystem, behind v1 *)
  Hypothesis Hwf1 : wf s1.
  Variables (p p' : path).                  (* source directory, destination path (in the filesystem behind v0) *)

  (** where an entry of the source subtree goes *)
  Definition tr (y : path) : path := p' ++ drop (length p) y.

  Lemma below_split y : below p y -> y = p ++ drop (length p) y /\ drop (length p) y <> [].
  Proof.
    intros [Ht Hl]. split.
    - rewrite <- Ht at 1. symmetry. apply take_drop.
    - intros E. apply (f_equal length) in E. rewrite drop_length in E. cbn in E. lia.
  Qed.

  Lemma tr_inj y y' : below p y -> below p y' -> tr y = tr y' -> y = y'.
  Proof.
    intros Hy Hy' E. unfold tr in E. apply app_inv_head in E.
    rewrite <- (take_drop (length p) y), <- (take_drop (length p) y'). rewrite (proj1 Hy), (proj1 Hy'), E. reflexivity.
  Qed.

  Lemma tr_longer y : below p y -> length p' < length (tr y).
  Proof. intros Hy. unfold tr. rewrite app_length, drop_length. destruct Hy as [_ Hl]. lia. Qed.

  Lemma tr_app r : tr (p ++ r) = p' ++ r.
  Proof. unfold tr. now rewrite drop_app. Qed.

  Lemma below_snoc y : below p y -> exists r m, y = p ++ r ++ [m].
  Proof.
    intros Hy. destruct (below_inv p y Hy) as (n & r & ->).
    destruct (path_cases (n :: r)) as [E|(r0 & m & E)]; [discriminate|]. exists r0, m. now rewrite E.
  Qed.

  Lemma tr_parent y : below p y -> removelast y <> p -> below p (removelast y) /\ removelast (tr y) = tr (removelast y).
  Proof.
    intros Hy Hne. destruct (below_snoc y Hy) as (r & m & ->).
    rewrite app_assoc, removelast_last in Hne |- *.
    assert (Hr : r <> []) by (intros ->; rewrite app_nil_r in Hne; congruence).
    split; [apply below_app; exact Hr|].
    rewrite <- app_assoc, !tr_app, app_assoc, removelast_last. reflexivity.
  Qed.

  Lemma tr_parent_top y : below p y -> removelast y = p -> removelast (tr y) = p'.
  Proof.
    intros Hy He. destruct (below_snoc y Hy) as (r & m & ->).
    rewrite app_assoc, removelast_last in He.
    assert (r = []) as -> by (apply (app_inv_head p); rewrite app_nil_r; exact He).
    rewrite tr_app. cbn. apply removelast_last.
  Qed.

  (** the source while the loop runs: the same entries, types and bytes as at the start *)
  Definition same_shape (sc : mstate) : Prop :=
    (forall d, mem_children sc d = mem_children s1 d) /\
    (forall q, f_type <$> (sc !! q) = f_type <$> (s1 !! q)) /\
    (forall q, f_content <$> (sc !! q) = f_content <$> (s1 !! q)).

  Lemma same_shape_refl : same_shape s1.
  Proof. repeat split. Qed.

  Lemma same_shape_dir sc d : same_shape sc -> is_dir s1 d -> is_dir sc d.
  Proof.
    intros (_ & Ht & _) (f & Hf & Hft). specialize (Ht d). rewrite Hf in Ht. cbn in Ht.
    destruct (sc !! d) as [g|] eqn:Eg; [|discriminate]. injection Ht as Ht. exists g. split; [exact Eg|congruence].
  Qed.

  Lemma same_shape_lookup sc x f : same_shape sc -> s1 !! x = Some f ->
    exists g, sc !! x = Some g /\ f_type g = f_type f /\ f_content g = f_content f.
  Proof.
    intros (_ & Ht & Hc) Hf. specialize (Ht x). specialize (Hc x). rewrite Hf in Ht, Hc. cbn in *.
    destruct (sc !! x) as [g|] eqn:Eg; [|discriminate]. injection Ht as Ht. injection Hc as Hc. eauto.
  Qed.

  Lemma same_shape_touch sc x g : same_shape sc -> sc !! x = Some g -> f_type g = File ->
    same_shape (<[x := touched g]> sc).
  Proof.
    intros (Hk & Ht & Hc) Hg Hgt. split; [|split].
    - intros d. rewrite (mem_children_insert_same sc x g (touched g) d Hg). apply Hk.
    - intros q. destruct (decide (q = x)) as [->|Hne].
      + rewrite lookup_insert, <- Ht, Hg. cbn. now rewrite Hgt.
      + rewrite lookup_insert_ne by congruence. apply Ht.
    - intros q. destruct (decide (q = x)) as [->|Hne].
      + rewrite lookup_insert, <- Hc, Hg. reflexivity.
      + rewrite lookup_insert_ne by congruence. apply Hc.
  Qed.

  (** the walk on the source: the same pure function as on a single, unchanging filesystem *)
  Lemma run_walk_find1 (s0 sc : mstate) hs todo : same_shape sc -> forall inner, Forall (is_dir s1) todo ->
    run bhandler (walk_find v1 todo inner) (S2 s0 sc hs) = (S2 s0 sc hs, find_pure s1 todo inner).
  Proof.
    intros Hsh. induction todo as [|d todo IH]; intros inner Hd; destruct inner as [|x inner]; cbn [walk_find find_pure];
      try reflexivity.
    inversion Hd as [|? ? Hdd Hd']; subst.
    rewrite run_bind, rd1, (listing_dir sc d (same_shape_dir sc d Hsh Hdd)). rewrite (proj1 Hsh d). now apply IH.
  Qed.

  (** ** the destination while the loop runs: [s0i] is the destination filesystem with the (empty) target
      directory in place *)
  Variable s0i : mstate.
  Hypothesis Hwf0 : wf s0i.
  Hypothesis Hp'dir : is_dir s0i p'.
  Hypothesis Hp'empty : forall q, below p' q -> s0i !! q = None.

  Definition copied (done : list path) (sd : mstate) : Prop :=
    wf sd /\
    (forall y, y ∈ done -> exists f g, s1 !! y = Some f /\ sd !! tr y = Some g /\ absf g = absf f) /\
    (forall q, (forall y, y ∈ done -> q <> tr y) -> sd !! q = s0i !! q).

  Lemma below_tr y : below p y -> below p' (tr y).
  Proof.
    intros Hy. destruct (below_split y Hy) as [_ Hd]. unfold tr. apply below_app. exact Hd.
  Qed.

  Lemma copied_p' done sd : Forall (below p) done -> copied done sd -> is_dir sd p'.
  Proof.
    intros Hb (_ & _ & Hrest). destruct Hp'dir as (d & Hd & Hdt). exists d. split; [|exact Hdt].
    rewrite Hrest; [exact Hd|]. intros y Hy E. rewrite Forall_forall in Hb. pose proof (tr_longer y (Hb y Hy)) as Hl.
    rewrite <- E in Hl. lia.
  Qed.

  (** one more entry *)
  Lemma copied_step done sd x f g :
    Forall (below p) done -> below p x -> x ∉ done -> copied done sd ->
    s1 !! x = Some f -> absf g = absf f ->
    (f_type g = Dir \/ f_type g = File) ->
    (removelast x = p \/ removelast x ∈ done) ->
    sd !! tr x = None /\ is_dir sd (removelast (tr x)) /\ copied (x :: done) (<[tr x := g]> sd).
  Proof.
    intros Hb Hx Hnd Hc Hf Hg Hgt Hpar.
    pose proof (copied_p' done sd Hb Hc) as Hp'd.
    destruct Hc as ((Hr & Hpc) & Hdone & Hrest).
    assert (Hfree : sd !! tr x = None).
    { rewrite Hrest.
      - apply Hp'empty. apply below_tr, Hx.
      - intros y Hy E. apply Hnd. rewrite Forall_forall in Hb. rewrite (tr_inj x y Hx (Hb y Hy) E). exact Hy. }
    assert (Hpd : is_dir sd (removelast (tr x))).
    { destruct (decide (removelast x = p)) as [E|E].
      - rewrite (tr_parent_top x Hx E). exact Hp'd.
      - destruct Hpar as [Hpar|Hpar]; [congruence|]. destruct (tr_parent x Hx E) as [Hbp ->].
        destruct (Hdone _ Hpar) as (fp & gp & Hfp & Hgp & Hab).
        assert (Hfd : is_dir s1 (removelast x)).
        { destruct (path_cases x) as [->|(q & n & ->)]; [destruct Hx as [_ Hl]; cbn in Hl; lia|].
          rewrite removelast_last. apply (prefix_is_dir s1 Hwf1 q [n]); [discriminate|eauto]. }
        destruct Hfd as (fd & Hfd & Hfdt). rewrite Hfp in Hfd. injection Hfd as <-.
        exists gp. split; [exact Hgp|]. apply absf_is_dir. rewrite Hab. now apply absf_is_dir. }
    split; [exact Hfree|]. split; [exact Hpd|].
    assert (Hne : tr x <> []).
    { intros E. pose proof (tr_longer x Hx) as Hl. rewrite E in Hl. cbn in Hl. lia. }
    split; [|split].
    - split; [apply root_dir_insert_ne; auto|]. apply pc_insert_leaf; auto. eapply absent_is_leaf; eauto.
    - intros y Hy. apply elem_of_cons in Hy as [->|Hy].
      + exists f, g. rewrite lookup_insert. auto.
      + destruct (Hdone y Hy) as (fy & gy & Hfy & Hgy & Hab). exists fy, gy. split; [exact Hfy|]. split; [|exact Hab].
        rewrite lookup_insert_ne; [exact Hgy|]. intros E. apply Hnd. rewrite Forall_forall in Hb.
        rewrite (tr_inj x y Hx (Hb y Hy) E). exact Hy.
    - intros q Hq. rewrite lookup_insert_ne by (intros E; apply (Hq x); [left|symmetry; exact E]).
      apply Hrest. intros y Hy. apply Hq. now right.
  Qed.
  Definition dirent : memfile := mkMemFile Dir [] TAuto (Some TAuto) (Some TAuto).

  Lemma perm_facts done inner todo :
    done ++ rest s1 inner todo ≡ₚ desc s1 p ->
    Forall (below p) done /\ NoDup (done ++ rest s1 inner todo) /\
    (forall y, y ∈ rest s1 inner todo -> below p y /\ is_Some (s1 !! y)).
  Proof.
    intros Hp. split; [|split].
    - apply Forall_forall. intros y Hy. assert (y ∈ desc s1 p) by (rewrite <- Hp; apply elem_of_app; now left).
      now apply elem_of_desc in H.
    - rewrite Hp. apply NoDup_desc.
    - intros y Hy. assert (y ∈ desc s1 p) by (rewrite <- Hp; apply elem_of_app; now right).
      apply elem_of_desc in H. tauto.
  Qed.

  (** ** the loop of copy_dir *)
  Lemma copy_loop : forall n inner todo done cnt fuel sd sc hs,
    length (rest s1 inner todo) <= n -> n < fuel -> inv s1 p done inner todo ->
    done ++ rest s1 inner todo ≡ₚ desc s1 p -> copied done sd -> same_shape sc ->
    exists done' sd' sc' hs',
      run bhandler (copy_entries fuel v1 p v0 p' (mkWalker inner todo) cnt) (S2 sd sc hs) =
        (S2 sd' sc' hs', Ok (cnt + N.of_nat (length (rest s1 inner todo)))%N) /\
      done' ≡ₚ desc s1 p /\ copied done' sd' /\ same_shape sc'.
  Proof.
    induction n as [|n IH]; intros inner todo done cnt fuel sd sc hs Hlen Hfuel Hinv Hperm Hcop Hsh;
      (destruct fuel as [|fuel]; [lia|]); cbn [copy_entries]; unfold walk_next; cbn [w_todo w_inner];
      rewrite !run_bind, (run_walk_find1 sd sc hs todo Hsh inner (proj1 Hinv));
      destruct (find_pure s1 todo inner) as [it [inner' todo']] eqn:Ef;
      destruct (find_inv s1 Hwf1 p done todo inner it inner' todo' Hinv Ef) as [[-> Hr]|(x & -> & Hr & Hi)].
    - exists done, sd, sc, hs. cbn. rewrite Hr in *. cbn. rewrite N.add_0_r, app_nil_r in *. auto.
    - apply Permutation_length in Hr. unfold rest at 2 in Hr. cbn in Hr. lia.
    - exists done, sd, sc, hs. cbn. rewrite Hr in *. cbn. rewrite N.add_0_r, app_nil_r in *. auto.
    - cbn [fst snd].
      destruct Hi as (Hd & Hex & Hpar & Hdone).
      inversion Hex as [|? ? [f Hf] Hex']; subst. inversion Hpar as [|? ? Hpx Hpar']; subst.
      destruct (same_shape_lookup sc x f Hsh Hf) as (g & Hg & Hgt & Hgc).
      rewrite run_bind, md1, Hg. cbn [fst snd m_type mem_meta].
      set (todo'' := if isd s1 x then x :: todo' else todo').
      assert (Hrest : rest s1 (x :: inner') todo' ≡ₚ x :: rest s1 inner' todo'').
      { unfold rest, todo''. destruct (decide (isd s1 x = true)) as [E|E].
        - rewrite (filter_cons_True (fun x0 => isd s1 x0 = true) x inner' E), E. cbn [fdesc app]. apply Permutation_skip, Permutation_app_head.
          rewrite (Permutation_app_comm (desc s1 x)), <- app_assoc. reflexivity.
        - rewrite (filter_cons_False (fun x0 => isd s1 x0 = true) x inner' E). destruct (isd s1 x); [congruence|]. reflexivity. }
      assert (Hinv' : inv s1 p (x :: done) inner' todo'').
      { unfold todo''. split; [|split; [exact Hex'|split]].
        - destruct (isd s1 x) eqn:E; [|exact Hd]. constructor; [|exact Hd]. unfold isd in E. now apply bool_decide_eq_true in E.
        - eapply Forall_impl; [exact Hpar'|]. intros y [Hy|Hy]; [now left|right; now right].
        - destruct (isd s1 x); [constructor; [now left|]|]; (eapply Forall_impl; [exact Hdone|]; intros y Hy; now right). }
      assert (Hrx : rest s1 inner todo ≡ₚ x :: rest s1 inner' todo'') by (rewrite Hr; exact Hrest).
      assert (Hlen' : length (rest s1 inner' todo'') <= n).
      { apply Permutation_length in Hrx. cbn in Hrx. lia. }
      assert (Hperm' : (x :: done) ++ rest s1 inner' todo'' ≡ₚ desc s1 p).
      { rewrite <- Hperm, Hrx. cbn. rewrite (Permutation_middle done). reflexivity. }
      destruct (perm_facts done inner todo Hperm) as (Hb & Hnd & Hin).
      assert (Hxin : x ∈ rest s1 inner todo) by (rewrite Hrx; left).
      destruct (Hin x Hxin) as [Hbx _].
      assert (Hxnd : x ∉ done).
      { intros Hx. apply NoDup_app in Hnd as (_ & Hdisj & _). exact (Hdisj x Hx Hxin). }
      assert (Hcnt : (cnt + N.of_nat (length (rest s1 inner todo)) = cnt + 1 + N.of_nat (length (rest s1 inner' todo'')))%N).
      { apply Permutation_length in Hrx. rewrite Hrx. cbn [length]. rewrite Nat2N.inj_succ. lia. }
      rewrite Hcnt.
      assert (Hne : tr x <> []).
      { intros E. pose proof (tr_longer x Hbx) as Hl. rewrite E in Hl. cbn in Hl. lia. }
      assert (Hisd : isd s1 x = bool_decide (f_type f = Dir)) by exact (isd_type s1 x f Hf).
      rewrite Hgt.
      destruct (f_type f) eqn:Et.
      + (* a file: stream copy into the destination *)
        assert (Htodo : todo'' = todo') by (unfold todo''; rewrite Hisd, bool_decide_eq_false_2 by discriminate; reflexivity).
        rewrite Htodo in *. cbn [run fst snd]. fold (tr x).
        unfold bind_res at 1. rewrite run_bind, md1, Hg. cbn [run mem_meta m_type]. rewrite Hgt.
        destruct (copied_step done sd x f (fresh_file (f_content f)) Hb Hbx Hxnd Hcop Hf) as (Hfree & Hpd & Hcop');
          [unfold absf; cbn; rewrite Et; reflexivity|right; reflexivity|exact Hpx|].
        unfold bind_res at 1. rewrite run_bind, (copy_file_across lg ft sd sc hs x (tr x) g Hg Hgt Hne Hpd Hfree).
        rewrite Hgc.
        destruct (IH inner' todo' (x :: done) (cnt + 1)%N fuel _ (<[x := touched g]> sc) (hs ++ [HClosed; HClosed]) Hlen' ltac:(lia) Hinv' Hperm' Hcop'
                     (same_shape_touch sc x g Hsh Hg Hgt))
          as (done' & sd' & sc' & hs' & Hrun & Hd' & Hc' & Hs').
        exists done', sd', sc', hs'. split; [exact Hrun|]. split; [exact Hd'|split; [exact Hc'|exact Hs']].
      + (* a directory *)
        assert (Htodo : todo'' = x :: todo') by (unfold todo''; rewrite Hisd, bool_decide_eq_true_2 by reflexivity; reflexivity).
        rewrite Htodo in *. cbn [run fst snd w_inner w_todo]. fold (tr x).
        unfold bind_res at 1. rewrite run_bind, md1, Hg. cbn [run mem_meta m_type]. rewrite Hgt.
        destruct (copied_step done sd x f dirent Hb Hbx Hxnd Hcop Hf) as (Hfree & Hpd & Hcop');
          [unfold absf; cbn; rewrite Et; reflexivity|left; reflexivity|exact Hpx|].
        unfold bind_res at 1. rewrite run_bind, (create_dir0 lg ft sd sc hs (tr x) Hne Hpd Hfree).
        destruct (IH inner' (x :: todo') (x :: done) (cnt + 1)%N fuel _ sc hs Hlen' ltac:(lia) Hinv' Hperm' Hcop' Hsh)
          as (done' & sd' & sc' & hs' & Hrun & Hd' & Hc' & Hs').
        exists done', sd', sc', hs'. split; [exact Hrun|]. split; [exact Hd'|split; [exact Hc'|exact Hs']].
  Qed.
End CopyDir.

(** ** copy_dir between two MemoryFS instances *)
Lemma same_shape_abs (s1 sc : mstate) : same_shape s1 sc -> abs sc = abs s1.
Proof.
  intros (_ & Ht & Hc). apply map_eq. intros q. rewrite !abs_lookup. specialize (Ht q). specialize (Hc q).
  destruct (sc !! q) as [g|], (s1 !! q) as [f|]; cbn in *; try discriminate; [|reflexivity].
  injection Ht as Ht. injection Hc as Hc. unfold absf. now rewrite Ht, Hc.
Qed.

Theorem copy_dir_across (lg : list (nat * fscall)) (ft : option (nat * nat)) (s0 s1 : mstate) (hs : list hstate)
    (p p' : path) (fuel : nat) :
  wf s0 -> wf s1 -> is_dir s1 p ->
  p' <> [] -> is_dir s0 (removelast p') -> s0 !! p' = None ->
  length (desc s1 p) < fuel ->
  exists s0' s1' hs',
    run bhandler (vp_copy_dir fuel v1 p v0 p') (mstore2 s0 s1 hs lg ft) =
      (mstore2 s0' s1' hs' lg ft, Ok (N.of_nat (length (desc s1 p)))) /\
    abs s1' = abs s1 /\
    wf s0' /\ is_dir s0' p' /\
    (forall y, is_Some (s1 !! y) -> below p y -> absf <$> (s0' !! tr p p' y) = absf <$> (s1 !! y)) /\
    (forall q, q <> p' -> ~ below p' q -> s0' !! q = s0 !! q) /\
    (forall q, below p' q -> is_Some (s0' !! q) -> exists y, is_Some (s1 !! y) /\ below p y /\ q = tr p p' y).
Proof.
  intros Hwf0 Hwf1 Hpd Hne Hpar Hfree Hfuel.
  set (s0i := <[p' := dirent]> s0).
  assert (Hwfi : wf s0i).
  { destruct Hwf0 as [Hr Hpc]. split; [apply root_dir_insert_ne; auto|]. apply pc_insert_dir; auto. }
  assert (Hidir : is_dir s0i p') by (exists dirent; split; [apply lookup_insert|reflexivity]).
  assert (Hiempty : forall q, below p' q -> s0i !! q = None).
  { intros q Hq. destruct (below_inv p' q Hq) as (n & r & ->).
    unfold s0i. rewrite lookup_insert_ne by (intros E; apply (f_equal length) in E; rewrite app_length in E; cbn in E; lia).
    destruct (s0 !! (p' ++ n :: r)) as [x|] eqn:E; [|reflexivity]. exfalso.
    destruct (prefix_is_dir s0 Hwf0 p' (n :: r) ltac:(discriminate) ltac:(eauto)) as (d & Hd & _). congruence. }
  unfold vp_copy_dir, relabel, labelled, bind_res. rewrite !run_bind, exists0, Hfree.
  rewrite bool_decide_eq_false_2 by (intros [? ?]; discriminate).
  rewrite run_bind, (create_dir0 lg ft s0 s1 hs p' Hne Hpar Hfree). fold s0i.
  unfold vp_walk_dir, bind_res. rewrite !run_bind, rd1, (listing_dir s1 p Hpd). cbn [run].
  assert (Hinv : inv s1 p [] (kids s1 p) []).
  { split; [constructor|]. split; [|split; [|constructor]].
    - apply Forall_forall. intros k Hk. apply elem_of_kids in Hk as (n & _ & Hs). exact Hs.
    - apply Forall_forall. intros k Hk. apply elem_of_kids in Hk as (n & -> & _). left. now rewrite removelast_last. }
  assert (Hrest : rest s1 (kids s1 p) [] ≡ₚ desc s1 p).
  { unfold rest. cbn [fdesc]. rewrite app_nil_r. symmetry. apply (desc_unfold s1 Hwf1). }
  assert (Hcop : copied s1 p p' s0i [] s0i).
  { split; [exact Hwfi|]. split; [intros y Hy; inversion Hy|reflexivity]. }
  destruct (copy_loop lg ft s1 Hwf1 p p' s0i Hidir Hiempty (length (desc s1 p)) (kids s1 p) [] [] 0%N fuel s0i s1 hs)
    as (done' & sd' & sc' & hs' & Hrun & Hd' & Hc' & Hs'); [now rewrite Hrest|exact Hfuel|exact Hinv|exact Hrest|exact Hcop|apply same_shape_refl|].
  unfold kids in Hrun, Hrest. unfold s0i, dirent in Hrun. rewrite Hrun. rewrite (Permutation_length Hrest). cbn [run map_err]. rewrite N.add_0_l.
  exists sd', sc', hs'. split; [reflexivity|]. split; [apply same_shape_abs, Hs'|].
  assert (Hb : Forall (below p) done').
  { apply Forall_forall. intros y Hy. rewrite Hd' in Hy. now apply elem_of_desc in Hy. }
  pose proof (copied_p' s1 p p' s0i Hidir done' sd' Hb Hc') as Hp'd.
  destruct Hc' as (Hwf' & Hdone & Hout).
  split; [exact Hwf'|]. split; [exact Hp'd|]. split; [|split].
  - intros y Hy Hby. assert (Hin : y ∈ done') by (rewrite Hd'; apply elem_of_desc; auto).
    destruct (Hdone y Hin) as (f & g & Hf & Hg & Hab). rewrite Hf, Hg. cbn. now rewrite Hab.
  - intros q Hq Hnb. rewrite Hout.
    + unfold s0i. apply lookup_insert_ne. congruence.
    + intros y Hy ->. apply Hnb. apply below_tr. rewrite Forall_forall in Hb. now apply Hb.
  - intros q Hq Hsome. destruct (decide (q ∈ map (tr p p') done')) as [Hin|Hnin].
    + apply elem_of_list_fmap in Hin as (y & -> & Hy). exists y. rewrite Hd' in Hy. apply elem_of_desc in Hy as [Hy1 Hy2]. auto.
    + exfalso. rewrite Hout, (Hiempty q Hq) in Hsome; [destruct Hsome; discriminate|].
      intros y Hy ->. apply Hnin. apply elem_of_list_fmap. eauto.
Qed.
