(** The listing of a directory depends only on WHICH entries exist: replacing the value stored at an existing
    key (a timestamp stamped by a read, bytes published by a writer) leaves every listing unchanged.
    [mem_children] sorts the child names found in the map; the proof is that insertion sort over a total order
    does not depend on the order in which the elements arrive. *)
From stdpp Require Import gmap list sorting.
From Coq Require Import NArith ZArith Lia.
From VFS Require Import Core.Types Base.MemFS Proofs.MemProofs.

Lemma name_leb_refl a : name_leb a a = true.
Proof. induction a as [|x a IH]; cbn; [reflexivity|]. now rewrite N.ltb_irrefl. Qed.

Lemma name_leb_total a : forall b, name_leb a b = true \/ name_leb b a = true.
Proof.
  induction a as [|x a IH]; intros [|y b]; cbn; auto.
  destruct (N.ltb_spec x y), (N.ltb_spec y x); auto; try lia.
Qed.

Lemma name_leb_antisym a : forall b, name_leb a b = true -> name_leb b a = true -> a = b.
Proof.
  induction a as [|x a IH]; intros [|y b]; cbn; try discriminate; auto.
  destruct (N.ltb_spec x y), (N.ltb_spec y x); try discriminate; try lia.
  intros H1 H2. assert (x = y) by lia. subst. f_equal. now apply IH.
Qed.

Lemma name_leb_trans a : forall b c, name_leb a b = true -> name_leb b c = true -> name_leb a c = true.
Proof.
  induction a as [|x a IH]; intros [|y b] [|z c]; cbn; try discriminate; auto.
  destruct (N.ltb_spec x y), (N.ltb_spec y x), (N.ltb_spec y z), (N.ltb_spec z y), (N.ltb_spec x z), (N.ltb_spec z x);
    try discriminate; try lia; auto.
  apply IH.
Qed.

Lemma name_leb_false a b : name_leb a b = false -> name_leb b a = true.
Proof. intros H. destruct (name_leb_total a b) as [E|E]; congruence. Qed.

(** two insertions commute *)
Lemma insert_sorted_comm a b l :
  insert_sorted a (insert_sorted b l) = insert_sorted b (insert_sorted a l).
Proof.
  induction l as [|m l IH]; cbn [insert_sorted].
  - destruct (name_leb a b) eqn:Eab, (name_leb b a) eqn:Eba; try reflexivity.
    + now rewrite (name_leb_antisym a b Eab Eba).
    + apply name_leb_false in Eab. congruence.
  - destruct (name_leb b m) eqn:Ebm, (name_leb a m) eqn:Eam; cbn [insert_sorted]; rewrite ?Ebm, ?Eam.
    + destruct (name_leb a b) eqn:Eab, (name_leb b a) eqn:Eba; rewrite ?Eam, ?Ebm; try reflexivity.
      * now rewrite (name_leb_antisym a b Eab Eba).
      * apply name_leb_false in Eab. congruence.
    + (* b <= m < a *)
      assert (Eab : name_leb a b = false).
      { destruct (name_leb a b) eqn:E; [|reflexivity]. rewrite (name_leb_trans a b m E Ebm) in Eam. discriminate. }
      rewrite Eab, ?Eam. reflexivity.
    + (* a <= m < b *)
      assert (Eba : name_leb b a = false).
      { destruct (name_leb b a) eqn:E; [|reflexivity]. rewrite (name_leb_trans b a m E Eam) in Ebm. discriminate. }
      rewrite Eba, ?Ebm. reflexivity.
    + now rewrite IH.
Qed.

Lemma sort_names_perm l l' : l ≡ₚ l' -> sort_names l = sort_names l'.
Proof.
  induction 1 as [|x l l' _ IH|x y l|l1 l2 l3 _ IH1 _ IH2]; cbn.
  - reflexivity.
  - unfold sort_names in *. cbn. now rewrite IH.
  - unfold sort_names. cbn. apply insert_sorted_comm.
  - congruence.
Qed.

(** replacing the value at an existing key changes no listing *)
Lemma mem_children_insert_same (s : memfs) (x : path) (f g : memfile) (p : path) :
  s !! x = Some f -> mem_children (<[x := g]> s) p = mem_children s p.
Proof.
  intros Hx. unfold mem_children. apply sort_names_perm.
  rewrite <- (insert_delete_insert s x g).
  rewrite (map_to_list_insert (delete x s) x g) by apply lookup_delete.
  rewrite <- (map_to_list_delete s x f Hx). reflexivity.
Qed.

(** more generally the listing of d depends only on which children of d exist *)
Lemma children_raw_nodup (s : memfs) (p : path) : NoDup (omap (fun kv => child_of p (fst kv)) (map_to_list s)).
Proof.
  assert (Hk : NoDup (map fst (map_to_list s))) by apply NoDup_fst_map_to_list.
  induction (map_to_list s) as [|[k f] l IH]; cbn; [constructor|].
  cbn in Hk. inversion Hk as [|? ? Hnin Hnd]; subst.
  destruct (child_of p k) as [n|] eqn:E; cbn; [|auto].
  constructor; [|auto].
  rewrite elem_of_list_omap. intros ([k' f'] & Hin & Hc).
  apply MemProofs.child_of_spec in E. apply MemProofs.child_of_spec in Hc. cbn in Hc. subst.
  apply Hnin. apply elem_of_list_fmap. exists (p ++ [n], f'). auto.
Qed.

Lemma children_raw_elem (s : memfs) (p : path) n :
  n ∈ omap (fun kv => child_of p (fst kv)) (map_to_list s) <-> is_Some (s !! (p ++ [n])).
Proof.
  rewrite elem_of_list_omap. split.
  - intros ([k f] & Hin & Hc). apply MemProofs.child_of_spec in Hc. cbn in Hc. subst k.
    apply elem_of_map_to_list in Hin. eauto.
  - intros [f Hf]. exists (p ++ [n], f). split; [now apply elem_of_map_to_list|]. now apply MemProofs.child_of_spec.
Qed.

Lemma mem_children_ext (s s' : memfs) (d : path) :
  (forall n, is_Some (s !! (d ++ [n])) <-> is_Some (s' !! (d ++ [n]))) -> mem_children s d = mem_children s' d.
Proof.
  intros H. unfold mem_children. apply sort_names_perm.
  apply NoDup_Permutation; [apply children_raw_nodup|apply children_raw_nodup|].
  intros n. rewrite !children_raw_elem. apply H.
Qed.
