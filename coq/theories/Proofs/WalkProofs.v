(** C05, last sentence: walk_dir on a MemoryFS yields every descendant exactly once and every
    directory before anything inside it - for every well-formed tree, of any size and depth. *)
From stdpp Require Import gmap list sorting.
From Coq Require Import NArith ZArith Lia.
From VFS Require Import Core.Types Core.Prog Core.Calls Base.MemFS Base.Handles Base.PhysFS Base.Embedded Base.Store
  Layer.VfsPath Proofs.ProgProofs Proofs.MemProofs Proofs.MemCalls Proofs.MemPublic.

(** [k] lies strictly below [d] *)
Definition below (d k : path) : Prop := take (length d) k = d /\ length d < length k.
Global Instance below_dec d k : Decision (below d k).
Proof. unfold below. apply _. Defined.

Lemma below_app d r : r <> [] -> below d (d ++ r).
Proof.
  intros Hr. split; [now rewrite take_app|]. rewrite app_length. destruct r; [congruence|cbn; lia].
Qed.
Lemma below_inv d k : below d k -> exists n r, k = d ++ n :: r.
Proof.
  intros [H1 H2]. rewrite <- (take_drop (length d) k), H1.
  destruct (drop (length d) k) as [|n r] eqn:E; [|eauto].
  apply (f_equal length) in E. rewrite drop_length in E. cbn in E. lia.
Qed.
Lemma below_trans a b c : below a b -> below b c -> below a c.
Proof.
  intros Hab Hbc. destruct (below_inv _ _ Hab) as (n & r & ->). destruct (below_inv _ _ Hbc) as (m & t & ->).
  rewrite <- app_assoc. apply below_app. discriminate.
Qed.
Lemma below_irrefl a : ~ below a a.
Proof. intros [_ H]. lia. Qed.

Section Tree.
  Variable s : mstate.
  Hypothesis Hwf : wf s.

  Definition kids (d : path) : list path := map (fun n => d ++ [n]) (mem_children s d).
  Definition desc (d : path) : list path := filter (below d) (map fst (map_to_list s)).
  Definition isd (x : path) : bool := bool_decide (is_dir s x).
  Fixpoint fdesc (l : list path) : list path :=
    match l with [] => [] | x :: l' => desc x ++ fdesc l' end.

  Lemma elem_of_desc d k : k ∈ desc d <-> is_Some (s !! k) /\ below d k.
  Proof.
    unfold desc. rewrite elem_of_list_filter, elem_of_list_fmap. split.
    - intros [Hb ([k' f] & -> & Hin)]. apply elem_of_map_to_list in Hin. cbn. eauto.
    - intros [[f Hf] Hb]. split; [exact Hb|]. exists (k, f). split; [reflexivity|now apply elem_of_map_to_list].
  Qed.
  Lemma NoDup_desc d : NoDup (desc d).
  Proof. unfold desc. apply NoDup_filter, NoDup_fst_map_to_list. Qed.

  Lemma elem_of_kids d k : k ∈ kids d <-> exists n, k = d ++ [n] /\ is_Some (s !! k).
  Proof.
    unfold kids. rewrite elem_of_list_fmap. split.
    - intros (n & -> & Hn). apply mem_children_spec in Hn. eauto.
    - intros (n & -> & Hn). exists n. split; [reflexivity|now apply mem_children_spec].
  Qed.
  Lemma NoDup_kids d : NoDup (kids d).
  Proof.
    unfold kids. apply NoDup_fmap_2; [|apply mem_children_nodup].
    intros a b H. now apply app_inv_head in H as [= ->].
  Qed.

  (** every prefix of an existing path exists and is a directory *)
  Lemma prefix_is_dir d r : r <> [] -> is_Some (s !! (d ++ r)) -> is_dir s d.
  Proof.
    revert d. induction r as [|n r IH] using rev_ind; intros d Hr Hs; [congruence|].
    destruct Hs as [f Hf]. rewrite app_assoc in Hf. pose proof (proj2 Hwf _ _ _ Hf) as Hd.
    destruct r as [|m r']; [now rewrite app_nil_r in Hd|].
    apply IH; [discriminate|]. destruct Hd as (g & Hg & _). eauto.
  Qed.

  Lemma elem_of_fdesc l k : k ∈ fdesc l <-> exists x, x ∈ l /\ k ∈ desc x.
  Proof.
    induction l as [|x l IH]; cbn.
    - split; [intros H; inversion H|intros (x & Hx & _); inversion Hx].
    - rewrite elem_of_app, IH. split.
      + intros [H|(y & Hy & Hk)]; [exists x; split; [left|exact H]|exists y; split; [now right|exact Hk]].
      + intros (y & Hy & Hk). apply elem_of_cons in Hy as [->|Hy]; [now left|right; eauto].
  Qed.

  (** the descendants of a directory: its children, and the descendants of the children that are
      directories *)
  Lemma desc_unfold d : desc d ≡ₚ kids d ++ fdesc (filter (fun x => isd x = true) (kids d)).
  Proof.
    apply NoDup_Permutation; [apply NoDup_desc| |].
    - apply NoDup_app. split; [apply NoDup_kids|]. split.
      + intros k Hk Hf. apply elem_of_kids in Hk as (n & -> & _).
        apply elem_of_fdesc in Hf as (x & Hx & Hd). apply elem_of_list_filter in Hx as [_ Hx].
        apply elem_of_kids in Hx as (m & -> & _). apply elem_of_desc in Hd as [_ [_ Hl]].
        rewrite !app_length in Hl. cbn in Hl. lia.
      + assert (Hgen : forall l, NoDup l -> (forall x, x ∈ l -> exists n, x = d ++ [n]) -> NoDup (fdesc l)).
        { induction l as [|x l IH]; intros Hnd Hl; cbn; [constructor|].
          inversion Hnd as [|? ? Hnin Hnd']; subst.
          apply NoDup_app. split; [apply NoDup_desc|]. split; [|apply IH; [exact Hnd'|intros y Hy; apply Hl; now right]].
          intros k Hk Hf. apply elem_of_fdesc in Hf as (y & Hy & Hky).
          destruct (Hl x ltac:(left)) as (n & ->). destruct (Hl y ltac:(now right)) as (m & ->).
          apply elem_of_desc in Hk as [_ Hk]. apply elem_of_desc in Hky as [_ Hky].
          destruct Hk as [Hk1 _]. destruct Hky as [Ht _]. rewrite !app_length in *. cbn [length] in *.
          rewrite Hk1 in Ht.
          apply app_inv_head in Ht as [= ->]. apply Hnin. exact Hy. }
        apply Hgen; [apply NoDup_filter, NoDup_kids|].
        intros x Hx. apply elem_of_list_filter in Hx as [_ Hx]. apply elem_of_kids in Hx as (n & -> & _). eauto.
    - intros k. rewrite elem_of_desc, elem_of_app, elem_of_kids, elem_of_fdesc. split.
      + intros [Hs Hb]. destruct (below_inv _ _ Hb) as (n & r & ->).
        destruct r as [|m r]; [left; eauto|]. right. exists (d ++ [n]). split.
        * apply elem_of_list_filter. split.
          -- unfold isd. apply bool_decide_eq_true. apply (prefix_is_dir (d ++ [n]) (m :: r)); [discriminate|].
             now rewrite <- app_assoc.
          -- apply elem_of_kids. exists n. split; [reflexivity|].
             assert (Hd : is_dir s (d ++ [n])).
             { apply (prefix_is_dir (d ++ [n]) (m :: r)); [discriminate|]. now rewrite <- app_assoc. }
             destruct Hd as (g & Hg & _). eauto.
        * apply elem_of_desc. split; [exact Hs|]. replace (d ++ n :: m :: r) with ((d ++ [n]) ++ m :: r) by now rewrite <- app_assoc.
          apply below_app. discriminate.
      + intros [(n & -> & Hs)|(x & Hx & Hk)].
        * split; [exact Hs|apply below_app; discriminate].
        * apply elem_of_list_filter in Hx as [_ Hx]. apply elem_of_kids in Hx as (n & -> & _).
          apply elem_of_desc in Hk as [Hs Hb]. split; [exact Hs|].
          eapply below_trans; [|exact Hb]. apply below_app. discriminate.
  Qed.
End Tree.

Section Walker.
  Variables (hs : list hstate) (lg : list (nat * fscall)) (ft : option (nat * nat)).
  Notation S s := (mstore s hs lg ft).
  Variable s : mstate.
  Hypothesis Hwf : wf s.
  Variable p0 : path.                         (* where the walk started *)

  (** what the loop of next() finds on a tree that does not change *)
  Fixpoint find_pure (todo : list path) (inner : list path) {struct todo} : option (res path) * walker :=
    match inner with
    | x :: inner' => (Some (Ok x), mkWalker inner' todo)
    | [] => match todo with
            | [] => (None, mkWalker [] [])
            | d :: todo' => find_pure todo' (kids s d)
            end
    end.

  Lemma run_walk_find todo : forall inner, Forall (is_dir s) todo ->
    run bhandler (walk_find mv todo inner) (S s) = (S s, find_pure todo inner).
  Proof.
    induction todo as [|d todo IH]; intros inner Hd; destruct inner as [|x inner]; cbn [walk_find find_pure];
      try reflexivity.
    inversion Hd as [|? ? (f & Hf & Ht) Hd']; subst.
    rewrite run_bind, call_read_dir, Hf, Ht. now apply IH.
  Qed.

  (** everything the walk still has to deliver *)
  Definition rest (inner todo : list path) : list path :=
    inner ++ fdesc s (filter (fun x => isd s x = true) inner) ++ fdesc s todo.

  (** the state between two items: [done] is what has been delivered *)
  Definition inv (done inner todo : list path) : Prop :=
    Forall (is_dir s) todo /\ Forall (fun x => is_Some (s !! x)) inner /\
    Forall (fun y => removelast y = p0 \/ removelast y ∈ done) inner /\ Forall (fun d => d ∈ done) todo.

  Lemma rest_pop d todo : is_dir s d -> rest [] (d :: todo) ≡ₚ rest (kids s d) todo.
  Proof.
    intros _. unfold rest. rewrite filter_nil. cbn [fdesc app]. rewrite (desc_unfold s Hwf d). now rewrite <- app_assoc.
  Qed.

  Lemma find_inv done todo : forall inner it inner' todo',
    inv done inner todo -> find_pure todo inner = (it, mkWalker inner' todo') ->
    (it = None /\ rest inner todo = []) \/
    (exists x, it = Some (Ok x) /\ rest inner todo ≡ₚ rest (x :: inner') todo' /\ inv done (x :: inner') todo').
  Proof.
    induction todo as [|d todo IH]; intros inner it inner' todo' Hinv Hf; destruct inner as [|x inner]; cbn [find_pure] in Hf.
    - injection Hf as <- <- <-. left. split; reflexivity.
    - injection Hf as <- <- <-. right. exists x. split; [reflexivity|]. split; [reflexivity|exact Hinv].
    - destruct Hinv as (Hd & _ & _ & Hdone).
      inversion Hd as [|? ? Hdd Hd']; subst. inversion Hdone as [|? ? Hdin Hdone']; subst.
      assert (Hinv' : inv done (kids s d) todo).
      { split; [exact Hd'|]. split; [|split; [|exact Hdone']].
        - apply Forall_forall. intros k Hk. apply elem_of_kids in Hk as (n & _ & Hs). exact Hs.
        - apply Forall_forall. intros k Hk. apply elem_of_kids in Hk as (n & -> & _).
          right. now rewrite removelast_last. }
      destruct (IH (kids s d) it inner' todo' Hinv' Hf) as [[-> Hr]|(x & -> & Hr & Hi)].
      + left. split; [reflexivity|]. apply Permutation_nil_r. rewrite (rest_pop d todo Hdd), Hr. reflexivity.
      + right. exists x. split; [reflexivity|]. split; [|exact Hi]. now rewrite (rest_pop d todo Hdd).
    - injection Hf as <- <- <-. right. exists x. split; [reflexivity|]. split; [reflexivity|exact Hinv].
  Qed.

  Lemma isd_type x f : s !! x = Some f -> isd s x = bool_decide (f_type f = Dir).
  Proof.
    intros Hf. unfold isd. apply bool_decide_ext. unfold is_dir. rewrite Hf. split.
    - intros (g & [= <-] & Hg). exact Hg.
    - intros Hg. eauto.
  Qed.

  (** parents first: every item's parent is the start of the walk or was delivered before it *)
  Fixpoint pfirst (done L : list path) : Prop :=
    match L with
    | [] => True
    | y :: L' => (removelast y = p0 \/ removelast y ∈ done) /\ pfirst (y :: done) L'
    end.

  Lemma walk_mem_gen : forall n inner todo done acc fuel,
    length (rest inner todo) <= n -> n < fuel -> inv done inner todo ->
    exists L, run bhandler (walk_collect mv fuel (mkWalker inner todo) acc) (S s) = (S s, Ok (reverse acc ++ map Ok L)) /\
              L ≡ₚ rest inner todo /\ pfirst done L.
  Proof.
    induction n as [|n IH]; intros inner todo done acc fuel Hlen Hfuel Hinv;
      (destruct fuel as [|fuel]; [lia|]); cbn [walk_collect]; unfold walk_next; cbn [w_todo w_inner];
      rewrite !run_bind, (run_walk_find todo inner (proj1 Hinv));
      destruct (find_pure todo inner) as [it [inner' todo']] eqn:Ef;
      destruct (find_inv done todo inner it inner' todo' Hinv Ef) as [[-> Hr]|(x & -> & Hr & Hi)].
    - exists []. cbn. rewrite app_nil_r, Hr. auto.
    - apply Permutation_length in Hr. unfold rest at 2 in Hr. cbn in Hr. lia.
    - exists []. cbn. rewrite app_nil_r, Hr. auto.
    - cbn [fst snd].
      destruct Hi as (Hd & Hex & Hpar & Hdone).
      inversion Hex as [|? ? [f Hf] Hex']; subst. inversion Hpar as [|? ? Hpx Hpar']; subst.
      rewrite run_bind, call_metadata, Hf. cbn [fst snd m_type mem_meta].
      set (todo'' := if isd s x then x :: todo' else todo').
      assert (Hrest : rest (x :: inner') todo' ≡ₚ x :: rest inner' todo'').
      { unfold rest, todo''. destruct (decide (isd s x = true)) as [E|E].
        - rewrite (filter_cons_True (fun x0 => isd s x0 = true) x inner' E), E. cbn [fdesc app]. apply Permutation_skip, Permutation_app_head.
          rewrite (Permutation_app_comm (desc s x)), <- app_assoc. reflexivity.
        - rewrite (filter_cons_False (fun x0 => isd s x0 = true) x inner' E). destruct (isd s x); [congruence|]. reflexivity. }
      assert (Hinv' : inv (x :: done) inner' todo'').
      { unfold todo''. split; [|split; [exact Hex'|split]].
        - destruct (isd s x) eqn:E; [|exact Hd]. constructor; [|exact Hd]. unfold isd in E. now apply bool_decide_eq_true in E.
        - eapply Forall_impl; [exact Hpar'|]. intros y [Hy|Hy]; [now left|right; now right].
        - destruct (isd s x); [constructor; [now left|]|]; (eapply Forall_impl; [exact Hdone|]; intros y Hy; now right). }
      assert (Hlen' : length (rest inner' todo'') <= n).
      { rewrite Hr, Hrest in Hlen. cbn in Hlen. lia. }
      destruct (IH inner' todo'' (x :: done) (Ok x :: acc) fuel Hlen' ltac:(lia) Hinv') as (L & HL & HLp & HLo).
      exists (x :: L). split; [|split].
      + unfold todo'' in HL. rewrite (isd_type x f Hf) in HL.
        destruct (f_type f) eqn:Et.
        * rewrite bool_decide_eq_false_2 in HL by discriminate. cbn [run fst snd].
          rewrite HL, reverse_cons, <- app_assoc. reflexivity.
        * rewrite bool_decide_eq_true_2 in HL by reflexivity. cbn [run fst snd w_inner w_todo].
          rewrite HL, reverse_cons, <- app_assoc. reflexivity.
      + rewrite Hr, Hrest. now apply Permutation_skip.
      + cbn. split; [exact Hpx|exact HLo].
  Qed.

  (** walk_dir on a directory of a well-formed MemoryFS *)
  Theorem walk_dir_mem fuel : is_dir s p0 -> length (desc s p0) < fuel ->
    exists L,
      run bhandler (let* r := vp_walk_dir mv p0 in
                    match r with
                    | Ok w => walk_collect mv fuel w []
                    | Err e => Ret (Err e)
                    | Panic => Ret Panic
                    end) (S s) = (S s, Ok (map Ok L)) /\
      L ≡ₚ desc s p0 /\ pfirst [] L.
  Proof.
    intros (f & Hf & Ht) Hfuel. unfold vp_walk_dir, bind_res.
    rewrite !run_bind, call_read_dir, Hf, Ht. cbn [run].
    assert (Hinv : inv [] (kids s p0) []).
    { split; [constructor|]. split; [|split; [|constructor]].
      - apply Forall_forall. intros k Hk. apply elem_of_kids in Hk as (n & _ & Hs). exact Hs.
      - apply Forall_forall. intros k Hk. apply elem_of_kids in Hk as (n & -> & _). left. now rewrite removelast_last. }
    assert (Hrest : rest (kids s p0) [] ≡ₚ desc s p0).
    { unfold rest. cbn [fdesc]. rewrite app_nil_r. symmetry. apply (desc_unfold s Hwf). }
    destruct (walk_mem_gen (length (desc s p0)) (kids s p0) [] [] [] fuel) as (L & HL & HLp & HLo);
      [now rewrite Hrest|exact Hfuel|exact Hinv|].
    exists L. split; [exact HL|]. split; [now rewrite HLp|exact HLo].
  Qed.

  (** exactly once, exactly the descendants *)
  Corollary walk_dir_mem_exact L : is_dir s p0 ->
    L ≡ₚ desc s p0 -> NoDup L /\ forall k, k ∈ L <-> is_Some (s !! k) /\ below p0 k.
  Proof.
    intros _ HL. split; [rewrite HL; apply NoDup_desc|]. intros k. rewrite HL. apply elem_of_desc.
  Qed.
End Walker.
