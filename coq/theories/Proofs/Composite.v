(** Composite operations on a MemoryFS instance (C11): create_dir_all is exact. *)
From stdpp Require Import gmap list.
From Coq Require Import NArith ZArith Lia.
From VFS Require Import Core.Types Core.Prog Core.Calls Base.MemFS Base.Handles Base.Store Layer.VfsPath Spec.Tree
  Proofs.ProgProofs Proofs.MemProofs Proofs.MemCalls Proofs.MemPublic Proofs.ConcProofs.

Notation mstate := (gmap (list (list N)) memfile).

(** the loop of create_dir_all as a function of the MemoryFS state *)
Fixpoint cda_pure (s : mstate) (ds : list (list (list N))) : mstate * res unit :=
  match ds with
  | [] => (s, Ok tt)
  | d :: rest =>
      let '(s', r) := mem_step (CCreateDir d) s in
      match r with
      | Ok _ => cda_pure s' rest
      | Err e => match e_kind e with
                 | EDirExists => cda_pure s' rest
                 | _ => (s', Err (with_path e (PPath d)))
                 end
      | Panic => (s', Panic)
      end
  end.

Section Cda.
  Variables (hs : list hstate) (lg : list (nat * fscall)) (ft : option (nat * nat)).
  Notation S s := (mstore s hs lg ft).

  Lemma call_create_dir_trait (s : mstate) d :
    run bhandler (v_impl mv (CCreateDir d)) (S s) = (S (fst (mem_step (CCreateDir d) s)), snd (mem_step (CCreateDir d) s)).
  Proof. cbn. unfold mem_fs_call. destruct (mem_step (CCreateDir d) s) as [s' r]. reflexivity. Qed.

  Lemma run_create_dirs ds : forall (s : mstate),
    run bhandler (create_dirs mv ds) (S s) = (S (fst (cda_pure s ds)), snd (cda_pure s ds)).
  Proof.
    induction ds as [|d rest IH]; intros s; [reflexivity|].
    cbn [create_dirs cda_pure]. rewrite run_bind, call_create_dir_trait.
    destruct (mem_step (CCreateDir d) s) as [s' [u|e|]]; cbn [fst snd]; [apply IH| |reflexivity].
    destruct (e_kind e); try reflexivity. apply IH.
  Qed.
End Cda.

(** with no file in the way every step is Ok or the tolerated DirectoryExists: the loop succeeds,
    every listed directory is in place, nothing else changed, the tree is still well formed *)
Lemma cda_pure_ok ds : forall (s : mstate) done,
  wf s -> good s (prev_of (mkCT done ds)) (mkCT done ds) ->
  let s' := fst (cda_pure s ds) in
  snd (cda_pure s ds) = Ok tt /\ Forall (is_dir s') ds /\ wf s' /\
  (forall q, q ∉ ds -> s' !! q = s !! q) /\ (forall q, is_dir s q -> is_dir s' q).
Proof.
  induction ds as [|d rest IH]; intros s done Hwf Hg; cbn zeta.
  { cbn. split; [reflexivity|]. split; [apply Forall_nil_2|]. auto. }
  destruct (cstep_good s (mkCT done (d :: rest)) Hg) as (t' & E & G' & _).
  unfold cstep in E, G'. cbn [ct_todo ct_done] in E, G'.
  cbn [cda_pure].
  pose proof (mem_step_wf (CCreateDir d) s Hwf I) as Hwf'.
  pose proof (mem_step_frame (CCreateDir d) s) as Hfr.
  destruct (create_dir_mono s d) as [M1 M2].
  destruct (mem_step (CCreateDir d) s) as [s1 r] eqn:Es. cbn [fst snd] in *.
  assert (Ht' : t' = mkCT (done ++ [d]) rest /\ (r = Ok tt \/ exists e, r = Err e /\ e_kind e = EDirExists)).
  { destruct r as [[]|e|]; [inversion E; auto| |discriminate].
    destruct (e_kind e) eqn:Ek; try discriminate. inversion E. split; [reflexivity|right; eauto]. }
  destruct Ht' as [-> Hr].
  specialize (IH s1 (done ++ [d]) Hwf' G'). cbn zeta in IH.
  assert (Hsame : cda_pure s1 rest = match r with
                                     | Ok _ => cda_pure s1 rest
                                     | Err e => match e_kind e with EDirExists => cda_pure s1 rest | _ => (s1, Err (with_path e (PPath d))) end
                                     | Panic => (s1, Panic)
                                     end).
  { destruct Hr as [->|(e & -> & ->)]; reflexivity. }
  rewrite <- Hsame. destruct IH as (R1 & R2 & R3 & R4 & R5).
  assert (Hd1 : is_dir s1 d).
  { destruct G' as (Hd & _). unfold prev_of in Hd. cbn in Hd. now rewrite last_snoc in Hd. }
  split; [exact R1|]. split; [constructor; [now apply R5|exact R2]|]. split; [exact R3|]. split.
  - intros q Hq. rewrite R4 by (intros H; apply Hq; apply elem_of_cons; auto).
    apply Hfr. cbn. intros H. apply Hq. apply elem_of_list_singleton in H. subst. apply elem_of_cons; auto.
  - intros q Hq. apply R5, M1, Hq.
Qed.

(** create_dir_all through the public API on a MemoryFS instance *)
Theorem create_dir_all_exact (hs : list hstate) (lg : list (nat * fscall)) (ft : option (nat * nat)) (s : mstate) (p : list (list N)) :
  wf s -> Forall (not_file s) (prefixes p) ->
  exists s', run bhandler (vp_create_dir_all mv p) (mstore s hs lg ft) = (mstore s' hs lg ft, Ok tt) /\
    Forall (is_dir s') (prefixes p) /\ wf s' /\
    (forall q, q ∉ prefixes p -> s' !! q = s !! q) /\ (forall q, is_dir s q -> is_dir s' q).
Proof.
  intros Hwf Hn. unfold vp_create_dir_all. rewrite run_create_dirs.
  pose proof (cda_pure_ok (prefixes p) s [] Hwf (cda_thread_good s p Hwf Hn)) as H. cbn zeta in H.
  destruct H as (R1 & R2 & R3 & R4 & R5). rewrite R1. eexists. split; [reflexivity|]. auto.
Qed.
