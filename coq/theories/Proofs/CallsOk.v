(** A syntactic predicate on programs: every call that the program can issue,
    whatever the replies are (continuations are functions of the reply, so all
    failing and faulted executions are included), satisfies [ok].  Closed under
    [bind] without any extensionality axiom. *)
From stdpp Require Import list.
From Coq Require Import NArith ZArith.
From VFS Require Import Core.Types Core.Prog Core.Calls Layer.VfsPath.

Section CallsOk.
  Context {C : Type} {rep : C -> Type}.
  Variable ok : C -> Prop.

  Inductive calls_ok {R} : prog rep R -> Prop :=
  | CO_ret (r : R) : calls_ok (Ret r)
  | CO_call (c : C) (k : rep c -> prog rep R) :
      ok c -> (forall x, calls_ok (k x)) -> calls_ok (Call c k).

  Lemma calls_ok_bind {R T} (m : prog rep R) (f : R -> prog rep T) :
    calls_ok m -> (forall x, calls_ok (f x)) -> calls_ok (bind m f).
  Proof.
    intros Hm Hf. induction Hm as [r|c k Hc Hk IH]; cbn; [apply Hf|].
    constructor; [exact Hc|]. intros x. apply IH.
  Qed.

  Lemma calls_ok_bind_res {R T} (m : prog rep (res R)) (f : R -> prog rep (res T)) :
    calls_ok m -> (forall x, calls_ok (f x)) -> calls_ok (bind_res m f).
  Proof.
    intros Hm Hf. unfold bind_res. apply calls_ok_bind; [exact Hm|].
    intros [v|e|]; [apply Hf|constructor|constructor].
  Qed.

  (** the same with a postcondition on the values the program can return *)
  Inductive calls_okQ {R} (Q : R -> Prop) : prog rep R -> Prop :=
  | COQ_ret (r : R) : Q r -> calls_okQ Q (Ret r)
  | COQ_call (c : C) (k : rep c -> prog rep R) :
      ok c -> (forall x, calls_okQ Q (k x)) -> calls_okQ Q (Call c k).

  Lemma calls_okQ_ok {R} (Q : R -> Prop) (m : prog rep R) : calls_okQ Q m -> calls_ok m.
  Proof. induction 1; constructor; auto. Qed.

  Lemma calls_ok_okQ {R} (m : prog rep R) : calls_ok m -> calls_okQ (fun _ => True) m.
  Proof. induction 1; constructor; auto. Qed.

  Lemma calls_okQ_bind {R T} (Q : R -> Prop) (Q' : T -> Prop) (m : prog rep R) (f : R -> prog rep T) :
    calls_okQ Q m -> (forall x, Q x -> calls_okQ Q' (f x)) -> calls_okQ Q' (bind m f).
  Proof.
    intros Hm Hf. induction Hm as [r Hr|c k Hc Hk IH]; cbn; [now apply Hf|].
    constructor; [exact Hc|]. intros x. apply IH.
  Qed.

  Lemma calls_okQ_bind_res {R T} (Q : R -> Prop) (Q' : res T -> Prop) (m : prog rep (res R))
      (f : R -> prog rep (res T)) :
    calls_okQ (fun r => match r with Ok x => Q x | _ => True end) m ->
    (forall e, Q' (Err e)) -> Q' Panic ->
    (forall x, Q x -> calls_okQ Q' (f x)) -> calls_okQ Q' (bind_res m f).
  Proof.
    intros Hm He Hp Hf. unfold bind_res. eapply calls_okQ_bind; [exact Hm|].
    intros [x|e|] Hx; [now apply Hf|constructor; apply He|constructor; apply Hp].
  Qed.

  Lemma calls_okQ_weaken {R} (Q Q' : R -> Prop) (m : prog rep R) :
    (forall x, Q x -> Q' x) -> calls_okQ Q m -> calls_okQ Q' m.
  Proof. intros H. induction 1; constructor; auto. Qed.
End CallsOk.

(** semantic consequence: a state component that no permitted call changes is
    unchanged by the whole run *)
Section Preserve.
  Context {C : Type} {rep : C -> Type} {S X : Type}.
  Variable h : handler rep S.
  Variable ok : C -> Prop.
  Variable proj : S -> X.
  Hypothesis ok_preserves : forall c s, ok c -> proj (fst (h c s)) = proj s.

  Lemma calls_ok_preserves {R} (m : prog rep R) s :
    calls_ok ok m -> proj (fst (run h m s)) = proj s.
  Proof.
    intros Hm. revert s. induction Hm as [r|c k Hc Hk IH]; intros s; cbn; [reflexivity|].
    specialize (ok_preserves c s Hc). destruct (h c s) as [s' x]. cbn in *.
    rewrite IH. exact ok_preserves.
  Qed.
End Preserve.

Global Hint Constructors calls_ok : core.
