(** C10: the life cycle of a deletion marker on an overlay of two MemoryFS layers: removing a file that
    exists only in the lower layer leaves the lower layer alone and sets the marker in the upper
    layer - after which the file is absent from every observation; nothing else changes. *)
From stdpp Require Import gmap list sorting.
From Coq Require Import NArith ZArith Lia.
From VFS Require Import Core.Types Core.Prog Core.Calls Base.MemFS Base.Handles Base.PhysFS Base.Embedded Base.Store
  Layer.VfsPath Layer.Overlay Proofs.ProgProofs Proofs.MemProofs Proofs.MemCalls Proofs.MemPublic Proofs.ConcProofs
  Proofs.Composite Proofs.OvlProofs Proofs.OvlList.

Lemma self_prefix (w : path) : w <> [] -> w ∈ prefixes w.
Proof.
  intros Hw. unfold prefixes. apply elem_of_list_fmap. exists (length w). split; [now rewrite firstn_all|].
  apply elem_of_seq. destruct w; [congruence|cbn; lia].
Qed.
Lemma prefixes_removelast (w q : path) : w <> [] -> q ∈ prefixes (removelast w) -> q ∈ prefixes w.
Proof.
  intros Hw Hin. destruct (path_cases w) as [->|(q' & m & ->)]; [congruence|]. rewrite removelast_last in Hin.
  unfold prefixes in *. apply elem_of_list_fmap in Hin as (k & -> & Hk). apply elem_of_seq in Hk.
  apply elem_of_list_fmap. exists k. split.
  - rewrite take_app_le by lia. reflexivity.
  - apply elem_of_seq. rewrite app_length. cbn. lia.
Qed.
Lemma prefixes_cases (w q : path) : w <> [] -> q ∈ prefixes w -> q ∈ prefixes (removelast w) \/ q = w.
Proof.
  intros Hw Hin. destruct (path_cases w) as [->|(q' & m & ->)]; [congruence|]. rewrite removelast_last.
  unfold prefixes in *. apply elem_of_list_fmap in Hin as (k & -> & Hk). apply elem_of_seq in Hk.
  rewrite app_length in Hk. cbn in Hk.
  destruct (decide (k = length q' + 1)) as [->|Hne].
  - right. rewrite firstn_all2 by (rewrite app_length; cbn; lia). reflexivity.
  - left. apply elem_of_list_fmap. exists k. split; [rewrite take_app_le by lia; reflexivity|]. apply elem_of_seq. lia.
Qed.

Lemma not_prefix_of_parent (w : path) : w <> [] -> w ∉ prefixes (removelast w).
Proof.
  intros Hw Hin. destruct (path_cases w) as [->|(q' & m & ->)]; [congruence|]. rewrite removelast_last in Hin.
  unfold prefixes in Hin. apply elem_of_list_fmap in Hin as (k & Hk & _).
  apply (f_equal length) in Hk. rewrite take_length, app_length in Hk. cbn in Hk. lia.
Qed.

Section Life.
  Variables (lg : list (nat * fscall)) (ft : option (nat * nat)).
  Notation S2 a b hs := (mstore2 a b hs lg ft).
  Notation top := (v0, @nil (list N)).
  Notation lower := [(v1, @nil (list N))].

  (** create_dir_all on the upper layer *)
  Lemma call_create_dir_trait0 (s0 s1 : mstate) hs d :
    run bhandler (v_impl v0 (CCreateDir d)) (S2 s0 s1 hs) =
    (S2 (fst (mem_step (CCreateDir d) s0)) s1 hs, snd (mem_step (CCreateDir d) s0)).
  Proof. cbn. unfold mem_fs_call. destruct (mem_step (CCreateDir d) s0) as [s' r]. reflexivity. Qed.

  Lemma run_create_dirs0 ds : forall (s0 s1 : mstate) hs,
    run bhandler (create_dirs v0 ds) (S2 s0 s1 hs) = (S2 (fst (cda_pure s0 ds)) s1 hs, snd (cda_pure s0 ds)).
  Proof.
    induction ds as [|d rest IH]; intros s0 s1 hs; [reflexivity|].
    cbn [create_dirs cda_pure]. rewrite run_bind, call_create_dir_trait0.
    destruct (mem_step (CCreateDir d) s0) as [s' [u|e|]]; cbn [fst snd]; [apply IH| |reflexivity].
    destruct (e_kind e); try reflexivity. apply IH.
  Qed.

  Lemma create_dir_all0 (s0 s1 : mstate) hs (p : path) :
    wf s0 -> Forall (not_file s0) (prefixes p) ->
    exists s', run bhandler (vp_create_dir_all v0 p) (S2 s0 s1 hs) = (S2 s' s1 hs, Ok tt) /\
      Forall (is_dir s') (prefixes p) /\ wf s' /\
      (forall q, q ∉ prefixes p -> s' !! q = s0 !! q) /\ (forall q, is_dir s0 q -> is_dir s' q).
  Proof.
    intros Hwf Hn. unfold vp_create_dir_all. rewrite run_create_dirs0.
    pose proof (cda_pure_ok (prefixes p) s0 [] Hwf (cda_thread_good s0 p Hwf Hn)) as H. cbn zeta in H.
    destruct H as (R1 & R2 & R3 & R4 & R5). rewrite R1. eexists. split; [reflexivity|]. auto.
  Qed.

  (** create_file and the drop of its handle on the upper layer *)
  Lemma get_parent0 (s0 s1 : mstate) hs q :
    run bhandler (vp_get_parent v0 q) (S2 s0 s1 hs) =
    (S2 s0 s1 hs, if bool_decide (is_dir s0 (removelast q)) then Ok tt else Err (mkErr EOther (PPath q))).
  Proof.
    unfold vp_get_parent, bind_res. rewrite run_bind, exists0.
    destruct (s0 !! removelast q) as [d|] eqn:E.
    - rewrite bool_decide_eq_true_2 by eauto. cbn [negb].
      rewrite run_bind, md0, E. cbn [run mem_meta m_type].
      destruct (f_type d) eqn:Ht.
      + rewrite bool_decide_eq_false_2; [reflexivity|]. intros (d' & Hd & Hdt). congruence.
      + rewrite bool_decide_eq_true_2; [reflexivity|]. exists d. auto.
    - rewrite bool_decide_eq_false_2 by (intros [? ?]; congruence). cbn [negb run ret_err].
      rewrite bool_decide_eq_false_2; [reflexivity|]. intros (d' & Hd & _). congruence.
  Qed.

  Lemma create_file0 (s0 s1 : mstate) hs q :
    q <> [] -> is_dir s0 (removelast q) -> s0 !! q = None ->
    run bhandler (vp_create_file v0 q) (S2 s0 s1 hs) =
    (S2 (<[q := mkMemFile File [] TAuto (Some TAuto) (Some TAuto)]> s0) s1 (hs ++ [HMemWriter 0 q [] 0]), Ok (length hs)).
  Proof.
    intros Hq Hd Hn. unfold vp_create_file, bind_res. rewrite run_bind, get_parent0.
    rewrite bool_decide_eq_true_2 by exact Hd.
    cbn. unfold mem_fs_call. rewrite ms_create_file. cbn [msec_sem].
    rewrite (has_parent_true s0 q Hq Hd), Hn. reflexivity.
  Qed.

  Lemma drop_fresh_writer0 (s0 s1 : mstate) hs q g :
    s0 !! q = Some g -> f_type g = File ->
    handle_op (length hs) HDrop (S2 s0 s1 (hs ++ [HMemWriter 0 q [] 0])) =
    (S2 (<[q := mkMemFile File [] (f_created g) (Some TAuto) (f_accessed g)]> s0) s1 (hs ++ [HClosed]), Ok tt).
  Proof.
    intros Hq Hg. rewrite handle_op_no_io by reflexivity. unfold handle_op0, mstore2. cbn [st_handles].
    rewrite lookup_app_r by lia. rewrite Nat.sub_diag. cbn [lookup list_lookup].
    unfold mem_publish. cbn. rewrite Hq. destruct g as [ty c cr mo ac]. cbn in Hg. subst ty.
    unfold set_handle. cbn. rewrite insert_app_r_alt by lia. rewrite Nat.sub_diag. reflexivity.
  Qed.

  (** ** removing a file that exists only in the lower layer *)
  Theorem remove_lower_file_sets_marker (s0 s1 : mstate) hs (p : path) :
    wf s0 -> p <> [] ->
    s0 !! whiteout_path top p = None ->                  (* not deleted yet *)
    s0 !! p = None -> is_Some (s1 !! p) ->               (* present in the lower layer only *)
    Forall (not_file s0) (prefixes (removelast (whiteout_path top p))) ->   (* nothing in the way of the marker *)
    exists s0',
      run bhandler (ovl_impl top lower (CRemoveFile p)) (S2 s0 s1 hs) = (S2 s0' s1 (hs ++ [HClosed]), Ok tt) /\
      is_Some (s0' !! whiteout_path top p) /\
      (forall q, q ∉ prefixes (whiteout_path top p) -> s0' !! q = s0 !! q) /\
      wf s0'.
  Proof.
    intros Hwf Hp Hwo Hup Hlow Hfree.
    cbn [ovl_impl]. unfold bind_res at 1. rewrite run_bind, (read_path_rule hs lg ft s0 s1 p Hp).
    rewrite bool_decide_eq_false_2 by (rewrite Hup; intros [? ?]; discriminate).
    rewrite bool_decide_eq_false_2 by (rewrite Hwo; intros [? ?]; discriminate).
    rewrite bool_decide_eq_true_2 by exact Hlow.
    unfold write_path. cbn [fst snd app]. unfold bind_res at 1. rewrite run_bind, exists0, Hup.
    rewrite bool_decide_eq_false_2 by (intros [? ?]; discriminate).
    unfold bind_res at 1. rewrite run_bind. cbn [run].
    (* the marker *)
    unfold set_whiteout. cbn [fst].
    set (wo := whiteout_path top p) in *.
    assert (Hwone : wo <> []).
    { unfold wo, whiteout_path. destruct (reverse p); discriminate. }
    destruct (create_dir_all0 s0 s1 hs (removelast wo) Hwf Hfree) as (sa & Hrun & Hdirs & Hwfa & Hsame & Hmono).
    unfold bind_res at 1. rewrite run_bind, Hrun.
    assert (Hpar : is_dir sa (removelast wo)).
    { destruct (decide (removelast wo = [])) as [E|E].
      - rewrite E. apply Hmono. apply Hwf.
      - eapply Forall_forall in Hdirs; [exact Hdirs|]. now apply self_prefix. }
    pose proof (not_prefix_of_parent wo Hwone) as Hnot.
    assert (Hsan : sa !! wo = None) by (rewrite (Hsame wo Hnot); exact Hwo).
    unfold bind_res at 1. rewrite run_bind, (create_file0 sa s1 hs wo Hwone Hpar Hsan).
    rewrite run_bind. cbn [run bhandler].
    rewrite (drop_fresh_writer0 _ s1 hs wo (mkMemFile File [] TAuto (Some TAuto) (Some TAuto)));
      [|apply lookup_insert|reflexivity].
    cbn [fst snd run f_created f_accessed]. rewrite insert_insert.
    eexists. split; [reflexivity|]. split; [rewrite lookup_insert; eauto|]. split.
    - intros q Hq. rewrite lookup_insert_ne.
      + apply Hsame. intros Hin. apply Hq. now apply prefixes_removelast.
      + intros ->. apply Hq. now apply self_prefix.
    - destruct Hwfa as [Hr Hpc]. split.
      + apply root_dir_insert_ne; auto.
      + apply pc_insert_leaf; auto. eapply absent_is_leaf; eauto.
  Qed.

  (** ** removing an (as far as the overlay shows: empty) directory that exists only in the lower layer *)
  Lemma set_whiteout0 (s0 s1 : mstate) hs (p : path) :
    wf s0 -> s0 !! whiteout_path top p = None ->
    Forall (not_file s0) (prefixes (removelast (whiteout_path top p))) ->
    exists s0',
      run bhandler (set_whiteout top p) (S2 s0 s1 hs) = (S2 s0' s1 (hs ++ [HClosed]), Ok tt) /\
      is_Some (s0' !! whiteout_path top p) /\
      (forall q, q ∉ prefixes (whiteout_path top p) -> s0' !! q = s0 !! q) /\
      wf s0'.
  Proof.
    intros Hwf Hwo Hfree.
    unfold set_whiteout. cbn [fst].
    set (wo := whiteout_path top p) in *.
    assert (Hwone : wo <> []).
    { unfold wo, whiteout_path. destruct (reverse p); discriminate. }
    destruct (create_dir_all0 s0 s1 hs (removelast wo) Hwf Hfree) as (sa & Hrun & Hdirs & Hwfa & Hsame & Hmono).
    unfold bind_res at 1. rewrite run_bind, Hrun.
    assert (Hpar : is_dir sa (removelast wo)).
    { destruct (decide (removelast wo = [])) as [E|E].
      - rewrite E. apply Hmono. apply Hwf.
      - eapply Forall_forall in Hdirs; [exact Hdirs|]. now apply self_prefix. }
    pose proof (not_prefix_of_parent wo Hwone) as Hnot.
    assert (Hsan : sa !! wo = None) by (rewrite (Hsame wo Hnot); exact Hwo).
    unfold bind_res at 1. rewrite run_bind, (create_file0 sa s1 hs wo Hwone Hpar Hsan).
    rewrite run_bind. cbn [run bhandler].
    rewrite (drop_fresh_writer0 _ s1 hs wo (mkMemFile File [] TAuto (Some TAuto) (Some TAuto)));
      [|apply lookup_insert|reflexivity].
    cbn [fst snd run f_created f_accessed]. rewrite insert_insert.
    eexists. split; [reflexivity|]. split; [rewrite lookup_insert; eauto|]. split.
    - intros q Hq. rewrite lookup_insert_ne.
      + apply Hsame. intros Hin. apply Hq. now apply prefixes_removelast.
      + intros ->. apply Hq. now apply self_prefix.
    - destruct Hwfa as [Hr Hpc]. split.
      + apply root_dir_insert_ne; auto.
      + apply pc_insert_leaf; auto. eapply absent_is_leaf; eauto.
  Qed.

  Theorem remove_lower_dir_sets_marker (s0 s1 : mstate) hs (p : path) :
    wf s0 -> p <> [] ->
    s0 !! whiteout_path top p = None ->                  (* not deleted yet *)
    s0 !! p = None -> is_dir s1 p ->                     (* a directory of the lower layer only *)
    (s0 !! (whiteout_name :: p) = None \/ is_dir s0 (whiteout_name :: p)) ->
    (forall c, is_Some (s1 !! (p ++ [c])) -> is_Some (s0 !! whiteout_path top (p ++ [c]))) ->  (* its entries are all deleted *)
    Forall (not_file s0) (prefixes (removelast (whiteout_path top p))) ->
    exists s0',
      run bhandler (ovl_impl top lower (CRemoveDir p)) (S2 s0 s1 hs) = (S2 s0' s1 (hs ++ [HClosed]), Ok tt) /\
      is_Some (s0' !! whiteout_path top p) /\
      (forall q, q ∉ prefixes (whiteout_path top p) -> s0' !! q = s0 !! q) /\
      wf s0'.
  Proof.
    intros Hwf Hp Hwo Hup Hlow Hwdir Hkids Hfree.
    cbn [ovl_impl]. unfold bind_res at 1. rewrite run_bind, (read_path_rule hs lg ft s0 s1 p Hp).
    rewrite bool_decide_eq_false_2 by (rewrite Hup; intros [? ?]; discriminate).
    rewrite bool_decide_eq_false_2 by (rewrite Hwo; intros [? ?]; discriminate).
    rewrite bool_decide_eq_true_2 by (destruct Hlow as (d & -> & _); eauto).
    destruct (read_dir_rule hs lg ft s0 s1 p (proj2 Hwf) Hp Hwo (or_intror (conj Hup Hlow)) Hwdir) as (l & Hrun & Hl).
    unfold bind_res at 1. rewrite run_bind, Hrun.
    assert (l = []) as ->.
    { apply elem_of_nil_inv. intros c Hc. apply Hl in Hc as [[[(d & Hd & _) _]|[_ Hc]] Hm].
      - congruence.
      - apply Hkids in Hc as [y Hy]. rewrite Hm in Hy. discriminate. }
    unfold write_path. cbn [fst snd app]. unfold bind_res at 1. rewrite run_bind, exists0, Hup.
    rewrite bool_decide_eq_false_2 by (intros [? ?]; discriminate).
    unfold bind_res at 1. rewrite run_bind. cbn [run].
    exact (set_whiteout0 s0 s1 hs p Hwf Hwo Hfree).
  Qed.

  (** and from then on the overlay does not see the file, although the lower layer still has it *)
  Corollary removed_file_is_absent (s1 s0' : mstate) (hs' : list hstate) (p : path) :
    p <> [] -> is_Some (s0' !! whiteout_path top p) -> s0' !! p = None ->
    run bhandler (ovl_exists top lower p) (S2 s0' s1 hs') = (S2 s0' s1 hs', Ok false) /\
    run bhandler (ovl_metadata top lower p) (S2 s0' s1 hs') = (S2 s0' s1 hs', fail ENotFound).
  Proof.
    intros Hp Hm Hn. split.
    - rewrite (exists_rule hs' lg ft s0' s1 p Hp), Hn.
      rewrite bool_decide_eq_false_2 by (intros [? ?]; discriminate).
      rewrite bool_decide_eq_true_2 by exact Hm. reflexivity.
    - rewrite (metadata_rule hs' lg ft s0' s1 p Hp), Hn. rewrite bool_decide_eq_true_2 by exact Hm. reflexivity.
  Qed.

  (** ** re-creating a deleted top-level file: the marker goes, the new file is empty - the bytes of the
      lower layer's file of the same name do not come back *)
  Lemma remove_file0 (s0 s1 : mstate) hs q g :
    s0 !! q = Some g -> f_type g = File ->
    run bhandler (vp_remove_file v0 q) (S2 s0 s1 hs) = (S2 (delete q s0) s1 hs, Ok tt).
  Proof.
    intros Hq Hg. cbn. unfold mem_fs_call. rewrite ms_remove_file. cbn [msec_sem]. rewrite Hq, Hg. reflexivity.
  Qed.

  (** a top-level path: its parent is the root, which exists and is a directory *)
  Lemma ensure_parent_root (s0 s1 : mstate) hs (n : name) :
    wf s0 -> s0 !! whiteout_path top [] = None ->
    run bhandler (ovl_ensure_has_parent top lower [n]) (S2 s0 s1 hs) = (S2 s0 s1 hs, Ok tt).
  Proof.
    intros [(r & Hr & Hrt) Hpc] _.
    unfold ovl_ensure_has_parent. cbn [removelast]. unfold bind_res at 1. rewrite run_bind.
    unfold ovl_exists at 1. rewrite run_bind. cbn [read_path run fst snd]. rewrite exists0, Hr.
    rewrite bool_decide_eq_true_2 by eauto.
    unfold bind_res at 1. rewrite run_bind. unfold ovl_metadata, bind_res at 1. rewrite run_bind. cbn [read_path run fst snd].
    rewrite md0, Hr. cbn [mem_meta m_type]. rewrite Hrt.
    unfold bind_res. rewrite run_bind. reflexivity.
  Qed.

  (** ** C09: creating over an entry that exists only in the lower layer fails as already existing,
      and changes nothing *)
  Theorem create_dir_over_lower_entry (s0 s1 : mstate) hs (n : name) f :
    wf s0 -> s0 !! whiteout_path top [] = None -> s0 !! whiteout_path top [n] = None ->
    s0 !! [n] = None -> s1 !! [n] = Some f ->
    run bhandler (ovl_impl top lower (CCreateDir [n])) (S2 s0 s1 hs) =
    (S2 s0 s1 hs, fail (match f_type f with File => EFileExists | Dir => EDirExists end)).
  Proof.
    intros Hwf Hroot Hm Hup Hlow.
    cbn [ovl_impl]. unfold bind_res at 1. rewrite run_bind, (ensure_parent_root s0 s1 hs n Hwf Hroot).
    unfold bind_res at 1. rewrite run_bind, (exists_rule hs lg ft s0 s1 [n] ltac:(discriminate)), Hm, Hup, Hlow.
    repeat (rewrite bool_decide_eq_false_2 by (intros [? ?]; discriminate)).
    rewrite bool_decide_eq_true_2 by eauto. cbn [negb andb orb].
    unfold bind_res at 1. rewrite run_bind, (metadata_rule hs lg ft s0 s1 [n] ltac:(discriminate)), Hm, Hup, Hlow.
    repeat (rewrite bool_decide_eq_false_2 by (intros [? ?]; discriminate)). reflexivity.
  Qed.

  (** ** C09: a directory that still has lower-layer children is not empty *)
  Theorem remove_dir_with_lower_children (s0 s1 : mstate) hs (p : path) (c : name) :
    parent_closed s0 -> p <> [] ->
    s0 !! whiteout_path top p = None ->
    (is_dir s0 p \/ (s0 !! p = None /\ is_dir s1 p)) ->
    (s0 !! (whiteout_name :: p) = None \/ is_dir s0 (whiteout_name :: p)) ->
    is_dir s1 p -> is_Some (s1 !! (p ++ [c])) -> s0 !! whiteout_path top (p ++ [c]) = None ->
    run bhandler (ovl_impl top lower (CRemoveDir p)) (S2 s0 s1 hs) = (S2 s0 s1 hs, fail EOther).
  Proof.
    intros Hpc Hp Hwo Hserved Hwdir Hd1 Hc Hcm.
    cbn [ovl_impl]. unfold bind_res at 1. rewrite run_bind, (read_path_rule hs lg ft s0 s1 p Hp).
    assert (Hok : exists lp, (if bool_decide (is_Some (s0 !! p)) then Ok (v0, p)
                              else if bool_decide (is_Some (s0 !! whiteout_path top p)) then fail ENotFound
                              else if bool_decide (is_Some (s1 !! p)) then Ok (v1, p) else fail ENotFound) = Ok lp).
    { destruct Hserved as [(f & Hf & _)|[Hn (f & Hf & _)]].
      - rewrite bool_decide_eq_true_2 by eauto. eauto.
      - rewrite bool_decide_eq_false_2 by (rewrite Hn; intros [? ?]; discriminate).
        rewrite bool_decide_eq_false_2 by (rewrite Hwo; intros [? ?]; discriminate).
        rewrite bool_decide_eq_true_2 by eauto. eauto. }
    destruct Hok as (lp & ->).
    destruct (read_dir_rule hs lg ft s0 s1 p Hpc Hp Hwo Hserved Hwdir) as (l & Hrun & Hl).
    unfold bind_res at 1. rewrite run_bind, Hrun.
    assert (Hin : c ∈ l) by (apply Hl; split; [right; auto|exact Hcm]).
    destruct l as [|x l']; [inversion Hin|]. reflexivity.
  Qed.

  Theorem recreate_clears_marker (s0 s1 : mstate) hs (n : name) g :
    wf s0 ->
    s0 !! whiteout_path top [] = None ->                       (* the root itself is not deleted *)
    s0 !! whiteout_path top [n] = Some g -> f_type g = File -> (* /n is deleted *)
    s0 !! [n] = None ->
    run bhandler (ovl_impl top lower (CCreateFile [n])) (S2 s0 s1 hs) =
    (S2 (delete (whiteout_path top [n]) (<[[n] := mkMemFile File [] TAuto (Some TAuto) (Some TAuto)]> s0)) s1
        (hs ++ [HMemWriter 0 [n] [] 0]), Ok (length hs)).
  Proof.
    intros Hwf Hroot Hm Hg Hup.
    destruct Hwf as [(r & Hr & Hrt) Hpc].
    cbn [ovl_impl]. unfold bind_res at 1. rewrite run_bind.
    (* the parent is the root: it exists and is a directory *)
    pose proof (ensure_parent_root s0 s1 hs n (conj (ex_intro _ r (conj Hr Hrt)) Hpc) Hroot) as Hparent.
    rewrite Hparent.
    (* the target is deleted: it does not exist in the overlay *)
    unfold bind_res at 1. rewrite run_bind, (exists_rule hs lg ft s0 s1 [n] ltac:(discriminate)), Hm, Hup.
    rewrite bool_decide_eq_false_2 by (intros [? ?]; discriminate).
    rewrite bool_decide_eq_true_2 by eauto. cbn [negb andb orb].
    unfold bind_res at 1. rewrite run_bind. cbn [run].
    unfold bind_res at 1. rewrite run_bind.
    assert (Hrootdir : is_dir s0 (removelast [n])) by (cbn; exists r; auto).
    unfold write_path. cbn [fst snd app].
    rewrite (create_file0 s0 s1 hs [n] ltac:(discriminate) Hrootdir Hup).
    (* the marker is cleared *)
    rewrite run_bind. unfold clear_whiteout. cbn [fst]. unfold bind_res at 1. rewrite run_bind, exists0.
    assert (Hne : whiteout_path top [n] <> [n]).
    { unfold whiteout_path. cbn. discriminate. }
    rewrite lookup_insert_ne by congruence. rewrite Hm.
    rewrite bool_decide_eq_true_2 by eauto.
    rewrite (remove_file0 _ s1 _ (whiteout_path top [n]) g); [|rewrite lookup_insert_ne by congruence; exact Hm|exact Hg].
    reflexivity.
  Qed.

  (** the overlay then shows an empty file, whatever the lower layer holds under that name *)
  Corollary recreated_file_is_fresh (s0 s1 : mstate) hs (n : name) g :
    s0 !! whiteout_path top [n] = Some g ->
    let s0' := delete (whiteout_path top [n]) (<[[n] := mkMemFile File [] TAuto (Some TAuto) (Some TAuto)]> s0) in
    run bhandler (ovl_metadata top lower [n]) (S2 s0' s1 hs) =
    (S2 s0' s1 hs, Ok (mem_meta (mkMemFile File [] TAuto (Some TAuto) (Some TAuto)))).
  Proof.
    intros Hm s0'. rewrite (metadata_rule hs lg ft s0' s1 [n] ltac:(discriminate)).
    assert (Hne : whiteout_path top [n] <> [n]) by (unfold whiteout_path; cbn; discriminate).
    unfold s0'. rewrite lookup_delete_ne by exact Hne. rewrite lookup_insert. reflexivity.
  Qed.
  (** ** re-creating a deleted top-level DIRECTORY: the marker goes, an empty directory appears in the
      upper layer *)
  Lemma create_dir0 (s0 s1 : mstate) hs q :
    q <> [] -> is_dir s0 (removelast q) -> s0 !! q = None ->
    run bhandler (vp_create_dir v0 q) (S2 s0 s1 hs) =
    (S2 (<[q := mkMemFile Dir [] TAuto (Some TAuto) (Some TAuto)]> s0) s1 hs, Ok tt).
  Proof.
    intros Hq Hd Hn. unfold vp_create_dir, bind_res. rewrite run_bind, get_parent0.
    rewrite bool_decide_eq_true_2 by exact Hd.
    cbn. unfold mem_fs_call. rewrite ms_create_dir. cbn [msec_sem].
    rewrite (has_parent_true s0 q Hq Hd), Hn. reflexivity.
  Qed.

  Theorem recreate_dir_clears_marker (s0 s1 : mstate) hs (n : name) g :
    wf s0 ->
    s0 !! whiteout_path top [] = None ->
    s0 !! whiteout_path top [n] = Some g -> f_type g = File ->
    s0 !! [n] = None ->
    run bhandler (ovl_impl top lower (CCreateDir [n])) (S2 s0 s1 hs) =
    (S2 (delete (whiteout_path top [n]) (<[[n] := mkMemFile Dir [] TAuto (Some TAuto) (Some TAuto)]> s0)) s1 hs, Ok tt).
  Proof.
    intros Hwf Hroot Hm Hg Hup.
    destruct Hwf as [(r & Hr & Hrt) Hpc].
    cbn [ovl_impl]. unfold bind_res at 1. rewrite run_bind.
    rewrite (ensure_parent_root s0 s1 hs n (conj (ex_intro _ r (conj Hr Hrt)) Hpc) Hroot).
    unfold bind_res at 1. rewrite run_bind, (exists_rule hs lg ft s0 s1 [n] ltac:(discriminate)), Hm, Hup.
    rewrite bool_decide_eq_false_2 by (intros [? ?]; discriminate).
    rewrite bool_decide_eq_true_2 by eauto. cbn [negb andb orb].
    unfold bind_res at 1. rewrite run_bind.
    assert (Hrootdir : is_dir s0 (removelast [n])) by (cbn; exists r; auto).
    unfold write_path. cbn [fst snd app].
    rewrite (create_dir0 s0 s1 hs [n] ltac:(discriminate) Hrootdir Hup).
    unfold clear_whiteout. cbn [fst]. unfold bind_res at 1. rewrite run_bind, exists0.
    assert (Hne : whiteout_path top [n] <> [n]).
    { unfold whiteout_path. cbn. discriminate. }
    rewrite lookup_insert_ne by congruence. rewrite Hm.
    rewrite bool_decide_eq_true_2 by eauto.
    rewrite (remove_file0 _ s1 _ (whiteout_path top [n]) g); [|rewrite lookup_insert_ne by congruence; exact Hm|exact Hg].
    reflexivity.
  Qed.

  (** a re-created directory is EMPTY: whatever the lower layer holds below it stays hidden by the
      markers of the earlier removal (any directory of the upper layer without upper children whose
      lower children are all marked lists nothing) *)
  Theorem recreated_dir_is_empty (s0 s1 : mstate) hs (p : path) :
    parent_closed s0 -> p <> [] ->
    s0 !! whiteout_path top p = None -> is_dir s0 p ->
    (s0 !! (whiteout_name :: p) = None \/ is_dir s0 (whiteout_name :: p)) ->
    (forall c, s0 !! (p ++ [c]) = None) ->
    (forall c, is_Some (s1 !! (p ++ [c])) -> is_Some (s0 !! whiteout_path top (p ++ [c]))) ->
    run bhandler (ovl_read_dir top lower p) (S2 s0 s1 hs) = (S2 s0 s1 hs, Ok []).
  Proof.
    intros Hpc Hp Hwo Hd Hwdir Hup Hlow.
    destruct (read_dir_rule hs lg ft s0 s1 p Hpc Hp Hwo (or_introl Hd) Hwdir) as (l & Hrun & Hl).
    rewrite Hrun. f_equal. f_equal. apply elem_of_nil_inv. intros c Hc. apply Hl in Hc as [[[_ [x Hx]]|[_ Hc]] Hm].
    - rewrite Hup in Hx. discriminate.
    - apply Hlow in Hc as [y Hy]. rewrite Hm in Hy. discriminate.
  Qed.

  (** ** removing a file that both layers have: the upper copy goes AND the marker is set - otherwise the
      lower copy would show through *)
  Theorem remove_shadowing_file_sets_marker (s0 s1 : mstate) hs (p : path) g :
    wf s0 -> p <> [] ->
    s0 !! whiteout_path top p = None ->
    s0 !! p = Some g -> f_type g = File ->
    whiteout_path top p <> p ->
    Forall (not_file s0) (prefixes (removelast (whiteout_path top p))) ->
    p ∉ prefixes (removelast (whiteout_path top p)) ->
    exists s0',
      run bhandler (ovl_impl top lower (CRemoveFile p)) (S2 s0 s1 hs) = (S2 s0' s1 (hs ++ [HClosed]), Ok tt) /\
      s0' !! p = None /\ is_Some (s0' !! whiteout_path top p) /\
      (forall q, q <> p -> q ∉ prefixes (whiteout_path top p) -> s0' !! q = s0 !! q) /\
      wf s0'.
  Proof.
    intros Hwf Hp Hwo Hup Hg Hne Hfree Hnotin.
    cbn [ovl_impl]. unfold bind_res at 1. rewrite run_bind, (read_path_rule hs lg ft s0 s1 p Hp).
    rewrite bool_decide_eq_true_2 by eauto.
    unfold write_path. cbn [fst snd app]. unfold bind_res at 1. rewrite run_bind, exists0, Hup.
    rewrite bool_decide_eq_true_2 by eauto.
    unfold bind_res at 1. rewrite run_bind, (remove_file0 s0 s1 hs p g Hup Hg).
    assert (Hwf' : wf (delete p s0)).
    { destruct Hwf as [Hr Hpc]. split.
      - apply root_dir_delete; [eapply not_root_of_file; eauto|auto].
      - apply pc_delete; auto. eapply file_is_leaf; eauto. }
    assert (Hwo' : delete p s0 !! whiteout_path top p = None) by (rewrite lookup_delete_ne by congruence; exact Hwo).
    assert (Hfree' : Forall (not_file (delete p s0)) (prefixes (removelast (whiteout_path top p)))).
    { eapply Forall_impl; [exact Hfree|]. intros q Hq f Hf. apply lookup_delete_Some in Hf as [_ Hf]. eauto. }
    destruct (set_whiteout0 (delete p s0) s1 hs p Hwf' Hwo' Hfree') as (s0' & Hrun & Hm & Hsame & Hwf'').
    rewrite Hrun. exists s0'. split; [reflexivity|]. split; [|split; [exact Hm|split; [|exact Hwf'']]].
    - rewrite Hsame; [apply lookup_delete|]. intros Hin.
      apply prefixes_cases in Hin as [Hin|Hin]; [exact (Hnotin Hin)|congruence|].
      unfold whiteout_path. destruct (reverse p); discriminate.
    - intros q Hqp Hq. rewrite (Hsame q Hq). apply lookup_delete_ne. congruence.
  Qed.

  (** ** creating a top-level entry that no layer has: it appears in the write layer, nothing else changes *)
  Theorem create_fresh_dir (s0 s1 : mstate) hs (n : name) :
    wf s0 -> s0 !! whiteout_path top [] = None -> s0 !! whiteout_path top [n] = None ->
    s0 !! [n] = None -> s1 !! [n] = None ->
    run bhandler (ovl_impl top lower (CCreateDir [n])) (S2 s0 s1 hs) =
    (S2 (<[[n] := mkMemFile Dir [] TAuto (Some TAuto) (Some TAuto)]> s0) s1 hs, Ok tt).
  Proof.
    intros Hwf Hroot Hm Hup Hlow.
    destruct Hwf as [(r & Hr & Hrt) Hpc].
    cbn [ovl_impl]. unfold bind_res at 1. rewrite run_bind.
    rewrite (ensure_parent_root s0 s1 hs n (conj (ex_intro _ r (conj Hr Hrt)) Hpc) Hroot).
    unfold bind_res at 1. rewrite run_bind, (exists_rule hs lg ft s0 s1 [n] ltac:(discriminate)), Hm, Hup, Hlow.
    repeat (rewrite bool_decide_eq_false_2 by (intros [? ?]; discriminate)). cbn [negb andb orb].
    unfold bind_res at 1. rewrite run_bind.
    assert (Hrootdir : is_dir s0 (removelast [n])) by (cbn; exists r; auto).
    unfold write_path. cbn [fst snd app].
    rewrite (create_dir0 s0 s1 hs [n] ltac:(discriminate) Hrootdir Hup).
    unfold clear_whiteout. cbn [fst]. unfold bind_res at 1. rewrite run_bind, exists0.
    assert (Hne : whiteout_path top [n] <> [n]).
    { unfold whiteout_path. cbn. discriminate. }
    rewrite lookup_insert_ne by congruence. rewrite Hm.
    rewrite bool_decide_eq_false_2 by (intros [? ?]; discriminate). reflexivity.
  Qed.

  Theorem create_fresh_file (s0 s1 : mstate) hs (n : name) :
    wf s0 -> s0 !! whiteout_path top [] = None -> s0 !! whiteout_path top [n] = None ->
    s0 !! [n] = None -> s1 !! [n] = None ->
    run bhandler (ovl_impl top lower (CCreateFile [n])) (S2 s0 s1 hs) =
    (S2 (<[[n] := mkMemFile File [] TAuto (Some TAuto) (Some TAuto)]> s0) s1 (hs ++ [HMemWriter 0 [n] [] 0]), Ok (length hs)).
  Proof.
    intros Hwf Hroot Hm Hup Hlow.
    destruct Hwf as [(r & Hr & Hrt) Hpc].
    cbn [ovl_impl]. unfold bind_res at 1. rewrite run_bind.
    rewrite (ensure_parent_root s0 s1 hs n (conj (ex_intro _ r (conj Hr Hrt)) Hpc) Hroot).
    unfold bind_res at 1. rewrite run_bind, (exists_rule hs lg ft s0 s1 [n] ltac:(discriminate)), Hm, Hup, Hlow.
    repeat (rewrite bool_decide_eq_false_2 by (intros [? ?]; discriminate)). cbn [negb andb orb].
    unfold bind_res at 1. rewrite run_bind. cbn [run].
    unfold bind_res at 1. rewrite run_bind.
    assert (Hrootdir : is_dir s0 (removelast [n])) by (cbn; exists r; auto).
    unfold write_path. cbn [fst snd app].
    rewrite (create_file0 s0 s1 hs [n] ltac:(discriminate) Hrootdir Hup).
    rewrite run_bind. unfold clear_whiteout. cbn [fst]. unfold bind_res at 1. rewrite run_bind, exists0.
    assert (Hne : whiteout_path top [n] <> [n]).
    { unfold whiteout_path. cbn. discriminate. }
    rewrite lookup_insert_ne by congruence. rewrite Hm.
    rewrite bool_decide_eq_false_2 by (intros [? ?]; discriminate). reflexivity.
  Qed.

End Life.
