(** Proofs about the MemoryFS model at the level of trait calls. *)
From stdpp Require Import gmap list sorting.
From Coq Require Import NArith ZArith Lia.
From VFS Require Import Core.Types Core.Prog Core.Calls Base.MemFS.

(** ** listings *)
Lemma child_of_spec p k n : child_of p k = Some n <-> k = p ++ [n].
Proof.
  unfold child_of. split.
  - destruct (reverse k) as [|m r] eqn:E; [discriminate|].
    case_decide as Hr; [subst p|discriminate].
    intros [= ->]. apply (f_equal reverse) in E. rewrite reverse_involutive in E. subst k.
    now rewrite reverse_cons.
  - intros ->. rewrite reverse_snoc, reverse_involutive.
    case_decide; [reflexivity|congruence].
Qed.

Lemma insert_sorted_elem n m l : n ∈ insert_sorted m l <-> n = m \/ n ∈ l.
Proof.
  induction l as [|x l IH]; cbn.
  - rewrite elem_of_list_singleton. set_solver.
  - destruct (name_leb m x); rewrite !elem_of_cons; [tauto|]. rewrite IH. tauto.
Qed.
Lemma sort_names_elem n l : n ∈ sort_names l <-> n ∈ l.
Proof.
  unfold sort_names. induction l as [|x l IH]; cbn; [reflexivity|].
  rewrite insert_sorted_elem, IH, elem_of_cons. tauto.
Qed.
Lemma insert_sorted_length m l : length (insert_sorted m l) = S (length l).
Proof. induction l as [|x l IH]; cbn; [reflexivity|]. destruct (name_leb m x); cbn; lia. Qed.
Lemma sort_names_length l : length (sort_names l) = length l.
Proof. unfold sort_names. induction l as [|x l IH]; cbn; [reflexivity|]. now rewrite insert_sorted_length, IH. Qed.

Lemma insert_sorted_nodup m l : m ∉ l -> NoDup l -> NoDup (insert_sorted m l).
Proof.
  induction l as [|x l IH]; cbn; intros Hm Hnd.
  - apply NoDup_singleton.
  - destruct (name_leb m x).
    + now constructor.
    + inversion Hnd; subst. constructor.
      * rewrite insert_sorted_elem. set_solver.
      * apply IH; [set_solver|assumption].
Qed.
Lemma sort_names_nodup l : NoDup l -> NoDup (sort_names l).
Proof.
  unfold sort_names. induction l as [|x l IH]; cbn; intros H; [constructor|].
  inversion H; subst. apply insert_sorted_nodup; [|auto].
  change (x ∉ sort_names l). now rewrite sort_names_elem.
Qed.

(** the listing of [p] holds exactly the names [n] such that [p ++ [n]] exists *)
Lemma mem_children_spec (s : memfs) p n : n ∈ mem_children s p <-> is_Some (s !! (p ++ [n])).
Proof.
  unfold mem_children. rewrite sort_names_elem, elem_of_list_omap. split.
  - intros ([k f] & Hin & Hc). apply elem_of_map_to_list in Hin.
    apply child_of_spec in Hc. cbn in Hc. subst k. eauto.
  - intros [f Hf]. exists (p ++ [n], f). split; [now apply elem_of_map_to_list|].
    now apply child_of_spec.
Qed.

(** each child is listed exactly once *)
Lemma mem_children_nodup (s : memfs) p : NoDup (mem_children s p).
Proof.
  unfold mem_children. apply sort_names_nodup.
  assert (Hk : NoDup (map fst (map_to_list s))) by apply NoDup_fst_map_to_list.
  induction (map_to_list s) as [|[k f] l IH]; cbn; [constructor|].
  cbn in Hk. inversion Hk as [|? ? Hnin Hnd]; subst.
  destruct (child_of p k) as [n|] eqn:E; cbn; [|auto].
  constructor; [|auto].
  rewrite elem_of_list_omap. intros ([k' f'] & Hin & Hc).
  apply child_of_spec in E. apply child_of_spec in Hc. cbn in Hc. subst.
  apply Hnin. apply elem_of_list_fmap. exists (p ++ [n], f'). auto.
Qed.

Lemma mem_children_nil (s : memfs) p :
  mem_children s p = [] <-> forall n, s !! (p ++ [n]) = None.
Proof.
  split.
  - intros H n. destruct (s !! (p ++ [n])) eqn:E; [|reflexivity].
    assert (n ∈ mem_children s p) by (apply mem_children_spec; eauto).
    rewrite H in *. set_solver.
  - intros H. destruct (mem_children s p) as [|n l] eqn:E; [reflexivity|].
    assert (Hn : n ∈ mem_children s p) by (rewrite E; set_solver).
    apply mem_children_spec in Hn as [f Hf]. now rewrite H in Hf.
Qed.

(** ** the tree invariant (C03) *)
Definition is_dir (s : gmap path memfile) (p : path) : Prop := exists d, s !! p = Some d /\ f_type d = Dir.
Global Instance is_dir_dec (s : gmap path memfile) (p : path) : Decision (is_dir s p).
Proof.
  unfold is_dir. destruct (s !! p) as [d|] eqn:E.
  - destruct (f_type d) eqn:Ht.
    + right. intros (d' & Hd & Hdt). congruence.
    + left. eauto.
  - right. intros (d' & Hd & _). congruence.
Defined.

Definition parent_closed (s : gmap path memfile) : Prop :=
  forall p n f, s !! (p ++ [n]) = Some f -> is_dir s p.
Definition wf (s : gmap path memfile) : Prop := is_dir s [] /\ parent_closed s.

Lemma wf_new : wf mem_new.
Proof.
  split.
  - eexists. split; [unfold mem_new; apply lookup_singleton|reflexivity].
  - intros p n f H. unfold mem_new in H. apply lookup_singleton_Some in H as [H _].
    destruct p; discriminate.
Qed.

Lemma snoc_inj {A} (p q : list A) n m : p ++ [n] = q ++ [m] -> p = q /\ n = m.
Proof. intros H. apply app_inj_tail in H. tauto. Qed.

Lemma removelast_snoc {A} (p : list A) n : removelast (p ++ [n]) = p.
Proof. apply removelast_last. Qed.

Lemma path_cases (p : path) : p = [] \/ exists q n, p = q ++ [n].
Proof. destruct p as [|x p] using rev_ind; [now left|right; eauto]. Qed.

(** inserting a directory below an existing directory *)
Lemma pc_insert_dir (s : gmap path memfile) q f :
  parent_closed s -> f_type f = Dir -> (q = [] \/ is_dir s (removelast q)) ->
  parent_closed (<[q := f]> s).
Proof.
  intros Hpc Hf Hq p n g Hg.
  destruct (decide (q = p ++ [n])) as [->|Hne].
  - destruct Hq as [Hq|Hq]; [destruct p; discriminate|].
    rewrite removelast_snoc in Hq. destruct Hq as (d & Hd & Hdt).
    destruct (decide (p ++ [n] = p)) as [E|E].
    { exfalso. apply (f_equal length) in E. rewrite app_length in E. cbn in E. lia. }
    exists d. now rewrite lookup_insert_ne.
  - rewrite lookup_insert_ne in Hg by congruence.
    destruct (Hpc p n g Hg) as (d & Hd & Hdt).
    destruct (decide (q = p)) as [->|Hqp].
    + exists f. now rewrite lookup_insert.
    + exists d. now rewrite lookup_insert_ne.
Qed.

(** inserting / replacing a file at a path that has no children *)
Lemma pc_insert_leaf (s : gmap path memfile) q f :
  parent_closed s -> (q = [] \/ is_dir s (removelast q)) -> (forall n, s !! (q ++ [n]) = None) ->
  parent_closed (<[q := f]> s).
Proof.
  intros Hpc Hq Hleaf p n g Hg.
  destruct (decide (q = p ++ [n])) as [->|Hne].
  - destruct Hq as [Hq|Hq]; [destruct p; discriminate|].
    rewrite removelast_snoc in Hq. destruct Hq as (d & Hd & Hdt).
    destruct (decide (p ++ [n] = p)) as [E|E].
    { exfalso. apply (f_equal length) in E. rewrite app_length in E. cbn in E. lia. }
    exists d. now rewrite lookup_insert_ne.
  - rewrite lookup_insert_ne in Hg by congruence.
    destruct (decide (q = p)) as [->|Hqp]; [now rewrite Hleaf in Hg|].
    destruct (Hpc p n g Hg) as (d & Hd & Hdt). exists d. now rewrite lookup_insert_ne.
Qed.

(** replacing an entry by one of the same type *)
Lemma pc_update (s : gmap path memfile) q f g :
  parent_closed s -> s !! q = Some f -> f_type g = f_type f -> parent_closed (<[q := g]> s).
Proof.
  intros Hpc Hf Ht p n h Hh.
  assert (is_dir s p) as (d & Hd & Hdt).
  { destruct (decide (q = p ++ [n])) as [->|Hne]; [eapply Hpc, Hf|].
    rewrite lookup_insert_ne in Hh by congruence. eapply Hpc, Hh. }
  destruct (decide (q = p)) as [->|Hqp].
  - exists g. rewrite lookup_insert. split; [reflexivity|]. congruence.
  - exists d. now rewrite lookup_insert_ne.
Qed.

(** deleting an entry without children *)
Lemma pc_delete (s : gmap path memfile) q :
  parent_closed s -> (forall n, s !! (q ++ [n]) = None) -> parent_closed (delete q s).
Proof.
  intros Hpc Hleaf p n g Hg.
  apply lookup_delete_Some in Hg as [Hne Hg].
  destruct (Hpc p n g Hg) as (d & Hd & Hdt).
  destruct (decide (q = p)) as [->|Hqp]; [now rewrite Hleaf in Hg|].
  exists d. now rewrite lookup_delete_ne.
Qed.

(** a file never has children in a parent-closed map *)
Lemma file_is_leaf (s : gmap path memfile) q f :
  parent_closed s -> s !! q = Some f -> f_type f = File -> forall n, s !! (q ++ [n]) = None.
Proof.
  intros Hpc Hf Ht n. destruct (s !! (q ++ [n])) as [g|] eqn:E; [|reflexivity].
  destruct (Hpc q n g E) as (d & Hd & Hdt). pose proof (eq_trans (eq_sym Hf) Hd) as X. inversion X; subst. congruence.
Qed.

(** ** every lock section preserves the invariant, given what the preceding
    section of the same call established *)
Definition sec_guard (c : msec) (s : gmap path memfile) : Prop :=
  match c with
  | MRemove p => p <> []
  | _ => True
  end.

Lemma has_parent_dir (s : gmap path memfile) p :
  has_parent s p = true -> p <> [] /\ is_dir s (removelast p).
Proof.
  unfold has_parent. destruct p as [|x p']; [discriminate|]. intros H.
  destruct (s !! removelast (x :: p')) as [d|] eqn:E; [|discriminate].
  destruct (f_type d) eqn:Ht; [discriminate|]. split; [discriminate|]. exists d. auto.
Qed.

Lemma root_dir_insert_ne (s : gmap path memfile) q f : q <> [] -> is_dir s [] -> is_dir (<[q := f]> s) [].
Proof. intros Hq (d & Hd & Ht). exists d. now rewrite lookup_insert_ne. Qed.

Ltac dm := match goal with |- context [match ?x with _ => _ end] => destruct x eqn:? end.

Lemma root_dir_update (s : gmap path memfile) q f g :
  is_dir s [] -> s !! q = Some f -> f_type g = f_type f -> is_dir (<[q := g]> s) [].
Proof.
  intros (d & Hd & Hdt) Hf Ht. destruct (decide (q = [])) as [->|Hn].
  - exists g. rewrite lookup_insert. split; [reflexivity|].
    pose proof (eq_trans (eq_sym Hf) Hd) as X. inversion X; subst. congruence.
  - exists d. now rewrite lookup_insert_ne.
Qed.

Lemma root_dir_delete (s : gmap path memfile) q :
  q <> [] -> is_dir s [] -> is_dir (delete q s) [].
Proof. intros Hq (d & Hd & Ht). exists d. now rewrite lookup_delete_ne. Qed.

Lemma not_root_of_file (s : gmap path memfile) q f :
  is_dir s [] -> s !! q = Some f -> f_type f = File -> q <> [].
Proof.
  intros (d & Hd & Hdt) Hf Ht ->. pose proof (eq_trans (eq_sym Hf) Hd) as X. inversion X; subst. congruence.
Qed.

Lemma not_root_of_absent (s : gmap path memfile) q :
  is_dir s [] -> s !! q = None -> q <> [].
Proof. intros (d & Hd & _) Hq ->. pose proof (eq_trans (eq_sym Hq) Hd) as X. discriminate. Qed.

Lemma absent_is_leaf (s : gmap path memfile) q :
  parent_closed s -> s !! q = None -> forall n, s !! (q ++ [n]) = None.
Proof.
  intros Hpc Hq n. destruct (s !! (q ++ [n])) as [g|] eqn:En; [|reflexivity].
  destruct (Hpc q n g En) as (d & Hd & _). pose proof (eq_trans (eq_sym Hq) Hd) as X. discriminate.
Qed.

Lemma msec_wf (c : msec) (s : gmap path memfile) : wf s -> sec_guard c s -> wf (fst (msec_sem c s)).
Proof.
  intros [Hroot Hpc] Hg. pose proof (conj Hroot Hpc : wf s) as Hwf.
  destruct c; cbn [msec_sem sec_guard] in *; unfold mem_update;
    repeat (dm; cbn [fst]); try exact Hwf.
  - (* MInsertDir, vacant *)
    match goal with H : has_parent s p = true |- _ => destruct (has_parent_dir s p H) as [Hne Hd] end.
    split; [apply root_dir_insert_ne; auto|]. apply pc_insert_dir; auto.
  - (* MSetC *) split; [eapply root_dir_update; eauto|eapply pc_update; eauto].
  - (* MSetM *) split; [eapply root_dir_update; eauto|eapply pc_update; eauto].
  - (* MSetA *) split; [eapply root_dir_update; eauto|eapply pc_update; eauto].
  - (* MGetReader: the access time of the opened file *)
    match goal with H : s !! p = Some ?f |- _ =>
      split; [eapply (root_dir_update s p f); eauto|eapply (pc_update s p f); eauto] end.
  - (* MInsertFile over a file *)
    match goal with H : has_parent s p = true |- _ => destruct (has_parent_dir s p H) as [Hne Hd] end.
    match goal with H : s !! p = Some ?f |- _ =>
      split; [apply root_dir_insert_ne; auto|apply pc_insert_leaf; auto; eapply (file_is_leaf s p f); eauto] end.
  - (* MInsertFile, vacant *)
    match goal with H : has_parent s p = true |- _ => destruct (has_parent_dir s p H) as [Hne Hd] end.
    split; [apply root_dir_insert_ne; auto|]. apply pc_insert_leaf; auto. eapply absent_is_leaf; eauto.
  - (* MRemoveFile *)
    match goal with H : s !! p = Some ?f |- _ =>
      split; [apply root_dir_delete; [eapply (not_root_of_file s p f); eauto|auto]|
              apply pc_delete; auto; eapply (file_is_leaf s p f); eauto] end.
  - (* MRemove *)
    split; [now apply root_dir_delete|]. apply pc_delete; auto. now apply mem_children_nil.
  - (* MPublish over a file *)
    match goal with H : s !! p = Some ?f |- _ =>
      split; [eapply (root_dir_update s p f); eauto|eapply (pc_update s p f); eauto] end.
Qed.
