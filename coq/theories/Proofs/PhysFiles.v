(** C02 with files: a whole write session - create_file (truncating), write_all, drop - on the modelled
    PhysicalFS refines the same contract as on MemoryFS (the file then holds exactly the bytes written),
    although the two get there differently: PhysicalFS writes through the descriptor at once, MemoryFS
    buffers and publishes on drop.  With it the agreement of the two backends extends to histories that
    create, overwrite and remove files with arbitrary contents. *)
From stdpp Require Import gmap list.
From Coq Require Import NArith ZArith Lia.
From VFS Require Import Core.Types Core.Prog Core.Calls Base.MemFS Base.Handles Base.PhysFS Base.Embedded Base.Store
  Layer.VfsPath Spec.Tree Proofs.ProgProofs Proofs.MemProofs Proofs.MemCalls Proofs.MemPublic Proofs.PhysProofs
  Proofs.PhysCreate Proofs.CopyFile.

(** the write session of the path API *)
Definition write_file (v : vfs) (p : path) (data : bytes) : bprog (res unit) :=
  try* h := vp_create_file v p in
  let* _ := (match data with [] => Ret (Ok 0%N) | _ => Call (BH h (HWrite data)) Ret end) in
  let* _ := Call (BH h HDrop) Ret in
  Ret (Ok tt).

(** its contract: create_file's, and on success the file holds the data *)
Definition spec_write_file (t : tree) (p : path) (data : bytes) : tree * oclass :=
  match snd (spec_create_file t p) with
  | KOk => (<[p := NFile data]> t, KOk)
  | k => (t, k)
  end.

(** inode bookkeeping of the modelled OS: inode numbers in the tree are below the allocation counter and
    no two paths share one (no hard links) *)
Definition inodes_ok (s : physfs) : Prop :=
  (forall p n ino, p_tree s !! p = Some n -> pn_kind n = PFile ino -> ino < p_next s) /\
  (forall p q n m ino, p_tree s !! p = Some n -> p_tree s !! q = Some m ->
                       pn_kind n = PFile ino -> pn_kind m = PFile ino -> p = q).
Definition pgood (s : physfs) : Prop := pwf (p_tree s) /\ inodes_ok s.

Lemma pgood_new : pgood phys_new.
Proof.
  split; [split|split].
  - eexists. split; [apply lookup_singleton|reflexivity].
  - intros p n x H. cbn in H. apply lookup_singleton_Some in H as [H _]. destruct p; discriminate.
  - intros p n ino H Hk. cbn in H. apply lookup_singleton_Some in H as [_ <-]. discriminate.
  - intros p q n m ino H _ Hk. cbn in H. apply lookup_singleton_Some in H as [_ <-]. discriminate.
Qed.

(** stamping times keeps kinds *)
Lemma touch_dir_kind (t : ptree) d q :
  pn_kind <$> (touch_dir t d !! q) = pn_kind <$> (t !! q).
Proof.
  unfold touch_dir. destruct (t !! d) as [n|] eqn:E; [|reflexivity].
  destruct (decide (q = d)) as [->|Hne]; [rewrite lookup_insert, E; reflexivity|rewrite lookup_insert_ne by congruence; reflexivity].
Qed.

Lemma touch_dir_lookup_kind (t : ptree) d q n k :
  touch_dir t d !! q = Some n -> pn_kind n = k -> exists n', t !! q = Some n' /\ pn_kind n' = k.
Proof.
  intros H Hk. pose proof (touch_dir_kind t d q) as E. rewrite H in E. cbn in E.
  destruct (t !! q) as [n'|]; [|discriminate]. injection E as E. exists n'. split; [reflexivity|congruence].
Qed.

Section PFiles.
  Variables (lg : list (nat * fscall)) (ft : option (nat * nat)).
  Notation PS s hs := (pstore s hs lg ft).

  (** a file node may replace an absent entry or a file *)
  Lemma pwf_insert_file (t : ptree) p n :
    pwf t -> p <> [] -> p_is_dir t (removelast p) ->
    (t !! p = None \/ exists m ino, t !! p = Some m /\ pn_kind m = PFile ino) ->
    (exists ino, pn_kind n = PFile ino) -> pwf (<[p := n]> t).
  Proof.
    intros [Hr Hpc] Hne Hpar Hold (ino & Hk).
    assert (Hnotdir : ~ p_is_dir t p).
    { intros (x & Hx & Hxk). destruct Hold as [H|(m & j & H & Hm)]; congruence. }
    assert (Hsame : forall q, p_is_dir t q -> p_is_dir (<[p := n]> t) q).
    { intros q Hq. destruct (decide (q = p)) as [->|Hqp]; [contradiction|].
      destruct Hq as (x & Hx & Hxk). exists x. rewrite lookup_insert_ne by congruence. auto. }
    split; [now apply Hsame|].
    intros q m x Hx. destruct (decide (p = q ++ [m])) as [->|Hd].
    - rewrite removelast_last in Hpar. now apply Hsame.
    - rewrite lookup_insert_ne in Hx by exact Hd. apply Hsame. eapply Hpc, Hx.
  Qed.

  Lemma pcall_create_file_raw (s : physfs) hs p :
    run bhandler (labelled (v_impl pv (CCreateFile p)) p) (PS s hs) =
    match snd (phys_step (CCreateFile p) s) with
    | Ok ino => (PS (fst (phys_step (CCreateFile p) s)) (hs ++ [HPhysWriter 0 ino 0 false]), Ok (length hs))
    | Err e => (PS (fst (phys_step (CCreateFile p) s)) hs, Err (with_path e (PPath p)))
    | Panic => (PS (fst (phys_step (CCreateFile p) s)) hs, Panic)
    end.
  Proof. cbn. unfold phys_fs_call. destruct (phys_step (CCreateFile p) s) as [s' [u|e|]]; reflexivity. Qed.

  (** create_file on the modelled OS *)
  Theorem prefine_create_file (s : physfs) hs p : pgood s ->
    exists s' hs' r, run bhandler (vp_create_file pv p) (PS s hs) = (PS s' hs', r) /\
      pabs s' = fst (spec_create_file (pabs s) p) /\
      class_of r = snd (spec_create_file (pabs s) p) /\ pgood s' /\
      match r with
      | Ok h => exists ino nd, h = length hs /\ hs' = hs ++ [HPhysWriter 0 ino 0 false] /\
                               p_tree s' !! p = Some nd /\ pn_kind nd = PFile ino /\ phys_inode s' ino = []
      | _ => hs' = hs
      end.
  Proof.
    intros Hgood. pose proof Hgood as [Hwf [Hfresh Hinj]]. unfold vp_create_file, bind_res. rewrite run_bind, (pcall_get_parent hs lg ft s p Hwf).
    unfold spec_create_file.
    case_bool_decide as Hpar.
    - rewrite pcall_create_file_raw. unfold phys_step.
      destruct p as [|x p'].
      { (* the root *)
        destruct Hwf as [(r & Hr & Hrk) Hpc]. rewrite (lookup_found s [] r (conj (ex_intro _ r (conj Hr Hrk)) Hpc) Hr).
        cbn [fst snd]. exists s, hs. eexists. split; [reflexivity|].
        rewrite decide_False by (intros [H _]; congruence). cbn. split; [reflexivity|]. split; [reflexivity|]. split; [exact Hgood|reflexivity]. }
      set (p := x :: p') in *.
      rewrite decide_True by (apply parent_dir_pabs; split; [discriminate|exact Hpar]).
      destruct Hpar as (pn & Hpn & Hpk).
      rewrite (lookup_found s _ pn Hwf Hpn), Hpk. rewrite pabs_lookup.
      destruct (p_tree s !! p) as [n|] eqn:E; cbn [fmap option_fmap option_map].
      + destruct (pn_kind n) as [|ino] eqn:Hk.
        * (* a directory is in the way *)
          exists s, hs. eexists. split; [reflexivity|]. unfold pabsn. rewrite Hk. cbn.
          split; [reflexivity|]. split; [reflexivity|]. split; [exact Hgood|reflexivity].
        * (* an existing file is truncated *)
          set (s' := mkPhys (<[p := mkPNode (PFile ino) TAuto (pn_atime n)]> (p_tree s)) (<[ino := []]> (p_inodes s)) (p_next s)).
          exists s', (hs ++ [HPhysWriter 0 ino 0 false]). eexists. split; [reflexivity|].
          assert (Hab : pabsn s n = NFile (phys_inode s ino)) by (unfold pabsn; rewrite Hk; reflexivity).
          rewrite Hab. cbn [fst snd class_of].
          assert (Hg : pgood s').
          { split.
            - unfold s'. cbn [p_tree]. apply pwf_insert_file; [exact Hwf|discriminate|exists pn; auto|right; eauto|cbn; eauto].
            - split.
              + intros q m j Hq Hm. unfold s' in *; cbn [p_tree p_next] in *. destruct (decide (q = p)) as [->|Hqp].
                * rewrite lookup_insert in Hq. injection Hq as <-. cbn in Hm. injection Hm as <-. eapply Hfresh; eauto.
                * rewrite lookup_insert_ne in Hq by congruence. eapply Hfresh; eauto.
              + intros q1 q2 m1 m2 j H1 H2 K1 K2. unfold s' in *; cbn [p_tree] in *.
                destruct (decide (q1 = p)) as [->|N1], (decide (q2 = p)) as [->|N2]; [reflexivity| | |].
                * rewrite lookup_insert in H1. injection H1 as <-. cbn in K1. injection K1 as <-.
                  rewrite lookup_insert_ne in H2 by congruence. symmetry. eapply (Hinj q2 p); eauto.
                * rewrite lookup_insert in H2. injection H2 as <-. cbn in K2. injection K2 as <-.
                  rewrite lookup_insert_ne in H1 by congruence. eapply (Hinj q1 p); eauto.
                * rewrite lookup_insert_ne in H1, H2 by congruence. eapply Hinj; eauto. }
          split; [|split; [reflexivity|split; [exact Hg|]]].
          -- (* the abstract tree: p holds the empty file, every other entry keeps its bytes *)
             apply map_eq. intros q. rewrite pabs_lookup. unfold s'; cbn [p_tree].
             destruct (decide (q = p)) as [->|Hqp].
             ++ rewrite !lookup_insert. cbn. unfold pabsn. cbn. unfold phys_inode. cbn. rewrite lookup_insert. reflexivity.
             ++ rewrite !lookup_insert_ne by congruence. rewrite pabs_lookup.
                destruct (p_tree s !! q) as [m|] eqn:Eq; [|reflexivity]. cbn. f_equal. unfold pabsn.
                destruct (pn_kind m) as [|j] eqn:Km; [reflexivity|]. f_equal. unfold phys_inode. unfold s'; cbn [p_inodes].
                rewrite lookup_insert_ne; [reflexivity|]. intros <-. apply Hqp. eapply (Hinj q p); eauto.
          -- exists ino, (mkPNode (PFile ino) TAuto (pn_atime n)). split; [reflexivity|]. split; [reflexivity|].
             unfold s'; cbn [p_tree]. rewrite lookup_insert. split; [reflexivity|]. split; [reflexivity|].
             unfold phys_inode. cbn. rewrite lookup_insert. reflexivity.
      + (* a new file *)
        set (ino := p_next s).
        set (s' := mkPhys (touch_dir (<[p := mkPNode (PFile ino) TAuto TAuto]> (p_tree s)) (removelast p))
                          (<[ino := []]> (p_inodes s)) (S ino)).
        exists s', (hs ++ [HPhysWriter 0 ino 0 false]). eexists. split; [reflexivity|]. cbn [fst snd class_of].
        assert (Hpne : removelast p <> p).
        { intros E'. apply (f_equal length) in E'. destruct (path_cases p) as [Hp|(q & m & Hp)]; [discriminate|].
          rewrite Hp, removelast_last, app_length in E'. cbn in E'. lia. }
        assert (Hg : pgood s').
        { split.
          - unfold s'. cbn [p_tree]. apply pwf_touch. apply pwf_insert_file; [exact Hwf|discriminate|exists pn; auto|left; exact E|cbn; eauto].
          - split.
            + intros q m j Hq Hm. unfold s' in *; cbn [p_tree p_next] in *.
              destruct (touch_dir_lookup_kind _ _ _ _ _ Hq Hm) as (m' & Hq' & Hm').
              destruct (decide (q = p)) as [->|Hqp].
              * rewrite lookup_insert in Hq'. injection Hq' as <-. cbn in Hm'. injection Hm' as <-. unfold ino. lia.
              * rewrite lookup_insert_ne in Hq' by congruence. pose proof (Hfresh _ _ _ Hq' Hm'). lia.
            + intros q1 q2 m1 m2 j H1 H2 K1 K2. unfold s' in *; cbn [p_tree] in *.
              destruct (touch_dir_lookup_kind _ _ _ _ _ H1 K1) as (m1' & H1' & K1').
              destruct (touch_dir_lookup_kind _ _ _ _ _ H2 K2) as (m2' & H2' & K2').
              destruct (decide (q1 = p)) as [->|N1], (decide (q2 = p)) as [->|N2]; [reflexivity| | |].
              * rewrite lookup_insert in H1'. injection H1' as <-. cbn in K1'. injection K1' as <-.
                rewrite lookup_insert_ne in H2' by congruence. pose proof (Hfresh _ _ _ H2' K2'). unfold ino in *. lia.
              * rewrite lookup_insert in H2'. injection H2' as <-. cbn in K2'. injection K2' as <-.
                rewrite lookup_insert_ne in H1' by congruence. pose proof (Hfresh _ _ _ H1' K1'). unfold ino in *. lia.
              * rewrite lookup_insert_ne in H1', H2' by congruence. eapply Hinj; eauto. }
        split; [|split; [reflexivity|split; [exact Hg|]]].
        -- apply map_eq. intros q. rewrite pabs_lookup. unfold s'; cbn [p_tree].
           pose proof (touch_dir_kind (<[p := mkPNode (PFile ino) TAuto TAuto]> (p_tree s)) (removelast p) q) as Hkind.
           destruct (decide (q = p)) as [->|Hqp].
           ++ rewrite lookup_insert in Hkind. rewrite lookup_insert. cbn in Hkind.
              destruct (touch_dir _ _ !! p) as [m|]; [|discriminate]. injection Hkind as Hkind. cbn.
              f_equal. unfold pabsn. rewrite Hkind. f_equal. unfold phys_inode. cbn. rewrite lookup_insert. reflexivity.
           ++ rewrite lookup_insert_ne in Hkind by congruence. rewrite lookup_insert_ne by congruence. rewrite pabs_lookup.
              destruct (touch_dir _ _ !! q) as [m|], (p_tree s !! q) as [m0|] eqn:Eq; try discriminate; [|reflexivity].
              injection Hkind as Hkind. cbn. f_equal. unfold pabsn. rewrite Hkind.
              destruct (pn_kind m0) as [|j] eqn:Km; [reflexivity|]. f_equal. unfold phys_inode. unfold s'; cbn [p_inodes].
              rewrite lookup_insert_ne; [reflexivity|]. intros <-. pose proof (Hfresh _ _ _ Eq Km). unfold ino in *. lia.
        -- pose proof (touch_dir_kind (<[p := mkPNode (PFile ino) TAuto TAuto]> (p_tree s)) (removelast p) p) as Hkind.
           rewrite lookup_insert in Hkind. cbn in Hkind. unfold s'; cbn [p_tree].
           destruct (touch_dir _ _ !! p) as [m|] eqn:Em; [|discriminate]. injection Hkind as Hkind.
           exists ino, m. split; [reflexivity|]. split; [reflexivity|]. split; [reflexivity|]. split; [exact Hkind|].
           unfold phys_inode. cbn. rewrite lookup_insert. reflexivity.
    - exists s, hs. eexists. split; [reflexivity|].
      rewrite decide_False by (rewrite parent_dir_pabs; tauto). cbn.
      split; [reflexivity|]. split; [reflexivity|]. split; [exact Hgood|reflexivity].
  Qed.
  (** writing through the descriptor replaces the inode's bytes at once *)
  Lemma pabs_set_inode (s : physfs) p nd ino data :
    inodes_ok s -> p_tree s !! p = Some nd -> pn_kind nd = PFile ino ->
    pabs (phys_set_inode s ino data) = <[p := NFile data]> (pabs s).
  Proof.
    intros [_ Hinj] Hp Hk. apply map_eq. intros q. rewrite pabs_lookup. unfold phys_set_inode. cbn [p_tree].
    rewrite lookup_fmap.
    destruct (decide (q = p)) as [->|Hqp].
    - rewrite lookup_insert, Hp. cbn. rewrite Hk, Nat.eqb_refl. cbn. f_equal. unfold pabsn. cbn. unfold phys_inode. cbn.
      rewrite lookup_insert. reflexivity.
    - rewrite lookup_insert_ne by congruence. rewrite pabs_lookup.
      destruct (p_tree s !! q) as [m|] eqn:Eq; [|reflexivity]. cbn. f_equal.
      destruct (pn_kind m) as [|j] eqn:Km.
      + unfold pabsn. rewrite Km. reflexivity.
      + destruct (Nat.eqb j ino) eqn:Ej.
        * apply Nat.eqb_eq in Ej. subst j. exfalso. apply Hqp. eapply (Hinj q p); eauto.
        * unfold pabsn. rewrite Km. f_equal. unfold phys_inode. cbn. rewrite lookup_insert_ne; [reflexivity|].
          intros <-. rewrite Nat.eqb_refl in Ej. discriminate.
  Qed.

  Lemma pgood_set_inode (s : physfs) ino data : pgood s -> pgood (phys_set_inode s ino data).
  Proof.
    intros [[Hr Hpc] [Hfresh Hinj]].
    assert (Hk : forall q m, p_tree (phys_set_inode s ino data) !! q = Some m ->
                 exists m', p_tree s !! q = Some m' /\ pn_kind m' = pn_kind m).
    { intros q m H. unfold phys_set_inode in H. cbn [p_tree] in H. rewrite lookup_fmap in H.
      destruct (p_tree s !! q) as [m'|]; [|discriminate]. cbn in H. injection H as <-. exists m'. split; [reflexivity|].
      destruct (pn_kind m') as [|j] eqn:K; [auto|]. destruct (Nat.eqb j ino); cbn; auto. }
    assert (Hd : forall q, p_is_dir (p_tree s) q -> p_is_dir (p_tree (phys_set_inode s ino data)) q).
    { intros q (m & Hm & Hmk). unfold phys_set_inode. cbn [p_tree]. eexists. rewrite lookup_fmap, Hm. cbn. split; [reflexivity|].
      rewrite Hmk. exact Hmk. }
    split; [split|split].
    - apply Hd, Hr.
    - intros q n x Hx. destruct (Hk _ _ Hx) as (x' & Hx' & _). apply Hd. eapply Hpc, Hx'.
    - intros q m j Hq Hm. destruct (Hk _ _ Hq) as (m' & Hq' & Hkk). cbn [phys_set_inode p_next]. apply (Hfresh q m' j Hq'). congruence.
    - intros q1 q2 m1 m2 j H1 H2 K1 K2. destruct (Hk _ _ H1) as (a & Ha & Ka). destruct (Hk _ _ H2) as (b & Hb & Kb).
      apply (Hinj q1 q2 a b j Ha Hb); congruence.
  Qed.

  Lemma phop_write (s : physfs) hs h ino data :
    hs !! h = Some (HPhysWriter 0 ino 0 false) -> phys_inode s ino = [] -> data <> [] ->
    handle_op h (HWrite data) (PS s hs) =
    (PS (phys_set_inode s ino data) (<[h := HPhysWriter 0 ino (Z.of_nat (length data)) false]> hs), Ok (N.of_nat (length data))).
  Proof.
    intros Hh Hc Hd. rewrite handle_op_no_io by reflexivity. unfold handle_op0. cbn [st_handles pstore]. rewrite Hh. cbn [put].
    destruct data as [|b data]; [congruence|].
    unfold phys_content. cbn [st_bases pstore lookup list_lookup]. rewrite Hc, cursor_write_fresh. reflexivity.
  Qed.

  Lemma phop_drop (s : physfs) hs h ino pos :
    hs !! h = Some (HPhysWriter 0 ino pos false) ->
    handle_op h HDrop (PS s hs) = (PS s (<[h := HClosed]> hs), Ok tt).
  Proof. intros Hh. rewrite handle_op_no_io by reflexivity. unfold handle_op0. cbn [st_handles pstore]. rewrite Hh. reflexivity. Qed.

  (** ** the whole session on the modelled PhysicalFS *)
  Theorem prefine_write_file (s : physfs) hs p data : pgood s ->
    exists s' hs' r, run bhandler (write_file pv p data) (PS s hs) = (PS s' hs', r) /\
      pabs s' = fst (spec_write_file (pabs s) p data) /\
      class_of r = snd (spec_write_file (pabs s) p data) /\ pgood s'.
  Proof.
    intros Hgood.
    destruct (prefine_create_file s hs p Hgood) as (s1 & hs1 & r1 & Hrun & Habs & Hcls & Hg1 & Hh).
    unfold write_file, bind_res. rewrite run_bind, Hrun. unfold spec_write_file. rewrite <- Hcls.
    destruct r1 as [h|e|]; cbn [class_of].
    - destruct Hh as (ino & nd & -> & -> & Hp & Hk & Hc).
      assert (Hl : forall x, (hs ++ [x]) !! length hs = Some x).
      { intros x. rewrite lookup_app_r by lia. now rewrite Nat.sub_diag. }
      assert (Ht1 : pabs s1 = <[p := NFile []]> (pabs s)).
      { rewrite Habs. unfold spec_create_file in *. destruct (decide (parent_dir (pabs s) p)); [|discriminate].
        destruct (pabs s !! p) as [[|b]|]; [discriminate|reflexivity|reflexivity]. }
      destruct data as [|b data].
      + (* nothing to write *)
        rewrite run_bind. cbn [run]. rewrite run_bind. cbn [run bhandler].
        rewrite (phop_drop s1 _ (length hs) ino 0 (Hl _)). cbn [run].
        eexists. eexists. eexists. split; [reflexivity|]. split; [exact Ht1|]. split; [reflexivity|exact Hg1].
      + rewrite run_bind. cbn [run bhandler].
        rewrite (phop_write s1 _ (length hs) ino (b :: data) (Hl _) Hc ltac:(discriminate)).
        rewrite run_bind. cbn [run bhandler].
        assert (Hl2 : (<[length hs := HPhysWriter 0 ino (Z.of_nat (length (b :: data))) false]> (hs ++ [HPhysWriter 0 ino 0 false])) !! length hs
                      = Some (HPhysWriter 0 ino (Z.of_nat (length (b :: data))) false)).
        { apply list_lookup_insert. rewrite app_length. cbn. lia. }
        rewrite (phop_drop _ _ (length hs) ino _ Hl2). cbn [run].
        eexists. eexists. eexists. split; [reflexivity|]. split; [|split; [reflexivity|apply pgood_set_inode, Hg1]].
        rewrite (pabs_set_inode s1 p nd ino (b :: data) (proj2 Hg1) Hp Hk), Ht1. apply insert_insert.
    - subst hs1. cbn [run]. exists s1, hs. eexists. split; [reflexivity|].
      assert (Hnok : class_of (@Err hid e) <> KOk) by (cbn; destruct (e_kind e); discriminate).
      assert (Hs1 : pabs s1 = pabs s).
      { rewrite Habs. unfold spec_create_file in *. destruct (decide (parent_dir (pabs s) p)); [|reflexivity].
        destruct (pabs s !! p) as [[|b]|]; cbn [fst snd] in *; [reflexivity|congruence|congruence]. }
      clear Hnok Hcls Habs. destruct e as [k pp]. destruct k; cbn; (split; [exact Hs1|split; [reflexivity|exact Hg1]]).
    - subst hs1. cbn [run]. exists s1, hs. eexists. split; [reflexivity|].
      assert (Hs1 : pabs s1 = pabs s).
      { rewrite Habs. unfold spec_create_file in *. destruct (decide (parent_dir (pabs s) p)); [|reflexivity].
        destruct (pabs s !! p) as [[|b]|]; cbn [fst snd class_of] in *; [reflexivity|discriminate|discriminate]. }
      cbn [class_of]. split; [exact Hs1|split; [reflexivity|exact Hg1]].
  Qed.
End PFiles.

(** ** the same session on MemoryFS: buffered in the handle, published on drop *)
Section MFiles.
  Variables (lg : list (nat * fscall)) (ft : option (nat * nat)).

  Theorem refine_write_file (s : gmap (list (list N)) memfile) hs p data : wf s ->
    (Z.of_nat (length data) <= i64_max)%Z ->
    exists s' hs' r, run bhandler (write_file mv p data) (mstore s hs lg ft) = (mstore s' hs' lg ft, r) /\
      abs s' = fst (spec_write_file (abs s) p data) /\
      class_of r = snd (spec_write_file (abs s) p data) /\ wf s'.
  Proof.
    intros Hwf Hfit.
    destruct (refine_create_file lg ft s hs p Hwf) as (s1 & hs1 & r1 & Hrun & Habs & Hcls & Hwf1 & Hh).
    unfold write_file, bind_res. rewrite run_bind, Hrun. unfold spec_write_file. rewrite <- Hcls.
    destruct r1 as [h|e|]; cbn [class_of].
    - destruct Hh as [Hh _].
      assert (Ht1 : abs s1 = <[p := NFile []]> (abs s)).
      { rewrite Habs. unfold spec_create_file in *. destruct (decide (parent_dir (abs s) p)); [|discriminate].
        destruct (abs s !! p) as [[|b]|]; [discriminate|reflexivity|reflexivity]. }
      assert (Hfile : exists b, abs s1 !! p = Some (NFile b)) by (rewrite Ht1, lookup_insert; eauto).
      destruct data as [|b data].
      + rewrite run_bind. cbn [run]. rewrite run_bind. cbn [run bhandler].
        destruct (refine_drop lg ft s1 hs1 h p [] 0 Hwf1 Hh) as (s2 & Hd & Ha2 & Hwf2).
        rewrite Hd. cbn [run]. eexists. eexists. eexists. split; [reflexivity|].
        split; [|split; [reflexivity|exact Hwf2]].
        rewrite Ha2. unfold spec_publish. destruct Hfile as (b0 & ->). rewrite Ht1. apply insert_insert.
      + rewrite run_bind. cbn [run bhandler].
        rewrite (refine_write lg ft s1 hs1 h p [] 0 (b :: data) Hh ltac:(discriminate) Hfit). rewrite cursor_write_fresh. cbn [fst snd].
        rewrite run_bind. cbn [run bhandler].
        assert (Hh2 : <[h := HMemWriter 0 p (b :: data) (Z.of_nat (length (b :: data)))]> hs1 !! h =
                      Some (HMemWriter 0 p (b :: data) (Z.of_nat (length (b :: data))))).
        { apply list_lookup_insert. eapply lookup_lt_Some; eauto. }
        destruct (refine_drop lg ft s1 _ h p (b :: data) _ Hwf1 Hh2) as (s2 & Hd & Ha2 & Hwf2).
        rewrite Hd. cbn [run]. eexists. eexists. eexists. split; [reflexivity|].
        split; [|split; [reflexivity|exact Hwf2]].
        rewrite Ha2. unfold spec_publish. destruct Hfile as (b0 & ->). rewrite Ht1. apply insert_insert.
    - subst hs1. cbn [run]. exists s1, hs. eexists. split; [reflexivity|].
      assert (Hs1 : abs s1 = abs s).
      { rewrite Habs. unfold spec_create_file in *. destruct (decide (parent_dir (abs s) p)); [|reflexivity].
        destruct (abs s !! p) as [[|b]|]; cbn [fst snd] in *; [reflexivity| |];
          exfalso; destruct e as [k pp]; destruct k; cbn in Hcls; discriminate. }
      clear Hcls Habs. destruct e as [k pp]. destruct k; cbn; (split; [exact Hs1|split; [reflexivity|exact Hwf1]]).
    - subst hs1. cbn [run]. exists s1, hs. eexists. split; [reflexivity|].
      assert (Hs1 : abs s1 = abs s).
      { rewrite Habs. unfold spec_create_file in *. destruct (decide (parent_dir (abs s) p)); [|reflexivity].
        destruct (abs s !! p) as [[|b]|]; cbn [fst snd class_of] in *; [reflexivity|discriminate|discriminate]. }
      cbn [class_of]. split; [exact Hs1|split; [reflexivity|exact Hwf1]].
  Qed.
End MFiles.

(** ** the two backends agree on a whole write session *)
Theorem agree_write_file (hs hs' : list hstate) (lg lg' : list (nat * fscall)) (ft ft' : option (nat * nat))
    (s : gmap (list (list N)) memfile) (ps : physfs) (p : path) (data : bytes) :
  wf s -> pgood ps -> abs s = pabs ps -> (Z.of_nat (length data) <= i64_max)%Z ->
  exists s' hs1 r ps' hs1' r',
    run bhandler (write_file mv p data) (mstore s hs lg ft) = (mstore s' hs1 lg ft, r) /\
    run bhandler (write_file pv p data) (pstore ps hs' lg' ft') = (pstore ps' hs1' lg' ft', r') /\
    abs s' = pabs ps' /\ wf s' /\ pgood ps' /\ class_of r = class_of r'.
Proof.
  intros Hwf Hg Hrel Hfit.
  destruct (refine_write_file lg ft s hs p data Hwf Hfit) as (s' & hs1 & r & E1 & A1 & C1 & W1).
  destruct (prefine_write_file lg' ft' ps hs' p data Hg) as (ps' & hs1' & r' & E2 & A2 & C2 & W2).
  exists s', hs1, r, ps', hs1', r'.
  split; [exact E1|]. split; [exact E2|]. split; [rewrite A1, A2, Hrel; reflexivity|].
  split; [exact W1|]. split; [exact W2|]. rewrite C1, C2, Hrel. reflexivity.
Qed.

(** ** inode bookkeeping is kept by the calls that do not touch file contents *)
Lemma inodes_ok_shrink (s s' : physfs) :
  inodes_ok s -> p_next s <= p_next s' ->
  (forall q m j, p_tree s' !! q = Some m -> pn_kind m = PFile j -> exists m', p_tree s !! q = Some m' /\ pn_kind m' = PFile j) ->
  inodes_ok s'.
Proof.
  intros [Hfresh Hinj] Hn Hsub. split.
  - intros q m j Hq Hm. destruct (Hsub q m j Hq Hm) as (m' & Hq' & Hm'). pose proof (Hfresh _ _ _ Hq' Hm'). lia.
  - intros q1 q2 m1 m2 j H1 H2 K1 K2. destruct (Hsub _ _ _ H1 K1) as (a & Ha & Ka). destruct (Hsub _ _ _ H2 K2) as (b & Hb & Kb).
    exact (Hinj q1 q2 a b j Ha Hb Ka Kb).
Qed.

Lemma step_inodes_ok (c : fscall) (s : physfs) :
  inodes_ok s ->
  match c with CCreateDir _ | CRemoveFile _ | CRemoveDir _ => True | _ => False end ->
  inodes_ok (fst (phys_step c s)).
Proof.
  intros Hok Hc. destruct c; try contradiction; unfold phys_step.
  - (* create_dir *)
    destruct p as [|x p']; [destruct (lookup_path s []); exact Hok|].
    destruct (lookup_path s (removelast (x :: p'))) as [pn| |]; try exact Hok.
    destruct (pn_kind pn); [|exact Hok].
    destruct (p_tree s !! (x :: p')) as [n|] eqn:E; [exact Hok|].
    cbn [fst]. apply (inodes_ok_shrink s); [exact Hok|cbn; lia|].
    intros q m j Hq Hm. cbn [set_tree p_tree] in Hq.
    destruct (touch_dir_lookup_kind _ _ _ _ _ Hq Hm) as (m' & Hq' & Hm').
    destruct (decide (q = x :: p')) as [->|Hne].
    + rewrite lookup_insert in Hq'. injection Hq' as <-. discriminate.
    + rewrite lookup_insert_ne in Hq' by congruence. eauto.
  - (* remove_file *)
    destruct (lookup_path s p) as [n| |]; try exact Hok. destruct (pn_kind n); [exact Hok|].
    cbn [fst]. apply (inodes_ok_shrink s); [exact Hok|cbn; lia|].
    intros q m j Hq Hm. cbn [set_tree p_tree] in Hq.
    destruct (touch_dir_lookup_kind _ _ _ _ _ Hq Hm) as (m' & Hq' & Hm').
    apply lookup_delete_Some in Hq' as [_ Hq']. eauto.
  - (* remove_dir *)
    destruct (lookup_path s p) as [n| |]; try exact Hok. destruct (pn_kind n); [|exact Hok].
    destruct (phys_children s p); [|exact Hok].
    cbn [fst]. apply (inodes_ok_shrink s); [exact Hok|cbn; lia|].
    intros q m j Hq Hm. cbn [set_tree p_tree] in Hq.
    destruct (touch_dir_lookup_kind _ _ _ _ _ Hq Hm) as (m' & Hq' & Hm').
    apply lookup_delete_Some in Hq' as [_ Hq']. eauto.
Qed.

Lemma pstore_inj (a b : physfs) hs hs' lg lg' ft ft' : pstore a hs lg ft = pstore b hs' lg' ft' -> a = b.
Proof. unfold pstore. intros H. injection H as H _ _ _. exact H. Qed.

Lemma run_inodes_ok (hs : list hstate) (lg : list (nat * fscall)) (ft : option (nat * nat)) (ps ps1 : physfs) hs1 :
  pwf (p_tree ps) -> inodes_ok ps ->
  (forall p r, run bhandler (vp_create_dir pv p) (pstore ps hs lg ft) = (pstore ps1 hs1 lg ft, r) -> inodes_ok ps1) /\
  (forall p r, run bhandler (vp_remove_file pv p) (pstore ps hs lg ft) = (pstore ps1 hs1 lg ft, r) -> inodes_ok ps1) /\
  (forall p r, run bhandler (vp_remove_dir pv p) (pstore ps hs lg ft) = (pstore ps1 hs1 lg ft, r) -> inodes_ok ps1).
Proof.
  intros Hwf Hok. split; [|split]; intros p r H.
  - unfold vp_create_dir, bind_res in H. rewrite run_bind, (pcall_get_parent hs lg ft ps p Hwf) in H.
    case_bool_decide.
    + rewrite pcall_create_dir in H. apply (f_equal fst) in H. cbn [fst] in H. apply pstore_inj in H. subst ps1. now apply step_inodes_ok.
    + apply (f_equal fst) in H. cbn [fst run] in H. apply pstore_inj in H. now subst ps1.
  - rewrite pcall_remove_file in H. apply (f_equal fst) in H. cbn [fst] in H. apply pstore_inj in H. subst ps1. now apply step_inodes_ok.
  - rewrite pcall_remove_dir in H. apply (f_equal fst) in H. cbn [fst] in H. apply pstore_inj in H. subst ps1. now apply step_inodes_ok.
Qed.

(** ** whole histories with files: any sequence of exists / create_dir / write sessions with arbitrary bytes /
    remove_file / remove_dir, on any paths (wrong types, missing parents, overwriting included), run on both
    backends from related states: call by call the same success or failure, exists answers the same, and the
    final trees - entries, types and file BYTES - are the same *)
Inductive hop5 :=
| FExists (p : path) | FCreateDir (p : path) | FWriteFile (p : path) (data : bytes) | FRemoveFile (p : path) | FRemoveDir (p : path).

(** the root is neither created nor removed; a write session fits into a buffer (fewer than 2^63 bytes: beyond that the
    in-memory handle refuses the write, see [write_too_large]) *)
Definition hop5_ok (o : hop5) : Prop :=
  match o with
  | FCreateDir p | FRemoveDir p => p <> []
  | FWriteFile _ data => (Z.of_nat (length data) <= i64_max)%Z
  | _ => True
  end.

Definition hop5_prog (v : vfs) (o : hop5) : bprog (res bool) :=
  match o with
  | FExists p => vp_exists v p
  | FCreateDir p => let* r := vp_create_dir v p in Ret (res_map (fun _ => true) r)
  | FWriteFile p data => let* r := write_file v p data in Ret (res_map (fun _ => true) r)
  | FRemoveFile p => let* r := vp_remove_file v p in Ret (res_map (fun _ => true) r)
  | FRemoveDir p => let* r := vp_remove_dir v p in Ret (res_map (fun _ => true) r)
  end.

Fixpoint hist5_run (v : vfs) (ops : list hop5) (st : store) : store * list (option bool) :=
  match ops with
  | [] => (st, [])
  | o :: ops' =>
      let '(st1, r) := run bhandler (hop5_prog v o) st in
      let '(st2, rs) := hist5_run v ops' st1 in
      (st2, seen r :: rs)
  end.

Theorem agree_history_files (lg lg' : list (nat * fscall)) (ft ft' : option (nat * nat)) :
  forall (ops : list hop5) (s : gmap (list (list N)) memfile) (ps : physfs) (hs hs' : list hstate),
  Forall hop5_ok ops -> wf s -> pgood ps -> abs s = pabs ps ->
  exists s' ps' hs1 hs1',
    fst (hist5_run mv ops (mstore s hs lg ft)) = mstore s' hs1 lg ft /\
    fst (hist5_run pv ops (pstore ps hs' lg' ft')) = pstore ps' hs1' lg' ft' /\
    snd (hist5_run mv ops (mstore s hs lg ft)) = snd (hist5_run pv ops (pstore ps hs' lg' ft')) /\
    abs s' = pabs ps' /\ wf s' /\ pgood ps'.
Proof.
  induction ops as [|o ops IH]; intros s ps hs hs' Hok Hwf Hg Hrel.
  - exists s, ps, hs, hs'. cbn. split; [reflexivity|]. split; [reflexivity|]. split; [reflexivity|]. split; [exact Hrel|]. split; [exact Hwf|exact Hg].
  - inversion Hok as [|? ? Ho Hok']; subst. cbn [hist5_run].
    pose proof Hg as [Hpwf Hino].
    assert (Hstep : exists s1 ps1 h1 h1' r r',
               run bhandler (hop5_prog mv o) (mstore s hs lg ft) = (mstore s1 h1 lg ft, r) /\
               run bhandler (hop5_prog pv o) (pstore ps hs' lg' ft') = (pstore ps1 h1' lg' ft', r') /\
               seen r = seen r' /\ abs s1 = pabs ps1 /\ wf s1 /\ pgood ps1).
    { destruct o as [p|p|p data|p|p]; cbn [hop5_prog hop5_ok] in *.
      - exists s, ps, hs, hs'. do 2 eexists. rewrite refine_exists, (prefine_exists hs' lg' ft' ps p Hpwf).
        split; [reflexivity|]. split; [reflexivity|]. rewrite Hrel. auto.
      - destruct (agree_create_dir hs hs' lg lg' ft ft' s ps p Hwf Hpwf Hrel Ho) as (s1 & r & ps1 & r' & E1 & E2 & A & W1 & W2 & C).
        exists s1, ps1, hs, hs'. do 2 eexists. rewrite !run_bind, E1, E2. cbn [run].
        split; [reflexivity|]. split; [reflexivity|]. split; [apply class_ok_seen; now rewrite C|].
        split; [exact A|]. split; [exact W1|]. split; [exact W2|]. destruct (run_inodes_ok hs' lg' ft' ps ps1 hs' Hpwf Hino) as (J & _ & _). eapply J, E2.
      - destruct (agree_write_file hs hs' lg lg' ft ft' s ps p data Hwf Hg Hrel Ho) as (s1 & h1 & r & ps1 & h1' & r' & E1 & E2 & A & W1 & W2 & C).
        exists s1, ps1, h1, h1'. do 2 eexists. rewrite !run_bind, E1, E2. cbn [run].
        split; [reflexivity|]. split; [reflexivity|]. split; [apply class_ok_seen; now rewrite C|]. auto.
      - destruct (agree_remove_file hs hs' lg lg' ft ft' s ps p Hwf Hpwf Hrel) as (s1 & r & ps1 & r' & E1 & E2 & A & W1 & W2 & C & _).
        exists s1, ps1, hs, hs'. do 2 eexists. rewrite !run_bind, E1, E2. cbn [run].
        split; [reflexivity|]. split; [reflexivity|]. split; [now apply class_ok_seen|].
        split; [exact A|]. split; [exact W1|]. split; [exact W2|]. destruct (run_inodes_ok hs' lg' ft' ps ps1 hs' Hpwf Hino) as (_ & J & _). eapply J, E2.
      - destruct (agree_remove_dir hs hs' lg lg' ft ft' s ps p Hwf Hpwf Hrel Ho) as (s1 & r & ps1 & r' & E1 & E2 & A & W1 & W2 & C & _).
        exists s1, ps1, hs, hs'. do 2 eexists. rewrite !run_bind, E1, E2. cbn [run].
        split; [reflexivity|]. split; [reflexivity|]. split; [now apply class_ok_seen|].
        split; [exact A|]. split; [exact W1|]. split; [exact W2|]. destruct (run_inodes_ok hs' lg' ft' ps ps1 hs' Hpwf Hino) as (_ & _ & J). eapply J, E2. }
    destruct Hstep as (s1 & ps1 & h1 & h1' & r & r' & E1 & E2 & Hseen & A1 & W1 & P1).
    rewrite E1, E2.
    destruct (IH s1 ps1 h1 h1' Hok' W1 P1 A1) as (s' & ps' & k1 & k1' & F1 & F2 & Hs & A & W & P).
    destruct (hist5_run mv ops (mstore s1 h1 lg ft)) as [st2 rs].
    destruct (hist5_run pv ops (pstore ps1 h1' lg' ft')) as [st2' rs'].
    cbn [fst snd] in *. exists s', ps', k1, k1'. rewrite Hseen, Hs.
    split; [exact F1|]. split; [exact F2|]. split; [reflexivity|]. split; [exact A|]. split; [exact W|exact P].
Qed.
