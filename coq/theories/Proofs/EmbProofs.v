(** EmbeddedFS: the maps built by [EmbeddedFS::new] from the list of embedded files describe
    exactly the tree implied by the file paths (C18). *)
From stdpp Require Import gmap list.
From Coq Require Import NArith ZArith Lia.
From VFS Require Import Core.Types Core.Calls Base.MemFS Base.Embedded.

Notation dmap := (gmap (list (list N)) (list (list N))).

(** [q] is a proper prefix of [f] *)
Definition below (q f : list (list N)) : Prop := exists n r, f = q ++ n :: r.

Definition listed (m : dmap) (d : list (list N)) (n : list N) : Prop := n ∈ default [] (m !! d).

Lemma add_child_listed (m : dmap) d n d' n' :
  listed (add_child d n m) d' n' <-> listed m d' n' \/ (d' = d /\ n' = n).
Proof.
  unfold listed, add_child. destruct (decide (d' = d)) as [->|Hne].
  - rewrite lookup_insert. cbn. case_bool_decide as Hin.
    + split; [tauto|]. intros [H|[_ ->]]; assumption.
    + rewrite elem_of_app, elem_of_list_singleton. tauto.
  - rewrite lookup_insert_ne by congruence. split; [tauto|]. intros [H|[? _]]; [assumption|congruence].
Qed.

Lemma add_child_dom (m : dmap) d n d' :
  is_Some (add_child d n m !! d') <-> is_Some (m !! d') \/ d' = d.
Proof.
  unfold add_child. destruct (decide (d' = d)) as [->|Hne].
  - rewrite lookup_insert. split; eauto.
  - rewrite lookup_insert_ne by congruence. split; [tauto|]. intros [H|?]; [assumption|congruence].
Qed.

(** the walk from a file up to the root lists every component below its parent *)
Lemma add_ancestors_listed rp : forall (m : dmap) d n,
  listed (add_ancestors rp m) d n <-> listed m d n \/ exists r, reverse rp = d ++ n :: r.
Proof.
  induction rp as [|x rest IH]; intros m d n; cbn [add_ancestors].
  - split; [tauto|]. intros [H|[r Hr]]; [assumption|]. cbn in Hr. destruct d; discriminate.
  - rewrite IH, add_child_listed, reverse_cons. split.
    + intros [[H|[-> ->]]|[r Hr]].
      * now left.
      * right. exists []. reflexivity.
      * right. exists (r ++ [x]). rewrite Hr. now rewrite <- !app_assoc.
    + intros [H|[r Hr]]; [tauto|].
      destruct r as [|y r'] using rev_ind.
      * apply app_inj_tail in Hr as [-> ->]. left. right. auto.
      * clear IHr'. right. exists r'. rewrite app_comm_cons, app_assoc in Hr.
        apply app_inj_tail in Hr as [Hr _]. exact Hr.
Qed.

Lemma add_ancestors_dom rp : forall (m : dmap) d,
  is_Some (add_ancestors rp m !! d) <-> is_Some (m !! d) \/ below d (reverse rp).
Proof.
  induction rp as [|x rest IH]; intros m d; cbn [add_ancestors].
  - split; [tauto|]. intros [H|(n & r & Hr)]; [assumption|]. cbn in Hr. destruct d; discriminate.
  - rewrite IH, add_child_dom, reverse_cons. unfold below. split.
    + intros [[H| ->]|(n & r & Hr)].
      * now left.
      * right. exists x, []. reflexivity.
      * right. exists n, (r ++ [x]). rewrite Hr. now rewrite <- !app_assoc.
    + intros [H|(n & r & Hr)]; [tauto|].
      destruct r as [|y r'] using rev_ind.
      * apply app_inj_tail in Hr as [-> ->]. left. right. reflexivity.
      * clear IHr'. right. exists n, r'. rewrite app_comm_cons, app_assoc in Hr.
        apply app_inj_tail in Hr as [Hr _]. exact Hr.
Qed.

(** the maps after [EmbeddedFS::new] *)
Definition emb_step1 (fs : embfs) (fb : list (list N) * list N) : embfs :=
  mkEmb (add_ancestors (reverse (fst fb)) (e_dirs fs)) (<[fst fb := snd fb]> (e_files fs)).
Fixpoint emb_fold (files : list (list (list N) * list N)) (init : embfs) : embfs :=
  match files with
  | [] => init
  | fb :: rest => emb_fold rest (emb_step1 init fb)
  end.
Lemma emb_new_fold files : emb_new files = emb_fold files (mkEmb {[ [] := [] ]} ∅).
Proof.
  unfold emb_new. generalize (mkEmb {[ [] := [] ]} ∅).
  induction files as [|fb files IH]; intros init; cbn; [reflexivity|]. apply IH.
Qed.

Lemma emb_fold_listed files : forall init d n,
  listed (e_dirs (emb_fold files init)) d n <->
  listed (e_dirs init) d n \/ exists f r, f ∈ map fst files /\ f = d ++ n :: r.
Proof.
  induction files as [|[f b] files IH]; intros init d n; cbn [emb_fold map].
  - split; [tauto|]. intros [H|(f & r & Hf & _)]; [assumption|]. now apply elem_of_nil in Hf.
  - rewrite IH. unfold emb_step1 at 1. cbn [e_dirs fst].
    rewrite add_ancestors_listed, reverse_involutive. split.
    + intros [[H|[r Hr]]|(f' & r & Hf & E)].
      * now left.
      * right. exists f, r. split; [apply elem_of_cons; auto|exact Hr].
      * right. exists f', r. split; [apply elem_of_cons; auto|exact E].
    + intros [H|(f' & r & Hf & E)]; [tauto|].
      apply elem_of_cons in Hf as [->|Hf]; [left; right; eauto|right; eauto].
Qed.

Lemma emb_fold_dirs files : forall init d,
  is_Some (e_dirs (emb_fold files init) !! d) <->
  is_Some (e_dirs init !! d) \/ exists f, f ∈ map fst files /\ below d f.
Proof.
  induction files as [|[f b] files IH]; intros init d; cbn [emb_fold map].
  - split; [tauto|]. intros [H|(f & Hf & _)]; [assumption|]. now apply elem_of_nil in Hf.
  - rewrite IH. unfold emb_step1 at 1. cbn [e_dirs fst].
    rewrite add_ancestors_dom, reverse_involutive. split.
    + intros [[H|H]|(f' & Hf & E)].
      * now left.
      * right. exists f. split; [apply elem_of_cons; auto|exact H].
      * right. exists f'. split; [apply elem_of_cons; auto|exact E].
    + intros [H|(f' & Hf & E)]; [tauto|].
      apply elem_of_cons in Hf as [->|Hf]; [left; right; exact E|right; eauto].
Qed.

Lemma emb_fold_files files : forall init p,
  is_Some (e_files (emb_fold files init) !! p) <-> is_Some (e_files init !! p) \/ p ∈ map fst files.
Proof.
  induction files as [|[f b] files IH]; intros init p; cbn [emb_fold map].
  - rewrite elem_of_nil. tauto.
  - rewrite IH. unfold emb_step1 at 1. cbn [e_files fst snd]. rewrite elem_of_cons.
    destruct (decide (p = f)) as [->|Hne].
    + rewrite lookup_insert. split; intros _; [right; left; reflexivity|left; eauto].
    + rewrite lookup_insert_ne by congruence. split; intros [H|H]; auto. destruct H; [congruence|auto].
Qed.

(** the bytes served for a file are the bytes embedded for it *)
Lemma emb_fold_keeps files : forall init p b,
  p ∉ map fst files -> e_files init !! p = Some b -> e_files (emb_fold files init) !! p = Some b.
Proof.
  induction files as [|[f c] files IH]; intros init p b Hnin Hp; cbn [emb_fold]; [exact Hp|].
  cbn [map fst] in Hnin. apply IH; [intros H; apply Hnin; apply elem_of_cons; auto|].
  unfold emb_step1. cbn. rewrite lookup_insert_ne; [exact Hp|]. intros ->. apply Hnin. apply elem_of_cons; auto.
Qed.

Lemma emb_fold_content files : forall init p b,
  NoDup (map fst files) -> (p, b) ∈ files -> e_files (emb_fold files init) !! p = Some b.
Proof.
  induction files as [|[f c] files IH]; intros init p b Hnd Hin; [now apply elem_of_nil in Hin|].
  cbn [emb_fold]. cbn [map fst] in Hnd. inversion Hnd as [|? ? Hnin Hnd']; subst.
  apply elem_of_cons in Hin as [[= -> ->]|Hin].
  - apply emb_fold_keeps; [exact Hnin|]. unfold emb_step1. cbn. apply lookup_insert.
  - now apply IH.
Qed.
