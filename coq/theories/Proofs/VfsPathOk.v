(** [calls_ok] for every VfsPath method, given what the path's own filesystem
    issues for each trait call. *)
From stdpp Require Import list sets gmap.
From Coq Require Import NArith ZArith.
From VFS Require Import Core.Types Core.Prog Core.Calls Layer.VfsPath Proofs.CallsOk.

Ltac co_step :=
  first
    [ apply CO_ret
    | apply calls_ok_bind_res; [|intros ?]
    | apply calls_ok_bind; [|intros ?]
    | apply CO_call; [|intros ?]
    | match goal with |- calls_ok _ (match ?x with _ => _ end) => destruct x end
    | match goal with |- calls_ok _ (if ?x then _ else _) => destruct x end ].

Section VfsPathOk.
  Variable ok : bcall -> Prop.
  Variable v : vfs.
  (** the calls the instance may be asked *)
  Variable asked : fscall -> Prop.
  Hypothesis impl_ok : forall c, asked c -> calls_ok ok (v_impl v c).

  Lemma labelled_ok {T} (m : bprog (res T)) p : calls_ok ok m -> calls_ok ok (labelled m p).
  Proof. intros H. unfold labelled. apply calls_ok_bind; [exact H|]. intros; constructor. Qed.

  Lemma ret_err_ok {T} k p : calls_ok ok (@ret_err T k p).
  Proof. constructor. Qed.

  Lemma vp_exists_ok p : asked (CExists p) -> calls_ok ok (vp_exists v p).
  Proof. intros H. exact (impl_ok _ H). Qed.
  Lemma vp_metadata_ok p : asked (CMetadata p) -> calls_ok ok (vp_metadata v p).
  Proof. intros H. apply labelled_ok. exact (impl_ok _ H). Qed.
  Lemma vp_open_file_ok p : asked (COpenFile p) -> calls_ok ok (vp_open_file v p).
  Proof. intros H. apply labelled_ok. exact (impl_ok _ H). Qed.
  Lemma vp_append_file_ok p : asked (CAppendFile p) -> calls_ok ok (vp_append_file v p).
  Proof. intros H. apply labelled_ok. exact (impl_ok _ H). Qed.
  Lemma vp_remove_file_ok p : asked (CRemoveFile p) -> calls_ok ok (vp_remove_file v p).
  Proof. intros H. apply labelled_ok. exact (impl_ok _ H). Qed.
  Lemma vp_remove_dir_ok p : asked (CRemoveDir p) -> calls_ok ok (vp_remove_dir v p).
  Proof. intros H. apply labelled_ok. exact (impl_ok _ H). Qed.
  Lemma vp_set_ctime_ok p t : asked (CSetCTime p t) -> calls_ok ok (vp_set_ctime v p t).
  Proof. intros H. apply labelled_ok. exact (impl_ok _ H). Qed.
  Lemma vp_set_mtime_ok p t : asked (CSetMTime p t) -> calls_ok ok (vp_set_mtime v p t).
  Proof. intros H. apply labelled_ok. exact (impl_ok _ H). Qed.
  Lemma vp_set_atime_ok p t : asked (CSetATime p t) -> calls_ok ok (vp_set_atime v p t).
  Proof. intros H. apply labelled_ok. exact (impl_ok _ H). Qed.

  Lemma vp_read_dir_ok p : asked (CReadDir p) -> calls_ok ok (vp_read_dir v p).
  Proof.
    intros H. unfold vp_read_dir. apply calls_ok_bind_res; [|intros; constructor].
    apply labelled_ok. exact (impl_ok _ H).
  Qed.

  Lemma vp_get_parent_ok p :
    asked (CExists (removelast p)) -> asked (CMetadata (removelast p)) ->
    calls_ok ok (vp_get_parent v p).
  Proof.
    intros H1 H2. unfold vp_get_parent.
    apply calls_ok_bind_res; [now apply vp_exists_ok|]. intros ex.
    destruct (negb ex); [apply ret_err_ok|].
    apply calls_ok_bind_res; [now apply vp_metadata_ok|]. intros md.
    destruct (m_type md); [apply ret_err_ok|constructor].
  Qed.

  Lemma vp_create_dir_ok p :
    asked (CExists (removelast p)) -> asked (CMetadata (removelast p)) -> asked (CCreateDir p) ->
    calls_ok ok (vp_create_dir v p).
  Proof.
    intros H1 H2 H3. unfold vp_create_dir.
    apply calls_ok_bind_res; [now apply vp_get_parent_ok|]. intros _.
    apply labelled_ok. exact (impl_ok _ H3).
  Qed.

  Lemma vp_create_file_ok p :
    asked (CExists (removelast p)) -> asked (CMetadata (removelast p)) -> asked (CCreateFile p) ->
    calls_ok ok (vp_create_file v p).
  Proof.
    intros H1 H2 H3. unfold vp_create_file.
    apply calls_ok_bind_res; [now apply vp_get_parent_ok|]. intros _.
    apply labelled_ok. exact (impl_ok _ H3).
  Qed.

  Lemma create_dirs_ok ds :
    (forall d, d ∈ ds -> asked (CCreateDir d)) -> calls_ok ok (create_dirs v ds).
  Proof.
    induction ds as [|d ds IH]; intros H; cbn; [constructor|].
    apply calls_ok_bind; [apply impl_ok, H; set_solver|].
    intros [u|e|]; [apply IH; intros; apply H; set_solver| |constructor].
    destruct (e_kind e); try constructor. apply IH; intros; apply H; set_solver.
  Qed.

  Lemma vp_create_dir_all_ok p :
    (forall n, asked (CCreateDir (take n p))) -> calls_ok ok (vp_create_dir_all v p).
  Proof.
    intros H. apply create_dirs_ok. intros d Hd. unfold prefixes in Hd.
    apply elem_of_list_fmap in Hd as (n & -> & _). apply H.
  Qed.

  Lemma vp_is_file_ok p : asked (CExists p) -> asked (CMetadata p) -> calls_ok ok (vp_is_file v p).
  Proof.
    intros H1 H2. unfold vp_is_file.
    apply calls_ok_bind_res; [now apply vp_exists_ok|]. intros ex. destruct (negb ex); [constructor|].
    apply calls_ok_bind_res; [now apply vp_metadata_ok|]. intros; constructor.
  Qed.
  Lemma vp_is_dir_ok p : asked (CExists p) -> asked (CMetadata p) -> calls_ok ok (vp_is_dir v p).
  Proof.
    intros H1 H2. unfold vp_is_dir.
    apply calls_ok_bind_res; [now apply vp_exists_ok|]. intros ex. destruct (negb ex); [constructor|].
    apply calls_ok_bind_res; [now apply vp_metadata_ok|]. intros; constructor.
  Qed.

End VfsPathOk.

(** ** composites, for predicates that do not depend on the path: every trait
    call of the instances involved is permitted *)
Section Composites.
  Variable ok : bcall -> Prop.
  Hypothesis handles_ok : forall h o, ok (BH h o).
  Variable v : vfs.
  Hypothesis impl_ok : forall c, calls_ok ok (v_impl v c).

  Let A : fscall -> Prop := fun _ => True.
  Let IA : forall c, A c -> calls_ok ok (v_impl v c) := fun c _ => impl_ok c.

  Lemma walk_find_ok todo inner : calls_ok ok (walk_find v todo inner).
  Proof.
    revert inner. induction todo as [|d todo IH]; intros inner; destruct inner as [|x inner]; cbn;
      try constructor.
    apply calls_ok_bind; [apply (vp_read_dir_ok ok v A IA); exact I|].
    intros [children|e|]; try constructor. apply IH.
  Qed.

  Lemma walk_next_ok w : calls_ok ok (walk_next v w).
  Proof.
    unfold walk_next. apply calls_ok_bind; [apply walk_find_ok|]. intros [item w'].
    cbn [fst snd]. destruct item as [[x|e|]|]; try constructor.
    apply calls_ok_bind; [apply (vp_metadata_ok ok v A IA); exact I|].
    intros [md|e|]; try constructor. destruct (m_type md); constructor.
  Qed.

  Lemma walk_collect_ok fuel w acc : calls_ok ok (walk_collect v fuel w acc).
  Proof.
    revert w acc. induction fuel as [|fuel IH]; intros w acc; cbn; [constructor|].
    apply calls_ok_bind; [apply walk_next_ok|]. intros [item w']. cbn [fst snd].
    destruct item; [apply IH|constructor].
  Qed.

  Lemma vp_walk_dir_ok p : calls_ok ok (vp_walk_dir v p).
  Proof.
    unfold vp_walk_dir. apply calls_ok_bind_res; [apply (vp_read_dir_ok ok v A IA); exact I|].
    intros; constructor.
  Qed.

  Lemma vp_remove_dir_all_ok fuel p : calls_ok ok (vp_remove_dir_all v fuel p).
  Proof.
    revert p. induction fuel as [|fuel IH]; intros p; cbn; [constructor|].
    apply calls_ok_bind_res; [apply (vp_exists_ok ok v A IA); exact I|]. intros ex.
    destruct (negb ex); [constructor|].
    apply calls_ok_bind_res; [apply (vp_read_dir_ok ok v A IA); exact I|]. intros children.
    apply calls_ok_bind_res; [|intros _; apply (vp_remove_dir_ok ok v A IA); exact I].
    induction children as [|c cs IHc]; [constructor|].
    apply calls_ok_bind_res; [apply (vp_metadata_ok ok v A IA); exact I|]. intros md.
    apply calls_ok_bind_res; [|intros _; exact IHc].
    destruct (m_type md); [apply (vp_remove_file_ok ok v A IA); exact I|apply IH].
  Qed.

  Lemma vp_read_to_string_ok u8 p : calls_ok ok (vp_read_to_string u8 v p).
  Proof.
    unfold vp_read_to_string.
    apply calls_ok_bind_res; [apply (vp_metadata_ok ok v A IA); exact I|]. intros md.
    destruct (m_type md); [|constructor].
    apply calls_ok_bind_res; [apply (vp_open_file_ok ok v A IA); exact I|]. intros h.
    apply CO_call; [apply handles_ok|]. intros r.
    apply CO_call; [apply handles_ok|]. intros _.
    destruct r as [bs|e|]; try constructor. destruct (u8 bs); constructor.
  Qed.

  (** transfers to a second instance *)
  Variable v' : vfs.
  Hypothesis impl_ok' : forall c, calls_ok ok (v_impl v' c).
  Let IA' : forall c, A c -> calls_ok ok (v_impl v' c) := fun c _ => impl_ok' c.

  Lemma stream_copy_ok p p' after :
    calls_ok ok after -> calls_ok ok (stream_copy v p v' p' after).
  Proof.
    intros Ha. unfold stream_copy.
    apply calls_ok_bind_res; [apply (vp_open_file_ok ok v A IA); exact I|]. intros src.
    apply calls_ok_bind; [apply (vp_create_file_ok ok v' A IA'); exact I|].
    intros [dst|e|]; [| |constructor].
    - apply CO_call; [apply handles_ok|]. intros rc.
      apply calls_ok_bind; [destruct rc; [exact Ha|constructor|constructor]|]. intros ra.
      apply CO_call; [apply handles_ok|]. intros _.
      apply CO_call; [apply handles_ok|]. intros _. constructor.
    - apply CO_call; [apply handles_ok|]. intros _. constructor.
  Qed.

  Lemma fast_path_ok c slow ev : calls_ok ok slow -> calls_ok ok (fast_path v v' c slow ev).
  Proof.
    intros Hs. unfold fast_path. destruct (Nat.eqb _ _); [|exact Hs].
    apply calls_ok_bind; [apply impl_ok|]. intros r.
    destruct (ev r) as [u|e|]; try constructor. destruct (e_kind e); try constructor. exact Hs.
  Qed.

  Lemma vp_copy_file_ok p p' : calls_ok ok (vp_copy_file v p v' p').
  Proof.
    unfold vp_copy_file, relabel. apply labelled_ok.
    apply calls_ok_bind_res; [apply (vp_exists_ok ok v' A IA'); exact I|]. intros ex.
    destruct ex; [constructor|]. apply fast_path_ok. apply stream_copy_ok. constructor.
  Qed.

  Lemma vp_move_file_ok p p' : calls_ok ok (vp_move_file v p v' p').
  Proof.
    unfold vp_move_file, relabel. apply labelled_ok.
    apply calls_ok_bind_res; [apply (vp_exists_ok ok v' A IA'); exact I|]. intros ex.
    destruct ex; [constructor|]. apply fast_path_ok. apply stream_copy_ok.
    apply (vp_remove_file_ok ok v A IA); exact I.
  Qed.

  Lemma copy_entries_ok fuel p p' w n : calls_ok ok (copy_entries fuel v p v' p' w n).
  Proof.
    revert w n. induction fuel as [|fuel IH]; intros w n; cbn; [constructor|].
    apply calls_ok_bind; [apply walk_next_ok|]. intros [item w']. cbn [fst snd].
    destruct item as [[src_path|e|]|]; try constructor.
    apply calls_ok_bind_res; [apply (vp_metadata_ok ok v A IA); exact I|]. intros md.
    apply calls_ok_bind_res; [|intros _; apply IH].
    destruct (m_type md); [apply vp_copy_file_ok|apply (vp_create_dir_ok ok v' A IA'); exact I].
  Qed.

  Lemma vp_copy_dir_ok fuel p p' : calls_ok ok (vp_copy_dir fuel v p v' p').
  Proof.
    unfold vp_copy_dir, relabel. apply labelled_ok.
    apply calls_ok_bind_res; [apply (vp_exists_ok ok v' A IA'); exact I|]. intros ex.
    destruct ex; [constructor|].
    apply calls_ok_bind_res; [apply (vp_create_dir_ok ok v' A IA'); exact I|]. intros _.
    apply calls_ok_bind_res; [apply vp_walk_dir_ok|]. intros w. apply copy_entries_ok.
  Qed.

  Lemma vp_move_dir_ok fuel p p' : calls_ok ok (vp_move_dir fuel v p v' p').
  Proof.
    unfold vp_move_dir, relabel. apply labelled_ok.
    apply calls_ok_bind_res; [apply (vp_exists_ok ok v' A IA'); exact I|]. intros ex.
    destruct ex; [constructor|]. apply fast_path_ok.
    apply calls_ok_bind_res; [apply (vp_create_dir_ok ok v' A IA'); exact I|]. intros _.
    apply calls_ok_bind_res; [apply vp_walk_dir_ok|]. intros w.
    apply calls_ok_bind_res; [apply copy_entries_ok|]. intros _. apply vp_remove_dir_all_ok.
  Qed.
End Composites.
