(** C19 on the modelled PhysicalFS: set_modification_time / set_access_time store exactly the value in
    exactly that field of that entry (files and directories), metadata reports it, the other field,
    the bytes and every other entry are untouched; a missing target changes nothing. *)
From stdpp Require Import gmap list.
From Coq Require Import NArith ZArith Lia.
From VFS Require Import Core.Types Core.Prog Core.Calls Base.MemFS Base.Handles Base.PhysFS Base.Embedded Base.Store
  Layer.VfsPath Proofs.ProgProofs Proofs.MemProofs Proofs.PhysProofs.

Section PhysTimes.
  Variable s : physfs.
  Hypothesis Hwf : pwf (p_tree s).

  Lemma pwf_retime p n n' : p_tree s !! p = Some n -> pn_kind n' = pn_kind n -> pwf (<[p := n']> (p_tree s)).
  Proof.
    intros Hn Hk. destruct Hwf as [Hr Hpc].
    assert (Hsame : forall q, p_is_dir (p_tree s) q -> p_is_dir (<[p := n']> (p_tree s)) q).
    { intros q (x & Hx & Hxk). destruct (decide (q = p)) as [->|Hne].
      - exists n'. rewrite lookup_insert. split; [reflexivity|]. congruence.
      - exists x. rewrite lookup_insert_ne by congruence. auto. }
    split; [now apply Hsame|].
    intros q m x Hx. apply Hsame. destruct (decide (p = q ++ [m])) as [->|Hne].
    - eapply Hpc, Hn.
    - rewrite lookup_insert_ne in Hx by exact Hne. eapply Hpc, Hx.
  Qed.

  Theorem phys_set_mtime_roundtrip p n t :
    p_tree s !! p = Some n ->
    let s' := fst (phys_step (CSetMTime p t) s) in
    snd (phys_step (CSetMTime p t) s) = Ok tt /\
    p_tree s' !! p = Some (mkPNode (pn_kind n) (TSet t) (pn_atime n)) /\
    (forall q, q <> p -> p_tree s' !! q = p_tree s !! q) /\
    p_inodes s' = p_inodes s /\
    (exists md, snd (phys_step (CMetadata p) s') = Ok md /\ m_modified md = Some (TSet t) /\ m_accessed md = Some (pn_atime n)).
  Proof.
    intros Hn. unfold phys_step at 1 2. rewrite (lookup_found s p n Hwf Hn). cbn [fst snd set_tree p_tree p_inodes].
    split; [reflexivity|]. split; [apply lookup_insert|]. split; [intros q Hq; rewrite lookup_insert_ne by congruence; reflexivity|].
    split; [reflexivity|].
    set (n' := mkPNode (pn_kind n) (TSet t) (pn_atime n)).
    set (s' := set_tree s (<[p := n']> (p_tree s))).
    assert (Hwf' : pwf (p_tree s')) by (apply (pwf_retime p n n' Hn); reflexivity).
    assert (Hl : lookup_path s' p = Found n') by (apply lookup_found; [exact Hwf'|apply lookup_insert]).
    unfold phys_step. rewrite Hl. destruct (pn_kind n'); eexists; (split; [reflexivity|]); cbn; auto.
  Qed.

  Theorem phys_set_atime_roundtrip p n t :
    p_tree s !! p = Some n ->
    let s' := fst (phys_step (CSetATime p t) s) in
    snd (phys_step (CSetATime p t) s) = Ok tt /\
    p_tree s' !! p = Some (mkPNode (pn_kind n) (pn_mtime n) (TSet t)) /\
    (forall q, q <> p -> p_tree s' !! q = p_tree s !! q) /\
    p_inodes s' = p_inodes s /\
    (exists md, snd (phys_step (CMetadata p) s') = Ok md /\ m_accessed md = Some (TSet t) /\ m_modified md = Some (pn_mtime n)).
  Proof.
    intros Hn. unfold phys_step at 1 2. rewrite (lookup_found s p n Hwf Hn). cbn [fst snd set_tree p_tree p_inodes].
    split; [reflexivity|]. split; [apply lookup_insert|]. split; [intros q Hq; rewrite lookup_insert_ne by congruence; reflexivity|].
    split; [reflexivity|].
    set (n' := mkPNode (pn_kind n) (pn_mtime n) (TSet t)).
    set (s' := set_tree s (<[p := n']> (p_tree s))).
    assert (Hwf' : pwf (p_tree s')) by (apply (pwf_retime p n n' Hn); reflexivity).
    assert (Hl : lookup_path s' p = Found n') by (apply lookup_found; [exact Hwf'|apply lookup_insert]).
    unfold phys_step. rewrite Hl. destruct (pn_kind n'); eexists; (split; [reflexivity|]); cbn; auto.
  Qed.

  Theorem phys_set_time_absent p t :
    p_tree s !! p = None ->
    fst (phys_step (CSetMTime p t) s) = s /\ fst (phys_step (CSetATime p t) s) = s /\
    snd (phys_step (CSetMTime p t) s) <> Ok tt /\ snd (phys_step (CSetATime p t) s) <> Ok tt.
  Proof.
    intros Hn. pose proof (lookup_missing s p Hwf Hn) as Hm. unfold phys_step.
    destruct (lookup_path s p); [contradiction| |]; cbn; repeat split; discriminate.
  Qed.
End PhysTimes.
