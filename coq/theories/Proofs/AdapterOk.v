(** [calls_ok] through the adapters: what AltrootFS and OverlayFS ask of the
    instances they are built on, for every reply those instances may give. *)
From stdpp Require Import list sets gmap.
From Coq Require Import NArith ZArith.
From VFS Require Import Core.Types Core.Prog Core.Calls Base.MemFS Layer.VfsPath Layer.Altroot Layer.Overlay
  Proofs.CallsOk Proofs.VfsPathOk.

Section AltOk.
  Variable ok : bcall -> Prop.
  Hypothesis handles_ok : forall h o, ok (BH h o).
  Variable u : vfs.
  Variable root : path.
  (** what the underlying instance may be asked *)
  Variable asked : fscall -> Prop.
  Hypothesis impl_ok : forall c, asked c -> calls_ok ok (v_impl u c).

  (** the calls AltrootFS makes for a trait call on q: the same call on root ++ q, preceded for
      the two creating calls by the parent check of VfsPath, and for copy_file the calls of
      VfsPath::copy_file between root ++ s and root ++ d *)
  Definition alt_asks (c : fscall) : Prop :=
    match c with
    | CReadDir p => asked (CReadDir (root ++ p))
    | CCreateDir p => asked (CExists (removelast (root ++ p))) /\ asked (CMetadata (removelast (root ++ p)))
                      /\ asked (CCreateDir (root ++ p))
    | COpenFile p => asked (COpenFile (root ++ p))
    | CCreateFile p => asked (CExists (removelast (root ++ p))) /\ asked (CMetadata (removelast (root ++ p)))
                       /\ asked (CCreateFile (root ++ p))
    | CAppendFile p => asked (CAppendFile (root ++ p))
    | CMetadata p => asked (CMetadata (root ++ p))
    | CSetCTime p t => asked (CSetCTime (root ++ p) t)
    | CSetMTime p t => asked (CSetMTime (root ++ p) t)
    | CSetATime p t => asked (CSetATime (root ++ p) t)
    | CExists p => asked (CExists (root ++ p))
    | CRemoveFile p => asked (CRemoveFile (root ++ p))
    | CRemoveDir p => asked (CRemoveDir (root ++ p))
    | CCopyFile s d =>
        asked (CExists (root ++ d)) /\ asked (CCopyFile (root ++ s) (root ++ d)) /\
        asked (COpenFile (root ++ s)) /\ asked (CExists (removelast (root ++ d))) /\
        asked (CMetadata (removelast (root ++ d))) /\ asked (CCreateFile (root ++ d))
    | CMoveFile _ _ | CMoveDir _ _ => True
    end.

  Lemma alt_impl_ok c : alt_asks c -> calls_ok ok (alt_impl u root c).
  Proof.
    destruct c; cbn [alt_impl alt_asks]; unfold alt_path; intros H.
    - apply calls_ok_bind_res; [now apply (vp_read_dir_ok ok u asked impl_ok)|]. intros; constructor.
    - destruct H as (H1 & H2 & H3). now apply (vp_create_dir_ok ok u asked impl_ok).
    - now apply (vp_open_file_ok ok u asked impl_ok).
    - destruct H as (H1 & H2 & H3). now apply (vp_create_file_ok ok u asked impl_ok).
    - now apply (vp_append_file_ok ok u asked impl_ok).
    - now apply (vp_metadata_ok ok u asked impl_ok).
    - now apply (vp_set_ctime_ok ok u asked impl_ok).
    - now apply (vp_set_mtime_ok ok u asked impl_ok).
    - now apply (vp_set_atime_ok ok u asked impl_ok).
    - now apply (vp_exists_ok ok u asked impl_ok).
    - now apply (vp_remove_file_ok ok u asked impl_ok).
    - now apply (vp_remove_dir_ok ok u asked impl_ok).
    - destruct d as [|d0 d']; [constructor|]. set (d := d0 :: d') in *.
      destruct H as (H1 & H2 & H3 & H4 & H5 & H6).
      unfold vp_copy_file, relabel. apply labelled_ok.
      apply calls_ok_bind_res; [now apply (vp_exists_ok ok u asked impl_ok)|]. intros ex.
      destruct ex; [constructor|].
      unfold fast_path. rewrite Nat.eqb_refl.
      apply calls_ok_bind; [now apply impl_ok|]. intros r.
      destruct r as [x|e|]; try constructor. destruct (e_kind e); try constructor.
      unfold stream_copy.
      apply calls_ok_bind_res; [now apply (vp_open_file_ok ok u asked impl_ok)|]. intros src.
      apply calls_ok_bind; [now apply (vp_create_file_ok ok u asked impl_ok)|].
      intros [dst|e'|]; [| |constructor].
      + apply CO_call; [apply handles_ok|]. intros rc.
        apply calls_ok_bind; [destruct rc; constructor|]. intros ra.
        apply CO_call; [apply handles_ok|]. intros _.
        apply CO_call; [apply handles_ok|]. intros _. constructor.
      + apply CO_call; [apply handles_ok|]. intros _. constructor.
    - constructor.
    - constructor.
  Qed.
End AltOk.

Section OvlOk.
  Variable ok : bcall -> Prop.
  Hypothesis handles_ok : forall h o, ok (BH h o).
  Variable top : vfs * path.
  Variable lower : list (vfs * path).
  Notation w := (fst top).

  (** the write layer may be asked anything *)
  Hypothesis top_ok : forall c, calls_ok ok (v_impl w c).

  (** a layer that is only read: observers are permitted; if it happens to be the very
      instance that is also the write layer, everything is *)
  Definition layer_ok (l : vfs) : Prop :=
    (forall c, mutating c = false -> calls_ok ok (v_impl l c)) /\
    (v_id l = v_id w -> forall c, calls_ok ok (v_impl l c)).
  Hypothesis lower_ok : Forall (fun l => layer_ok (fst l)) lower.

  Let AT : fscall -> Prop := fun _ => True.
  Let IT : forall c, AT c -> calls_ok ok (v_impl w c) := fun c _ => top_ok c.
  Let AR : fscall -> Prop := fun c => mutating c = false.

  Lemma top_layer_ok : layer_ok w.
  Proof. split; intros; apply top_ok. Qed.

  Lemma layers_ok : Forall (fun l => layer_ok (fst l)) (layers top lower).
  Proof. constructor; [apply top_layer_ok|exact lower_ok]. Qed.

  Lemma vpe_top p : calls_ok ok (vp_exists w p).
  Proof. exact (top_ok (CExists p)). Qed.
  Lemma vpe_layer l p : layer_ok l -> calls_ok ok (vp_exists l p).
  Proof. intros [H _]. exact (H (CExists p) eq_refl). Qed.

  Definition okres {T} (Q : T -> Prop) (r : res T) : Prop :=
    match r with Ok x => Q x | _ => True end.

  Lemma first_layer_ok ls p :
    Forall (fun l => layer_ok (fst l)) ls ->
    calls_okQ ok (okres (fun o => match o with Some lp => layer_ok (fst lp) | None => True end))
              (first_layer ls p).
  Proof.
    induction 1 as [|l ls Hl Hls IH]; cbn; [constructor; exact I|].
    eapply calls_okQ_bind_res with (Q := fun _ => True); try (intros; exact I).
    - eapply calls_okQ_weaken; [|apply calls_ok_okQ, vpe_layer, Hl]. intros [] _; exact I.
    - intros ex _. destruct ex; [constructor; cbn; exact Hl|exact IH].
  Qed.

  Lemma read_path_ok p : calls_okQ ok (okres (fun lp => layer_ok (fst lp))) (read_path top lower p).
  Proof.
    unfold read_path. destruct p as [|x p']; [constructor; apply top_layer_ok|]. set (p := x :: p').
    eapply calls_okQ_bind_res with (Q := fun _ => True); try (intros; exact I).
    - eapply calls_okQ_weaken; [|apply calls_ok_okQ, vpe_top]. intros [] _; exact I.
    - intros up _. destruct up; [constructor; apply top_layer_ok|].
      eapply calls_okQ_bind_res with (Q := fun _ => True); try (intros; exact I).
      + eapply calls_okQ_weaken; [|apply calls_ok_okQ, vpe_top]. intros [] _; exact I.
      + intros wo _. destruct wo; [constructor; exact I|].
        eapply calls_okQ_bind_res; try (intros; exact I); [apply first_layer_ok, lower_ok|].
        intros [lp|] Hlp; constructor; [exact Hlp|exact I].
  Qed.

  Lemma with_read_path {T} p (f : vfs * path -> bprog (res T)) :
    (forall lp, layer_ok (fst lp) -> calls_ok ok (f lp)) ->
    calls_ok ok (bind_res (read_path top lower p) f).
  Proof.
    intros Hf. eapply calls_okQ_ok with (Q := fun _ => True).
    eapply calls_okQ_bind_res; try (intros; exact I); [apply read_path_ok|].
    intros lp Hlp. apply calls_ok_okQ. now apply Hf.
  Qed.

  Lemma ovl_exists_ok p : calls_ok ok (ovl_exists top lower p).
  Proof.
    unfold ovl_exists.
    eapply calls_okQ_ok with (Q := fun _ => True).
    eapply calls_okQ_bind; [apply read_path_ok|].
    intros [lp|e|] Hlp; [|destruct (e_kind e); constructor; exact I|constructor; exact I].
    apply calls_ok_okQ. now apply vpe_layer.
  Qed.

  Lemma ovl_metadata_ok p : calls_ok ok (ovl_metadata top lower p).
  Proof.
    unfold ovl_metadata. apply with_read_path. intros lp [Hr _].
    apply (vp_metadata_ok ok (fst lp) AR Hr). reflexivity.
  Qed.

  Lemma gather_ok ls p acc :
    Forall (fun l => layer_ok (fst l)) ls -> calls_ok ok (gather ls p acc).
  Proof.
    intros H. revert acc. induction H as [|l ls [Hl _] Hls IH]; intros acc; cbn; [constructor|].
    apply calls_ok_bind_res; [apply (vp_is_dir_ok ok (fst l) AR Hl); reflexivity|]. intros isd.
    destruct isd; [|apply IH].
    apply calls_ok_bind_res; [apply (vp_read_dir_ok ok (fst l) AR Hl); reflexivity|]. intros ch. apply IH.
  Qed.

  Lemma ovl_read_dir_ok p : calls_ok ok (ovl_read_dir top lower p).
  Proof.
    unfold ovl_read_dir. apply with_read_path. intros lp [Hr _].
    apply calls_ok_bind_res; [apply (vp_metadata_ok ok (fst lp) AR Hr); reflexivity|]. intros md.
    destruct (m_type md); [constructor|].
    apply calls_ok_bind_res; [apply gather_ok, layers_ok|]. intros entries.
    apply calls_ok_bind_res; [apply vpe_top|]. intros wex.
    apply calls_ok_bind_res; [|intros; constructor].
    destruct wex; [|constructor].
    apply calls_ok_bind_res; [apply (vp_read_dir_ok ok w AT IT); exact I|]. intros; constructor.
  Qed.

  Lemma ovl_ensure_has_parent_ok p : calls_ok ok (ovl_ensure_has_parent top lower p).
  Proof.
    unfold ovl_ensure_has_parent. destruct p as [|x p']; [constructor|].
    apply calls_ok_bind_res; [apply ovl_exists_ok|]. intros ex. destruct ex; [|constructor].
    apply calls_ok_bind_res; [apply ovl_metadata_ok|]. intros md. destruct (m_type md); [constructor|].
    apply calls_ok_bind_res; [|intros; constructor].
    apply (vp_create_dir_all_ok ok w AT IT). intros; exact I.
  Qed.

  Lemma clear_whiteout_ok p : calls_ok ok (clear_whiteout top p).
  Proof.
    unfold clear_whiteout. apply calls_ok_bind_res; [apply vpe_top|]. intros ex.
    destruct ex; [apply (vp_remove_file_ok ok w AT IT); exact I|constructor].
  Qed.

  Lemma set_whiteout_ok p : calls_ok ok (set_whiteout top p).
  Proof.
    unfold set_whiteout.
    apply calls_ok_bind_res; [apply (vp_create_dir_all_ok ok w AT IT); intros; exact I|]. intros _.
    apply calls_ok_bind_res; [apply (vp_create_file_ok ok w AT IT); exact I|]. intros h.
    apply CO_call; [apply handles_ok|]. intros _. constructor.
  Qed.

  (** copy-up: reading from any layer, writing to the write layer *)
  Lemma copy_up_ok (l : vfs) p p' : layer_ok l -> calls_ok ok (vp_copy_file l p w p').
  Proof.
    intros [Hr Hsame]. unfold vp_copy_file, relabel. apply labelled_ok.
    apply calls_ok_bind_res; [apply vpe_top|]. intros ex. destruct ex; [constructor|].
    assert (Hslow : calls_ok ok (stream_copy l p w p' (Ret (Ok tt)))).
    { unfold stream_copy.
      apply calls_ok_bind_res; [apply (vp_open_file_ok ok l AR Hr); reflexivity|]. intros src.
      apply calls_ok_bind; [apply (vp_create_file_ok ok w AT IT); exact I|].
      intros [dst|e|]; [| |constructor].
      - apply CO_call; [apply handles_ok|]. intros rc.
        apply calls_ok_bind; [destruct rc; constructor|]. intros ra.
        apply CO_call; [apply handles_ok|]. intros _.
        apply CO_call; [apply handles_ok|]. intros _. constructor.
      - apply CO_call; [apply handles_ok|]. intros _. constructor. }
    unfold fast_path. destruct (Nat.eqb_spec (v_id l) (v_id w)) as [E|E]; [|exact Hslow].
    apply calls_ok_bind; [apply (Hsame E)|]. intros r.
    destruct r as [x|e|]; try constructor. destruct (e_kind e); try constructor. exact Hslow.
  Qed.

  (** C08: every call the overlay issues is permitted *)
  Theorem ovl_impl_ok c : calls_ok ok (ovl_impl top lower c).
  Proof.
    destruct c; cbn [ovl_impl].
    - apply ovl_read_dir_ok.
    - apply calls_ok_bind_res; [apply ovl_ensure_has_parent_ok|]. intros _.
      apply calls_ok_bind_res; [apply ovl_exists_ok|]. intros ex. destruct ex.
      + apply calls_ok_bind_res; [apply ovl_metadata_ok|]. intros; constructor.
      + apply calls_ok_bind_res; [apply (vp_create_dir_ok ok w AT IT); exact I|]. intros _.
        apply clear_whiteout_ok.
    - apply with_read_path. intros lp [Hr _]. apply (vp_open_file_ok ok (fst lp) AR Hr). reflexivity.
    - apply calls_ok_bind_res; [apply ovl_ensure_has_parent_ok|]. intros _.
      apply calls_ok_bind_res; [apply ovl_exists_ok|]. intros ex.
      apply calls_ok_bind_res.
      { destruct ex; [|constructor]. apply calls_ok_bind_res; [apply ovl_metadata_ok|]. intros; constructor. }
      intros isdir. destruct isdir; [constructor|].
      apply calls_ok_bind_res; [apply (vp_create_file_ok ok w AT IT); exact I|]. intros h.
      apply calls_ok_bind; [apply clear_whiteout_ok|]. intros [u|e|]; [constructor| |constructor].
      apply CO_call; [apply handles_ok|]. intros _. constructor.
    - apply calls_ok_bind_res; [apply vpe_top|]. intros ex.
      apply calls_ok_bind_res; [|intros _; apply (vp_append_file_ok ok w AT IT); exact I].
      destruct ex; [constructor|].
      apply calls_ok_bind_res; [apply ovl_ensure_has_parent_ok|]. intros _.
      apply with_read_path. intros lp Hlp. now apply copy_up_ok.
    - apply ovl_metadata_ok.
    - apply (vp_set_ctime_ok ok w AT IT); exact I.
    - apply (vp_set_mtime_ok ok w AT IT); exact I.
    - apply (vp_set_atime_ok ok w AT IT); exact I.
    - apply ovl_exists_ok.
    - apply with_read_path. intros lp _.
      apply calls_ok_bind_res; [apply vpe_top|]. intros ex.
      apply calls_ok_bind_res; [|intros _; apply set_whiteout_ok].
      destruct ex; [apply (vp_remove_file_ok ok w AT IT); exact I|constructor].
    - apply with_read_path. intros lp _.
      apply calls_ok_bind_res; [apply ovl_read_dir_ok|]. intros entries.
      destruct entries; [|constructor].
      apply calls_ok_bind_res; [apply vpe_top|]. intros ex.
      apply calls_ok_bind_res; [|intros _; apply set_whiteout_ok].
      destruct ex; [apply (vp_remove_dir_ok ok w AT IT); exact I|constructor].
    - constructor.
    - constructor.
    - constructor.
  Qed.
End OvlOk.
