(** C17 on the overlay: concurrent create_dir_all calls through an OverlayFS over two MemoryFS
    layers all succeed, for EVERY schedule at base-call granularity (every trait call of a MemoryFS is
    one lock section, so this is at least as fine as the lock granularity of the implementation).

    The overlay's create_dir is not atomic: it resolves the parent (up to four calls), copies the
    parent chain up into the write layer, resolves the target, creates it in the write layer and
    finally removes its deletion marker - some fifteen calls, any of which can be separated from the
    next by steps of other threads.  The proof is a rely/guarantee argument over the program trees:
    [wpi t m Q s] says that thread [t] running [m] from [s] meets [Q] whatever the other threads do in
    between its calls, as long as THEY keep to the guarantee [G] (directories are only added, at
    requested paths; a deletion marker is only removed by the thread that created the directory it
    belongs to - ghost state records the creator), and that [t] itself keeps to [G]. *)
From stdpp Require Import gmap list relations.
From Coq Require Import NArith ZArith Lia.
From VFS Require Import Core.Types Core.Prog Core.Calls Base.MemFS Base.Handles Base.PhysFS Base.Embedded Base.Store
  Layer.VfsPath Layer.Overlay Proofs.ProgProofs Proofs.MemProofs Proofs.MemCalls Proofs.ConcProofs Proofs.OvlProofs Proofs.CallsOk Proofs.AdapterOk.

(** ** interleaved semantics: one base call per scheduling step *)
Notation tpool := (list (bprog (res unit))).
Definition pstep (st : store) (p : tpool) (t : nat) : store * tpool :=
  match p !! t with
  | Some (Call b k) => let '(st', x) := bhandler b st in (st', <[t := k x]> p)
  | _ => (st, p)
  end.
Fixpoint prun (sch : list nat) (st : store) (p : tpool) : store * tpool :=
  match sch with
  | [] => (st, p)
  | t :: sch' => let '(st', p') := pstep st p t in prun sch' st' p'
  end.

Section RG.
  Variables (hs : list hstate) (lg : list (nat * fscall)) (ft : option (nat * nat)) (s1 : mstate).
  (** the requested paths with all their prefixes *)
  Variable Req : path -> Prop.
  Notation S2 s0 := (mstore2 s0 s1 hs lg ft).
  Notation top := (v0, @nil (list N)).
  Notation lower := [(v1, @nil (list N))].
  Definition marker (p : path) : path := whiteout_path top p.

  Hypothesis Req_closed : forall q, Req q -> Forall Req (prefixes q).
  Hypothesis Req_nonempty : forall q, Req q -> q <> [].
  Hypothesis Req_names : forall q, Req q -> Forall (fun n => n <> []) q.
  Hypothesis Req_no_marker : forall q p, Req q -> q <> marker p.

  Definition ghost : Type := gmap path nat.
  Definition cstate : Type := (mstate * gmap path nat)%type.

  Definition markok (s0 : mstate) (p : path) : Prop := forall f, s0 !! marker p = Some f -> f_type f = File.

  (** a FILE of the lower layer on a requested path is never visible: it is hidden by its marker, or (once a thread
      has re-created the path and removed the marker) shadowed by a directory of the write layer *)
  Definition lowhid (s0 : mstate) (q : path) : Prop :=
    forall f, s1 !! q = Some f -> f_type f = File -> is_Some (s0 !! marker q) \/ is_dir s0 q.

  Definition Inv (σ : cstate) : Prop :=
    wf σ.1 /\
    (forall q, is_Some (σ.2 !! q) -> is_dir σ.1 q /\ Req q) /\
    (forall q, Req q -> not_file σ.1 q /\ markok σ.1 q) /\
    (forall q, Req q -> lowhid σ.1 q).

  (** what a step of thread [t] may do *)
  Definition G (t : nat) (σ σ' : cstate) : Prop :=
    Inv σ /\ Inv σ' /\
    (forall q, σ'.1 !! q = σ.1 !! q
               \/ (σ.1 !! q = None /\ Req q /\ is_dir σ'.1 q /\ σ'.2 !! q = Some t)
               \/ (exists p f, q = marker p /\ σ.2 !! p = Some t /\ σ.1 !! q = Some f /\ f_type f = File /\ σ'.1 !! q = None)) /\
    (forall q, σ'.2 !! q = σ.2 !! q \/ (σ.2 !! q = None /\ σ'.2 !! q = Some t)).

  Definition Renv (t : nat) : relation cstate := rtc (fun σ σ' => exists t', t' <> t /\ G t' σ σ').

  Lemma G_refl (t : nat) (σ : cstate) : Inv σ -> G t σ σ.
  Proof. intros H. split; [exact H|]. split; [exact H|]. split; intros q; left; reflexivity. Qed.

  (** the creator of a directory of the write layer *)
  Definition ghost_upd (t : nat) (b : bcall) : brep b -> gmap path nat -> gmap path nat :=
    match b as b return brep b -> gmap path nat -> gmap path nat with
    | BFs i c =>
        match c as c return frep c -> gmap path nat -> gmap path nat with
        | CCreateDir q => fun r gh => match i, r with 0, Ok _ => <[q := t]> gh | _, _ => gh end
        | _ => fun _ gh => gh
        end
    | _ => fun _ gh => gh
    end.

  (** ** the judgement *)
  Fixpoint wpi {A} (t : nat) (m : bprog A) (Q : A -> cstate -> Prop) (σ : cstate) : Prop :=
    match m with
    | Ret a => Q a σ
    | Call b k =>
        forall σ', Renv t σ σ' -> Inv σ' ->
          exists s0'', fst (bhandler b (S2 σ'.1)) = S2 s0'' /\
            let x := snd (bhandler b (S2 σ'.1)) in
            let σ'' := (s0'', ghost_upd t b x σ'.2) in
            G t σ' σ'' /\ wpi t (k x) Q σ''
    end.

  Lemma wpi_mono {A} (t : nat) (m : bprog A) (Q Q' : A -> cstate -> Prop) σ :
    (forall a σ', Q a σ' -> Q' a σ') -> wpi t m Q σ -> wpi t m Q' σ.
  Proof.
    revert σ. induction m as [a|b k IH]; intros σ HQ H; cbn in *; [auto|].
    intros σ' HR HI. destruct (H σ' HR HI) as (s0'' & E & HG & Hk). exists s0''. split; [exact E|]. split; [exact HG|].
    apply IH; auto.
  Qed.

  Lemma wpi_bind {A B} (t : nat) (m : bprog A) (f : A -> bprog B) Q σ :
    wpi t m (fun a σ' => wpi t (f a) Q σ') σ -> wpi t (bind m f) Q σ.
  Proof.
    revert σ. induction m as [a|b k IH]; intros σ H; cbn in *; [exact H|].
    intros σ' HR HI. destruct (H σ' HR HI) as (s0'' & E & HG & Hk). exists s0''. split; [exact E|]. split; [exact HG|].
    apply IH, Hk.
  Qed.

  Lemma wpi_try {A B} (t : nat) (m : bprog (res A)) (f : A -> bprog (res B)) Q σ :
    wpi t m (fun r σ' => match r with
                         | Ok v => wpi t (f v) Q σ'
                         | Err e => Q (Err e) σ'
                         | Panic => Q Panic σ'
                         end) σ ->
    wpi t (bind_res m f) Q σ.
  Proof.
    intros H. unfold bind_res. apply wpi_bind. eapply wpi_mono; [|exact H].
    intros [v|e|] σ' Hr; cbn; exact Hr.
  Qed.

  (** ** soundness: a pool of threads, each safe, under any schedule *)
  Definition tsafe (Q : nat -> res unit -> cstate -> Prop) (σ : cstate) (t : nat) (m : bprog (res unit)) : Prop :=
    exists σt, Renv t σt σ /\ wpi t m (Q t) σt.

  Lemma Renv_other (t : nat) (t' : nat) (σ : cstate) (σ' : cstate) (σ'' : cstate) : t' <> t -> Renv t σ σ' -> G t' σ' σ'' -> Renv t σ σ''.
  Proof. intros Hne HR HG. eapply rtc_r; [exact HR|]. exists t'. auto. Qed.

  Theorem pool_sound Q sch : forall (σ : cstate) (p : tpool),
    Inv σ -> (forall t m, p !! t = Some m -> tsafe Q σ t m) ->
    exists σ', fst (prun sch (S2 σ.1) p) = S2 σ'.1 /\ Inv σ' /\
      length (snd (prun sch (S2 σ.1) p)) = length p /\
      (forall t m, snd (prun sch (S2 σ.1) p) !! t = Some m -> tsafe Q σ' t m).
  Proof.
    induction sch as [|t sch IH]; intros σ p HI Hp; cbn [prun].
    - exists σ. auto.
    - unfold pstep. destruct (p !! t) as [m|] eqn:Et; [|apply IH; auto].
      destruct m as [r|b k]; [apply IH; auto|].
      destruct (Hp t _ Et) as (σt & HRt & Hw). cbn [wpi] in Hw.
      destruct (Hw σ HRt HI) as (s0'' & E & HG & Hk).
      destruct (bhandler b (S2 σ.1)) as [st' x] eqn:Eb. cbn [fst snd] in *. subst st'.
      set (σ'' := (s0'', ghost_upd t b x σ.2)) in *.
      destruct (IH σ'' (<[t := k x]> p)) as (σ' & E' & HI' & Hlen & Hp').
      + apply HG.
      + intros u m Hu. destruct (decide (u = t)) as [->|Hne].
        * rewrite list_lookup_insert in Hu by (eapply lookup_lt_Some; eauto). injection Hu as <-.
          exists σ''. split; [apply rtc_refl|exact Hk].
        * rewrite list_lookup_insert_ne in Hu by congruence.
          destruct (Hp u m Hu) as (σu & HRu & Hwu). exists σu. split; [|exact Hwu].
          eapply Renv_other; [|exact HRu|exact HG]. congruence.
      + exists σ'. split; [exact E'|]. split; [exact HI'|]. split; [|exact Hp'].
        etransitivity; [exact Hlen|]. apply insert_length.
  Qed.

  (** ** facts that survive the steps of the other threads *)
  Lemma G_is_dir (t : nat) (σ : cstate) (σ' : cstate) q : G t σ σ' -> is_dir σ.1 q -> is_dir σ'.1 q.
  Proof.
    intros (_ & _ & Hc & _) (d & Hd & Hdt).
    destruct (Hc q) as [E|[(E & _)|(p & f & _ & _ & E & Hf & _)]].
    - exists d. rewrite E. auto.
    - congruence.
    - rewrite Hd in E. injection E as ->. congruence.
  Qed.
  Lemma G_nomark (t : nat) (σ : cstate) (σ' : cstate) p : G t σ σ' -> σ.1 !! marker p = None -> σ'.1 !! marker p = None.
  Proof.
    intros (_ & _ & Hc & _) Hn.
    destruct (Hc (marker p)) as [E|[(_ & HR & _)|(p' & f & _ & _ & _ & _ & E)]]; [congruence| |exact E].
    exfalso. eapply Req_no_marker; eauto.
  Qed.
  Lemma G_owned (t : nat) (σ : cstate) (σ' : cstate) p (u : nat) : G t σ σ' -> σ.2 !! p = Some u -> σ'.2 !! p = Some u.
  Proof. intros (_ & _ & _ & Hg) Ho. destruct (Hg p) as [E|[E _]]; congruence. Qed.
  Lemma G_mine (t : nat) (u : nat) (σ : cstate) (σ' : cstate) p :
    t <> u -> G t σ σ' -> σ.2 !! p = Some u -> is_Some (σ.1 !! marker p) -> is_Some (σ'.1 !! marker p).
  Proof.
    intros Hne (HI & _ & Hc & _) Ho Hm.
    destruct (Hc (marker p)) as [E|[(E & _)|(p' & f & Ep & Ho' & _)]].
    - rewrite E. exact Hm.
    - rewrite E in Hm. destruct Hm; discriminate.
    - exfalso. assert (p = p') as <-.
      { apply (whiteout_path_inj top); [apply Req_names, HI; eauto|apply Req_names, HI; eauto|exact Ep]. }
      congruence.
  Qed.

  Lemma Renv_stable (t : nat) (K : cstate -> Prop) :
    (forall t' σ σ', t' <> t -> G t' σ σ' -> K σ -> K σ') -> forall σ σ', Renv t σ σ' -> K σ -> K σ'.
  Proof.
    intros HK σ σ' HR. induction HR as [|σ σm σ' (t' & Hne & HG) _ IH]; [auto|].
    intros H. apply IH. eapply HK; eauto.
  Qed.

  (** steps of any thread: what a thread may rely on across its own steps as well *)
  Definition Rany : relation cstate := rtc (fun σ σ' => exists t', G t' σ σ').
  Lemma Renv_any (t : nat) (σ : cstate) (σ' : cstate) : Renv t σ σ' -> Rany σ σ'.
  Proof. apply rtc_subrel. intros a b (t' & _ & H). eauto. Qed.
  Lemma Rany_stable (K : cstate -> Prop) :
    (forall t' σ σ', G t' σ σ' -> K σ -> K σ') -> forall σ σ', Rany σ σ' -> K σ -> K σ'.
  Proof.
    intros HK σ σ' HR. induction HR as [|σ σm σ' (t' & HG) _ IH]; [auto|].
    intros H. apply IH. eapply HK; eauto.
  Qed.
  Lemma Rany_step (t : nat) (σ : cstate) (σ' : cstate) (σ'' : cstate) : Rany σ σ' -> G t σ' σ'' -> Rany σ σ''.
  Proof. intros HR HG. eapply rtc_r; [exact HR|]. eauto. Qed.
  Lemma Rany_env (t : nat) (σ : cstate) (σ' : cstate) (σ'' : cstate) : Rany σ σ' -> Renv t σ' σ'' -> Rany σ σ''.
  Proof. intros HR HE. eapply rtc_transitive; [exact HR|]. eapply Renv_any; eauto. Qed.

  Definition vis (σ : cstate) (q : path) : Prop :=
    is_dir σ.1 q \/ (σ.1 !! marker q = None /\ is_dir s1 q).

  Lemma R_is_dir (t : nat) (σ : cstate) (σ' : cstate) q : Renv t σ σ' -> is_dir σ.1 q -> is_dir σ'.1 q.
  Proof. apply (Renv_stable t (fun σ => is_dir σ.1 q)). intros; eapply G_is_dir; eauto. Qed.
  Lemma R_nomark (t : nat) (σ : cstate) (σ' : cstate) p : Renv t σ σ' -> σ.1 !! marker p = None -> σ'.1 !! marker p = None.
  Proof. apply (Renv_stable t (fun σ => σ.1 !! marker p = None)). intros; eapply G_nomark; eauto. Qed.
  Lemma R_vis (t : nat) (σ : cstate) (σ' : cstate) q : Renv t σ σ' -> vis σ q -> vis σ' q.
  Proof.
    intros HR [H|[H1 H2]]; [left; eapply R_is_dir; eauto|right; split; [eapply R_nomark; eauto|exact H2]].
  Qed.
  Lemma A_is_dir (σ : cstate) (σ' : cstate) q : Rany σ σ' -> is_dir σ.1 q -> is_dir σ'.1 q.
  Proof. apply (Rany_stable (fun σ => is_dir σ.1 q)). intros; eapply G_is_dir; eauto. Qed.
  Lemma A_nomark (σ : cstate) (σ' : cstate) p : Rany σ σ' -> σ.1 !! marker p = None -> σ'.1 !! marker p = None.
  Proof. apply (Rany_stable (fun σ => σ.1 !! marker p = None)). intros; eapply G_nomark; eauto. Qed.
  Lemma A_vis (σ : cstate) (σ' : cstate) q : Rany σ σ' -> vis σ q -> vis σ' q.
  Proof.
    intros HR [H|[H1 H2]]; [left; eapply A_is_dir; eauto|right; split; [eapply A_nomark; eauto|exact H2]].
  Qed.
  Lemma A_owned (σ : cstate) (σ' : cstate) p (u : nat) : Rany σ σ' -> σ.2 !! p = Some u -> σ'.2 !! p = Some u.
  Proof. apply (Rany_stable (fun σ => σ.2 !! p = Some u)). intros; eapply G_owned; eauto. Qed.
  Lemma R_owned (t : nat) (σ : cstate) (σ' : cstate) p (u : nat) : Renv t σ σ' -> σ.2 !! p = Some u -> σ'.2 !! p = Some u.
  Proof. apply (Renv_stable t (fun σ => σ.2 !! p = Some u)). intros; eapply G_owned; eauto. Qed.
  Lemma R_mine (t : nat) (σ : cstate) (σ' : cstate) p :
    Renv t σ σ' -> σ.2 !! p = Some t /\ is_Some (σ.1 !! marker p) -> σ'.2 !! p = Some t /\ is_Some (σ'.1 !! marker p).
  Proof.
    apply (Renv_stable t (fun σ => σ.2 !! p = Some t /\ is_Some (σ.1 !! marker p))).
    intros t' σa σb Hne HG [Ho Hm]. split; [eapply G_owned; eauto|eapply G_mine; eauto].
  Qed.

  Lemma inv_root (σ : cstate) : Inv σ -> is_dir σ.1 [].
  Proof. intros ((H & _) & _). exact H. Qed.
  Lemma inv_dir (σ : cstate) q : Inv σ -> Req q -> is_Some (σ.1 !! q) -> is_dir σ.1 q.
  Proof. intros (_ & _ & HR & _) Hq [f Hf]. exists f. split; [exact Hf|]. apply (HR q Hq). exact Hf. Qed.
  (** what the lower layer holds on a requested path, with no marker in front of it, is visible as a directory:
      a directory of the lower layer itself, or - when it is a stale file - the directory that shadows it *)
  Lemma low_vis (σ : cstate) q : Inv σ -> Req q -> is_Some (s1 !! q) -> σ.1 !! marker q = None -> vis σ q.
  Proof.
    intros (_ & _ & _ & HL) Hq [f Hf] Hm. destruct (f_type f) eqn:Et.
    - destruct (HL q Hq f Hf Et) as [[x Hx]|Hd]; [congruence|left; exact Hd].
    - right. split; [exact Hm|]. exists f. auto.
  Qed.

  (** ** the base calls *)
  Lemma bh_exists0 s0 q : bhandler (BFs 0 (CExists q)) (S2 s0) = (S2 s0, Ok (bool_decide (is_Some (s0 !! q)))).
  Proof. reflexivity. Qed.
  Lemma bh_exists1 s0 q : bhandler (BFs 1 (CExists q)) (S2 s0) = (S2 s0, Ok (bool_decide (is_Some (s1 !! q)))).
  Proof. reflexivity. Qed.
  Lemma bh_md0 s0 q : bhandler (BFs 0 (CMetadata q)) (S2 s0) =
    (S2 s0, match s0 !! q with Some f => Ok (mem_meta f) | None => fail ENotFound end).
  Proof. cbn. unfold mem_fs_call. rewrite ms_metadata. cbn. destruct (s0 !! q); reflexivity. Qed.
  Lemma bh_md1 s0 q : bhandler (BFs 1 (CMetadata q)) (S2 s0) =
    (S2 s0, match s1 !! q with Some f => Ok (mem_meta f) | None => fail ENotFound end).
  Proof. cbn. unfold mem_fs_call. rewrite ms_metadata. cbn. destruct (s1 !! q); reflexivity. Qed.
  Lemma bh_create0 s0 d : bhandler (BFs 0 (CCreateDir d)) (S2 s0) =
    (S2 (msec_sem (MInsertDir d) s0).1, (msec_sem (MInsertDir d) s0).2).
  Proof.
    remember (msec_sem (MInsertDir d) s0) as r eqn:Er. cbn. unfold mem_fs_call. rewrite ms_create_dir, <- Er.
    destruct r. reflexivity.
  Qed.
  Lemma bh_remove0 s0 q : bhandler (BFs 0 (CRemoveFile q)) (S2 s0) =
    (S2 (msec_sem (MRemoveFile q) s0).1, (msec_sem (MRemoveFile q) s0).2).
  Proof.
    remember (msec_sem (MRemoveFile q) s0) as r eqn:Er. cbn. unfold mem_fs_call. rewrite ms_remove_file, <- Er.
    destruct r. reflexivity.
  Qed.

  (** a call that changes nothing *)
  Lemma wpi_pure {A} (t : nat) b (k : brep b -> bprog A) (Q : A -> cstate -> Prop) (σ : cstate) (f : mstate -> brep b) :
    (forall s0, bhandler b (S2 s0) = (S2 s0, f s0)) -> (forall x gh, ghost_upd t b x gh = gh) ->
    (forall σ', Renv t σ σ' -> Inv σ' -> wpi t (k (f σ'.1)) Q σ') ->
    wpi t (Call b k) Q σ.
  Proof.
    intros Hb Hg H σ' HR HI. exists σ'.1. rewrite Hb. cbn [fst snd]. split; [reflexivity|].
    rewrite Hg. destruct σ' as [a g]. cbn [fst snd] in *. split; [apply G_refl; exact HI|]. apply (H (a, g)); auto.
  Qed.

  Lemma wpi_exists0 {A} (t : nat) q (k : res bool -> bprog A) (Q : A -> cstate -> Prop) (σ : cstate) :
    (forall σ', Renv t σ σ' -> Inv σ' -> wpi t (k (Ok (bool_decide (is_Some (σ'.1 !! q))))) Q σ') ->
    wpi t (Call (BFs 0 (CExists q)) k) Q σ.
  Proof. intros H. apply (wpi_pure t (BFs 0 (CExists q)) k Q σ (fun s0 => Ok (bool_decide (is_Some (s0 !! q))))); auto using bh_exists0. Qed.
  Lemma wpi_exists1 {A} (t : nat) q (k : res bool -> bprog A) (Q : A -> cstate -> Prop) (σ : cstate) :
    (forall σ', Renv t σ σ' -> Inv σ' -> wpi t (k (Ok (bool_decide (is_Some (s1 !! q))))) Q σ') ->
    wpi t (Call (BFs 1 (CExists q)) k) Q σ.
  Proof. intros H. apply (wpi_pure t (BFs 1 (CExists q)) k Q σ (fun s0 => Ok (bool_decide (is_Some (s1 !! q))))); auto using bh_exists1. Qed.
  Lemma wpi_md0 {A} (t : nat) q (k : res meta -> bprog A) (Q : A -> cstate -> Prop) (σ : cstate) :
    (forall σ', Renv t σ σ' -> Inv σ' ->
       wpi t (k (match σ'.1 !! q with Some f => Ok (mem_meta f) | None => fail ENotFound end)) Q σ') ->
    wpi t (Call (BFs 0 (CMetadata q)) k) Q σ.
  Proof.
    intros H. apply (wpi_pure t (BFs 0 (CMetadata q)) k Q σ (fun s0 => match s0 !! q with Some f => Ok (mem_meta f) | None => fail ENotFound end));
      auto using bh_md0.
  Qed.
  Lemma wpi_md1 {A} (t : nat) q (k : res meta -> bprog A) (Q : A -> cstate -> Prop) (σ : cstate) :
    (forall σ', Renv t σ σ' -> Inv σ' ->
       wpi t (k (match s1 !! q with Some f => Ok (mem_meta f) | None => fail ENotFound end)) Q σ') ->
    wpi t (Call (BFs 1 (CMetadata q)) k) Q σ.
  Proof.
    intros H. apply (wpi_pure t (BFs 1 (CMetadata q)) k Q σ (fun s0 => match s1 !! q with Some f => Ok (mem_meta f) | None => fail ENotFound end));
      auto using bh_md1.
  Qed.

  Ltac simp :=
    unfold bind_res, write_path;
    cbn [fst snd app bind vp_exists vp_metadata vp_remove_file labelled v_impl v0 v1 first_layer map_err];
    repeat match goal with |- context [whiteout_path (v0, []) ?p] => change (whiteout_path (v0, []) p) with (marker p) end.

  (** ** resolution of a path that is visible as a directory: it is found, in one layer or the other *)
  Lemma read_path_vis (t : nat) q (Q : res (vfs * path) -> cstate -> Prop) (σ : cstate) :
    Inv σ -> (q = [] \/ Req q) -> vis σ q ->
    (forall σ', Rany σ σ' -> Inv σ' -> is_dir σ'.1 q -> Q (Ok (v0, q)) σ') ->
    (forall σ', Rany σ σ' -> Inv σ' -> is_dir s1 q -> Q (Ok (v1, q)) σ') ->
    wpi t (read_path top lower q) Q σ.
  Proof.
    intros HI Hq Hv H0 H1. destruct q as [|n q'].
    { cbn. apply H0; [apply rtc_refl|exact HI|apply inv_root, HI]. }
    destruct Hq as [Hq|Hq]; [discriminate|].
    set (q := n :: q') in *. cbn [read_path]. simp.
    apply wpi_exists0. intros σa HRa HIa. case_bool_decide as Ea; simp.
    { apply H0; auto; [eapply Renv_any; eauto|]. apply inv_dir; auto. }
    assert (Hva : vis σa q) by (eapply R_vis; eauto).
    destruct Hva as [Hd|[Hnm Hd1]]; [exfalso; apply Ea; destruct Hd as (d & Hd & _); exists d; exact Hd|].
    apply wpi_exists0. intros σb HRb HIb.
    rewrite (R_nomark t σa σb q HRb Hnm). rewrite bool_decide_eq_false_2 by (intros [? ?]; discriminate). simp.
    apply wpi_exists1. intros σc HRc HIc.
    rewrite bool_decide_eq_true_2 by (destruct Hd1 as (d & -> & _); eauto). simp.
    apply H1; auto. eapply Rany_env; [|exact HRc]. eapply Rany_env; [|exact HRb]. eapply Renv_any; eauto.
  Qed.

  Lemma ovl_exists_vis (t : nat) q (Q : res bool -> cstate -> Prop) (σ : cstate) :
    Inv σ -> (q = [] \/ Req q) -> vis σ q ->
    (forall σ', Rany σ σ' -> Inv σ' -> Q (Ok true) σ') ->
    wpi t (ovl_exists top lower q) Q σ.
  Proof.
    intros HI Hq Hv H. unfold ovl_exists. apply wpi_bind.
    apply read_path_vis; auto; intros σa HRa HIa Hd; simp.
    - apply wpi_exists0. intros σb HRb HIb.
      rewrite bool_decide_eq_true_2 by (destruct (R_is_dir t σa σb q HRb Hd) as (d & -> & _); eauto).
      cbn. apply H; auto. eapply Rany_env; eauto.
    - apply wpi_exists1. intros σb HRb HIb.
      rewrite bool_decide_eq_true_2 by (destruct Hd as (d & -> & _); eauto).
      cbn. apply H; auto. eapply Rany_env; eauto.
  Qed.

  Lemma ovl_metadata_vis (t : nat) q (Q : res meta -> cstate -> Prop) (σ : cstate) :
    Inv σ -> (q = [] \/ Req q) -> vis σ q ->
    (forall σ' md, Rany σ σ' -> Inv σ' -> m_type md = Dir -> Q (Ok md) σ') ->
    wpi t (ovl_metadata top lower q) Q σ.
  Proof.
    intros HI Hq Hv H. unfold ovl_metadata. apply wpi_try.
    apply read_path_vis; auto; intros σa HRa HIa Hd; simp.
    - apply wpi_md0. intros σb HRb HIb.
      destruct (R_is_dir t σa σb q HRb Hd) as (d & Ed & Hdt). rewrite Ed. cbn.
      apply H; auto. eapply Rany_env; eauto.
    - apply wpi_md1. intros σb HRb HIb.
      destruct Hd as (d & Ed & Hdt). rewrite Ed. cbn.
      apply H; auto. eapply Rany_env; eauto.
  Qed.

  (** ** create_dir in the write layer: the one step that adds an entry *)
  Lemma has_parent_true (s0 : mstate) d : d <> [] -> is_dir s0 (removelast d) -> has_parent s0 d = true.
  Proof.
    intros Hne (f & Hf & Hft). unfold has_parent. destruct d as [|x d']; [congruence|]. rewrite Hf, Hft. reflexivity.
  Qed.

  Lemma wpi_create0 {A} (t : nat) d (k : res unit -> bprog A) (Q : A -> cstate -> Prop) (σ : cstate) :
    d <> [] -> Req d -> is_dir σ.1 (removelast d) ->
    (forall σ'', Rany σ σ'' -> Inv σ'' -> is_dir σ''.1 d -> σ''.2 !! d = Some t -> wpi t (k (Ok tt)) Q σ'') ->
    (forall σ'', Rany σ σ'' -> Inv σ'' -> is_dir σ''.1 d -> wpi t (k (fail EDirExists)) Q σ'') ->
    wpi t (Call (BFs 0 (CCreateDir d)) k) Q σ.
  Proof.
    intros Hne HR Hp Hok Hex σ' HRe HI.
    pose proof (R_is_dir t σ σ' _ HRe Hp) as Hp'.
    rewrite bh_create0. cbn [msec_sem]. rewrite (has_parent_true _ _ Hne Hp').
    destruct σ' as [s0 gh]. cbn [fst snd] in *.
    destruct (s0 !! d) as [f|] eqn:E; cbn [fst snd].
    - (* already there: a directory *)
      assert (Hd : is_dir s0 d) by (apply (inv_dir (s0, gh)); eauto).
      destruct Hd as (f' & Ef & Hft). rewrite E in Ef. injection Ef as <-. rewrite Hft.
      exists s0. split; [reflexivity|]. cbn [ghost_upd]. split; [apply G_refl; exact HI|].
      apply Hex; [eapply Renv_any; eauto|exact HI|]. exists f. auto.
    - set (nd := mkMemFile Dir [] TAuto (Some TAuto) (Some TAuto)).
      exists (<[d := nd]> s0). split; [reflexivity|]. cbn [ghost_upd].
      assert (Hdn : is_dir (<[d := nd]> s0) d) by (exists nd; split; [apply lookup_insert|reflexivity]).
      assert (HI' : Inv (<[d := nd]> s0, <[d := t]> gh)).
      { destruct HI as ((Hroot & Hpc) & Hgh & Hreq & Hlow). cbn [fst snd] in *. split; [|split; [|split]].
        - split; [apply root_dir_insert_ne; auto|]. apply pc_insert_dir; auto.
        - intros q Hq. cbn [fst snd] in *. destruct (decide (q = d)) as [->|Hqd]; [split; auto|].
          rewrite lookup_insert_ne in Hq by congruence. destruct (Hgh q Hq) as [(g & Hg & Hgt) Hrq]. split; [|exact Hrq].
          exists g. rewrite lookup_insert_ne by congruence. auto.
        - intros q Hq. cbn [fst snd] in *. destruct (Hreq q Hq) as [Hnf Hmk]. split.
          + intros g Hg. destruct (decide (q = d)) as [->|Hqd].
            * rewrite lookup_insert in Hg. injection Hg as <-. reflexivity.
            * rewrite lookup_insert_ne in Hg by congruence. eauto.
          + intros g Hg. rewrite lookup_insert_ne in Hg by (apply Req_no_marker; exact HR). eauto.
        - intros q Hq f Hf Hft. cbn [fst snd] in *. destruct (Hlow q Hq f Hf Hft) as [[x Hx]|(g & Hg & Hgt)].
          + left. exists x. rewrite lookup_insert_ne by (apply Req_no_marker; exact HR). exact Hx.
          + right. destruct (decide (q = d)) as [->|Hqd]; [exact Hdn|]. exists g. rewrite lookup_insert_ne by congruence. auto. }
      assert (HG : G t (s0, gh) (<[d := nd]> s0, <[d := t]> gh)).
      { split; [exact HI|]. split; [exact HI'|]. cbn [fst snd]. split; intros q.
        - destruct (decide (q = d)) as [->|Hqd].
          + right. left. rewrite lookup_insert. auto.
          + left. apply lookup_insert_ne. congruence.
        - destruct (decide (q = d)) as [->|Hqd].
          + right. rewrite lookup_insert. split; [|reflexivity].
            destruct (gh !! d) as [u|] eqn:Eg; [|reflexivity].
            destruct HI as (_ & Hgh & _). destruct (Hgh d) as [(g & Hg & _) _]; [cbn; eauto|]. cbn in Hg. congruence.
          + left. apply lookup_insert_ne. congruence. }
      split; [exact HG|].
      apply Hok; [eapply Rany_step; [eapply Renv_any; eauto|exact HG]|exact HI'|exact Hdn|apply lookup_insert].
  Qed.

  (** removing the marker of a directory this thread created: nobody else does *)
  Lemma wpi_remove_marker (t : nat) p (Q : res unit -> cstate -> Prop) (σ : cstate) :
    σ.2 !! p = Some t -> is_Some (σ.1 !! marker p) ->
    (forall σ'', Rany σ σ'' -> Inv σ'' -> Q (Ok tt) σ'') ->
    wpi t (vp_remove_file v0 (marker p)) Q σ.
  Proof.
    intros Ho Hm H. simp. intros σ' HRe HI.
    destruct (R_mine t σ σ' p HRe (conj Ho Hm)) as [Ho' [f Hf]].
    rewrite bh_remove0. cbn [msec_sem]. destruct σ' as [s0 gh]. cbn [fst snd] in *. rewrite Hf.
    assert (Hrp : Req p) by (apply HI; cbn; eauto).
    assert (Hft : f_type f = File) by (apply (proj1 (proj2 (proj2 HI)) p Hrp) in Hf; exact Hf). rewrite Hft. cbn [fst snd].
    exists (delete (marker p) s0). split; [reflexivity|]. cbn [ghost_upd].
    assert (HI' : Inv (delete (marker p) s0, gh)).
    { destruct HI as ((Hroot & Hpc) & Hgh & Hreq & Hlow). cbn [fst snd] in *. split; [|split; [|split]].
      - split; [apply root_dir_delete; [eapply not_root_of_file; eauto|auto]|].
        apply pc_delete; auto. eapply file_is_leaf; eauto.
      - intros q Hq. cbn [fst snd] in *. destruct (Hgh q Hq) as [(g & Hg & Hgt) Hrq]. split; [|exact Hrq].
        exists g. rewrite lookup_delete_ne; [auto|]. intros <-. congruence.
      - intros q Hq. cbn [fst snd] in *. destruct (Hreq q Hq) as [Hnf Hmk]. split.
        + intros g Hg. apply lookup_delete_Some in Hg as [_ Hg]. eauto.
        + intros g Hg. apply lookup_delete_Some in Hg as [_ Hg]. eauto.
      - (* the marker of p goes: p is a directory of the write layer by now (this thread created it) *)
        intros q Hq g Hg Hgt. cbn [fst snd] in *.
        assert (Hpd : is_dir (delete (marker p) s0) p).
        { destruct (Hgh p) as [(x & Hx & Hxt) _]; [eauto|]. exists x. split; [|exact Hxt].
          rewrite lookup_delete_ne; [exact Hx|]. intros E. apply (Req_no_marker p p Hrp). congruence. }
        destruct (decide (q = p)) as [->|Hqp]; [right; exact Hpd|].
        destruct (Hlow q Hq g Hg Hgt) as [[x Hx]|(x & Hx & Hxt)].
        + left. exists x. rewrite lookup_delete_ne; [exact Hx|]. intros E. apply Hqp. symmetry.
          apply (whiteout_path_inj top); [apply Req_names; exact Hrp|apply Req_names; exact Hq|exact E].
        + right. exists x. split; [|exact Hxt]. rewrite lookup_delete_ne; [exact Hx|].
          intros E. apply (Req_no_marker q p Hq). congruence. }
    assert (HG : G t (s0, gh) (delete (marker p) s0, gh)).
    { split; [exact HI|]. split; [exact HI'|]. cbn [fst snd]. split; intros q; [|left; reflexivity].
      destruct (decide (q = marker p)) as [->|Hq].
      - right. right. exists p, f. rewrite lookup_delete. auto.
      - left. apply lookup_delete_ne. congruence. }
    split; [exact HG|]. cbn. apply H; [eapply Rany_step; [eapply Renv_any; eauto|exact HG]|exact HI'].
  Qed.

  (** ** the write layer's own create_dir_all (the parent chain is copied up) *)
  Lemma prefixes_snoc (p : path) n : prefixes (p ++ [n]) = prefixes p ++ [p ++ [n]].
  Proof.
    unfold prefixes. rewrite app_length. cbn [length]. rewrite Nat.add_1_r, seq_S, map_app. cbn [map].
    rewrite firstn_all2 by (rewrite app_length; cbn; lia). f_equal.
    apply map_ext_in. intros k Hk. apply in_seq in Hk. rewrite take_app_le by lia. reflexivity.
  Qed.

  Lemma create_dirs0 (t : nat) (Q : res unit -> cstate -> Prop) : forall ds prev (σ : cstate),
    chain prev ds -> Forall Req ds -> Inv σ -> is_dir σ.1 prev ->
    (forall σ', Rany σ σ' -> Inv σ' -> is_dir σ'.1 (default prev (last ds)) -> Q (Ok tt) σ') ->
    wpi t (create_dirs v0 ds) Q σ.
  Proof.
    induction ds as [|d ds IH]; intros prev σ Hch Hrq HI Hp H.
    { cbn. apply H; [apply rtc_refl|exact HI|exact Hp]. }
    destruct Hch as (Hne & Hrl & Hch). apply Forall_cons in Hrq as [Hrd Hrq]. subst prev.
    cbn [create_dirs]. cbn [v_impl v0 bind].
    assert (Hlast : forall x, default x (last (d :: ds)) = default d (last ds)).
    { intros x. destruct ds as [|d2 ds']; [reflexivity|]. rewrite last_cons_cons. cbn. destruct (last (d2 :: ds')) eqn:El; [reflexivity|].
      apply last_None in El. discriminate. }
    apply wpi_create0; auto; intros σa HRa HIa Hda; [intros _|]; cbn [bind e_kind fail];
      (apply (IH d); auto; intros σb HRb HIb Hl; apply H; auto; [eapply rtc_transitive; eauto|rewrite Hlast; exact Hl]).
  Qed.

  Lemma last_prefixes (p : path) : p <> [] -> default [] (last (prefixes p)) = p.
  Proof.
    intros Hne. destruct (path_cases p) as [->|(q & n & ->)]; [congruence|].
    rewrite prefixes_snoc, last_snoc. reflexivity.
  Qed.

  (** ** ensure_has_parent: the parent is visible as a directory; afterwards it is one in the write layer *)
  Lemma ensure_has_parent_ok (t : nat) p (Q : res unit -> cstate -> Prop) (σ : cstate) :
    Inv σ -> p <> [] -> (removelast p = [] \/ Req (removelast p)) -> vis σ (removelast p) ->
    (forall σ', Rany σ σ' -> Inv σ' -> is_dir σ'.1 (removelast p) -> Q (Ok tt) σ') ->
    wpi t (ovl_ensure_has_parent top lower p) Q σ.
  Proof.
    intros HI Hne Hq Hv H. unfold ovl_ensure_has_parent. destruct p as [|x p']; [congruence|].
    set (p := x :: p') in *. set (prev := removelast p) in *.
    apply wpi_try. apply ovl_exists_vis; auto. intros σa HRa HIa. cbn match.
    apply wpi_try. apply ovl_metadata_vis; auto; [eapply A_vis; eauto|]. intros σb md HRb HIb Hmd. rewrite Hmd.
    apply wpi_try. simp. unfold vp_create_dir_all.
    assert (Hcont : forall σ', Rany σb σ' -> Inv σ' -> is_dir σ'.1 prev -> Q (Ok tt) σ').
    { intros σ' HR' HI' Hd. apply H; auto. eapply rtc_transitive; [exact HRa|]. eapply rtc_transitive; eauto. }
    destruct Hq as [Hq|Hq].
    - rewrite Hq in *. cbn. apply Hcont; [apply rtc_refl|exact HIb|apply inv_root, HIb].
    - apply (create_dirs0 t _ (prefixes prev) [] σb); auto.
      + pose proof (chain_prefixes_from prev 0) as Hc. rewrite Nat.sub_0_r in Hc. exact Hc.
      + apply inv_root, HIb.
      + intros σ' HR' HI' Hd. cbn. apply Hcont; auto.
        rewrite last_prefixes in Hd; [exact Hd|]. apply Req_nonempty, Hq.
  Qed.

  (** ** resolution of the target: whatever the layers hold at that moment *)
  Lemma read_path_any (t : nat) p (Q : res (vfs * path) -> cstate -> Prop) (σ : cstate) :
    Inv σ -> Req p ->
    (forall σ', Rany σ σ' -> Inv σ' -> is_dir σ'.1 p -> Q (Ok (v0, p)) σ') ->
    (forall σ', Rany σ σ' -> Inv σ' -> is_Some (s1 !! p) -> σ'.1 !! marker p = None -> Q (Ok (v1, p)) σ') ->
    (forall σ', Rany σ σ' -> Inv σ' -> Q (fail ENotFound) σ') ->
    wpi t (read_path top lower p) Q σ.
  Proof.
    intros HI Hq H0 H1 Hn. pose proof (Req_nonempty p Hq) as Hne. destruct p as [|n p']; [congruence|].
    set (p := n :: p') in *. cbn [read_path]. simp.
    apply wpi_exists0. intros σa HRa HIa. case_bool_decide as Ea; simp.
    { apply H0; auto; [eapply Renv_any; eauto|]. apply inv_dir; auto. }
    apply wpi_exists0. intros σb HRb HIb. case_bool_decide as Eb; simp.
    { apply Hn; auto. eapply Rany_env; [|exact HRb]. eapply Renv_any; eauto. }
    apply wpi_exists1. intros σc HRc HIc.
    assert (HRac : Rany σ σc).
    { eapply Rany_env; [|exact HRc]. eapply Rany_env; [|exact HRb]. eapply Renv_any; eauto. }
    case_bool_decide as Ec; simp.
    - apply H1; auto. eapply R_nomark; [exact HRc|].
      destruct (σb.1 !! marker p) eqn:E; [exfalso; apply Eb; eauto|reflexivity].
    - apply Hn; auto.
  Qed.

  Lemma ovl_exists_any (t : nat) p (Q : res bool -> cstate -> Prop) (σ : cstate) :
    Inv σ -> Req p ->
    (forall σ', Rany σ σ' -> Inv σ' -> vis σ' p -> Q (Ok true) σ') ->
    (forall σ', Rany σ σ' -> Inv σ' -> Q (Ok false) σ') ->
    wpi t (ovl_exists top lower p) Q σ.
  Proof.
    intros HI Hq Ht Hf. unfold ovl_exists. apply wpi_bind.
    apply read_path_any; [exact HI|exact Hq|intros σa HRa HIa Hd|intros σa HRa HIa Hd Hm|intros σa HRa HIa]; simp.
    - apply wpi_exists0. intros σb HRb HIb.
      pose proof (R_is_dir t σa σb p HRb Hd) as Hd'.
      rewrite bool_decide_eq_true_2 by (destruct Hd' as (d & -> & _); eauto).
      cbn. apply Ht; auto; [eapply Rany_env; eauto|left; exact Hd'].
    - apply wpi_exists1. intros σb HRb HIb.
      rewrite bool_decide_eq_true_2 by exact Hd.
      cbn. apply Ht; auto; [eapply Rany_env; eauto|]. apply low_vis; auto. eapply R_nomark; eauto.
    - cbn. apply Hf; auto.
  Qed.

  (** ** the overlay's create_dir, with the other threads running in between any two of its calls *)
  Lemma ovl_create_dir_ok (t : nat) p (Q : res unit -> cstate -> Prop) (σ : cstate) :
    Inv σ -> Req p -> vis σ (removelast p) ->
    (forall σ' r, Rany σ σ' -> Inv σ' -> vis σ' p ->
       (r = Ok tt \/ exists e, r = Err e /\ e_kind e = EDirExists) -> Q r σ') ->
    wpi t (ovl_impl top lower (CCreateDir p)) Q σ.
  Proof.
    intros HI Hq Hv H. pose proof (Req_nonempty p Hq) as Hne.
    assert (Hprev : removelast p = [] \/ Req (removelast p)).
    { destruct (path_cases p) as [->|(q & n & ->)]; [congruence|]. rewrite removelast_snoc.
      destruct q as [|x q']; [left; reflexivity|right].
      pose proof (Req_closed _ Hq) as Hc. rewrite prefixes_snoc in Hc. apply Forall_app in Hc as [Hc _].
      destruct (path_cases (x :: q')) as [E|(q2 & n2 & E)]; [discriminate|]. rewrite E in *.
      rewrite prefixes_snoc in Hc. apply Forall_app in Hc as [_ Hc]. inversion Hc; auto. }
    cbn [ovl_impl]. apply wpi_try. apply ensure_has_parent_ok; auto. intros σa HRa HIa Hpd. cbn match.
    apply wpi_try. apply ovl_exists_any; auto; [intros σb HRb HIb Hvb|intros σb HRb HIb]; cbn match.
    - (* somebody has it already: DirectoryExists *)
      apply wpi_try. apply ovl_metadata_vis; auto. intros σc md HRc HIc Hmd. rewrite Hmd. cbn.
      apply H; [|exact HIc|eapply A_vis; eauto|right; eexists; split; reflexivity].
      eapply rtc_transitive; [exact HRa|]. eapply rtc_transitive; eauto.
    - (* create it in the write layer: parent probe, create_dir, marker *)
      assert (HRab : Rany σ σb) by (eapply rtc_transitive; eauto).
      pose proof (A_is_dir σa σb _ HRb Hpd) as Hpb.
      simp. unfold vp_create_dir, vp_get_parent. simp.
      apply wpi_exists0. intros σc HRc HIc.
      pose proof (R_is_dir t σb σc _ HRc Hpb) as Hpc.
      rewrite bool_decide_eq_true_2 by (destruct Hpc as (d & -> & _); eauto). cbn [negb bind].
      apply wpi_md0. intros σd HRd HId.
      pose proof (R_is_dir t σc σd _ HRd Hpc) as Hpdd. destruct Hpdd as (d & Ed & Hdt). rewrite Ed. cbn [bind map_err mem_meta m_type].
      rewrite Hdt. cbn [bind].
      assert (HRad : Rany σ σd).
      { eapply Rany_env; [|exact HRd]. eapply Rany_env; [|exact HRc]. exact HRab. }
      apply wpi_create0; auto; [exists d; auto| |].
      + (* created by this thread: it alone removes the marker *)
        intros σe HRe HIe Hde Hown. cbn [bind map_err]. unfold clear_whiteout. simp.
        apply wpi_exists0. intros σf HRf HIf. case_bool_decide as Em; cbn [bind].
        * apply wpi_remove_marker; [eapply R_owned; eauto|exact Em|].
          intros σg HRg HIg.
          assert (HRag : Rany σ σg).
          { eapply rtc_transitive; [exact HRad|]. eapply rtc_transitive; [exact HRe|].
            eapply rtc_transitive; [eapply Renv_any; exact HRf|exact HRg]. }
          apply H; [exact HRag|exact HIg| |left; reflexivity].
          left. eapply A_is_dir; [exact HRg|]. eapply R_is_dir; eauto.
        * apply H; [|exact HIf| |left; reflexivity].
          -- eapply rtc_transitive; [exact HRad|]. eapply Rany_env; eauto.
          -- left. eapply R_is_dir; eauto.
      + (* another thread was faster *)
        intros σe HRe HIe Hde. cbn [bind map_err]. cbn.
        apply H; auto; [eapply rtc_transitive; eauto|left; exact Hde|right; eexists; split; reflexivity].
  Qed.

  (** ** VfsPath::create_dir_all on the overlay *)
  Definition ovl : vfs := mkVfs 2 (ovl_impl top lower).

  Lemma ovl_create_dirs_ok (t : nat) (Q : res unit -> cstate -> Prop) : forall ds prev (σ : cstate),
    chain prev ds -> Forall Req ds -> Inv σ -> vis σ prev ->
    (forall σ', Rany σ σ' -> Inv σ' -> Forall (vis σ') ds -> Q (Ok tt) σ') ->
    wpi t (create_dirs ovl ds) Q σ.
  Proof.
    induction ds as [|d ds IH]; intros prev σ Hch Hrq HI Hv H.
    { cbn. apply H; [apply rtc_refl|exact HI|constructor]. }
    destruct Hch as (Hne & Hrl & Hch). apply Forall_cons in Hrq as [Hrd Hrq]. subst prev.
    cbn [create_dirs]. cbn [v_impl ovl]. apply wpi_bind. apply ovl_create_dir_ok; auto.
    intros σa r HRa HIa Hva Hr.
    assert (Hnext : wpi t (create_dirs ovl ds) Q σa).
    { apply (IH d); auto. intros σb HRb HIb Hall. apply H; [eapply rtc_transitive; eauto|exact HIb|].
      constructor; [eapply A_vis; eauto|exact Hall]. }
    destruct Hr as [->|(e & -> & He)]; cbn; [|rewrite He]; exact Hnext.
  Qed.
End RG.

(** ** the theorem *)
Lemma elem_of_prefixes (P q : path) : q ∈ prefixes P <-> exists n, 1 <= n <= length P /\ q = take n P.
Proof.
  unfold prefixes. rewrite elem_of_list_fmap. split.
  - intros (n & -> & Hn). apply elem_of_list_In, in_seq in Hn. exists n. split; [lia|reflexivity].
  - intros (n & Hn & ->). exists n. split; [reflexivity|]. apply elem_of_list_In, in_seq. lia.
Qed.

Definition visible (s0 s1 : mstate) (q : path) : Prop :=
  is_dir s0 q \/ (s0 !! whiteout_path (v0, []) q = None /\ is_dir s1 q).

Theorem ovl_create_dir_all_concurrent (hs : list hstate) (lg : list (nat * fscall)) (ft : option (nat * nat)) (s0 s1 : mstate) (Ps : list path) (sch : list nat) :
  wf s0 ->
  (forall P q, P ∈ Ps -> q ∈ prefixes P ->
     not_file s0 q /\
     (forall f, s1 !! q = Some f -> f_type f = File -> is_Some (s0 !! whiteout_path (v0, []) q) \/ is_dir s0 q) /\
     Forall (fun n => n <> []) q /\ head q <> Some whiteout_name /\
     (forall f, s0 !! whiteout_path (v0, []) q = Some f -> f_type f = File)) ->
  exists s0', fst (prun sch (mstore2 s0 s1 hs lg ft) (map (fun P => vp_create_dir_all ovl P) Ps)) = mstore2 s0' s1 hs lg ft /\
    wf s0' /\
    forall t P r, Ps !! t = Some P ->
      snd (prun sch (mstore2 s0 s1 hs lg ft) (map (fun P => vp_create_dir_all ovl P) Ps)) !! t = Some (Ret r) ->
      r = Ok tt /\ Forall (visible s0' s1) (prefixes P).
Proof.
  intros Hwf Hpre.
  set (Req := fun q : path => exists P, P ∈ Ps /\ q ∈ prefixes P).
  assert (Hclosed : forall q, Req q -> Forall Req (prefixes q)).
  { intros q (P & HP & Hq). apply Forall_forall. intros q' Hq'. exists P. split; [exact HP|].
    apply elem_of_prefixes in Hq as (n & Hn & ->). apply elem_of_prefixes in Hq' as (k & Hk & ->).
    rewrite take_length in Hk. apply elem_of_prefixes. exists k. split; [lia|]. rewrite take_take. f_equal. lia. }
  assert (Hnonempty : forall q, Req q -> q <> []).
  { intros q (P & HP & Hq) ->. apply elem_of_prefixes in Hq as (n & Hn & E).
    apply (f_equal length) in E. rewrite take_length in E. cbn in E. lia. }
  assert (Hnames : forall q, Req q -> Forall (fun n => n <> []) q) by (intros q (P & HP & Hq); apply (Hpre P q HP Hq)).
  assert (Hnomarker : forall q p, Req q -> q <> whiteout_path (v0, []) p).
  { intros q p (P & HP & Hq) ->. destruct (Hpre P _ HP Hq) as (_ & _ & _ & Hh & _). apply Hh.
    unfold whiteout_path. destruct (reverse p); reflexivity. }
  set (Q := fun (t : nat) (r : res unit) (σ : cstate) =>
              r = Ok tt /\ forall P, Ps !! t = Some P -> Forall (vis s1 σ) (prefixes P)).
  assert (HI0 : Inv s1 Req (s0, ∅)).
  { split; [exact Hwf|]. split.
    - intros q [x Hx]. cbn in Hx. rewrite lookup_empty in Hx. discriminate.
    - split.
      + intros q (P & HP & Hq). destruct (Hpre P q HP Hq) as (H1 & _ & _ & _ & H5). split; [exact H1|exact H5].
      + intros q (P & HP & Hq). destruct (Hpre P q HP Hq) as (_ & H2 & _). exact H2. }
  destruct (pool_sound hs lg ft s1 Req Q sch (s0, ∅) (map (fun P => vp_create_dir_all ovl P) Ps) HI0) as (σ' & E & HI' & Hlen & Hsafe).
  { intros t m Hm. rewrite list_lookup_fmap in Hm. destruct (Ps !! t) as [P|] eqn:EP; [|discriminate]. injection Hm as <-.
    exists (s0, ∅). split; [apply rtc_refl|]. unfold vp_create_dir_all.
    apply (ovl_create_dirs_ok hs lg ft s1 Req Hclosed Hnonempty Hnames Hnomarker t _ (prefixes P) []).
    - pose proof (chain_prefixes_from P 0) as Hc. rewrite Nat.sub_0_r in Hc. exact Hc.
    - apply Forall_forall. intros q Hq. exists P. split; [eapply elem_of_list_lookup_2; eauto|exact Hq].
    - exact HI0.
    - left. exact (proj1 (proj1 HI0)).
    - intros σa HRa HIa Hall. split; [reflexivity|]. intros P' HP'. rewrite EP in HP'. injection HP' as <-. exact Hall. }
  exists σ'.1. split; [exact E|]. split; [apply HI'|].
  intros t P r HP Hr. destruct (Hsafe t _ Hr) as (σt & HRt & Hw). cbn in Hw. destruct Hw as [-> Hall].
  split; [reflexivity|]. specialize (Hall P HP). eapply Forall_impl; [exact Hall|]. intros q Hq.
  pose proof (R_vis s1 Req Hnomarker t σt σ' q HRt Hq) as Hv. exact Hv.
Qed.

(** what "visible" means to a caller: exists through the overlay answers true *)
Lemma visible_exists (hs : list hstate) (lg : list (nat * fscall)) (ft : option (nat * nat)) (s0 s1 : mstate) (q : path) :
  q <> [] -> visible s0 s1 q ->
  run bhandler (ovl_exists (v0, []) [(v1, [])] q) (mstore2 s0 s1 hs lg ft) = (mstore2 s0 s1 hs lg ft, Ok true).
Proof.
  intros Hq Hv. rewrite (exists_rule hs lg ft s0 s1 q Hq). f_equal. f_equal.
  destruct Hv as [(d & Hd & _)|[Hm (d & Hd & _)]].
  - rewrite bool_decide_eq_true_2 by eauto. reflexivity.
  - rewrite Hm, Hd. rewrite (bool_decide_eq_false_2 (is_Some None)) by (intros [? ?]; discriminate).
    rewrite (bool_decide_eq_true_2 (is_Some (Some d))) by eauto. cbn. apply orb_true_r.
Qed.

(** every call a create_dir_all thread can issue - whatever the replies - is a trait call of one of the
    two MemoryFS layers (or a handle operation, of which create_dir has none): with
    [single_section] (each such call is one lock section) a scheduling step of [prun] is a step at the
    implementation's lock granularity *)
Definition layer_call (b : bcall) : Prop :=
  match b with BFs i _ => i < 2 | BH _ _ => True | BLog _ _ => False end.

Lemma cda_calls (P : path) : calls_ok layer_call (vp_create_dir_all ovl P).
Proof.
  assert (Himpl : forall c, calls_ok layer_call (ovl_impl (v0, []) [(v1, [])] c)).
  { apply ovl_impl_ok.
    - intros h o. exact I.
    - intros c. cbn. constructor; [cbn; lia|]. intros x. constructor.
    - constructor; [|constructor]. split; intros; cbn; (constructor; [cbn; lia|]); intros x; constructor. }
  unfold vp_create_dir_all. induction (prefixes P) as [|d ds IH]; cbn [create_dirs]; [constructor|].
  apply calls_ok_bind; [apply Himpl|]. intros [u|e|]; [exact IH| |constructor].
  destruct (e_kind e); try constructor. exact IH.
Qed.
