(** * The answer of a time setter does not depend on the value (C19).

    Whatever base filesystem answers the call - MemoryFS, PhysicalFS, EmbeddedFS - whether a setter succeeds, is refused
    as not-supported or fails with not-found is decided by the path and the state alone; in particular a setter called
    with the value the entry already has (the harness's [setsame]) answers like the same setter with any other value. *)
From stdpp Require Import gmap list.
From Coq Require Import NArith ZArith.
From VFS Require Import Core.Types Core.Prog Core.Calls Base.MemFS Base.Handles Base.PhysFS Base.Embedded Base.Store.

Lemma mem_update_outcome s p g g' : snd (mem_update s p g) = snd (mem_update s p g').
Proof. unfold mem_update. destruct (s !! p); reflexivity. Qed.

Lemma ctime_value_free i p t t' st : snd (fs_call i (CSetCTime p t) st) = snd (fs_call i (CSetCTime p t') st).
Proof.
  unfold fs_call. destruct (st_bases st !! i) as [[s|s|s]|]; [| | |reflexivity].
  - unfold mem_fs_call, mem_step, mem_call, msec_call; cbn.
    pose proof (mem_update_outcome s p
      (fun f => mkMemFile (f_type f) (f_content f) (TSet t) (f_modified f) (f_accessed f))
      (fun f => mkMemFile (f_type f) (f_content f) (TSet t') (f_modified f) (f_accessed f))) as H.
    destruct (mem_update s p _) as [s1 r1], (mem_update s p _) as [s2 r2]. cbn in *. exact H.
  - reflexivity.
  - reflexivity.
Qed.

Lemma mtime_value_free i p t t' st : snd (fs_call i (CSetMTime p t) st) = snd (fs_call i (CSetMTime p t') st).
Proof.
  unfold fs_call. destruct (st_bases st !! i) as [[s|s|s]|]; [| | |reflexivity].
  - unfold mem_fs_call, mem_step, mem_call, msec_call; cbn.
    pose proof (mem_update_outcome s p
      (fun f => mkMemFile (f_type f) (f_content f) (f_created f) (Some (TSet t)) (f_accessed f))
      (fun f => mkMemFile (f_type f) (f_content f) (f_created f) (Some (TSet t')) (f_accessed f))) as H.
    destruct (mem_update s p _) as [s1 r1], (mem_update s p _) as [s2 r2]. cbn in *. exact H.
  - unfold phys_fs_call; cbn. destruct (lookup_path s p) as [n| |]; reflexivity.
  - reflexivity.
Qed.

Lemma atime_value_free i p t t' st : snd (fs_call i (CSetATime p t) st) = snd (fs_call i (CSetATime p t') st).
Proof.
  unfold fs_call. destruct (st_bases st !! i) as [[s|s|s]|]; [| | |reflexivity].
  - unfold mem_fs_call, mem_step, mem_call, msec_call; cbn.
    pose proof (mem_update_outcome s p
      (fun f => mkMemFile (f_type f) (f_content f) (f_created f) (f_modified f) (Some (TSet t)))
      (fun f => mkMemFile (f_type f) (f_content f) (f_created f) (f_modified f) (Some (TSet t')))) as H.
    destruct (mem_update s p _) as [s1 r1], (mem_update s p _) as [s2 r2]. cbn in *. exact H.
  - unfold phys_fs_call; cbn. destruct (lookup_path s p) as [n| |]; reflexivity.
  - reflexivity.
Qed.
