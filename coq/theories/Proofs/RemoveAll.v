(** C11: remove_dir_all on a MemoryFS removes exactly the directory and everything below it, for
    every well-formed tree of any size and depth, and leaves every other entry untouched. *)
From stdpp Require Import gmap list sorting.
From Coq Require Import NArith ZArith Lia.
From VFS Require Import Core.Types Core.Prog Core.Calls Base.MemFS Base.Handles Base.PhysFS Base.Embedded Base.Store
  Layer.VfsPath Proofs.ProgProofs Proofs.MemProofs Proofs.MemCalls Proofs.MemPublic Proofs.WalkProofs.

Definition under (c k : path) : Prop := k = c \/ below c k.
Global Instance under_dec c k : Decision (under c k).
Proof. unfold under. apply _. Defined.

(** [s'] is [s] without the subtrees rooted at [cs] *)
Definition pruned (s s' : mstate) (cs : list path) : Prop :=
  forall k, s' !! k = if decide (Exists (fun c => under c k) cs) then None else s !! k.

Lemma pruned_nil s : pruned s s [].
Proof. intros k. destruct (decide _) as [H|H]; [inversion H|reflexivity]. Qed.

Lemma under_child_len p n k : under (p ++ [n]) k -> length p < length k.
Proof.
  intros [->|[_ H]]; rewrite app_length in *; cbn in *; lia.
Qed.

Lemma siblings_apart p n m k : n <> m -> under (p ++ [n]) k -> under (p ++ [m]) k -> False.
Proof.
  intros Hnm Hn Hm.
  assert (Hpre : forall x, under (p ++ [x]) k -> take (S (length p)) k = p ++ [x]).
  { intros x [->|[H _]].
    - rewrite take_ge; [reflexivity|]. rewrite app_length. cbn. lia.
    - rewrite app_length in H. cbn in H. replace (S (length p)) with (length p + 1)%nat by lia. exact H. }
  pose proof (Hpre n Hn) as H1. pose proof (Hpre m Hm) as H2. rewrite H1 in H2.
  apply app_inv_head in H2. congruence.
Qed.

Section RemoveAll.
  Variables (hs : list hstate) (lg : list (nat * fscall)) (ft : option (nat * nat)).
  Notation S s := (mstore s hs lg ft).

  Lemma sub_lookup s s' cs k f : pruned s s' cs -> s' !! k = Some f -> s !! k = Some f.
  Proof. intros Hp Hk. rewrite (Hp k) in Hk. destruct (decide _); [discriminate|exact Hk]. Qed.

  (** no entry below a file *)
  Lemma nothing_below_file s c f k : wf s -> s !! c = Some f -> f_type f = File -> below c k -> s !! k = None.
  Proof.
    intros Hwf Hf Ht Hb. destruct (s !! k) as [g|] eqn:E; [|reflexivity]. exfalso.
    destruct (below_inv _ _ Hb) as (n & r & ->).
    destruct (prefix_is_dir s Hwf c (n :: r) ltac:(discriminate) ltac:(eauto)) as (d & Hd & Hdt). congruence.
  Qed.

  Theorem remove_dir_all_exact : forall fuel (s : mstate) p,
    wf s -> p <> [] -> is_dir s p -> (forall k, k ∈ desc s p -> length k < length p + fuel) -> 0 < fuel ->
    exists s', run bhandler (vp_remove_dir_all mv fuel p) (S s) = (S s', Ok tt) /\ pruned s s' [p] /\ wf s'.
  Proof.
    induction fuel as [|fuel IH]; intros s p Hwf Hp Hd Hdepth Hpos; [lia|].
    cbn [vp_remove_dir_all]. unfold bind_res at 1. rewrite run_bind, call_exists.
    destruct Hd as (fp & Hfp & Htp).
    rewrite bool_decide_eq_true_2 by eauto. cbn [negb].
    unfold bind_res at 1. rewrite run_bind, call_read_dir, Hfp, Htp.
    fold (kids s p).
    (* the loop over the children *)
    match goal with |- context [bind_res (?lp (kids s p)) _] => set (loop := lp) end.
    assert (Hloop : forall cs processed si,
               wf si -> pruned s si processed -> NoDup (processed ++ cs) ->
               (forall c, c ∈ processed ++ cs -> c ∈ kids s p) ->
               exists sj, run bhandler (loop cs) (S si) = (S sj, Ok tt) /\ pruned s sj (processed ++ cs) /\ wf sj).
    { induction cs as [|c cs IHcs]; intros processed si Hwfi Hpi Hnd Hin.
      - exists si. rewrite app_nil_r. auto.
      - assert (Hck : c ∈ kids s p) by (apply Hin, elem_of_app; right; left).
        apply elem_of_kids in Hck as (n & -> & [f Hf]).
        assert (Hci : si !! (p ++ [n]) = Some f).
        { rewrite (Hpi (p ++ [n])). destruct (decide _) as [Hex|_]; [|exact Hf]. exfalso.
          apply Exists_exists in Hex as (c' & Hc' & Hu).
          assert (Hc'k : c' ∈ kids s p) by (apply Hin, elem_of_app; now left).
          apply elem_of_kids in Hc'k as (m & -> & _).
          destruct (decide (n = m)) as [->|Hnm].
          - apply NoDup_app in Hnd as (_ & Hdis & _). apply (Hdis _ Hc'). left.
          - eapply (siblings_apart p m n); eauto. left. reflexivity. }
        unfold loop at 1. cbn [bind_res]. fold loop.
        unfold bind_res at 1. rewrite run_bind, call_metadata, Hci. cbn [m_type mem_meta].
        assert (Hstep : exists sk, run bhandler (match f_type f with
                                                 | File => vp_remove_file mv (p ++ [n])
                                                 | Dir => vp_remove_dir_all mv fuel (p ++ [n])
                                                 end) (S si) = (S sk, Ok tt) /\
                                   pruned s sk (processed ++ [p ++ [n]]) /\ wf sk).
        { destruct (f_type f) eqn:Et.
          - (* a file *)
            exists (delete (p ++ [n]) si). rewrite call_remove_file, ms_remove_file. cbn [msec_sem]. rewrite Hci, Et. cbn.
            split; [reflexivity|]. split.
            + intros k. rewrite (lookup_delete_Some si) || idtac.
              destruct (decide (k = p ++ [n])) as [->|Hne].
              * rewrite lookup_delete. destruct (decide _) as [_|Hn]; [reflexivity|].
                exfalso. apply Hn, Exists_app. right. constructor. now left.
              * rewrite lookup_delete_ne by congruence. rewrite (Hpi k).
                destruct (decide (Exists (fun c => under c k) processed)) as [He|He].
                -- destruct (decide _) as [_|Hn]; [reflexivity|]. exfalso. apply Hn, Exists_app. now left.
                -- destruct (decide _) as [He2|_]; [|reflexivity].
                   apply Exists_app in He2 as [He2|He2]; [contradiction|].
                   apply Exists_cons in He2 as [[->|Hb]|He2]; [congruence| |inversion He2].
                   eapply nothing_below_file; eauto.
            + pose proof (mem_step_wf (CRemoveFile (p ++ [n])) si Hwfi I) as H.
              rewrite ms_remove_file in H. cbn [msec_sem] in H. rewrite Hci, Et in H. exact H.
          - (* a directory: the recursive call *)
            destruct (IH si (p ++ [n]) Hwfi ltac:(intros E; now apply app_eq_nil in E as [_ E]) ltac:(eexists; eauto)) as (sk & Hrun & Hpk & Hwfk).
            + intros k Hk. apply elem_of_desc in Hk as [[g Hg] Hb].
              assert (Hks : k ∈ desc s p).
              { apply elem_of_desc. split; [eapply sub_lookup in Hg; eauto|].
                eapply below_trans; [|exact Hb]. apply below_app. discriminate. }
              specialize (Hdepth k Hks). rewrite app_length. cbn. lia.
            + destruct fuel; [|lia]. exfalso.
              (* with no fuel left the directory must have nothing below it; then its depth bound is vacuous but
                 the recursive program cannot run *)
              specialize (Hdepth (p ++ [n])). rewrite app_length in Hdepth. cbn in Hdepth.
              assert (p ++ [n] ∈ desc s p) as Hin'.
              { apply elem_of_desc. split; [eauto|apply below_app; discriminate]. }
              specialize (Hdepth Hin'). lia.
            + exists sk. split; [exact Hrun|]. split; [|exact Hwfk].
              intros k. rewrite (Hpk k), (Hpi k).
              destruct (decide (Exists (fun c => under c k) [p ++ [n]])) as [H1|H1];
                destruct (decide (Exists (fun c => under c k) processed)) as [H2|H2];
                destruct (decide (Exists (fun c => under c k) (processed ++ [p ++ [n]]))) as [H3|H3];
                try reflexivity; exfalso.
              * apply H3, Exists_app. now left.
              * apply H3, Exists_app. now right.
              * apply H3, Exists_app. now left.
              * apply Exists_app in H3 as [H3|H3]; contradiction. }
        destruct Hstep as (sk & Hrun & Hpk & Hwfk).
        unfold bind_res at 1. rewrite run_bind, Hrun.
        destruct (IHcs (processed ++ [p ++ [n]]) sk Hwfk Hpk) as (sj & Hj & Hpj & Hwfj).
        { now rewrite <- app_assoc. }
        { intros c Hc. apply Hin. now rewrite <- app_assoc in Hc. }
        exists sj. split; [exact Hj|]. split; [|exact Hwfj]. now rewrite <- app_assoc in Hpj. }
    destruct (Hloop (kids s p) [] s Hwf (pruned_nil s) (NoDup_kids s p) (fun c Hc => Hc)) as (sk & Hrun & Hpk & Hwfk).
    cbn [app] in Hpk.
    unfold bind_res at 1. rewrite run_bind, Hrun.
    (* the directory itself is now empty *)
    rewrite call_remove_dir, ms_remove_dir. cbn [msec_sem].
    assert (Hpk_p : sk !! p = Some fp).
    { rewrite (Hpk p). destruct (decide _) as [Hex|_]; [|exact Hfp]. exfalso.
      apply Exists_exists in Hex as (c & Hc & Hu). apply elem_of_kids in Hc as (n & -> & _).
      apply under_child_len in Hu. lia. }
    rewrite Hpk_p, Htp.
    assert (Hempty : mem_children sk p = []).
    { apply mem_children_nil. intros n. rewrite (Hpk (p ++ [n])).
      destruct (decide _) as [_|Hn]; [reflexivity|].
      destruct (s !! (p ++ [n])) as [g|] eqn:Eg; [|reflexivity]. exfalso. apply Hn.
      apply Exists_exists. exists (p ++ [n]). split; [apply elem_of_kids; eauto|now left]. }
    rewrite Hempty. cbn.
    exists (delete p sk). split; [reflexivity|]. split.
    - intros k. destruct (decide (k = p)) as [->|Hne].
      + rewrite lookup_delete. destruct (decide _) as [_|Hn]; [reflexivity|]. exfalso. apply Hn. constructor. now left.
      + rewrite lookup_delete_ne by congruence. rewrite (Hpk k).
        destruct (decide (Exists (fun c => under c k) (kids s p))) as [He|He].
        * destruct (decide _) as [_|Hn]; [reflexivity|]. exfalso. apply Hn. constructor. right.
          apply Exists_exists in He as (c & Hc & Hu). apply elem_of_kids in Hc as (n & -> & _).
          destruct Hu as [->|Hb]; [apply below_app; discriminate|].
          eapply below_trans; [|exact Hb]. apply below_app. discriminate.
        * destruct (decide _) as [He2|_]; [|reflexivity].
          apply Exists_cons in He2 as [[->|Hb]|He2]; [congruence| |inversion He2].
          destruct (s !! k) as [g|] eqn:Eg; [|reflexivity]. exfalso. apply He.
          destruct (below_inv _ _ Hb) as (n & r & ->).
          apply Exists_exists. exists (p ++ [n]). split.
          -- apply elem_of_kids. exists n. split; [reflexivity|].
             destruct r as [|m r]; [eauto|].
             destruct (prefix_is_dir s Hwf (p ++ [n]) (m :: r) ltac:(discriminate)) as (d & Hd' & _); [rewrite <- app_assoc; eauto|eauto].
          -- destruct r as [|m r]; [now left|right].
             replace (p ++ n :: m :: r) with ((p ++ [n]) ++ m :: r) by now rewrite <- app_assoc.
             apply below_app. discriminate.
    - pose proof (mem_step_wf (CRemoveDir p) sk Hwfk Hp) as H.
      rewrite ms_remove_dir in H. cbn [msec_sem] in H. rewrite Hpk_p, Htp, Hempty in H. exact H.
  Qed.
End RemoveAll.
