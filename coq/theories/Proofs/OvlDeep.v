(** C09 / C01 on the overlay at any depth: creating an entry through an OverlayFS over two MemoryFS
    layers obeys the create contracts RELATIVE TO THE UNION the overlay shows.

    [view s0 s1 q] is what the overlay shows at q (the write layer first, else - unless the path is
    marked as deleted - the lower layer).  The parent chain of the target may live in the lower layer
    only; the overlay then copies it up into the write layer (ensure_has_parent), which changes the
    write layer but not the view.  The theorems say: for a path p whose ancestors are all shown as
    directories,
      - create_dir / create_file on a p the view does not show succeed, and afterwards the view shows
        an empty directory / an empty file at p and is unchanged everywhere else;
      - create_dir on a p the view shows fails as directory-exists / file-exists according to what is
        shown, and the view is unchanged everywhere.
    "Everywhere" ranges over the paths of the caller's namespace (first component not the bookkeeping
    directory, no empty names). *)
From stdpp Require Import gmap list sorting.
From Coq Require Import NArith ZArith Lia.
From VFS Require Import Core.Types Core.Prog Core.Calls Spec.Tree Base.MemFS Base.Handles Base.PhysFS Base.Embedded Base.Store
  Layer.VfsPath Layer.Overlay Proofs.ProgProofs Proofs.MemProofs Proofs.MemCalls Proofs.MemPublic Proofs.ConcProofs
  Proofs.Composite Proofs.OvlProofs Proofs.OvlList Proofs.OvlLife Proofs.CopyFile Proofs.OvlAppend.

Section Deep.
  Variables (lg : list (nat * fscall)) (ft : option (nat * nat)).
  Notation S2 a b hs := (mstore2 a b hs lg ft).
  Notation top := (v0, @nil (list N)).
  Notation lower := [(v1, @nil (list N))].
  Notation marker q := (whiteout_path top q).

  Definition view (s0 s1 : mstate) (q : path) : option node :=
    match s0 !! q with
    | Some f => Some (absf f)
    | None => if bool_decide (is_Some (s0 !! marker q)) then None else absf <$> (s1 !! q)
    end.

  (** paths of the caller's namespace *)
  Definition user_path (q : path) : Prop := head q <> Some whiteout_name /\ Forall (fun n => n <> []) q.

  Lemma absf_dir f : absf f = NDir <-> f_type f = Dir.
  Proof. unfold absf. destruct (f_type f); split; congruence. Qed.

  Lemma view_dir_cases s0 s1 q : view s0 s1 q = Some NDir ->
    is_dir s0 q \/ (s0 !! q = None /\ s0 !! marker q = None /\ is_dir s1 q).
  Proof.
    unfold view. destruct (s0 !! q) as [f|] eqn:E0.
    - intros H. injection H as H. left. exists f. split; [exact E0|]. now apply absf_dir.
    - case_bool_decide as Em; [discriminate|]. destruct (s1 !! q) as [g|] eqn:E1; [|discriminate].
      intros H. injection H as H. right. split; [reflexivity|]. split.
      + destruct (s0 !! marker q) eqn:E; [exfalso; apply Em; eauto|reflexivity].
      + exists g. split; [exact E1|]. now apply absf_dir.
  Qed.

  Lemma view_dir_not_file s0 s1 q : view s0 s1 q = Some NDir -> not_file s0 q.
  Proof.
    intros H f Hf. apply view_dir_cases in H as [(d & Hd & Hdt)|[Hn _]]; congruence.
  Qed.

  Lemma marker_head q : head (marker q) = Some whiteout_name.
  Proof. unfold whiteout_path. destruct (reverse q); reflexivity. Qed.

  Lemma prefixes_head (p q : path) : q ∈ prefixes p -> head q = head p.
  Proof.
    unfold prefixes. intros Hin. apply elem_of_list_fmap in Hin as (k & -> & Hk). apply elem_of_seq in Hk.
    destruct p as [|x p']; [cbn in Hk; lia|]. destruct k; [lia|]. reflexivity.
  Qed.

  Lemma removelast_head (p : path) : removelast p <> [] -> head (removelast p) = head p.
  Proof.
    destruct (path_cases p) as [->|(q & n & ->)]; [intros H; cbn in H; congruence|]. rewrite removelast_last.
    destruct q; [congruence|]. reflexivity.
  Qed.

  (** ** ensure_has_parent: the parent chain is copied up; only directories the view already shows as
      directories appear in the write layer *)
  Lemma ensure_parent_deep (s0 s1 : mstate) hs (p : path) :
    wf s0 -> p <> [] -> Forall (fun q => view s0 s1 q = Some NDir) (prefixes (removelast p)) ->
    exists sa,
      run bhandler (ovl_ensure_has_parent top lower p) (S2 s0 s1 hs) = (S2 sa s1 hs, Ok tt) /\
      is_dir sa (removelast p) /\ wf sa /\
      Forall (is_dir sa) (prefixes (removelast p)) /\
      (forall q, q ∉ prefixes (removelast p) -> sa !! q = s0 !! q).
  Proof.
    intros Hwf Hp Hvis.
    assert (Hnf : Forall (not_file s0) (prefixes (removelast p))).
    { eapply Forall_impl; [exact Hvis|]. intros q Hq. exact (view_dir_not_file s0 s1 q Hq). }
    destruct (create_dir_all0 lg ft s0 s1 hs (removelast p) Hwf Hnf) as (sa & Hrun & Hdirs & Hwfa & Hsame & Hmono).
    exists sa. unfold ovl_ensure_has_parent. destruct p as [|x p']; [congruence|].
    set (p := x :: p') in *. set (par := removelast p) in *.
    assert (Hpar_dir : is_dir sa par).
    { destruct (decide (par = [])) as [E|E]; [rewrite E; apply Hmono, Hwf|].
      eapply Forall_forall in Hdirs; [exact Hdirs|]. now apply self_prefix. }
    split; [|split; [exact Hpar_dir|split; [exact Hwfa|split; [exact Hdirs|exact Hsame]]]].
    destruct (decide (par = [])) as [E|E].
    - (* the parent is the root *)
      rewrite E in *. destruct Hwf as [(r & Hr & Hrt) Hpc].
      unfold bind_res at 1. rewrite run_bind.
      unfold ovl_exists at 1. rewrite run_bind. cbn [read_path run fst snd]. rewrite exists0, Hr.
      rewrite bool_decide_eq_true_2 by eauto.
      unfold bind_res at 1. rewrite run_bind. unfold ovl_metadata, bind_res at 1. rewrite run_bind. cbn [read_path run fst snd].
      rewrite md0, Hr. cbn [mem_meta m_type]. rewrite Hrt.
      unfold write_path. cbn [fst snd app]. unfold bind_res. rewrite run_bind, Hrun. reflexivity.
    - assert (Hv : view s0 s1 par = Some NDir).
      { eapply Forall_forall in Hvis; [exact Hvis|]. now apply self_prefix. }
      unfold bind_res at 1. rewrite run_bind, (exists_rule hs lg ft s0 s1 par E).
      assert (Hmd : exists d, f_type d = Dir /\
                 bool_decide (is_Some (s0 !! par)) || negb (bool_decide (is_Some (s0 !! marker par))) && bool_decide (is_Some (s1 !! par)) = true /\
                 match s0 !! par with
                 | Some f => Ok (mem_meta f)
                 | None => if bool_decide (is_Some (s0 !! marker par)) then fail ENotFound
                           else match s1 !! par with Some f => Ok (mem_meta f) | None => fail ENotFound end
                 end = Ok (mem_meta d)).
      { apply view_dir_cases in Hv as [(d & Hd & Hdt)|(Hn & Hm & (d & Hd & Hdt))]; exists d; (split; [exact Hdt|]).
        - rewrite Hd. rewrite (bool_decide_eq_true_2 (is_Some (Some d))) by eauto. split; reflexivity.
        - rewrite Hn, Hm, Hd. rewrite (bool_decide_eq_false_2 (is_Some None)) by (intros [? ?]; discriminate).
          rewrite (bool_decide_eq_true_2 (is_Some (Some d))) by eauto. split; reflexivity. }
      destruct Hmd as (d & Hdt & Hex & Hmeta). rewrite Hex.
      unfold bind_res at 1. rewrite run_bind, (metadata_rule hs lg ft s0 s1 par E), Hmeta. cbn [run mem_meta m_type]. rewrite Hdt.
      unfold write_path. cbn [fst snd app]. unfold bind_res. rewrite run_bind, Hrun. reflexivity.
  Qed.

  (** the copy-up is invisible *)
  Lemma copyup_view (s0 s1 sa : mstate) (par : path) :
    (par = [] \/ head par <> Some whiteout_name) ->
    Forall (fun q => view s0 s1 q = Some NDir) (prefixes par) ->
    Forall (is_dir sa) (prefixes par) ->
    (forall q, q ∉ prefixes par -> sa !! q = s0 !! q) ->
    forall q, view sa s1 q = view s0 s1 q.
  Proof.
    intros Hhead Hvis Hdirs Hsame q.
    assert (Hmk : forall x, marker x ∉ prefixes par).
    { intros x Hin. destruct Hhead as [->|Hh]; [cbn in Hin; inversion Hin|].
      apply prefixes_head in Hin. rewrite marker_head in Hin. congruence. }
    destruct (decide (q ∈ prefixes par)) as [Hin|Hnin].
    - rewrite Forall_forall in Hvis, Hdirs. rewrite (Hvis q Hin).
      destruct (Hdirs q Hin) as (d & Hd & Hdt). unfold view. rewrite Hd. f_equal. now apply absf_dir.
    - unfold view. rewrite (Hsame q Hnin), (Hsame (marker q) (Hmk q)). reflexivity.
  Qed.

  Lemma view_none_cases s0 s1 q : view s0 s1 q = None ->
    s0 !! q = None /\ (is_Some (s0 !! marker q) \/ (s0 !! marker q = None /\ s1 !! q = None)).
  Proof.
    unfold view. destruct (s0 !! q) eqn:E0; [discriminate|]. split; [reflexivity|].
    case_bool_decide as Em; [left; exact Em|]. right. split.
    - destruct (s0 !! marker q) eqn:E; [exfalso; apply Em; eauto|reflexivity].
    - destruct (s1 !! q); [discriminate|reflexivity].
  Qed.

  (** the state after a creation in the write layer, marker cleared if there was one *)
  Definition created (sa : mstate) (p : path) (f : memfile) : mstate :=
    match sa !! marker p with
    | Some _ => delete (marker p) (<[p := f]> sa)
    | None => <[p := f]> sa
    end.

  Lemma created_view (s1 sa : mstate) (p : path) (f : memfile) :
    user_path p -> sa !! p = None ->
    forall q, user_path q ->
      view (created sa p f) s1 q = if decide (q = p) then Some (absf f) else view sa s1 q.
  Proof.
    intros [Hph Hpn] Hfree q [Hqh Hqn].
    assert (Hqm : q <> marker p) by (intros ->; rewrite marker_head in Hqh; congruence).
    assert (Hpm : p <> marker p) by (intros E; rewrite E, marker_head in Hph; congruence).
    assert (Hmq : marker q <> p) by (intros E; rewrite <- E, marker_head in Hph; congruence).
    unfold created, view. destruct (decide (q = p)) as [->|Hne].
    - destruct (sa !! marker p); [rewrite lookup_delete_ne by congruence|]; rewrite lookup_insert; reflexivity.
    - assert (Hmm : marker q <> marker p).
      { intros E. apply Hne. now apply (whiteout_path_inj top q p). }
      destruct (sa !! marker p) eqn:Em.
      + rewrite !lookup_delete_ne by congruence. rewrite !lookup_insert_ne by congruence. reflexivity.
      + rewrite !lookup_insert_ne by congruence. reflexivity.
  Qed.

  Lemma wf_created (sa : mstate) p f :
    wf sa -> p <> [] -> is_dir sa (removelast p) -> sa !! p = None ->
    (forall g, sa !! marker p = Some g -> f_type g = File) -> marker p <> p ->
    wf (created sa p f).
  Proof.
    intros [Hr Hpc] Hp Hpar Hfree Hg Hne.
    assert (Hwf1 : wf (<[p := f]> sa)).
    { split; [apply root_dir_insert_ne; auto|]. apply pc_insert_leaf; auto. eapply absent_is_leaf; eauto. }
    unfold created. destruct (sa !! marker p) as [g'|] eqn:Em; [|exact Hwf1].
    destruct Hwf1 as [Hr1 Hpc1].
    assert (Hm1 : <[p := f]> sa !! marker p = Some g') by (rewrite lookup_insert_ne by congruence; exact Em).
    assert (Hgf : f_type g' = File) by (apply Hg; reflexivity).
    split.
    - apply root_dir_delete; [|exact Hr1]. eapply not_root_of_file; eauto.
    - apply pc_delete; [exact Hpc1|]. eapply file_is_leaf; eauto.
  Qed.

  (** clearing the marker after a creation in the write layer *)
  Lemma clear_whiteout_created (sa s1 : mstate) hs (p : path) (f : memfile) :
    marker p <> p -> (forall g, sa !! marker p = Some g -> f_type g = File) ->
    run bhandler (clear_whiteout top p) (S2 (<[p := f]> sa) s1 hs) = (S2 (created sa p f) s1 hs, Ok tt).
  Proof.
    intros Hne Hg. unfold clear_whiteout, created. cbn [fst]. unfold bind_res at 1. rewrite run_bind, exists0.
    rewrite lookup_insert_ne by congruence.
    destruct (sa !! marker p) as [g|] eqn:Em.
    - rewrite bool_decide_eq_true_2 by eauto.
      rewrite (remove_file0 lg ft _ s1 hs (marker p) g); [reflexivity|rewrite lookup_insert_ne by congruence; exact Em|].
      apply Hg. reflexivity.
    - rewrite bool_decide_eq_false_2 by (intros [? ?]; discriminate). reflexivity.
  Qed.

  (** the common hypotheses: a path of the caller's namespace whose ancestors the view shows as directories *)
  Definition reachable (s0 s1 : mstate) (p : path) : Prop :=
    user_path p /\ Forall (fun q => view s0 s1 q = Some NDir) (prefixes (removelast p)).

  Lemma user_parent_head (p : path) : user_path p -> removelast p = [] \/ head (removelast p) <> Some whiteout_name.
  Proof.
    intros [Hh _]. destruct (decide (removelast p = [])) as [E|E]; [left; exact E|right].
    rewrite (removelast_head p E). exact Hh.
  Qed.

  Lemma user_marker_ne (p : path) : user_path p -> marker p <> p.
  Proof. intros [Hh _] E. rewrite <- E, marker_head in Hh. congruence. Qed.

  (** ** create_dir on a path the overlay does not show *)
  Theorem create_dir_deep (s0 s1 : mstate) hs (p : path) :
    wf s0 -> p <> [] -> reachable s0 s1 p -> view s0 s1 p = None ->
    (forall g, s0 !! marker p = Some g -> f_type g = File) ->
    exists s0',
      run bhandler (ovl_impl top lower (CCreateDir p)) (S2 s0 s1 hs) = (S2 s0' s1 hs, Ok tt) /\ wf s0' /\
      forall q, user_path q -> view s0' s1 q = if decide (q = p) then Some NDir else view s0 s1 q.
  Proof.
    intros Hwf Hp [Hup Hvis] Hnone Hmk.
    destruct (ensure_parent_deep s0 s1 hs p Hwf Hp Hvis) as (sa & Hrun & Hpar & Hwfa & Hdirs & Hsame).
    pose proof (copyup_view s0 s1 sa (removelast p) (user_parent_head p Hup) Hvis Hdirs Hsame) as Hview.
    assert (Hpnot : p ∉ prefixes (removelast p)) by (apply not_prefix_of_parent; exact Hp).
    assert (Hmnot : marker p ∉ prefixes (removelast p)).
    { intros Hin. apply prefixes_head in Hin. rewrite marker_head in Hin.
      destruct (user_parent_head p Hup) as [E|E]; [rewrite E in Hin; discriminate|congruence]. }
    assert (Hsap : sa !! p = None).
    { rewrite (Hsame p Hpnot). apply view_none_cases in Hnone as [H _]. exact H. }
    assert (Hsam : sa !! marker p = s0 !! marker p) by (apply Hsame; exact Hmnot).
    cbn [ovl_impl]. unfold bind_res at 1. rewrite run_bind, Hrun.
    unfold bind_res at 1. rewrite run_bind, (exists_rule hs lg ft sa s1 p Hp).
    assert (Hex : bool_decide (is_Some (sa !! p)) || (negb (bool_decide (is_Some (sa !! marker p))) && bool_decide (is_Some (s1 !! p))) = false).
    { rewrite Hsap, Hsam. rewrite (bool_decide_eq_false_2 (is_Some None)) by (intros [? ?]; discriminate). cbn [orb].
      apply view_none_cases in Hnone as [_ [Hm|[Hm H1]]].
      - rewrite bool_decide_eq_true_2 by exact Hm. reflexivity.
      - rewrite H1. rewrite (bool_decide_eq_false_2 (is_Some None)) by (intros [? ?]; discriminate). apply andb_false_r. }
    rewrite Hex. unfold bind_res at 1. rewrite run_bind. unfold write_path. cbn [fst snd app].
    rewrite (create_dir0 lg ft sa s1 hs p Hp Hpar Hsap).
    set (nd := mkMemFile Dir [] TAuto (Some TAuto) (Some TAuto)).
    assert (Hmk' : forall g, sa !! marker p = Some g -> f_type g = File) by (intros g Hg; rewrite Hsam in Hg; eauto).
    rewrite (clear_whiteout_created sa s1 hs p nd (user_marker_ne p Hup) Hmk').
    exists (created sa p nd). split; [reflexivity|]. split.
    - apply wf_created; auto. apply user_marker_ne, Hup.
    - intros q Hq. rewrite (created_view s1 sa p nd Hup Hsap q Hq). destruct (decide (q = p)); [reflexivity|apply Hview].
  Qed.

  (** ** create_file on a path the overlay does not show: an empty file appears, the handle writes to it *)
  Theorem create_file_deep (s0 s1 : mstate) hs (p : path) :
    wf s0 -> p <> [] -> reachable s0 s1 p -> view s0 s1 p = None ->
    (forall g, s0 !! marker p = Some g -> f_type g = File) ->
    exists s0',
      run bhandler (ovl_impl top lower (CCreateFile p)) (S2 s0 s1 hs) =
        (S2 s0' s1 (hs ++ [HMemWriter 0 p [] 0]), Ok (length hs)) /\ wf s0' /\
      forall q, user_path q -> view s0' s1 q = if decide (q = p) then Some (NFile []) else view s0 s1 q.
  Proof.
    intros Hwf Hp [Hup Hvis] Hnone Hmk.
    destruct (ensure_parent_deep s0 s1 hs p Hwf Hp Hvis) as (sa & Hrun & Hpar & Hwfa & Hdirs & Hsame).
    pose proof (copyup_view s0 s1 sa (removelast p) (user_parent_head p Hup) Hvis Hdirs Hsame) as Hview.
    assert (Hpnot : p ∉ prefixes (removelast p)) by (apply not_prefix_of_parent; exact Hp).
    assert (Hmnot : marker p ∉ prefixes (removelast p)).
    { intros Hin. apply prefixes_head in Hin. rewrite marker_head in Hin.
      destruct (user_parent_head p Hup) as [E|E]; [rewrite E in Hin; discriminate|congruence]. }
    assert (Hsap : sa !! p = None).
    { rewrite (Hsame p Hpnot). apply view_none_cases in Hnone as [H _]. exact H. }
    assert (Hsam : sa !! marker p = s0 !! marker p) by (apply Hsame; exact Hmnot).
    cbn [ovl_impl]. unfold bind_res at 1. rewrite run_bind, Hrun.
    unfold bind_res at 1. rewrite run_bind, (exists_rule hs lg ft sa s1 p Hp).
    assert (Hex : bool_decide (is_Some (sa !! p)) || (negb (bool_decide (is_Some (sa !! marker p))) && bool_decide (is_Some (s1 !! p))) = false).
    { rewrite Hsap, Hsam. rewrite (bool_decide_eq_false_2 (is_Some None)) by (intros [? ?]; discriminate). cbn [orb].
      apply view_none_cases in Hnone as [_ [Hm|[Hm H1]]].
      - rewrite bool_decide_eq_true_2 by exact Hm. reflexivity.
      - rewrite H1. rewrite (bool_decide_eq_false_2 (is_Some None)) by (intros [? ?]; discriminate). apply andb_false_r. }
    rewrite Hex. unfold bind_res at 1. rewrite run_bind. cbn [run].
    unfold bind_res at 1. rewrite run_bind. unfold write_path. cbn [fst snd app].
    rewrite (create_file0 lg ft sa s1 hs p Hp Hpar Hsap).
    set (nf := mkMemFile File [] TAuto (Some TAuto) (Some TAuto)).
    assert (Hmk' : forall g, sa !! marker p = Some g -> f_type g = File) by (intros g Hg; rewrite Hsam in Hg; eauto).
    rewrite run_bind, (clear_whiteout_created sa s1 _ p nf (user_marker_ne p Hup) Hmk').
    exists (created sa p nf). split; [reflexivity|]. split.
    - apply wf_created; auto. apply user_marker_ne, Hup.
    - intros q Hq. rewrite (created_view s1 sa p nf Hup Hsap q Hq). destruct (decide (q = p)); [reflexivity|apply Hview].
  Qed.

  (** ** create_dir on a path the overlay shows: refused according to the occupant, the view unchanged *)
  Theorem create_dir_occupied_deep (s0 s1 : mstate) hs (p : path) (x : node) :
    wf s0 -> p <> [] -> reachable s0 s1 p -> view s0 s1 p = Some x ->
    exists s0',
      run bhandler (ovl_impl top lower (CCreateDir p)) (S2 s0 s1 hs) =
        (S2 s0' s1 hs, fail (match x with NDir => EDirExists | NFile _ => EFileExists end)) /\ wf s0' /\
      forall q, view s0' s1 q = view s0 s1 q.
  Proof.
    intros Hwf Hp [Hup Hvis] Hsome.
    destruct (ensure_parent_deep s0 s1 hs p Hwf Hp Hvis) as (sa & Hrun & Hpar & Hwfa & Hdirs & Hsame).
    pose proof (copyup_view s0 s1 sa (removelast p) (user_parent_head p Hup) Hvis Hdirs Hsame) as Hview.
    exists sa. split; [|split; [exact Hwfa|exact Hview]].
    assert (Hva : view sa s1 p = Some x) by (rewrite Hview; exact Hsome).
    cbn [ovl_impl]. unfold bind_res at 1. rewrite run_bind, Hrun.
    unfold bind_res at 1. rewrite run_bind, (exists_rule hs lg ft sa s1 p Hp).
    unfold bind_res at 1. unfold view in Hva.
    destruct (sa !! p) as [f|] eqn:Ep.
    - rewrite (bool_decide_eq_true_2 (is_Some (Some f))) by eauto. cbn [orb].
      rewrite run_bind, (metadata_rule hs lg ft sa s1 p Hp), Ep. cbn [run mem_meta m_type].
      injection Hva as <-. unfold absf. destruct (f_type f); reflexivity.
    - case_bool_decide as Em; [discriminate|]. destruct (s1 !! p) as [f|] eqn:E1; [|discriminate].
      rewrite (bool_decide_eq_false_2 (is_Some None)) by (intros [? ?]; discriminate).
      rewrite (bool_decide_eq_true_2 (is_Some (Some f))) by eauto. cbn [orb negb andb].
      rewrite run_bind, (metadata_rule hs lg ft sa s1 p Hp), Ep.
      rewrite bool_decide_eq_false_2 by exact Em. rewrite E1. cbn [run mem_meta m_type].
      injection Hva as <-. unfold absf. destruct (f_type f); reflexivity.
  Qed.
  (** ** remove_file on a file the overlay shows - in whichever layer: exactly that entry vanishes from
      the view.  [no_collision]: no directory on the way to p's marker is itself the marker path of
      some entry; it fails exactly when an ancestor's name ends in the marker suffix (finding D28) *)
  Definition no_collision (p : path) : Prop := forall q, marker q ∉ prefixes (removelast (marker p)).

  Theorem remove_file_deep (s0 s1 : mstate) hs (p : path) (b : list N) :
    wf s0 -> p <> [] -> user_path p -> no_collision p ->
    (is_Some (s0 !! p) -> s0 !! marker p = None) ->
    view s0 s1 p = Some (NFile b) ->
    Forall (not_file s0) (prefixes (removelast (marker p))) ->
    exists s0',
      run bhandler (ovl_impl top lower (CRemoveFile p)) (S2 s0 s1 hs) = (S2 s0' s1 (hs ++ [HClosed]), Ok tt) /\ wf s0' /\
      forall q, user_path q -> view s0' s1 q = if decide (q = p) then None else view s0 s1 q.
  Proof.
    intros Hwf Hp Hup Hnc Hinv Hv Hfree.
    assert (Hmne : marker p <> p) by (apply user_marker_ne; exact Hup).
    assert (Hmnil : marker p <> []) by (unfold whiteout_path; destruct (reverse p); discriminate).
    assert (Hframe : forall s0', s0' !! p = None -> is_Some (s0' !! marker p) ->
               (forall q, q <> p -> q ∉ prefixes (marker p) -> s0' !! q = s0 !! q) ->
               forall q, user_path q -> view s0' s1 q = if decide (q = p) then None else view s0 s1 q).
    { intros s0' Hgone Hmark Hsame q [Hqh Hqn]. unfold view. destruct (decide (q = p)) as [->|Hne].
      - rewrite Hgone. rewrite bool_decide_eq_true_2 by exact Hmark. reflexivity.
      - assert (Hq1 : q ∉ prefixes (marker p)).
        { intros Hin. apply prefixes_head in Hin. rewrite marker_head in Hin. congruence. }
        assert (Hq2 : marker q ∉ prefixes (marker p)).
        { intros Hin. apply prefixes_cases in Hin as [Hin|Hin]; [exact (Hnc q Hin)| |exact Hmnil].
          apply Hne. apply (whiteout_path_inj top q p); [exact Hqn|apply Hup|exact Hin]. }
        assert (Hq3 : marker q <> p) by (intros E; destruct Hup as [Hh _]; rewrite <- E, marker_head in Hh; congruence).
        rewrite (Hsame q Hne Hq1), (Hsame (marker q) Hq3 Hq2). reflexivity. }
    assert (Hpnot : p ∉ prefixes (removelast (marker p))).
    { intros Hin.
      assert (Hrl : removelast (marker p) <> []) by (intros E; rewrite E in Hin; cbn in Hin; inversion Hin).
      apply prefixes_head in Hin. destruct Hup as [Hh _].
      rewrite (removelast_head _ Hrl), marker_head in Hin. congruence. }
    unfold view in Hv. destruct (s0 !! p) as [g|] eqn:E0.
    - (* the write layer has the file (the lower layer may have one too) *)
      injection Hv as Hv. assert (Hg : f_type g = File) by (unfold absf in Hv; destruct (f_type g); [reflexivity|discriminate]).
      assert (Hwo : s0 !! marker p = None) by (apply Hinv; eauto).
      destruct (remove_shadowing_file_sets_marker lg ft s0 s1 hs p g Hwf Hp Hwo E0 Hg Hmne Hfree Hpnot)
        as (s0' & Hrun & Hgone & Hmark & Hsame & Hwf').
      exists s0'. split; [exact Hrun|]. split; [exact Hwf'|]. apply Hframe; auto.
    - case_bool_decide as Em; [discriminate|].
      assert (Hwo : s0 !! marker p = None) by (destruct (s0 !! marker p) eqn:E; [exfalso; apply Em; eauto|reflexivity]).
      assert (Hlow : is_Some (s1 !! p)) by (destruct (s1 !! p); [eauto|discriminate]).
      destruct (remove_lower_file_sets_marker lg ft s0 s1 hs p Hwf Hp Hwo E0 Hlow Hfree) as (s0' & Hrun & Hmark & Hsame & Hwf').
      exists s0'. split; [exact Hrun|]. split; [exact Hwf'|]. apply Hframe; auto.
      + rewrite Hsame; [exact E0|]. intros Hin. apply prefixes_head in Hin. destruct Hup as [Hh _]. rewrite marker_head in Hin. congruence.
  Qed.
  (** the hypothesis is not decoration: it fails for /a_wo/x, because of /a (finding D28) *)
  Lemma collision_example : ~ no_collision [[97%N] ++ wo_suffix; [120%N]].
  Proof.
    intros H. apply (H [[97%N]]). vm_compute. apply elem_of_list_In. right. left. reflexivity.
  Qed.
  (** ** C03 on the overlay: the union the overlay shows stays a TREE under these calls - every shown entry of
      the caller's namespace has a parent that is shown as a directory *)
  Definition view_tree (s0 s1 : mstate) : Prop :=
    forall q n, user_path (q ++ [n]) -> is_Some (view s0 s1 (q ++ [n])) -> view s0 s1 q = Some NDir.

  Lemma user_path_parent (q : path) n : user_path (q ++ [n]) -> user_path q.
  Proof.
    intros [Hh Hn]. split.
    - destruct q; [discriminate|exact Hh].
    - apply Forall_app in Hn as [Hn _]. exact Hn.
  Qed.

  Lemma parent_shown (s0 s1 : mstate) (p : path) :
    wf s0 -> p <> [] -> reachable s0 s1 p -> view s0 s1 (removelast p) = Some NDir.
  Proof.
    intros Hwf Hp [_ Hvis]. destruct (decide (removelast p = [])) as [E|E].
    - rewrite E. destruct Hwf as [(r & Hr & Hrt) _]. unfold view. rewrite Hr. f_equal. now apply absf_dir.
    - eapply Forall_forall in Hvis; [exact Hvis|]. now apply self_prefix.
  Qed.

  Lemma tree_after_insert (s0 s1 s0' : mstate) (p : path) (x : node) :
    wf s0 -> p <> [] -> reachable s0 s1 p -> view s0 s1 p = None -> view_tree s0 s1 ->
    (forall q, user_path q -> view s0' s1 q = if decide (q = p) then Some x else view s0 s1 q) ->
    view_tree s0' s1.
  Proof.
    intros Hwf Hp Hreach Hnone Htree Hview q n Hu Hsome.
    pose proof (user_path_parent q n Hu) as Huq.
    rewrite (Hview (q ++ [n]) Hu) in Hsome. rewrite (Hview q Huq).
    destruct (decide (q ++ [n] = p)) as [E|E].
    - assert (q = removelast p) as -> by (rewrite <- E; symmetry; apply removelast_last).
      destruct (decide (removelast p = p)) as [E'|_]; [exfalso; apply (f_equal length) in E'; rewrite <- E in E'; rewrite removelast_last, app_length in E'; cbn in E'; lia|].
      apply parent_shown; auto.
    - pose proof (Htree q n Hu Hsome) as Hq. destruct (decide (q = p)) as [->|_]; [congruence|exact Hq].
  Qed.

  Theorem create_dir_keeps_tree (s0 s1 : mstate) hs (p : path) :
    wf s0 -> p <> [] -> reachable s0 s1 p -> view s0 s1 p = None ->
    (forall g, s0 !! marker p = Some g -> f_type g = File) -> view_tree s0 s1 ->
    exists s0', run bhandler (ovl_impl top lower (CCreateDir p)) (S2 s0 s1 hs) = (S2 s0' s1 hs, Ok tt) /\ wf s0' /\ view_tree s0' s1.
  Proof.
    intros Hwf Hp Hreach Hnone Hmk Htree.
    destruct (create_dir_deep s0 s1 hs p Hwf Hp Hreach Hnone Hmk) as (s0' & Hrun & Hwf' & Hview).
    exists s0'. split; [exact Hrun|]. split; [exact Hwf'|].
    exact (tree_after_insert s0 s1 s0' p NDir Hwf Hp Hreach Hnone Htree Hview).
  Qed.

  Theorem create_file_keeps_tree (s0 s1 : mstate) hs (p : path) :
    wf s0 -> p <> [] -> reachable s0 s1 p -> view s0 s1 p = None ->
    (forall g, s0 !! marker p = Some g -> f_type g = File) -> view_tree s0 s1 ->
    exists s0', run bhandler (ovl_impl top lower (CCreateFile p)) (S2 s0 s1 hs) =
                  (S2 s0' s1 (hs ++ [HMemWriter 0 p [] 0]), Ok (length hs)) /\ wf s0' /\ view_tree s0' s1.
  Proof.
    intros Hwf Hp Hreach Hnone Hmk Htree.
    destruct (create_file_deep s0 s1 hs p Hwf Hp Hreach Hnone Hmk) as (s0' & Hrun & Hwf' & Hview).
    exists s0'. split; [exact Hrun|]. split; [exact Hwf'|].
    exact (tree_after_insert s0 s1 s0' p (NFile []) Hwf Hp Hreach Hnone Htree Hview).
  Qed.

  Theorem remove_file_keeps_tree (s0 s1 : mstate) hs (p : path) (b : list N) :
    wf s0 -> p <> [] -> user_path p -> no_collision p ->
    (is_Some (s0 !! p) -> s0 !! marker p = None) ->
    view s0 s1 p = Some (NFile b) ->
    Forall (not_file s0) (prefixes (removelast (marker p))) -> view_tree s0 s1 ->
    exists s0', run bhandler (ovl_impl top lower (CRemoveFile p)) (S2 s0 s1 hs) = (S2 s0' s1 (hs ++ [HClosed]), Ok tt) /\
                wf s0' /\ view_tree s0' s1.
  Proof.
    intros Hwf Hp Hup Hnc Hinv Hv Hfree Htree.
    destruct (remove_file_deep s0 s1 hs p b Hwf Hp Hup Hnc Hinv Hv Hfree) as (s0' & Hrun & Hwf' & Hview).
    exists s0'. split; [exact Hrun|]. split; [exact Hwf'|].
    intros q n Hu Hsome. pose proof (user_path_parent q n Hu) as Huq.
    rewrite (Hview (q ++ [n]) Hu) in Hsome. rewrite (Hview q Huq).
    destruct (decide (q ++ [n] = p)) as [E|E]; [destruct Hsome; discriminate|].
    pose proof (Htree q n Hu Hsome) as Hq. destruct (decide (q = p)) as [->|_]; [congruence|exact Hq].
  Qed.
  (** ** remove_dir on a directory the overlay shows as EMPTY - wherever it and its (deleted) entries live *)
  Lemma remove_dir0 (s0 s1 : mstate) hs q g :
    s0 !! q = Some g -> f_type g = Dir -> (forall n, s0 !! (q ++ [n]) = None) ->
    run bhandler (vp_remove_dir v0 q) (S2 s0 s1 hs) = (S2 (delete q s0) s1 hs, Ok tt).
  Proof.
    intros Hq Hg Hk. cbn. unfold mem_fs_call. rewrite ms_remove_dir. cbn [msec_sem]. rewrite Hq, Hg.
    rewrite (proj2 (mem_children_nil s0 q) Hk). reflexivity.
  Qed.

  Theorem remove_dir_deep (s0 s1 : mstate) hs (p : path) :
    wf s0 -> p <> [] -> user_path p -> no_collision p ->
    (is_Some (s0 !! p) -> s0 !! marker p = None) ->
    view s0 s1 p = Some NDir ->
    (forall n, view s0 s1 (p ++ [n]) = None) ->                       (* it shows no entries *)
    (s0 !! (whiteout_name :: p) = None \/ is_dir s0 (whiteout_name :: p)) ->
    Forall (not_file s0) (prefixes (removelast (marker p))) ->
    exists s0',
      run bhandler (ovl_impl top lower (CRemoveDir p)) (S2 s0 s1 hs) = (S2 s0' s1 (hs ++ [HClosed]), Ok tt) /\ wf s0' /\
      forall q, user_path q -> view s0' s1 q = if decide (q = p) then None else view s0 s1 q.
  Proof.
    intros Hwf Hp Hup Hnc Hinv Hv Hempty Hwdir Hfree.
    assert (Hmne : marker p <> p) by (apply user_marker_ne; exact Hup).
    assert (Hmnil : marker p <> []) by (unfold whiteout_path; destruct (reverse p); discriminate).
    assert (Hkids0 : forall n, s0 !! (p ++ [n]) = None).
    { intros n. specialize (Hempty n). apply view_none_cases in Hempty as [H _]. exact H. }
    assert (Hkids1 : forall n, is_Some (s1 !! (p ++ [n])) -> is_Some (s0 !! marker (p ++ [n]))).
    { intros n Hn. specialize (Hempty n). apply view_none_cases in Hempty as [_ [H|[_ H]]]; [exact H|].
      rewrite H in Hn. destruct Hn; discriminate. }
    assert (Hframe : forall s0', s0' !! p = None -> is_Some (s0' !! marker p) ->
               (forall q, q <> p -> q ∉ prefixes (marker p) -> s0' !! q = s0 !! q) ->
               forall q, user_path q -> view s0' s1 q = if decide (q = p) then None else view s0 s1 q).
    { intros s0' Hgone Hmark Hsame q [Hqh Hqn]. unfold view. destruct (decide (q = p)) as [->|Hne].
      - rewrite Hgone. rewrite bool_decide_eq_true_2 by exact Hmark. reflexivity.
      - assert (Hq1 : q ∉ prefixes (marker p)).
        { intros Hin. apply prefixes_head in Hin. rewrite marker_head in Hin. congruence. }
        assert (Hq2 : marker q ∉ prefixes (marker p)).
        { intros Hin. apply prefixes_cases in Hin as [Hin|Hin]; [exact (Hnc q Hin)| |exact Hmnil].
          apply Hne. apply (whiteout_path_inj top q p); [exact Hqn|apply Hup|exact Hin]. }
        assert (Hq3 : marker q <> p) by (intros E; destruct Hup as [Hh _]; rewrite <- E, marker_head in Hh; congruence).
        rewrite (Hsame q Hne Hq1), (Hsame (marker q) Hq3 Hq2). reflexivity. }
    apply view_dir_cases in Hv as [(g & Hg & Hgt)|(Hn & Hwo & Hlow)].
    - (* the write layer has the directory *)
      assert (Hwo : s0 !! marker p = None) by (apply Hinv; eauto).
      cbn [ovl_impl]. unfold bind_res at 1. rewrite run_bind, (read_path_rule hs lg ft s0 s1 p Hp).
      rewrite bool_decide_eq_true_2 by eauto.
      destruct (read_dir_rule hs lg ft s0 s1 p (proj2 Hwf) Hp Hwo (or_introl (ex_intro _ g (conj Hg Hgt))) Hwdir) as (l & Hrun & Hl).
      unfold bind_res at 1. rewrite run_bind, Hrun.
      assert (l = []) as ->.
      { apply elem_of_nil_inv. intros c Hc. apply Hl in Hc as [[[_ [x Hx]]|[_ Hc]] Hm].
        - rewrite Hkids0 in Hx. discriminate.
        - apply Hkids1 in Hc as [y Hy]. rewrite Hm in Hy. discriminate. }
      unfold write_path. cbn [fst snd app]. unfold bind_res at 1. rewrite run_bind, exists0, Hg.
      rewrite bool_decide_eq_true_2 by eauto.
      unfold bind_res at 1. rewrite run_bind, (remove_dir0 s0 s1 hs p g Hg Hgt Hkids0).
      assert (Hwf' : wf (delete p s0)).
      { destruct Hwf as [Hr Hpc]. split.
        - apply root_dir_delete; [exact Hp|exact Hr].
        - apply pc_delete; auto. }
      assert (Hwo' : delete p s0 !! marker p = None) by (rewrite lookup_delete_ne by congruence; exact Hwo).
      assert (Hfree' : Forall (not_file (delete p s0)) (prefixes (removelast (marker p)))).
      { eapply Forall_impl; [exact Hfree|]. intros q Hq f Hf. apply lookup_delete_Some in Hf as [_ Hf]. eauto. }
      destruct (set_whiteout0 lg ft (delete p s0) s1 hs p Hwf' Hwo' Hfree') as (s0' & Hrun' & Hm & Hsame & Hwf'').
      rewrite Hrun'. exists s0'. split; [reflexivity|]. split; [exact Hwf''|]. apply Hframe.
      + rewrite Hsame; [apply lookup_delete|]. intros Hin. apply prefixes_head in Hin. destruct Hup as [Hh _].
        rewrite marker_head in Hin. congruence.
      + exact Hm.
      + intros q Hqp Hq. rewrite (Hsame q Hq). apply lookup_delete_ne. congruence.
    - (* only the lower layer has it *)
      destruct (remove_lower_dir_sets_marker lg ft s0 s1 hs p Hwf Hp Hwo Hn Hlow Hwdir Hkids1 Hfree) as (s0' & Hrun & Hm & Hsame & Hwf').
      exists s0'. split; [exact Hrun|]. split; [exact Hwf'|]. apply Hframe; auto.
      rewrite Hsame; [exact Hn|]. intros Hin. apply prefixes_head in Hin. destruct Hup as [Hh _]. rewrite marker_head in Hin. congruence.
  Qed.

  Theorem remove_dir_keeps_tree (s0 s1 : mstate) hs (p : path) :
    wf s0 -> p <> [] -> user_path p -> no_collision p ->
    (is_Some (s0 !! p) -> s0 !! marker p = None) ->
    view s0 s1 p = Some NDir -> (forall n, view s0 s1 (p ++ [n]) = None) ->
    (s0 !! (whiteout_name :: p) = None \/ is_dir s0 (whiteout_name :: p)) ->
    Forall (not_file s0) (prefixes (removelast (marker p))) -> view_tree s0 s1 ->
    exists s0', run bhandler (ovl_impl top lower (CRemoveDir p)) (S2 s0 s1 hs) = (S2 s0' s1 (hs ++ [HClosed]), Ok tt) /\
                wf s0' /\ view_tree s0' s1.
  Proof.
    intros Hwf Hp Hup Hnc Hinv Hv Hempty Hwdir Hfree Htree.
    destruct (remove_dir_deep s0 s1 hs p Hwf Hp Hup Hnc Hinv Hv Hempty Hwdir Hfree) as (s0' & Hrun & Hwf' & Hview).
    exists s0'. split; [exact Hrun|]. split; [exact Hwf'|].
    intros q n Hu Hsome. pose proof (user_path_parent q n Hu) as Huq.
    rewrite (Hview (q ++ [n]) Hu) in Hsome. rewrite (Hview q Huq).
    destruct (decide (q ++ [n] = p)) as [E|E]; [destruct Hsome; discriminate|].
    pose proof (Htree q n Hu Hsome) as Hq. destruct (decide (q = p)) as [->|_]; [|exact Hq].
    rewrite Hempty in Hsome. destruct Hsome; discriminate.
  Qed.
  (** ** removing what the overlay does not show: not-found, nothing changes in either layer *)
  Theorem remove_absent (s0 s1 : mstate) hs (p : path) :
    p <> [] -> view s0 s1 p = None ->
    run bhandler (ovl_impl top lower (CRemoveFile p)) (S2 s0 s1 hs) = (S2 s0 s1 hs, fail ENotFound) /\
    run bhandler (ovl_impl top lower (CRemoveDir p)) (S2 s0 s1 hs) = (S2 s0 s1 hs, fail ENotFound).
  Proof.
    intros Hp Hv.
    assert (Hrp : run bhandler (read_path top lower p) (S2 s0 s1 hs) = (S2 s0 s1 hs, fail ENotFound)).
    { rewrite (read_path_rule hs lg ft s0 s1 p Hp). apply view_none_cases in Hv as [H0 [Hm|[Hm H1]]].
      - rewrite H0. rewrite (bool_decide_eq_false_2 (is_Some None)) by (intros [? ?]; discriminate).
        rewrite bool_decide_eq_true_2 by exact Hm. reflexivity.
      - rewrite H0, Hm, H1. rewrite (bool_decide_eq_false_2 (is_Some None)) by (intros [? ?]; discriminate). reflexivity. }
    split; cbn [ovl_impl]; unfold bind_res at 1; rewrite run_bind, Hrp; reflexivity.
  Qed.
  (** ** append_file on a file that only the lower layer has, at any depth: the parent chain and the file are
      copied up; the handle's buffer continues the lower layer's bytes; the view is unchanged (the copy shows
      the same bytes); the lower layer keeps its bytes (its access time is stamped by the read) *)
  Theorem append_lower_deep (s0 s1 : mstate) hs (p : path) f :
    wf s0 -> p <> [] -> reachable s0 s1 p ->
    s0 !! p = None -> s0 !! marker p = None -> s1 !! p = Some f -> f_type f = File ->
    exists s0',
      run bhandler (ovl_impl top lower (CAppendFile p)) (S2 s0 s1 hs) =
        (S2 s0' (<[p := touched f]> s1)
            (hs ++ [HClosed; HClosed; HMemWriter 0 p (f_content f) (Z.of_nat (length (f_content f)))]),
         Ok (length hs + 2)%nat) /\
      wf s0' /\
      forall q, user_path q -> view s0' (<[p := touched f]> s1) q = view s0 s1 q.
  Proof.
    intros Hwf Hp [Hup Hvis] Hup0 Hm Hlow Hty.
    destruct (ensure_parent_deep s0 s1 hs p Hwf Hp Hvis) as (sa & Hrun & Hpar & Hwfa & Hdirs & Hsame).
    pose proof (copyup_view s0 s1 sa (removelast p) (user_parent_head p Hup) Hvis Hdirs Hsame) as Hview.
    assert (Hpnot : p ∉ prefixes (removelast p)) by (apply not_prefix_of_parent; exact Hp).
    assert (Hmnot : marker p ∉ prefixes (removelast p)).
    { intros Hin. apply prefixes_head in Hin. rewrite marker_head in Hin.
      destruct (user_parent_head p Hup) as [E|E]; [rewrite E in Hin; discriminate|congruence]. }
    assert (Hsap : sa !! p = None) by (rewrite (Hsame p Hpnot); exact Hup0).
    assert (Hsam : sa !! marker p = None) by (rewrite (Hsame _ Hmnot); exact Hm).
    set (c := f_content f).
    cbn [ovl_impl]. unfold write_path. cbn [fst snd app].
    unfold bind_res at 1. rewrite run_bind, exists0, Hup0.
    rewrite bool_decide_eq_false_2 by (intros [? ?]; discriminate).
    unfold bind_res at 1. rewrite run_bind.
    unfold bind_res at 1. rewrite run_bind, Hrun.
    unfold bind_res at 1. rewrite run_bind, (read_path_rule hs lg ft sa s1 p Hp), Hsap, Hsam, Hlow.
    repeat (rewrite bool_decide_eq_false_2 by (intros [? ?]; discriminate)).
    rewrite bool_decide_eq_true_2 by eauto. cbn [fst snd].
    rewrite (copy_file_across lg ft sa s1 hs p p f Hlow Hty Hp Hpar Hsap). cbn [run].
    fold c.
    rewrite (append_file0 lg ft _ (<[p := touched f]> s1) _ p (fresh_file c)); [|apply lookup_insert|reflexivity].
    rewrite <- app_assoc. cbn [app length f_content fresh_file].
    rewrite app_length. cbn [length].
    exists (<[p := fresh_file c]> sa). split; [reflexivity|]. split.
    - destruct Hwfa as [Hr Hpc]. split; [apply root_dir_insert_ne; auto|]. apply pc_insert_leaf; auto. eapply absent_is_leaf; eauto.
    - intros q [Hqh Hqn]. rewrite <- (Hview q). unfold view.
      assert (Hmq : marker q <> p) by (intros E; destruct Hup as [Hh _]; rewrite <- E, marker_head in Hh; congruence).
      rewrite (lookup_insert_ne sa p (marker q)) by congruence.
      destruct (decide (q = p)) as [->|Hne].
      + rewrite lookup_insert, Hsap, Hsam, Hlow.
        rewrite bool_decide_eq_false_2 by (intros [? ?]; discriminate). cbn. unfold absf. cbn. now rewrite Hty.
      + rewrite !lookup_insert_ne by congruence. reflexivity.
  Qed.
  (** ** append_file on a DIRECTORY that only the lower layer has, at any depth: the call fails, and although
      it has copied the parent chain up it shows the same filesystem afterwards: no file appears at p, so the
      directory's children keep a directory for a parent; the lower layer is untouched, no handle is left *)
  Theorem append_lower_dir_fails (s0 s1 : mstate) hs (p : path) f :
    wf s0 -> p <> [] -> reachable s0 s1 p ->
    s0 !! p = None -> s0 !! marker p = None -> s1 !! p = Some f -> f_type f = Dir ->
    exists s0' e,
      run bhandler (ovl_impl top lower (CAppendFile p)) (S2 s0 s1 hs) = (S2 s0' s1 hs, Err e) /\
      wf s0' /\ s0' !! p = None /\
      forall q, user_path q -> view s0' s1 q = view s0 s1 q.
  Proof.
    intros Hwf Hp [Hup Hvis] Hup0 Hm Hlow Hty.
    destruct (ensure_parent_deep s0 s1 hs p Hwf Hp Hvis) as (sa & Hrun & Hpar & Hwfa & Hdirs & Hsame).
    pose proof (copyup_view s0 s1 sa (removelast p) (user_parent_head p Hup) Hvis Hdirs Hsame) as Hview.
    assert (Hpnot : p ∉ prefixes (removelast p)) by (apply not_prefix_of_parent; exact Hp).
    assert (Hmnot : marker p ∉ prefixes (removelast p)).
    { intros Hin. apply prefixes_head in Hin. rewrite marker_head in Hin.
      destruct (user_parent_head p Hup) as [E|E]; [rewrite E in Hin; discriminate|congruence]. }
    assert (Hsap : sa !! p = None) by (rewrite (Hsame p Hpnot); exact Hup0).
    assert (Hsam : sa !! marker p = None) by (rewrite (Hsame _ Hmnot); exact Hm).
    cbn [ovl_impl]. unfold write_path. cbn [fst snd app].
    unfold bind_res at 1. rewrite run_bind, exists0, Hup0.
    rewrite bool_decide_eq_false_2 by (intros [? ?]; discriminate).
    unfold bind_res at 1. rewrite run_bind.
    unfold bind_res at 1. rewrite run_bind, Hrun.
    unfold bind_res at 1. rewrite run_bind, (read_path_rule hs lg ft sa s1 p Hp), Hsap, Hsam, Hlow.
    repeat (rewrite bool_decide_eq_false_2 by (intros [? ?]; discriminate)).
    rewrite bool_decide_eq_true_2 by eauto. cbn [fst snd].
    destruct (copy_file_across_fails_early lg ft sa s1 hs p p) as (e & ->); [|exact Hsap|].
    { intros g Hg. rewrite Hlow in Hg. now inversion Hg; subst. }
    cbn [run]. exists sa, e. split; [reflexivity|]. split; [exact Hwfa|]. split; [exact Hsap|].
    intros q _. apply Hview.
  Qed.

  (** ** C10: what was deleted stays deleted across later operations on OTHER paths.
      [view_step p a b]: going from write-layer state a to b changes what the overlay shows at no path of the
      caller's namespace but p.  Each of the calls above is such a step for the path it names; along any chain of
      such steps the view at every path that no step names is constant - in particular a path that shows nothing
      (deleted, or never there) keeps showing nothing, and its marker-hidden lower-layer bytes stay hidden. *)
  Definition view_step (s1 : mstate) (p : path) (a b : mstate) : Prop :=
    forall q, user_path q -> q <> p -> view b s1 q = view a s1 q.

  Inductive view_chain (s1 : mstate) : mstate -> list path -> mstate -> Prop :=
  | VC_nil a : view_chain s1 a [] a
  | VC_cons a b c p ps : view_step s1 p a b -> view_chain s1 b ps c -> view_chain s1 a (p :: ps) c.

  Theorem chain_keeps_view (s1 a c : mstate) ps q :
    view_chain s1 a ps c -> user_path q -> q ∉ ps -> view c s1 q = view a s1 q.
  Proof.
    induction 1 as [a|a b c p ps Hstep _ IH]; intros Hq Hnin; [reflexivity|].
    rewrite IH; [|exact Hq|intros Hin; apply Hnin; now right].
    apply Hstep; [exact Hq|]. intros ->. apply Hnin. now left.
  Qed.

  Lemma eq_view_step (s1 : mstate) p a b (x : option node) :
    (forall q, user_path q -> view b s1 q = if decide (q = p) then x else view a s1 q) -> view_step s1 p a b.
  Proof. intros H q Hq Hne. rewrite (H q Hq). destruct (decide (q = p)); [contradiction|reflexivity]. Qed.
End Deep.

(** ** C10: a removed directory does not come back through a FAILING call below it.  append_file on a path below a
    directory that the overlay does not show (removed through the overlay: marker present, nothing in the write
    layer) fails before it copies anything up: both layers, the handle table and hence every view are unchanged *)
Section DeepFail.
  Variables (lg : list (nat * fscall)) (ft : option (nat * nat)).
  Notation S2 a b hs := (mstore2 a b hs lg ft).
  Notation top := (v0, @nil (list N)).
  Notation lower := [(v1, @nil (list N))].

  Theorem append_below_removed_dir (s0 s1 : mstate) hs (d : path) (n : name) :
    d <> [] -> s0 !! (d ++ [n]) = None -> s0 !! d = None -> is_Some (s0 !! whiteout_path top d) ->
    exists e, run bhandler (ovl_impl top lower (CAppendFile (d ++ [n]))) (S2 s0 s1 hs) = (S2 s0 s1 hs, Err e).
  Proof.
    intros Hd Hx Hd0 Hm.
    cbn [ovl_impl]. unfold write_path. cbn [fst snd app].
    unfold bind_res at 1. rewrite run_bind, exists0, Hx.
    rewrite bool_decide_eq_false_2 by (intros [? ?]; discriminate).
    unfold bind_res at 1. rewrite run_bind.
    unfold bind_res at 1. rewrite run_bind.
    unfold ovl_ensure_has_parent. destruct (d ++ [n]) as [|x r] eqn:E; [destruct d; discriminate|]. rewrite <- E.
    rewrite removelast_snoc. unfold bind_res at 1. rewrite run_bind.
    rewrite (exists_rule hs lg ft s0 s1 d Hd), Hd0.
    rewrite (bool_decide_eq_false_2 (is_Some None)) by (intros [? ?]; discriminate).
    rewrite (bool_decide_eq_true_2 (is_Some (s0 !! whiteout_path top d))) by exact Hm.
    cbn [orb negb andb run fail]. eexists. reflexivity.
  Qed.
End DeepFail.
