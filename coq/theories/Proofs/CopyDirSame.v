(** C11: copy_dir WITHIN one MemoryFS instance is exact - the common use.  Source and destination live in
    the same map: the walk reads the source subtree while the loop grows the destination subtree and the
    reads stamp access times.  The destination must not lie inside the source (the crate, like cp -r, would
    copy forever); then nothing the loop writes is a child of a directory the walk lists, and listings
    depend only on which children exist ([mem_children_ext]). *)
From stdpp Require Import gmap list sorting.
From Coq Require Import NArith ZArith Lia.
From VFS Require Import Core.Types Core.Prog Core.Calls Spec.Tree Base.MemFS Base.Handles Base.PhysFS Base.Embedded Base.Store
  Layer.VfsPath Proofs.ProgProofs Proofs.MemProofs Proofs.MemCalls Proofs.MemPublic Proofs.ConcProofs Proofs.Composite
  Proofs.WalkProofs Proofs.RemoveAll Proofs.CopyFile Proofs.SortNames Proofs.CopyDir.

Section CopyDirSame.
  Variables (lg : list (nat * fscall)) (ft : option (nat * nat)).
  Notation S s hs := (mstore s hs lg ft).
  Variable s : mstate.                      (* the filesystem before the call *)
  Hypothesis Hwf : wf s.
  Variables (p p' : path).
  Hypothesis Hpdir : is_dir s p.
  Hypothesis Hp'ne : p' <> [].
  Hypothesis Hp'free : s !! p' = None.
  Hypothesis Hp'par : is_dir s (removelast p').
  Hypothesis Hnotin : ~ below p p'.          (* the destination is not inside the source *)

  Notation tr := (tr p p').
  Definition s0i : mstate := <[p' := dirent]> s.   (* after the create_dir of the destination *)

  Lemma p'_not_p : p' <> p.
  Proof. intros ->. destruct Hpdir as (d & Hd & _). congruence. Qed.

  Lemma below_p'_absent q : below p' q -> s !! q = None.
  Proof.
    intros Hq. destruct (below_inv p' q Hq) as (n & r & ->).
    destruct (s !! (p' ++ n :: r)) as [x|] eqn:E; [|reflexivity]. exfalso.
    destruct (prefix_is_dir s Hwf p' (n :: r) ltac:(discriminate) ltac:(eauto)) as (d & Hd & _). congruence.
  Qed.

  (** the two subtrees are disjoint *)
  Lemma not_both q : (q = p \/ below p q) -> (q = p' \/ below p' q) -> False.
  Proof.
    intros [->|Hq] [Hq'|Hq'].
    - now apply p'_not_p.
    - (* p below p': but p exists and nothing exists below the absent p' *)
      destruct Hpdir as (d & Hd & _). rewrite (below_p'_absent p Hq') in Hd. discriminate.
    - subst q. contradiction.
    - (* q below both: one of p, p' is below the other or they are equal *)
      destruct Hq as [T1 L1], Hq' as [T2 L2].
      destruct (decide (length p < length p')) as [Hl|Hl].
      + apply Hnotin. split; [|exact Hl]. rewrite <- T2, take_take. rewrite Nat.min_l by lia. exact T1.
      + destruct (decide (length p = length p')) as [He|He].
        * apply p'_not_p. rewrite <- T1, <- T2, He. reflexivity.
        * assert (Hb : below p' p). { split; [|lia]. rewrite <- T1, take_take. rewrite Nat.min_l by lia. exact T2. }
          destruct Hpdir as (d & Hd & _). rewrite (below_p'_absent p Hb) in Hd. discriminate.
  Qed.

  Definition copied (done : list path) (sc : mstate) : Prop :=
    wf sc /\
    (forall y, y ∈ done -> exists f g, s !! y = Some f /\ sc !! tr y = Some g /\ absf g = absf f) /\
    (forall q, (forall y, y ∈ done -> q <> tr y) -> absf <$> (sc !! q) = absf <$> (s0i !! q)).

  Lemma s0i_region q : (q = p \/ below p q) -> s0i !! q = s !! q.
  Proof. intros Hq. unfold s0i. apply lookup_insert_ne. intros <-. eapply not_both; eauto. Qed.

  (** what the walk sees of the current state is what it would see of [s] *)
  Lemma region_lookup done sc q : Forall (below p) done -> copied done sc -> (q = p \/ below p q) ->
    absf <$> (sc !! q) = absf <$> (s !! q).
  Proof.
    intros Hb (_ & _ & Hout) Hq. rewrite <- (s0i_region q Hq). apply Hout.
    intros y Hy ->. rewrite Forall_forall in Hb. eapply not_both; [exact Hq|right; apply (below_tr p p'), Hb, Hy].
  Qed.

  Lemma region_children done sc d : Forall (below p) done -> copied done sc -> (d = p \/ below p d) ->
    mem_children sc d = mem_children s d.
  Proof.
    intros Hb Hc Hd. apply mem_children_ext. intros n.
    assert (Hq : d ++ [n] = p \/ below p (d ++ [n])).
    { right. destruct Hd as [->|Hd]; [apply below_app; discriminate|]. eapply below_trans; [exact Hd|]. apply below_app. discriminate. }
    pose proof (region_lookup done sc (d ++ [n]) Hb Hc Hq) as E.
    destruct (sc !! (d ++ [n])), (s !! (d ++ [n])); cbn in E; try discriminate; split; intros [? ?]; eauto; discriminate.
  Qed.

  Lemma region_dir done sc d : Forall (below p) done -> copied done sc -> (d = p \/ below p d) -> is_dir s d -> is_dir sc d.
  Proof.
    intros Hb Hc Hd (f & Hf & Hft). pose proof (region_lookup done sc d Hb Hc Hd) as E. rewrite Hf in E. cbn in E.
    destruct (sc !! d) as [g|] eqn:Eg; [|discriminate]. injection E as E. exists g. split; [exact Eg|].
    apply absf_is_dir. rewrite E. now apply absf_is_dir.
  Qed.

  Lemma run_walk_find_same done sc hs todo : Forall (below p) done -> copied done sc ->
    forall inner, Forall (fun d => is_dir s d /\ (d = p \/ below p d)) todo ->
    run bhandler (walk_find mv todo inner) (S sc hs) = (S sc hs, find_pure s todo inner).
  Proof.
    intros Hb Hc. induction todo as [|d todo IH]; intros inner Hd; destruct inner as [|x inner]; cbn [walk_find find_pure];
      try reflexivity.
    inversion Hd as [|? ? [Hdd Hdr] Hd']; subst.
    destruct (region_dir done sc d Hb Hc Hdr Hdd) as (g & Hg & Hgt).
    rewrite run_bind, call_read_dir, Hg, Hgt. rewrite (region_children done sc d Hb Hc Hdr). now apply IH.
  Qed.

  Lemma copied_p'_dir done sc : Forall (below p) done -> copied done sc -> is_dir sc p'.
  Proof.
    intros Hb (_ & _ & Hout). specialize (Hout p').
    assert (E : absf <$> (sc !! p') = absf <$> (s0i !! p')).
    { apply Hout. intros y Hy E. rewrite Forall_forall in Hb. pose proof (tr_longer p p' y (Hb y Hy)) as Hl. rewrite <- E in Hl. lia. }
    unfold s0i in E. rewrite lookup_insert in E. cbn in E.
    destruct (sc !! p') as [g|] eqn:Eg; [|discriminate]. injection E as E. exists g. split; [exact Eg|]. now apply absf_is_dir.
  Qed.

  (** one more entry, written into the SAME map (after the read stamped the source file) *)
  Lemma copied_step (done : list path) (sc : mstate) (x : path) (f g : memfile) (sc1 : mstate) :
    Forall (below p) done -> below p x -> x ∉ done -> copied done sc ->
    s !! x = Some f -> absf g = absf f ->
    (removelast x = p \/ removelast x ∈ done) ->
    wf sc1 -> (forall q, absf <$> (sc1 !! q) = absf <$> (sc !! q)) ->        (* sc1: sc after the stamp *)
    sc1 !! tr x = None /\ is_dir sc1 (removelast (tr x)) /\ copied (x :: done) (<[tr x := g]> sc1).
  Proof.
    intros Hb Hx Hnd Hc Hf Hg Hpar Hwf1 Hsame.
    pose proof (copied_p'_dir done sc Hb Hc) as Hp'd.
    destruct Hc as (Hwfc & Hdone & Hout).
    assert (Hlift : forall q, is_dir sc q -> is_dir sc1 q).
    { intros q (d & Hd & Hdt). specialize (Hsame q). rewrite Hd in Hsame. cbn in Hsame.
      destruct (sc1 !! q) as [d1|] eqn:E1; [|discriminate]. injection Hsame as Hs. exists d1. split; [exact E1|].
      apply absf_is_dir. rewrite Hs. now apply absf_is_dir. }
    assert (Hfree : sc1 !! tr x = None).
    { assert (E : absf <$> (sc1 !! tr x) = None).
      { rewrite Hsame, Hout.
        - unfold s0i. rewrite lookup_insert_ne.
          + rewrite (below_p'_absent (tr x) (below_tr p p' x Hx)). reflexivity.
          + intros E. pose proof (tr_longer p p' x Hx) as Hl. rewrite <- E in Hl. lia.
        - intros y Hy E. apply Hnd. rewrite Forall_forall in Hb. rewrite (tr_inj p p' x y Hx (Hb y Hy) E). exact Hy. }
      destruct (sc1 !! tr x); [discriminate|reflexivity]. }
    assert (Hpd : is_dir sc1 (removelast (tr x))).
    { apply Hlift. destruct (decide (removelast x = p)) as [E|E].
      - rewrite (tr_parent_top p p' x Hx E). exact Hp'd.
      - destruct Hpar as [Hpar|Hpar]; [congruence|]. destruct (tr_parent p p' x Hx E) as [Hbp ->].
        destruct (Hdone _ Hpar) as (fp & gp & Hfp & Hgp & Hab).
        assert (Hfd : is_dir s (removelast x)).
        { destruct (path_cases x) as [->|(q & n & ->)]; [destruct Hx as [_ Hl]; cbn in Hl; lia|].
          rewrite removelast_last. apply (prefix_is_dir s Hwf q [n]); [discriminate|eauto]. }
        destruct Hfd as (fd & Hfd & Hfdt). rewrite Hfp in Hfd. injection Hfd as <-.
        exists gp. split; [exact Hgp|]. apply absf_is_dir. rewrite Hab. now apply absf_is_dir. }
    split; [exact Hfree|]. split; [exact Hpd|].
    assert (Hne : tr x <> []).
    { intros E. pose proof (tr_longer p p' x Hx) as Hl. rewrite E in Hl. cbn in Hl. lia. }
    destruct Hwf1 as [Hr1 Hpc1].
    split; [|split].
    - split; [apply root_dir_insert_ne; auto|]. apply pc_insert_leaf; auto. eapply absent_is_leaf; eauto.
    - intros y Hy. apply elem_of_cons in Hy as [->|Hy].
      + exists f, g. rewrite lookup_insert. auto.
      + destruct (Hdone y Hy) as (fy & gy & Hfy & Hgy & Hab).
        assert (Hney : tr x <> tr y).
        { intros E. apply Hnd. rewrite Forall_forall in Hb. rewrite (tr_inj p p' x y Hx (Hb y Hy) E). exact Hy. }
        specialize (Hsame (tr y)). rewrite Hgy in Hsame. cbn in Hsame.
        destruct (sc1 !! tr y) as [gy1|] eqn:E1; [|discriminate]. injection Hsame as Hs.
        exists fy, gy1. split; [exact Hfy|]. split; [rewrite lookup_insert_ne by exact Hney; exact E1|congruence].
    - intros q Hq. rewrite lookup_insert_ne by (intros E; apply (Hq x); [left|symmetry; exact E]).
      rewrite Hsame. apply Hout. intros y Hy. apply Hq. now right.
  Qed.
  Lemma create_dir_same (sc : mstate) hs q :
    q <> [] -> is_dir sc (removelast q) -> sc !! q = None ->
    run bhandler (vp_create_dir mv q) (S sc hs) = (S (<[q := dirent]> sc) hs, Ok tt).
  Proof.
    intros Hq Hd Hn. rewrite call_create_dir. rewrite bool_decide_eq_true_2 by exact Hd.
    rewrite ms_create_dir. cbn [msec_sem]. rewrite (MemPublic.has_parent_true sc q Hq Hd), Hn. reflexivity.
  Qed.

  Lemma absf_file_content (g f : memfile) : absf g = absf f -> f_type f = File -> f_type g = File /\ f_content g = f_content f.
  Proof.
    unfold absf. intros E Hf. rewrite Hf in E. destruct (f_type g); [|discriminate]. injection E as E. auto.
  Qed.

  Lemma touch_same (sc : mstate) x g : wf sc -> sc !! x = Some g -> f_type g = File ->
    wf (<[x := touched g]> sc) /\ forall q, absf <$> (<[x := touched g]> sc !! q) = absf <$> (sc !! q).
  Proof.
    intros [Hr Hpc] Hg Hgt. split.
    - split; [apply (root_dir_update sc x g (touched g) Hr Hg)|apply (pc_update sc x g (touched g) Hpc Hg)]; cbn; now rewrite Hgt.
    - intros q. destruct (decide (q = x)) as [->|Hne]; [|rewrite lookup_insert_ne by congruence; reflexivity].
      rewrite lookup_insert, Hg. cbn. unfold absf. cbn. now rewrite Hgt.
  Qed.

  (** ** the loop, source and destination in one map *)
  Lemma copy_loop_same : forall n inner todo done cnt fuel sc hs,
    length (rest s inner todo) <= n -> n < fuel -> inv s p done inner todo ->
    done ++ rest s inner todo ≡ₚ desc s p -> copied done sc ->
    exists done' sc' hs',
      run bhandler (copy_entries fuel mv p mv p' (mkWalker inner todo) cnt) (S sc hs) =
        (S sc' hs', Ok (cnt + N.of_nat (length (rest s inner todo)))%N) /\
      done' ≡ₚ desc s p /\ copied done' sc'.
  Proof.
    induction n as [|n IH]; intros inner todo done cnt fuel sc hs Hlen Hfuel Hinv Hperm Hcop;
      (destruct fuel as [|fuel]; [lia|]); cbn [copy_entries]; unfold walk_next; cbn [w_todo w_inner];
      destruct (perm_facts s p done inner todo Hperm) as (Hb & Hnd & Hin);
      assert (Htodo_r : Forall (fun d => is_dir s d /\ (d = p \/ below p d)) todo)
        by (destruct Hinv as (Hd & _ & _ & Hdn); apply Forall_forall; intros d Hdi; rewrite Forall_forall in Hd, Hdn, Hb;
            split; [now apply Hd|right; apply Hb, Hdn, Hdi]);
      rewrite !run_bind, (run_walk_find_same done sc hs todo Hb Hcop inner Htodo_r);
      destruct (find_pure s todo inner) as [it [inner' todo']] eqn:Ef;
      destruct (find_inv s Hwf p done todo inner it inner' todo' Hinv Ef) as [[-> Hr]|(x & -> & Hr & Hi)].
    - exists done, sc, hs. cbn. rewrite Hr in *. cbn. rewrite N.add_0_r, app_nil_r in *. auto.
    - apply Permutation_length in Hr. unfold rest at 2 in Hr. cbn in Hr. lia.
    - exists done, sc, hs. cbn. rewrite Hr in *. cbn. rewrite N.add_0_r, app_nil_r in *. auto.
    - cbn [fst snd].
      destruct Hi as (Hd & Hex & Hpar & Hdone).
      inversion Hex as [|? ? [f Hf] Hex']; subst. inversion Hpar as [|? ? Hpx Hpar']; subst.
      set (todo'' := if isd s x then x :: todo' else todo').
      assert (Hrest : rest s (x :: inner') todo' ≡ₚ x :: rest s inner' todo'').
      { unfold rest, todo''. destruct (decide (isd s x = true)) as [E|E].
        - rewrite (filter_cons_True (fun x0 => isd s x0 = true) x inner' E), E. cbn [fdesc app]. apply Permutation_skip, Permutation_app_head.
          rewrite (Permutation_app_comm (desc s x)), <- app_assoc. reflexivity.
        - rewrite (filter_cons_False (fun x0 => isd s x0 = true) x inner' E). destruct (isd s x); [congruence|]. reflexivity. }
      assert (Hinv' : inv s p (x :: done) inner' todo'').
      { unfold todo''. split; [|split; [exact Hex'|split]].
        - destruct (isd s x) eqn:E; [|exact Hd]. constructor; [|exact Hd]. unfold isd in E. now apply bool_decide_eq_true in E.
        - eapply Forall_impl; [exact Hpar'|]. intros y [Hy|Hy]; [now left|right; now right].
        - destruct (isd s x); [constructor; [now left|]|]; (eapply Forall_impl; [exact Hdone|]; intros y Hy; now right). }
      assert (Hrx : rest s inner todo ≡ₚ x :: rest s inner' todo'') by (rewrite Hr; exact Hrest).
      assert (Hlen' : length (rest s inner' todo'') <= n).
      { apply Permutation_length in Hrx. cbn in Hrx. lia. }
      assert (Hperm' : (x :: done) ++ rest s inner' todo'' ≡ₚ desc s p).
      { rewrite <- Hperm, Hrx. cbn. rewrite (Permutation_middle done). reflexivity. }
      assert (Hxin : x ∈ rest s inner todo) by (rewrite Hrx; left).
      destruct (Hin x Hxin) as [Hbx _].
      assert (Hxnd : x ∉ done).
      { intros Hx. apply NoDup_app in Hnd as (_ & Hdisj & _). exact (Hdisj x Hx Hxin). }
      assert (Hcnt : (cnt + N.of_nat (length (rest s inner todo)) = cnt + 1 + N.of_nat (length (rest s inner' todo'')))%N).
      { apply Permutation_length in Hrx. rewrite Hrx. cbn [length]. rewrite Nat2N.inj_succ. lia. }
      rewrite Hcnt.
      assert (Hne : tr x <> []).
      { intros E. pose proof (tr_longer p p' x Hbx) as Hl. rewrite E in Hl. cbn in Hl. lia. }
      (* the entry as the current state holds it *)
      pose proof (region_lookup done sc x Hb Hcop (or_intror Hbx)) as Hlk. rewrite Hf in Hlk. cbn in Hlk.
      destruct (sc !! x) as [g|] eqn:Hg; [|discriminate]. injection Hlk as Hab.
      assert (Hgt : f_type g = f_type f) by (unfold absf in Hab; destruct (f_type g), (f_type f); congruence).
      rewrite run_bind, call_metadata, Hg. cbn [fst snd m_type mem_meta]. rewrite Hgt.
      assert (Hisd : isd s x = bool_decide (f_type f = Dir)) by exact (isd_type s x f Hf).
      destruct (f_type f) eqn:Et.
      + (* a file *)
        assert (Htodo : todo'' = todo') by (unfold todo''; rewrite Hisd, bool_decide_eq_false_2 by discriminate; reflexivity).
        rewrite Htodo in *. cbn [run fst snd]. fold (tr x).
        unfold bind_res at 1. rewrite run_bind, call_metadata, Hg. cbn [run mem_meta m_type]. rewrite Hgt.
        destruct (absf_file_content g f Hab Et) as [_ Hgc].
        destruct (copied_step done sc x f (fresh_file (f_content f)) sc Hb Hbx Hxnd Hcop Hf) as (Hfree & Hpd & _);
          [unfold absf; cbn; rewrite Et; reflexivity|exact Hpx|apply Hcop|reflexivity|].
        unfold bind_res at 1. rewrite run_bind, (copy_file_exact lg ft sc hs x (tr x) g Hg Hgt Hne Hfree Hpd). rewrite Hgc.
        destruct (touch_same sc x g (proj1 Hcop) Hg Hgt) as [Hwft Hsamet].
        destruct (copied_step done sc x f (fresh_file (f_content f)) (<[x := touched g]> sc) Hb Hbx Hxnd Hcop Hf) as (_ & _ & Hcop');
          [unfold absf; cbn; rewrite Et; reflexivity|exact Hpx|exact Hwft|exact Hsamet|].
        destruct (IH inner' todo' (x :: done) (cnt + 1)%N fuel _ (hs ++ [HClosed; HClosed]) Hlen' ltac:(lia) Hinv' Hperm' Hcop')
          as (done' & sc' & hs' & Hrun & Hd' & Hc').
        exists done', sc', hs'. split; [exact Hrun|]. split; [exact Hd'|exact Hc'].
      + (* a directory *)
        assert (Htodo : todo'' = x :: todo') by (unfold todo''; rewrite Hisd, bool_decide_eq_true_2 by reflexivity; reflexivity).
        rewrite Htodo in *. cbn [run fst snd w_inner w_todo]. fold (tr x).
        unfold bind_res at 1. rewrite run_bind, call_metadata, Hg. cbn [run mem_meta m_type]. rewrite Hgt.
        destruct (copied_step done sc x f dirent sc Hb Hbx Hxnd Hcop Hf) as (Hfree & Hpd & Hcop');
          [unfold absf; cbn; rewrite Et; reflexivity|exact Hpx|apply Hcop|reflexivity|].
        unfold bind_res at 1. rewrite run_bind, (create_dir_same sc hs (tr x) Hne Hpd Hfree).
        destruct (IH inner' (x :: todo') (x :: done) (cnt + 1)%N fuel _ hs Hlen' ltac:(lia) Hinv' Hperm' Hcop')
          as (done' & sc' & hs' & Hrun & Hd' & Hc').
        exists done', sc', hs'. split; [exact Hrun|]. split; [exact Hd'|exact Hc'].
  Qed.
End CopyDirSame.

(** ** copy_dir within one MemoryFS instance *)
Theorem copy_dir_same (lg : list (nat * fscall)) (ft : option (nat * nat)) (s : mstate) (hs : list hstate)
    (p p' : path) (fuel : nat) :
  wf s -> is_dir s p ->
  p' <> [] -> is_dir s (removelast p') -> s !! p' = None -> ~ below p p' ->
  length (desc s p) < fuel ->
  exists s' hs',
    run bhandler (vp_copy_dir fuel mv p mv p') (mstore s hs lg ft) =
      (mstore s' hs' lg ft, Ok (N.of_nat (length (desc s p)))) /\
    wf s' /\ is_dir s' p' /\
    (forall y, is_Some (s !! y) -> below p y -> absf <$> (s' !! tr p p' y) = absf <$> (s !! y)) /\
    (forall q, q <> p' -> ~ below p' q -> absf <$> (s' !! q) = absf <$> (s !! q)) /\
    (forall q, below p' q -> is_Some (s' !! q) -> exists y, is_Some (s !! y) /\ below p y /\ q = tr p p' y).
Proof.
  intros Hwf Hpd Hne Hpar Hfree Hnotin Hfuel.
  set (si := s0i s p').
  assert (Hwfi : wf si).
  { destruct Hwf as [Hr Hpc]. split; [apply root_dir_insert_ne; auto|]. apply pc_insert_dir; auto. }
  assert (Hcop : copied s p p' [] si).
  { split; [exact Hwfi|]. split; [intros y Hy; inversion Hy|reflexivity]. }
  unfold vp_copy_dir, relabel, labelled, bind_res. rewrite !run_bind, (call_exists hs lg ft s p'), Hfree.
  rewrite bool_decide_eq_false_2 by (intros [? ?]; discriminate).
  rewrite run_bind, (create_dir_same lg ft s hs p' Hne Hpar Hfree). fold (s0i s p'). fold si.
  unfold vp_walk_dir, bind_res. rewrite !run_bind, call_read_dir.
  destruct (region_dir s Hwf p p' Hpd Hne Hfree Hpar Hnotin [] si p (Forall_nil_2 _) Hcop (or_introl eq_refl) Hpd) as (g & Hg & Hgt).
  rewrite Hg, Hgt. cbn [run].
  rewrite (region_children s Hwf p p' Hpd Hne Hfree Hpar Hnotin [] si p (Forall_nil_2 _) Hcop (or_introl eq_refl)).
  assert (Hinv : inv s p [] (kids s p) []).
  { split; [constructor|]. split; [|split; [|constructor]].
    - apply Forall_forall. intros k Hk. apply elem_of_kids in Hk as (n & _ & Hs). exact Hs.
    - apply Forall_forall. intros k Hk. apply elem_of_kids in Hk as (n & -> & _). left. now rewrite removelast_last. }
  assert (Hrest : rest s (kids s p) [] ≡ₚ desc s p).
  { unfold rest. cbn [fdesc]. rewrite app_nil_r. symmetry. apply (desc_unfold s Hwf). }
  destruct (copy_loop_same lg ft s Hwf p p' Hpd Hne Hfree Hpar Hnotin (length (desc s p)) (kids s p) [] [] 0%N fuel si hs)
    as (done' & sc' & hs' & Hrun & Hd' & Hc'); [now rewrite Hrest|exact Hfuel|exact Hinv|exact Hrest|exact Hcop|].
  unfold kids in Hrun, Hrest. rewrite Hrun. rewrite (Permutation_length Hrest). cbn [run map_err]. rewrite N.add_0_l.
  exists sc', hs'. split; [reflexivity|].
  assert (Hb : Forall (below p) done').
  { apply Forall_forall. intros y Hy. rewrite Hd' in Hy. now apply elem_of_desc in Hy. }
  pose proof (copied_p'_dir s p p' done' sc' Hb Hc') as Hp'd.
  destruct Hc' as (Hwf' & Hdone & Hout).
  split; [exact Hwf'|]. split; [exact Hp'd|]. split; [|split].
  - intros y Hy Hby. assert (Hin : y ∈ done') by (rewrite Hd'; apply elem_of_desc; auto).
    destruct (Hdone y Hin) as (f & g' & Hf & Hg' & Hab). rewrite Hf, Hg'. cbn. now rewrite Hab.
  - intros q Hq Hnb. rewrite Hout.
    + unfold si, s0i. rewrite lookup_insert_ne by congruence. reflexivity.
    + intros y Hy ->. apply Hnb. apply below_tr. rewrite Forall_forall in Hb. now apply Hb.
  - intros q Hq Hsome. destruct (decide (q ∈ map (tr p p') done')) as [Hin|Hnin].
    + apply elem_of_list_fmap in Hin as (y & -> & Hy). exists y. rewrite Hd' in Hy. apply elem_of_desc in Hy as [Hy1 Hy2]. auto.
    + exfalso. assert (E : absf <$> (sc' !! q) = None).
      { rewrite Hout.
        - unfold si, s0i. rewrite lookup_insert_ne.
          + rewrite (below_p'_absent s Hwf p' Hfree q Hq). reflexivity.
          + intros E. destruct Hq as [_ Hl]. rewrite E in Hl. lia.
        - intros y Hy ->. apply Hnin. apply elem_of_list_fmap. eauto. }
      destruct Hsome as [z Hz]. rewrite Hz in E. discriminate.
Qed.

(** ** move_dir within one MemoryFS instance: the copy, then remove_dir_all of the source *)
Theorem move_dir_same (lg : list (nat * fscall)) (ft : option (nat * nat)) (s : mstate) (hs : list hstate)
    (p p' : path) (fuel : nat) :
  wf s -> p <> [] -> is_dir s p ->
  p' <> [] -> is_dir s (removelast p') -> s !! p' = None -> ~ below p p' ->
  length (desc s p) < fuel -> (forall k, k ∈ desc s p -> length k < length p + fuel) ->
  exists s' hs',
    run bhandler (vp_move_dir fuel mv p mv p') (mstore s hs lg ft) = (mstore s' hs' lg ft, Ok tt) /\
    wf s' /\ is_dir s' p' /\
    (forall y, is_Some (s !! y) -> below p y -> absf <$> (s' !! tr p p' y) = absf <$> (s !! y)) /\
    (forall q, under p q -> s' !! q = None) /\
    (forall q, q <> p' -> ~ below p' q -> ~ under p q -> absf <$> (s' !! q) = absf <$> (s !! q)) /\
    (forall q, below p' q -> is_Some (s' !! q) -> exists y, is_Some (s !! y) /\ below p y /\ q = tr p p' y).
Proof.
  intros Hwf Hpne Hpd Hne Hpar Hfree Hnotin Hfuel Hdepth.
  set (si := s0i s p').
  assert (Hwfi : wf si).
  { destruct Hwf as [Hr Hpc]. split; [apply root_dir_insert_ne; auto|]. apply pc_insert_dir; auto. }
  assert (Hcop : copied s p p' [] si).
  { split; [exact Hwfi|]. split; [intros y Hy; inversion Hy|reflexivity]. }
  unfold vp_move_dir, relabel, labelled, bind_res. rewrite !run_bind, (call_exists hs lg ft s p'), Hfree.
  rewrite bool_decide_eq_false_2 by (intros [? ?]; discriminate).
  unfold fast_path. cbn [v_id mv Nat.eqb].
  assert (Hns : run bhandler (v_impl mv (CMoveDir p p')) (mstore s hs lg ft) = (mstore s hs lg ft, fail ENotSupported)) by reflexivity.
  rewrite run_bind, Hns. unfold fail, err_of. cbn [e_kind].
  unfold bind_res. rewrite !run_bind, (create_dir_same lg ft s hs p' Hne Hpar Hfree). fold (s0i s p'). fold si.
  unfold vp_walk_dir, bind_res. rewrite !run_bind, call_read_dir.
  destruct (region_dir s Hwf p p' Hpd Hne Hfree Hpar Hnotin [] si p (Forall_nil_2 _) Hcop (or_introl eq_refl) Hpd) as (g & Hg & Hgt).
  rewrite Hg, Hgt. cbn [run].
  rewrite (region_children s Hwf p p' Hpd Hne Hfree Hpar Hnotin [] si p (Forall_nil_2 _) Hcop (or_introl eq_refl)).
  assert (Hinv : inv s p [] (kids s p) []).
  { split; [constructor|]. split; [|split; [|constructor]].
    - apply Forall_forall. intros k Hk. apply elem_of_kids in Hk as (n & _ & Hs). exact Hs.
    - apply Forall_forall. intros k Hk. apply elem_of_kids in Hk as (n & -> & _). left. now rewrite removelast_last. }
  assert (Hrest : rest s (kids s p) [] ≡ₚ desc s p).
  { unfold rest. cbn [fdesc]. rewrite app_nil_r. symmetry. apply (desc_unfold s Hwf). }
  destruct (copy_loop_same lg ft s Hwf p p' Hpd Hne Hfree Hpar Hnotin (length (desc s p)) (kids s p) [] [] 0%N fuel si hs)
    as (done' & sc' & hs' & Hrun & Hd' & Hc'); [now rewrite Hrest|exact Hfuel|exact Hinv|exact Hrest|exact Hcop|].
  unfold kids in Hrun. rewrite run_bind, Hrun. cbn [run].
  assert (Hb : Forall (below p) done').
  { apply Forall_forall. intros y Hy. rewrite Hd' in Hy. now apply elem_of_desc in Hy. }
  pose proof (copied_p'_dir s p p' done' sc' Hb Hc') as Hp'd.
  pose proof (region_dir s Hwf p p' Hpd Hne Hfree Hpar Hnotin done' sc' p Hb Hc' (or_introl eq_refl) Hpd) as Hpd'.
  assert (Hreg : forall q, under p q -> absf <$> (sc' !! q) = absf <$> (s !! q)).
  { intros q Hq. apply (region_lookup s Hwf p p' Hpd Hne Hfree Hpar Hnotin done' sc' q Hb Hc' Hq). }
  assert (Hdepth' : forall k, k ∈ desc sc' p -> length k < length p + fuel).
  { intros k Hk. apply Hdepth. apply elem_of_desc in Hk as [Hks Hkb]. apply elem_of_desc. split; [|exact Hkb].
    pose proof (Hreg k (or_intror Hkb)) as E. destruct Hks as [z Hz]. rewrite Hz in E. destruct (s !! k); [eauto|discriminate]. }
  destruct (remove_dir_all_exact hs' lg ft fuel sc' p (proj1 Hc') Hpne Hpd' Hdepth' ltac:(lia)) as (s' & Hrm & Hpr & Hwf').
  rewrite Hrm. cbn [run map_err].
  exists s', hs'. split; [reflexivity|]. split; [exact Hwf'|].
  destruct Hc' as (Hwfc & Hdone & Hout).
  assert (Hnu : forall q, (q = p' \/ below p' q) -> ~ Exists (fun c => under c q) [p]).
  { intros q Hq Hex. apply Exists_cons in Hex as [Hu|Hex]; [|inversion Hex].
    eapply (not_both s Hwf p p' Hpd Hne Hfree Hpar Hnotin q); [exact Hu|exact Hq]. }
  split; [|split; [|split; [|split]]].
  - destruct Hp'd as (d & Hd & Hdt). exists d. split; [|exact Hdt]. rewrite (Hpr p'). rewrite decide_False by (apply Hnu; now left). exact Hd.
  - intros y Hy Hby. assert (Hin : y ∈ done') by (rewrite Hd'; apply elem_of_desc; auto).
    destruct (Hdone y Hin) as (f & g' & Hf & Hg' & Hab).
    rewrite (Hpr (tr p p' y)). rewrite decide_False by (apply Hnu; right; apply below_tr, Hby).
    rewrite Hf, Hg'. cbn. now rewrite Hab.
  - intros q Hq. rewrite (Hpr q). rewrite decide_True by (constructor; exact Hq). reflexivity.
  - intros q Hq Hnb Hnu'. rewrite (Hpr q). rewrite decide_False by (intros Hex; apply Exists_cons in Hex as [Hu|Hex]; [contradiction|inversion Hex]).
    rewrite Hout.
    + unfold si, s0i. rewrite lookup_insert_ne by congruence. reflexivity.
    + intros y Hy ->. apply Hnb. apply below_tr. rewrite Forall_forall in Hb. now apply Hb.
  - intros q Hq Hsome. rewrite (Hpr q) in Hsome. rewrite decide_False in Hsome by (apply Hnu; now right).
    destruct (decide (q ∈ map (tr p p') done')) as [Hin|Hnin].
    + apply elem_of_list_fmap in Hin as (y & -> & Hy). exists y. rewrite Hd' in Hy. apply elem_of_desc in Hy as [Hy1 Hy2]. auto.
    + exfalso. assert (E : absf <$> (sc' !! q) = None).
      { rewrite Hout.
        - unfold si, s0i. rewrite lookup_insert_ne.
          + rewrite (below_p'_absent s Hwf p' Hfree q Hq). reflexivity.
          + intros E. destruct Hq as [_ Hl]. rewrite E in Hl. lia.
        - intros y Hy ->. apply Hnin. apply elem_of_list_fmap. eauto. }
      destruct Hsome as [z Hz]. rewrite Hz in E. discriminate.
Qed.
