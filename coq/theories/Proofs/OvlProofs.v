(** OverlayFS: whiteout markers (C10) and the resolution rule of the union view (C09). *)
From stdpp Require Import gmap list.
From Coq Require Import NArith ZArith Lia.
From VFS Require Import Core.Types Core.Prog Core.Calls Base.MemFS Base.Handles Base.PhysFS Base.Embedded Base.Store
  Layer.VfsPath Layer.Overlay Proofs.ProgProofs Proofs.MemProofs Proofs.MemCalls Proofs.Leaves.

(** ** markers *)
Lemma whiteout_path_inj (top : vfs * list (list N)) p q :
  Forall (fun n => n <> []) p -> Forall (fun n => n <> []) q ->
  whiteout_path top p = whiteout_path top q -> p = q.
Proof.
  intros Hp Hq. unfold whiteout_path.
  destruct (reverse p) as [|n rp] eqn:Ep; destruct (reverse q) as [|m rq] eqn:Eq.
  - apply (f_equal reverse) in Ep, Eq. rewrite reverse_involutive in Ep, Eq. now subst.
  - intros H. apply app_inv_head in H. cbn in H. exfalso.
    injection H as H. destruct (reverse rq) as [|x r']; cbn in H.
    + injection H as H. assert (m = []) by (apply (f_equal length) in H; rewrite app_length in H; destruct m; [reflexivity|cbn in H; lia]). subst m.
      apply (f_equal reverse) in Eq. rewrite reverse_involutive, reverse_cons in Eq. subst q.
      apply Forall_app in Hq as [_ Hq]. inversion Hq; congruence.
    + destruct r'; discriminate.
  - intros H. apply app_inv_head in H. cbn in H. exfalso.
    injection H as H. destruct (reverse rp) as [|x r']; cbn in H.
    + injection H as H. assert (n = []) by (apply (f_equal length) in H; rewrite app_length in H; destruct n; [reflexivity|cbn in H; lia]). subst n.
      apply (f_equal reverse) in Ep. rewrite reverse_involutive, reverse_cons in Ep. subst p.
      apply Forall_app in Hp as [_ Hp]. inversion Hp; congruence.
    + destruct r'; discriminate.
  - intros H. apply app_inv_head in H. cbn in H. injection H as H.
    apply app_inj_tail in H as [H1 H2]. apply app_inv_tail in H2. subst.
    apply (f_equal reverse) in H1. rewrite !reverse_involutive in H1. subst rq.
    rewrite <- Eq in Ep. apply (f_equal reverse) in Ep. now rewrite !reverse_involutive in Ep.
Qed.

Section Markers.
  Context {S : Type}.
  Variable h : handler brep S.
  Variable top : vfs * list (list N).
  Variable lower : list (vfs * list (list N)).

  (** while the marker of a path is present and the write layer does not hold the path itself, the
      path is absent from every observation, whatever the lower layers contain (a marker hides the
      lower layers; an entry of the write layer is newer than a marker) *)
  Lemma marker_read_path p s s0 s1 :
    p <> [] ->
    run h (vp_exists (fst top) (write_path top p)) s = (s0, Ok false) ->
    run h (vp_exists (fst top) (whiteout_path top p)) s0 = (s1, Ok true) ->
    run h (read_path top lower p) s = (s1, fail ENotFound).
  Proof.
    intros Hp Hu H. unfold read_path. destruct p as [|x p']; [congruence|].
    unfold bind_res. rewrite run_bind, Hu. rewrite run_bind, H. reflexivity.
  Qed.

  Lemma marker_exists p s s0 s1 :
    p <> [] ->
    run h (vp_exists (fst top) (write_path top p)) s = (s0, Ok false) ->
    run h (vp_exists (fst top) (whiteout_path top p)) s0 = (s1, Ok true) ->
    run h (ovl_exists top lower p) s = (s1, Ok false).
  Proof. intros Hp Hu H. unfold ovl_exists. rewrite run_bind, (marker_read_path p s s0 s1 Hp Hu H). reflexivity. Qed.

  Lemma marker_metadata p s s0 s1 :
    p <> [] ->
    run h (vp_exists (fst top) (write_path top p)) s = (s0, Ok false) ->
    run h (vp_exists (fst top) (whiteout_path top p)) s0 = (s1, Ok true) ->
    run h (ovl_metadata top lower p) s = (s1, fail ENotFound).
  Proof.
    intros Hp Hu H. unfold ovl_metadata, bind_res. rewrite run_bind, (marker_read_path p s s0 s1 Hp Hu H). reflexivity.
  Qed.

  Lemma marker_open_file p s s0 s1 :
    p <> [] ->
    run h (vp_exists (fst top) (write_path top p)) s = (s0, Ok false) ->
    run h (vp_exists (fst top) (whiteout_path top p)) s0 = (s1, Ok true) ->
    run h (ovl_impl top lower (COpenFile p)) s = (s1, fail ENotFound).
  Proof.
    intros Hp Hu H. cbn [ovl_impl]. unfold bind_res. rewrite run_bind, (marker_read_path p s s0 s1 Hp Hu H). reflexivity.
  Qed.

  Lemma marker_read_dir p s s0 s1 :
    p <> [] ->
    run h (vp_exists (fst top) (write_path top p)) s = (s0, Ok false) ->
    run h (vp_exists (fst top) (whiteout_path top p)) s0 = (s1, Ok true) ->
    run h (ovl_read_dir top lower p) s = (s1, fail ENotFound).
  Proof.
    intros Hp Hu H. unfold ovl_read_dir, bind_res. rewrite run_bind, (marker_read_path p s s0 s1 Hp Hu H). reflexivity.
  Qed.
End Markers.

(** ** the bookkeeping directory is never listed *)
Lemma remove_name_not_in n l : n ∉ remove_name n l.
Proof. unfold remove_name. rewrite elem_of_list_filter. tauto. Qed.

Lemma remove_name_elem n m l : m ∈ remove_name n l <-> m <> n /\ m ∈ l.
Proof. unfold remove_name. now rewrite elem_of_list_filter. Qed.

Lemma root_listing_hides_markers top lower :
  leaves (fun _ _ => True) (fun r => match r with Ok l => whiteout_name ∉ l | _ => True end)
         (ovl_read_dir top lower []).
Proof.
  unfold ovl_read_dir.
  eapply leaves_bind_res with (Q := fun _ => True); [eapply leaves_weaken; [|apply leaves_true]; now intros [?|?|]|].
  intros lp _.
  eapply leaves_bind_res with (Q := fun _ => True); [eapply leaves_weaken; [|apply leaves_true]; now intros [?|?|]|].
  intros md _. destruct (m_type md); [constructor; exact I|].
  eapply leaves_bind_res with (Q := fun _ => True); [eapply leaves_weaken; [|apply leaves_true]; now intros [?|?|]|].
  intros entries _.
  eapply leaves_bind_res with (Q := fun _ => True); [eapply leaves_weaken; [|apply leaves_true]; now intros [?|?|]|].
  intros wex _.
  eapply leaves_bind_res with (Q := fun _ => True); [eapply leaves_weaken; [|apply leaves_true]; now intros [?|?|]|].
  intros entries' _. constructor. rewrite sort_names_elem. apply remove_name_not_in.
Qed.

(** subtracting the markers of a directory: a name whose marker is listed is not listed *)
Lemma subtract_markers (entries : list (list N)) (markers : list (list (list N))) x :
  (exists q, q ∈ markers /\ last q = Some (x ++ wo_suffix)) ->
  x ∉ foldl (fun a q => match last q with
                        | Some n => if ends_with_wo n then remove_name (strip_wo n) a else a
                        | None => a
                        end) entries markers.
Proof.
  assert (Hstrip : strip_wo (x ++ wo_suffix) = x).
  { unfold strip_wo. rewrite app_length. cbn. replace (length x + 3 - 3)%nat with (length x) by lia.
    now rewrite take_app. }
  assert (Hends : ends_with_wo (x ++ wo_suffix) = true).
  { unfold ends_with_wo. apply bool_decide_eq_true. rewrite app_length. cbn. split; [|lia].
    replace (length x + 3 - 3)%nat with (length x) by lia. now rewrite drop_app. }
  assert (Hmono : forall ms a, x ∉ a -> x ∉ foldl (fun a q => match last q with
                        | Some n => if ends_with_wo n then remove_name (strip_wo n) a else a
                        | None => a end) a ms).
  { induction ms as [|q ms IH]; intros a Ha; cbn; [exact Ha|]. apply IH.
    destruct (last q) as [n|]; [|exact Ha]. destruct (ends_with_wo n); [|exact Ha].
    rewrite remove_name_elem. tauto. }
  revert entries. induction markers as [|q ms IH]; intros entries (q0 & Hin & Hl); [now apply elem_of_nil in Hin|].
  cbn [foldl]. apply elem_of_cons in Hin as [->|Hin].
  - rewrite Hl, Hends, Hstrip. apply Hmono, remove_name_not_in.
  - apply IH. eauto.
Qed.

(** ** the resolution rule over two MemoryFS layers (C09) *)
Notation mstate := (gmap (list (list N)) memfile).
Definition mstore2 (s0 s1 : mstate) (hs : list hstate) (lg : list (nat * fscall)) (ft : option (nat * nat)) : store :=
  mkStore [BMem s0; BMem s1] hs lg ft IoOff.
Definition v0 : vfs := mkVfs 0 (fun c => Call (BFs 0 c) Ret).
Definition v1 : vfs := mkVfs 1 (fun c => Call (BFs 1 c) Ret).

Section TwoLayers.
  Variables (hs : list hstate) (lg : list (nat * fscall)) (ft : option (nat * nat)).
  Notation S2 a b := (mstore2 a b hs lg ft).
  Notation top := (v0, @nil (list N)).
  Notation lower := [(v1, @nil (list N))].

  Lemma exists0 (s0 s1 : mstate) p :
    run bhandler (vp_exists v0 p) (S2 s0 s1) = (S2 s0 s1, Ok (bool_decide (is_Some (s0 !! p)))).
  Proof. reflexivity. Qed.
  Lemma exists1 (s0 s1 : mstate) p :
    run bhandler (vp_exists v1 p) (S2 s0 s1) = (S2 s0 s1, Ok (bool_decide (is_Some (s1 !! p)))).
  Proof. reflexivity. Qed.

  (** a path is served from the upper layer if it is there; else, unless its marker is present, from
      the lower one; resolving changes nothing *)
  Theorem read_path_rule (s0 s1 : mstate) p : p <> [] ->
    run bhandler (read_path top lower p) (S2 s0 s1) =
    (S2 s0 s1,
     if bool_decide (is_Some (s0 !! p)) then Ok (v0, p)
     else if bool_decide (is_Some (s0 !! whiteout_path top p)) then fail ENotFound
     else if bool_decide (is_Some (s1 !! p)) then Ok (v1, p)
     else fail ENotFound).
  Proof.
    intros Hp. unfold read_path. destruct p as [|x p']; [congruence|]. set (p := x :: p').
    unfold bind_res, write_path. cbn [fst snd app]. rewrite run_bind, exists0.
    destruct (bool_decide (is_Some (s0 !! p))) eqn:E0; [reflexivity|].
    rewrite run_bind, exists0.
    destruct (bool_decide (is_Some (s0 !! whiteout_path top p))); [reflexivity|].
    rewrite run_bind. cbn [first_layer fst snd app]. unfold bind_res.
    rewrite run_bind, exists1.
    destruct (bool_decide (is_Some (s1 !! p))) eqn:E1; reflexivity.
  Qed.

  Theorem exists_rule (s0 s1 : mstate) p : p <> [] ->
    run bhandler (ovl_exists top lower p) (S2 s0 s1) =
    (S2 s0 s1, Ok (bool_decide (is_Some (s0 !! p)) ||
                   (negb (bool_decide (is_Some (s0 !! whiteout_path top p))) && bool_decide (is_Some (s1 !! p))))).
  Proof.
    intros Hp. unfold ovl_exists. rewrite run_bind, (read_path_rule s0 s1 p Hp).
    destruct (bool_decide (is_Some (s0 !! p))) eqn:E0.
    - cbn [fst snd orb]. rewrite exists0, E0. reflexivity.
    - destruct (bool_decide (is_Some (s0 !! whiteout_path top p))) eqn:Ew; [reflexivity|].
      destruct (bool_decide (is_Some (s1 !! p))) eqn:E1.
      + cbn [fst snd]. rewrite exists1, E1. reflexivity.
      + reflexivity.
  Qed.
End TwoLayers.
