(** The public path API on a MemoryFS instance refines the abstract tree (C01, C03). *)
From stdpp Require Import gmap list.
From Coq Require Import NArith ZArith Lia.
From VFS Require Import Core.Types Core.Prog Core.Calls Base.MemFS Base.Handles Base.PhysFS Base.Embedded Base.Store
  Layer.VfsPath Spec.Tree Proofs.ProgProofs Proofs.MemProofs Proofs.MemCalls.

Notation mstate := (gmap (list (list N)) memfile).
Arguments mem_step : simpl never.

(** a store whose base 0 is a MemoryFS, and the instance that talks to it directly *)
Definition mstore (s : mstate) (hs : list hstate) (lg : list (nat * fscall)) (ft : option (nat * nat)) : store :=
  mkStore [BMem s] hs lg ft IoOff.
Definition mv : vfs := mkVfs 0 (fun c => Call (BFs 0 c) Ret).

(** the abstraction function: forget timestamps *)
Definition absf (f : memfile) : node :=
  match f_type f with Dir => NDir | File => NFile (f_content f) end.
Definition abs (s : mstate) : tree := absf <$> s.

Lemma abs_lookup (s : mstate) p : abs s !! p = absf <$> (s !! p).
Proof. unfold abs. apply lookup_fmap. Qed.

Lemma abs_dir (s : mstate) p : abs s !! p = Some NDir <-> is_dir s p.
Proof.
  rewrite abs_lookup. unfold is_dir, absf. split.
  - destruct (s !! p) as [f|]; cbn; [|discriminate]. destruct (f_type f) eqn:E; [discriminate|]. eauto.
  - intros (d & -> & Ht). cbn. now rewrite Ht.
Qed.

Lemma abs_none (s : mstate) p : abs s !! p = None <-> s !! p = None.
Proof. rewrite abs_lookup. destruct (s !! p); cbn; split; congruence. Qed.

Lemma abs_wf (s : mstate) : wf s -> t_wf (abs s).
Proof.
  intros [Hr Hpc]. split; [now apply abs_dir|].
  intros p n x Hx. apply abs_dir. rewrite abs_lookup in Hx.
  destruct (s !! (p ++ [n])) as [f|] eqn:E; [|discriminate]. eapply Hpc, E.
Qed.

(** ** running one trait call against the store *)
Section Calls.
  Variables (hs : list hstate) (lg : list (nat * fscall)) (ft : option (nat * nat)).
  Notation S s := (mstore s hs lg ft).

  Lemma call_exists (s : mstate) p :
    run bhandler (vp_exists mv p) (S s) = (S s, Ok (bool_decide (is_Some (s !! p)))).
  Proof. reflexivity. Qed.

  Lemma call_metadata (s : mstate) p :
    run bhandler (vp_metadata mv p) (S s) =
    (S s, match s !! p with Some f => Ok (mem_meta f) | None => Err (mkErr ENotFound (PPath p)) end).
  Proof.
    cbn. unfold mem_fs_call. rewrite mem_metadata. cbn. destruct (s !! p); reflexivity.
  Qed.

  (** get_parent: the parent must be an existing directory; the state is untouched *)
  Lemma call_get_parent (s : mstate) p :
    run bhandler (vp_get_parent mv p) (S s) =
    (S s, if bool_decide (is_dir s (removelast p)) then Ok tt else Err (mkErr EOther (PPath p))).
  Proof.
    unfold vp_get_parent, bind_res. rewrite run_bind, call_exists.
    destruct (s !! removelast p) as [d|] eqn:E.
    - rewrite bool_decide_eq_true_2 by eauto. cbn [negb].
      rewrite run_bind, call_metadata, E. cbn [run mem_meta m_type].
      destruct (f_type d) eqn:Ht.
      + rewrite bool_decide_eq_false_2; [reflexivity|]. intros (d' & Hd & Hdt). congruence.
      + rewrite bool_decide_eq_true_2; [reflexivity|]. exists d. auto.
    - rewrite bool_decide_eq_false_2 by (intros [? ?]; congruence). cbn [negb run ret_err].
      rewrite bool_decide_eq_false_2; [reflexivity|]. intros (d' & Hd & _). congruence.
  Qed.

  Lemma call_create_dir_raw (s : mstate) p :
    run bhandler (labelled (v_impl mv (CCreateDir p)) p) (S s) =
    (S (fst (mem_step (CCreateDir p) s)), map_err (snd (mem_step (CCreateDir p) s)) (fun e => with_path e (PPath p))).
  Proof. cbn. unfold mem_fs_call. destruct (mem_step (CCreateDir p) s) as [s' r]. reflexivity. Qed.

  Lemma call_create_dir (s : mstate) p :
    run bhandler (vp_create_dir mv p) (S s) =
    if bool_decide (is_dir s (removelast p)) then
      (S (fst (mem_step (CCreateDir p) s)), map_err (snd (mem_step (CCreateDir p) s)) (fun e => with_path e (PPath p)))
    else (S s, Err (mkErr EOther (PPath p))).
  Proof.
    unfold vp_create_dir, bind_res. rewrite run_bind, call_get_parent.
    case_bool_decide; [apply call_create_dir_raw|reflexivity].
  Qed.

  Lemma call_remove_file (s : mstate) p :
    run bhandler (vp_remove_file mv p) (S s) =
    (S (fst (mem_step (CRemoveFile p) s)), map_err (snd (mem_step (CRemoveFile p) s)) (fun e => with_path e (PPath p))).
  Proof. cbn. unfold mem_fs_call. destruct (mem_step (CRemoveFile p) s) as [s' r]. reflexivity. Qed.

  Lemma call_remove_dir (s : mstate) p :
    run bhandler (vp_remove_dir mv p) (S s) =
    (S (fst (mem_step (CRemoveDir p) s)), map_err (snd (mem_step (CRemoveDir p) s)) (fun e => with_path e (PPath p))).
  Proof. cbn. unfold mem_fs_call. destruct (mem_step (CRemoveDir p) s) as [s' r]. reflexivity. Qed.

  Lemma call_read_dir (s : mstate) p :
    run bhandler (vp_read_dir mv p) (S s) =
    (S s, match s !! p with
          | None => Err (mkErr ENotFound (PPath p))
          | Some f => match f_type f with
                      | File => Err (mkErr EOther (PPath p))
                      | Dir => Ok (map (fun n => p ++ [n]) (mem_children s p))
                      end
          end).
  Proof.
    cbn. unfold mem_fs_call. rewrite mem_read_dir. cbn.
    destruct (s !! p) as [f|]; [destruct (f_type f)|]; reflexivity.
  Qed.

  Lemma call_set_mtime (s : mstate) p t :
    run bhandler (vp_set_mtime mv p t) (S s) =
    (S (fst (mem_step (CSetMTime p t) s)), map_err (snd (mem_step (CSetMTime p t) s)) (fun e => with_path e (PPath p))).
  Proof. cbn. unfold mem_fs_call. destruct (mem_step (CSetMTime p t) s) as [s' r]. reflexivity. Qed.
End Calls.

(** ** refinement of each primitive of the path API to its contract *)
Section Refine.
  Variables (hs : list hstate) (lg : list (nat * fscall)) (ft : option (nat * nat)).
  Notation S s := (mstore s hs lg ft).

  Lemma parent_dir_abs (s : mstate) p : parent_dir (abs s) p <-> p <> [] /\ is_dir s (removelast p).
  Proof. unfold parent_dir. now rewrite abs_dir. Qed.

  Lemma abs_insert (s : mstate) p f : abs (<[p := f]> s) = <[p := absf f]> (abs s).
  Proof. unfold abs. apply fmap_insert. Qed.
  Lemma abs_delete (s : mstate) p : abs (delete p s) = delete p (abs s).
  Proof. unfold abs. apply fmap_delete. Qed.

  Lemma abs_update_same (s : mstate) p f g :
    s !! p = Some f -> absf g = absf f -> abs (<[p := g]> s) = abs s.
  Proof.
    intros Hf Hg. rewrite abs_insert, Hg. apply insert_id. rewrite abs_lookup, Hf. reflexivity.
  Qed.

  Lemma has_parent_true (s : mstate) p : p <> [] -> is_dir s (removelast p) -> has_parent s p = true.
  Proof.
    intros Hne (d & Hd & Ht). unfold has_parent. destruct p; [congruence|]. now rewrite Hd, Ht.
  Qed.

  Theorem refine_create_dir (s : mstate) p : wf s ->
    exists s' r, run bhandler (vp_create_dir mv p) (S s) = (S s', r) /\
                 abs s' = fst (spec_create_dir (abs s) p) /\
                 class_of r = snd (spec_create_dir (abs s) p) /\ wf s'.
  Proof.
    intros Hwf. rewrite call_create_dir. unfold spec_create_dir.
    case_bool_decide as Hpar.
    - rewrite ms_create_dir. cbn [msec_sem].
      destruct (decide (p = [])) as [->|Hne].
      { (* the root: MemoryFS refuses *)
        exists s. eexists. split; [reflexivity|]. cbn [fst snd map_err has_parent].
        rewrite decide_False by (intros [H _]; congruence). auto. }
      rewrite decide_True by (apply parent_dir_abs; auto).
      rewrite (has_parent_true s p Hne Hpar). rewrite abs_lookup.
      destruct (s !! p) as [f|] eqn:E; cbn [fst snd fmap option_fmap option_map].
      + exists s. eexists. split; [reflexivity|]. unfold absf.
        destruct (f_type f); cbn; auto.
      + exists (<[p := mkMemFile Dir [] TAuto (Some TAuto) (Some TAuto)]> s). eexists.
        split; [reflexivity|]. cbn. rewrite abs_insert. repeat split; auto.
        * destruct Hwf as [Hr Hpc]. apply root_dir_insert_ne; auto.
        * destruct Hwf as [Hr Hpc]. apply pc_insert_dir; auto.
    - exists s. eexists. split; [reflexivity|].
      rewrite decide_False by (rewrite parent_dir_abs; tauto). cbn. auto.
  Qed.

  Theorem refine_remove_file (s : mstate) p : wf s ->
    exists s' r, run bhandler (vp_remove_file mv p) (S s) = (S s', r) /\
                 abs s' = fst (spec_remove_file (abs s) p) /\
                 class_of r = snd (spec_remove_file (abs s) p) /\ wf s'.
  Proof.
    intros Hwf. rewrite call_remove_file, ms_remove_file. unfold spec_remove_file.
    cbn [msec_sem]. rewrite abs_lookup.
    destruct (s !! p) as [f|] eqn:E; cbn [fmap option_fmap option_map].
    - unfold absf. destruct (f_type f) eqn:Ht; cbn [fst snd].
      + exists (delete p s). eexists. split; [reflexivity|]. rewrite abs_delete. repeat split; auto.
        * destruct Hwf as [Hr Hpc]. apply root_dir_delete; auto. eapply not_root_of_file; eauto.
        * destruct Hwf as [Hr Hpc]. apply pc_delete; auto. eapply file_is_leaf; eauto.
      + exists s. eexists. split; [reflexivity|]. cbn. auto.
    - exists s. eexists. split; [reflexivity|]. cbn. auto.
  Qed.

  Theorem refine_remove_dir (s : mstate) p : wf s -> p <> [] ->
    exists s' r, run bhandler (vp_remove_dir mv p) (S s) = (S s', r) /\
                 abs s' = fst (spec_remove_dir (abs s) p (bool_decide (mem_children s p = []))) /\
                 class_of r = snd (spec_remove_dir (abs s) p (bool_decide (mem_children s p = []))) /\ wf s'.
  Proof.
    intros Hwf Hne. rewrite call_remove_dir, ms_remove_dir. unfold spec_remove_dir.
    cbn [msec_sem]. rewrite abs_lookup.
    destruct (s !! p) as [f|] eqn:E; cbn [fmap option_fmap option_map fst snd].
    - unfold absf. destruct (f_type f) eqn:Ht; cbn [fst snd].
      + exists s. eexists. split; [reflexivity|]. cbn. auto.
      + destruct (mem_children s p) as [|n l] eqn:Ec; cbn [snd fst].
        * rewrite bool_decide_eq_true_2 by reflexivity.
          exists (delete p s). eexists. split; [reflexivity|]. rewrite abs_delete. repeat split; auto.
          -- destruct Hwf as [Hr Hpc]. now apply root_dir_delete.
          -- destruct Hwf as [Hr Hpc]. apply pc_delete; auto. now apply mem_children_nil.
        * rewrite bool_decide_eq_false_2 by discriminate.
          exists s. eexists. split; [reflexivity|]. cbn. auto.
    - exists s. eexists. split; [reflexivity|]. cbn. auto.
  Qed.

  (** the emptiness test of remove_dir is the emptiness of the abstract directory *)
  Lemma children_nil_abs (s : mstate) p : mem_children s p = [] <-> t_empty (abs s) p.
  Proof.
    rewrite mem_children_nil. unfold t_empty. split; intros H n; specialize (H n).
    - now apply abs_none.
    - now apply abs_none in H.
  Qed.

  (** observers return what the tree says and change nothing *)
  Theorem refine_exists (s : mstate) p :
    run bhandler (vp_exists mv p) (S s) = (S s, Ok (spec_exists (abs s) p)).
  Proof.
    rewrite call_exists. unfold spec_exists. rewrite abs_lookup.
    f_equal. f_equal. apply bool_decide_ext. destruct (s !! p); cbn; split; intros [? ?]; eauto; discriminate.
  Qed.

  Theorem refine_metadata (s : mstate) p :
    exists r, run bhandler (vp_metadata mv p) (S s) = (S s, r) /\
      match r with
      | Ok m => spec_kind (abs s) p = Some (m_type m)
      | Err e => spec_kind (abs s) p = None /\ e = mkErr ENotFound (PPath p)
      | Panic => False
      end.
  Proof.
    rewrite call_metadata. unfold spec_kind. rewrite abs_lookup.
    destruct (s !! p) as [f|]; cbn; eexists; split; try reflexivity; cbn.
    - unfold absf. destruct (f_type f); reflexivity.
    - auto.
  Qed.

  Theorem refine_read_dir (s : mstate) p :
    exists r, run bhandler (vp_read_dir mv p) (S s) = (S s, r) /\
      match r with
      | Ok l => spec_kind (abs s) p = Some Dir /\
                (forall n, p ++ [n] ∈ l <-> t_children (abs s) p n) /\ NoDup l
      | Err e => spec_kind (abs s) p <> Some Dir /\
                 (spec_kind (abs s) p = None <-> e_kind e = ENotFound) /\ e_path e = PPath p
      | Panic => False
      end.
  Proof.
    rewrite call_read_dir. unfold spec_kind. rewrite abs_lookup.
    destruct (s !! p) as [f|] eqn:E; cbn [fmap option_fmap option_map].
    - unfold absf. destruct (f_type f) eqn:Ht; eexists; (split; [reflexivity|]); cbn.
      + repeat split; try discriminate; intros; discriminate.
      + split; [reflexivity|]. split.
        * intros n. unfold t_children. rewrite abs_lookup, elem_of_list_fmap. split.
          -- intros (m & Hm & Hin). apply app_inj_tail in Hm as [_ ->].
             apply mem_children_spec in Hin as [g Hg]. rewrite Hg. cbn. eauto.
          -- intros [x Hx]. exists n. split; [reflexivity|]. apply mem_children_spec.
             destruct (s !! (p ++ [n])); [eauto|discriminate].
        * apply NoDup_fmap_2; [|apply mem_children_nodup]. intros a b H. now apply app_inv_head in H as [= ->].
    - eexists. split; [reflexivity|]. cbn. repeat split; auto; discriminate.
  Qed.

  (** publishing a write session *)
  Theorem refine_publish (s : mstate) p buf : wf s ->
    abs (fst (msec_sem (MPublish p buf) s)) = spec_publish (abs s) p buf /\
    wf (fst (msec_sem (MPublish p buf) s)).
  Proof.
    intros Hwf. split; [|exact (msec_wf (MPublish p buf) s Hwf I)].
    unfold spec_publish. rewrite abs_lookup. cbn [msec_sem].
    destruct (s !! p) as [[[] c cr mo ac]|] eqn:E; cbn [fst fmap option_fmap option_map absf f_type f_content]; try reflexivity.
    now rewrite abs_insert.
  Qed.
End Refine.

Section RefineHandles.
  Variables (lg : list (nat * fscall)) (ft : option (nat * nat)).

  Lemma call_create_file_raw (s : mstate) hs p :
    run bhandler (labelled (v_impl mv (CCreateFile p)) p) (mstore s hs lg ft) =
    match snd (mem_step (CCreateFile p) s) with
    | Ok _ => (mstore (fst (mem_step (CCreateFile p) s)) (hs ++ [HMemWriter 0 p [] 0]) lg ft, Ok (length hs))
    | Err e => (mstore (fst (mem_step (CCreateFile p) s)) hs lg ft, Err (with_path e (PPath p)))
    | Panic => (mstore (fst (mem_step (CCreateFile p) s)) hs lg ft, Panic)
    end.
  Proof. cbn. unfold mem_fs_call. destruct (mem_step (CCreateFile p) s) as [s' [u|e|]]; reflexivity. Qed.

  Theorem refine_create_file (s : mstate) hs p : wf s ->
    exists s' hs' r, run bhandler (vp_create_file mv p) (mstore s hs lg ft) = (mstore s' hs' lg ft, r) /\
      abs s' = fst (spec_create_file (abs s) p) /\
      class_of r = snd (spec_create_file (abs s) p) /\ wf s' /\
      match r with
      | Ok h => hs' !! h = Some (HMemWriter 0 p [] 0) /\ (forall i, i <> h -> hs' !! i = hs !! i)
      | _ => hs' = hs
      end.
  Proof.
    intros Hwf. unfold vp_create_file, bind_res. rewrite run_bind, call_get_parent.
    unfold spec_create_file.
    case_bool_decide as Hpar.
    - rewrite call_create_file_raw.
      destruct (decide (p = [])) as [->|Hne].
      { rewrite ms_create_file. cbn [msec_sem has_parent fst snd]. exists s, hs. eexists. split; [reflexivity|].
        rewrite decide_False by (intros [H _]; congruence). cbn. auto. }
      rewrite decide_True by (apply parent_dir_abs; auto).
      rewrite ms_create_file. cbn [msec_sem]. rewrite (has_parent_true s p Hne Hpar).
      rewrite abs_lookup.
      assert (Hfresh : forall f0 : memfile, True) by auto.
      destruct (s !! p) as [[[] c cr mo ac]|] eqn:E; cbn [fst snd fmap option_fmap option_map absf f_type f_content].
      + (* over an existing file: truncated *)
        exists (<[p := mkMemFile File [] TAuto (Some TAuto) (Some TAuto)]> s), (hs ++ [HMemWriter 0 p [] 0]). eexists.
        split; [reflexivity|]. rewrite abs_insert. cbn. repeat split; auto.
        * destruct Hwf as [Hr Hpc]. apply root_dir_insert_ne; auto.
        * destruct Hwf as [Hr Hpc]. apply pc_insert_leaf; auto. eapply file_is_leaf; eauto.
        * rewrite lookup_app_r by lia. now rewrite Nat.sub_diag.
        * intros i Hi. destruct (decide (i < length hs)) as [Hl|Hl]; [now rewrite lookup_app_l|].
          rewrite lookup_app_r by lia. rewrite (lookup_ge_None_2 hs i) by lia.
          destruct (i - length hs) as [|k] eqn:Ek; [lia|]. reflexivity.
      + (* over a directory: refused *)
        exists s, hs. eexists. split; [reflexivity|]. cbn. auto.
      + exists (<[p := mkMemFile File [] TAuto (Some TAuto) (Some TAuto)]> s), (hs ++ [HMemWriter 0 p [] 0]). eexists.
        split; [reflexivity|]. rewrite abs_insert. cbn. repeat split; auto.
        * destruct Hwf as [Hr Hpc]. apply root_dir_insert_ne; auto.
        * destruct Hwf as [Hr Hpc]. apply pc_insert_leaf; auto. eapply absent_is_leaf; eauto.
        * rewrite lookup_app_r by lia. now rewrite Nat.sub_diag.
        * intros i Hi. destruct (decide (i < length hs)) as [Hl|Hl]; [now rewrite lookup_app_l|].
          rewrite lookup_app_r by lia. rewrite (lookup_ge_None_2 hs i) by lia.
          destruct (i - length hs) as [|k] eqn:Ek; [lia|]. reflexivity.
    - exists s, hs. eexists. split; [reflexivity|].
      rewrite decide_False by (rewrite parent_dir_abs; tauto). cbn. auto.
  Qed.

  (** writing through the handle only moves the handle's cursor; dropping it publishes exactly
      its buffer (C04 through the public API) *)
  Theorem refine_write (s : mstate) hs h dest buf pos data :
    hs !! h = Some (HMemWriter 0 dest buf pos) -> data <> [] ->
    (pos + Z.of_nat (length data) <= i64_max)%Z ->
    handle_op h (HWrite data) (mstore s hs lg ft) =
    (mstore s (<[h := HMemWriter 0 dest (fst (cursor_write buf pos data)) (snd (cursor_write buf pos data))]> hs) lg ft,
     Ok (N.of_nat (length data))).
  Proof.
    intros Hh Hd Hfit. rewrite handle_op_no_io by reflexivity. unfold handle_op0. cbn [st_handles mstore]. rewrite Hh.
    destruct data as [|b data]; [congruence|]. unfold write_too_large.
    rewrite (proj2 (Z.ltb_ge _ _)) by exact Hfit. cbn [put].
    destruct (cursor_write buf pos (b :: data)) as [buf' pos']. reflexivity.
  Qed.

  (** ... and a non-empty write that would end beyond [isize::MAX] bytes (a seek far past the end came first) is refused
      with an I/O error: nothing is written, the handle and the filesystem are as before (repair 14b1c2a; the unrepaired
      handle panicked here) *)
  Theorem refine_write_too_large (s : mstate) hs h dest buf pos data :
    hs !! h = Some (HMemWriter 0 dest buf pos) -> data <> [] ->
    (i64_max < pos + Z.of_nat (length data))%Z ->
    handle_op h (HWrite data) (mstore s hs lg ft) = (mstore s hs lg ft, fail EIo).
  Proof.
    intros Hh Hd Hbig. rewrite handle_op_no_io by reflexivity. unfold handle_op0. cbn [st_handles mstore]. rewrite Hh.
    destruct data as [|b data]; [congruence|]. unfold write_too_large.
    rewrite (proj2 (Z.ltb_lt _ _)) by exact Hbig. reflexivity.
  Qed.

  Theorem refine_drop (s : mstate) hs h dest buf pos : wf s ->
    hs !! h = Some (HMemWriter 0 dest buf pos) ->
    exists s', handle_op h HDrop (mstore s hs lg ft) = (mstore s' (<[h := HClosed]> hs) lg ft, Ok tt) /\
               abs s' = spec_publish (abs s) dest buf /\ wf s'.
  Proof.
    intros Hwf Hh. rewrite handle_op_no_io by reflexivity. unfold handle_op0. cbn [st_handles mstore]. rewrite Hh.
    exists (fst (msec_sem (MPublish dest buf) s)). split; [reflexivity|].
    apply (refine_publish s dest buf Hwf).
  Qed.

  Theorem refine_flush (s : mstate) hs h dest buf pos : wf s ->
    hs !! h = Some (HMemWriter 0 dest buf pos) ->
    exists s', handle_op h HFlush (mstore s hs lg ft) = (mstore s' hs lg ft, Ok tt) /\
               abs s' = spec_publish (abs s) dest buf /\ wf s'.
  Proof.
    intros Hwf Hh. rewrite handle_op_no_io by reflexivity. unfold handle_op0. cbn [st_handles mstore]. rewrite Hh.
    exists (fst (msec_sem (MPublish dest buf) s)). split; [reflexivity|].
    apply (refine_publish s dest buf Hwf).
  Qed.
End RefineHandles.
