(** Fault propagation (C20), first layer of results: the injected fault is an
    I/O error of the failing call; [?] propagates every error; the places that
    deliberately inspect an error kind let an I/O error through. *)
From stdpp Require Import gmap list.
From Coq Require Import NArith ZArith Lia.
From VFS Require Import Core.Types Core.Prog Core.Calls Base.MemFS Base.Handles Base.PhysFS Base.Embedded Base.Store
  Layer.VfsPath Layer.Overlay Layer.Config Proofs.ProgProofs.

Section Faults.
  Context {S : Type}.
  Variable h : handler brep S.

  (** [?]: an error of the first program is the result of the sequence, and nothing of the
      continuation runs *)
  Lemma try_propagates {T U} (m : bprog (res T)) (f : T -> bprog (res U)) s s' e :
    run h m s = (s', Err e) -> run h (bind_res m f) s = (s', Err e).
  Proof. intros H. unfold bind_res. rewrite run_bind, H. reflexivity. Qed.

  Lemma try_continues {T U} (m : bprog (res T)) (f : T -> bprog (res U)) s s' v :
    run h m s = (s', Ok v) -> run h (bind_res m f) s = run h (f v) s'.
  Proof. intros H. unfold bind_res. rewrite run_bind, H. reflexivity. Qed.

  (** relabelling keeps the kind of the error *)
  Lemma labelled_kind {T} (m : bprog (res T)) p s s' e :
    run h m s = (s', Err e) -> run h (labelled m p) s = (s', Err (mkErr (e_kind e) (PPath p))).
  Proof. intros H. unfold labelled. rewrite run_bind, H. reflexivity. Qed.

  (** create_dir_all tolerates "directory exists" and nothing else *)
  Lemma create_dirs_propagates (v : vfs) d ds s s' e :
    run h (v_impl v (CCreateDir d)) s = (s', Err e) -> e_kind e <> EDirExists ->
    run h (create_dirs v (d :: ds)) s = (s', Err (with_path e (PPath d))).
  Proof.
    intros H Hk. cbn [create_dirs]. rewrite run_bind, H.
    destruct (e_kind e) eqn:E; try reflexivity. congruence.
  Qed.

  (** OverlayFS::exists answers false only for not-found; every other error of the lookup is
      returned (the repaired behaviour) *)
  Lemma ovl_exists_propagates top lower p s s2 e :
    run h (read_path top lower p) s = (s2, Err e) -> e_kind e <> ENotFound ->
    run h (ovl_exists top lower p) s = (s2, Err e).
  Proof.
    intros H2 Hk. unfold ovl_exists. rewrite run_bind, H2. destruct (e_kind e) eqn:E; try reflexivity. congruence.
  Qed.
End Faults.

(** the fault injected by the harness wrapper: the call fails with an I/O error, the wrapped
    filesystem is not called, the plan is consumed *)
Lemma wrap_fault_fires k inner c bases hs lg io :
  run bhandler (wrap_impl k inner c) (mkStore bases hs lg (Some (k, 0)) io) =
  (mkStore bases hs ((k, c) :: lg) None io, Err (mkErr EIo PUnfilled)).
Proof. unfold wrap_impl. cbn. rewrite Nat.eqb_refl. reflexivity. Qed.

Lemma wrap_fault_counts k inner c bases hs lg io n :
  run bhandler (wrap_impl k inner c) (mkStore bases hs lg (Some (k, S n)) io) =
  run bhandler (inner c) (mkStore bases hs ((k, c) :: lg) (Some (k, n)) io).
Proof. unfold wrap_impl. cbn. rewrite Nat.eqb_refl. reflexivity. Qed.

Lemma wrap_no_fault k inner c bases hs lg io :
  run bhandler (wrap_impl k inner c) (mkStore bases hs lg None io) =
  run bhandler (inner c) (mkStore bases hs ((k, c) :: lg) None io).
Proof. reflexivity. Qed.
