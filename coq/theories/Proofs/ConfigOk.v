(** [calls_ok] through every stacking of adapters: observers are pure all the
    way down (C08, second sentence), and mutating calls reach only the base
    filesystems below the write path of the configuration (C08, first sentence);
    AltrootFS confines every call below its root (C07). *)
From stdpp Require Import list sets gmap.
From Coq Require Import NArith ZArith.
From VFS Require Import Core.Types Core.Prog Core.Calls Base.MemFS Layer.VfsPath Layer.Altroot Layer.Overlay
  Layer.Config Proofs.CallsOk Proofs.VfsPathOk Proofs.AdapterOk.

Lemma calls_ok_weaken {C} {rep : C -> Type} (ok ok' : C -> Prop) {R} (m : prog rep R) :
  (forall c, ok c -> ok' c) -> calls_ok ok m -> calls_ok ok' m.
Proof. intros H. induction 1; constructor; auto. Qed.

(** a proper induction principle for the nested stacking term *)
Section FsrefInd.
  Variable P : fsref -> Prop.
  Hypothesis Hbase : forall k i, P (FBase k i).
  Hypothesis Halt : forall k g r, P g -> P (FAlt k g r).
  Hypothesis Hovl : forall k t lower, P (fst t) -> Forall (fun l => P (fst l)) lower -> P (FOvl k t lower).
  Hypothesis Hwrap : forall k g, P g -> P (FWrap k g).

  Fixpoint fsref_ind' (f : fsref) : P f :=
    match f with
    | FBase k i => Hbase k i
    | FAlt k g r => Halt k g r (fsref_ind' g)
    | FOvl k t lower =>
        Hovl k t lower
          (match t with (g, _) => fsref_ind' g end)
          ((fix go (ls : list (fsref * list (list N))) : Forall (fun l => P (fst l)) ls :=
              match ls with
              | [] => @Coq.Lists.List.Forall_nil _ (fun l => P (fst l))
              | (g, r) :: ls' => @Coq.Lists.List.Forall_cons _ (fun l => P (fst l)) (g, r) ls' (fsref_ind' g) (go ls')
              end) lower)
    | FWrap k g => Hwrap k g (fsref_ind' g)
    end.
End FsrefInd.

(** ** observers are pure *)
Definition nonmut (b : bcall) : Prop :=
  match b with
  | BFs _ c => mutating c = false
  | _ => True
  end.

Section OvlPure.
  Variable ok : bcall -> Prop.
  Hypothesis handles_ok : forall h o, ok (BH h o).
  Variable top : vfs * path.
  Variable lower : list (vfs * path).
  Definition reads_ok (l : vfs) : Prop := forall c, mutating c = false -> calls_ok ok (v_impl l c).
  Hypothesis all_ok : Forall (fun l => reads_ok (fst l)) (layers top lower).
  Let AR : fscall -> Prop := fun c => mutating c = false.

  Lemma top_reads : reads_ok (fst top).
  Proof. now inversion all_ok. Qed.

  Lemma p_first_layer ls p :
    Forall (fun l => reads_ok (fst l)) ls ->
    calls_okQ ok (okres (fun o => match o with Some lp => reads_ok (fst lp) | None => True end))
              (first_layer ls p).
  Proof.
    induction 1 as [|l ls Hl Hls IH]; cbn; [constructor; exact I|].
    eapply calls_okQ_bind_res with (Q := fun _ => True); try (intros; exact I).
    - eapply calls_okQ_weaken; [|apply calls_ok_okQ; exact (Hl (CExists _) eq_refl)]. intros [] _; exact I.
    - intros ex _. destruct ex; [constructor; cbn; exact Hl|exact IH].
  Qed.

  Lemma lower_reads : Forall (fun l => reads_ok (fst l)) lower.
  Proof. now inversion all_ok. Qed.

  Lemma p_read_path p : calls_okQ ok (okres (fun lp => reads_ok (fst lp))) (read_path top lower p).
  Proof.
    unfold read_path. destruct p as [|x p']; [constructor; apply top_reads|]. set (p := x :: p').
    eapply calls_okQ_bind_res with (Q := fun _ => True); try (intros; exact I).
    - eapply calls_okQ_weaken; [|apply calls_ok_okQ; exact (top_reads (CExists _) eq_refl)]. intros [] _; exact I.
    - intros up _. destruct up; [constructor; apply top_reads|].
      eapply calls_okQ_bind_res with (Q := fun _ => True); try (intros; exact I).
      + eapply calls_okQ_weaken; [|apply calls_ok_okQ; exact (top_reads (CExists _) eq_refl)]. intros [] _; exact I.
      + intros wo _. destruct wo; [constructor; exact I|].
        eapply calls_okQ_bind_res; try (intros; exact I); [apply p_first_layer, lower_reads|].
        intros [lp|] Hlp; constructor; [exact Hlp|exact I].
  Qed.

  Lemma p_with_read_path {T} p (f : vfs * path -> bprog (res T)) :
    (forall lp, reads_ok (fst lp) -> calls_ok ok (f lp)) ->
    calls_ok ok (bind_res (read_path top lower p) f).
  Proof.
    intros Hf. eapply calls_okQ_ok with (Q := fun _ => True).
    eapply calls_okQ_bind_res; try (intros; exact I); [apply p_read_path|].
    intros lp Hlp. apply calls_ok_okQ. now apply Hf.
  Qed.

  Lemma p_gather ls p acc :
    Forall (fun l => reads_ok (fst l)) ls -> calls_ok ok (gather ls p acc).
  Proof.
    intros H. revert acc. induction H as [|l ls Hl Hls IH]; intros acc; cbn; [constructor|].
    apply calls_ok_bind_res; [apply (vp_is_dir_ok ok (fst l) AR Hl); reflexivity|]. intros isd.
    destruct isd; [|apply IH].
    apply calls_ok_bind_res; [apply (vp_read_dir_ok ok (fst l) AR Hl); reflexivity|]. intros ch. apply IH.
  Qed.

  Theorem ovl_pure c : mutating c = false -> calls_ok ok (ovl_impl top lower c).
  Proof.
    destruct c; cbn [mutating ovl_impl]; try discriminate; intros _.
    - (* read_dir *)
      unfold ovl_read_dir. apply p_with_read_path. intros lp Hr.
      apply calls_ok_bind_res; [apply (vp_metadata_ok ok (fst lp) AR Hr); reflexivity|]. intros md.
      destruct (m_type md); [constructor|].
      apply calls_ok_bind_res; [apply p_gather, all_ok|]. intros entries.
      apply calls_ok_bind_res; [exact (top_reads (CExists _) eq_refl)|]. intros wex.
      apply calls_ok_bind_res; [|intros; constructor].
      destruct wex; [|constructor].
      apply calls_ok_bind_res; [apply (vp_read_dir_ok ok (fst top) AR top_reads); reflexivity|]. intros; constructor.
    - (* open_file *)
      apply p_with_read_path. intros lp Hr. apply (vp_open_file_ok ok (fst lp) AR Hr). reflexivity.
    - (* metadata *)
      unfold ovl_metadata. apply p_with_read_path. intros lp Hr.
      apply (vp_metadata_ok ok (fst lp) AR Hr). reflexivity.
    - (* exists *)
      unfold ovl_exists.
      eapply calls_okQ_ok with (Q := fun _ => True).
      eapply calls_okQ_bind; [apply p_read_path|].
      intros [lp|e|] Hlp; [|destruct (e_kind e); constructor; exact I|constructor; exact I].
      apply calls_ok_okQ. exact (Hlp (CExists (snd lp)) eq_refl).
  Qed.
End OvlPure.

Lemma alt_asks_reads root c :
  mutating c = false -> alt_asks root (fun c' => mutating c' = false) c.
Proof. destruct c; cbn; try discriminate; auto. Qed.

Theorem interp_pure (f : fsref) : forall c, mutating c = false -> calls_ok nonmut (interp f c).
Proof.
  induction f as [k i|k g r IH|k t lower IHt IHl|k g IH] using fsref_ind'; intros c Hc; cbn [interp].
  - constructor; [exact Hc|intros; constructor].
  - apply (alt_impl_ok nonmut (fun _ _ => I) (mkVfs (fs_id g) (interp g)) r (fun c' => mutating c' = false)).
    + intros c' Hc'. now apply IH.
    + now apply alt_asks_reads.
  - apply ovl_pure; [|exact Hc].
    constructor.
    + destruct t as [g r]. cbn in *. exact IHt.
    + apply Forall_fmap. eapply Forall_impl; [exact IHl|]. intros [g r] H. exact H.
  - unfold wrap_impl. cbn. constructor; [exact I|]. intros inject.
    destruct inject; [constructor|]. now apply IH.
Qed.

(** ** mutating calls reach only the bases below the write path *)
Fixpoint wbases (f : fsref) : list nat :=
  match f with
  | FBase _ i => [i]
  | FAlt _ g _ => wbases g
  | FOvl _ t _ => match t with (g, _) => wbases g end
  | FWrap _ g => wbases g
  end.

Definition mut_in (W : list nat) (b : bcall) : Prop :=
  match b with
  | BFs i c => mutating c = true -> i ∈ W
  | _ => True
  end.

(** instance identities are used consistently: a lower layer that has the identity
    of the write layer is the write layer *)
Fixpoint consistent (f : fsref) : Prop :=
  match f with
  | FBase _ _ => True
  | FAlt _ g _ => consistent g
  | FOvl _ t lower =>
      consistent (fst t) /\
      (fix all (ls : list (fsref * list (list N))) : Prop :=
         match ls with
         | [] => True
         | l :: ls' => consistent (fst l) /\ (fs_id (fst l) = fs_id (fst t) -> fst l = fst t) /\ all ls'
         end) lower
  | FWrap _ g => consistent g
  end.

Lemma nonmut_mut_in W b : nonmut b -> mut_in W b.
Proof. destruct b; cbn; auto. intros H1 H2. congruence. Qed.

Theorem interp_writes (f : fsref) : consistent f -> forall c, calls_ok (mut_in (wbases f)) (interp f c).
Proof.
  induction f as [k i|k g r IH|k t lower IHt IHl|k g IH] using fsref_ind'; intros Hcons c; cbn [interp wbases].
  - constructor; [cbn; intros; set_solver|intros; constructor].
  - apply (alt_impl_ok (mut_in (wbases g)) (fun _ _ => I) (mkVfs (fs_id g) (interp g)) r (fun _ => True)).
    + intros c' _. now apply IH.
    + destruct c; cbn; auto 10.
  - destruct t as [g r]. cbn [fst snd] in *. destruct Hcons as [Hg Hl].
    apply ovl_impl_ok; [intros; exact I|cbn; intros; now apply IHt|].
    cbn [fst]. clear c.
    induction lower as [|[gl rl] lower IHlow]; cbn; [constructor|].
    inversion IHl as [|? ? IHgl IHrest]; subst. destruct Hl as (Hcl & Hid & Hrest).
    constructor; [|now apply IHlow].
    split; cbn [fst v_impl v_id].
    + intros c Hc. eapply calls_ok_weaken; [apply nonmut_mut_in|]. now apply interp_pure.
    + intros E c. cbn in Hid. rewrite (Hid E). now apply IHt.
  - unfold wrap_impl. cbn. constructor; [exact I|]. intros inject.
    destruct inject; [constructor|]. now apply IH.
Qed.

(** ** C07: AltrootFS over a base filesystem asks only about paths below its root
    (the parent probe of VfsPath::create_dir / create_file on the altroot's own
    root path is the one read of the root's parent) *)
Definition is_prefix_of (r q : list (list N)) : Prop := exists s, q = r ++ s.

Definition confined (root : list (list N)) (c : fscall) : Prop :=
  Forall (fun q => is_prefix_of root q \/
                   (q = removelast root /\ match c with CExists _ | CMetadata _ => True | _ => False end))
         (call_paths c).

Definition confined_b (i : nat) (root : list (list N)) (b : bcall) : Prop :=
  match b with
  | BFs j c => j = i /\ confined root c
  | _ => True
  end.

Lemma prefix_app r p : is_prefix_of r (r ++ p).
Proof. now exists p. Qed.

Lemma parent_confined (r p : list (list N)) :
  is_prefix_of r (removelast (r ++ p)) \/ removelast (r ++ p) = removelast r.
Proof.
  destruct p as [|x p'] using rev_ind.
  - right. now rewrite app_nil_r.
  - left. rewrite app_assoc, removelast_last. apply prefix_app.
Qed.

Theorem alt_confined k i root c :
  calls_ok (confined_b i root) (alt_impl (mkVfs k (fun c' => Call (BFs i c') Ret)) root c).
Proof.
  apply (alt_impl_ok (confined_b i root) (fun _ _ => I) _ root (confined root)).
  - intros c' Hc'. cbn. constructor; [split; [reflexivity|exact Hc']|intros; constructor].
  - destruct c; cbn; unfold confined; cbn [call_paths];
      repeat match goal with
      | |- _ /\ _ => split
      | |- Forall _ (_ :: _) => constructor
      | |- Forall _ [] => constructor
      end; try (left; apply prefix_app); try exact I;
      try (destruct (parent_confined root p) as [H|H]; [left; exact H|right; split; [exact H|exact I]]).
    all: try (destruct (parent_confined root d) as [H|H]; [left; exact H|right; split; [exact H|exact I]]).
Qed.
