(** A predicate on the values a program can return, under an assumption on the replies it
    receives; closed under [bind].  Used for C12 (every error a path operation returns names the
    caller's path). *)
From stdpp Require Import list.
From Coq Require Import NArith ZArith.
From VFS Require Import Core.Types Core.Prog Core.Calls Layer.VfsPath.

Section Leaves.
  Context {C : Type} {rep : C -> Type}.
  Variable A : forall c : C, rep c -> Prop.      (* what is assumed of the replies *)

  Inductive leaves {R} (Q : R -> Prop) : prog rep R -> Prop :=
  | L_ret (r : R) : Q r -> leaves Q (Ret r)
  | L_call (c : C) (k : rep c -> prog rep R) : (forall x, A c x -> leaves Q (k x)) -> leaves Q (Call c k).

  Lemma leaves_bind {R T} (Q : R -> Prop) (Q' : T -> Prop) (m : prog rep R) (f : R -> prog rep T) :
    leaves Q m -> (forall x, Q x -> leaves Q' (f x)) -> leaves Q' (bind m f).
  Proof.
    intros Hm Hf. induction Hm as [r Hr|c k Hk IH]; cbn; [now apply Hf|].
    constructor. intros x Hx. now apply IH.
  Qed.

  Lemma leaves_weaken {R} (Q Q' : R -> Prop) (m : prog rep R) :
    (forall x, Q x -> Q' x) -> leaves Q m -> leaves Q' m.
  Proof. intros H. induction 1; constructor; auto. Qed.

  Lemma leaves_true {R} (m : prog rep R) : leaves (fun _ => True) m.
  Proof. induction m; constructor; auto. Qed.

  (** semantic reading: a handler whose replies satisfy the assumption yields a value satisfying Q *)
  Lemma leaves_run {S R} (h : handler rep S) (Q : R -> Prop) (m : prog rep R) :
    (forall c s, A c (snd (h c s))) -> leaves Q m -> forall s, Q (snd (run h m s)).
  Proof.
    intros Hh Hm. induction Hm as [r Hr|c k Hk IH]; intros s; cbn; [exact Hr|].
    specialize (Hh c s). destruct (h c s) as [s' x]. cbn in Hh. now apply IH.
  Qed.
End Leaves.

(** [?] with a postcondition on results *)
Lemma leaves_bind_res {C} {rep : C -> Type} (A : forall c, rep c -> Prop) {R T}
    (Q : R -> Prop) (Q' : res T -> Prop) (m : prog rep (res R)) (f : R -> prog rep (res T)) :
  leaves A (fun r => match r with Ok x => Q x | Err e => Q' (Err e) | Panic => Q' Panic end) m ->
  (forall x, Q x -> leaves A Q' (f x)) -> leaves A Q' (bind_res m f).
Proof.
  intros Hm Hf. unfold bind_res. eapply leaves_bind; [exact Hm|].
  intros [x|e|] Hx; [now apply Hf|now constructor|now constructor].
Qed.
