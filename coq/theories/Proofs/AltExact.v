(** C07, first sentence: an operation on path q of an altroot rooted at P IS that operation on P ++ q of
    the underlying filesystem - same calls, same outcome, same effect; only the path an error carries
    is the caller's.  For every underlying filesystem (any stacking, any handler) and every q. *)
From stdpp Require Import gmap list.
From Coq Require Import NArith ZArith Lia.
From VFS Require Import Core.Types Core.Prog Core.Calls Base.MemFS Base.Handles Base.PhysFS Base.Embedded Base.Store
  Layer.VfsPath Layer.Altroot Layer.Config Proofs.ProgProofs Proofs.MemProofs Proofs.MemCalls Proofs.MemPublic.

Definition relabel_to {T} (q : path) (r : res T) : res T := map_err r (fun e => with_path e (PPath q)).

Section AltExact.
  Variable u : vfs.                 (* the filesystem the root path belongs to *)
  Variable root : path.
  Variable k : nat.
  Definition altv : vfs := mkVfs k (alt_impl u root).

  (** ** what the programs are: definitional *)
  Lemma alt_exists_is q : vp_exists altv q = vp_exists u (root ++ q).
  Proof. reflexivity. Qed.
  Lemma alt_metadata_is q : vp_metadata altv q = labelled (vp_metadata u (root ++ q)) q.
  Proof. reflexivity. Qed.
  Lemma alt_open_file_is q : vp_open_file altv q = labelled (vp_open_file u (root ++ q)) q.
  Proof. reflexivity. Qed.
  Lemma alt_append_file_is q : vp_append_file altv q = labelled (vp_append_file u (root ++ q)) q.
  Proof. reflexivity. Qed.
  Lemma alt_remove_file_is q : vp_remove_file altv q = labelled (vp_remove_file u (root ++ q)) q.
  Proof. reflexivity. Qed.
  Lemma alt_remove_dir_is q : vp_remove_dir altv q = labelled (vp_remove_dir u (root ++ q)) q.
  Proof. reflexivity. Qed.
  Lemma alt_set_mtime_is q t : vp_set_mtime altv q t = labelled (vp_set_mtime u (root ++ q) t) q.
  Proof. reflexivity. Qed.
  Lemma alt_set_ctime_is q t : vp_set_ctime altv q t = labelled (vp_set_ctime u (root ++ q) t) q.
  Proof. reflexivity. Qed.
  Lemma alt_set_atime_is q t : vp_set_atime altv q t = labelled (vp_set_atime u (root ++ q) t) q.
  Proof. reflexivity. Qed.
  (** the two creating calls: VfsPath's parent probe on the altroot, then exactly the underlying call *)
  Lemma alt_create_dir_is q :
    vp_create_dir altv q = (try* _ := vp_get_parent altv q in labelled (vp_create_dir u (root ++ q)) q).
  Proof. reflexivity. Qed.
  Lemma alt_create_file_is q :
    vp_create_file altv q = (try* _ := vp_get_parent altv q in labelled (vp_create_file u (root ++ q)) q).
  Proof. reflexivity. Qed.

  (** ** hence, against any handler: same final state, same outcome up to the error's path *)
  Section AnyHandler.
    Context {S : Type}.
    Variable h : handler brep S.

    Lemma run_labelled {T} (m : bprog (res T)) q s :
      run h (labelled m q) s = (fst (run h m s), relabel_to q (snd (run h m s))).
    Proof. unfold labelled. rewrite run_bind. destruct (run h m s) as [s' r]. reflexivity. Qed.

    Theorem alt_exists_exact q s : run h (vp_exists altv q) s = run h (vp_exists u (root ++ q)) s.
    Proof. reflexivity. Qed.
    Theorem alt_metadata_exact q s :
      run h (vp_metadata altv q) s = (fst (run h (vp_metadata u (root ++ q)) s), relabel_to q (snd (run h (vp_metadata u (root ++ q)) s))).
    Proof. rewrite alt_metadata_is. apply run_labelled. Qed.
    Theorem alt_open_file_exact q s :
      run h (vp_open_file altv q) s = (fst (run h (vp_open_file u (root ++ q)) s), relabel_to q (snd (run h (vp_open_file u (root ++ q)) s))).
    Proof. rewrite alt_open_file_is. apply run_labelled. Qed.
    Theorem alt_append_file_exact q s :
      run h (vp_append_file altv q) s = (fst (run h (vp_append_file u (root ++ q)) s), relabel_to q (snd (run h (vp_append_file u (root ++ q)) s))).
    Proof. rewrite alt_append_file_is. apply run_labelled. Qed.
    Theorem alt_remove_file_exact q s :
      run h (vp_remove_file altv q) s = (fst (run h (vp_remove_file u (root ++ q)) s), relabel_to q (snd (run h (vp_remove_file u (root ++ q)) s))).
    Proof. rewrite alt_remove_file_is. apply run_labelled. Qed.
    Theorem alt_remove_dir_exact q s :
      run h (vp_remove_dir altv q) s = (fst (run h (vp_remove_dir u (root ++ q)) s), relabel_to q (snd (run h (vp_remove_dir u (root ++ q)) s))).
    Proof. rewrite alt_remove_dir_is. apply run_labelled. Qed.
    Theorem alt_set_mtime_exact q t s :
      run h (vp_set_mtime altv q t) s = (fst (run h (vp_set_mtime u (root ++ q) t) s), relabel_to q (snd (run h (vp_set_mtime u (root ++ q) t) s))).
    Proof. rewrite alt_set_mtime_is. apply run_labelled. Qed.

    (** read_dir: the children of P ++ q, shown below q *)
    Theorem alt_read_dir_exact q s :
      run h (vp_read_dir altv q) s =
      (fst (run h (vp_read_dir u (root ++ q)) s),
       match snd (run h (vp_read_dir u (root ++ q)) s) with
       | Ok children => Ok (map (fun n => q ++ [n]) (omap (fun c => last c) children))
       | Err e => Err (with_path e (PPath q))
       | Panic => Panic
       end).
    Proof.
      unfold vp_read_dir at 1. cbn [v_impl altv alt_impl]. unfold bind_res, labelled, alt_path. rewrite !run_bind.
      destruct (run h (vp_read_dir u (root ++ q)) s) as [s' [ch|e|]]; reflexivity.
    Qed.
  End AnyHandler.
End AltExact.

(** ** over a MemoryFS the parent probe is pure and repeats what the underlying call checks itself:
    creating through the altroot is creating at P ++ q, for every q but the altroot's own root *)
Section AltMem.
  Variables (lg : list (nat * fscall)) (ft : option (nat * nat)).
  Variable root : path.
  Variable k : nat.
  Notation av := (altv mv root k).

  Lemma removelast_app_ne (q : path) : q <> [] -> removelast (root ++ q) = root ++ removelast q.
  Proof. intros Hq. now apply removelast_app. Qed.

  Lemma alt_get_parent_mem (s : mstate) hs q : q <> [] ->
    run bhandler (vp_get_parent av q) (mstore s hs lg ft) =
    (mstore s hs lg ft, if bool_decide (is_dir s (root ++ removelast q)) then Ok tt else Err (mkErr EOther (PPath q))).
  Proof.
    intros Hq. unfold vp_get_parent, bind_res. rewrite run_bind.
    change (vp_exists av (removelast q)) with (vp_exists mv (root ++ removelast q)).
    rewrite call_exists.
    destruct (s !! (root ++ removelast q)) as [d|] eqn:E.
    - rewrite bool_decide_eq_true_2 by eauto. cbn [negb].
      rewrite run_bind. rewrite (alt_metadata_exact mv root k bhandler). rewrite call_metadata, E.
      cbn [fst snd relabel_to map_err mem_meta m_type run].
      destruct (f_type d) eqn:Ht.
      + rewrite bool_decide_eq_false_2; [reflexivity|]. intros (d' & Hd & Hdt). congruence.
      + rewrite bool_decide_eq_true_2; [reflexivity|]. exists d. auto.
    - rewrite bool_decide_eq_false_2 by (intros [? ?]; congruence). cbn [negb run ret_err].
      rewrite bool_decide_eq_false_2; [reflexivity|]. intros (d' & Hd & _). congruence.
  Qed.

  Theorem alt_create_dir_mem (s : mstate) hs q : q <> [] ->
    run bhandler (vp_create_dir av q) (mstore s hs lg ft) =
    (fst (run bhandler (vp_create_dir mv (root ++ q)) (mstore s hs lg ft)),
     relabel_to q (snd (run bhandler (vp_create_dir mv (root ++ q)) (mstore s hs lg ft)))).
  Proof.
    intros Hq. rewrite alt_create_dir_is. unfold bind_res at 1. rewrite run_bind, (alt_get_parent_mem s hs q Hq).
    rewrite call_create_dir, (removelast_app_ne q Hq).
    case_bool_decide as Hd.
    - rewrite run_labelled, call_create_dir, (removelast_app_ne q Hq), bool_decide_eq_true_2 by exact Hd. reflexivity.
    - reflexivity.
  Qed.

  Theorem alt_create_file_mem (s : mstate) hs q : q <> [] ->
    run bhandler (vp_create_file av q) (mstore s hs lg ft) =
    (fst (run bhandler (vp_create_file mv (root ++ q)) (mstore s hs lg ft)),
     relabel_to q (snd (run bhandler (vp_create_file mv (root ++ q)) (mstore s hs lg ft)))).
  Proof.
    intros Hq. rewrite alt_create_file_is. unfold bind_res at 1. rewrite run_bind, (alt_get_parent_mem s hs q Hq).
    case_bool_decide as Hd.
    - rewrite run_labelled. reflexivity.
    - unfold vp_create_file, bind_res. rewrite run_bind, call_get_parent, (removelast_app_ne q Hq).
      rewrite bool_decide_eq_false_2 by exact Hd. reflexivity.
  Qed.
End AltMem.
