(** C02: create_dir on the modelled PhysicalFS refines the same contract as on MemoryFS, hence the two
    backends agree on it from related states (outcome class and resulting tree), for every path but
    the root. *)
From stdpp Require Import gmap list.
From Coq Require Import NArith ZArith Lia.
From VFS Require Import Core.Types Core.Prog Core.Calls Base.MemFS Base.Handles Base.PhysFS Base.Embedded Base.Store
  Layer.VfsPath Spec.Tree Proofs.ProgProofs Proofs.MemProofs Proofs.MemCalls Proofs.MemPublic Proofs.PhysProofs.

Section PCreate.
  Variables (hs : list hstate) (lg : list (nat * fscall)) (ft : option (nat * nat)).
  Notation PS s := (pstore s hs lg ft).

  Lemma pcall_metadata_kind (s : physfs) p n :
    lookup_path s p = Found n ->
    exists md, run bhandler (vp_metadata pv p) (PS s) = (PS s, Ok md) /\
               m_type md = match pn_kind n with PDir => Dir | PFile _ => File end.
  Proof.
    intros Hl. cbn. unfold phys_fs_call, phys_step. rewrite Hl. cbn.
    destruct (pn_kind n); eexists; split; reflexivity.
  Qed.

  (** the parent probe of VfsPath on a well-formed modelled tree *)
  Lemma pcall_get_parent (s : physfs) p : pwf (p_tree s) ->
    run bhandler (vp_get_parent pv p) (PS s) =
    (PS s, if bool_decide (p_is_dir (p_tree s) (removelast p)) then Ok tt else Err (mkErr EOther (PPath p))).
  Proof.
    intros Hwf. unfold vp_get_parent, bind_res. rewrite run_bind, pcall_exists, (pexists_wf s _ Hwf).
    destruct (p_tree s !! removelast p) as [n|] eqn:E.
    - rewrite bool_decide_eq_true_2 by eauto. cbn [negb].
      destruct (pcall_metadata_kind s (removelast p) n (lookup_found s _ n Hwf E)) as (md & Hrun & Hty).
      rewrite run_bind, Hrun. cbn [run]. rewrite Hty.
      destruct (pn_kind n) eqn:Hk.
      + rewrite bool_decide_eq_true_2; [reflexivity|]. exists n. auto.
      + rewrite bool_decide_eq_false_2; [reflexivity|]. intros (d & Hd & Hdk). congruence.
    - rewrite bool_decide_eq_false_2 by (intros [? ?]; congruence). cbn [negb run ret_err].
      rewrite bool_decide_eq_false_2; [reflexivity|]. intros (d & Hd & _). congruence.
  Qed.

  Lemma parent_dir_pabs (s : physfs) p : parent_dir (pabs s) p <-> p <> [] /\ p_is_dir (p_tree s) (removelast p).
  Proof. unfold parent_dir. now rewrite pabs_dir. Qed.

  Lemma pwf_insert_dir (t : ptree) p n : pwf t -> p <> [] -> p_is_dir t (removelast p) -> t !! p = None ->
    pn_kind n = PDir -> pwf (<[p := n]> t).
  Proof.
    intros [Hr Hpc] Hne Hpar Hnone Hk.
    assert (Hsame : forall q, p_is_dir t q -> p_is_dir (<[p := n]> t) q).
    { intros q (x & Hx & Hxk). exists x. rewrite lookup_insert_ne; [auto|]. intros ->. congruence. }
    split; [now apply Hsame|].
    intros q m x Hx. destruct (decide (p = q ++ [m])) as [->|Hd].
    - rewrite removelast_last in Hpar. now apply Hsame.
    - rewrite lookup_insert_ne in Hx by exact Hd. apply Hsame. eapply Hpc, Hx.
  Qed.

  Theorem prefine_create_dir (s : physfs) p : pwf (p_tree s) -> p <> [] ->
    exists s' r, run bhandler (vp_create_dir pv p) (PS s) = (PS s', r) /\
      pabs s' = fst (spec_create_dir (pabs s) p) /\
      class_of r = snd (spec_create_dir (pabs s) p) /\ pwf (p_tree s').
  Proof.
    intros Hwf Hne. unfold vp_create_dir, bind_res. rewrite run_bind, (pcall_get_parent s p Hwf).
    unfold spec_create_dir.
    case_bool_decide as Hpar.
    - rewrite decide_True by (apply parent_dir_pabs; auto).
      rewrite pcall_create_dir. unfold phys_step.
      destruct p as [|x p']; [congruence|]. set (p := x :: p') in *.
      destruct Hpar as (pn & Hpn & Hpk).
      rewrite (lookup_found s _ pn Hwf Hpn), Hpk. rewrite pabs_lookup.
      destruct (p_tree s !! p) as [n|] eqn:E; cbn [fmap option_fmap option_map fst snd].
      + exists s. eexists. split; [reflexivity|]. unfold pabsn.
        destruct (pn_kind n); cbn; auto.
      + eexists. eexists. split; [reflexivity|]. cbn [fst snd map_err set_tree p_tree class_of].
        split; [|split; [reflexivity|]].
        * unfold pabs at 1. cbn [p_tree set_tree]. rewrite pabs_touch.
          change (pabsn (set_tree s _)) with (pabsn s). rewrite fmap_insert. reflexivity.
        * apply pwf_touch. apply pwf_insert_dir; auto. exists pn. auto.
    - rewrite decide_False by (rewrite parent_dir_pabs; tauto).
      exists s. eexists. split; [reflexivity|]. cbn. auto.
  Qed.
End PCreate.

(** the two backends agree on create_dir *)
Theorem agree_create_dir (hs hs' : list hstate) (lg lg' : list (nat * fscall)) (ft ft' : option (nat * nat))
    (s : gmap (list (list N)) memfile) (ps : physfs) (p : path) :
  wf s -> pwf (p_tree ps) -> abs s = pabs ps -> p <> [] ->
  exists s' r ps' r',
    run bhandler (vp_create_dir mv p) (mstore s hs lg ft) = (mstore s' hs lg ft, r) /\
    run bhandler (vp_create_dir pv p) (pstore ps hs' lg' ft') = (pstore ps' hs' lg' ft', r') /\
    abs s' = pabs ps' /\ wf s' /\ pwf (p_tree ps') /\ class_of r = class_of r'.
Proof.
  intros Hwf Hpwf Hrel Hne.
  destruct (refine_create_dir hs lg ft s p Hwf) as (s' & r & E1 & A1 & C1 & W1).
  destruct (prefine_create_dir hs' lg' ft' ps p Hpwf Hne) as (ps' & r' & E2 & A2 & C2 & W2).
  exists s', r, ps', r'.
  split; [exact E1|]. split; [exact E2|]. split; [rewrite A1, A2, Hrel; reflexivity|].
  split; [exact W1|]. split; [exact W2|]. rewrite C1, C2, Hrel. reflexivity.
Qed.

(** ** whole histories: any sequence of exists / create_dir / remove_file / remove_dir calls, on any
    paths (wrong types included), run on both backends from related states: every call succeeds on
    one iff it succeeds on the other, exists answers the same, and the final trees are the same *)
Inductive hop4 := HExists (p : path) | HCreateDir (p : path) | HRemoveFile (p : path) | HRemoveDir (p : path).

Definition hop4_ok (o : hop4) : Prop :=
  match o with HCreateDir p | HRemoveDir p => p <> [] | _ => True end.

Definition hop4_prog (v : vfs) (o : hop4) : bprog (res bool) :=
  match o with
  | HExists p => vp_exists v p
  | HCreateDir p => let* r := vp_create_dir v p in Ret (res_map (fun _ => true) r)
  | HRemoveFile p => let* r := vp_remove_file v p in Ret (res_map (fun _ => true) r)
  | HRemoveDir p => let* r := vp_remove_dir v p in Ret (res_map (fun _ => true) r)
  end.

(** what is compared: success with its value, or failure *)
Definition seen (r : res bool) : option bool := match r with Ok b => Some b | _ => None end.

Fixpoint hist_run (v : vfs) (ops : list hop4) (st : store) : store * list (option bool) :=
  match ops with
  | [] => (st, [])
  | o :: ops' =>
      let '(st1, r) := run bhandler (hop4_prog v o) st in
      let '(st2, rs) := hist_run v ops' st1 in
      (st2, seen r :: rs)
  end.

Lemma class_ok_seen {T} (r r' : res T) :
  (class_of r = KOk <-> class_of r' = KOk) -> seen (res_map (fun _ => true) r) = seen (res_map (fun _ => true) r').
Proof.
  intros H. destruct r as [x|e|], r' as [x'|e'|]; cbn in *; try reflexivity; exfalso.
  - destruct (e_kind e'); destruct H as [H _]; specialize (H eq_refl); discriminate.
  - destruct H as [H _]; specialize (H eq_refl); discriminate.
  - destruct (e_kind e); destruct H as [_ H]; specialize (H eq_refl); discriminate.
  - destruct H as [_ H]; specialize (H eq_refl); discriminate.
Qed.

Theorem agree_history (hs hs' : list hstate) (lg lg' : list (nat * fscall)) (ft ft' : option (nat * nat)) :
  forall (ops : list hop4) (s : gmap (list (list N)) memfile) (ps : physfs),
  Forall hop4_ok ops -> wf s -> pwf (p_tree ps) -> abs s = pabs ps ->
  exists s' ps',
    fst (hist_run mv ops (mstore s hs lg ft)) = mstore s' hs lg ft /\
    fst (hist_run pv ops (pstore ps hs' lg' ft')) = pstore ps' hs' lg' ft' /\
    snd (hist_run mv ops (mstore s hs lg ft)) = snd (hist_run pv ops (pstore ps hs' lg' ft')) /\
    abs s' = pabs ps' /\ wf s' /\ pwf (p_tree ps').
Proof.
  induction ops as [|o ops IH]; intros s ps Hok Hwf Hpwf Hrel.
  - exists s, ps. cbn. split; [reflexivity|]. split; [reflexivity|]. split; [reflexivity|]. split; [exact Hrel|]. split; [exact Hwf|exact Hpwf].
  - inversion Hok as [|? ? Ho Hok']; subst. cbn [hist_run].
    assert (Hstep : exists s1 ps1 r r',
               run bhandler (hop4_prog mv o) (mstore s hs lg ft) = (mstore s1 hs lg ft, r) /\
               run bhandler (hop4_prog pv o) (pstore ps hs' lg' ft') = (pstore ps1 hs' lg' ft', r') /\
               seen r = seen r' /\ abs s1 = pabs ps1 /\ wf s1 /\ pwf (p_tree ps1)).
    { destruct o as [p|p|p|p]; cbn [hop4_prog hop4_ok] in *.
      - exists s, ps. do 2 eexists. rewrite refine_exists, (prefine_exists hs' lg' ft' ps p Hpwf).
        split; [reflexivity|]. split; [reflexivity|]. rewrite Hrel. auto.
      - destruct (agree_create_dir hs hs' lg lg' ft ft' s ps p Hwf Hpwf Hrel Ho) as (s1 & r & ps1 & r' & E1 & E2 & A & W1 & W2 & C).
        exists s1, ps1. do 2 eexists. rewrite !run_bind, E1, E2. cbn [run].
        split; [reflexivity|]. split; [reflexivity|]. split; [|auto]. apply class_ok_seen. now rewrite C.
      - destruct (agree_remove_file hs hs' lg lg' ft ft' s ps p Hwf Hpwf Hrel) as (s1 & r & ps1 & r' & E1 & E2 & A & W1 & W2 & C & _).
        exists s1, ps1. do 2 eexists. rewrite !run_bind, E1, E2. cbn [run].
        split; [reflexivity|]. split; [reflexivity|]. split; [|auto]. now apply class_ok_seen.
      - destruct (agree_remove_dir hs hs' lg lg' ft ft' s ps p Hwf Hpwf Hrel Ho) as (s1 & r & ps1 & r' & E1 & E2 & A & W1 & W2 & C & _).
        exists s1, ps1. do 2 eexists. rewrite !run_bind, E1, E2. cbn [run].
        split; [reflexivity|]. split; [reflexivity|]. split; [|auto]. now apply class_ok_seen. }
    destruct Hstep as (s1 & ps1 & r & r' & E1 & E2 & Hseen & A1 & W1 & P1).
    rewrite E1, E2.
    destruct (IH s1 ps1 Hok' W1 P1 A1) as (s' & ps' & F1 & F2 & Hs & A & W & P).
    destruct (hist_run mv ops (mstore s1 hs lg ft)) as [st2 rs].
    destruct (hist_run pv ops (pstore ps1 hs' lg' ft')) as [st2' rs'].
    cbn [fst snd] in *. exists s', ps'. rewrite Hseen, Hs.
    split; [exact F1|]. split; [exact F2|]. split; [reflexivity|]. split; [exact A|]. split; [exact W|exact P].
Qed.
