(** C12: the path carried by every error of a path operation. *)
From stdpp Require Import list sets gmap.
From Coq Require Import NArith ZArith.
From VFS Require Import Core.Types Core.Prog Core.Calls Base.MemFS Layer.VfsPath Layer.Altroot Layer.Overlay
  Layer.Config Proofs.Leaves Proofs.ConfigOk.

(** the error, if any, names one of the given paths (never the placeholder) *)
Definition err_at {T} (P : list (list N) -> Prop) (r : res T) : Prop :=
  match r with
  | Err e => e_kind e = EFuel (* model only: a fuelled recursion ran out *) \/ exists p, e_path e = PPath p /\ P p
  | _ => True
  end.
Definition is_ok {T} (r : res T) : Prop := match r with Ok _ => True | _ => False end.

Section ErrPaths.
  Variable A : forall b : bcall, brep b -> Prop.
  Variable v : vfs.
  (** the one call whose error VfsPath does not relabel: exists.  For the built-in backends and all
      their stackings it cannot fail (see [exists_total] below). *)
  Hypothesis exists_ok : forall p, leaves A is_ok (v_impl v (CExists p)).

  (** relabelling: whatever the filesystem answers, the error names [p] *)
  Lemma labelled_at {T} (m : bprog (res T)) p (P : list (list N) -> Prop) :
    P p -> leaves A (err_at P) (labelled m p).
  Proof.
    intros Hp. unfold labelled. eapply leaves_bind; [apply leaves_true|].
    intros [x|e|] _; constructor; cbn; eauto.
  Qed.

  Lemma vp_exists_at p (P : list (list N) -> Prop) : leaves A (err_at P) (vp_exists v p).
  Proof.
    eapply leaves_weaken; [|apply exists_ok]. intros [x|e|]; cbn; tauto.
  Qed.

  Lemma ret_err_at {T} k p (P : list (list N) -> Prop) : P p -> leaves A (err_at P) (@ret_err T k p).
  Proof. intros Hp. constructor. cbn. eauto. Qed.
  Lemma fuel_at {T} (P : list (list N) -> Prop) : leaves A (err_at P) (Ret (@out_of_fuel T)).
  Proof. constructor. cbn. auto. Qed.

  (** bind a step whose errors are already located *)
  Lemma try_at {T U} (P : list (list N) -> Prop) (m : bprog (res T)) (f : T -> bprog (res U)) :
    leaves A (err_at P) m -> (forall x, leaves A (err_at P) (f x)) -> leaves A (err_at P) (bind_res m f).
  Proof.
    intros Hm Hf. eapply leaves_bind_res with (Q := fun _ => True); [|intros; apply Hf].
    eapply leaves_weaken; [|exact Hm]. intros [x|e|]; cbn; auto.
  Qed.

  (** [q] is the path [p], one of its ancestors or one of its descendants *)
  Definition near (p q : list (list N)) : Prop := (exists r, p = q ++ r) \/ (exists r, q = p ++ r).
  Lemma near_refl p : near p p.
  Proof. left. exists []. now rewrite app_nil_r. Qed.
  Lemma near_parent p : near p (removelast p).
  Proof.
    left. destruct p as [|x p'] using rev_ind; [exists []; reflexivity|].
    rewrite removelast_last. eauto.
  Qed.
  Lemma near_child p n : near p (p ++ [n]).
  Proof. right. eauto. Qed.
  Lemma near_prefix p k : near p (take k p).
  Proof. left. exists (drop k p). now rewrite take_drop. Qed.
  Lemma near_below p q r : near p q -> (exists t, q = p ++ t) -> near p (q ++ r).
  Proof. intros _ [t ->]. right. exists (t ++ r). now rewrite app_assoc. Qed.

  Section OnePath.
    Variable p : list (list N).
    Let P : list (list N) -> Prop := near p.

    Lemma vp_metadata_at : leaves A (err_at P) (vp_metadata v p).
    Proof. apply labelled_at, near_refl. Qed.
    Lemma vp_open_file_at : leaves A (err_at P) (vp_open_file v p).
    Proof. apply labelled_at, near_refl. Qed.
    Lemma vp_append_file_at : leaves A (err_at P) (vp_append_file v p).
    Proof. apply labelled_at, near_refl. Qed.
    Lemma vp_remove_file_at : leaves A (err_at P) (vp_remove_file v p).
    Proof. apply labelled_at, near_refl. Qed.
    Lemma vp_remove_dir_at : leaves A (err_at P) (vp_remove_dir v p).
    Proof. apply labelled_at, near_refl. Qed.
    Lemma vp_set_ctime_at t : leaves A (err_at P) (vp_set_ctime v p t).
    Proof. apply labelled_at, near_refl. Qed.
    Lemma vp_set_mtime_at t : leaves A (err_at P) (vp_set_mtime v p t).
    Proof. apply labelled_at, near_refl. Qed.
    Lemma vp_set_atime_at t : leaves A (err_at P) (vp_set_atime v p t).
    Proof. apply labelled_at, near_refl. Qed.
    Lemma vp_read_dir_at : leaves A (err_at P) (vp_read_dir v p).
    Proof.
      unfold vp_read_dir. apply try_at; [apply labelled_at, near_refl|]. intros; constructor; exact I.
    Qed.

    (** create_dir / create_file: a failing parent check names the caller's path; only if the parent
        vanishes between the two probes is the parent (an ancestor) named *)
    Lemma vp_get_parent_at : leaves A (err_at P) (vp_get_parent v p).
    Proof.
      unfold vp_get_parent. apply try_at; [apply vp_exists_at|]. intros ex.
      destruct (negb ex); [apply ret_err_at, near_refl|].
      apply try_at; [apply labelled_at, near_parent|]. intros md.
      destruct (m_type md); [apply ret_err_at, near_refl|constructor; exact I].
    Qed.
    Lemma vp_create_dir_at : leaves A (err_at P) (vp_create_dir v p).
    Proof.
      unfold vp_create_dir. apply try_at; [apply vp_get_parent_at|]. intros _. apply labelled_at, near_refl.
    Qed.
    Lemma vp_create_file_at : leaves A (err_at P) (vp_create_file v p).
    Proof.
      unfold vp_create_file. apply try_at; [apply vp_get_parent_at|]. intros _. apply labelled_at, near_refl.
    Qed.

    (** create_dir_all names the ancestor at which it failed *)
    Lemma create_dirs_at ds : Forall P ds -> leaves A (err_at P) (create_dirs v ds).
    Proof.
      induction 1 as [|d ds Hd Hds IH]; cbn; [constructor; exact I|].
      eapply leaves_bind; [apply leaves_true|]. intros [u|e|] _; [exact IH| |constructor; exact I].
      destruct (e_kind e) eqn:Ek; try (constructor; cbn; right; eauto). exact IH.
    Qed.
    Lemma vp_create_dir_all_at : leaves A (err_at P) (vp_create_dir_all v p).
    Proof.
      apply create_dirs_at. unfold prefixes. apply Forall_fmap, Forall_forall. intros n _. apply near_prefix.
    Qed.

    Lemma vp_is_file_at : leaves A (err_at P) (vp_is_file v p).
    Proof.
      unfold vp_is_file. apply try_at; [apply vp_exists_at|]. intros ex. destruct (negb ex); [constructor; exact I|].
      apply try_at; [apply vp_metadata_at|]. intros; constructor; exact I.
    Qed.
    Lemma vp_is_dir_at : leaves A (err_at P) (vp_is_dir v p).
    Proof.
      unfold vp_is_dir. apply try_at; [apply vp_exists_at|]. intros ex. destruct (negb ex); [constructor; exact I|].
      apply try_at; [apply vp_metadata_at|]. intros; constructor; exact I.
    Qed.
  End OnePath.

  (** operations that descend: errors name the path or a descendant *)
  Lemma err_at_weaken {T} (P P' : list (list N) -> Prop) (r : res T) :
    (forall q, P q -> P' q) -> err_at P r -> err_at P' r.
  Proof. intros H. destruct r as [x|e|]; cbn; auto. intros [?|(q & Hq & HP)]; eauto. Qed.

  Definition below (p q : list (list N)) : Prop := exists r, q = p ++ r.
  Lemma near_of_below p q : below p q -> near p q.
  Proof. intros [r ->]. right. eauto. Qed.

  Lemma below_refl p : below p p.
  Proof. exists []. now rewrite app_nil_r. Qed.
  Lemma below_child root p n : below root p -> below root (p ++ [n]).
  Proof. intros [r ->]. exists (r ++ [n]). now rewrite app_assoc. Qed.

  (** read_dir hands back children of the listed directory *)
  Lemma vp_read_dir_post root p : below root p ->
    leaves A (fun r => match r with
                       | Ok l => Forall (below root) l
                       | other => err_at (near root) other
                       end) (vp_read_dir v p).
  Proof.
    intros Hb. unfold vp_read_dir. eapply leaves_bind_res with (Q := fun _ => True).
    - unfold labelled. eapply leaves_bind; [apply leaves_true|]. intros [x|e|] _; constructor; cbn; auto.
      right. eexists. split; [reflexivity|]. now apply near_of_below.
    - intros names _. constructor. apply Forall_fmap, Forall_forall. intros n _. now apply below_child.
  Qed.

  Lemma vp_remove_dir_all_at fuel : forall p root, below root p ->
    leaves A (err_at (near root)) (vp_remove_dir_all v fuel p).
  Proof.
    induction fuel as [|fuel IH]; intros p root Hb; cbn [vp_remove_dir_all]; [apply fuel_at|].
    apply try_at; [apply vp_exists_at|]. intros ex. destruct (negb ex); [constructor; exact I|].
    eapply leaves_bind_res with (Q := Forall (below root)).
    { eapply leaves_weaken; [|apply (vp_read_dir_post root p Hb)]. intros [l|e|]; cbn; auto. }
    intros children Hch.
    apply try_at; [|intros _; apply labelled_at; now apply near_of_below].
    induction Hch as [|c cs Hc Hcs IHc]; [constructor; exact I|].
    apply try_at; [apply labelled_at; now apply near_of_below|]. intros md.
    apply try_at; [|intros _; exact IHc].
    destruct (m_type md); [apply labelled_at; now apply near_of_below|now apply IH].
  Qed.

  (** walk_dir: the error items name the directory that could not be listed or the entry whose
      metadata failed - descendants of the walked path *)
  Definition walker_below (root : list (list N)) (w : walker) : Prop :=
    Forall (below root) (w_inner w) /\ Forall (below root) (w_todo w).

  Definition item_at (root : list (list N)) (x : option (res (list (list N))) * walker) : Prop :=
    walker_below root (snd x) /\
    match fst x with
    | Some (Ok q) => below root q
    | Some other => err_at (near root) other
    | None => True
    end.

  Lemma walk_find_at root : forall todo inner,
    Forall (below root) todo -> Forall (below root) inner ->
    leaves A (item_at root) (walk_find v todo inner).
  Proof.
    induction todo as [|d todo IH]; intros inner Ht Hi.
    - destruct inner as [|x inner]; cbn; constructor.
      + split; [split; constructor|exact I].
      + inversion Hi; subst. split; [split; assumption|assumption].
    - destruct inner as [|x inner]; cbn.
      + inversion Ht as [|? ? Hd Ht']; subst.
        eapply leaves_bind; [apply (vp_read_dir_post root d Hd)|].
        intros [children|e|] Hr; [now apply IH| |].
        * constructor. split; [split; [constructor|assumption]|exact Hr].
        * constructor. split; [split; [constructor|assumption]|exact I].
      + inversion Hi; subst. constructor. split; [split; assumption|assumption].
  Qed.

  Lemma walk_next_at root w : walker_below root w -> leaves A (item_at root) (walk_next v w).
  Proof.
    intros [Hi Ht]. unfold walk_next.
    eapply leaves_bind; [apply (walk_find_at root _ _ Ht Hi)|].
    intros [item w'] [[Hi' Ht'] Hitem]. cbn [fst snd] in *.
    destruct item as [[x|e|]|]; try (constructor; split; [split; assumption|assumption]).
    eapply leaves_bind; [apply (labelled_at _ x (near root)); now apply near_of_below|]. intros r Hr.
    destruct r as [md|e|].
    - destruct (m_type md); constructor; (split; [split; [assumption|]|assumption]); cbn; auto.
    - constructor. split; [split; assumption|]. exact Hr.
    - constructor. split; [split; assumption|]. exact I.
  Qed.
End ErrPaths.

(** ** exists cannot fail on the built-in backends and their stackings (no injected fault) *)
Definition A_nofault (b : bcall) : brep b -> Prop :=
  match b as b return brep b -> Prop with
  | BFs _ c => match c as c return frep c -> Prop with
               | CExists _ => fun x => is_ok x
               | _ => fun _ => True
               end
  | BH _ _ => fun _ => True
  | BLog _ _ => fun x => x = false
  end.

Definition exists_total (v : vfs) : Prop := forall p, leaves A_nofault is_ok (v_impl v (CExists p)).

Section OvlExists.
  Variable top : vfs * list (list N).
  Variable lower : list (vfs * list (list N)).
  Hypothesis all_total : Forall (fun l => exists_total (fst l)) (layers top lower).

  Lemma top_total : exists_total (fst top).
  Proof. now inversion all_total. Qed.

  Definition rp_post (r : res (vfs * list (list N))) : Prop :=
    match r with
    | Ok lp => exists_total (fst lp)
    | Err e => e_kind e = ENotFound
    | Panic => False
    end.

  Lemma first_layer_total ls p :
    Forall (fun l => exists_total (fst l)) ls ->
    leaves A_nofault (fun r => match r with
                               | Ok (Some lp) => exists_total (fst lp)
                               | Ok None => True
                               | _ => False
                               end) (first_layer ls p).
  Proof.
    induction 1 as [|l ls Hl Hls IH]; cbn; [constructor; exact I|].
    unfold bind_res. eapply leaves_bind; [apply (Hl (snd l ++ p))|].
    intros [ex|e|] Hex; try contradiction. destruct ex; [constructor; exact Hl|exact IH].
  Qed.

  Lemma lower_total : Forall (fun l => exists_total (fst l)) lower.
  Proof. now inversion all_total. Qed.

  Lemma read_path_total p : leaves A_nofault rp_post (read_path top lower p).
  Proof.
    unfold read_path. destruct p as [|x p']; [constructor; apply top_total|]. set (p := x :: p').
    unfold bind_res. eapply leaves_bind; [apply (top_total (write_path top p))|].
    intros [up|e|] Hup; try contradiction. destruct up; [constructor; apply top_total|].
    eapply leaves_bind; [apply (top_total (whiteout_path top p))|].
    intros [wo|e|] Hwo; try contradiction. destruct wo; [constructor; reflexivity|].
    eapply leaves_bind; [apply first_layer_total, lower_total|].
    intros [[lp|]|e|] Hlp; try contradiction; constructor; [exact Hlp|reflexivity].
  Qed.

  Lemma ovl_exists_total p : leaves A_nofault is_ok (ovl_exists top lower p).
  Proof.
    unfold ovl_exists. eapply leaves_bind; [apply read_path_total|].
    intros [lp|e|] Hlp; try contradiction.
    - apply Hlp.
    - cbn in Hlp. rewrite Hlp. constructor. exact I.
  Qed.
End OvlExists.

Theorem exists_total_interp (f : fsref) : exists_total (vfs_of f).
Proof.
  induction f as [k i|k g r IH|k t lower IHt IHl|k g IH] using fsref_ind'; intros p; cbn [vfs_of v_impl interp].
  - constructor. intros x Hx. constructor. exact Hx.
  - cbn. apply IH.
  - apply ovl_exists_total. constructor.
    + destruct t as [g r]. exact IHt.
    + apply Forall_fmap. eapply Forall_impl; [exact IHl|]. intros [g r] H. exact H.
  - unfold wrap_impl. cbn. constructor. intros inject Hi. cbn in Hi. subst inject. apply IH.
Qed.

(** a rejected join reports the argument it rejected *)
Lemma transfer_relabelled {T} (A : forall b : bcall, brep b -> Prop) (m : bprog (res T)) p :
  leaves A (err_at (fun q => q = p)) (relabel m p).
Proof. unfold relabel. now apply labelled_at. Qed.
