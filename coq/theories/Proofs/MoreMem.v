(** Further facts about the base models used by C04, C13, C19. *)
From stdpp Require Import gmap list.
From Coq Require Import NArith ZArith Lia.
From VFS Require Import Core.Types Core.Prog Core.Calls Base.MemFS Base.PhysFS Base.Embedded Base.Handles
  Proofs.MemProofs Proofs.MemCalls.

(** directories carry no bytes (so metadata reports length 0 for them) *)
Definition dirs_empty (s : gmap path memfile) : Prop :=
  forall p f, s !! p = Some f -> f_type f = Dir -> f_content f = [].

Lemma dirs_empty_new : dirs_empty mem_new.
Proof.
  intros p f H _. unfold mem_new in H. apply lookup_singleton_Some in H as [_ <-]. reflexivity.
Qed.

Lemma dirs_empty_insert (s : gmap path memfile) q g :
  dirs_empty s -> (f_type g = Dir -> f_content g = []) -> dirs_empty (<[q := g]> s).
Proof.
  intros H Hg p f Hf Ht. destruct (decide (q = p)) as [->|Hn].
  - rewrite lookup_insert in Hf. inversion Hf; subst. auto.
  - rewrite lookup_insert_ne in Hf by auto. eauto.
Qed.

Lemma msec_dirs_empty (c : msec) (s : gmap path memfile) : dirs_empty s -> dirs_empty (fst (msec_sem c s)).
Proof.
  intros H. destruct c; cbn [msec_sem]; unfold mem_update; repeat (dm; cbn [fst]); try exact H;
    try (apply dirs_empty_insert; [exact H|cbn; try discriminate; try reflexivity]);
    try (intros p' f' Hf' Ht'; apply lookup_delete_Some in Hf' as [_ Hf']; eauto).
  all: try (intros Ht; match goal with Hs : ?s0 !! ?p = Some ?f |- _ => exact (H p f Hs Ht) end).
Qed.

Lemma dir_len0 (s : gmap path memfile) p f :
  dirs_empty s -> s !! p = Some f -> f_type f = Dir -> m_len (mem_meta f) = 0%N.
Proof. intros H Hf Ht. unfold mem_meta. cbn. now rewrite (H p f Hf Ht). Qed.

(** data flushed through a still-open handle is what a reader opened afterwards gets *)
Lemma flush_then_open (s : gmap path memfile) p buf f :
  s !! p = Some f -> f_type f = File ->
  snd (mem_step (COpenFile p) (fst (msec_sem (MPublish p buf) s))) = Ok buf.
Proof.
  intros Hf Ht. rewrite (mem_publish_file s p buf f Hf Ht). rewrite ms_open_file.
  cbn [msec_sem]. rewrite lookup_insert. reflexivity.
Qed.

Lemma publish_len (s : gmap path memfile) p buf f :
  s !! p = Some f -> f_type f = File ->
  snd (mem_step (CMetadata p) (fst (msec_sem (MPublish p buf) s))) =
  Ok (mkMeta File (N.of_nat (length buf)) (Some (f_created f)) (Some TAuto) (f_accessed f)).
Proof.
  intros Hf Ht. rewrite (mem_publish_file s p buf f Hf Ht), mem_metadata. cbn [snd].
  now rewrite lookup_insert.
Qed.

(** ** the other base models never panic and refuse what they do not support *)
Lemma phys_set_ctime_noop (s : physfs) p t : phys_step (CSetCTime p t) s = (s, fail ENotSupported).
Proof. reflexivity. Qed.

Lemma emb_mutators_refused (s : embfs) c :
  mutating c = true -> emb_step c s = fail ENotSupported.
Proof. destruct c; cbn; try discriminate; reflexivity. Qed.

Lemma emb_no_panic (s : embfs) c : emb_step c s <> Panic.
Proof.
  destruct c; cbn; unfold fail; repeat (dm; try discriminate); try discriminate.
Qed.

Lemma phys_rename_no_panic (s : physfs) a b : snd (phys_rename s a b) <> Panic.
Proof.
  assert (Hp : forall p e, parent_lookup s p = Some e -> e <> Panic).
  { intros p e. unfold parent_lookup, lres_err, fail. repeat (dm; try discriminate); intros [= <-]; discriminate. }
  unfold phys_rename, fail. destruct (parent_lookup s a) eqn:Ea; [cbn [snd]; eapply Hp; eauto|].
  destruct (parent_lookup s b) eqn:Eb; [cbn [snd]; eapply Hp; eauto|].
  repeat (dm; cbn [snd]; try discriminate); discriminate.
Qed.

Lemma phys_no_panic (s : physfs) c : snd (phys_step c s) <> Panic.
Proof.
  destruct c; cbn [phys_step]; unfold lres_err, fail;
    try (repeat (dm; cbn [snd]; try discriminate); discriminate).
  apply phys_rename_no_panic.
Qed.
