(** Trait calls of the MemoryFS model: invariant, frame, timestamps, observers,
    absence of panics. *)
From stdpp Require Import gmap list.
From Coq Require Import NArith ZArith Lia.
From VFS Require Import Core.Types Core.Prog Core.Calls Base.MemFS Proofs.ProgProofs Proofs.MemProofs.

Notation mstate := (gmap path memfile).

(** the only thing a call must not do to keep the tree well formed is remove the root *)
Definition call_guard (c : fscall) (s : mstate) : Prop :=
  match c with
  | CRemoveDir p => p <> []
  | _ => True
  end.

Lemma removelast_nonnil_cases (p : path) : p <> [] -> exists q n, p = q ++ [n].
Proof. destruct (path_cases p) as [->|H]; [congruence|auto]. Qed.

(** characterisation of each trait call in terms of its lock sections *)
Lemma ms_single (c : msec) (s : mstate) : run msec_handler (Call c Ret) s = msec_sem c s.
Proof. cbn. unfold msec_handler. now destruct (msec_sem c s). Qed.

Lemma ms_read_dir (p : path) (s : mstate) : mem_step (CReadDir p) s = msec_sem (MScan p) s.
Proof. exact (ms_single (MScan p) s). Qed.
Lemma ms_append_file (p : path) (s : mstate) : mem_step (CAppendFile p) s = msec_sem (MAppendOpen p) s.
Proof. exact (ms_single (MAppendOpen p) s). Qed.
Lemma ms_metadata (p : path) (s : mstate) : mem_step (CMetadata p) s = msec_sem (MMeta p) s.
Proof. exact (ms_single (MMeta p) s). Qed.
Lemma ms_set_ctime (p : path) (t : Z) (s : mstate) : mem_step (CSetCTime p t) s = msec_sem (MSetC p (TSet t)) s.
Proof. exact (ms_single (MSetC p (TSet t)) s). Qed.
Lemma ms_set_mtime (p : path) (t : Z) (s : mstate) : mem_step (CSetMTime p t) s = msec_sem (MSetM p (TSet t)) s.
Proof. exact (ms_single (MSetM p (TSet t)) s). Qed.
Lemma ms_set_atime (p : path) (t : Z) (s : mstate) : mem_step (CSetATime p t) s = msec_sem (MSetA p (TSet t)) s.
Proof. exact (ms_single (MSetA p (TSet t)) s). Qed.
Lemma ms_exists (p : path) (s : mstate) : mem_step (CExists p) s = msec_sem (MExists p) s.
Proof. exact (ms_single (MExists p) s). Qed.
Lemma ms_remove_file (p : path) (s : mstate) : mem_step (CRemoveFile p) s = msec_sem (MRemoveFile p) s.
Proof. exact (ms_single (MRemoveFile p) s). Qed.

Lemma ms_create_dir (p : path) (s : mstate) : mem_step (CCreateDir p) s = msec_sem (MInsertDir p) s.
Proof. exact (ms_single (MInsertDir p) s). Qed.
Lemma ms_create_file (p : path) (s : mstate) : mem_step (CCreateFile p) s = msec_sem (MInsertFile p) s.
Proof. exact (ms_single (MInsertFile p) s). Qed.
Lemma ms_remove_dir (p : path) (s : mstate) : mem_step (CRemoveDir p) s = msec_sem (MRemove p) s.
Proof. exact (ms_single (MRemove p) s). Qed.

Lemma ms_open_file (p : path) (s : mstate) : mem_step (COpenFile p) s = msec_sem (MGetReader p) s.
Proof. exact (ms_single (MGetReader p) s). Qed.

Lemma ms_unsupported (c : fscall) (s : mstate) :
  match c with CCopyFile _ _ | CMoveFile _ _ | CMoveDir _ _ => True | _ => False end ->
  fst (mem_step c s) = s.
Proof. destruct c; try contradiction; reflexivity. Qed.

Lemma mem_step_wf (c : fscall) (s : mstate) : wf s -> call_guard c s -> wf (fst (mem_step c s)).
Proof.
  intros Hwf Hg.
  destruct c; cbn [call_guard] in *;
    rewrite ?ms_read_dir, ?ms_append_file, ?ms_metadata, ?ms_set_ctime, ?ms_set_mtime, ?ms_set_atime,
      ?ms_exists, ?ms_remove_file, ?ms_create_dir, ?ms_create_file, ?ms_open_file, ?ms_remove_dir;
    try (match goal with |- wf (fst (msec_sem ?c ?s0)) => apply (msec_wf c s0 Hwf); exact I end); try exact Hwf.
  - exact (msec_wf (MRemove p) s Hwf Hg).
Qed.

(** ** frame: a call changes only the entries it names *)
Lemma msec_frame (c : msec) (s : mstate) (q : path) :
  (match c with
   | MExists p | MScan p | MInsertDir p | MSetC p _ | MSetM p _ | MSetA p _ | MGetReader p
   | MInsertFile p | MAppendOpen p | MMeta p | MRemoveFile p | MRemove p | MPublish p _ => q <> p
   end) ->
  fst (msec_sem c s) !! q = s !! q.
Proof.
  intros Hq. destruct c; cbn [msec_sem] in *; unfold mem_update; repeat (dm; cbn [fst]);
    try reflexivity; try (now rewrite lookup_insert_ne by congruence);
    try (now rewrite lookup_delete_ne by congruence).
Qed.

Lemma mem_step_frame (c : fscall) (s : mstate) (q : path) :
  q ∉ call_paths c -> fst (mem_step c s) !! q = s !! q.
Proof.
  intros Hq.
  destruct c; cbn [call_paths] in *;
    rewrite ?ms_read_dir, ?ms_append_file, ?ms_metadata, ?ms_set_ctime, ?ms_set_mtime, ?ms_set_atime,
      ?ms_exists, ?ms_remove_file, ?ms_create_dir, ?ms_create_file, ?ms_open_file, ?ms_remove_dir;
    try (match goal with |- fst (msec_sem ?c ?s0) !! _ = _ => apply (msec_frame c s0); cbn; set_solver end); try reflexivity.
Qed.

(** ** timestamps (C19): setting one field changes that field of that entry only *)
Lemma mem_set_ctime (s : mstate) (p : path) (t : Z) f :
  s !! p = Some f ->
  mem_step (CSetCTime p t) s =
  (<[p := mkMemFile (f_type f) (f_content f) (TSet t) (f_modified f) (f_accessed f)]> s, Ok tt).
Proof. intros H. rewrite ms_set_ctime. cbn. unfold mem_update. now rewrite H. Qed.
Lemma mem_set_mtime (s : mstate) (p : path) (t : Z) f :
  s !! p = Some f ->
  mem_step (CSetMTime p t) s =
  (<[p := mkMemFile (f_type f) (f_content f) (f_created f) (Some (TSet t)) (f_accessed f)]> s, Ok tt).
Proof. intros H. rewrite ms_set_mtime. cbn. unfold mem_update. now rewrite H. Qed.
Lemma mem_set_atime (s : mstate) (p : path) (t : Z) f :
  s !! p = Some f ->
  mem_step (CSetATime p t) s =
  (<[p := mkMemFile (f_type f) (f_content f) (f_created f) (f_modified f) (Some (TSet t))]> s, Ok tt).
Proof. intros H. rewrite ms_set_atime. cbn. unfold mem_update. now rewrite H. Qed.
Lemma mem_set_time_absent (s : mstate) (p : path) (t : Z) :
  s !! p = None ->
  mem_step (CSetCTime p t) s = (s, fail ENotFound) /\
  mem_step (CSetMTime p t) s = (s, fail ENotFound) /\
  mem_step (CSetATime p t) s = (s, fail ENotFound).
Proof. intros H. rewrite ms_set_ctime, ms_set_mtime, ms_set_atime. cbn. unfold mem_update. now rewrite H. Qed.

Lemma mem_metadata (s : mstate) (p : path) :
  mem_step (CMetadata p) s =
  (s, match s !! p with Some f => Ok (mem_meta f) | None => fail ENotFound end).
Proof. rewrite ms_metadata. cbn. now destruct (s !! p). Qed.

(** publish (flush / drop of a write handle) keeps the creation and access times and the
    type, replaces the bytes; everything else is untouched *)
Lemma mem_publish_file (s : mstate) (p : path) (buf : list N) f :
  s !! p = Some f -> f_type f = File ->
  fst (msec_sem (MPublish p buf) s) = <[p := mkMemFile File buf (f_created f) (Some TAuto) (f_accessed f)]> s.
Proof. intros H Ht. cbn. rewrite H. destruct f as [[] ? ? ? ?]; cbn in *; congruence. Qed.
Lemma mem_publish_gone (s : mstate) (p : path) (buf : list N) :
  (forall f, s !! p = Some f -> f_type f = Dir) -> fst (msec_sem (MPublish p buf) s) = s.
Proof.
  intros H. cbn. destruct (s !! p) as [[[] ? ? ? ?]|] eqn:E; try reflexivity.
  specialize (H _ eq_refl). discriminate.
Qed.

(** ** observers (C05) at the level of the trait *)
Lemma mem_exists (s : mstate) (p : path) :
  mem_step (CExists p) s = (s, Ok (bool_decide (is_Some (s !! p)))).
Proof. reflexivity. Qed.

Lemma mem_read_dir (s : mstate) (p : path) :
  mem_step (CReadDir p) s =
  (s, match s !! p with
      | None => fail ENotFound
      | Some f => match f_type f with File => fail EOther | Dir => Ok (mem_children s p) end
      end).
Proof. rewrite ms_read_dir. cbn. destruct (s !! p) as [f|]; [destruct (f_type f)|]; reflexivity. Qed.

(** a path exists iff its parent lists its name, exactly once *)
Lemma mem_exists_iff_listed (s : mstate) (p : path) (n : list N) :
  is_Some (s !! (p ++ [n])) <-> n ∈ mem_children s p.
Proof. symmetry. apply mem_children_spec. Qed.

(** ** no trait call of MemoryFS panics *)
Lemma msec_no_panic (c : msec) (s : mstate) : snd (msec_sem c s) <> Panic.
Proof.
  destruct c; cbn [msec_sem]; unfold mem_update, fail; repeat (dm; cbn [snd]); discriminate.
Qed.

Lemma mem_step_no_panic (c : fscall) (s : mstate) : snd (mem_step c s) <> Panic.
Proof.
  destruct c;
    rewrite ?ms_read_dir, ?ms_append_file, ?ms_metadata, ?ms_set_ctime, ?ms_set_mtime, ?ms_set_atime,
      ?ms_exists, ?ms_remove_file, ?ms_create_dir, ?ms_create_file, ?ms_open_file, ?ms_remove_dir;
    try (match goal with |- snd (msec_sem ?c ?s0) <> _ => apply (msec_no_panic c s0) end); try (unfold fail; cbn; discriminate).
Qed.
