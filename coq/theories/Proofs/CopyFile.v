(** C11 / C04: copy_file within a MemoryFS instance produces a byte-identical file, leaves the source's
    bytes untouched and nothing else changed - for every content, and through the whole stream path
    (open, create, io::copy, publish on drop). *)
From stdpp Require Import gmap list.
From Coq Require Import NArith ZArith Lia.
From VFS Require Import Core.Types Core.Prog Core.Calls Base.MemFS Base.Handles Base.PhysFS Base.Embedded Base.Store
  Layer.VfsPath Proofs.ProgProofs Proofs.MemProofs Proofs.MemCalls Proofs.MemPublic.

Lemma cursor_write_fresh (data : bytes) : cursor_write [] 0 data = (data, Z.of_nat (length data)).
Proof.
  unfold cursor_write. cbn. destruct (length data); cbn; now rewrite app_nil_r.
Qed.

Section CopyFile.
  Variables (lg : list (nat * fscall)) (ft : option (nat * nat)).

  Lemma call_open_file_raw (s : mstate) hs p :
    run bhandler (vp_open_file mv p) (mstore s hs lg ft) =
    match snd (mem_step (COpenFile p) s) with
    | Ok c => (mstore (fst (mem_step (COpenFile p) s)) (hs ++ [HMemReader c 0]) lg ft, Ok (length hs))
    | Err e => (mstore (fst (mem_step (COpenFile p) s)) hs lg ft, Err (with_path e (PPath p)))
    | Panic => (mstore (fst (mem_step (COpenFile p) s)) hs lg ft, Panic)
    end.
  Proof. cbn. unfold mem_fs_call. destruct (mem_step (COpenFile p) s) as [s' [u|e|]]; reflexivity. Qed.

  (** io::copy from a fresh reader into a fresh writer *)
  Lemma hop_copy (s : mstate) tbl h1 h2 c q :
    tbl !! h1 = Some (HMemReader c 0) -> tbl !! h2 = Some (HMemWriter 0 q [] 0) -> h1 <> h2 ->
    handle_op h1 (HCopyTo h2) (mstore s tbl lg ft) =
    (mstore s (<[h2 := HMemWriter 0 q c (Z.of_nat (length c))]> (<[h1 := HMemReader c (Z.of_nat (length c))]> tbl)) lg ft,
     Ok (N.of_nat (length c))).
  Proof.
    intros H1 H2 Hne. rewrite handle_op_no_io by reflexivity. unfold handle_op0. cbn [st_handles mstore]. rewrite H1. cbn [drain]. rewrite H2.
    assert (Hrest : rest_of c 0 = c).
    { unfold rest_of. rewrite Z.min_l by lia. reflexivity. }
    rewrite Hrest. rewrite Z.max_r by lia.
    destruct c as [|b c'].
    - cbn [put length]. f_equal. unfold set_handle, mstore. cbn. f_equal.
      symmetry. apply list_insert_id. rewrite list_lookup_insert_ne by exact Hne. exact H2.
    - cbn [put]. rewrite cursor_write_fresh. reflexivity.
  Qed.

  Lemma hop_drop_writer (s : mstate) tbl h q buf pos g :
    tbl !! h = Some (HMemWriter 0 q buf pos) -> s !! q = Some g -> f_type g = File ->
    handle_op h HDrop (mstore s tbl lg ft) =
    (mstore (<[q := mkMemFile File buf (f_created g) (Some TAuto) (f_accessed g)]> s) (<[h := HClosed]> tbl) lg ft, Ok tt).
  Proof.
    intros Hh Hq Hg. rewrite handle_op_no_io by reflexivity. unfold handle_op0. cbn [st_handles mstore]. rewrite Hh.
    unfold mem_publish. cbn [st_bases mstore lookup]. cbn. rewrite Hq.
    destruct g as [ty c cr mo ac]. cbn in Hg. subst ty. reflexivity.
  Qed.

  Lemma hop_drop_reader (s : mstate) tbl h c pos :
    tbl !! h = Some (HMemReader c pos) ->
    handle_op h HDrop (mstore s tbl lg ft) = (mstore s (<[h := HClosed]> tbl) lg ft, Ok tt).
  Proof. intros Hh. rewrite handle_op_no_io by reflexivity. unfold handle_op0. cbn [st_handles mstore]. rewrite Hh. reflexivity. Qed.

  (** the opened source: its access time is stamped, nothing else *)
  Definition touched (f : memfile) : memfile :=
    mkMemFile File (f_content f) (f_created f) (f_modified f) (Some TAuto).

  Definition fresh_file (c : bytes) : memfile := mkMemFile File c TAuto (Some TAuto) (Some TAuto).

  (** the stream path shared by copy_file and move_file: [after] runs between io::copy and the drops *)
  Lemma stream_copy_mem (s : mstate) (hs : list hstate) (p q : path) (f : memfile) (after : bprog (res unit)) (s3 : mstate) :
    s !! p = Some f -> f_type f = File ->
    q <> [] -> s !! q = None -> is_dir s (removelast q) ->
    (forall tbl, run bhandler after (mstore (<[q := fresh_file []]> (<[p := touched f]> s)) tbl lg ft) = (mstore s3 tbl lg ft, Ok tt)) ->
    s3 !! q = Some (fresh_file []) ->
    run bhandler (stream_copy mv p mv q after) (mstore s hs lg ft) =
    (mstore (<[q := fresh_file (f_content f)]> s3) (hs ++ [HClosed; HClosed]) lg ft, Ok tt).
  Proof.
    intros Hp Hpt Hq Hqn Hqd Hafter Hs3q.
    assert (Hpq : p <> q) by congruence.
    assert (Hpar : removelast q <> p).
    { destruct Hqd as (d & Hd & Hdt). intros E. rewrite E in Hd. congruence. }
    unfold stream_copy, bind_res. rewrite !run_bind.
    rewrite call_open_file_raw, ms_open_file. cbn [msec_sem]. rewrite Hp, Hpt. cbn [fst snd].
    fold (touched f).
    set (s1 := <[p := touched f]> s) in *.
    assert (Hs1q : s1 !! q = None) by (unfold s1; now rewrite lookup_insert_ne).
    assert (Hs1d : is_dir s1 (removelast q)).
    { destruct Hqd as (d & Hd & Hdt). exists d. split; [|exact Hdt]. unfold s1. rewrite lookup_insert_ne by congruence. exact Hd. }
    rewrite run_bind.
    unfold vp_create_file, bind_res. rewrite run_bind, (call_get_parent _ lg ft s1 q).
    rewrite bool_decide_eq_true_2 by exact Hs1d.
    rewrite call_create_file_raw, ms_create_file. cbn [msec_sem].
    rewrite (has_parent_true s1 q Hq Hs1d), Hs1q. cbn [fst snd].
    fold (fresh_file []).
    set (s2 := <[q := fresh_file []]> s1) in *.
    rewrite app_length. cbn [length]. rewrite <- app_assoc. cbn [app].
    set (c := f_content f).
    assert (L1 : forall (a b : hstate), (hs ++ [a; b]) !! length hs = Some a).
    { intros a b. rewrite lookup_app_r by lia. now rewrite Nat.sub_diag. }
    assert (L2 : forall (a b : hstate), (hs ++ [a; b]) !! (length hs + 1)%nat = Some b).
    { intros a b. rewrite lookup_app_r by lia. replace (length hs + 1 - length hs)%nat with 1%nat by lia. reflexivity. }
    assert (I1 : forall (a b x : hstate), <[length hs := x]> (hs ++ [a; b]) = hs ++ [x; b]).
    { intros a b x. rewrite insert_app_r_alt by lia. now rewrite Nat.sub_diag. }
    assert (I2 : forall (a b x : hstate), <[(length hs + 1)%nat := x]> (hs ++ [a; b]) = hs ++ [a; x]).
    { intros a b x. rewrite insert_app_r_alt by lia. replace (length hs + 1 - length hs)%nat with 1%nat by lia. reflexivity. }
    (* io::copy *)
    rewrite run_bind. cbn [run bhandler].
    rewrite (hop_copy s2 _ (length hs) (length hs + 1)%nat c q (L1 _ _) (L2 _ _) ltac:(lia)).
    rewrite I1, I2. cbn [fst snd].
    (* what happens between the copy and the drops *)
    rewrite run_bind, Hafter. cbn [fst snd].
    (* the handles are dropped in reverse order: the writer publishes its buffer *)
    rewrite run_bind. cbn [run bhandler bind].
    rewrite (hop_drop_writer s3 _ (length hs + 1)%nat q c (Z.of_nat (length c)) (fresh_file []) (L2 _ _) Hs3q eq_refl).
    rewrite I2. cbn [fst snd f_created f_accessed fresh_file].
    rewrite (hop_drop_reader _ _ (length hs) c (Z.of_nat (length c)) (L1 _ _)).
    rewrite I1. reflexivity.
  Qed.

  Theorem copy_file_exact (s : mstate) (hs : list hstate) (p q : path) (f : memfile) :
    s !! p = Some f -> f_type f = File ->
    q <> [] -> s !! q = None -> is_dir s (removelast q) ->
    run bhandler (vp_copy_file mv p mv q) (mstore s hs lg ft) =
    (mstore (<[q := fresh_file (f_content f)]> (<[p := touched f]> s)) (hs ++ [HClosed; HClosed]) lg ft, Ok tt).
  Proof.
    intros Hp Hpt Hq Hqn Hqd.
    unfold vp_copy_file, relabel, labelled, bind_res. rewrite !run_bind.
    rewrite (call_exists hs lg ft s q), Hqn.
    rewrite bool_decide_eq_false_2 by (intros [x Hx]; discriminate).
    (* the same-instance fast path is not supported by MemoryFS *)
    unfold fast_path. cbn [v_id mv]. rewrite Nat.eqb_refl, run_bind.
    change (run bhandler (v_impl mv (CCopyFile p q)) (mstore s hs lg ft)) with (mstore s hs lg ft, @fail unit ENotSupported).
    unfold fail, err_of. cbn [e_kind].
    rewrite (stream_copy_mem s hs p q f (Ret (Ok tt)) (<[q := fresh_file []]> (<[p := touched f]> s)) Hp Hpt Hq Hqn Hqd);
      [|intros; reflexivity|apply lookup_insert].
    cbn [run map_err]. now rewrite insert_insert.
  Qed.

  (** move_file: the same, and the source is gone *)
  Theorem move_file_exact (s : mstate) (hs : list hstate) (p q : path) (f : memfile) :
    s !! p = Some f -> f_type f = File ->
    q <> [] -> s !! q = None -> is_dir s (removelast q) ->
    run bhandler (vp_move_file mv p mv q) (mstore s hs lg ft) =
    (mstore (<[q := fresh_file (f_content f)]> (delete p s)) (hs ++ [HClosed; HClosed]) lg ft, Ok tt).
  Proof.
    intros Hp Hpt Hq Hqn Hqd.
    assert (Hpq : p <> q) by congruence.
    unfold vp_move_file, relabel, labelled, bind_res. rewrite !run_bind.
    rewrite (call_exists hs lg ft s q), Hqn.
    rewrite bool_decide_eq_false_2 by (intros [x Hx]; discriminate).
    unfold fast_path. cbn [v_id mv]. rewrite Nat.eqb_refl, run_bind.
    change (run bhandler (v_impl mv (CMoveFile p q)) (mstore s hs lg ft)) with (mstore s hs lg ft, @fail unit ENotSupported).
    unfold fail, err_of. cbn [e_kind].
    rewrite (stream_copy_mem s hs p q f (vp_remove_file mv p) (<[q := fresh_file []]> (delete p s)) Hp Hpt Hq Hqn Hqd).
    - cbn [run map_err]. now rewrite insert_insert.
    - intros tbl. rewrite call_remove_file, ms_remove_file. cbn [msec_sem].
      rewrite lookup_insert_ne by congruence. rewrite lookup_insert. cbn [f_type touched fst snd map_err].
      f_equal. f_equal. rewrite delete_insert_ne by congruence. now rewrite delete_insert_delete.
    - apply lookup_insert.
  Qed.

  (** what that means for readers: the copy has the source's bytes, the source still has them, every
      other entry is what it was *)
  Corollary copy_file_bytes (s : mstate) (hs : list hstate) (p q : path) (f : memfile) (s' : mstate) (hs' : list hstate) :
    s !! p = Some f -> f_type f = File -> q <> [] -> s !! q = None -> is_dir s (removelast q) ->
    fst (run bhandler (vp_copy_file mv p mv q) (mstore s hs lg ft)) = mstore s' hs' lg ft ->
    (f_content <$> s' !! q) = Some (f_content f) /\ (f_content <$> s' !! p) = Some (f_content f) /\
    forall k, k <> p -> k <> q -> s' !! k = s !! k.
  Proof.
    intros Hp Hpt Hq Hqn Hqd Hrun. rewrite (copy_file_exact s hs p q f Hp Hpt Hq Hqn Hqd) in Hrun.
    cbn [fst] in Hrun. injection Hrun as <- <-.
    assert (Hpq : p <> q) by congruence.
    split; [now rewrite lookup_insert|]. split.
    - rewrite lookup_insert_ne by congruence. now rewrite lookup_insert.
    - intros k Hkp Hkq. now rewrite !lookup_insert_ne by congruence.
  Qed.
End CopyFile.
