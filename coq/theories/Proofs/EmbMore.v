(** * EmbeddedFS: listings without repetition, existence against the parent's listing, and
    "a directory iff listable, a file iff readable" (the C05 story told for the embedded view). *)
From stdpp Require Import gmap list.
From Coq Require Import NArith ZArith.
From VFS Require Import Core.Types Core.Calls Base.MemFS Base.Embedded Proofs.EmbProofs Proofs.MemProofs.

Notation dmap := (gmap (list (list N)) (list (list N))).

Definition all_nodup (m : dmap) : Prop := forall d l, m !! d = Some l -> NoDup l.

Lemma add_child_nodup (m : dmap) d n : all_nodup m -> all_nodup (add_child d n m).
Proof.
  intros Hm d' l. unfold add_child.
  assert (Hcur : NoDup (default [] (m !! d))).
  { destruct (m !! d) as [c|] eqn:E; cbn; [exact (Hm d c E)|constructor]. }
  destruct (decide (d' = d)) as [->|Hne].
  - rewrite lookup_insert. intros [= <-]. case_bool_decide as Hin; [exact Hcur|].
    apply NoDup_app. split; [exact Hcur|]. split.
    + intros x Hx Hx'. apply elem_of_list_singleton in Hx'. subst. contradiction.
    + apply NoDup_singleton.
  - rewrite lookup_insert_ne by congruence. apply Hm.
Qed.

Lemma add_ancestors_nodup rp : forall (m : dmap), all_nodup m -> all_nodup (add_ancestors rp m).
Proof.
  induction rp as [|n rest IH]; intros m Hm; cbn [add_ancestors]; [exact Hm|].
  apply IH, add_child_nodup, Hm.
Qed.

Lemma emb_fold_nodup files : forall init, all_nodup (e_dirs init) -> all_nodup (e_dirs (emb_fold files init)).
Proof.
  induction files as [|[f b] files IH]; intros init Hi; cbn [emb_fold]; [exact Hi|].
  apply IH. unfold emb_step1. cbn [e_dirs fst]. apply add_ancestors_nodup, Hi.
Qed.

Lemma emb_new_nodup (files : list (list (list N) * list N)) : all_nodup (e_dirs (emb_new files)).
Proof.
  rewrite emb_new_fold. apply emb_fold_nodup. cbn [e_dirs]. intros d l H.
  apply lookup_singleton_Some in H as [_ <-]. constructor.
Qed.

(** every listing the filesystem returns names each child once *)
Lemma emb_read_dir_nodup (files : list (list (list N) * list N)) d l :
  emb_step (CReadDir d) (emb_new files) = Ok l -> NoDup l.
Proof.
  cbn. destruct (e_dirs (emb_new files) !! d) as [c|] eqn:E.
  - intros [= <-]. apply sort_names_nodup. exact (emb_new_nodup files d c E).
  - case_bool_decide; discriminate.
Qed.

(** the listing of [d] contains [n] iff [d ++ [n]] exists *)
Lemma emb_exists_iff_listed (files : list (list (list N) * list N)) d n :
  emb_step (CExists (d ++ [n])) (emb_new files) = Ok true <->
  n ∈ default [] (e_dirs (emb_new files) !! d).
Proof.
  pose proof (emb_fold_listed files (mkEmb {[ [] := [] ]} ∅) d n) as HL.
  unfold listed in HL. rewrite <- emb_new_fold in HL. rewrite HL. clear HL.
  cbn [emb_step e_dirs]. rewrite emb_new_fold.
  split.
  - intros [= H]. right. rewrite !orb_true_iff, !bool_decide_eq_true in H.
    rewrite emb_fold_files, emb_fold_dirs in H. cbn [e_files e_dirs] in H.
    destruct H as [[[H|H]|[H|H]]|H].
    + rewrite lookup_empty in H. now destruct H.
    + exists (d ++ [n]), []. split; [exact H|reflexivity].
    + rewrite lookup_singleton_ne in H; [now destruct H|]. intros E. symmetry in E. now apply app_nil in E as [_ ?].
    + destruct H as (f & Hf & n' & r & ->). exists ((d ++ [n]) ++ n' :: r), (n' :: r). split; [exact Hf|].
      now rewrite <- app_assoc.
    + now apply app_nil in H as [_ ?].
  - intros [H|(f & r & Hf & ->)].
    + exfalso. destruct (decide (d = [])) as [->|Hne].
      * rewrite lookup_singleton in H. cbn in H. now apply elem_of_nil in H.
      * rewrite lookup_singleton_ne in H by congruence. cbn in H. now apply elem_of_nil in H.
    + f_equal. rewrite !orb_true_iff, !bool_decide_eq_true. left.
      rewrite emb_fold_files, emb_fold_dirs. cbn [e_files e_dirs].
      destruct r as [|n' r].
      * left. right. exact Hf.
      * right. right. exists (d ++ n :: n' :: r). split; [exact Hf|]. exists n', r. now rewrite <- app_assoc.
Qed.

(** no embedded file lies below another embedded file (true of every folder on disk) *)
Definition prefix_free (files : list (list (list N) * list N)) : Prop :=
  forall f g, f ∈ map fst files -> g ∈ map fst files -> ~ below f g.

Lemma emb_files_not_dirs (files : list (list (list N) * list N)) p :
  prefix_free files -> (forall f, f ∈ map fst files -> f <> []) ->
  is_Some (e_files (emb_new files) !! p) -> e_dirs (emb_new files) !! p = None.
Proof.
  intros Hpf Hne Hf. rewrite emb_new_fold in *. apply emb_fold_files in Hf. cbn [e_files] in Hf.
  destruct Hf as [Hf|Hf]; [rewrite lookup_empty in Hf; now destruct Hf|].
  apply eq_None_not_Some. intros Hd. apply emb_fold_dirs in Hd. cbn [e_dirs] in Hd.
  destruct Hd as [Hd|(g & Hg & Hb)].
  - destruct (decide (p = [])) as [->|Hn]; [now apply (Hne [])|].
    rewrite lookup_singleton_ne in Hd by congruence. now destruct Hd.
  - exact (Hpf p g Hf Hg Hb).
Qed.

(** a path can be listed iff its metadata says directory; it can be read iff its metadata says file *)
Lemma emb_dir_iff_listable (files : list (list (list N) * list N)) p :
  prefix_free files -> (forall f, f ∈ map fst files -> f <> []) ->
  (exists l, emb_step (CReadDir p) (emb_new files) = Ok l) <->
  (exists m, emb_step (CMetadata p) (emb_new files) = Ok m /\ m_type m = Dir).
Proof.
  intros Hpf Hne. pose proof (emb_files_not_dirs files p Hpf Hne) as Hx. cbn [emb_step].
  destruct (e_files (emb_new files) !! p) as [bs|] eqn:Ef.
  - rewrite Hx by eauto. rewrite bool_decide_eq_true_2 by eauto. split.
    + intros [l H]. discriminate.
    + intros (m & [= <-] & H). discriminate.
  - destruct (e_dirs (emb_new files) !! p) as [c|] eqn:Ed.
    + rewrite bool_decide_eq_true_2 by eauto. split; eauto.
    + rewrite !bool_decide_eq_false_2 by (intros [? ?]; discriminate). split.
      * intros [l H]. discriminate.
      * intros (m & H & _). discriminate.
Qed.

Lemma emb_file_iff_readable (files : list (list (list N) * list N)) p :
  (exists b, emb_step (COpenFile p) (emb_new files) = Ok b) <->
  (exists m, emb_step (CMetadata p) (emb_new files) = Ok m /\ m_type m = File).
Proof.
  cbn [emb_step]. destruct (e_files (emb_new files) !! p) as [bs|] eqn:Ef.
  - split; eauto.
  - split; [intros [b H]; discriminate|]. intros (m & H & Ht). case_bool_decide; [|discriminate].
    injection H as <-. discriminate.
Qed.
