(** Proofs about file handles: the MemoryFS reader is a cursor over the bytes
    (C14), reads with any buffer sizes deliver the content in order (C04), the
    growable write cursor zero-fills gaps and a session publishes what the
    reference semantics prescribes. *)
From stdpp Require Import list.
From Coq Require Import NArith ZArith Lia.
From VFS Require Import Core.Types Base.Handles.

Local Open Scope Z_scope.

Definition u64 (z : Z) : Prop := 0 <= z <= u64_max.

(** ** the reader of memory.rs against the reference cursor *)
Lemma take_min_length {A} (l : list A) k : take (Nat.min k (length l)) l = take k l.
Proof.
  destruct (Nat.le_gt_cases k (length l)).
  - now rewrite Nat.min_l by lia.
  - rewrite Nat.min_r by lia. now rewrite !take_ge by lia.
Qed.

Lemma mem_reader_read_is_cursor content pos n :
  u64 pos ->
  mem_reader_read content pos n =
  (Ok (fst (cursor_read content pos n)), snd (cursor_read content pos n)).
Proof.
  intros [Hp _]. unfold mem_reader_read, cursor_read, mem_reader_len. cbn [fst snd].
  set (len := Z.of_nat (length content)).
  destruct (Z.eqb_spec (Z.min (Z.of_N n) (Z.max 0 (len - pos))) 0) as [E0|E0].
  { assert (Hout : take (N.to_nat n) (drop (Z.to_nat (Z.min pos len)) content) = []).
    { destruct (Z.eq_dec (Z.of_N n) 0) as [Hn|Hn].
      - replace (N.to_nat n) with 0%nat by lia. reflexivity.
      - assert (len <= pos) by lia. rewrite drop_ge; [now rewrite take_nil|]. subst len. lia. }
    rewrite Hout. cbn. f_equal. lia. }
  assert (Hlt : pos < len) by lia.
  assert (Hn : 0 < Z.of_N n) by lia.
  rewrite (Z.min_l pos len) by lia.
  set (amt := Z.min (Z.of_N n) (Z.max 0 (len - pos))).
  set (d := drop (Z.to_nat pos) content).
  assert (Hdl : length d = Z.to_nat (len - pos)).
  { unfold d. rewrite drop_length. subst len. lia. }
  assert (Hamt : Z.to_nat amt = Nat.min (N.to_nat n) (length d)) by (unfold amt; lia).
  assert (Hout : take (N.to_nat n) d = take (Z.to_nat amt) d).
  { rewrite Hamt. now rewrite take_min_length. }
  assert (Hlen : Z.of_nat (length (take (N.to_nat n) d)) = amt).
  { rewrite take_length. unfold amt. lia. }
  destruct (Z.eqb_spec amt 1) as [E1|E1].
  - destruct (content !! Z.to_nat pos) as [b|] eqn:Hb.
    + rewrite Hout, E1. unfold d. rewrite (drop_S _ _ _ Hb). cbn. f_equal.
    + apply lookup_ge_None in Hb. subst len. lia.
  - destruct (Nat.leb_spec (Z.to_nat (pos + amt)) (length content)) as [Hle|Hgt].
    + rewrite Hlen, Hout. f_equal. f_equal. f_equal. unfold amt. lia.
    + exfalso. unfold amt in Hgt. subst len. lia.
Qed.

Lemma mem_reader_seek_is_cursor content pos sf :
  mem_reader_seek content pos sf =
  match cursor_seek (Z.of_nat (length content)) pos sf with
  | Some n => (Ok n, n)
  | None => (fail EIo, pos)
  end.
Proof.
  destruct sf as [o|o|o]; cbn; try reflexivity;
    destruct ((0 <=? _) && (_ <=? u64_max))%bool; reflexivity.
Qed.

(** seeking before the start is an error and leaves the position alone; seeking
    past the end is allowed and a read there returns no bytes *)
Lemma cursor_seek_negative len pos o :
  u64 pos -> pos + o < 0 -> cursor_seek len pos (SeekCurrent o) = None.
Proof. intros _ H. cbn. destruct (Z.leb_spec 0 (pos + o)); [lia|reflexivity]. Qed.

Lemma cursor_read_past_end content pos n :
  Z.of_nat (length content) <= pos -> cursor_read content pos n = ([], pos).
Proof.
  intros H. unfold cursor_read. rewrite Z.min_r by lia.
  rewrite drop_ge by lia. rewrite take_nil. cbn. f_equal. lia.
Qed.

(** reads never return bytes out of order or out of range: what is returned is
    the slice of the content at the position *)
Lemma cursor_read_slice content pos n :
  0 <= pos ->
  let '(out, pos') := cursor_read content pos n in
  out = take (N.to_nat n) (drop (Z.to_nat pos) content) /\
  pos' = pos + Z.of_nat (length out).
Proof.
  intros Hp. unfold cursor_read.
  destruct (Z.le_gt_cases pos (Z.of_nat (length content))).
  - rewrite Z.min_l by lia. auto.
  - rewrite Z.min_r by lia. split; [|reflexivity].
    rewrite !drop_ge by lia. reflexivity.
Qed.

(** ** reading a whole file with any sequence of buffer sizes (C04) *)
Fixpoint read_all_with (content : bytes) (pos : Z) (sizes : list N) : bytes * Z :=
  match sizes with
  | [] => ([], pos)
  | n :: rest =>
      let '(out, pos') := cursor_read content pos n in
      let '(more, pos'') := read_all_with content pos' rest in
      (out ++ more, pos'')
  end.

Fixpoint sumN (l : list N) : N := match l with [] => 0%N | x :: r => (x + sumN r)%N end.

Lemma read_all_with_prefix content sizes pos :
  0 <= pos ->
  fst (read_all_with content pos sizes) =
  take (N.to_nat (sumN sizes)) (drop (Z.to_nat pos) content).
Proof.
  revert pos; induction sizes as [|n rest IH]; intros pos Hp; cbn [read_all_with sumN].
  { now rewrite take_0. }
  pose proof (cursor_read_slice content pos n Hp) as Hs.
  destruct (cursor_read content pos n) as [out pos'] eqn:E. destruct Hs as [Hout Hpos].
  specialize (IH pos' ltac:(lia)).
  destruct (read_all_with content pos' rest) as [more pos'']. cbn [fst] in *.
  rewrite IH. subst pos' out.
  set (d := drop (Z.to_nat pos) content).
  replace (drop (Z.to_nat (pos + Z.of_nat (length (take (N.to_nat n) d)))) content)
    with (drop (length (take (N.to_nat n) d)) d).
  2:{ unfold d. rewrite drop_drop. f_equal. lia. }
  rewrite N2Nat.inj_add.
  rewrite take_length.
  destruct (Nat.le_gt_cases (N.to_nat n) (length d)) as [Hle|Hgt].
  - rewrite Nat.min_l by lia. now rewrite <- take_take_drop.
  - rewrite Nat.min_r by lia. rewrite drop_all, take_nil, app_nil_r.
    rewrite !take_ge by lia. reflexivity.
Qed.

(** the whole content comes back, exactly once and in order, as soon as the
    buffers add up to its length: buffer sizes (1 byte, 8 KiB, ...) are irrelevant *)
Corollary read_all_with_complete content sizes :
  (N.of_nat (length content) <= sumN sizes)%N ->
  fst (read_all_with content 0 sizes) = content.
Proof.
  intros H. rewrite read_all_with_prefix by lia. change (Z.to_nat 0) with 0%nat.
  rewrite drop_0. apply take_ge. lia.
Qed.

(** ** the growable write cursor *)
Lemma cursor_write_length (buf : list N) pos (data : list N) :
  0 <= pos ->
  length (fst (cursor_write buf pos data)) =
  Nat.max (length buf) (if decide (data = [] /\ (Z.to_nat pos <= length buf)%nat) then length buf
                        else (Z.to_nat pos + length data)%nat).
Proof.
  intros Hp. unfold cursor_write. cbn [fst].
  rewrite !app_length, take_length, drop_length, app_length, replicate_length.
  destruct (decide _) as [[-> ?]|Hn]; cbn [length]; lia.
Qed.

(** after a write the data sits at the position written to *)
Lemma cursor_write_data (buf : list N) pos (data : list N) :
  0 <= pos ->
  take (length data) (drop (Z.to_nat pos) (fst (cursor_write buf pos data))) = data.
Proof.
  intros Hp. unfold cursor_write. cbn [fst].
  set (padded := buf ++ replicate (Z.to_nat pos - length buf) 0%N).
  assert (Hpl : (Z.to_nat pos <= length padded)%nat).
  { unfold padded. rewrite app_length, replicate_length. lia. }
  rewrite drop_app_alt by (rewrite take_length; lia).
  now rewrite take_app.
Qed.

(** bytes before the position are the old bytes, a gap is filled with zeros *)
Lemma cursor_write_before (buf : list N) pos (data : list N) i :
  0 <= pos -> (i < Z.to_nat pos)%nat ->
  fst (cursor_write buf pos data) !! i = Some (default 0%N (buf !! i)).
Proof.
  intros Hp Hi. unfold cursor_write. cbn [fst].
  rewrite lookup_app_l by (rewrite take_length, app_length, replicate_length; lia).
  rewrite lookup_take by lia.
  destruct (buf !! i) as [b|] eqn:Hb.
  - now rewrite lookup_app_l by (apply lookup_lt_Some in Hb; lia); rewrite Hb.
  - apply lookup_ge_None in Hb. rewrite lookup_app_r by lia.
    rewrite lookup_replicate_2 by lia. reflexivity.
Qed.

(** bytes after the written range are the old bytes *)
Lemma cursor_write_after (buf : list N) pos (data : list N) i :
  0 <= pos -> (Z.to_nat pos + length data <= i)%nat ->
  fst (cursor_write buf pos data) !! i =
  (if decide (i < length buf)%nat then buf !! i else None).
Proof.
  intros Hp Hi. unfold cursor_write. cbn [fst].
  set (padded := buf ++ replicate (Z.to_nat pos - length buf) 0%N).
  assert (Hpl : (Z.to_nat pos <= length padded)%nat).
  { unfold padded. rewrite app_length, replicate_length. lia. }
  rewrite lookup_app_r by (rewrite take_length; lia).
  rewrite take_length, Nat.min_l by lia.
  rewrite lookup_app_r by lia.
  rewrite lookup_drop.
  replace (Z.to_nat pos + length data + (i - Z.to_nat pos - length data))%nat with i by lia.
  unfold padded. destruct (decide (i < length buf)%nat).
  - now rewrite lookup_app_l by lia.
  - rewrite lookup_app_r by lia. apply lookup_ge_None. rewrite replicate_length. lia.
Qed.

(** a create session that writes [data] in one go publishes [data]; an append
    session continues the existing bytes *)
Lemma create_session data : fst (cursor_write [] 0 data) = data.
Proof.
  unfold cursor_write. change (Z.to_nat 0) with 0%nat. cbn [fst replicate app take length Nat.sub Nat.add].
  rewrite drop_ge by (cbn; lia). now rewrite app_nil_r.
Qed.

Lemma append_session content data :
  fst (cursor_write content (Z.of_nat (length content)) data) = content ++ data.
Proof.
  unfold cursor_write. cbn [fst]. rewrite Nat2Z.id, Nat.sub_diag. cbn. rewrite app_nil_r.
  rewrite take_ge by lia. rewrite drop_ge by lia. now rewrite app_nil_r.
Qed.

(** writing past the end zero-fills the gap *)
Lemma gap_session content gap data :
  fst (cursor_write content (Z.of_nat (length content + gap)) data) =
  content ++ replicate gap 0%N ++ data.
Proof.
  unfold cursor_write. cbn [fst]. rewrite Nat2Z.id.
  replace (length content + gap - length content)%nat with gap by lia.
  rewrite take_ge by (rewrite app_length, replicate_length; lia).
  rewrite drop_ge by (rewrite app_length, replicate_length; lia).
  now rewrite app_nil_r, <- app_assoc.
Qed.

(** a seek from the end does not depend on where the handle stands: same answer from every
    position, and on success the answer and the new position are [length + o] *)
Lemma mem_reader_seek_end_ignores_position content pos pos' o :
  fst (mem_reader_seek content pos (SeekEnd o)) = fst (mem_reader_seek content pos' (SeekEnd o)) /\
  (forall n, fst (mem_reader_seek content pos (SeekEnd o)) = Ok n ->
     n = (Z.of_nat (length content) + o)%Z /\ snd (mem_reader_seek content pos (SeekEnd o)) = n) /\
  (forall e, fst (mem_reader_seek content pos (SeekEnd o)) = Err e ->
     snd (mem_reader_seek content pos (SeekEnd o)) = pos).
Proof.
  cbn [mem_reader_seek].
  destruct ((0 <=? Z.of_nat (length content) + o)%Z && (Z.of_nat (length content) + o <=? u64_max)%Z) eqn:E; cbn [fst snd].
  - split; [reflexivity|]. split; [intros n [= <-]; split; reflexivity|intros e H; discriminate].
  - split; [reflexivity|]. split; [intros n H; discriminate|intros e _; reflexivity].
Qed.
