(** The modelled PhysicalFS (std::fs over the modelled OS) refines the same abstract tree as
    MemoryFS (C02).  The OS rules themselves are an assumption validated against the host by the
    correspondence check. *)
From stdpp Require Import gmap list.
From Coq Require Import NArith ZArith Lia.
From VFS Require Import Core.Types Core.Prog Core.Calls Base.MemFS Base.Handles Base.PhysFS Base.Embedded Base.Store
  Layer.VfsPath Spec.Tree Proofs.ProgProofs Proofs.MemProofs.

Notation ptree := (gmap (list (list N)) pnode).

Definition p_is_dir (t : ptree) (p : list (list N)) : Prop := exists d, t !! p = Some d /\ pn_kind d = PDir.
Definition pwf (t : ptree) : Prop :=
  p_is_dir t [] /\ forall p n x, t !! (p ++ [n]) = Some x -> p_is_dir t p.

Global Instance p_is_dir_dec (t : ptree) p : Decision (p_is_dir t p).
Proof.
  unfold p_is_dir. destruct (t !! p) as [d|] eqn:E.
  - destruct (pn_kind d) eqn:Hk.
    + left. eauto.
    + right. intros (d' & Hd & Hk'). congruence.
  - right. intros (d' & Hd & _). congruence.
Defined.

(** every proper ancestor of an existing path is a directory *)
Lemma ancestors_dirs (t : ptree) q r x :
  pwf t -> t !! (q ++ r) = Some x -> r <> [] -> p_is_dir t q.
Proof.
  intros [_ Hpc]. revert x. induction r as [|n r IH] using rev_ind; intros x Hx Hne; [congruence|].
  rewrite app_assoc in Hx. specialize (Hpc _ _ _ Hx).
  destruct r as [|m r']; [now rewrite app_nil_r in Hpc|].
  destruct Hpc as (d & Hd & _). eapply IH; [exact Hd|discriminate].
Qed.

(** the kernel's path walk agrees with a direct lookup on a well-formed tree *)
Lemma walk_found (t : ptree) rest : forall done n m,
  pwf t -> t !! done = Some n -> t !! (done ++ rest) = Some m ->
  walk_from t done (Found n) rest = Found m.
Proof.
  induction rest as [|c rest IH]; intros done n m Hwf Hn Hm; cbn [walk_from].
  - rewrite app_nil_r in Hm. congruence.
  - assert (Hd : p_is_dir t done) by (eapply ancestors_dirs; eauto; discriminate).
    destruct Hd as (d & Hd & Hk). assert (d = n) by congruence. subst d. rewrite Hk.
    replace (done ++ c :: rest) with ((done ++ [c]) ++ rest) in Hm by now rewrite <- app_assoc.
    destruct rest as [|c' rest'].
    + rewrite app_nil_r in Hm. rewrite Hm. cbn. reflexivity.
    + assert (Hd' : p_is_dir t (done ++ [c])) by (eapply ancestors_dirs; eauto; discriminate).
      destruct Hd' as (d' & Hd' & _). rewrite Hd'. eapply IH; eauto.
Qed.

Lemma lookup_found (s : physfs) p m :
  pwf (p_tree s) -> p_tree s !! p = Some m -> lookup_path s p = Found m.
Proof.
  intros Hwf Hm. unfold lookup_path. destruct Hwf as [(r & Hr & Hk) Hpc].
  rewrite Hr. eapply walk_found; eauto. split; [exists r; auto|exact Hpc].
Qed.

Lemma walk_missing (t : ptree) rest : forall done n,
  pwf t -> t !! done = Some n -> t !! (done ++ rest) = None ->
  match walk_from t done (Found n) rest with Found _ => False | _ => True end.
Proof.
  induction rest as [|c rest IH]; intros done n Hwf Hn Hm; cbn [walk_from].
  - rewrite app_nil_r in Hm. congruence.
  - destruct (pn_kind n); [|exact I].
    replace (done ++ c :: rest) with ((done ++ [c]) ++ rest) in Hm by now rewrite <- app_assoc.
    destruct (t !! (done ++ [c])) as [m|] eqn:E.
    + eapply IH; eauto.
    + clear. induction rest as [|x r IHr]; cbn; auto.
Qed.

Lemma lookup_missing (s : physfs) p :
  pwf (p_tree s) -> p_tree s !! p = None -> match lookup_path s p with Found _ => False | _ => True end.
Proof.
  intros Hwf Hm. unfold lookup_path. destruct Hwf as [(r & Hr & Hk) Hpc].
  rewrite Hr. eapply walk_missing; eauto. split; [exists r; auto|exact Hpc].
Qed.

(** a path missing from an existing directory is ENOENT *)
Lemma lookup_noent (s : physfs) p n :
  pwf (p_tree s) -> p_is_dir (p_tree s) p -> p_tree s !! (p ++ [n]) = None -> lookup_path s (p ++ [n]) = NoEnt.
Proof.
  intros Hwf (d & Hd & Hk) Hm. unfold lookup_path.
  destruct Hwf as [(r & Hr & Hrk) Hpc]. rewrite Hr.
  (* walk to p, then one more step *)
  assert (H : forall rest done x, p_tree s !! done = Some x -> done ++ rest = p ->
              walk_from (p_tree s) done (Found x) (rest ++ [n]) = NoEnt).
  { induction rest as [|c rest IH]; intros done x Hx Hp.
    - rewrite app_nil_r in Hp. subst done. cbn. assert (x = d) by congruence. subst x. rewrite Hk, Hm. reflexivity.
    - cbn [app walk_from].
      assert (Hdd : p_is_dir (p_tree s) done).
      { eapply (ancestors_dirs (p_tree s) done (c :: rest)); [split; [exists r; auto|exact Hpc]| |discriminate].
        rewrite Hp. exact Hd. }
      destruct Hdd as (y & Hy & Hyk). assert (y = x) by congruence. subst y. rewrite Hyk.
      assert (Hnext : is_Some (p_tree s !! (done ++ [c]))).
      { destruct rest as [|c' rest'].
        - rewrite Hp. eauto.
        - assert (Hq : p_is_dir (p_tree s) (done ++ [c])).
          { eapply (ancestors_dirs (p_tree s) (done ++ [c]) (c' :: rest')); [split; [exists r; auto|exact Hpc]| |discriminate].
            rewrite <- app_assoc. cbn. rewrite Hp. exact Hd. }
          destruct Hq as (z & Hz & _). eauto. }
      destruct Hnext as [z Hz]. rewrite Hz. apply IH; [exact Hz|]. now rewrite <- app_assoc. }
  apply (H p [] r Hr). reflexivity.
Qed.

(** ** the public path API on a PhysicalFS instance refines the abstract tree *)
Arguments phys_step : simpl never.

Definition pstore (s : physfs) (hs : list hstate) (lg : list (nat * fscall)) (ft : option (nat * nat)) : store :=
  mkStore [BPhys s] hs lg ft IoOff.
Definition pv : vfs := mkVfs 0 (fun c => Call (BFs 0 c) Ret).

Definition pabsn (s : physfs) (n : pnode) : node :=
  match pn_kind n with PDir => NDir | PFile ino => NFile (phys_inode s ino) end.
Definition pabs (s : physfs) : tree := pabsn s <$> p_tree s.

Lemma pabs_lookup (s : physfs) p : pabs s !! p = pabsn s <$> (p_tree s !! p).
Proof. unfold pabs. apply lookup_fmap. Qed.

Lemma pabs_dir (s : physfs) p : pabs s !! p = Some NDir <-> p_is_dir (p_tree s) p.
Proof.
  rewrite pabs_lookup. unfold p_is_dir, pabsn. split.
  - destruct (p_tree s !! p) as [n|]; cbn; [|discriminate]. destruct (pn_kind n) eqn:E; [eauto|discriminate].
  - intros (d & -> & Hk). cbn. now rewrite Hk.
Qed.

(** stamping a directory's mtime is invisible in the abstract tree *)
Lemma pabs_touch (s : physfs) (t : ptree) d :
  pabsn s <$> touch_dir t d = pabsn s <$> t.
Proof.
  unfold touch_dir. destruct (t !! d) as [n|] eqn:E; [|reflexivity].
  rewrite fmap_insert. apply insert_id. rewrite lookup_fmap, E. reflexivity.
Qed.

Lemma pwf_touch (t : ptree) d : pwf t -> pwf (touch_dir t d).
Proof.
  intros [Hr Hpc]. unfold touch_dir. destruct (t !! d) as [n|] eqn:E; [|split; assumption].
  assert (Hsame : forall q, p_is_dir t q -> p_is_dir (<[d := mkPNode (pn_kind n) TAuto (pn_atime n)]> t) q).
  { intros q (x & Hx & Hk). destruct (decide (q = d)) as [->|Hne].
    - eexists. rewrite lookup_insert. split; [reflexivity|]. cbn. congruence.
    - exists x. rewrite lookup_insert_ne by congruence. auto. }
  split; [now apply Hsame|].
  intros p m x Hx. apply Hsame. destruct (decide (d = p ++ [m])) as [->|Hne].
  - eapply Hpc, E.
  - rewrite lookup_insert_ne in Hx by congruence. eapply Hpc, Hx.
Qed.

Section PCalls.
  Variables (hs : list hstate) (lg : list (nat * fscall)) (ft : option (nat * nat)).
  Notation PS s := (pstore s hs lg ft).

  Lemma pcall_exists (s : physfs) p :
    run bhandler (vp_exists pv p) (PS s) =
    (PS s, Ok (match lookup_path s p with Found _ => true | _ => false end)).
  Proof. reflexivity. Qed.

  Lemma pexists_wf (s : physfs) p : pwf (p_tree s) ->
    (match lookup_path s p with Found _ => true | _ => false end) = bool_decide (is_Some (p_tree s !! p)).
  Proof.
    intros Hwf. destruct (p_tree s !! p) as [n|] eqn:E.
    - rewrite (lookup_found s p n Hwf E). symmetry. apply bool_decide_eq_true. eauto.
    - pose proof (lookup_missing s p Hwf E) as H. destruct (lookup_path s p); [contradiction| |];
        symmetry; apply bool_decide_eq_false; intros [? ?]; discriminate.
  Qed.

  Theorem prefine_exists (s : physfs) p : pwf (p_tree s) ->
    run bhandler (vp_exists pv p) (PS s) = (PS s, Ok (spec_exists (pabs s) p)).
  Proof.
    intros Hwf. rewrite pcall_exists, (pexists_wf s p Hwf). unfold spec_exists. rewrite pabs_lookup.
    f_equal. f_equal. apply bool_decide_ext. destruct (p_tree s !! p); cbn; split; intros [? ?]; eauto; discriminate.
  Qed.

  Lemma pcall_create_dir (s : physfs) p :
    run bhandler (labelled (v_impl pv (CCreateDir p)) p) (PS s) =
    (PS (fst (phys_step (CCreateDir p) s)), map_err (snd (phys_step (CCreateDir p) s)) (fun e => with_path e (PPath p))).
  Proof. cbn. unfold phys_fs_call. destruct (phys_step (CCreateDir p) s) as [s' r]. reflexivity. Qed.
  Lemma pcall_remove_file (s : physfs) p :
    run bhandler (vp_remove_file pv p) (PS s) =
    (PS (fst (phys_step (CRemoveFile p) s)), map_err (snd (phys_step (CRemoveFile p) s)) (fun e => with_path e (PPath p))).
  Proof. cbn. unfold phys_fs_call. destruct (phys_step (CRemoveFile p) s) as [s' r]. reflexivity. Qed.
  Lemma pcall_remove_dir (s : physfs) p :
    run bhandler (vp_remove_dir pv p) (PS s) =
    (PS (fst (phys_step (CRemoveDir p) s)), map_err (snd (phys_step (CRemoveDir p) s)) (fun e => with_path e (PPath p))).
  Proof. cbn. unfold phys_fs_call. destruct (phys_step (CRemoveDir p) s) as [s' r]. reflexivity. Qed.

  (** remove_file: exact effect; the outcome class is the contract's whenever the contract fixes it
      (the target exists, or it is missing from an existing directory) *)
  Theorem prefine_remove_file (s : physfs) p : pwf (p_tree s) ->
    exists s' r, run bhandler (vp_remove_file pv p) (PS s) = (PS s', r) /\
      pabs s' = fst (spec_remove_file (pabs s) p) /\ pwf (p_tree s') /\
      (class_of r = KOk <-> snd (spec_remove_file (pabs s) p) = KOk) /\
      (is_Some (pabs s !! p) \/ parent_dir (pabs s) p -> class_of r = snd (spec_remove_file (pabs s) p)).
  Proof.
    intros Hwf. rewrite pcall_remove_file. unfold phys_step, spec_remove_file. rewrite pabs_lookup.
    destruct (p_tree s !! p) as [n|] eqn:E.
    - rewrite (lookup_found s p n Hwf E). cbn [fmap option_fmap option_map].
      destruct (pn_kind n) as [|ino] eqn:Hk.
      + assert (Hn : pabsn s n = NDir) by (unfold pabsn; now rewrite Hk). rewrite Hn. cbn [fst snd].
        exists s. eexists. split; [reflexivity|]. cbn.
        split; [reflexivity|]. split; [exact Hwf|]. split; [split; discriminate|reflexivity].
      + assert (Hn : pabsn s n = NFile (phys_inode s ino)) by (unfold pabsn; now rewrite Hk). rewrite Hn. cbn [fst snd].
        eexists. eexists. split; [reflexivity|]. cbn [fst snd set_tree p_tree].
        split; [|split; [|split; [split; reflexivity|reflexivity]]].
        * unfold pabs at 1. cbn [p_tree set_tree]. rewrite pabs_touch.
          change (pabsn (set_tree s _)) with (pabsn s). now rewrite fmap_delete.
        * apply pwf_touch. destruct Hwf as [Hr Hpc]. split.
          -- destruct Hr as (r & Hr & Hrk). exists r. rewrite lookup_delete_ne; [auto|]. intros ->. congruence.
          -- intros q m x Hx. apply lookup_delete_Some in Hx as [Hne Hx].
             destruct (Hpc q m x Hx) as (d & Hd & Hdk). exists d. rewrite lookup_delete_ne; [auto|]. intros ->. congruence.
    - cbn [fmap option_fmap option_map fst snd].
      pose proof (lookup_missing s p Hwf E) as Hmiss.
      assert (Hnoent : parent_dir (pabs s) p -> lookup_path s p = NoEnt).
      { intros [Hne Hpar]. apply pabs_dir in Hpar.
        destruct (path_cases p) as [->|(q & m & ->)]; [congruence|]. rewrite removelast_last in Hpar.
        now apply lookup_noent. }
      destruct (lookup_path s p) as [x| |] eqn:El; [contradiction| |].
      + exists s. eexists. split; [reflexivity|]. cbn. split; [reflexivity|]. split; [exact Hwf|].
        split; [split; discriminate|reflexivity].
      + exists s. eexists. split; [reflexivity|]. cbn. split; [reflexivity|]. split; [exact Hwf|].
        split; [split; discriminate|].
        intros [[x Hx]|Hpar]; [discriminate|]. specialize (Hnoent Hpar). discriminate.
  Qed.
  Theorem prefine_remove_dir (s : physfs) p : pwf (p_tree s) -> p <> [] ->
    exists s' r, run bhandler (vp_remove_dir pv p) (PS s) = (PS s', r) /\
      pabs s' = fst (spec_remove_dir (pabs s) p (bool_decide (phys_children s p = []))) /\ pwf (p_tree s') /\
      (class_of r = KOk <-> snd (spec_remove_dir (pabs s) p (bool_decide (phys_children s p = []))) = KOk) /\
      (is_Some (pabs s !! p) \/ parent_dir (pabs s) p ->
       class_of r = snd (spec_remove_dir (pabs s) p (bool_decide (phys_children s p = [])))).
  Proof.
    intros Hwf Hne. rewrite pcall_remove_dir. unfold phys_step, spec_remove_dir. rewrite pabs_lookup.
    destruct (p_tree s !! p) as [n|] eqn:E.
    - rewrite (lookup_found s p n Hwf E). cbn [fmap option_fmap option_map].
      destruct (pn_kind n) as [|ino] eqn:Hk.
      + assert (Hn : pabsn s n = NDir) by (unfold pabsn; now rewrite Hk). rewrite Hn.
        destruct (phys_children s p) as [|c cs] eqn:Ec.
        * rewrite bool_decide_eq_true_2 by reflexivity. cbn [fst snd].
          eexists. eexists. split; [reflexivity|]. cbn [fst snd set_tree p_tree].
          split; [|split; [|split; [split; reflexivity|reflexivity]]].
          -- unfold pabs at 1. cbn [p_tree set_tree]. rewrite pabs_touch.
             change (pabsn (set_tree s _)) with (pabsn s). now rewrite fmap_delete.
          -- apply pwf_touch. destruct Hwf as [Hr Hpc]. split.
             ++ destruct Hr as (r & Hr & Hrk). exists r. rewrite lookup_delete_ne; [auto|]. congruence.
             ++ intros q m x Hx. apply lookup_delete_Some in Hx as [Hne' Hx].
                destruct (Hpc q m x Hx) as (d & Hd & Hdk). exists d. rewrite lookup_delete_ne; [auto|].
                intros ->. (* a child of p would be listed *)
                assert (Hin : m ∈ phys_children s q).
                { unfold phys_children. rewrite sort_names_elem, elem_of_list_omap.
                  exists (q ++ [m], x). split; [now apply elem_of_map_to_list|]. now apply child_of_spec. }
                rewrite Ec in Hin. now apply elem_of_nil in Hin.
        * rewrite bool_decide_eq_false_2 by discriminate. cbn [fst snd].
          exists s. eexists. split; [reflexivity|]. cbn.
          split; [reflexivity|]. split; [exact Hwf|]. split; [split; discriminate|reflexivity].
      + assert (Hn : pabsn s n = NFile (phys_inode s ino)) by (unfold pabsn; now rewrite Hk). rewrite Hn. cbn [fst snd].
        exists s. eexists. split; [reflexivity|]. cbn.
        split; [reflexivity|]. split; [exact Hwf|]. split; [split; discriminate|reflexivity].
    - cbn [fmap option_fmap option_map fst snd].
      pose proof (lookup_missing s p Hwf E) as Hmiss.
      assert (Hnoent : parent_dir (pabs s) p -> lookup_path s p = NoEnt).
      { intros [Hne' Hpar]. apply pabs_dir in Hpar.
        destruct (path_cases p) as [->|(q & m & ->)]; [congruence|]. rewrite removelast_last in Hpar.
        now apply lookup_noent. }
      destruct (lookup_path s p) as [x| |] eqn:El; [contradiction| |].
      + exists s. eexists. split; [reflexivity|]. cbn. split; [reflexivity|]. split; [exact Hwf|].
        split; [split; discriminate|reflexivity].
      + exists s. eexists. split; [reflexivity|]. cbn. split; [reflexivity|]. split; [exact Hwf|].
        split; [split; discriminate|].
        intros [[x Hx]|Hpar]; [discriminate|]. specialize (Hnoent Hpar). discriminate.
  Qed.
End PCalls.

(** ** MemoryFS and the modelled PhysicalFS agree (C02) *)
From VFS Require Import Proofs.MemCalls Proofs.MemPublic.

Section Agree.
  Variables (hs hs' : list hstate) (lg lg' : list (nat * fscall)) (ft ft' : option (nat * nat)).

  (** from related states, remove_file succeeds on one backend iff it succeeds on the other, the
      not-found class coincides whenever the contracts fix it, and the states stay related *)
  Theorem agree_remove_file (s : gmap (list (list N)) memfile) (ps : physfs) p :
    wf s -> pwf (p_tree ps) -> abs s = pabs ps ->
    exists s' r ps' r',
      run bhandler (vp_remove_file mv p) (mstore s hs lg ft) = (mstore s' hs lg ft, r) /\
      run bhandler (vp_remove_file pv p) (pstore ps hs' lg' ft') = (pstore ps' hs' lg' ft', r') /\
      abs s' = pabs ps' /\ wf s' /\ pwf (p_tree ps') /\
      (class_of r = KOk <-> class_of r' = KOk) /\
      (is_Some (abs s !! p) \/ parent_dir (abs s) p -> class_of r = class_of r').
  Proof.
    intros Hwf Hpwf Hrel.
    destruct (refine_remove_file hs lg ft s p Hwf) as (s' & r & E1 & A1 & C1 & W1).
    destruct (prefine_remove_file hs' lg' ft' ps p Hpwf) as (ps' & r' & E2 & A2 & W2 & C2 & C3).
    exists s', r, ps', r'.
    split; [exact E1|]. split; [exact E2|]. split; [rewrite A1, A2, Hrel; reflexivity|].
    split; [exact W1|]. split; [exact W2|]. split.
    - rewrite C1, Hrel. symmetry. exact C2.
    - intros H. rewrite C1, Hrel. symmetry. apply C3. now rewrite <- Hrel.
  Qed.

  Lemma pchildren_nil_abs (ps : physfs) p : phys_children ps p = [] <-> t_empty (pabs ps) p.
  Proof.
    unfold t_empty. split.
    - intros H n. rewrite pabs_lookup. destruct (p_tree ps !! (p ++ [n])) as [x|] eqn:E; [|reflexivity].
      assert (Hin : n ∈ phys_children ps p).
      { unfold phys_children. rewrite sort_names_elem, elem_of_list_omap.
        exists (p ++ [n], x). split; [now apply elem_of_map_to_list|]. now apply child_of_spec. }
      rewrite H in Hin. now apply elem_of_nil in Hin.
    - intros H. destruct (phys_children ps p) as [|n l] eqn:E; [reflexivity|].
      assert (Hin : n ∈ phys_children ps p) by (rewrite E; apply elem_of_cons; auto).
      unfold phys_children in Hin. rewrite sort_names_elem, elem_of_list_omap in Hin.
      destruct Hin as ([k x] & Hk & Hc). apply elem_of_map_to_list in Hk. apply child_of_spec in Hc. cbn in Hc. subst k.
      specialize (H n). rewrite pabs_lookup, Hk in H. discriminate.
  Qed.

  Theorem agree_remove_dir (s : gmap (list (list N)) memfile) (ps : physfs) p :
    wf s -> pwf (p_tree ps) -> abs s = pabs ps -> p <> [] ->
    exists s' r ps' r',
      run bhandler (vp_remove_dir mv p) (mstore s hs lg ft) = (mstore s' hs lg ft, r) /\
      run bhandler (vp_remove_dir pv p) (pstore ps hs' lg' ft') = (pstore ps' hs' lg' ft', r') /\
      abs s' = pabs ps' /\ wf s' /\ pwf (p_tree ps') /\
      (class_of r = KOk <-> class_of r' = KOk) /\
      (is_Some (abs s !! p) \/ parent_dir (abs s) p -> class_of r = class_of r').
  Proof.
    intros Hwf Hpwf Hrel Hne.
    destruct (refine_remove_dir hs lg ft s p Hwf Hne) as (s' & r & E1 & A1 & C1 & W1).
    destruct (prefine_remove_dir hs' lg' ft' ps p Hpwf Hne) as (ps' & r' & E2 & A2 & W2 & C2 & C3).
    assert (Hemp : bool_decide (mem_children s p = []) = bool_decide (phys_children ps p = [])).
    { apply bool_decide_ext. rewrite (children_nil_abs s p), pchildren_nil_abs, Hrel. reflexivity. }
    rewrite Hemp in A1, C1.
    exists s', r, ps', r'.
    split; [exact E1|]. split; [exact E2|]. split; [rewrite A1, A2, Hrel; reflexivity|].
    split; [exact W1|]. split; [exact W2|]. split.
    - rewrite C1, Hrel. symmetry. exact C2.
    - intros H. rewrite C1, Hrel. symmetry. apply C3. now rewrite <- Hrel.
  Qed.

  Theorem agree_exists (s : gmap (list (list N)) memfile) (ps : physfs) p :
    pwf (p_tree ps) -> abs s = pabs ps ->
    snd (run bhandler (vp_exists mv p) (mstore s hs lg ft)) = snd (run bhandler (vp_exists pv p) (pstore ps hs' lg' ft')).
  Proof.
    intros Hpwf Hrel. rewrite refine_exists, (prefine_exists hs' lg' ft' ps p Hpwf). cbn. now rewrite Hrel.
  Qed.
End Agree.
