(** C09 / C10: what an overlay of two MemoryFS layers lists: the children of the directory in every
    layer in which it is a directory, merged, minus the names whose deletion marker is present - for
    arbitrary layer contents. *)
From stdpp Require Import gmap list sorting.
From Coq Require Import NArith ZArith Lia.
From VFS Require Import Core.Types Core.Prog Core.Calls Base.MemFS Base.Handles Base.PhysFS Base.Embedded Base.Store
  Layer.VfsPath Layer.Overlay Proofs.ProgProofs Proofs.MemProofs Proofs.MemCalls Proofs.MemPublic Proofs.OvlProofs.

(** ** the two folds of read_dir, as sets *)
Lemma elem_of_add_name (n m : name) (a : list name) : n ∈ add_name m a <-> n = m \/ n ∈ a.
Proof.
  unfold add_name. case_bool_decide as H.
  - split; [auto|]. intros [->|Hn]; assumption.
  - rewrite elem_of_app, elem_of_list_singleton. tauto.
Qed.

Lemma merge_fold (p : path) (names : list name) : forall (acc : list name) n,
  n ∈ foldl (fun a q => match last q with Some m => add_name m a | None => a end) acc (map (fun m => p ++ [m]) names)
  <-> n ∈ acc \/ n ∈ names.
Proof.
  induction names as [|m names IH]; intros acc n; cbn [map foldl].
  - rewrite elem_of_nil. tauto.
  - rewrite last_snoc, IH, elem_of_add_name, elem_of_cons. tauto.
Qed.

Lemma strip_app (x : name) : strip_wo (x ++ wo_suffix) = x.
Proof.
  unfold strip_wo. rewrite app_length. cbn. replace (length x + 3 - 3)%nat with (length x) by lia. now rewrite take_app.
Qed.
Lemma ends_app (x : name) : ends_with_wo (x ++ wo_suffix) = true.
Proof.
  unfold ends_with_wo. apply bool_decide_eq_true. rewrite app_length. cbn. split; [|lia].
  replace (length x + 3 - 3)%nat with (length x) by lia. now rewrite drop_app.
Qed.
Lemma ends_strip (m : name) : ends_with_wo m = true -> m = strip_wo m ++ wo_suffix.
Proof.
  unfold ends_with_wo, strip_wo. intros H. apply bool_decide_eq_true in H as [H _].
  rewrite <- H. symmetry. apply take_drop.
Qed.

Lemma subtract_fold (d : path) (markers : list name) : forall (acc : list name) n,
  n ∈ foldl (fun a q => match last q with
                        | Some m => if ends_with_wo m then remove_name (strip_wo m) a else a
                        | None => a
                        end) acc (map (fun m => d ++ [m]) markers)
  <-> n ∈ acc /\ (n ++ wo_suffix) ∉ markers.
Proof.
  induction markers as [|m markers IH]; intros acc n; cbn [map foldl].
  - rewrite elem_of_nil. tauto.
  - rewrite last_snoc, IH, not_elem_of_cons. destruct (ends_with_wo m) eqn:E.
    + rewrite remove_name_elem. split.
      * intros [[Hne Hin] Hm]. split; [exact Hin|]. split; [|exact Hm].
        intros Heq. apply Hne. subst m. symmetry. apply strip_app.
      * intros [Hin [Hne Hm]]. split; [|exact Hm]. split; [|exact Hin].
        intros Heq. apply Hne. rewrite Heq. symmetry. now apply ends_strip.
    + split.
      * intros [Hin Hm]. split; [exact Hin|]. split; [|exact Hm]. intros Heq. subst m. now rewrite ends_app in E.
      * intros [Hin [_ Hm]]. auto.
Qed.

Section TwoLayerListing.
  Variables (hs : list hstate) (lg : list (nat * fscall)) (ft : option (nat * nat)).
  Notation S2 a b := (mstore2 a b hs lg ft).
  Notation top := (v0, @nil (list N)).
  Notation lower := [(v1, @nil (list N))].

  Lemma md0 (s0 s1 : mstate) p : run bhandler (vp_metadata v0 p) (S2 s0 s1) =
    (S2 s0 s1, match s0 !! p with Some f => Ok (mem_meta f) | None => Err (mkErr ENotFound (PPath p)) end).
  Proof. cbn. unfold mem_fs_call. rewrite mem_metadata. cbn. destruct (s0 !! p); reflexivity. Qed.
  Lemma md1 (s0 s1 : mstate) p : run bhandler (vp_metadata v1 p) (S2 s0 s1) =
    (S2 s0 s1, match s1 !! p with Some f => Ok (mem_meta f) | None => Err (mkErr ENotFound (PPath p)) end).
  Proof. cbn. unfold mem_fs_call. rewrite mem_metadata. cbn. destruct (s1 !! p); reflexivity. Qed.

  Definition listing (s : mstate) p : res (list path) :=
    match s !! p with
    | None => Err (mkErr ENotFound (PPath p))
    | Some f => match f_type f with
                | File => Err (mkErr EOther (PPath p))
                | Dir => Ok (map (fun n => p ++ [n]) (mem_children s p))
                end
    end.
  Lemma rd0 (s0 s1 : mstate) p : run bhandler (vp_read_dir v0 p) (S2 s0 s1) = (S2 s0 s1, listing s0 p).
  Proof. cbn. unfold mem_fs_call, listing. rewrite mem_read_dir. cbn. destruct (s0 !! p) as [f|]; [destruct (f_type f)|]; reflexivity. Qed.
  Lemma rd1 (s0 s1 : mstate) p : run bhandler (vp_read_dir v1 p) (S2 s0 s1) = (S2 s0 s1, listing s1 p).
  Proof. cbn. unfold mem_fs_call, listing. rewrite mem_read_dir. cbn. destruct (s1 !! p) as [f|]; [destruct (f_type f)|]; reflexivity. Qed.

  Lemma isdir0 (s0 s1 : mstate) p : run bhandler (vp_is_dir v0 p) (S2 s0 s1) = (S2 s0 s1, Ok (bool_decide (is_dir s0 p))).
  Proof.
    unfold vp_is_dir, bind_res. rewrite run_bind, exists0.
    destruct (s0 !! p) as [f|] eqn:E.
    - rewrite bool_decide_eq_true_2 by eauto. cbn [negb]. rewrite run_bind, md0, E. cbn [run mem_meta m_type].
      f_equal. f_equal. apply bool_decide_ext. unfold is_dir. rewrite E. split; [eauto|]. intros (g & [= <-] & Hg). exact Hg.
    - rewrite bool_decide_eq_false_2 by (intros [? ?]; congruence). cbn [negb run].
      f_equal. f_equal. symmetry. apply bool_decide_eq_false. intros (g & Hg & _). congruence.
  Qed.
  Lemma isdir1 (s0 s1 : mstate) p : run bhandler (vp_is_dir v1 p) (S2 s0 s1) = (S2 s0 s1, Ok (bool_decide (is_dir s1 p))).
  Proof.
    unfold vp_is_dir, bind_res. rewrite run_bind, exists1.
    destruct (s1 !! p) as [f|] eqn:E.
    - rewrite bool_decide_eq_true_2 by eauto. cbn [negb]. rewrite run_bind, md1, E. cbn [run mem_meta m_type].
      f_equal. f_equal. apply bool_decide_ext. unfold is_dir. rewrite E. split; [eauto|]. intros (g & [= <-] & Hg). exact Hg.
    - rewrite bool_decide_eq_false_2 by (intros [? ?]; congruence). cbn [negb run].
      f_equal. f_equal. symmetry. apply bool_decide_eq_false. intros (g & Hg & _). congruence.
  Qed.

  Lemma listing_dir (s : mstate) p : is_dir s p -> listing s p = Ok (map (fun n => p ++ [n]) (mem_children s p)).
  Proof. intros (f & Hf & Ht). unfold listing. now rewrite Hf, Ht. Qed.

  (** the merged names of the two layers *)
  Definition merged (s0 s1 : mstate) (p : path) : list name :=
    let a0 := if bool_decide (is_dir s0 p)
              then foldl (fun a q => match last q with Some m => add_name m a | None => a end) [] (map (fun n => p ++ [n]) (mem_children s0 p))
              else [] in
    if bool_decide (is_dir s1 p)
    then foldl (fun a q => match last q with Some m => add_name m a | None => a end) a0 (map (fun n => p ++ [n]) (mem_children s1 p))
    else a0.

  Lemma gather_two (s0 s1 : mstate) p :
    run bhandler (gather (layers top lower) p []) (S2 s0 s1) = (S2 s0 s1, Ok (merged s0 s1 p)).
  Proof.
    unfold layers, merged. cbn [gather fst snd app]. unfold bind_res.
    rewrite run_bind, isdir0. case_bool_decide as H0.
    - rewrite run_bind, rd0, (listing_dir s0 p H0). rewrite run_bind, isdir1. case_bool_decide as H1.
      + rewrite run_bind, rd1, (listing_dir s1 p H1). reflexivity.
      + reflexivity.
    - rewrite run_bind, isdir1. case_bool_decide as H1.
      + rewrite run_bind, rd1, (listing_dir s1 p H1). reflexivity.
      + reflexivity.
  Qed.

  Lemma elem_of_merged (s0 s1 : mstate) p n :
    n ∈ merged s0 s1 p <->
    (is_dir s0 p /\ is_Some (s0 !! (p ++ [n]))) \/ (is_dir s1 p /\ is_Some (s1 !! (p ++ [n]))).
  Proof.
    unfold merged. repeat case_bool_decide; rewrite ?merge_fold, ?elem_of_nil, <- ?mem_children_spec; tauto.
  Qed.

  (** the listing of a directory of the overlay *)
  Theorem read_dir_rule (s0 s1 : mstate) (p : path) :
    parent_closed s0 -> p <> [] ->
    s0 !! whiteout_path top p = None ->                                   (* p itself is not deleted *)
    (is_dir s0 p \/ (s0 !! p = None /\ is_dir s1 p)) ->                   (* it is served as a directory *)
    (s0 !! (whiteout_name :: p) = None \/ is_dir s0 (whiteout_name :: p)) ->   (* the marker directory, if any *)
    exists l, run bhandler (ovl_read_dir top lower p) (S2 s0 s1) = (S2 s0 s1, Ok l) /\
      forall n, n ∈ l <->
        ((is_dir s0 p /\ is_Some (s0 !! (p ++ [n]))) \/ (is_dir s1 p /\ is_Some (s1 !! (p ++ [n])))) /\
        s0 !! whiteout_path top (p ++ [n]) = None.
  Proof.
    intros Hpc Hp Hwo Hserved Hwdir.
    unfold ovl_read_dir. unfold bind_res at 1. rewrite run_bind, (read_path_rule hs lg ft s0 s1 p Hp).
    (* the serving layer and its metadata *)
    assert (Hmeta : exists lp, (if bool_decide (is_Some (s0 !! p)) then Ok (v0, p)
                                else if bool_decide (is_Some (s0 !! whiteout_path top p)) then fail ENotFound
                                else if bool_decide (is_Some (s1 !! p)) then Ok (v1, p) else fail ENotFound) = Ok lp /\
                    exists md, run bhandler (vp_metadata (fst lp) (snd lp)) (S2 s0 s1) = (S2 s0 s1, Ok md) /\ m_type md = Dir).
    { destruct Hserved as [(f & Hf & Ht)|[Hn (f & Hf & Ht)]].
      - rewrite bool_decide_eq_true_2 by eauto. eexists. split; [reflexivity|]. cbn [fst snd].
        rewrite md0, Hf. eexists. split; [reflexivity|exact Ht].
      - rewrite bool_decide_eq_false_2 by (rewrite Hn; intros [? ?]; discriminate).
        rewrite bool_decide_eq_false_2 by (rewrite Hwo; intros [? ?]; discriminate).
        rewrite bool_decide_eq_true_2 by eauto. eexists. split; [reflexivity|]. cbn [fst snd].
        rewrite md1, Hf. eexists. split; [reflexivity|exact Ht]. }
    destruct Hmeta as (lp & -> & md & Hmd & Hty).
    unfold bind_res at 1. rewrite run_bind, Hmd, Hty.
    unfold bind_res at 1. rewrite run_bind, gather_two.
    cbn [fst snd app]. unfold bind_res at 1. rewrite run_bind, exists0.
    assert (Hwp : forall n, whiteout_path top (p ++ [n]) = (whiteout_name :: p) ++ [n ++ wo_suffix]).
    { intros n. unfold whiteout_path. rewrite reverse_snoc. cbn [fst snd app]. now rewrite reverse_involutive. }
    destruct Hwdir as [Hnone|Hdir].
    - (* no marker directory: nothing is subtracted *)
      rewrite Hnone. rewrite bool_decide_eq_false_2 by (intros [? ?]; discriminate).
      destruct p as [|x p']; [congruence|]. cbn [run].
      eexists. split; [reflexivity|]. intros n. rewrite sort_names_elem, elem_of_merged.
      split; [|tauto]. intros H. split; [exact H|]. rewrite Hwp.
      destruct (s0 !! ((whiteout_name :: x :: p') ++ [n ++ wo_suffix])) as [g|] eqn:Eg; [|reflexivity].
      exfalso. destruct (Hpc _ _ _ Eg) as (d & Hd & _). congruence.
    - (* the markers of the directory are subtracted *)
      destruct Hdir as (d & Hd & Hdt). rewrite Hd. rewrite bool_decide_eq_true_2 by eauto.
      unfold bind_res at 1. rewrite run_bind. unfold bind_res at 1. rewrite run_bind, rd0.
      unfold listing. rewrite Hd, Hdt. cbn [run].
      destruct p as [|x p']; [congruence|]. cbn [run].
      eexists. split; [reflexivity|]. intros n.
      rewrite sort_names_elem, subtract_fold, elem_of_merged, Hwp.
      rewrite mem_children_spec. split.
      + intros [H Hm]. split; [exact H|].
        destruct (s0 !! ((whiteout_name :: x :: p') ++ [n ++ wo_suffix])) as [g|] eqn:Eg; [exfalso; apply Hm; eauto|reflexivity].
      + intros [H Hm]. split; [exact H|]. rewrite Hm. intros [? ?]. discriminate.
  Qed.

  (** metadata and bytes come from the first layer that has the path, unless it is deleted *)
  Theorem metadata_rule (s0 s1 : mstate) (p : path) : p <> [] ->
    run bhandler (ovl_metadata top lower p) (S2 s0 s1) =
    (S2 s0 s1,
     match s0 !! p with
     | Some f => Ok (mem_meta f)
     | None =>
         if bool_decide (is_Some (s0 !! whiteout_path top p)) then fail ENotFound
         else match s1 !! p with
              | Some f => Ok (mem_meta f)
              | None => fail ENotFound
              end
     end).
  Proof.
    intros Hp. unfold ovl_metadata, bind_res. rewrite run_bind, (read_path_rule hs lg ft s0 s1 p Hp).
    destruct (s0 !! p) as [f|] eqn:E0.
    - rewrite bool_decide_eq_true_2 by eauto. cbn [fst snd]. rewrite md0, E0. reflexivity.
    - rewrite bool_decide_eq_false_2 by (intros [? ?]; discriminate).
      case_bool_decide; [reflexivity|].
      destruct (s1 !! p) as [f|] eqn:E1.
      + rewrite bool_decide_eq_true_2 by eauto. cbn [fst snd]. rewrite md1, E1. reflexivity.
      + rewrite bool_decide_eq_false_2 by (intros [? ?]; discriminate). reflexivity.
  Qed.

  (** open_file: the reader holds the bytes of the serving layer's file; a file that exists only in
      the lower layer is read from there (and - finding D20 - gets its access time stamped) *)
  Theorem open_file_upper (s0 s1 : mstate) (p : path) f : p <> [] ->
    s0 !! p = Some f -> f_type f = File ->
    run bhandler (ovl_impl top lower (COpenFile p)) (S2 s0 s1) =
    (mstore2 (<[p := mkMemFile File (f_content f) (f_created f) (f_modified f) (Some TAuto)]> s0) s1
             (hs ++ [HMemReader (f_content f) 0]) lg ft, Ok (length hs)).
  Proof.
    intros Hp Hf Ht. cbn [ovl_impl]. unfold bind_res. rewrite run_bind, (read_path_rule hs lg ft s0 s1 p Hp).
    rewrite bool_decide_eq_true_2 by eauto. cbn [fst snd].
    cbn. unfold mem_fs_call. rewrite ms_open_file. cbn [msec_sem]. rewrite Hf, Ht. reflexivity.
  Qed.

  Theorem open_file_lower (s0 s1 : mstate) (p : path) f : p <> [] ->
    s0 !! whiteout_path top p = None -> s0 !! p = None -> s1 !! p = Some f -> f_type f = File ->
    run bhandler (ovl_impl top lower (COpenFile p)) (S2 s0 s1) =
    (mstore2 s0 (<[p := mkMemFile File (f_content f) (f_created f) (f_modified f) (Some TAuto)]> s1)
             (hs ++ [HMemReader (f_content f) 0]) lg ft, Ok (length hs)).
  Proof.
    intros Hp Hwo Hn Hf Ht. cbn [ovl_impl]. unfold bind_res. rewrite run_bind, (read_path_rule hs lg ft s0 s1 p Hp).
    rewrite bool_decide_eq_false_2 by (rewrite Hn; intros [? ?]; discriminate).
    rewrite bool_decide_eq_false_2 by (rewrite Hwo; intros [? ?]; discriminate).
    rewrite bool_decide_eq_true_2 by eauto. cbn [fst snd].
    cbn. unfold mem_fs_call. rewrite ms_open_file. cbn [msec_sem]. rewrite Hf, Ht. reflexivity.
  Qed.
  (** ** C05 on the overlay: the listing of a directory and exists tell one story - a name is listed by its
      parent iff the child exists through the overlay.  The hypothesis on markers is the invariant the
      overlay keeps between calls: an entry of the write layer has no marker (create removes it after
      creating, remove sets it after removing) *)
  Theorem listing_matches_exists (s0 s1 : mstate) (p : path) :
    wf s0 -> wf s1 -> p <> [] ->
    s0 !! whiteout_path top p = None ->
    (is_dir s0 p \/ (s0 !! p = None /\ is_dir s1 p)) ->
    (s0 !! (whiteout_name :: p) = None \/ is_dir s0 (whiteout_name :: p)) ->
    (forall n, is_Some (s0 !! (p ++ [n])) -> s0 !! whiteout_path top (p ++ [n]) = None) ->
    exists l, run bhandler (ovl_read_dir top lower p) (S2 s0 s1) = (S2 s0 s1, Ok l) /\
      forall n, n ∈ l <-> run bhandler (ovl_exists top lower (p ++ [n])) (S2 s0 s1) = (S2 s0 s1, Ok true).
  Proof.
    intros Hwf0 Hwf1 Hp Hwo Hserved Hwdir Hinv.
    destruct (read_dir_rule s0 s1 p (proj2 Hwf0) Hp Hwo Hserved Hwdir) as (l & Hrun & Hl).
    exists l. split; [exact Hrun|]. intros n.
    rewrite (exists_rule hs lg ft s0 s1 (p ++ [n])) by (destruct p; discriminate).
    rewrite Hl. split.
    - intros [[[_ H0]|[_ H1]] Hm].
      + rewrite bool_decide_eq_true_2 by exact H0. reflexivity.
      + rewrite Hm. rewrite (bool_decide_eq_false_2 (is_Some None)) by (intros [? ?]; discriminate).
        rewrite (bool_decide_eq_true_2 _ H1). cbn. rewrite orb_true_r. reflexivity.
    - intros E. injection E as E. apply orb_true_iff in E as [E|E].
      + apply bool_decide_eq_true in E. split; [|apply Hinv; exact E]. left. split; [|exact E].
        destruct E as [x Hx]. apply (proj2 Hwf0 p n x Hx).
      + apply andb_true_iff in E as [Em E1]. apply bool_decide_eq_true in E1. apply negb_true_iff, bool_decide_eq_false in Em.
        split.
        * right. split; [|exact E1]. destruct E1 as [x Hx]. apply (proj2 Hwf1 p n x Hx).
        * destruct (s0 !! whiteout_path top (p ++ [n])) eqn:E; [exfalso; apply Em; eauto|reflexivity].
  Qed.
End TwoLayerListing.
