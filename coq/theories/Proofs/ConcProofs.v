(** Concurrency theorems on the MemoryFS model (C16, C17).  Since the repair of the
    check-then-act windows every trait call of MemoryFS except open_file takes the lock exactly
    once, so at lock granularity a call is one atomic step. *)
From stdpp Require Import gmap list.
From Coq Require Import NArith ZArith Lia.
From VFS Require Import Core.Types Core.Prog Core.Calls Base.MemFS Layer.VfsPath
  Proofs.MemProofs Proofs.MemCalls.

Notation mstate := (gmap (list (list N)) memfile).

(** * C17: concurrent create_dir_all *)

(** a thread of create_dir_all: the directories it has dealt with and those still to create
    (VfsPath::create_dir_all calls FileSystem::create_dir for each prefix and tolerates
    DirectoryExists) *)
Record cthread := mkCT { ct_done : list (list (list N)); ct_todo : list (list (list N)) }.

Definition cstep (s : mstate) (t : cthread) : mstate * option cthread :=
  match ct_todo t with
  | [] => (s, Some t)
  | d :: rest =>
      let '(s', r) := mem_step (CCreateDir d) s in
      (s', match r with
           | Ok _ => Some (mkCT (ct_done t ++ [d]) rest)
           | Err e => match e_kind e with
                      | EDirExists => Some (mkCT (ct_done t ++ [d]) rest)
                      | _ => None             (* create_dir_all returns the error *)
                      end
           | Panic => None
           end)
  end.

(** any schedule: at each step one thread performs its next create_dir *)
Fixpoint crun (sch : list nat) (s : mstate) (pool : list (option cthread)) : mstate * list (option cthread) :=
  match sch with
  | [] => (s, pool)
  | t :: sch' =>
      match pool !! t with
      | Some (Some th) => let '(s', x) := cstep s th in crun sch' s' (<[t := x]> pool)
      | _ => crun sch' s pool
      end
  end.

Definition not_file (s : mstate) (d : list (list N)) : Prop := forall f, s !! d = Some f -> f_type f = Dir.

(** consecutive entries are parent and child *)
Fixpoint chain (prev : list (list N)) (ds : list (list (list N))) : Prop :=
  match ds with
  | [] => True
  | d :: rest => d <> [] /\ removelast d = prev /\ chain d rest
  end.

Definition good (s : mstate) (prev : list (list N)) (t : cthread) : Prop :=
  is_dir s prev /\ chain prev (ct_todo t) /\ Forall (not_file s) (ct_todo t) /\ Forall (is_dir s) (ct_done t).

(** the last directory a thread dealt with (the root before the first one) *)
Definition prev_of (t : cthread) : list (list N) := default [] (last (ct_done t)).

Definition pool_ok (s : mstate) (pool : list (option cthread)) : Prop :=
  Forall (fun x => exists t, x = Some t /\ good s (prev_of t) t) pool.

(** create_dir only ever adds directories *)
Lemma create_dir_mono (s : mstate) d :
  let s' := fst (mem_step (CCreateDir d) s) in
  (forall q, is_dir s q -> is_dir s' q) /\ (forall q, not_file s q -> not_file s' q).
Proof.
  cbn zeta. rewrite ms_create_dir. cbn [msec_sem].
  destruct (has_parent s d); [|cbn; auto].
  destruct (s !! d) as [f|] eqn:E; cbn [fst]; [auto|].
  split.
  - intros q (x & Hx & Ht). destruct (decide (q = d)) as [->|Hne]; [congruence|].
    exists x. rewrite lookup_insert_ne by congruence. auto.
  - intros q Hq f Hf. destruct (decide (q = d)) as [->|Hne].
    + rewrite lookup_insert in Hf. now inversion Hf.
    + rewrite lookup_insert_ne in Hf by congruence. eauto.
Qed.

Lemma good_mono (s : mstate) d prev t :
  good s prev t -> good (fst (mem_step (CCreateDir d) s)) prev t.
Proof.
  intros (Hp & Hc & Hn & Hd). destruct (create_dir_mono s d) as [M1 M2].
  repeat split; auto.
  - eapply Forall_impl; [exact Hn|]. intros; now apply M2.
  - eapply Forall_impl; [exact Hd|]. intros; now apply M1.
Qed.

(** a thread's own step succeeds (Ok or the tolerated DirectoryExists) and keeps it good *)
Lemma cstep_good (s : mstate) t :
  good s (prev_of t) t ->
  exists t', cstep s t = (fst (cstep s t), Some t') /\ good (fst (cstep s t)) (prev_of t') t' /\
             (ct_done t' ++ ct_todo t' = ct_done t ++ ct_todo t).
Proof.
  intros (Hp & Hc & Hn & Hd). unfold cstep.
  destruct (ct_todo t) as [|d rest] eqn:Et.
  { exists t. cbn [fst]. split; [reflexivity|]. split; [|now rewrite Et].
    unfold good. rewrite Et. repeat split; auto. }
  cbn [chain] in Hc. destruct Hc as (Hne & Hprev & Hc).
  inversion Hn as [|? ? Hnd Hnrest]; subst.
  assert (Hhp : has_parent s d = true).
  { unfold has_parent. destruct d as [|x d']; [congruence|]. rewrite Hprev.
    destruct Hp as (f & -> & ->). reflexivity. }
  rewrite ms_create_dir. cbn [msec_sem]. rewrite Hhp.
  assert (Hlast : prev_of (mkCT (ct_done t ++ [d]) rest) = d).
  { unfold prev_of. cbn. now rewrite last_snoc. }
  destruct (s !! d) as [f|] eqn:E.
  - (* already there: it is a directory, DirectoryExists is tolerated *)
    specialize (Hnd f E). rewrite Hnd. cbn [fst snd e_kind fail err_of].
    exists (mkCT (ct_done t ++ [d]) rest). split; [reflexivity|]. split.
    + rewrite Hlast. repeat split; auto.
      * exists f. auto.
      * apply Forall_app. split; [exact Hd|]. constructor; [exists f; auto|constructor].
    + cbn. now rewrite <- app_assoc.
  - cbn [fst snd].
    exists (mkCT (ct_done t ++ [d]) rest). split; [reflexivity|]. split.
    + rewrite Hlast.
      set (s' := <[d := mkMemFile Dir [] TAuto (Some TAuto) (Some TAuto)]> s).
      assert (Hmono : (forall q, is_dir s q -> is_dir s' q) /\ (forall q, not_file s q -> not_file s' q)).
      { pose proof (create_dir_mono s d) as M. cbn zeta in M. rewrite ms_create_dir in M. cbn [msec_sem] in M.
        rewrite Hhp, E in M. exact M. }
      destruct Hmono as [M1 M2].
      repeat split.
      * eexists. unfold s'. rewrite lookup_insert. split; reflexivity.
      * exact Hc.
      * eapply Forall_impl; [exact Hnrest|]. intros; now apply M2.
      * apply Forall_app. split.
        -- eapply Forall_impl; [exact Hd|]. intros; now apply M1.
        -- constructor; [|constructor]. eexists. unfold s'. rewrite lookup_insert. split; reflexivity.
    + cbn. now rewrite <- app_assoc.
Qed.

Lemma cstep_other (s : mstate) t u prev :
  good s prev u -> good (fst (cstep s t)) prev u.
Proof.
  intros H. unfold cstep. destruct (ct_todo t) as [|d rest]; [exact H|].
  pose proof (good_mono s d prev u H) as G.
  destruct (mem_step (CCreateDir d) s) as [s' r]. exact G.
Qed.

(** the invariant holds along every schedule: no thread ever fails *)
Theorem crun_ok sch : forall (s : mstate) pool,
  pool_ok s pool -> pool_ok (fst (crun sch s pool)) (snd (crun sch s pool)).
Proof.
  induction sch as [|t sch IH]; intros s pool Hok; cbn [crun]; [exact Hok|].
  destruct (pool !! t) as [[th|]|] eqn:Et; try (apply IH; exact Hok).
  assert (Hth : good s (prev_of th) th).
  { unfold pool_ok in Hok. rewrite Forall_forall in Hok.
    destruct (Hok _ (elem_of_list_lookup_2 _ _ _ Et)) as (t0 & [= <-] & G). exact G. }
  destruct (cstep_good s th Hth) as (th' & E & G' & _).
  rewrite E. apply IH.
  unfold pool_ok in *. rewrite Forall_forall in *. intros x Hx.
  apply elem_of_list_lookup in Hx as [i Hi].
  destruct (decide (i = t)) as [->|Hne].
  - rewrite list_lookup_insert in Hi by (eapply lookup_lt_Some; eauto). inversion Hi; subst. eauto.
  - rewrite list_lookup_insert_ne in Hi by congruence.
    destruct (Hok _ (elem_of_list_lookup_2 _ _ _ Hi)) as (u & -> & Gu).
    exists u. split; [reflexivity|]. now apply cstep_other.
Qed.

(** the threads of create_dir_all on paths P1 .. Pn, from a well-formed state in which no
    requested prefix is occupied by a file *)
Definition cda_thread (P : list (list N)) : cthread := mkCT [] (prefixes P).

Lemma chain_prefixes_from (P : list (list N)) k :
  chain (take k P) (map (fun n => take n P) (seq (S k) (length P - k))).
Proof.
  remember (length P - k) as m eqn:Hm. revert k Hm.
  induction m as [|m IH]; intros k Hm; cbn; [exact I|].
  assert (k < length P) by lia.
  split; [|split].
  - intros E. apply (f_equal length) in E. rewrite take_length in E. cbn [length] in E. lia.
  - destruct (lookup_lt_is_Some_2 P k ltac:(lia)) as [x Hx].
    rewrite (take_S_r _ _ _ Hx). apply removelast_last.
  - apply IH. lia.
Qed.

Lemma cda_thread_good (s : mstate) (P : list (list N)) :
  wf s -> Forall (not_file s) (prefixes P) -> good s (prev_of (cda_thread P)) (cda_thread P).
Proof.
  intros [Hr _] Hn. unfold cda_thread, prev_of. cbn. repeat split; auto; [|constructor].
  pose proof (chain_prefixes_from P 0) as H. rewrite take_0, Nat.sub_0_r in H. exact H.
Qed.

Theorem create_dir_all_concurrent (s : mstate) (Ps : list (list (list N))) (sch : list nat) :
  wf s -> Forall (fun P => Forall (not_file s) (prefixes P)) Ps ->
  let '(s', pool') := crun sch s (map (fun P => Some (cda_thread P)) Ps) in
  (* nobody failed *)
  Forall (fun x => x <> None) pool' /\
  (* and whoever is finished has all its directories in place *)
  Forall (fun x => match x with
                   | Some t => ct_todo t = [] -> Forall (is_dir s') (ct_done t)
                   | None => False
                   end) pool'.
Proof.
  intros Hwf Hn.
  assert (Hok : pool_ok s (map (fun P => Some (cda_thread P)) Ps)).
  { unfold pool_ok. rewrite Forall_forall. intros x Hx. apply elem_of_list_fmap in Hx as (P & -> & HP).
    exists (cda_thread P). split; [reflexivity|]. apply cda_thread_good; [exact Hwf|].
    rewrite Forall_forall in Hn. now apply Hn. }
  pose proof (crun_ok sch s _ Hok) as H.
  destruct (crun sch s _) as [s' pool']. cbn [fst snd] in H.
  unfold pool_ok in H. rewrite Forall_forall in H. split; rewrite Forall_forall; intros x Hx.
  - destruct (H x Hx) as (t & -> & _). discriminate.
  - destruct (H x Hx) as (t & -> & (_ & _ & _ & Hd)). intros _. exact Hd.
Qed.

(** the directories a thread deals with are exactly the prefixes of its path, in order *)
Lemma cstep_preserves_list (s : mstate) t t' :
  cstep s t = (fst (cstep s t), Some t') -> ct_done t' ++ ct_todo t' = ct_done t ++ ct_todo t.
Proof.
  unfold cstep. destruct (ct_todo t) as [|d rest] eqn:E.
  - intros [= <-]. now rewrite E.
  - destruct (mem_step (CCreateDir d) s) as [s' [u|e|]]; cbn [fst].
    + intros [= <-]. cbn. now rewrite <- app_assoc.
    + destruct (e_kind e); try discriminate. intros [= <-]. cbn. now rewrite <- app_assoc.
    + discriminate.
Qed.

(** * C16: one lock section per call *)

(** every trait call is a single lock section (or takes no lock at all) *)
Theorem single_section (c : fscall) (s : mstate) :
  (exists sec : msec, exists cast : msec_rep sec -> res (mval c),
      mem_step c s = (fst (msec_sem sec s), cast (snd (msec_sem sec s)))) \/
  fst (mem_step c s) = s.
Proof.
  destruct c.
  - left. exists (MScan p), (fun x => x). rewrite ms_read_dir. now destruct (msec_sem _ _).
  - left. exists (MInsertDir p), (fun x => x). rewrite ms_create_dir. now destruct (msec_sem _ _).
  - left. exists (MGetReader p), (fun x => x). rewrite ms_open_file. now destruct (msec_sem _ _).
  - left. exists (MInsertFile p), (fun x => x). rewrite ms_create_file. now destruct (msec_sem _ _).
  - left. exists (MAppendOpen p), (fun x => x). rewrite ms_append_file. now destruct (msec_sem _ _).
  - left. exists (MMeta p), (fun x => x). rewrite ms_metadata. now destruct (msec_sem _ _).
  - left. exists (MSetC p (TSet t)), (fun x => x). rewrite ms_set_ctime. now destruct (msec_sem _ _).
  - left. exists (MSetM p (TSet t)), (fun x => x). rewrite ms_set_mtime. now destruct (msec_sem _ _).
  - left. exists (MSetA p (TSet t)), (fun x => x). rewrite ms_set_atime. now destruct (msec_sem _ _).
  - left. exists (MExists p), (fun x => x). rewrite ms_exists. now destruct (msec_sem _ _).
  - left. exists (MRemoveFile p), (fun x => x). rewrite ms_remove_file. now destruct (msec_sem _ _).
  - left. exists (MRemove p), (fun x => x). rewrite ms_remove_dir. now destruct (msec_sem _ _).
  - right. reflexivity.
  - right. reflexivity.
  - right. reflexivity.
Qed.

(** threads of atomic calls: an interleaved execution IS the sequential execution of the calls in
    the order in which the scheduler let them take the lock, and that order respects every
    thread's program order *)
Fixpoint arun (sch : list nat) (s : mstate) (pool : list (list fscall)) (done : list (nat * fscall))
  : mstate * list (list fscall) * list (nat * fscall) :=
  match sch with
  | [] => (s, pool, reverse done)
  | t :: sch' =>
      match pool !! t with
      | Some (c :: rest) => arun sch' (fst (mem_step c s)) (<[t := rest]> pool) ((t, c) :: done)
      | _ => arun sch' s pool done
      end
  end.

Definition seq_run (calls : list fscall) (s : mstate) : mstate := foldl (fun s c => fst (mem_step c s)) s calls.

Lemma arun_is_sequential sch : forall s pool done,
  let '(s', pool', order) := arun sch s pool done in
  exists ext, order = reverse done ++ ext /\ s' = seq_run (map snd ext) s /\
    (* program order: what a thread executed followed by what it still has to do is its program *)
    forall t, (map snd (filter (fun x => fst x = t) ext)) ++ default [] (pool' !! t) = default [] (pool !! t).
Proof.
  induction sch as [|t sch IH]; intros s pool done; cbn [arun].
  { exists []. rewrite app_nil_r. cbn. repeat split; auto. }
  destruct (pool !! t) as [[|c rest]|] eqn:Et; try apply IH.
  specialize (IH (fst (mem_step c s)) (<[t := rest]> pool) ((t, c) :: done)).
  destruct (arun sch _ _ _) as [[s' pool'] order]. destruct IH as (ext & -> & -> & Hpo).
  exists ((t, c) :: ext). rewrite reverse_cons, <- app_assoc. cbn. repeat split; auto.
  intros u. specialize (Hpo u). case_decide as Hd.
  - subst u. cbn [map snd app].
    rewrite list_lookup_insert in Hpo by (eapply lookup_lt_Some; eauto).
    rewrite Et. change (default [] (Some (c :: rest))) with (c :: rest).
    change (default [] (Some rest)) with rest in Hpo. cbn [app]. f_equal. exact Hpo.
  - rewrite list_lookup_insert_ne in Hpo by congruence. exact Hpo.
Qed.

(** ** the same through an AltrootFS: its create_dir on q is the underlying create_dir on root ++ q
    (C07 exactness), so a create_dir_all thread walks the shifted prefixes; the altroot's root has to
    be a directory of the underlying filesystem *)
Definition alt_cda_thread (root P : list (list N)) : cthread := mkCT [root] (map (app root) (prefixes P)).

Lemma chain_shift (root : list (list N)) : forall ds prev, chain prev ds -> chain (root ++ prev) (map (app root) ds).
Proof.
  induction ds as [|d ds IH]; intros prev H; cbn; [exact I|].
  destruct H as (Hne & Hrl & Hch). split; [|split].
  - intros E. apply app_eq_nil in E as [_ E]. congruence.
  - destruct (path_cases d) as [->|(q & n & ->)]; [congruence|].
    rewrite removelast_snoc in Hrl. subst q. rewrite app_assoc. apply removelast_snoc.
  - apply IH. exact Hch.
Qed.

Theorem altroot_create_dir_all_concurrent (s : mstate) (root : list (list N)) (Ps : list (list (list N))) (sch : list nat) :
  wf s -> is_dir s root -> Forall (fun P => Forall (not_file s) (map (app root) (prefixes P))) Ps ->
  let '(s', pool') := crun sch s (map (fun P => Some (alt_cda_thread root P)) Ps) in
  Forall (fun x => x <> None) pool' /\
  Forall (fun x => match x with
                   | Some t => ct_todo t = [] -> Forall (is_dir s') (ct_done t)
                   | None => False
                   end) pool'.
Proof.
  intros Hwf Hroot Hn.
  assert (Hok : pool_ok s (map (fun P => Some (alt_cda_thread root P)) Ps)).
  { unfold pool_ok. rewrite Forall_forall. intros x Hx. apply elem_of_list_fmap in Hx as (P & -> & HP).
    exists (alt_cda_thread root P). split; [reflexivity|].
    unfold alt_cda_thread, prev_of, good. cbn [ct_done ct_todo last default].
    split; [exact Hroot|]. split; [|split].
    - pose proof (chain_prefixes_from P 0) as H. rewrite take_0, Nat.sub_0_r in H.
      pose proof (chain_shift root _ _ H) as H'. rewrite app_nil_r in H'. exact H'.
    - rewrite Forall_forall in Hn. now apply Hn.
    - constructor; [exact Hroot|constructor]. }
  pose proof (crun_ok sch s _ Hok) as H.
  destruct (crun sch s _) as [s' pool']. cbn [fst snd] in H.
  unfold pool_ok in H. rewrite Forall_forall in H. split; rewrite Forall_forall; intros x Hx.
  - destruct (H x Hx) as (t & -> & _). discriminate.
  - destruct (H x Hx) as (t & -> & (_ & _ & _ & Hd)). intros _. exact Hd.
Qed.

(** a lock section that answers with an error has changed nothing (so a failing call leaves nothing behind that
    could surface later, e.g. through a handle's drop) *)
Lemma msec_err_unchanged (c : msec) (s : mstate) e : snd (msec_sem c s) = Err e -> fst (msec_sem c s) = s.
Proof.
  destruct c; cbn; unfold mem_update;
    repeat match goal with
           | |- context [match ?x with _ => _ end] => destruct x
           | |- context [if ?b then _ else _] => destruct b
           end; cbn; intros H; try discriminate H; reflexivity.
Qed.

(** opening a file for reading stamps its access time and nothing else: every entry keeps its type, bytes,
    creation and modification time; no entry appears or disappears *)
Lemma get_reader_only_atime (s : mstate) (p q : path) :
  match (fst (msec_sem (MGetReader p) s)) !! q, s !! q with
  | Some f', Some f => f_type f' = f_type f /\ f_content f' = f_content f /\ f_created f' = f_created f /\
                       f_modified f' = f_modified f /\ (q <> p -> f_accessed f' = f_accessed f)
  | None, None => True
  | _, _ => False
  end.
Proof.
  cbn. destruct (s !! p) as [f|] eqn:Ep; [destruct (f_type f) eqn:Et|]; cbn;
    try (destruct (s !! q); now auto).
  destruct (decide (q = p)) as [->|Hne].
  - rewrite lookup_insert, Ep. cbn. rewrite Et. repeat split; auto. congruence.
  - rewrite lookup_insert_ne by congruence. destruct (s !! q); auto.
Qed.
