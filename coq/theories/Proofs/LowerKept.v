(** * What "never modifies a lower layer" means for the state (C08).

    [calls_ok (mut_in W) m] is about the calls a program issues.  Here it is turned into a
    statement about the store, for every kind of base filesystem at once: if base [i] is not
    among the write bases and no open handle writes to base [i], then after running the program
    -- and after any handle operations the caller performs later on the handles it got back --
    base [i] is what it was, up to the access times that MemoryFS::open_file stamps itself (the
    known finding D20); and still no handle writes to it. *)
From stdpp Require Import gmap list.
From Coq Require Import NArith ZArith.
From VFS Require Import Core.Types Core.Prog Core.Calls Base.MemFS Base.Handles Base.PhysFS
  Base.Embedded Base.Store Layer.VfsPath Layer.Overlay Layer.Config Proofs.CallsOk Proofs.ConfigOk.

(** an invariant that every permitted call keeps is kept by the whole run *)
Section Inv.
  Context {C : Type} {rep : C -> Type} {S : Type}.
  Variable h : handler rep S.
  Variable ok : C -> Prop.
  Variable I : S -> Prop.
  Hypothesis step : forall c s, ok c -> I s -> I (fst (h c s)).

  Lemma calls_ok_inv {R} (m : prog rep R) s : calls_ok ok m -> I s -> I (fst (run h m s)).
  Proof.
    intros Hm. revert s. induction Hm as [r|c k Hc Hk IH]; intros s Hs; cbn; [exact Hs|].
    specialize (step c s Hc Hs). destruct (h c s) as [s' x]. cbn in *. now apply IH.
  Qed.
End Inv.

(** a MemoryFS entry without its access time *)
Definition no_atime (f : memfile) : memfile :=
  mkMemFile (f_type f) (f_content f) (f_created f) (f_modified f) None.
Definition bview (b : bstate) : bstate :=
  match b with
  | BMem s => BMem (no_atime <$> s)
  | _ => b
  end.
(** the deep snapshot of base [i] *)
Definition lview (i : nat) (st : store) : option bstate := bview <$> (st_bases st !! i).

Definition writes_to (i : nat) (x : hstate) : Prop :=
  match x with
  | HMemWriter j _ _ _ | HPhysWriter j _ _ _ => j = i
  | _ => False
  end.
Definition quiet (i : nat) (st : store) : Prop := Forall (fun x => ~ writes_to i x) (st_handles st).
Definition kept (i : nat) (X : option bstate) (st : store) : Prop := quiet i st /\ lview i st = X.

(** ** the store primitives *)
Lemma kept_set_handle i X st h x : ~ writes_to i x -> kept i X st -> kept i X (set_handle st h x).
Proof.
  intros Hx [Hq Hv]. split; [|exact Hv]. unfold quiet, set_handle; cbn.
  destruct (decide (h < length (st_handles st))) as [Hl|Hl].
  - apply Forall_insert; assumption.
  - rewrite list_insert_ge by lia. exact Hq.
Qed.

Lemma kept_alloc i X st x : ~ writes_to i x -> kept i X st -> kept i X (fst (alloc_handle st x)).
Proof.
  intros Hx [Hq Hv]. split; [|exact Hv]. unfold quiet, alloc_handle; cbn.
  apply Forall_app. split; [exact Hq|]. now constructor.
Qed.

Lemma kept_set_base_ne i j X st b : j <> i -> kept i X st -> kept i X (set_base st j b).
Proof.
  intros Hj [Hq Hv]. split; [exact Hq|]. unfold lview, set_base in *; cbn.
  now rewrite list_lookup_insert_ne.
Qed.

Lemma kept_set_base_same i X st b b' :
  st_bases st !! i = Some b -> bview b' = bview b -> kept i X st -> kept i X (set_base st i b').
Proof.
  intros Hb Hbb [Hq Hv]. split; [exact Hq|]. unfold lview, set_base in *; cbn.
  rewrite list_lookup_insert by (eapply lookup_lt_Some; exact Hb).
  rewrite Hb in Hv. cbn in *. now rewrite Hbb.
Qed.

Lemma kept_set_base_id i X st b :
  st_bases st !! i = Some b -> kept i X st -> kept i X (set_base st i b).
Proof. intros Hb. now apply kept_set_base_same with (b := b). Qed.

Lemma kept_publish i j X st dest buf : j <> i -> kept i X st -> kept i X (mem_publish st j dest buf).
Proof.
  intros Hj Hk. unfold mem_publish. destruct (st_bases st !! j) as [[s|s|s]|]; try exact Hk.
  now apply kept_set_base_ne.
Qed.

Lemma kept_phys_set i j X st ino bs : j <> i -> kept i X st -> kept i X (phys_set_content st j ino bs).
Proof.
  intros Hj Hk. unfold phys_set_content. destruct (st_bases st !! j) as [[s|s|s]|]; try exact Hk.
  now apply kept_set_base_ne.
Qed.

Lemma kept_put i X st h x data st' :
  ~ writes_to i x -> put st h x data = Some st' -> kept i X st -> kept i X st'.
Proof.
  intros Hx Hp Hk. destruct x as [c p|j dest buf pos|c p|j ino pos|j ino pos app|]; unfold put in Hp; try discriminate; cbv zeta in Hp.
  - destruct data as [|d data]; [now inversion Hp; subst|].
    destruct (cursor_write buf pos (d :: data)) as [buf' pos']. inversion Hp; subst.
    apply kept_set_handle; [exact Hx|exact Hk].
  - destruct data as [|d data]; [now inversion Hp; subst|].
    destruct (cursor_write _ _ (d :: data)) as [content' pos']. inversion Hp; subst.
    apply kept_set_handle; [exact Hx|]. apply kept_phys_set; [|exact Hk].
    intros ->. now apply Hx.
Qed.

Lemma drain_kind i st x out x' : drain st x = Some (out, x') -> ~ writes_to i x'.
Proof.
  destruct x; cbn; intros H; inversion H; subst; cbn; tauto.
Qed.

(** ** handle operations *)
Lemma kept_handle_op0 i X h o st : kept i X st -> kept i X (fst (handle_op0 h o st)).
Proof.
  intros Hk. unfold handle_op0.
  destruct (st_handles st !! h) as [x|] eqn:Ex; [|exact Hk].
  assert (Hx : ~ writes_to i x).
  { destruct Hk as [Hq _]. unfold quiet in Hq. rewrite Forall_lookup in Hq. now apply (Hq h). }
  destruct o as [n|sf|data| | |dst| ].
  - (* read *)
    destruct x as [c p|j dest buf pos|c p|j ino pos|j ino pos app|]; try exact Hk.
    + destruct (mem_reader_read c p n) as [r pos']. cbn. apply kept_set_handle; [cbn; tauto|exact Hk].
    + destruct (cursor_read c p n) as [out pos']. cbn. apply kept_set_handle; [cbn; tauto|exact Hk].
    + destruct (cursor_read _ pos n) as [out pos']. cbn. apply kept_set_handle; [cbn; tauto|exact Hk].
  - (* seek *)
    destruct (match sf with SeekStart o => (o <? 0)%Z | _ => false end); [exact Hk|].
    destruct x as [c p|j dest buf pos|c p|j ino pos|j ino pos app|]; try exact Hk.
    + destruct (mem_reader_seek c p sf) as [r pos']. cbn. apply kept_set_handle; [cbn; tauto|exact Hk].
    + destruct (cursor_seek _ pos sf); [|exact Hk]. cbn. apply kept_set_handle; [exact Hx|exact Hk].
    + destruct (cursor_seek _ p sf); [|exact Hk]. cbn. apply kept_set_handle; [cbn; tauto|exact Hk].
    + destruct (cursor_seek _ pos sf) as [n|]; [|exact Hk].
      destruct (n <=? i64_max)%Z; [|exact Hk]. cbn. apply kept_set_handle; [cbn; tauto|exact Hk].
    + destruct (cursor_seek _ pos sf) as [n|]; [|exact Hk].
      destruct (n <=? i64_max)%Z; [|exact Hk]. cbn. apply kept_set_handle; [exact Hx|exact Hk].
  - (* write *)
    destruct (write_too_large x data); [exact Hk|].
    destruct (put st h x data) as [st'|] eqn:Ep; [|exact Hk]. cbn. eapply kept_put; eassumption.
  - (* flush *)
    destruct x as [c p|j dest buf pos|c p|j ino pos|j ino pos app|]; try exact Hk.
    cbn. apply kept_publish; [|exact Hk]. intros ->. now apply Hx.
  - (* drop *)
    destruct x as [c p|j dest buf pos|c p|j ino pos|j ino pos app|]; try exact Hk;
      cbn; apply kept_set_handle; try (cbn; tauto); try exact Hk.
    apply kept_publish; [|exact Hk]. intros ->. now apply Hx.
  - (* io::copy *)
    destruct (drain st x) as [[out x']|] eqn:Ed; [|exact Hk].
    destruct (st_handles st !! dst) as [y|] eqn:Ey; [|exact Hk].
    assert (Hy : ~ writes_to i y).
    { destruct Hk as [Hq _]. unfold quiet in Hq. rewrite Forall_lookup in Hq. now apply (Hq dst). }
    destruct (put (set_handle st h x') dst y out) as [st2|] eqn:Ep; [|exact Hk].
    cbn. eapply kept_put; [exact Hy|exact Ep|].
    apply kept_set_handle; [eapply drain_kind; exact Ed|exact Hk].
  - (* read_to_end *)
    destruct (drain st x) as [[out x']|] eqn:Ed; [|exact Hk].
    cbn. apply kept_set_handle; [eapply drain_kind; exact Ed|exact Hk].
Qed.

Lemma kept_handle_op i X h o st : kept i X st -> kept i X (fst (handle_op h o st)).
Proof.
  intros Hk. destruct (handle_op_cases h o st) as [->| ->]; [exact Hk|now apply kept_handle_op0].
Qed.

(** ** the harness wrapper *)
Lemma kept_log i X id c st : kept i X st -> kept i X (fst (log_call id c st)).
Proof.
  intros Hk. unfold log_call.
  destruct (st_fault st) as [[fid k]|]; [|exact Hk].
  destruct (Nat.eqb fid id); [|exact Hk]. destruct k; exact Hk.
Qed.

(** ** calls on another base *)
Lemma kept_mem_glue_ne i j X c r st : j <> i -> kept i X st -> kept i X (fst (mem_glue j c r st)).
Proof.
  intros Hj Hk.
  destruct c; cbn -[alloc_handle]; try exact Hk; destruct r as [v|e|]; try exact Hk;
    match goal with
    | |- context [alloc_handle ?s ?x] =>
        change (kept i X (fst (alloc_handle s x))); apply kept_alloc; [cbn; try tauto|exact Hk]
    end; intros Hji; now apply Hj.
Qed.

Lemma kept_fs_call_ne i j X c st : j <> i -> kept i X st -> kept i X (fst (fs_call j c st)).
Proof.
  intros Hj Hk. unfold fs_call.
  destruct (st_bases st !! j) as [[s|s|s]|] eqn:Eb; [| | |exact Hk].
  - unfold mem_fs_call. destruct (mem_step c s) as [s' r].
    apply kept_mem_glue_ne; [exact Hj|]. now apply kept_set_base_ne.
  - unfold phys_fs_call. destruct (phys_step c s) as [s' r].
    assert (Hk' : kept i X (set_base st j (BPhys s'))) by now apply kept_set_base_ne.
    destruct c; cbn -[alloc_handle]; try exact Hk'; destruct r as [v|e|]; try exact Hk';
      match goal with
      | |- context [alloc_handle ?s ?x] =>
          change (kept i X (fst (alloc_handle s x))); apply kept_alloc; [cbn; try tauto|exact Hk']
      end; intros Hji; now apply Hj.
  - unfold emb_fs_call.
    destruct c; cbn -[alloc_handle emb_step]; try exact Hk; destruct (emb_step _ s) as [v|e|]; try exact Hk.
    match goal with
    | |- context [alloc_handle ?s ?x] =>
        change (kept i X (fst (alloc_handle s x))); apply kept_alloc; [cbn; tauto|exact Hk]
    end.
Qed.

(** ** observers on the base itself *)
Lemma mem_observer_view c s : mutating c = false -> no_atime <$> fst (mem_step c s) = no_atime <$> s.
Proof.
  destruct c; try discriminate; intros _; unfold mem_step, mem_call, msec_call; cbn.
  - destruct (s !! p) as [f|]; [destruct (f_type f)|]; reflexivity.
  - destruct (s !! p) as [f|] eqn:E; [|reflexivity].
    destruct (f_type f) eqn:Ef; [|reflexivity]. cbn.
    rewrite fmap_insert. apply insert_id. rewrite lookup_fmap, E. cbn.
    unfold no_atime; cbn. now rewrite Ef.
  - destruct (s !! p) as [f|]; reflexivity.
  - reflexivity.
Qed.

Lemma phys_observer_same c s : mutating c = false -> fst (phys_step c s) = s.
Proof.
  destruct c; try discriminate; intros _; cbn.
  - destruct (lookup_path s p) as [n| |]; try reflexivity. destruct (pn_kind n); reflexivity.
  - destruct (lookup_path s p) as [n| |]; try reflexivity. destruct (pn_kind n); reflexivity.
  - destruct (lookup_path s p) as [n| |]; reflexivity.
  - reflexivity.
Qed.

Lemma kept_fs_call_observer i X c st :
  mutating c = false -> kept i X st -> kept i X (fst (fs_call i c st)).
Proof.
  intros Hc Hk. unfold fs_call.
  destruct (st_bases st !! i) as [[s|s|s]|] eqn:Eb; [| | |exact Hk].
  - unfold mem_fs_call. pose proof (mem_observer_view c s Hc) as Hv.
    destruct (mem_step c s) as [s' r]. cbn in Hv.
    assert (Hk' : kept i X (set_base st i (BMem s'))).
    { eapply kept_set_base_same; [exact Eb| |exact Hk]. cbn. now rewrite Hv. }
    destruct c; try discriminate; cbn -[alloc_handle]; try exact Hk'.
    destruct r as [v|e|]; try exact Hk'.
    change (kept i X (fst (alloc_handle (set_base st i (BMem s')) (HMemReader v 0)))).
    apply kept_alloc; [cbn; tauto|exact Hk'].
  - unfold phys_fs_call. pose proof (phys_observer_same c s Hc) as Hv.
    destruct (phys_step c s) as [s' r]. cbn in Hv. subst s'.
    assert (Hk' : kept i X (set_base st i (BPhys s))) by now apply kept_set_base_id.
    destruct c; try discriminate; cbn -[alloc_handle]; try exact Hk'.
    destruct r as [v|e|]; try exact Hk'.
    change (kept i X (fst (alloc_handle (set_base st i (BPhys s)) (HPhysReader i v 0)))).
    apply kept_alloc; [cbn; tauto|exact Hk'].
  - unfold emb_fs_call.
    destruct c; try discriminate; cbn -[alloc_handle emb_step]; try exact Hk; destruct (emb_step _ s) as [v|e|]; try exact Hk.
    match goal with
    | |- context [alloc_handle ?s ?x] =>
        change (kept i X (fst (alloc_handle s x))); apply kept_alloc; [cbn; tauto|exact Hk]
    end.
Qed.

(** ** every permitted call keeps base [i] *)
Lemma kept_bhandler i X W c st :
  i ∉ W -> mut_in W c -> kept i X st -> kept i X (fst (bhandler c st)).
Proof.
  intros Hi Hc Hk. destruct c as [j c|h o|id c]; cbn.
  - destruct (decide (j = i)) as [->|Hj].
    + apply kept_fs_call_observer; [|exact Hk]. cbn in Hc.
      destruct (mutating c); [exfalso; now apply Hi, Hc|reflexivity].
    + now apply kept_fs_call_ne.
  - now apply kept_handle_op.
  - now apply kept_log.
Qed.

(** any program that sends its mutating calls to the bases in [W] only keeps every other base,
    and leaves no handle that could write to it *)
Theorem writes_keep_other_bases W i X R (m : bprog R) st :
  i ∉ W -> calls_ok (mut_in W) m -> kept i X st -> kept i X (fst (run bhandler m st)).
Proof.
  intros Hi Hm Hk.
  apply (calls_ok_inv bhandler (mut_in W) (kept i X)); [|exact Hm|exact Hk].
  intros c s Hc Hs. eapply kept_bhandler; eassumption.
Qed.

(** every call of every consistent stacking, for every base that is not below its write path *)
Theorem stacking_keeps_other_bases (f : fsref) i X c st :
  consistent f -> i ∉ wbases f -> kept i X st -> kept i X (fst (run bhandler (interp f c) st)).
Proof.
  intros Hf Hi. apply writes_keep_other_bases with (W := wbases f); [exact Hi|].
  now apply interp_writes.
Qed.

(** later handle operations by the caller keep it too (no handle writes to base [i]) *)
Theorem handle_ops_keep_other_bases i X (ops : list (hid * hop)) st :
  kept i X st -> kept i X (fold_left (fun s ho => fst (handle_op (fst ho) (snd ho) s)) ops st).
Proof.
  revert st. induction ops as [|[h o] ops IH]; intros st Hk; cbn; [exact Hk|].
  apply IH. now apply kept_handle_op.
Qed.
