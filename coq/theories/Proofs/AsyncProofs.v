(** The async port: polling never changes what a computation does (C15). *)
From stdpp Require Import gmap list.
From Coq Require Import NArith ZArith Lia.
From VFS Require Import Core.Types Core.Prog Core.Calls Base.Handles Layer.VfsPath Layer.Async Proofs.ProgProofs.

(** ** futures *)
Section PollProofs.
  Context {C : Type} {rep : C -> Type} {S : Type}.
  Variable h : handler rep S.

  (** a poll that is not ready has run a prefix of the computation: what is left, run from where
      the poll stopped, ends as the whole computation would have; and it has used up oracle *)
  Lemma poll_pending {R} (m : prog rep R) : forall o s s1 rest o1,
    poll h m o s = (s1, PPending rest, o1) ->
    run h rest s1 = run h m s /\ length o1 < length o.
  Proof.
    induction m as [r|c k IH]; intros o s s1 rest o1 H; cbn in H; [discriminate|].
    destruct o as [|[|] o'].
    - cbn [tl] in H. apply IH in H as [H1 H2]. cbn in H2. lia.
    - injection H as <- <- <-. split; [reflexivity|cbn; lia].
    - cbn [tl] in H. apply IH in H as [H1 H2]. split; [|cbn; lia].
      rewrite H1. cbn [run]. now destruct (h c s).
  Qed.

  Lemma poll_ready {R} (m : prog rep R) : forall o s s1 r o1,
    poll h m o s = (s1, PReady r, o1) ->
    run h m s = (s1, r) /\ length o1 <= length o.
  Proof.
    induction m as [r0|c k IH]; intros o s s1 r o1 H; cbn in H.
    - injection H as <- <- <-. split; [reflexivity|lia].
    - destruct o as [|[|] o']; [|discriminate|]; cbn [tl] in H; apply IH in H as [H1 H2];
        (split; [cbn [run]; destruct (h c s); exact H1|cbn in *; lia]).
  Qed.

  (** the executor's answer is the sequential semantics, whatever the oracle says *)
  Theorem drive_is_run {R} : forall (o : list bool) (m : prog rep R) s,
    drive h (Datatypes.S (length o)) m o s = Some (run h m s).
  Proof.
    intros o. remember (length o) as n eqn:En. revert o En.
    induction n as [n IH] using lt_wf_ind. intros o En m s. cbn [drive].
    destruct (poll h m o s) as [[s1 [rest|r]] o1] eqn:E.
    - apply poll_pending in E as [E1 E2]. rewrite <- E1.
      destruct n as [|n']; [lia|].
      assert (Hlt : length o1 < Datatypes.S n') by lia.
      (* more fuel than needed does not matter: re-establish with the exact amount *)
      clear IH. revert rest s1 E1 Hlt. revert o1 E2.
      assert (Hmono : forall k (o2 : list bool) (m2 : prog rep R) s2, length o2 < k -> drive h k m2 o2 s2 = Some (run h m2 s2)).
      { induction k as [|k IHk]; intros o2 m2 s2 Hk; [lia|]. cbn [drive].
        destruct (poll h m2 o2 s2) as [[s3 [rest2|r2]] o3] eqn:E2.
        - apply poll_pending in E2 as [E3 E4]. rewrite <- E3. apply IHk. lia.
        - apply poll_ready in E2 as [E3 _]. now rewrite E3. }
      intros o1 _ rest s1 _ Hlt. apply Hmono. exact Hlt.
    - apply poll_ready in E as [E1 _]. now rewrite E1.
  Qed.
End PollProofs.

(** ** the walk_dir stream *)
Section WalkProofs.
  Context {S : Type}.
  Variable h : handler brep S.
  Variable v : vfs.

  Definition aw_abs (w : awalker) : walker := mkWalker (aw_inner w) (aw_todo w).

  Definition aw_idle (w : awalker) : Prop := aw_prev w = None /\ aw_rdfut w = None /\ aw_mdfut w = None.

  (** what the fields may hold between two polls *)
  Definition aw_wf (w : awalker) : Prop :=
    (aw_prev w = None -> aw_mdfut w = None) /\
    (forall f, aw_rdfut w = Some f -> aw_inner w = [] /\ aw_todo w <> [] /\ aw_prev w = None).

  (** the sync iterator's next(), cut at the points where the async one can be suspended *)
  Definition fin (x : path) (r : res meta) (w' : walker) : bprog (option (res path) * walker) :=
    match r with
    | Ok md =>
        match m_type md with
        | Dir => Ret (Some (Ok x), mkWalker (w_inner w') (x :: w_todo w'))
        | File => Ret (Some (Ok x), w')
        end
    | Err e => Ret (Some (Err e), w')
    | Panic => Ret (Some Panic, w')
    end.

  Definition wn_finish (iw : option (res path) * walker) : bprog (option (res path) * walker) :=
    match fst iw with
    | Some (Ok x) => bind (vp_metadata v x) (fun r => fin x r (snd iw))
    | _ => Ret (fst iw, snd iw)
    end.

  Lemma walk_next_cut (w : walker) : walk_next v w = bind (walk_find v (w_todo w) (w_inner w)) wn_finish.
  Proof. reflexivity. Qed.

  Definition after_rd (r : res (list path)) (todo' : list path) : bprog (option (res path) * walker) :=
    match r with
    | Ok children => walk_find v todo' children
    | Err e => Ret (Some (Err e), mkWalker [] todo')
    | Panic => Ret (Some Panic, mkWalker [] todo')
    end.

  Lemma walk_find_cut d todo' : walk_find v (d :: todo') [] = bind (vp_read_dir v d) (fun r => after_rd r todo').
  Proof. reflexivity. Qed.

  (** the sync computation an async iterator state stands for *)
  Definition denote (w : awalker) : bprog (option (res path) * walker) :=
    match aw_prev w with
    | Some x =>
        bind (match aw_mdfut w with Some f => f | None => vp_metadata v x end)
             (fun r => fin x r (aw_abs w))
    | None =>
        match aw_rdfut w, aw_todo w with
        | Some f, d :: todo' => bind (bind f (fun r => after_rd r todo')) wn_finish
        | _, _ => walk_next v (aw_abs w)
        end
    end.

  Lemma denote_idle w : aw_idle w -> denote w = walk_next v (aw_abs w).
  Proof. intros (H1 & H2 & H3). unfold denote. now rewrite H1, H2. Qed.

  Lemma run_bind_eq {R T} (m m' : bprog R) (f : R -> bprog T) s s' :
    run h m' s' = run h m s -> run h (bind m' f) s' = run h (bind m f) s.
  Proof. intros H. now rewrite !run_bind, H. Qed.

  Lemma run_bind_ready {R T} (m : bprog R) (f : R -> bprog T) s s1 r :
    run h m s = (s1, r) -> run h (bind m f) s = run h (f r) s1.
  Proof. intros H. now rewrite run_bind, H. Qed.

  (** the second half *)
  Lemma astage2_spec x inner todo mdfut o s s1 o1 a w1 :
    astage2 h v x inner todo None mdfut o s = (s1, o1, a, w1) ->
    let m := bind (match mdfut with Some f => f | None => vp_metadata v x end)
                  (fun r => fin x r (mkWalker inner todo)) in
    match a with
    | APending => aw_wf w1 /\ run h (denote w1) s1 = run h m s /\ length o1 < length o
    | AReady it => aw_wf w1 /\ aw_idle w1 /\ run h m s = (s1, (it, aw_abs w1)) /\ length o1 <= length o
    end.
  Proof.
    unfold astage2. set (fut := match mdfut with Some f => f | None => vp_metadata v x end).
    destruct (poll h fut o s) as [[s2 [rest|r]] o2] eqn:E; intros H.
    - injection H as <- <- <- <-. apply poll_pending in E as [E1 E2].
      split; [split; [discriminate|intros f; discriminate]|]. split; [|exact E2].
      unfold denote. cbn [aw_prev aw_mdfut]. now apply run_bind_eq.
    - apply poll_ready in E as [E1 E2]. unfold fut in E1. cbn zeta.
      destruct r as [md|e|]; injection H as <- <- <- <-; rewrite (run_bind_ready _ _ _ _ _ E1).
      + split; [split; [reflexivity|intros f; discriminate]|]. split; [repeat split|].
        split; [|exact E2]. unfold fin, aw_abs. cbn [aw_inner aw_todo w_inner w_todo].
        destruct (m_type md); reflexivity.
      + split; [split; [reflexivity|intros f; discriminate]|]. split; [repeat split|]. split; [reflexivity|exact E2].
      + split; [split; [reflexivity|intros f; discriminate]|]. split; [repeat split|]. split; [reflexivity|exact E2].
  Qed.

  (** the loop *)
  Definition loopden (rdfut : option (bprog (res (list path)))) (todo inner : list path)
      : bprog (option (res path) * walker) :=
    match rdfut, todo with
    | Some f, d :: todo' => bind f (fun r => after_rd r todo')
    | _, _ => walk_find v todo inner
    end.

  Definition rd_ok (rdfut : option (bprog (res (list path)))) (todo inner : list path) : Prop :=
    forall f, rdfut = Some f -> inner = [] /\ todo <> [].

  Definition afind_post (o : list bool) (s : S) (m : bprog (option (res path) * walker))
      (out : S * list bool * found * (list path * list path * option (bprog (res (list path))))) : Prop :=
    let s1 := fst (fst (fst out)) in let o1 := snd (fst (fst out)) in
    let inner1 := fst (fst (snd out)) in let todo1 := snd (fst (snd out)) in let rdfut1 := snd (snd out) in
    match snd (fst out) with
    | FPending => rd_ok rdfut1 todo1 inner1 /\ run h (loopden rdfut1 todo1 inner1) s1 = run h m s /\ length o1 < length o
    | FItem it => rdfut1 = None /\ run h m s = (s1, (Some it, mkWalker inner1 todo1)) /\ length o1 <= length o
    | FEnd => rdfut1 = None /\ run h m s = (s1, (None, mkWalker inner1 todo1)) /\ length o1 <= length o
    end.

  Lemma afind_post_weaken o o' s m out : length o <= length o' -> afind_post o s m out -> afind_post o' s m out.
  Proof.
    unfold afind_post. intros Hl. destruct (snd (fst out)); intros (H1 & H2 & H3); (split; [exact H1|split; [exact H2|lia]]).
  Qed.

  Lemma afind_spec : forall todo inner rdfut o s,
    rd_ok rdfut todo inner ->
    afind_post o s (loopden rdfut todo inner) (afind h v todo inner rdfut o s).
  Proof.
    induction todo as [|d todo' IH]; intros inner rdfut o s Hrd.
    - assert (rdfut = None) as -> by (destruct rdfut as [f|]; [destruct (Hrd f eq_refl) as [_ Hn]; congruence|reflexivity]).
      destruct o as [|[|] o']; cbn [afind tl].
      + destruct inner as [|x inner']; unfold afind_post; cbn; auto.
      + unfold afind_post; cbn. split; [intros f; discriminate|]. split; [reflexivity|lia].
      + destruct inner as [|x inner']; unfold afind_post; cbn; split; auto; split; auto; lia.
    - assert (Hgo : forall o2,
                afind_post o2 s (loopden rdfut (d :: todo') inner)
                match inner with
                | x :: inner' => (s, o2, FItem (Ok x), (inner', d :: todo', rdfut))
                | [] =>
                    match poll h (match rdfut with Some f => f | None => vp_read_dir v d end) o2 s with
                    | (s2, PPending rest, o3) => (s2, o3, FPending, ([], d :: todo', Some rest))
                    | (s2, PReady (Ok children), o3) => afind h v todo' children None o3 s2
                    | (s2, PReady (Err e), o3) => (s2, o3, FItem (Err e), ([], todo', None))
                    | (s2, PReady Panic, o3) => (s2, o3, FItem Panic, ([], todo', None))
                    end
                end).
      { intros o2. destruct inner as [|x inner'].
        - match goal with |- context [poll h ?f o2 s] => set (fut := f) end.
          assert (Hm : loopden rdfut (d :: todo') [] = bind fut (fun r => after_rd r todo')).
          { unfold fut, loopden. destruct rdfut; [reflexivity|apply walk_find_cut]. }
          rewrite Hm. clear Hm.
          destruct (poll h fut o2 s) as [[s2 [rest|r]] o3] eqn:E.
          + apply poll_pending in E as [E1 E2]. unfold afind_post; cbn.
            split; [intros f _; split; [reflexivity|discriminate]|]. split; [now apply run_bind_eq|lia].
          + apply poll_ready in E as [E1 E2].
            destruct r as [children|e|].
            * assert (Hok : rd_ok None todo' children) by (intros f; discriminate).
              specialize (IH children None o3 s2 Hok). apply (afind_post_weaken o3 o2) in IH; [|exact E2].
              unfold afind_post in *. rewrite (run_bind_ready _ _ _ _ _ E1). cbn [after_rd].
              replace (loopden None todo' children) with (walk_find v todo' children) in IH by (destruct todo'; reflexivity).
              exact IH.
            * unfold afind_post; cbn. rewrite (run_bind_ready _ _ _ _ _ E1). cbn. split; [reflexivity|]. split; [reflexivity|lia].
            * unfold afind_post; cbn. rewrite (run_bind_ready _ _ _ _ _ E1). cbn. split; [reflexivity|]. split; [reflexivity|lia].
        - assert (rdfut = None) as -> by (destruct rdfut as [f|]; [destruct (Hrd f eq_refl); discriminate|reflexivity]).
          unfold afind_post; cbn. split; [reflexivity|]. split; [reflexivity|lia]. }
      destruct o as [|[|] o']; cbn [afind tl].
      + apply Hgo.
      + unfold afind_post; cbn. split; [exact Hrd|]. split; [reflexivity|lia].
      + eapply afind_post_weaken; [|apply Hgo]. cbn; lia.
  Qed.

  Lemma denote_loop w : aw_prev w = None ->
    denote w = bind (loopden (aw_rdfut w) (aw_todo w) (aw_inner w)) wn_finish.
  Proof.
    destruct w as [inner todo prev rdfut mdfut]. cbn. intros ->. unfold denote, loopden. cbn.
    destruct rdfut, todo; reflexivity.
  Qed.

  Definition apoll_post (w : awalker) (o : list bool) (s : S)
      (out : S * list bool * apoll (option (res path)) * awalker) : Prop :=
    let s1 := fst (fst (fst out)) in let o1 := snd (fst (fst out)) in let w1 := snd out in
    match snd (fst out) with
    | APending => aw_wf w1 /\ run h (denote w1) s1 = run h (denote w) s /\ length o1 < length o
    | AReady it => aw_wf w1 /\ aw_idle w1 /\ run h (denote w) s = (s1, (it, aw_abs w1)) /\ length o1 <= length o
    end.

  (** one poll of the stream: not ready = a prefix of the sync next() has run and the parked state
      stands for the rest; ready = the sync next() has run *)
  Lemma apoll_next_spec w o s : aw_wf w -> apoll_post w o s (apoll_next h v w o s).
  Proof.
    intros [Hwf1 Hwf2]. unfold apoll_next. destruct (aw_prev w) as [x|] eqn:Ep.
    - assert (Hrd : aw_rdfut w = None).
      { destruct (aw_rdfut w) as [f|] eqn:Ef; [|reflexivity]. destruct (Hwf2 f eq_refl) as (_ & _ & Hc). congruence. }
      rewrite Hrd.
      destruct (astage2 h v x (aw_inner w) (aw_todo w) None (aw_mdfut w) o s) as [[[s1 o1] a] w1] eqn:E.
      apply astage2_spec in E. cbn zeta in E. unfold apoll_post. cbn [fst snd].
      assert (Hd : denote w = bind (match aw_mdfut w with Some f => f | None => vp_metadata v x end)
                                   (fun r => fin x r (mkWalker (aw_inner w) (aw_todo w)))).
      { unfold denote. rewrite Ep. reflexivity. }
      rewrite Hd. exact E.
    - assert (Hmd : aw_mdfut w = None) by (apply Hwf1; reflexivity). rewrite Hmd.
      assert (Hok : rd_ok (aw_rdfut w) (aw_todo w) (aw_inner w)).
      { intros f Hf. destruct (Hwf2 f Hf) as (H1 & H2 & _). auto. }
      pose proof (afind_spec (aw_todo w) (aw_inner w) (aw_rdfut w) o s Hok) as Hf.
      pose proof (denote_loop w Ep) as Hden.
      destruct (afind h v (aw_todo w) (aw_inner w) (aw_rdfut w) o s) as [[[s1 o1] fd] [[inner1 todo1] rdfut1]].
      unfold afind_post in Hf. cbn [fst snd] in Hf. cbn [fst snd].
      destruct fd as [|[x|e|]|].
      + destruct Hf as (H1 & H2 & H3). unfold apoll_post. cbn [fst snd]. rewrite Hden.
        split; [split; [reflexivity|]|].
        { intros f Hfu. cbn [aw_rdfut aw_inner aw_todo aw_prev] in *. destruct (H1 f Hfu). auto. }
        split; [|exact H3]. rewrite (denote_loop (mkAW inner1 todo1 None rdfut1 None) eq_refl). cbn [aw_rdfut aw_todo aw_inner].
        now apply run_bind_eq.
      + destruct Hf as (-> & H2 & H3).
        destruct (astage2 h v x inner1 todo1 None None o1 s1) as [[[s2 o2] a] w2] eqn:E.
        apply astage2_spec in E. cbn zeta in E. unfold apoll_post. cbn [fst snd]. rewrite Hden.
        rewrite (run_bind_ready _ _ _ _ _ H2).
        change (wn_finish (Some (Ok x), mkWalker inner1 todo1))
          with (bind (vp_metadata v x) (fun r => fin x r (mkWalker inner1 todo1))).
        destruct a as [|it].
        * destruct E as (E1 & E2 & E3). split; [exact E1|]. split; [exact E2|lia].
        * destruct E as (E1 & E2 & E3 & E4). split; [exact E1|]. split; [exact E2|]. split; [exact E3|lia].
      + destruct Hf as (-> & H2 & H3). unfold apoll_post. cbn [fst snd]. rewrite Hden.
        split; [split; [reflexivity|intros f; discriminate]|]. split; [repeat split|].
        split; [|exact H3]. rewrite (run_bind_ready _ _ _ _ _ H2). reflexivity.
      + destruct Hf as (-> & H2 & H3). unfold apoll_post. cbn [fst snd]. rewrite Hden.
        split; [split; [reflexivity|intros f; discriminate]|]. split; [repeat split|].
        split; [|exact H3]. rewrite (run_bind_ready _ _ _ _ _ H2). reflexivity.
      + destruct Hf as (-> & H2 & H3). unfold apoll_post. cbn [fst snd]. rewrite Hden.
        split; [split; [reflexivity|intros f; discriminate]|]. split; [repeat split|].
        split; [|exact H3]. rewrite (run_bind_ready _ _ _ _ _ H2). reflexivity.
  Qed.

  (** [stream.next().await] returns what the sync iterator's next() returns, leaves the filesystem in
      the same state and the iterator in the corresponding state - for every oracle *)
  Lemma anext_spec : forall k o w s, length o < k -> aw_wf w ->
    exists s1 o1 it w1, anext h v k w o s = Some (s1, o1, it, w1) /\
      run h (denote w) s = (s1, (it, aw_abs w1)) /\ aw_wf w1 /\ aw_idle w1 /\ length o1 <= length o.
  Proof.
    induction k as [|k IH]; intros o w s Hk Hwf; [lia|]. cbn [anext].
    pose proof (apoll_next_spec w o s Hwf) as Hp. unfold apoll_post in Hp.
    destruct (apoll_next h v w o s) as [[[s1 o1] a] w1]. cbn [fst snd] in Hp.
    destruct a as [|it].
    - destruct Hp as (H1 & H2 & H3).
      destruct (IH o1 w1 s1 ltac:(lia) H1) as (s2 & o2 & it & w2 & E1 & E2 & E3 & E4 & E5).
      exists s2, o2, it, w2. rewrite <- H2. split; [exact E1|]. split; [exact E2|]. split; [exact E3|]. split; [exact E4|lia].
    - destruct Hp as (H1 & H2 & H3 & H4). exists s1, o1, it, w1. split; [reflexivity|]. split; [exact H3|]. split; [exact H1|]. split; [exact H2|exact H4].
  Qed.

  Theorem anext_is_walk_next o w s : aw_wf w -> aw_idle w ->
    exists s1 o1 it w1, anext h v (Datatypes.S (length o)) w o s = Some (s1, o1, it, w1) /\
      run h (walk_next v (aw_abs w)) s = (s1, (it, aw_abs w1)) /\ aw_wf w1 /\ aw_idle w1.
  Proof.
    intros Hwf Hid. destruct (anext_spec (Datatypes.S (length o)) o w s ltac:(lia) Hwf)
      as (s1 & o1 & it & w1 & E1 & E2 & E3 & E4 & _).
    exists s1, o1, it, w1. rewrite <- (denote_idle w Hid). auto.
  Qed.

  (** the whole stream *)
  Theorem acollect_is_walk_collect : forall fuel o w s acc, aw_wf w -> aw_idle w ->
    acollect h v fuel w o s acc = run h (walk_collect v fuel (aw_abs w) acc) s.
  Proof.
    induction fuel as [|fuel IH]; intros o w s acc Hwf Hid; [reflexivity|].
    cbn [acollect walk_collect].
    destruct (anext_is_walk_next o w s Hwf Hid) as (s1 & o1 & it & w1 & E1 & E2 & E3 & E4).
    rewrite E1, (run_bind_ready _ _ _ _ _ E2). cbn [fst snd].
    destruct it as [it|]; [|reflexivity]. apply IH; assumption.
  Qed.

  Lemma aw_start_ok children : aw_wf (aw_start children) /\ aw_idle (aw_start children).
  Proof. split; [split; [reflexivity|intros f; discriminate]|repeat split]. Qed.
End WalkProofs.

(** ** the hand-written async reader of the in-memory filesystem *)
Lemma amem_reader_read_is_sync (content : bytes) (pos : Z) (n : N) :
  (0 <= pos)%Z -> amem_reader_read content pos n = mem_reader_read content pos n.
Proof.
  intros Hpos. unfold amem_reader_read, mem_reader_read, mem_reader_len.
  set (amt := Z.min (Z.of_N n) (Z.max 0 (Z.of_nat (length content) - pos))).
  destruct (amt =? 0)%Z eqn:E0; [reflexivity|].
  destruct (amt =? 1)%Z eqn:E1; [|reflexivity].
  apply Z.eqb_eq in E1. rewrite E1.
  assert (Hlt : (Z.to_nat pos < length content)%nat) by lia.
  destruct (lookup_lt_is_Some_2 content (Z.to_nat pos) Hlt) as [b Hb]. rewrite Hb.
  destruct (Nat.leb_spec (Z.to_nat (pos + 1)) (length content)) as [_|Hc]; [|lia].
  replace (Z.to_nat (pos + 1) - Z.to_nat pos)%nat with 1%nat by lia.
  rewrite (drop_S _ _ _ Hb). reflexivity.
Qed.

Lemma amem_reader_seek_is_sync (content : bytes) (pos : Z) (sf : seekfrom) :
  (0 <= pos <= u64_max)%Z -> (Z.of_nat (length content) <= u64_max)%Z ->
  amem_reader_seek content pos sf = mem_reader_seek content pos sf.
Proof.
  intros Hpos Hlen. unfold amem_reader_seek, mem_reader_seek, checked_add_u64, checked_sub_u64.
  destruct sf as [o|o|o]; [reflexivity|..];
    destruct (0 <=? o)%Z eqn:Eo.
  all: repeat match goal with |- context [(?a <=? ?b)%Z] => destruct (Z.leb_spec a b) end; cbn [andb]; try reflexivity; try lia.
  all: rewrite Z.sub_opp_r; reflexivity.
Qed.
