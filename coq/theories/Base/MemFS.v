(** * MemoryFS: transcription of src/impls/memory.rs.

    State: the [HashMap<String, MemoryFile>] as a finite map keyed by component
    lists.  Every trait method is written as a program over *lock sections*:
    one section = one acquisition of the [RwLock], exactly as the code takes
    it.  The sequential semantics runs the sections back to back; the
    interleaved semantics (C16, C17) schedules them one at a time. *)
From stdpp Require Import gmap list sorting.
From Coq Require Import NArith ZArith.
From VFS Require Import Core.Types Core.Prog Core.Calls.

Record memfile := mkMemFile {
  f_type : ftype;
  f_content : bytes;
  f_created : time;
  f_modified : option time;
  f_accessed : option time }.

Notation memfs := (gmap path memfile) (only parsing).

(** [MemoryFsImpl::new]: only the root directory *)
Definition mem_new : memfs :=
  {[ [] := mkMemFile Dir [] TAuto None None ]}.

(** lexicographic order on names, used to make listings deterministic (the
    harness sorts every listing; see DESIGN.md 4.2) *)
Fixpoint name_leb (a b : name) : bool :=
  match a, b with
  | [], _ => true
  | _ :: _, [] => false
  | x :: a', y :: b' => if N.ltb x y then true else if N.ltb y x then false else name_leb a' b'
  end.
Fixpoint insert_sorted (n : name) (l : list name) : list name :=
  match l with
  | [] => [n]
  | m :: l' => if name_leb n m then n :: l else m :: insert_sorted n l'
  end.
Definition sort_names (l : list name) : list name := foldr insert_sorted [] l.

(** the children of [p]: keys of the form [p ++ [n]].  This is the prefix scan
    of [read_dir] ([starts_with(prefix)] and no further '/'), see
    [Path/StrProofs.v] for the string-level statement. *)
Definition child_of (p : path) (k : path) : option name :=
  match reverse k with
  | n :: r => if decide (reverse r = p) then Some n else None
  | [] => None
  end.
Definition mem_children (s : memfs) (p : path) : list name :=
  sort_names (omap (fun kv => child_of p (fst kv)) (map_to_list s)).

(** ** Lock sections *)
Inductive msec :=
| MExists (p : path)               (* read : files.contains_key(path) *)
| MScan (p : path)                 (* read : the scan of read_dir *)
| MInsertDir (p : path)            (* write: parent check + entry()/insert of create_dir *)
| MSetC (p : path) (t : time)      (* write: set_creation_time *)
| MSetM (p : path) (t : time)      (* write: set_modification_time *)
| MSetA (p : path) (t : time)      (* write: set_access_time *)
| MGetReader (p : path)            (* write: get + ensure_file + stamp accessed + content.clone() in open_file *)
| MInsertFile (p : path)           (* write: parent check + type check + insert of create_file *)
| MAppendOpen (p : path)           (* write: get + ensure_file + clone in append_file *)
| MMeta (p : path)                 (* read : metadata *)
| MRemoveFile (p : path)           (* write: remove_file *)
| MRemove (p : path)               (* write: listing + emptiness check + remove of remove_dir *)
| MPublish (p : path) (buf : bytes). (* write: WritableFile::flush *)

Definition msec_val (s : msec) : Type :=
  match s with
  | MExists _ => bool
  | MScan _ => list name
  | MGetReader _ | MAppendOpen _ => bytes
  | MMeta _ => meta
  | _ => unit
  end.
Definition msec_rep (s : msec) : Type := res (msec_val s).

Definition mem_meta (f : memfile) : meta :=
  mkMeta (f_type f) (N.of_nat (length (f_content f)))
         (Some (f_created f)) (f_modified f) (f_accessed f).

Definition mem_update (s : memfs) (p : path) (g : memfile -> memfile) : memfs * res unit :=
  match s !! p with
  | None => (s, fail ENotFound)
  | Some f => (<[p := g f]> s, Ok tt)
  end.

(** [MemoryFsImpl::ensure_has_parent]: rfind('/') fails only for the root path ""; the parent
    has to be a directory *)
Definition has_parent (s : memfs) (p : path) : bool :=
  match p with
  | [] => false
  | _ => match s !! removelast p with
         | Some f => match f_type f with Dir => true | File => false end
         | None => false
         end
  end.

Definition msec_sem (c : msec) : memfs -> memfs * msec_rep c :=
  match c as c return memfs -> memfs * msec_rep c with
  | MExists p => fun s => (s, Ok (bool_decide (is_Some (s !! p))))
  | MScan p => fun s =>
      match s !! p with
      | None => (s, fail ENotFound)
      | Some f => match f_type f with
                  | File => (s, fail EOther)
                  | Dir => (s, Ok (mem_children s p))
                  end
      end
  | MInsertDir p => fun s =>
      if has_parent s p then
        match s !! p with
        | Some f => (s, fail (match f_type f with File => EFileExists | Dir => EDirExists end))
        | None => (<[p := mkMemFile Dir [] TAuto (Some TAuto) (Some TAuto)]> s, Ok tt)
        end
      else (s, fail EOther)
  | MSetC p t => fun s => mem_update s p (fun f => mkMemFile (f_type f) (f_content f) t (f_modified f) (f_accessed f))
  | MSetM p t => fun s => mem_update s p (fun f => mkMemFile (f_type f) (f_content f) (f_created f) (Some t) (f_accessed f))
  | MSetA p t => fun s => mem_update s p (fun f => mkMemFile (f_type f) (f_content f) (f_created f) (f_modified f) (Some t))
  | MGetReader p => fun s =>
      match s !! p with
      | None => (s, fail ENotFound)
      | Some f => match f_type f with
                  | Dir => (s, fail EOther)
                  | File => (<[p := mkMemFile File (f_content f) (f_created f) (f_modified f) (Some TAuto)]> s,
                             Ok (f_content f))
                  end
      end
  | MInsertFile p => fun s =>
      if has_parent s p then
        match s !! p with
        | Some (mkMemFile Dir _ _ _ _) => (s, fail EOther)
        | _ => (<[p := mkMemFile File [] TAuto (Some TAuto) (Some TAuto)]> s, Ok tt)
        end
      else (s, fail EOther)
  | MAppendOpen p => fun s =>
      match s !! p with
      | None => (s, fail ENotFound)
      | Some f => match f_type f with
                  | Dir => (s, fail EOther)
                  | File => (s, Ok (f_content f))
                  end
      end
  | MMeta p => fun s =>
      match s !! p with
      | None => (s, fail ENotFound)
      | Some f => (s, Ok (mem_meta f))
      end
  | MRemoveFile p => fun s =>
      match s !! p with
      | None => (s, fail ENotFound)
      | Some f => match f_type f with
                  | Dir => (s, fail EOther)
                  | File => (delete p s, Ok tt)
                  end
      end
  | MRemove p => fun s =>
      match s !! p with
      | None => (s, fail ENotFound)
      | Some f => match f_type f with
                  | File => (s, fail EOther)
                  | Dir => match mem_children s p with
                           | [] => (delete p s, Ok tt)
                           | _ :: _ => (s, fail EOther)
                           end
                  end
      end
  | MPublish p buf => fun s =>
      match s !! p with
      | Some (mkMemFile File _ cr _ ac) =>
          (<[p := mkMemFile File buf cr (Some TAuto) ac]> s, Ok tt)
      | _ => (s, Ok tt)
      end
  end.

Definition mprog := prog msec_rep.

(** what the trait call hands back to the glue that allocates handles *)
Definition mval (c : fscall) : Type :=
  match c with
  | CReadDir _ => list name
  | COpenFile _ | CAppendFile _ => bytes      (* content for the new handle *)
  | CMetadata _ => meta
  | CExists _ => bool
  | _ => unit
  end.

Definition msec_call (c : msec) : mprog (msec_rep c) := Call c Ret.

Definition mem_call (c : fscall) : mprog (res (mval c)) :=
  match c as c return mprog (res (mval c)) with
  | CReadDir p => msec_call (MScan p)
  | CCreateDir p => msec_call (MInsertDir p)
  | COpenFile p => msec_call (MGetReader p)
  | CCreateFile p => msec_call (MInsertFile p)
  | CAppendFile p => msec_call (MAppendOpen p)
  | CMetadata p => msec_call (MMeta p)
  | CSetCTime p t => msec_call (MSetC p (TSet t))
  | CSetMTime p t => msec_call (MSetM p (TSet t))
  | CSetATime p t => msec_call (MSetA p (TSet t))
  | CExists p => msec_call (MExists p)
  | CRemoveFile p => msec_call (MRemoveFile p)
  | CRemoveDir p => msec_call (MRemove p)
  | CCopyFile _ _ => Ret (fail ENotSupported)
  | CMoveFile _ _ => Ret (fail ENotSupported)
  | CMoveDir _ _ => Ret (fail ENotSupported)
  end.

(** sequential semantics of a trait call *)
Definition msec_handler : handler msec_rep memfs := msec_sem.
Definition mem_step (c : fscall) (s : memfs) : memfs * res (mval c) :=
  run msec_handler (mem_call c) s.
