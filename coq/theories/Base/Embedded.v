(** * EmbeddedFS: transcription of src/impls/embedded.rs.  rust-embed is
    modelled as "the list of embedded files (relative component paths) with
    their bytes". *)
From stdpp Require Import gmap list.
From Coq Require Import NArith ZArith.
From VFS Require Import Core.Types Core.Prog Core.Calls Base.MemFS.

Record embfs := mkEmb {
  e_dirs : gmap path (list name);     (* directory_map *)
  e_files : gmap path bytes }.        (* files (length) + T::get (bytes) *)

Definition add_child (d : path) (n : name) (m : gmap path (list name)) : gmap path (list name) :=
  let cur := default [] (m !! d) in
  <[d := if bool_decide (n ∈ cur) then cur else cur ++ [n]]> m.

(** the [while let Some((prefix, suffix)) = rsplit_once(path, "/")] walk, followed
    by the insertion of the first component below "" *)
Fixpoint add_ancestors (rev_path : list name) (m : gmap path (list name)) : gmap path (list name) :=
  match rev_path with
  | [] => m
  | n :: rest => add_ancestors rest (add_child (reverse rest) n m)
  end.

(** [EmbeddedFS::new]: the fold over T::iter() *)
Definition emb_new (files : list (path * bytes)) : embfs :=
  foldl (fun fs fb =>
           mkEmb (add_ancestors (reverse (fst fb)) (e_dirs fs))
                 (<[fst fb := snd fb]> (e_files fs)))
        (mkEmb {[ [] := [] ]} ∅) files.

Definition eval (c : fscall) : Type :=
  match c with
  | CReadDir _ => list name
  | COpenFile _ => bytes
  | CCreateFile _ | CAppendFile _ => hid
  | CMetadata _ => meta
  | CExists _ => bool
  | _ => unit
  end.

Definition emb_step (c : fscall) (s : embfs) : res (eval c) :=
  match c as c return res (eval c) with
  | CReadDir p =>
      match e_dirs s !! p with
      | Some children => Ok (sort_names children)
      | None => if bool_decide (is_Some (e_files s !! p)) then fail EOther else fail ENotFound
      end
  | COpenFile p =>
      match e_files s !! p with
      | Some bs => Ok bs
      | None => fail ENotFound
      end
  | CMetadata p =>
      match e_files s !! p with
      | Some bs => Ok (mkMeta File (N.of_nat (length bs)) (Some TAuto) (Some TAuto) None)
      | None => if bool_decide (is_Some (e_dirs s !! p))
                then Ok (mkMeta Dir 0 None None None)
                else fail ENotFound
      end
  | CExists p =>
      Ok (bool_decide (is_Some (e_files s !! p)) || bool_decide (is_Some (e_dirs s !! p))
          || bool_decide (p = []))
  | CCreateDir _ => fail ENotSupported
  | CCreateFile _ => fail ENotSupported
  | CAppendFile _ => fail ENotSupported
  | CSetCTime _ _ => fail ENotSupported
  | CSetMTime _ _ => fail ENotSupported
  | CSetATime _ _ => fail ENotSupported
  | CRemoveFile _ => fail ENotSupported
  | CRemoveDir _ => fail ENotSupported
  | CCopyFile _ _ => fail ENotSupported
  | CMoveFile _ _ => fail ENotSupported
  | CMoveDir _ _ => fail ENotSupported
  end.
