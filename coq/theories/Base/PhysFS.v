(** * PhysicalFS: transcription of src/impls/physical.rs over a MODELLED
    operating system.  The OS is not verified: this file states the outcome
    rules of std::fs on Linux that the crate relies on (ENOENT, EEXIST,
    ENOTDIR, EISDIR, ENOTEMPTY, rename, fs::copy, O_APPEND, unlinked files stay
    readable through open descriptors), and the correspondence check runs it
    against a real temporary directory on every run.  Symlinks, permissions and
    special files are outside the model. *)
From stdpp Require Import gmap list.
From Coq Require Import NArith ZArith.
From VFS Require Import Core.Types Core.Prog Core.Calls Base.MemFS.

Inductive pkind := PDir | PFile (ino : nat).
Record pnode := mkPNode { pn_kind : pkind; pn_mtime : time; pn_atime : time }.

Record physfs := mkPhys {
  p_tree : gmap path pnode;        (* keyed by the path below the root directory *)
  p_inodes : gmap nat bytes;       (* file contents; never collected, so unlinked
                                      files stay reachable through open handles *)
  p_next : nat }.

Definition phys_new : physfs :=
  mkPhys {[ [] := mkPNode PDir TAuto TAuto ]} ∅ 0.

(** a directory tree that exists before the filesystem is used (a folder on disk) *)
Fixpoint add_dirs (t : gmap path pnode) (rev_path : list name) : gmap path pnode :=
  match rev_path with
  | [] => t
  | _ :: rest =>
      let d := reverse rev_path in
      add_dirs (match t !! d with Some _ => t | None => <[d := mkPNode PDir TAuto TAuto]> t end) rest
  end.
Definition phys_of_files (files : list (path * bytes)) : physfs :=
  foldl (fun s fb =>
           let ino := p_next s in
           mkPhys (<[fst fb := mkPNode (PFile ino) TAuto TAuto]> (add_dirs (p_tree s) (tl (reverse (fst fb)))))
                  (<[ino := snd fb]> (p_inodes s)) (S ino))
        phys_new files.

Definition phys_inode (s : physfs) (ino : nat) : bytes := default [] (p_inodes s !! ino).
(** a write through a descriptor replaces the bytes and stamps the modification time of
    the (still linked) file *)
Definition phys_set_inode (s : physfs) (ino : nat) (bs : bytes) : physfs :=
  mkPhys ((fun n => match pn_kind n with
                    | PFile j => if Nat.eqb j ino then mkPNode (pn_kind n) TAuto (pn_atime n) else n
                    | PDir => n
                    end) <$> p_tree s)
         (<[ino := bs]> (p_inodes s)) (p_next s).

(** path walk of the kernel *)
Inductive lres := Found (n : pnode) | NoEnt | NotDir.

Fixpoint walk_from (t : gmap path pnode) (done : path) (cur : lres) (rest : path) : lres :=
  match rest with
  | [] => cur
  | c :: rest' =>
      match cur with
      | Found n =>
          match pn_kind n with
          | PDir =>
              let q := done ++ [c] in
              walk_from t q (match t !! q with Some m => Found m | None => NoEnt end) rest'
          | PFile _ => NotDir
          end
      | other => other
      end
  end.
Definition lookup_path (s : physfs) (p : path) : lres :=
  walk_from (p_tree s) [] (match p_tree s !! [] with Some n => Found n | None => NoEnt end) p.

Definition phys_children (s : physfs) (p : path) : list name :=
  sort_names (omap (fun kv => child_of p (fst kv)) (map_to_list (p_tree s))).

Definition set_tree (s : physfs) (t : gmap path pnode) : physfs :=
  mkPhys t (p_inodes s) (p_next s).

(** touching a directory's mtime when an entry is added or removed *)
Definition touch_dir (t : gmap path pnode) (d : path) : gmap path pnode :=
  match t !! d with
  | Some n => <[d := mkPNode (pn_kind n) TAuto (pn_atime n)]> t
  | None => t
  end.

Definition lres_err {T} (l : lres) : res T :=
  match l with
  | NoEnt => fail ENotFound
  | _ => fail EIo
  end.

Definition pval (c : fscall) : Type :=
  match c with
  | CReadDir _ => list name
  | COpenFile _ | CCreateFile _ | CAppendFile _ => nat   (* inode of the opened file *)
  | CMetadata _ => meta
  | CExists _ => bool
  | _ => unit
  end.

Definition is_prefix (a b : path) : bool := bool_decide (take (length a) b = a).

(** rename(2) of a file or directory: re-key the whole subtree *)
Definition rekey (t : gmap path pnode) (s d : path) : gmap path pnode :=
  let moved := filter (fun kv => is_prefix s (fst kv) = true) (map_to_list t) in
  let rest := filter (fun kv => is_prefix s (fst kv) = false) (map_to_list t) in
  list_to_map (rest ++ map (fun kv => (d ++ drop (length s) (fst kv), snd kv)) moved).

(** the kernel resolves the parent directory of the old path, then the parent directory of the new
    path, and only then looks the old entry up *)
Definition parent_lookup (st : physfs) (p : path) : option (res unit) :=
  match p with
  | [] => None                                           (* the parent of the root directory exists *)
  | _ => match lookup_path st (removelast p) with
         | Found pn => match pn_kind pn with PDir => None | PFile _ => Some (fail EIo) end
         | other => Some (lres_err other)
         end
  end.

Definition phys_rename (st : physfs) (s d : path) : physfs * res unit :=
  match parent_lookup st s with
  | Some e => (st, e)
  | None =>
  match parent_lookup st d with
  | Some e => (st, e)
  | None =>
  match s, d with
  | [], _ | _, [] => (st, fail EIo)                      (* the root is busy / would move into itself *)
  | _, _ =>
  match p_tree st !! s with
  | None => (st, fail ENotFound)
  | Some sn =>
      if is_prefix s d && negb (bool_decide (s = d)) then (st, fail EIo)   (* EINVAL *)
      else if bool_decide (s = d) then (st, Ok tt)
      else
        let go := (set_tree st (touch_dir (touch_dir (rekey (p_tree st) s d) (removelast s)) (removelast d)), Ok tt) in
        match p_tree st !! d, pn_kind sn with
        | None, _ => go
        | Some dn, PFile _ =>
            match pn_kind dn with
            | PFile _ => (set_tree st (touch_dir (touch_dir (rekey (delete d (p_tree st)) s d) (removelast s)) (removelast d)), Ok tt)
            | PDir => (st, fail EIo)      (* EISDIR *)
            end
        | Some dn, PDir =>
            match pn_kind dn with
            | PFile _ => (st, fail EIo)   (* ENOTDIR *)
            | PDir => match phys_children st d with
                      | [] => (set_tree st (touch_dir (touch_dir (rekey (delete d (p_tree st)) s d) (removelast s)) (removelast d)), Ok tt)
                      | _ => (st, fail EIo) (* ENOTEMPTY *)
                      end
            end
        end
  end end end end.

Definition phys_step (c : fscall) (s : physfs) : physfs * res (pval c) :=
  match c as c return physfs * res (pval c) with
  | CReadDir p =>
      match lookup_path s p with
      | Found n => match pn_kind n with
                   | PDir => (s, Ok (phys_children s p))
                   | PFile _ => (s, fail EIo)
                   end
      | other => (s, lres_err other)
      end
  | CCreateDir p =>
      match p with
      | [] => (s, fail (match lookup_path s [] with Found _ => EDirExists | _ => ENotFound end))
      | _ =>
          match lookup_path s (removelast p) with
          | Found pn =>
              match pn_kind pn with
              | PFile _ => (s, fail EIo)
              | PDir =>
                  match p_tree s !! p with
                  | Some n => (s, fail (match pn_kind n with PDir => EDirExists | PFile _ => EFileExists end))
                  | None => (set_tree s (touch_dir (<[p := mkPNode PDir TAuto TAuto]> (p_tree s)) (removelast p)), Ok tt)
                  end
              end
          | other => (s, lres_err other)
          end
      end
  | COpenFile p =>
      match lookup_path s p with
      | Found n => match pn_kind n with
                   | PFile ino => (s, Ok ino)
                   | PDir => (s, fail EOther)     (* physical.rs rejects a directory *)
                   end
      | other => (s, lres_err other)
      end
  | CCreateFile p =>
      match p with
      | [] => (s, match lookup_path s [] with Found _ => fail EIo | other => lres_err other end)
      | _ =>
          match lookup_path s (removelast p) with
          | Found pn =>
              match pn_kind pn with
              | PFile _ => (s, fail EIo)
              | PDir =>
                  match p_tree s !! p with
                  | Some n =>
                      match pn_kind n with
                      | PDir => (s, fail EIo)
                      | PFile ino =>
                          (mkPhys (<[p := mkPNode (PFile ino) TAuto (pn_atime n)]> (p_tree s))
                                  (<[ino := []]> (p_inodes s)) (p_next s), Ok ino)
                      end
                  | None =>
                      let ino := p_next s in
                      (mkPhys (touch_dir (<[p := mkPNode (PFile ino) TAuto TAuto]> (p_tree s)) (removelast p))
                              (<[ino := []]> (p_inodes s)) (S ino), Ok ino)
                  end
              end
          | other => (s, lres_err other)
          end
      end
  | CAppendFile p =>
      match lookup_path s p with
      | Found n => match pn_kind n with
                   | PFile ino => (s, Ok ino)
                   | PDir => (s, fail EIo)
                   end
      | other => (s, lres_err other)
      end
  | CMetadata p =>
      match lookup_path s p with
      | Found n =>
          (s, Ok (match pn_kind n with
                  | PDir => mkMeta Dir 0 (Some TAuto) (Some (pn_mtime n)) (Some (pn_atime n))
                  | PFile ino => mkMeta File (N.of_nat (length (phys_inode s ino)))
                                        (Some TAuto) (Some (pn_mtime n)) (Some (pn_atime n))
                  end))
      | other => (s, lres_err other)
      end
  | CSetCTime _ _ => (s, fail ENotSupported)
  | CSetMTime p t =>
      match lookup_path s p with
      | Found n => (set_tree s (<[p := mkPNode (pn_kind n) (TSet t) (pn_atime n)]> (p_tree s)), Ok tt)
      | other => (s, lres_err other)
      end
  | CSetATime p t =>
      match lookup_path s p with
      | Found n => (set_tree s (<[p := mkPNode (pn_kind n) (pn_mtime n) (TSet t)]> (p_tree s)), Ok tt)
      | other => (s, lres_err other)
      end
  | CExists p => (s, Ok (match lookup_path s p with Found _ => true | _ => false end))
  | CRemoveFile p =>
      match lookup_path s p with
      | Found n => match pn_kind n with
                   | PFile _ => (set_tree s (touch_dir (delete p (p_tree s)) (removelast p)), Ok tt)
                   | PDir => (s, fail EIo)
                   end
      | other => (s, lres_err other)
      end
  | CRemoveDir p =>
      match lookup_path s p with
      | Found n => match pn_kind n with
                   | PFile _ => (s, fail EIo)
                   | PDir => match phys_children s p with
                             | [] => (set_tree s (touch_dir (delete p (p_tree s)) (removelast p)), Ok tt)
                             | _ => (s, fail EIo)
                             end
                   end
      | other => (s, lres_err other)
      end
  | CCopyFile src d =>
      (* std::fs::copy: open the source (must be a regular file), then create/truncate the target *)
      match lookup_path s src with
      | Found n =>
          match pn_kind n with
          | PDir => (s, fail EIo)
          | PFile sino =>
              let content := phys_inode s sino in
              match d with
              | [] => (s, fail EIo)
              | _ =>
                  match lookup_path s (removelast d) with
                  | Found pn =>
                      match pn_kind pn with
                      | PFile _ => (s, fail EIo)
                      | PDir =>
                          match p_tree s !! d with
                          | Some dn =>
                              match pn_kind dn with
                              | PDir => (s, fail EIo)
                              | PFile dino =>
                                  (mkPhys (<[d := mkPNode (PFile dino) TAuto (pn_atime dn)]> (p_tree s))
                                          (<[dino := content]> (p_inodes s)) (p_next s), Ok tt)
                              end
                          | None =>
                              let ino := p_next s in
                              (mkPhys (touch_dir (<[d := mkPNode (PFile ino) TAuto TAuto]> (p_tree s)) (removelast d))
                                      (<[ino := content]> (p_inodes s)) (S ino), Ok tt)
                          end
                      end
                  | other => (s, lres_err other)
                  end
              end
          end
      | other => (s, lres_err other)
      end
  | CMoveFile src d => phys_rename s src d
  | CMoveDir src d =>
      let '(s', r) := phys_rename s src d in
      match r with
      | Ok _ => (s', Ok tt)
      | _ => (s, fail ENotSupported)     (* every rename error is turned into NotSupported *)
      end
  end.
