(** * Open file handles.
    [WritableFile] of MemoryFS is a [std::io::Cursor<Vec<u8>>] plus
    publish-on-flush/drop; [ReadableFile] is the hand-written reader of
    memory.rs; [cursor_*] is the reference semantics of [std::io::Cursor]
    (trusted model of std, validated against the real one by the harness). *)
From stdpp Require Import list.
From Coq Require Import NArith ZArith.
From VFS Require Import Core.Types.

Local Open Scope Z_scope.

(** ** reference: std::io::Cursor *)

(** [Seek for Cursor]: Start(n) always succeeds; End/Current use
    [checked_add_signed] on the u64 base *)
Definition cursor_seek (len pos : Z) (sf : seekfrom) : option Z :=
  match sf with
  | SeekStart o => Some o
  | SeekCurrent o => let n := pos + o in if (0 <=? n) && (n <=? u64_max) then Some n else None
  | SeekEnd o => let n := len + o in if (0 <=? n) && (n <=? u64_max) then Some n else None
  end.

(** [Read for Cursor<&[u8]>]: the slice from min(pos,len), at most n bytes *)
Definition cursor_read (content : bytes) (pos : Z) (n : N) : bytes * Z :=
  let len := Z.of_nat (length content) in
  let start := Z.min pos len in
  let out := take (N.to_nat n) (drop (Z.to_nat start) content) in
  (out, pos + Z.of_nat (length out)).

(** [Write for Cursor<Vec<u8>>] (vec_write): zero-fill a gap, overwrite, extend *)
Definition cursor_write (buf : bytes) (pos : Z) (data : bytes) : bytes * Z :=
  let p := Z.to_nat pos in
  let padded := buf ++ replicate (p - length buf)%nat 0%N in
  (take p padded ++ data ++ drop (p + length data)%nat padded,
   pos + Z.of_nat (length data)).

(** ** memory.rs ReadableFile (as repaired: saturating length, checked seek) *)
Definition mem_reader_len (content : bytes) (pos : Z) : Z :=
  Z.max 0 (Z.of_nat (length content) - pos).

Definition mem_reader_read (content : bytes) (pos : Z) (n : N) : res bytes * Z :=
  let amt := Z.min (Z.of_N n) (mem_reader_len content pos) in
  if amt =? 0 then (Ok [], pos)
  else if amt =? 1 then
         match content !! Z.to_nat pos with
         | Some b => (Ok [b], pos + 1)
         | None => (Panic, pos)               (* index out of bounds *)
         end
       else
         let a := Z.to_nat pos in
         let b := Z.to_nat (pos + amt) in
         if (b <=? length content)%nat
         then (Ok (take (b - a) (drop a content)), pos + amt)
         else (Panic, pos).                   (* slice out of range *)

Definition mem_reader_seek (content : bytes) (pos : Z) (sf : seekfrom) : res Z * Z :=
  match sf with
  | SeekStart o => (Ok o, o)
  | SeekCurrent o =>
      let n := pos + o in
      if (0 <=? n) && (n <=? u64_max) then (Ok n, n) else (fail EIo, pos)
  | SeekEnd o =>
      let n := Z.of_nat (length content) + o in
      if (0 <=? n) && (n <=? u64_max) then (Ok n, n) else (fail EIo, pos)
  end.

(** ** the handle table *)
Inductive hstate :=
| HMemReader (content : bytes) (pos : Z)
| HMemWriter (base : nat) (dest : path) (buf : bytes) (pos : Z)
| HCursorReader (content : bytes) (pos : Z)          (* EmbeddedFS: Cursor<Cow<[u8]>> *)
| HPhysReader (base : nat) (ino : nat) (pos : Z)
| HPhysWriter (base : nat) (ino : nat) (pos : Z) (append : bool)
| HClosed.
