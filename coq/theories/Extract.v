(** Extraction of the executable model for the correspondence check.
    Only ExtrOcamlBasic is used (bool, option, unit, prod, list, sumbool ->
    OCaml natives); no Extract Constant / Extract Inductive of our own:
    nat, N, Z, positive stay the extracted inductives. *)
From Coq Require Import Extraction ExtrOcamlBasic.
From VFS Require Import Path.Str Core.Types Core.Calls Layer.Config Layer.Run Layer.Conc.
Extraction Language OCaml.
Extraction "vfsmodel.ml" run_case run_case_async run_conc prs rnd jn.
