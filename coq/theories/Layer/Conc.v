(** * Interleaved semantics at lock granularity (C16, C17).
    A thread is a program over base calls; it runs until it is about to acquire the lock of a
    MemoryFS (a lock section of a trait call, or the publish of a write handle) and waits there
    for the scheduler.  One scheduling step = the section plus everything up to the thread's
    next lock acquisition, exactly what the cooperative scheduler of the harness does between
    two [verif_hooks::yield_point]s.  All shared state of MemoryFS is behind that lock. *)
From stdpp Require Import gmap list.
From Coq Require Import NArith ZArith.
From VFS Require Import Path.Str Core.Types Core.Prog Core.Calls Base.MemFS Base.Handles Base.PhysFS Base.Embedded
  Base.Store Layer.VfsPath Layer.Config Layer.Utf8 Layer.Run.

Inductive tstate (R : Type) : Type :=
| TDone (r : R)
| TAtMem (i : nat) (c : fscall) (sec : msec) (ki : msec_rep sec -> mprog (res (mval c)))
         (k : frep c -> bprog R)                          (* about to enter lock section [sec] of call c *)
| TAtPub (h : hid) (o : hop) (k : res (hval o) -> bprog R).  (* about to lock in flush / drop *)
Arguments TDone {R} r.
Arguments TAtMem {R} i c sec ki k.
Arguments TAtPub {R} h o k.

Definition is_mem (st : store) (i : nat) : bool :=
  match st_bases st !! i with Some (BMem _) => true | _ => false end.

Definition publishes (st : store) (h : hid) (o : hop) : bool :=
  match o, st_handles st !! h with
  | HFlush, Some (HMemWriter _ _ _ _) => true
  | HDrop, Some (HMemWriter _ _ _ _) => true
  | _, _ => false
  end.

(** does the thread have to wait before this call? *)
Definition stop_at {R} (st : store) (b : bcall) : (brep b -> bprog R) -> option (tstate R) :=
  match b as b return (brep b -> bprog R) -> option (tstate R) with
  | BFs i c => fun k =>
      if is_mem st i then
        match mem_call c with
        | Call sec ki => Some (TAtMem i c sec ki k)
        | Ret _ => None                       (* no lock taken: the NotSupported defaults *)
        end
      else None
  | BH h o => fun k => if publishes st h o then Some (TAtPub h o k) else None
  | BLog _ _ => fun _ => None
  end.

(** run a thread up to its next lock acquisition *)
Fixpoint advance {R} (m : bprog R) (st : store) : store * tstate R :=
  match m with
  | Ret r => (st, TDone r)
  | Call b k =>
      match stop_at st b k with
      | Some ts => (st, ts)
      | None => let '(st', x) := bhandler b st in advance (k x) st'
      end
  end.

(** one scheduling step of a waiting thread *)
Definition resume {R} (ts : tstate R) (st : store) : store * tstate R :=
  match ts with
  | TDone r => (st, TDone r)
  | TAtMem i c sec ki k =>
      match st_bases st !! i with
      | Some (BMem s) =>
          let '(s', x) := msec_sem sec s in
          let st' := set_base st i (BMem s') in
          match ki x with
          | Ret r => let '(st'', reply) := mem_glue i c r st' in advance (k reply) st''
          | Call sec' ki' => (st', TAtMem i c sec' ki' k)
          end
      | _ => (st, ts)
      end
  | TAtPub h o k => let '(st', x) := bhandler (BH h o) st in advance (k x) st'
  end.

(** the label the harness reports at the corresponding yield point *)
Inductive label := LExists | LScan | LInsertDir | LSetC | LSetM | LSetA | LGetReader | LInsertFile
                 | LAppendOpen | LMeta | LRemoveFile | LRemove | LPublish.
Definition sec_label (s : msec) : label :=
  match s with
  | MExists _ => LExists | MScan _ => LScan | MInsertDir _ => LInsertDir | MSetC _ _ => LSetC
  | MSetM _ _ => LSetM | MSetA _ _ => LSetA | MGetReader _ => LGetReader | MInsertFile _ => LInsertFile
  | MAppendOpen _ => LAppendOpen | MMeta _ => LMeta | MRemoveFile _ => LRemoveFile | MRemove _ => LRemove
  | MPublish _ _ => LPublish
  end.
Definition ts_label {R} (ts : tstate R) : option label :=
  match ts with
  | TDone _ => None
  | TAtMem _ _ sec _ _ => Some (sec_label sec)
  | TAtPub _ _ _ => Some LPublish
  end.

(** ** threads of public API calls *)
Section Threads.
  Variable cfg : list fsref.
  Variable fuel : nat.

  Definition open_in (ps : pathspec) (f : vfs -> path -> bprog (res hid)) : bprog (res hid) :=
    match locate cfg ps with
    | Ok (v, s) => f v (prs s)
    | Err e => Ret (Err e)
    | Panic => Ret Panic
    end.

  Definition hcall {o : hop} (regs : list (nat * hid)) (r : nat) (f : hval o -> value)
      (k : outcome -> bprog (list outcome)) : bprog (list outcome) :=
    match lookup_reg regs r with
    | Some h => let* x := Call (BH h o) Ret in k (res_map f x)
    | None => k out_of_fuel
    end.

  (** the calls of one thread, in program order; handle registers are thread-local *)
  Fixpoint thread_prog (idx : nat) (ops : list op) (regs : list (nat * hid)) (acc : list outcome)
    : bprog (list outcome) :=
    match ops with
    | [] => Ret (reverse acc)
    | o :: rest =>
        let opening (ps : pathspec) (f : vfs -> path -> bprog (res hid)) :=
          let* r := open_in ps f in
          match r with
          | Ok h => thread_prog (S idx) rest ((idx, h) :: regs) (Ok VUnit :: acc)
          | Err e => thread_prog (S idx) rest regs (Err e :: acc)
          | Panic => thread_prog (S idx) rest regs (Panic :: acc)
          end in
        let next (x : outcome) := thread_prog (S idx) rest regs (x :: acc) in
        match o with
        | OCreateFile ps => opening ps vp_create_file
        | OAppendFile ps => opening ps vp_append_file
        | OOpenFile ps => opening ps vp_open_file
        | OHRead r n => hcall (o := HRead n) regs r VBytes next
        | OHSeek r sf => hcall (o := HSeek sf) regs r VZ next
        | OHWrite r bs => hcall (o := HWrite bs) regs r VN next
        | OHFlush r => hcall (o := HFlush) regs r (fun _ => VUnit) next
        | OHDrop r => hcall (o := HDrop) regs r (fun _ => VUnit) next
        | OHReadToEnd r => hcall (o := HReadToEnd) regs r VBytes next
        | _ => let* x := op_prog cfg fuel o in next x
        end
    end.

  Definition pool := list (tstate (list outcome)).

  (** start every thread: each runs to its first lock acquisition *)
  (** [regs0]: the handles the sequential setup left open; the FIRST thread owns them (as in the harness) *)
  Fixpoint start (regs0 : list (nat * hid)) (progs : list (list op)) (st : store) : store * pool :=
    match progs with
    | [] => (st, [])
    | ops :: rest =>
        let '(st1, ts) := advance (thread_prog 0 ops regs0 []) st in
        let '(st2, tss) := start [] rest st1 in
        (st2, ts :: tss)
    end.

  (** follow a schedule (thread numbers); returns the labels met, in order *)
  Fixpoint follow (sch : list nat) (st : store) (p : pool) (labels : list (nat * label))
    : store * pool * list (nat * label) :=
    match sch with
    | [] => (st, p, reverse labels)
    | t :: sch' =>
        match p !! t with
        | Some ts =>
            match ts_label ts with
            | Some l =>
                let '(st', ts') := resume ts st in
                follow sch' st' (<[t := ts']> p) ((t, l) :: labels)
            | None => follow sch' st p labels
            end
        | None => follow sch' st p labels
        end
    end.

  Definition results (p : pool) : list (option (list outcome)) :=
    map (fun ts => match ts with TDone r => Some r | _ => None end) p.
End Threads.

Record conc_case := mkConc {
  cc_bases : list basekind; cc_cfg : list fsref; cc_setup : list op;
  cc_threads : list (list op); cc_schedule : list nat; cc_target : nat }.

Definition run_conc (fuel : nat) (c : conc_case)
  : list (option (list outcome)) * list (nat * label) * outcome :=
  let st0 := init_store (cc_bases c) in
  let rs := mkRS st0 [] in
  (* sequential setup *)
  (* the i-th setup op has index 1000 + i (its handle register, as in the harness) *)
  let rs1 := snd (fold_left (fun ir o => (S (fst ir), fst (run_op (cc_cfg c) fuel (fst ir) o (snd ir))))
                            (cc_setup c) (1000, rs)) in
  let st1 := rs_store rs1 in
  let '(st2, p) := start (cc_cfg c) fuel (rs_regs rs1) (cc_threads c) st1 in
  let '(st3, p', labels) := follow (cc_schedule c) st2 p [] in
  let snap := match inst (cc_cfg c) (cc_target c) with
              | Some v => snd (run bhandler (snapshot fuel v) st3)
              | None => out_of_fuel
              end in
  (results p', labels, snap).
