(** * The public API driven by cases: what the harness does to the real code,
    done to the model.  One [op] = one call of a public [VfsPath] method (or of
    a handle method); its path is given the way a user gives it, as a chain of
    [join] arguments from the root of an instance. *)
From stdpp Require Import gmap list.
From Coq Require Import NArith ZArith.
From VFS Require Import Path.Str Core.Types Core.Prog Core.Calls Base.MemFS Base.Handles
  Base.PhysFS Base.Embedded Base.Store Layer.VfsPath Layer.Altroot Layer.Overlay Layer.Config Layer.Utf8 Layer.Async.

(** ** the string layer instantiated with bytes *)
Definition jn (base arg : list N) : option (list N) := join_internal N.eqb slashN dotN base arg.
Definition prs (s : list N) : path := parse N.eqb slashN s.
Definition rnd (p : path) : list N := render slashN p.

(** a path given as [root_k.join(a1).join(a2)...]; [JParent] is [.parent()] *)
Inductive jstep := JJoin (arg : list N) | JParent | JRoot.
Record pathspec := PS { ps_fs : nat; ps_steps : list jstep }.

(** the string of the path, or the InvalidPath error of the first rejected join *)
Fixpoint resolve_steps (cur : list N) (steps : list jstep) : res (list N) :=
  match steps with
  | [] => Ok cur
  | JJoin a :: rest =>
      match jn cur a with
      | Some s => resolve_steps s rest
      | None => Err (mkErr EInvalidPath (PRaw a))
      end
  | JParent :: rest => resolve_steps (parent_internal N.eqb slashN cur) rest
  | JRoot :: rest => resolve_steps [] rest       (* VfsPath::root(): the root of the same filesystem *)
  end.

(** [VfsPath == VfsPath] (path.rs, PartialEq): the same filesystem instance (Arc::ptr_eq) and the same string *)
Definition path_eq (i : nat) (p : path) (i' : nat) (p' : path) : bool :=
  Nat.eqb i i' && bool_decide (p = p').

Inductive op :=
(* string-level *)
| OAsStr (p : pathspec)
| OFilename (p : pathspec)
| OExtension (p : pathspec)
| OIsRoot (p : pathspec)
| OPathEq (p q : pathspec)           (* VfsPath == VfsPath: same filesystem instance and same canonical string *)
(* filesystem *)
| OExists (p : pathspec)
| OMetadata (p : pathspec)
| OIsFile (p : pathspec)
| OIsDir (p : pathspec)
| OReadDir (p : pathspec)
| OCreateDir (p : pathspec)
| OCreateDirAll (p : pathspec)
| OCreateFile (p : pathspec)        (* yields a handle, named by the index of this op *)
| OAppendFile (p : pathspec)
| OOpenFile (p : pathspec)
| ORemoveFile (p : pathspec)
| ORemoveDir (p : pathspec)
| ORemoveDirAll (p : pathspec)
| OSetCTime (p : pathspec) (t : Z)
| OSetMTime (p : pathspec) (t : Z)
| OSetATime (p : pathspec) (t : Z)
| OReadToString (p : pathspec)
| OCopyFile (p q : pathspec)
| OMoveFile (p q : pathspec)
| OCopyDir (p q : pathspec)
| OMoveDir (p q : pathspec)
| OWalkDir (p : pathspec)
| OWalkRm (p : pathspec) (k : nat) (q : pathspec)   (* walk p; after k items remove q; drain *)
| OProbe (p : pathspec)             (* every observer on one path (C05) *)
| OSnap (k : nat)                   (* full snapshot of instance k through its public API *)
| OTree (k : nat)                   (* the same without opening any file (metadata and listings only) *)
(* handles: [r] is the index of the op that produced the handle *)
| OHRead (r : nat) (n : N)
| OHSeek (r : nat) (sf : seekfrom)
| OHWrite (r : nat) (bs : bytes)
| OHFlush (r : nat)
| OHDrop (r : nat)
| OHReadToEnd (r : nat)
(* harness control *)
| ONop                              (* harness-only step (e.g. hostile directory content on disk) *)
| OSetFault (id : nat) (k : nat)    (* the k-th next call through wrapper id fails *)
| OSetIo (m : iomode)              (* from now on reads and/or writes and flushes on handles fail *)
| OClearLog.

Record snapentry := mkSnap {
  sn_path : path;
  sn_meta : res meta;
  sn_content : option (res bytes);      (* files: open_file + read_to_end *)
  sn_list_err : option err }.           (* directories whose listing failed *)

Record probe := mkProbe {
  pr_exists : res bool; pr_meta : res meta; pr_is_file : res bool; pr_is_dir : res bool;
  pr_list : res (list path); pr_read : res bytes }.

Inductive value :=
| VUnit
| VBool (b : bool)
| VStr (s : list N)
| VOptStr (s : option (list N))
| VPaths (l : list path)
| VMeta (m : meta)
| VBytes (b : bytes)
| VN (n : N)
| VZ (z : Z)
| VItems (l : list (res path))
| VProbe (p : probe)
| VSnap (l : list snapentry).

Definition outcome := res value.

Definition lift {T} (f : T -> value) (m : bprog (res T)) : bprog outcome :=
  let* r := m in Ret (res_map f r).

(** read a whole file the way the harness does: open, read_to_end, drop *)
Definition read_all (v : vfs) (p : path) : bprog (res bytes) :=
  try* h := vp_open_file v p in
  let* r := Call (BH h HReadToEnd) Ret in
  let* _ := Call (BH h HDrop) Ret in
  Ret r.

Fixpoint snap_dir_gen (reads : bool) (fuel : nat) (v : vfs) (p : path) : bprog (list snapentry) :=
  match fuel with
  | O => Ret [mkSnap p out_of_fuel None None]
  | S fuel' =>
      let* r := vp_read_dir v p in
      match r with
      | Ok children =>
          (fix each (cs : list path) : bprog (list snapentry) :=
             match cs with
             | [] => Ret []
             | c :: cs' =>
                 let* md := vp_metadata v c in
                 let* here :=
                   match md with
                   | Ok m =>
                       match m_type m with
                       | File => if reads then let* bs := read_all v c in Ret [mkSnap c md (Some bs) None]
                                 else Ret [mkSnap c md None None]
                       | Dir => let* sub := snap_dir_gen reads fuel' v c in Ret (mkSnap c md None None :: sub)
                       end
                   | _ => Ret [mkSnap c md None None]
                   end in
                 let* rest := each cs' in
                 Ret (here ++ rest)
             end) children
      | Err e => Ret [mkSnap p (Err e) None (Some e)]
      | Panic => Ret [mkSnap p Panic None None]
      end
  end.

Definition stat_tree (fuel : nat) (v : vfs) : bprog outcome :=
  let* md := vp_metadata v [] in
  let* rest := snap_dir_gen false fuel v [] in
  Ret (Ok (VSnap (mkSnap [] md None None :: rest))).

Fixpoint snap_dir (fuel : nat) (v : vfs) (p : path) : bprog (list snapentry) :=
  match fuel with
  | O => Ret [mkSnap p out_of_fuel None None]
  | S fuel' =>
      let* r := vp_read_dir v p in
      match r with
      | Ok children =>
          (fix each (cs : list path) : bprog (list snapentry) :=
             match cs with
             | [] => Ret []
             | c :: cs' =>
                 let* md := vp_metadata v c in
                 let* here :=
                   match md with
                   | Ok m =>
                       match m_type m with
                       | File => let* bs := read_all v c in Ret [mkSnap c md (Some bs) None]
                       | Dir => let* sub := snap_dir fuel' v c in Ret (mkSnap c md None None :: sub)
                       end
                   | _ => Ret [mkSnap c md None None]
                   end in
                 let* rest := each cs' in
                 Ret (here ++ rest)
             end) children
      | Err e => Ret [mkSnap p (Err e) None (Some e)]
      | Panic => Ret [mkSnap p Panic None None]
      end
  end.

Definition snapshot (fuel : nat) (v : vfs) : bprog outcome :=
  let* md := vp_metadata v [] in
  let* rest := snap_dir fuel v [] in
  Ret (Ok (VSnap (mkSnap [] md None None :: rest))).

Definition do_probe (v : vfs) (p : path) : bprog outcome :=
  let* ex := vp_exists v p in
  let* md := vp_metadata v p in
  let* isf := vp_is_file v p in
  let* isd := vp_is_dir v p in
  let* ls := vp_read_dir v p in
  let* rd := read_all v p in
  Ret (Ok (VProbe (mkProbe ex md isf isd ls rd))).

Section Run.
  Variable cfg : list fsref.       (* instance k is [cfg !! k] *)
  Variable fuel : nat.

  Record rstate := mkRS { rs_store : store; rs_regs : list (nat * hid) }.

  Definition inst (k : nat) : option vfs := vfs_of <$> (cfg !! k).

  (** resolve a pathspec to (instance, string) *)
  Definition locate (ps : pathspec) : res (vfs * list N) :=
    match inst (ps_fs ps) with
    | None => out_of_fuel
    | Some v => res_map (fun s => (v, s)) (resolve_steps [] (ps_steps ps))
    end.

  Definition on_path (ps : pathspec) (f : vfs -> path -> bprog outcome) : bprog outcome :=
    match locate ps with
    | Ok (v, s) => f v (prs s)
    | Err e => Ret (Err e)
    | Panic => Ret Panic
    end.

  Definition on_paths (ps qs : pathspec) (f : vfs -> path -> vfs -> path -> bprog outcome) : bprog outcome :=
    match locate ps, locate qs with
    | Ok (v, s), Ok (v', s') => f v (prs s) v' (prs s')
    | Err e, _ => Ret (Err e)
    | _, Err e => Ret (Err e)
    | _, _ => Ret Panic
    end.

  Definition string_op (ps : pathspec) (f : list N -> value) : bprog outcome :=
    match locate ps with
    | Ok (_, s) => Ret (Ok (f s))
    | Err e => Ret (Err e)
    | Panic => Ret Panic
    end.

  Fixpoint lookup_reg (regs : list (nat * hid)) (r : nat) : option hid :=
    match regs with
    | [] => None
    | (k, h) :: rest => if Nat.eqb k r then Some h else lookup_reg rest r
    end.
  Definition handle_of (rs : rstate) (r : nat) : option hid := lookup_reg (rs_regs rs) r.

  (** [k] calls of next() on a walk (fewer if it ends), newest item first *)
  Fixpoint walk_take (v : vfs) (k : nat) (w : walker) (acc : list (res path)) : bprog (list (res path) * walker) :=
    match k with
    | O => Ret (acc, w)
    | S k' =>
        let* iw := walk_next v w in
        match fst iw with
        | None => Ret (acc, snd iw)
        | Some it => walk_take v k' (snd iw) (it :: acc)
        end
    end.

  (** [if q.remove_file().is_err() { let _ = q.remove_dir_all(); }] *)
  Definition remove_any (v : vfs) (q : path) : bprog (res unit) :=
    let* r := vp_remove_file v q in
    match r with
    | Ok _ => Ret (Ok tt)
    | _ => vp_remove_dir_all v fuel q
    end.

  (** the program of an op that does not involve the register file *)
  Definition op_prog (o : op) : bprog outcome :=
    match o with
    | OAsStr ps => string_op ps VStr
    | OFilename ps => string_op ps (fun s => VStr (filename_internal N.eqb slashN s))
    | OExtension ps => string_op ps (fun s => VOptStr (extension_internal N.eqb slashN dotN s))
    | OIsRoot ps => string_op ps (fun s => VBool (match s with [] => true | _ => false end))
    | OPathEq ps qs => on_paths ps qs (fun v p v' p' => Ret (Ok (VBool (path_eq (v_id v) p (v_id v') p'))))
    | OExists ps => on_path ps (fun v p => lift VBool (vp_exists v p))
    | OMetadata ps => on_path ps (fun v p => lift VMeta (vp_metadata v p))
    | OIsFile ps => on_path ps (fun v p => lift VBool (vp_is_file v p))
    | OIsDir ps => on_path ps (fun v p => lift VBool (vp_is_dir v p))
    | OReadDir ps => on_path ps (fun v p => lift VPaths (vp_read_dir v p))
    | OCreateDir ps => on_path ps (fun v p => lift (fun _ => VUnit) (vp_create_dir v p))
    | OCreateDirAll ps => on_path ps (fun v p => lift (fun _ => VUnit) (vp_create_dir_all v p))
    | ORemoveFile ps => on_path ps (fun v p => lift (fun _ => VUnit) (vp_remove_file v p))
    | ORemoveDir ps => on_path ps (fun v p => lift (fun _ => VUnit) (vp_remove_dir v p))
    | ORemoveDirAll ps => on_path ps (fun v p => lift (fun _ => VUnit) (vp_remove_dir_all v fuel p))
    | OSetCTime ps t => on_path ps (fun v p => lift (fun _ => VUnit) (vp_set_ctime v p t))
    | OSetMTime ps t => on_path ps (fun v p => lift (fun _ => VUnit) (vp_set_mtime v p t))
    | OSetATime ps t => on_path ps (fun v p => lift (fun _ => VUnit) (vp_set_atime v p t))
    | OReadToString ps => on_path ps (fun v p => lift VBytes (vp_read_to_string utf8_valid v p))
    | OCopyFile ps qs => on_paths ps qs (fun v p v' p' => lift (fun _ => VUnit) (vp_copy_file v p v' p'))
    | OMoveFile ps qs => on_paths ps qs (fun v p v' p' => lift (fun _ => VUnit) (vp_move_file v p v' p'))
    | OCopyDir ps qs => on_paths ps qs (fun v p v' p' => lift VN (vp_copy_dir fuel v p v' p'))
    | OMoveDir ps qs => on_paths ps qs (fun v p v' p' => lift (fun _ => VUnit) (vp_move_dir fuel v p v' p'))
    | OWalkDir ps =>
        on_path ps (fun v p =>
          let* r := vp_walk_dir v p in
          match r with
          | Ok w => lift VItems (walk_collect v fuel w [])
          | Err e => Ret (Err e)
          | Panic => Ret Panic
          end)
    | OWalkRm ps k qs =>
        on_paths ps qs (fun v p v' q =>
          let* r := vp_walk_dir v p in
          match r with
          | Ok w =>
              let* aw := walk_take v k w [] in
              let* _ := remove_any v' q in
              lift VItems (walk_collect v fuel (snd aw) (fst aw))
          | Err e => Ret (Err e)
          | Panic => Ret Panic
          end)
    | OProbe ps => on_path ps do_probe
    | OSnap k => match inst k with Some v => snapshot fuel v | None => Ret out_of_fuel end
    | OTree k => match inst k with Some v => stat_tree fuel v | None => Ret out_of_fuel end
    | _ => Ret out_of_fuel
    end.

  Definition run_handle_op {o : hop} (rs : rstate) (r : nat) (f : hval o -> value) : rstate * outcome :=
    match handle_of rs r with
    | None => (rs, out_of_fuel)
    | Some h =>
        let '(st, x) := handle_op h o (rs_store rs) in
        (mkRS st (rs_regs rs), res_map f x)
    end.

  Definition open_op (idx : nat) (rs : rstate) (ps : pathspec)
      (f : vfs -> path -> bprog (res hid)) : rstate * outcome :=
    match locate ps with
    | Ok (v, s) =>
        let '(st, r) := run bhandler (f v (prs s)) (rs_store rs) in
        match r with
        | Ok h => (mkRS st ((idx, h) :: rs_regs rs), Ok VUnit)
        | Err e => (mkRS st (rs_regs rs), Err e)
        | Panic => (mkRS st (rs_regs rs), Panic)
        end
    | Err e => (rs, Err e)
    | Panic => (rs, Panic)
    end.

  Definition run_op (idx : nat) (o : op) (rs : rstate) : rstate * outcome :=
    match o with
    | OCreateFile ps => open_op idx rs ps vp_create_file
    | OAppendFile ps => open_op idx rs ps vp_append_file
    | OOpenFile ps => open_op idx rs ps vp_open_file
    | OHRead r n => run_handle_op (o := HRead n) rs r VBytes
    | OHSeek r sf => run_handle_op (o := HSeek sf) rs r VZ
    | OHWrite r bs => run_handle_op (o := HWrite bs) rs r VN
    | OHFlush r => run_handle_op (o := HFlush) rs r (fun _ => VUnit)
    | OHDrop r => run_handle_op (o := HDrop) rs r (fun _ => VUnit)
    | OHReadToEnd r => run_handle_op (o := HReadToEnd) rs r VBytes
    | OSetFault id k =>
        let st := rs_store rs in
        (mkRS (mkStore (st_bases st) (st_handles st) (st_log st) (Some (id, k)) (st_io st)) (rs_regs rs), Ok VUnit)
    | OSetIo m =>
        let st := rs_store rs in
        (mkRS (mkStore (st_bases st) (st_handles st) (st_log st) (st_fault st) m) (rs_regs rs), Ok VUnit)
    | ONop => (rs, Ok VUnit)
    | OClearLog =>
        let st := rs_store rs in
        (mkRS (mkStore (st_bases st) (st_handles st) [] None IoOff) (rs_regs rs), Ok VUnit)
    | _ =>
        let '(st, r) := run bhandler (op_prog o) (rs_store rs) in
        (mkRS st (rs_regs rs), r)
    end.

  (** run a case; per op: the outcome and the calls logged by the wrappers *)
  Fixpoint run_ops (idx : nat) (ops : list op) (rs : rstate) : list (outcome * list (nat * fscall)) :=
    match ops with
    | [] => []
    | o :: ops' =>
        let st0 := rs_store rs in
        let rs0 := mkRS (mkStore (st_bases st0) (st_handles st0) [] (st_fault st0) (st_io st0)) (rs_regs rs) in
        let '(rs', r) := run_op idx o rs0 in
        (r, reverse (st_log (rs_store rs'))) :: run_ops (S idx) ops' rs'
    end.

  (** ** the same case through the async port: every future is driven by the executor under an
      oracle (which calls answer Pending first), walk_dir through the stream state machine *)
  Variable orc : nat -> list bool.

  Definition exec_async {R} (o : list bool) (m : bprog R) (s : store) : store * R :=
    match drive bhandler (S (length o)) m o s with
    | Some x => x
    | None => run bhandler m s          (* unreachable: Proofs/AsyncProofs.v drive_is_run *)
    end.

  (** [k] times [stream.next().await]: (store, items newest first, rest of the oracle, stream state) *)
  Fixpoint atake (v : vfs) (k : nat) (w : awalker) (o : list bool) (s : store) (acc : list (res path))
      : store * list (res path) * list bool * awalker :=
    match k with
    | O => (s, acc, o, w)
    | S k' =>
        match anext bhandler v (S (length o)) w o s with
        | Some (s1, o1, Some it, w1) => atake v k' w1 o1 s1 (it :: acc)
        | Some (s1, o1, None, w1) => (s1, acc, o1, w1)
        | None => (s, acc, o, w)
        end
    end.

  Definition open_op_async (idx : nat) (rs : rstate) (ps : pathspec)
      (f : vfs -> path -> bprog (res hid)) : rstate * outcome :=
    match locate ps with
    | Ok (v, s) =>
        let '(st, r) := exec_async (orc idx) (f v (prs s)) (rs_store rs) in
        match r with
        | Ok h => (mkRS st ((idx, h) :: rs_regs rs), Ok VUnit)
        | Err e => (mkRS st (rs_regs rs), Err e)
        | Panic => (mkRS st (rs_regs rs), Panic)
        end
    | Err e => (rs, Err e)
    | Panic => (rs, Panic)
    end.

  Definition run_op_async (idx : nat) (o : op) (rs : rstate) : rstate * outcome :=
    match o with
    | OCreateFile ps => open_op_async idx rs ps vp_create_file
    | OAppendFile ps => open_op_async idx rs ps vp_append_file
    | OOpenFile ps => open_op_async idx rs ps vp_open_file
    | OWalkDir ps =>
        match locate ps with
        | Ok (v, s) =>
            let '(st, r) := exec_async (orc idx) (vp_walk_dir v (prs s)) (rs_store rs) in
            match r with
            | Ok w =>
                let '(st2, items) := acollect bhandler v fuel (aw_start (w_inner w)) (orc (S idx)) st [] in
                (mkRS st2 (rs_regs rs), res_map VItems items)
            | Err e => (mkRS st (rs_regs rs), Err e)
            | Panic => (mkRS st (rs_regs rs), Panic)
            end
        | Err e => (rs, Err e)
        | Panic => (rs, Panic)
        end
    | OWalkRm ps k qs =>
        match locate ps, locate qs with
        | Ok (v, s), Ok (v', s') =>
            let '(st, r) := exec_async (orc idx) (vp_walk_dir v (prs s)) (rs_store rs) in
            match r with
            | Ok w =>
                let t := atake v k (aw_start (w_inner w)) (orc (S idx)) st [] in
                let '(st2, _) := exec_async (snd (fst t)) (remove_any v' (prs s')) (fst (fst (fst t))) in
                let '(st3, items) := acollect bhandler v fuel (snd t) (snd (fst t)) st2 (snd (fst (fst t))) in
                (mkRS st3 (rs_regs rs), res_map VItems items)
            | Err e => (mkRS st (rs_regs rs), Err e)
            | Panic => (mkRS st (rs_regs rs), Panic)
            end
        | Err e, _ => (rs, Err e)
        | _, Err e => (rs, Err e)
        | _, _ => (rs, Panic)
        end
    | OHRead _ _ | OHSeek _ _ | OHWrite _ _ | OHFlush _ | OHDrop _ | OHReadToEnd _
    | OSetFault _ _ | OSetIo _ | ONop | OClearLog => run_op idx o rs
    | _ =>
        let '(st, r) := exec_async (orc idx) (op_prog o) (rs_store rs) in
        (mkRS st (rs_regs rs), r)
    end.

  Fixpoint run_ops_async (idx : nat) (ops : list op) (rs : rstate) : list (outcome * list (nat * fscall)) :=
    match ops with
    | [] => []
    | o :: ops' =>
        let st0 := rs_store rs in
        let rs0 := mkRS (mkStore (st_bases st0) (st_handles st0) [] (st_fault st0) (st_io st0)) (rs_regs rs) in
        let '(rs', r) := run_op_async idx o rs0 in
        (r, reverse (st_log (rs_store rs'))) :: run_ops_async (S idx) ops' rs'
    end.
End Run.

Inductive basekind := KMem | KPhys | KEmb (files : list (path * bytes)) | KPhysDir (files : list (path * bytes)).
Definition init_base (k : basekind) : bstate :=
  match k with
  | KMem => BMem mem_new
  | KPhys => BPhys phys_new
  | KEmb files => BEmb (emb_new files)
  | KPhysDir files => BPhys (phys_of_files files)
  end.
Definition init_store (ks : list basekind) : store := mkStore (map init_base ks) [] [] None IoOff.

Record case := mkCase { c_bases : list basekind; c_cfg : list fsref; c_ops : list op }.

Definition run_case (fuel : nat) (c : case) : list (outcome * list (nat * fscall)) :=
  run_ops (c_cfg c) fuel 0 (c_ops c) (mkRS (init_store (c_bases c)) []).

Definition run_case_async (fuel : nat) (orc : nat -> list bool) (c : case) : list (outcome * list (nat * fscall)) :=
  run_ops_async (c_cfg c) fuel orc 0 (c_ops c) (mkRS (init_store (c_bases c)) []).
