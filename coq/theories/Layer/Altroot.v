(** * AltrootFS: transcription of src/impls/altroot.rs.
    [AltrootFS::path(q)] is [root.join(q[1..])]; on canonical paths that is
    the concatenation of the component lists (bridge lemma [join_relative] in
    Path/StrProofs.v). *)
From stdpp Require Import list.
From Coq Require Import NArith ZArith.
From VFS Require Import Core.Types Core.Prog Core.Calls Layer.VfsPath.

Section Altroot.
  Variable utf8_valid : bytes -> bool.
  Variable u : vfs.          (* the instance the root path belongs to *)
  Variable root : path.

  Definition alt_path (p : path) : path := root ++ p.

  Definition alt_impl : fsimpl := fun c =>
    match c as c return bprog (frep c) with
    | CReadDir p =>
        try* children := vp_read_dir u (alt_path p) in
        (* .map(|path| path.filename()) *)
        Ret (Ok (omap (fun q => last q) children))
    | CCreateDir p => vp_create_dir u (alt_path p)
    | COpenFile p => vp_open_file u (alt_path p)
    | CCreateFile p => vp_create_file u (alt_path p)
    | CAppendFile p => vp_append_file u (alt_path p)
    | CMetadata p => vp_metadata u (alt_path p)
    | CSetCTime p t => vp_set_ctime u (alt_path p) t
    | CSetMTime p t => vp_set_mtime u (alt_path p) t
    | CSetATime p t => vp_set_atime u (alt_path p) t
    | CExists p => vp_exists u (alt_path p)
    | CRemoveFile p => vp_remove_file u (alt_path p)
    | CRemoveDir p => vp_remove_dir u (alt_path p)
    | CCopyFile s d =>
        match d with
        | [] => Ret (fail ENotSupported)
        | _ => vp_copy_file u (alt_path s) u (alt_path d)
        end
    | CMoveFile _ _ => Ret (fail ENotSupported)
    | CMoveDir _ _ => Ret (fail ENotSupported)
    end.
End Altroot.
