(** * VfsPath: transcription of the filesystem-facing methods of src/path.rs as
    programs over the trait calls of the path's own filesystem.

    A [VfsPath] is a pair (instance, canonical path); string-level operations
    (join, parent, filename, extension) live in [Path/Str.v] and are related to
    component lists by [Path/StrProofs.v].  Recursion that is driven by what is
    read back from the filesystem takes explicit fuel and reports exhaustion as
    the distinguished error kind [EFuel], which no theorem treats as a normal
    outcome. *)
From stdpp Require Import gmap list.
From Coq Require Import NArith ZArith.
From VFS Require Import Core.Types Core.Prog Core.Calls.

Definition out_of_fuel {T} : res T := Err (mkErr EFuel PUnfilled).

(** [?] : propagate errors and panics *)
Definition bind_res {C} {rep : C -> Type} {T U}
    (m : prog rep (res T)) (f : T -> prog rep (res U)) : prog rep (res U) :=
  bind m (fun r => match r with
                   | Ok v => f v
                   | Err e => Ret (Err e)
                   | Panic => Ret Panic
                   end).
Notation "'try*' x ':=' m 'in' f" := (bind_res m (fun x => f))
  (at level 200, x pattern, m at level 100, f at level 200, right associativity).

(** [.map_err(|err| err.with_path(path))] *)
Definition labelled {T} (m : bprog (res T)) (p : path) : bprog (res T) :=
  bind m (fun r => Ret (map_err r (fun e => with_path e (PPath p)))).

Definition ret_err {T} (k : ekind) (p : path) : bprog (res T) :=
  Ret (Err (mkErr k (PPath p))).

Section VfsPath.
  Variable v : vfs.
  Notation fs := (v_impl v).

  (** path.rs: exists() does not relabel *)
  Definition vp_exists (p : path) : bprog (res bool) := fs (CExists p).
  Definition vp_metadata (p : path) : bprog (res meta) := labelled (fs (CMetadata p)) p.
  Definition vp_open_file (p : path) : bprog (res hid) := labelled (fs (COpenFile p)) p.
  Definition vp_append_file (p : path) : bprog (res hid) := labelled (fs (CAppendFile p)) p.
  Definition vp_remove_file (p : path) : bprog (res unit) := labelled (fs (CRemoveFile p)) p.
  Definition vp_remove_dir (p : path) : bprog (res unit) := labelled (fs (CRemoveDir p)) p.
  Definition vp_set_ctime (p : path) (t : Z) : bprog (res unit) := labelled (fs (CSetCTime p t)) p.
  Definition vp_set_mtime (p : path) (t : Z) : bprog (res unit) := labelled (fs (CSetMTime p t)) p.
  Definition vp_set_atime (p : path) (t : Z) : bprog (res unit) := labelled (fs (CSetATime p t)) p.

  (** read_dir: children as paths [format!("{}/{}", parent, name)] *)
  Definition vp_read_dir (p : path) : bprog (res (list path)) :=
    try* names := labelled (fs (CReadDir p)) p in
    Ret (Ok (map (fun n => p ++ [n]) names)).

  (** get_parent(action): the parent must exist and be a directory *)
  Definition vp_get_parent (p : path) : bprog (res unit) :=
    let parent := removelast p in
    try* ex := vp_exists parent in
    if negb ex then ret_err EOther p
    else
      try* md := vp_metadata parent in
      match m_type md with
      | Dir => Ret (Ok tt)
      | File => ret_err EOther p
      end.

  Definition vp_create_dir (p : path) : bprog (res unit) :=
    try* _ := vp_get_parent p in
    labelled (fs (CCreateDir p)) p.

  Definition vp_create_file (p : path) : bprog (res hid) :=
    try* _ := vp_get_parent p in
    labelled (fs (CCreateFile p)) p.

  (** create_dir_all: the loop over the prefixes "/a", "/a/b", ... of the path *)
  Definition prefixes (p : path) : list path :=
    map (fun n => take n p) (seq 1 (length p)).
  Fixpoint create_dirs (ds : list path) : bprog (res unit) :=
    match ds with
    | [] => Ret (Ok tt)
    | d :: ds' =>
        let* r := fs (CCreateDir d) in
        match r with
        | Ok _ => create_dirs ds'
        | Err e =>
            match e_kind e with
            | EDirExists => create_dirs ds'
            | _ => Ret (Err (with_path e (PPath d)))
            end
        | Panic => Ret Panic
        end
    end.
  Definition vp_create_dir_all (p : path) : bprog (res unit) := create_dirs (prefixes p).

  Definition vp_is_file (p : path) : bprog (res bool) :=
    try* ex := vp_exists p in
    if negb ex then Ret (Ok false)
    else try* md := vp_metadata p in
         Ret (Ok (bool_decide (m_type md = File))).

  Definition vp_is_dir (p : path) : bprog (res bool) :=
    try* ex := vp_exists p in
    if negb ex then Ret (Ok false)
    else try* md := vp_metadata p in
         Ret (Ok (bool_decide (m_type md = Dir))).

  (** remove_dir_all *)
  Fixpoint vp_remove_dir_all (fuel : nat) (p : path) : bprog (res unit) :=
    match fuel with
    | O => Ret out_of_fuel
    | S fuel' =>
        try* ex := vp_exists p in
        if negb ex then Ret (Ok tt)
        else
          try* children := vp_read_dir p in
          try* _ :=
            (fix loop (cs : list path) : bprog (res unit) :=
               match cs with
               | [] => Ret (Ok tt)
               | child :: cs' =>
                   try* md := vp_metadata child in
                   try* _ := match m_type md with
                             | File => vp_remove_file child
                             | Dir => vp_remove_dir_all fuel' child
                             end in
                   loop cs'
               end) children in
          vp_remove_dir p
    end.

  (** ** walk_dir: the WalkDirIterator state machine.
      [w_inner] is the rest of the current listing, [w_todo] the stack of
      directories still to be listed (head = top = last pushed). *)
  Record walker := mkWalker { w_inner : list path; w_todo : list path }.

  Definition vp_walk_dir (p : path) : bprog (res walker) :=
    try* children := vp_read_dir p in
    Ret (Ok (mkWalker children [])).

  (** the [loop] of next(): find the next item or the end *)
  Fixpoint walk_find (todo : list path) (inner : list path)
    : bprog (option (res path) * walker) :=
    match inner with
    | x :: inner' => Ret (Some (Ok x), mkWalker inner' todo)
    | [] =>
        match todo with
        | [] => Ret (None, mkWalker [] [])
        | d :: todo' =>
            let* r := vp_read_dir d in
            match r with
            | Ok children => walk_find todo' children
            | Err e => Ret (Some (Err e), mkWalker [] todo')
            | Panic => Ret (Some Panic, mkWalker [] todo')
            end
        end
    end.

  Definition walk_next (w : walker) : bprog (option (res path) * walker) :=
    let* iw := walk_find (w_todo w) (w_inner w) in
    let item := fst iw in let w' := snd iw in
    match item with
    | Some (Ok x) =>
        let* r := vp_metadata x in
        match r with
        | Ok md =>
            match m_type md with
            | Dir => Ret (Some (Ok x), mkWalker (w_inner w') (x :: w_todo w'))
            | File => Ret (Some (Ok x), w')
            end
        | Err e => Ret (Some (Err e), w')
        | Panic => Ret (Some Panic, w')
        end
    | other => Ret (other, w')
    end.

  (** drain the iterator (what [for x in p.walk_dir()?] / [collect()] sees) *)
  Fixpoint walk_collect (fuel : nat) (w : walker) (acc : list (res path))
    : bprog (res (list (res path))) :=
    match fuel with
    | O => Ret out_of_fuel
    | S fuel' =>
        let* iw := walk_next w in
    let item := fst iw in let w' := snd iw in
        match item with
        | None => Ret (Ok (reverse acc))
        | Some it => walk_collect fuel' w' (it :: acc)
        end
    end.
End VfsPath.

(** ** Transfers between two paths (possibly of two instances) *)
Section Transfer.
  Variable utf8_valid : bytes -> bool.

  (** read_to_string *)
  Definition vp_read_to_string (v : vfs) (p : path) : bprog (res bytes) :=
    try* md := vp_metadata v p in
    match m_type md with
    | Dir => ret_err EOther p
    | File =>
        try* h := vp_open_file v p in
        let* r := Call (BH h HReadToEnd) Ret in
        let* _ := Call (BH h HDrop) Ret in
        match r with
        | Ok bs => if utf8_valid bs then Ret (Ok bs) else ret_err EIo p
        | Err e => ret_err EIo p
        | Panic => Ret Panic
        end
    end.

  (** the tail shared by copy_file and move_file: open, create, io::copy,
      [after] (remove_file for a move), then the handles are dropped in reverse
      order of declaration. *)
  Definition stream_copy (v : vfs) (p : path) (v' : vfs) (p' : path)
      (after : bprog (res unit)) : bprog (res unit) :=
    try* src := vp_open_file v p in
    let* rd := vp_create_file v' p' in
    match rd with
    | Ok dst =>
        let* rc := Call (BH src (HCopyTo dst)) Ret in
        let* ra := match rc with
                   | Ok _ => after
                   | Err e => Ret (Err (mkErr EIo (PPath p)))
                   | Panic => Ret Panic
                   end in
        let* _ := Call (BH dst HDrop) Ret in
        let* _ := Call (BH src HDrop) Ret in
        Ret ra
    | Err e => let* _ := Call (BH src HDrop) Ret in Ret (Err e)
    | Panic => Ret Panic
    end.

  (** the same-instance fast path: Ok/Err are final, NotSupported falls through *)
  Definition fast_path (v v' : vfs) (c : fscall) (slow : bprog (res unit))
      (ev : frep c -> res unit) : bprog (res unit) :=
    if Nat.eqb (v_id v) (v_id v') then
      let* r := v_impl v c in
      match ev r with
      | Ok _ => Ret (Ok tt)
      | Err e => match e_kind e with
                 | ENotSupported => slow
                 | _ => Ret (Err e)
                 end
      | Panic => Ret Panic
      end
    else slow.

  Definition relabel {T} (m : bprog (res T)) (p : path) : bprog (res T) := labelled m p.

  Definition vp_copy_file (v : vfs) (p : path) (v' : vfs) (p' : path) : bprog (res unit) :=
    relabel
      (try* ex := vp_exists v' p' in
       if ex then ret_err EOther p
       else fast_path v v' (CCopyFile p p')
              (stream_copy v p v' p' (Ret (Ok tt))) (fun r => r)) p.

  Definition vp_move_file (v : vfs) (p : path) (v' : vfs) (p' : path) : bprog (res unit) :=
    relabel
      (try* ex := vp_exists v' p' in
       if ex then ret_err EOther p'
       else fast_path v v' (CMoveFile p p')
              (stream_copy v p v' p' (vp_remove_file v p)) (fun r => r)) p.

  (** the walk loop shared by copy_dir and move_dir; returns the number of
      entries copied *)
  Fixpoint copy_entries (fuel : nat) (v : vfs) (p : path) (v' : vfs) (p' : path)
      (w : walker) (n : N) : bprog (res N) :=
    match fuel with
    | O => Ret out_of_fuel
    | S fuel' =>
        let* iw := walk_next v w in
    let item := fst iw in let w' := snd iw in
        match item with
        | None => Ret (Ok n)
        | Some (Ok src_path) =>
            let dest_path := p' ++ drop (length p) src_path in
            try* md := vp_metadata v src_path in
            try* _ := match m_type md with
                      | Dir => vp_create_dir v' dest_path
                      | File => vp_copy_file v src_path v' dest_path
                      end in
            copy_entries fuel' v p v' p' w' (n + 1)%N
        | Some (Err e) => Ret (Err e)
        | Some Panic => Ret Panic
        end
    end.

  Definition vp_copy_dir (fuel : nat) (v : vfs) (p : path) (v' : vfs) (p' : path) : bprog (res N) :=
    relabel
      (try* ex := vp_exists v' p' in
       if ex then ret_err EOther p'
       else
         try* _ := vp_create_dir v' p' in
         try* w := vp_walk_dir v p in
         copy_entries fuel v p v' p' w 0%N) p.

  Definition vp_move_dir (fuel : nat) (v : vfs) (p : path) (v' : vfs) (p' : path) : bprog (res unit) :=
    relabel
      (try* ex := vp_exists v' p' in
       if ex then ret_err EOther p'
       else fast_path v v' (CMoveDir p p')
              (try* _ := vp_create_dir v' p' in
               try* w := vp_walk_dir v p in
               try* _ := copy_entries fuel v p v' p' w 0%N in
               vp_remove_dir_all v fuel p) (fun r => r)) p.
End Transfer.
