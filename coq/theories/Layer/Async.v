(** * The async port (src/async_vfs): what differs from the sync world.

    The async filesystems and [AsyncVfsPath] are a line-by-line port: every [async fn] is the same
    sequence of calls into the layer below, with an [.await] at each call.  A future is therefore
    modelled as the program that remains to be run, and a poll runs it up to the first call whose
    answer is not ready yet; which calls are not ready is decided by an oracle the model knows
    nothing about (one bit per attempted call, [true] = [Poll::Pending]).

    Three pieces of the port are hand-written state machines instead of [async fn]s and are
    transcribed separately:
    - [WalkDirIterator::poll_next] (async_vfs/path.rs) with its stored futures and its parked item,
    - [AsyncReadableFile::poll_read] / [poll_seek] (async_vfs/impls/memory.rs),
    - [AsyncWritableFile] publishing in [Drop] (modelled by the writer of the sync model; the
      one difference, flush, is a recorded finding). *)
From stdpp Require Import gmap list.
From Coq Require Import NArith ZArith.
From VFS Require Import Core.Types Core.Prog Core.Calls Base.Handles Layer.VfsPath.

Section Poll.
  Context {C : Type} {rep : C -> Type} {S : Type}.
  Variable h : handler rep S.

  Inductive polled (R : Type) : Type :=
  | PPending (rest : prog rep R)
  | PReady (r : R).
  Arguments PPending {R} rest.
  Arguments PReady {R} r.

  (** one poll of a future: run until the oracle says a call is not ready; an exhausted oracle
      means every further call is ready *)
  Fixpoint poll {R} (m : prog rep R) (o : list bool) (s : S) : S * polled R * list bool :=
    match m with
    | Ret r => (s, PReady r, o)
    | Call c k =>
        match o with
        | true :: o' => (s, PPending (Call c k), o')
        | _ => let sx := h c s in poll (k (snd sx)) (tl o) (fst sx)
        end
    end.

  (** the executor: poll again until ready *)
  Fixpoint drive {R} (fuel : nat) (m : prog rep R) (o : list bool) (s : S) : option (S * R) :=
    match fuel with
    | O => None
    | Datatypes.S fuel' =>
        match poll m o s with
        | (s', PReady r, _) => Some (s', r)
        | (s', PPending rest, o') => drive fuel' rest o' s'
        end
    end.
End Poll.
Arguments PPending {C rep R} rest.
Arguments PReady {C rep R} r.

(** ** WalkDirIterator (async_vfs/path.rs) *)
Section AsyncWalk.
  Context {S : Type}.
  Variable h : handler brep S.
  Variable v : vfs.

  Record awalker := mkAW {
    aw_inner : list path;                             (* the rest of the current listing stream *)
    aw_todo : list path;                              (* head = top of the stack *)
    aw_prev : option path;                            (* prev_result *)
    aw_rdfut : option (bprog (res (list path)));      (* read_dir_fut *)
    aw_mdfut : option (bprog (res meta));             (* metadata_fut *)
  }.

  Definition aw_start (children : list path) : awalker := mkAW children [] None None None.

  Inductive found := FPending | FItem (r : res path) | FEnd.

  (** the [loop] of poll_next; each poll of the listing stream consumes one oracle bit.  Returns the
      fields (inner, todo, read_dir_fut) as the loop leaves them. *)
  Fixpoint afind (todo inner : list path) (rdfut : option (bprog (res (list path))))
      (o : list bool) (s : S) : S * list bool * found * (list path * list path * option (bprog (res (list path)))) :=
    match o with
    | true :: o' => (s, o', FPending, (inner, todo, rdfut))
    | _ =>
        let o1 := tl o in
        match inner with
        | x :: inner' => (s, o1, FItem (Ok x), (inner', todo, rdfut))
        | [] =>
            match todo with
            | [] => (s, o1, FEnd, ([], [], rdfut))
            | d :: todo' =>
                let fut := match rdfut with Some f => f | None => vp_read_dir v d end in
                match poll h fut o1 s with
                | (s1, PPending rest, o2) => (s1, o2, FPending, ([], todo, Some rest))
                | (s1, PReady (Ok children), o2) => afind todo' children None o2 s1
                | (s1, PReady (Err e), o2) => (s1, o2, FItem (Err e), ([], todo', None))
                | (s1, PReady Panic, o2) => (s1, o2, FItem Panic, ([], todo', None))
                end
            end
        end
    end.

  Inductive apoll (R : Type) : Type := APending | AReady (r : R).
  Arguments APending {R}.
  Arguments AReady {R} r.

  (** the second half of poll_next: the metadata of the item decides whether it is pushed *)
  Definition astage2 (x : path) (inner todo : list path) (rdfut : option (bprog (res (list path))))
      (mdfut : option (bprog (res meta))) (o : list bool) (s : S)
      : S * list bool * apoll (option (res path)) * awalker :=
    let fut := match mdfut with Some f => f | None => vp_metadata v x end in
    match poll h fut o s with
    | (s1, PPending rest, o1) => (s1, o1, APending, mkAW inner todo (Some x) rdfut (Some rest))
    | (s1, PReady (Ok md), o1) =>
        (s1, o1, AReady (Some (Ok x)),
         mkAW inner (match m_type md with Dir => x :: todo | File => todo end) None rdfut None)
    | (s1, PReady (Err e), o1) => (s1, o1, AReady (Some (Err e)), mkAW inner todo None rdfut None)
    | (s1, PReady Panic, o1) => (s1, o1, AReady (Some Panic), mkAW inner todo None rdfut None)
    end.

  Definition apoll_next (w : awalker) (o : list bool) (s : S)
      : S * list bool * apoll (option (res path)) * awalker :=
    match aw_prev w with
    | Some x => astage2 x (aw_inner w) (aw_todo w) (aw_rdfut w) (aw_mdfut w) o s
    | None =>
        let r := afind (aw_todo w) (aw_inner w) (aw_rdfut w) o s in
        let s1 := fst (fst (fst r)) in
        let o1 := snd (fst (fst r)) in
        let inner := fst (fst (snd r)) in
        let todo := snd (fst (snd r)) in
        let rdfut := snd (snd r) in
        match snd (fst r) with
        | FPending => (s1, o1, APending, mkAW inner todo None rdfut (aw_mdfut w))
        | FEnd => (s1, o1, AReady None, mkAW inner todo None rdfut (aw_mdfut w))
        | FItem (Ok x) => astage2 x inner todo rdfut (aw_mdfut w) o1 s1
        | FItem other => (s1, o1, AReady (Some other), mkAW inner todo None rdfut (aw_mdfut w))
        end
    end.

  (** [stream.next().await]: poll until an item (or the end) arrives *)
  Fixpoint anext (fuel : nat) (w : awalker) (o : list bool) (s : S)
      : option (S * list bool * option (res path) * awalker) :=
    match fuel with
    | O => None
    | Datatypes.S fuel' =>
        match apoll_next w o s with
        | (s1, o1, AReady it, w1) => Some (s1, o1, it, w1)
        | (s1, o1, APending, w1) => anext fuel' w1 o1 s1
        end
    end.

  (** [stream.collect().await] *)
  Fixpoint acollect (fuel : nat) (w : awalker) (o : list bool) (s : S) (acc : list (res path))
      : S * res (list (res path)) :=
    match fuel with
    | O => (s, out_of_fuel)
    | Datatypes.S fuel' =>
        match anext (Datatypes.S (length o)) w o s with
        | None => (s, out_of_fuel)
        | Some (s1, o1, None, w1) => (s1, Ok (reverse acc))
        | Some (s1, o1, Some it, w1) => acollect fuel' w1 o1 s1 (it :: acc)
        end
    end.
End AsyncWalk.
Arguments APending {R}.
Arguments AReady {R} r.

(** ** AsyncReadableFile (async_vfs/impls/memory.rs) in the words of its source *)
Definition checked_add_u64 (a b : Z) : option Z := let r := (a + b)%Z in if (r <=? u64_max)%Z then Some r else None.
Definition checked_sub_u64 (a b : Z) : option Z := let r := (a - b)%Z in if (0 <=? r)%Z then Some r else None.

Definition amem_reader_read (content : bytes) (pos : Z) (n : N) : res bytes * Z :=
  let bytes_left := Z.max 0 (Z.of_nat (length content) - pos) in          (* saturating_sub *)
  let bytes_read := Z.min (Z.of_N n) bytes_left in
  if (bytes_read =? 0)%Z then (Ok [], pos)
  else
    let a := Z.to_nat pos in
    let b := Z.to_nat (pos + bytes_read) in
    if (b <=? length content)%nat
    then (Ok (take (b - a) (drop a content)), (pos + bytes_read)%Z)
    else (Panic, pos).

Definition amem_reader_seek (content : bytes) (pos : Z) (sf : seekfrom) : res Z * Z :=
  let rel (base offset : Z) :=
    match (if (0 <=? offset)%Z then checked_add_u64 base offset else checked_sub_u64 base (- offset)) with
    | Some n => (Ok n, n)
    | None => (fail EIo, pos)
    end in
  match sf with
  | SeekStart o => (Ok o, o)
  | SeekEnd o => rel (Z.of_nat (length content)) o
  | SeekCurrent o => rel pos o
  end.
