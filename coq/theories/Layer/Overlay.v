(** * OverlayFS: transcription of src/impls/overlay.rs (whiteout based).
    Layer 0 is the only layer written to; a removal is remembered by an empty
    file [/.whiteout/<dir>/<name>_wo] in layer 0. *)
From stdpp Require Import list.
From Coq Require Import NArith ZArith.
From VFS Require Import Core.Types Core.Prog Core.Calls Base.MemFS Layer.VfsPath.

(** ".whiteout" and "_wo" as byte strings *)
Definition whiteout_name : name := [46; 119; 104; 105; 116; 101; 111; 117; 116]%N.
Definition wo_suffix : name := [95; 119; 111]%N.

Definition ends_with_wo (n : name) : bool :=
  bool_decide (drop (length n - 3) n = wo_suffix /\ 3 <= length n).
Definition strip_wo (n : name) : name := take (length n - 3) n.

Definition remove_name (n : name) (l : list name) : list name :=
  filter (fun m => m <> n) l.
Definition add_name (n : name) (l : list name) : list name :=
  if bool_decide (n ∈ l) then l else l ++ [n].

Section Overlay.
  Variable utf8_valid : bytes -> bool.
  Variable top : vfs * path.               (* layers[0] *)
  Variable lower : list (vfs * path).      (* layers[1..] *)
  Definition layers : list (vfs * path) := top :: lower.

  Notation w := (fst top).
  Notation wroot := (snd top).

  Definition write_path (p : path) : path := wroot ++ p.

  (** [.whiteout/<parent>/<name>_wo]; for the root [.whiteout/_wo] *)
  Definition whiteout_path (p : path) : path :=
    match reverse p with
    | [] => wroot ++ [whiteout_name; wo_suffix]
    | n :: rparent => wroot ++ [whiteout_name] ++ reverse rparent ++ [n ++ wo_suffix]
    end.

  (** read_path: the layer path serving [p] *)
  Fixpoint first_layer (ls : list (vfs * path)) (p : path) : bprog (res (option (vfs * path))) :=
    match ls with
    | [] => Ret (Ok None)
    | l :: ls' =>
        let lp := snd l ++ p in
        try* ex := vp_exists (fst l) lp in
        if ex then Ret (Ok (Some (fst l, lp))) else first_layer ls' p
    end.

  Definition read_path (p : path) : bprog (res (vfs * path)) :=
    match p with
    | [] => Ret (Ok top)
    | _ =>
        (* an entry of the write layer is newer than any deletion marker of its path *)
        try* up := vp_exists w (write_path p) in
        if up then Ret (Ok (w, write_path p))
        else
          try* wo := vp_exists w (whiteout_path p) in
          if wo then Ret (fail ENotFound)
          else
            try* found := first_layer lower p in
            match found with
            | Some lp => Ret (Ok lp)
            | None => Ret (fail ENotFound)
            end
    end.

  Definition ovl_exists (p : path) : bprog (res bool) :=
    let* r := read_path p in
    match r with
    | Ok lp => vp_exists (fst lp) (snd lp)
    | Err e => match e_kind e with
               | ENotFound => Ret (Ok false)
               | _ => Ret (Err e)
               end
    | Panic => Ret Panic
    end.

  Definition ovl_metadata (p : path) : bprog (res meta) :=
    try* lp := read_path p in vp_metadata (fst lp) (snd lp).

  (** names of the entries of every layer in which the path is a directory *)
  Fixpoint gather (ls : list (vfs * path)) (p : path) (acc : list name) : bprog (res (list name)) :=
    match ls with
    | [] => Ret (Ok acc)
    | l :: ls' =>
        let lp := snd l ++ p in
        try* isd := vp_is_dir (fst l) lp in
        if isd then
          try* children := vp_read_dir (fst l) lp in
          gather ls' p (foldl (fun a q => match last q with Some n => add_name n a | None => a end) acc children)
        else gather ls' p acc
    end.

  Definition ovl_read_dir (p : path) : bprog (res (list name)) :=
    try* lp := read_path p in
    try* md := vp_metadata (fst lp) (snd lp) in
    match m_type md with
    | File => Ret (fail EOther)
    | Dir =>
        try* entries := gather layers p [] in
        let wdir := wroot ++ [whiteout_name] ++ p in
        try* wex := vp_exists w wdir in
        try* entries :=
          (if wex then
             try* markers := vp_read_dir w wdir in
             Ret (Ok (foldl (fun a q => match last q with
                                        | Some n => if ends_with_wo n then remove_name (strip_wo n) a else a
                                        | None => a
                                        end) entries markers))
           else Ret (Ok entries)) in
        let entries := match p with [] => remove_name whiteout_name entries | _ => entries end in
        Ret (Ok (sort_names entries))
    end.

  Definition ovl_ensure_has_parent (p : path) : bprog (res unit) :=
    match p with
    | [] => Ret (fail EOther)
    | _ =>
        let parent := removelast p in
        try* ex := ovl_exists parent in
        if ex then
          try* md := ovl_metadata parent in
          match m_type md with
          | File => Ret (fail EOther)
          | Dir => try* _ := vp_create_dir_all w (write_path parent) in Ret (Ok tt)
          end
        else Ret (fail EOther)
    end.

  (** [if whiteout_path.exists()? { whiteout_path.remove_file()? }] *)
  Definition clear_whiteout (p : path) : bprog (res unit) :=
    let wo := whiteout_path p in
    try* ex := vp_exists w wo in
    if ex then vp_remove_file w wo else Ret (Ok tt).

  (** [whiteout_path.parent().create_dir_all()?; whiteout_path.create_file()?;] *)
  Definition set_whiteout (p : path) : bprog (res unit) :=
    let wo := whiteout_path p in
    try* _ := vp_create_dir_all w (removelast wo) in
    try* h := vp_create_file w wo in
    let* _ := Call (BH h HDrop) Ret in
    Ret (Ok tt).

  Definition ovl_impl : fsimpl := fun c =>
    match c as c return bprog (frep c) with
    | CReadDir p => ovl_read_dir p
    | CCreateDir p =>
        try* _ := ovl_ensure_has_parent p in
        try* ex := ovl_exists p in
        if ex then
          try* md := ovl_metadata p in
          Ret (fail (match m_type md with File => EFileExists | Dir => EDirExists end))
        else
          try* _ := vp_create_dir w (write_path p) in
          clear_whiteout p
    | COpenFile p => try* lp := read_path p in vp_open_file (fst lp) (snd lp)
    | CCreateFile p =>
        try* _ := ovl_ensure_has_parent p in
        try* ex := ovl_exists p in
        try* isdir := (if ex then try* md := ovl_metadata p in Ret (Ok (bool_decide (m_type md = Dir)))
                       else Ret (Ok false)) in
        if isdir then Ret (fail EOther)
        else
          try* h := vp_create_file w (write_path p) in
          let* r := clear_whiteout p in
          match r with
          | Ok _ => Ret (Ok h)
          | Err e => let* _ := Call (BH h HDrop) Ret in Ret (Err e)
          | Panic => Ret Panic
          end
    | CAppendFile p =>
        let wp := write_path p in
        try* ex := vp_exists w wp in
        try* _ := (if ex then Ret (Ok tt)
                   else
                     try* _ := ovl_ensure_has_parent p in
                     try* lp := read_path p in
                     vp_copy_file (fst lp) (snd lp) w wp) in
        vp_append_file w wp
    | CMetadata p => ovl_metadata p
    | CSetCTime p t => vp_set_ctime w (write_path p) t
    | CSetMTime p t => vp_set_mtime w (write_path p) t
    | CSetATime p t => vp_set_atime w (write_path p) t
    | CExists p => ovl_exists p
    | CRemoveFile p =>
        try* _ := read_path p in
        let wp := write_path p in
        try* ex := vp_exists w wp in
        try* _ := (if ex then vp_remove_file w wp else Ret (Ok tt)) in
        set_whiteout p
    | CRemoveDir p =>
        try* _ := read_path p in
        try* entries := ovl_read_dir p in
        match entries with
        | _ :: _ => Ret (fail EOther)
        | [] =>
            let wp := write_path p in
            try* ex := vp_exists w wp in
            try* _ := (if ex then vp_remove_dir w wp else Ret (Ok tt)) in
            set_whiteout p
        end
    | CCopyFile _ _ => Ret (fail ENotSupported)
    | CMoveFile _ _ => Ret (fail ENotSupported)
    | CMoveDir _ _ => Ret (fail ENotSupported)
    end.
End Overlay.
