(** * Configurations: the stacking term and its interpretation. *)
From stdpp Require Import list.
From Coq Require Import NArith ZArith.
From VFS Require Import Core.Types Core.Prog Core.Calls Layer.VfsPath Layer.Altroot Layer.Overlay.

(** [k] is the identity of the instance (one [VfsPath::new], one [Arc<VFS>]);
    [FBase k i] is base filesystem [i] of the store (so two adapters may share
    one base filesystem). *)
Inductive fsref :=
| FBase (k : nat) (i : nat)
| FAlt (k : nat) (f : fsref) (root : path)
| FOvl (k : nat) (top : fsref * path) (lower : list (fsref * path))
| FWrap (k : nat) (f : fsref).    (* the harness's recording / fault-injecting wrapper *)

Definition fs_id (f : fsref) : nat :=
  match f with
  | FBase k _ | FAlt k _ _ | FOvl k _ _ | FWrap k _ => k
  end.

Definition wrap_impl (k : nat) (inner : fsimpl) : fsimpl := fun c =>
  let* inject := Call (BLog k c) Ret in
  if (inject : bool) then Ret (Err (mkErr EIo PUnfilled)) else inner c.

Fixpoint interp (f : fsref) : fsimpl :=
  match f with
  | FBase _ i => fun c => Call (BFs i c) Ret
  | FAlt _ g root => alt_impl (mkVfs (fs_id g) (interp g)) root
  | FOvl _ t lower =>
      ovl_impl (match t with (g, r) => (mkVfs (fs_id g) (interp g), r) end)
               (map (fun l => match l with (g, r) => (mkVfs (fs_id g) (interp g), r) end) lower)
  | FWrap k g => wrap_impl k (interp g)
  end.

Definition vfs_of (f : fsref) : vfs := mkVfs (fs_id f) (interp f).
