(** UTF-8 well-formedness as checked by [String::from_utf8] (RFC 3629:
    no overlong forms, no surrogates, nothing above U+10FFFF). *)
From Coq Require Import List NArith Bool.
Import ListNotations.
Local Open Scope N_scope.

Definition in_range (lo hi b : N) : bool := (lo <=? b) && (b <=? hi).
Definition cont (b : N) : bool := in_range 128 191 b.

Fixpoint utf8_go (fuel : nat) (s : list N) : bool :=
  match fuel with
  | O => false
  | S fuel' =>
      match s with
      | [] => true
      | b :: r =>
          if b <=? 127 then utf8_go fuel' r
          else if in_range 194 223 b then
                 match r with c1 :: r' => cont c1 && utf8_go fuel' r' | _ => false end
          else if b =? 224 then
                 match r with c1 :: c2 :: r' => in_range 160 191 c1 && cont c2 && utf8_go fuel' r' | _ => false end
          else if in_range 225 236 b || in_range 238 239 b then
                 match r with c1 :: c2 :: r' => cont c1 && cont c2 && utf8_go fuel' r' | _ => false end
          else if b =? 237 then
                 match r with c1 :: c2 :: r' => in_range 128 159 c1 && cont c2 && utf8_go fuel' r' | _ => false end
          else if b =? 240 then
                 match r with c1 :: c2 :: c3 :: r' => in_range 144 191 c1 && cont c2 && cont c3 && utf8_go fuel' r' | _ => false end
          else if in_range 241 243 b then
                 match r with c1 :: c2 :: c3 :: r' => cont c1 && cont c2 && cont c3 && utf8_go fuel' r' | _ => false end
          else if b =? 244 then
                 match r with c1 :: c2 :: c3 :: r' => in_range 128 143 c1 && cont c2 && cont c3 && utf8_go fuel' r' | _ => false end
          else false
      end
  end.
Definition utf8_valid (s : list N) : bool := utf8_go (S (length s)) s.
