(** * The abstract specification: one tree of directories and byte files, and the
    documented contract of each primitive call of the path API (C01).
    Short enough to read in minutes; it mentions no backend. *)
From stdpp Require Import gmap list.
From Coq Require Import NArith.
From VFS Require Import Core.Types.

Inductive node := NDir | NFile (b : list N).
Global Instance node_eq_dec : EqDecision node.
Proof. solve_decision. Defined.

Notation tree := (gmap (list (list N)) node).

Definition t_wf (t : tree) : Prop :=
  t !! [] = Some NDir /\ forall p n x, t !! (p ++ [n]) = Some x -> t !! p = Some NDir.

(** the children of a directory *)
Definition t_children (t : tree) (p : list (list N)) (n : list N) : Prop := is_Some (t !! (p ++ [n])).
Definition t_empty (t : tree) (p : list (list N)) : Prop := forall n, t !! (p ++ [n]) = None.

(** outcome classes the contracts speak about *)
Inductive oclass := KOk | KNotFound | KFileExists | KDirExists | KError.

Definition class_of {T} (r : res T) : oclass :=
  match r with
  | Ok _ => KOk
  | Err e => match e_kind e with
             | ENotFound => KNotFound
             | EFileExists => KFileExists
             | EDirExists => KDirExists
             | _ => KError
             end
  | Panic => KError
  end.

(** "parent is an existing directory" *)
Definition parent_dir (t : tree) (p : list (list N)) : Prop := p <> [] /\ t !! removelast p = Some NDir.
Global Instance parent_dir_dec t p : Decision (parent_dir t p).
Proof. unfold parent_dir. apply _. Defined.

(** create_dir: succeeds exactly when the parent is an existing directory and the target is
    absent; an occupied target is reported according to the occupant; a failed call changes nothing *)
Definition spec_create_dir (t : tree) (p : list (list N)) : tree * oclass :=
  if decide (parent_dir t p) then
    match t !! p with
    | None => (<[p := NDir]> t, KOk)
    | Some NDir => (t, KDirExists)
    | Some (NFile _) => (t, KFileExists)
    end
  else (t, KError).

(** create_file (the handle's later writes are specified by [spec_publish]): succeeds exactly when
    the parent is an existing directory and the target is not a directory; the file is then empty *)
Definition spec_create_file (t : tree) (p : list (list N)) : tree * oclass :=
  if decide (parent_dir t p) then
    match t !! p with
    | Some NDir => (t, KError)
    | _ => (<[p := NFile []]> t, KOk)
    end
  else (t, KError).

(** remove_file: exactly when the target is a file; a missing target is not-found *)
Definition spec_remove_file (t : tree) (p : list (list N)) : tree * oclass :=
  match t !! p with
  | Some (NFile _) => (delete p t, KOk)
  | Some NDir => (t, KError)
  | None => (t, KNotFound)
  end.

(** remove_dir: exactly when the target is an empty directory *)
Definition spec_remove_dir (t : tree) (p : list (list N)) (empty : bool) : tree * oclass :=
  match t !! p with
  | Some NDir => if empty then (delete p t, KOk) else (t, KError)
  | Some (NFile _) => (t, KError)
  | None => (t, KNotFound)
  end.

(** a completed write session (flush or drop of a handle for [p] holding [buf]) *)
Definition spec_publish (t : tree) (p : list (list N)) (buf : list N) : tree :=
  match t !! p with
  | Some (NFile _) => <[p := NFile buf]> t
  | _ => t
  end.

(** observers *)
Definition spec_exists (t : tree) (p : list (list N)) : bool := bool_decide (is_Some (t !! p)).
Definition spec_kind (t : tree) (p : list (list N)) : option ftype :=
  match t !! p with Some NDir => Some Dir | Some (NFile _) => Some File | None => None end.
Definition spec_len (t : tree) (p : list (list N)) : N :=
  match t !! p with Some (NFile b) => N.of_nat (length b) | _ => 0%N end.
