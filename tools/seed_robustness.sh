#!/bin/bash
# seed_robustness.sh <root of a /verif copy> <seed ids...> : for each seeded change run the check of its OWN property with
# two other seeds (VERIF_SEED=7, 99): a detection that depends on the default seed's luck shows up as "quiet" here.
# Appends "<id> <seed> DETECTED|quiet" to <root>/seeded/robustness.txt. Mutates /repo (apply / checkout), like the matrix.
root="$1"; shift
for id in "$@"; do
  git -C /repo status --short | grep -q . && { echo "/repo not clean"; exit 2; }
  git -C /repo apply $root/seeded/$id/patch.diff || { echo "$id cannot apply" >> $root/seeded/robustness.txt; continue; }
  c=${id:0:3}
  for seed in 7 99; do
    out=$(cd $root && VERIF_SEED=$seed ./check $c 2>&1)
    if echo "$out" | grep -q "^VIOLATION"; then echo "$id $seed DETECTED" >> $root/seeded/robustness.txt; else echo "$id $seed quiet" >> $root/seeded/robustness.txt; fi
  done
  git -C /repo checkout -- .
done
echo FINISHED >> $root/seeded/robustness.txt
