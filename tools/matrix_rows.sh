#!/bin/bash
# matrix_rows.sh <seed ids...> : like mutant_matrix.sh but replaces only the rows of the given seeds in seeded/matrix.txt
exec /verif/tools/mutant_matrix.sh "$@"
