#!/bin/bash
# try_mutant.sh <seed id> <check ids...> : apply /verif/seeded/<id>/patch.diff to /repo, run checks, undo
id="$1"; shift
git -C /repo apply /verif/seeded/$id/patch.diff || { echo "cannot apply"; exit 2; }
for c in "$@"; do
  out=$(cd /verif && ./check $c 2>&1 | grep -E "VIOLATION|KNOWN|obligations" | head -4)
  echo "[$id -> $c] $out"
done
git -C /repo checkout -- .
