#!/bin/bash
# seed_verify.sh <id> <patch.diff> <demo.rs> [cargo features]
# Verifies a seeded change in a scratch worktree of /repo HEAD (outside /repo and /verif):
#  1. patch applies, crate compiles, the existing suite passes; 2. demo fails with the patch; 3. demo passes without.
# Writes /verif/seeded/<id>/{patch.diff,demo,verify.log}; prints a one-line verdict.
set -u
id="$1"; patch="$(realpath "$2")"; demo="$(realpath "$3")"; feats="${4:-}"
wt=/tmp/seedwt_$id
out=/verif/seeded/$id
mkdir -p "$out"
git -C /repo worktree remove --force "$wt" >/dev/null 2>&1
rm -rf "$wt"
git -C /repo worktree add -q --detach "$wt" HEAD || exit 2
cd "$wt"; mkdir -p target
export CARGO_NET_OFFLINE=true CARGO_TARGET_DIR=/tmp/seedtarget
log="$out/verify.log"; : > "$log"
fflag=""; [ -n "$feats" ] && fflag="--features $feats"
if ! patch -p1 -F3 --no-backup-if-mismatch < "$patch" >>"$log" 2>&1; then echo "$id: PATCH-DOES-NOT-APPLY"; git -C /repo worktree remove --force "$wt"; exit 3; fi
git diff -- src > "$out/patch.diff"
suite=$(cargo test --workspace --offline 2>&1 | grep -E "^test result" | tr '\n' ' ')
echo "suite with patch: $suite" >> "$log"
mkdir -p tests; cp "$demo" tests/demo_seed.rs
with=$(cargo test --offline $fflag --test demo_seed 2>&1 | grep -E "^test result|error\[" | head -3 | tr '\n' ' ')
echo "demo with patch: $with" >> "$log"
git checkout -q -- src
without=$(cargo test --offline $fflag --test demo_seed 2>&1 | grep -E "^test result|error\[" | head -3 | tr '\n' ' ')
echo "demo without patch: $without" >> "$log"
cp "$demo" "$out/$(basename $demo)"
cd /; git -C /repo worktree remove --force "$wt"; rm -rf "$wt"
ok=1
echo "$suite" | grep -q "397 passed; 0 failed" || ok=0
echo "$with" | grep -q "FAILED\|failed; [1-9]\|[1-9][0-9]* failed" || ok=0
echo "$without" | grep -q "ok\." || ok=0
echo "$without" | grep -q " 0 failed" || ok=0
echo "$id: suite=[$suite] with=[$with] without=[$without] verdict=$([ $ok = 1 ] && echo CONFIRMED || echo NOT-CONFIRMED)"
