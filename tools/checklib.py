"""The check protocol shared by all properties (DESIGN.md section 5)."""
import fcntl
import json
import os
import random
import re
import sys
import time

import vfx

FORBIDDEN = re.compile(r"\b(Admitted|admit|Axiom|Axioms|Parameter|Parameters|Conjecture|Conjectures|Hypothesis|Hypotheses)\b|Unset Guard|bypass_check|type-in-type|impredicative-set|Admit Obligations")
# axioms of the standard library that a property theorem may depend on (each is listed in the evidence)
AXIOM_ALLOW = {"functional_extensionality_dep", "FunctionalExtensionality.functional_extensionality_dep"}


class Lock:
    def __enter__(self):
        os.makedirs(vfx.WORK, exist_ok=True)
        self.f = open(os.path.join(vfx.WORK, ".lock"), "w")
        fcntl.flock(self.f, fcntl.LOCK_EX)
        return self

    def __exit__(self, *a):
        fcntl.flock(self.f, fcntl.LOCK_UN)
        self.f.close()


def scan_forbidden():
    """no Admitted/admit/Axiom/Parameter/... anywhere in the development (Section Variables and
    Section Hypotheses are allowed: the word Hypothesis is accepted only inside a Section)"""
    bad = []
    for d, _, fs in os.walk(os.path.join(vfx.COQ, "theories")):
        for f in fs:
            if not f.endswith(".v"):
                continue
            path = os.path.join(d, f)
            depth = 0
            in_comment = 0
            for ln, line in enumerate(open(path), 1):
                # strip comments (nesting aware, line granular is enough for our sources)
                out = ""
                i = 0
                while i < len(line):
                    if line.startswith("(*", i):
                        in_comment += 1
                        i += 2
                    elif line.startswith("*)", i) and in_comment:
                        in_comment -= 1
                        i += 2
                    else:
                        if not in_comment:
                            out += line[i]
                        i += 1
                if re.match(r"\s*Section\b", out):
                    depth += 1
                if re.match(r"\s*End\b", out) and depth:
                    depth -= 1
                m = FORBIDDEN.search(out)
                if m:
                    word = m.group(0)
                    if word in ("Hypothesis", "Hypotheses") and depth > 0:
                        continue
                    bad.append("%s:%d: %s" % (os.path.relpath(path, vfx.ROOT), ln, line.strip()))
    return bad


def proof_obligations(prop, tier="quick"):
    """(re)compile Props/<prop>.v with a full .vo build and read back Print Assumptions"""
    rel = "theories/Props/%s.v" % prop
    src = os.path.join(vfx.COQ, rel)
    info = {"file": "coq/" + rel, "obligations": 0, "discharged": 0, "axioms": [], "errors": [], "theorems": []}
    if not os.path.exists(src):
        info["errors"].append("no property file " + rel)
        return info
    text = open(src).read()
    names = re.findall(r"^(?:Theorem|Example|Lemma|Corollary)\s+(\w+)", text, re.M)
    info["theorems"] = names
    info["obligations"] = len(names)
    printed = re.findall(r"^Print Assumptions\s+(\w+)\.", text, re.M)
    missing = [n for n in names if n not in printed]
    if missing:
        info["errors"].append("theorems without Print Assumptions: " + ", ".join(missing))
    with Lock():
        vo = src + "o"
        if os.path.exists(vo):
            os.remove(vo)
        ok, out = vfx.build_coq([rel + "o"])
    info["build_ok"] = ok
    if not ok:
        info["errors"].append("proof build failed: " + out[-1500:])
        return info
    # parse the Print Assumptions blocks, in order
    blocks = re.split(r"\n(?=Closed under the global context|Axioms:)", "\n" + out)
    results = [b for b in blocks if b.startswith("Closed under") or b.startswith("Axioms:")]
    closed = 0
    for name, b in zip(printed, results):
        if b.startswith("Closed under"):
            closed += 1
        else:
            ax = re.findall(r"^(\S+)\s*:", b, re.M)
            ax = [a for a in ax if a != "Axioms"]
            extra = [a for a in ax if a not in AXIOM_ALLOW]
            info["axioms"].append({name: ax})
            if extra:
                info["errors"].append("%s depends on non-allowlisted axioms: %s" % (name, extra))
            else:
                closed += 1
    if len(results) != len(printed):
        info["errors"].append("expected %d Print Assumptions results, saw %d" % (len(printed), len(results)))
    info["discharged"] = min(closed, len(names)) if not info["errors"] else 0
    bad = scan_forbidden()
    if bad:
        info["errors"].append("forbidden constructs: " + "; ".join(bad[:5]))
        info["discharged"] = 0
    if tier == "thorough" and not info["errors"]:
        # the independent checker re-checks the compiled property file and everything it depends on
        import subprocess
        try:
            r = subprocess.run(["coqchk", "-silent", "-o", "-Q", "theories", "VFS", "VFS.Props." + prop], cwd=vfx.COQ,
                               capture_output=True, text=True, timeout=1800)
            txt = r.stdout + r.stderr
            summary = txt[txt.find("CONTEXT SUMMARY"):] if "CONTEXT SUMMARY" in txt else txt[-800:]
            info["coqchk"] = " ".join(summary.split())[:600]
            clean = (r.returncode == 0 and "* Axioms: <none>" in summary and "type-in-type: <none>" in summary
                     and "unsafe (co)fixpoints: <none>" in summary and "positivity is assumed: <none>" in summary)
            if not clean:
                info["errors"].append("coqchk does not report a clean context: " + info["coqchk"])
                info["discharged"] = 0
        except subprocess.TimeoutExpired:
            info["errors"].append("coqchk timed out")
            info["discharged"] = 0
    return info


TRUSTED_BASE = [
    "Coq 8.16.1 kernel (coqc, full .vo build; vm_compute used in witnesses and examples; no native_compute)",
    "libraries: Coq stdlib, std++ 1.8.0 (axiom-free); Print Assumptions under every property theorem",
    "extraction: ExtrOcamlBasic only (bool/option/unit/prod/list/sumbool to OCaml natives), no Extract Constant/Inductive of our own; OCaml 4.13.1 ocamlopt; driver.ml (parsing/printing only)",
    "correspondence check: Rust harness vfsx linked against /repo (path dependency, rebuilt every run), its HarnessFS wrapper (sorted listings, call log, k-th-call fault injection, handles wrapped so that reads / writes+flushes can be made to fail), the cooperative schedulers (OS threads at the verif-hooks yield points; async tasks at a gate before every trait call), Python generators/comparator, adequacy of the generated cases (differential testing)",
    "modelled, not verified: OS/std::fs (Base/PhysFS.v), std::io::Cursor and io::copy (Base/Handles.v; under failing handle I/O: io::copy fails at once when reads fail and as soon as a non-empty chunk reaches the writer when writes fail), symbolic links (a served directory of links to outside files is modelled as plain files), HashMap/HashSet iteration order (listings are sorted by the harness), SystemTime::now (TAuto), rust-embed, rustc",
]


def known_findings():
    p = os.path.join(vfx.ROOT, "known_findings.json")
    if not os.path.exists(p):
        return {"findings": [], "fixed": []}
    return json.load(open(p))


def write_replay(prop, what, payload):
    os.makedirs(os.path.join(vfx.ROOT, "replays"), exist_ok=True)
    name = "%s-%s.json" % (prop, vfx.digest(json.dumps(payload, sort_keys=True)))
    path = os.path.join(vfx.ROOT, "replays", name)
    json.dump(dict(property=prop, what=what, **payload), open(path, "w"), indent=1, sort_keys=True)
    return path


def main_check(prop, module, argv):
    """module provides: generate(rng, tier) -> list of vfx.Case; compare(case, mlines, ilines) ->
    list of (kind, detail) disagreements; optional oracle(case, ilines) -> list of violations;
    optional known(case, detail) -> finding id or None; RULE (text)"""
    t0 = time.time()
    tier = os.environ.get("VERIF_TIER", "quick")
    replay = None
    i = 0
    while i < len(argv):
        if argv[i] == "--tier":
            tier = argv[i + 1]
            i += 2
        elif argv[i] == "--replay":
            replay = argv[i + 1]
            i += 2
        else:
            i += 1
    seed = int(os.environ.get("VERIF_SEED", "20261001"))
    rng = random.Random(seed * 1000003 + sum(map(ord, prop)))
    violations = []   # (replay path, suffix)

    # 1. proof obligations
    po = proof_obligations(prop, tier)
    proof_ok = not po["errors"] and po["discharged"] == po["obligations"] and po["obligations"] > 0
    if not proof_ok:
        print("proof obligations of %s do not check: %s" % (prop, po["errors"]))

    # 2. correspondence
    try:
        with Lock():
            vfx.build_model()
            for rel in getattr(module, "BUILDS", [False]):
                vfx.build_harness(release=rel)
    except RuntimeError as e:
        # the correspondence cannot even be run: the harness (a client of the crate's public API) or the extracted model
        # does not build against the current tree.  No failing input can be searched for; the property is not shown.
        path = write_replay(prop, "the correspondence no longer builds against /repo's working tree", {"build_error": str(e)[-3000:], "seed": seed})
        print("VIOLATION property=%s replay=%s no-failing-input-found" % (prop, path))
        return 1
    if replay:
        rp = json.load(open(replay))
        cases = module.cases_from_replay(rp) if hasattr(module, "cases_from_replay") else []
    else:
        cases = module.corpus() + module.generate(rng, tier)
    try:
        res = module.run_and_compare(cases, tier)
    except RuntimeError as e:
        # the harness (or the model driver) died while running the cases against the current tree: the correspondence
        # cannot be evaluated, so the property is not shown; the cases it died on are named in the message
        path = write_replay(prop, "the correspondence run aborted on /repo's working tree", {"run_error": str(e)[-3000:], "seed": seed})
        print("VIOLATION property=%s replay=%s no-failing-input-found" % (prop, path))
        return 1
    disagreements = res["disagreements"]
    stats = res["stats"]

    kf = known_findings()
    known_hits = {}
    for d in disagreements:
        kid = module.known(d) if hasattr(module, "known") else None
        if kid and any(f["id"] == kid and prop in f["properties"] for f in kf["findings"]):
            known_hits.setdefault(kid, d)
            continue
        payload = {"case": d["case_text"], "step": d.get("step"), "model": d.get("model"), "impl": d.get("impl"),
                   "seed": seed, "property_violated": d.get("violates", True), "note": d.get("note", "")}
        if d.get("violates", True):
            path = write_replay(prop, "failing input: implementation deviates from the proved model on a field the property constrains", payload)
            violations.append((path, ""))
        else:
            path = write_replay(prop, "correspondence " + d.get("note", "") + " no longer checks; no input violating the property itself was found", payload)
            violations.append((path, " no-failing-input-found"))
        if len(violations) >= 3:
            break
    for kid, d in known_hits.items():
        f = [f for f in kf["findings"] if f["id"] == kid][0]
        print("KNOWN-FINDING: property=%s %s" % (prop, f["what"]))

    if not proof_ok:
        # a broken obligation: the failing-input search is the correspondence run above
        if not violations:
            path = write_replay(prop, "proof obligation no longer checks", {"theorem_file": po["file"], "errors": po["errors"], "seed": seed})
            violations.append((path, " no-failing-input-found"))

    coverage = {
        "obligations": po["obligations"], "discharged": po["discharged"],
        "checker_cmd": "cd /verif/coq && make -j16 theories/Props/%s.vo  (coqc 8.16.1, full .vo build, Print Assumptions per theorem)%s" % (
            prop, "; coqchk -silent -o -Q theories VFS VFS.Props.%s => %s" % (prop, po["coqchk"]) if po.get("coqchk") else ""),
        "trusted_base": TRUSTED_BASE,
        "theorems": po["theorems"], "axioms": po["axioms"],
        "evaluations": stats.get("evaluations", 0),
        "distinct_nontrivial": stats.get("distinct_nontrivial", 0),
        "rule": getattr(module, "RULE", ""),
        "samples": stats.get("samples", []),
        "traces_validated_against_impl": stats.get("evaluations", 0),
        "disagreements": len(disagreements),
        "known_findings_reproduced": sorted(known_hits.keys()),
        "distribution": stats.get("distribution", {}),
    }
    vfx.write_evidence(prop, tier, seed, coverage, time.time() - t0, len(violations), getattr(module, "ASSUMPTIONS", []))
    for path, suffix in violations:
        print("VIOLATION property=%s replay=%s%s" % (prop, path, suffix))
    print("%s: %d/%d obligations, %d cases, %d disagreements, %.1fs" % (
        prop, po["discharged"], po["obligations"], stats.get("evaluations", 0), len(disagreements), time.time() - t0))
    return 1 if violations else 0
