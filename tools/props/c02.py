"""C02 - MemoryFS is a faithful stand-in for PhysicalFS."""
import copy
import vfx
from props import hist, histprop, spec


class P2(histprop.HistProp):
    def generate(self, rng, tier):
        n = 40 if tier == "quick" else 500
        cases = []
        for i in range(n):
            b = vfx.Case("c02_%d_phys" % i)
            g = hist.build_config(b, "phys", rng)
            b.cfg = g
            hist.gen_history(b, g, rng, rng.randint(10, 24), typed=(rng.random() < 0.4), allow_big=True, with_times=False,
                             hostile=0.15)
            a = vfx.Case("c02_%d_mem" % i)
            a.lines = ["case " + a.name] + [("base mem" if l == "base phys" else l) for l in b.lines[1:]]
            a.ops, a.nops, a.nfs = list(b.ops), b.nops, b.nfs
            a.cfg = copy.copy(g)
            a.first_snap = b.first_snap
            a.has_phys = False
            a.twin = b.name
            cases += [a, b]
        return cases


def twin_of(b):
    a = vfx.Case(b.name[:-5] + "_mem")
    a.lines = ["case " + a.name] + [("base mem" if l == "base phys" else l) for l in b.lines[1:]]
    a.ops, a.nops, a.nfs = list(b.ops), b.nops, b.nfs
    a.cfg = copy.copy(b.cfg)
    a.first_snap = getattr(b, "first_snap", None)
    a.twin = b.name
    return a


def corpus_cases():
    """every operation on every kind of target on both backends (within the domain C01 specifies)"""
    cases = []
    stale = [c for c in hist.stale_handle_cases("c02", ["phys"])
             if ("_remove_drop" in c.name or "_remove_flush_drop" in c.name or "_remove_parent_" in c.name) and "_openfile_" not in c.name]
    for b in hist.matrix_cases("c02", ["phys"], c01_domain=True) + hist.reader_seek_cases("c02", ["phys"]) + stale + \
            hist.neighbour_name_cases("c02", ["phys"]) + hist.size_cases("c02", ["phys"]) + \
            hist.overwrite_session_cases("c02", ["phys"]):
        b.name = b.name + "_phys"
        b.lines[0] = "case " + b.name
        cases += [twin_of(b), b]
    return cases


def oracle(cases, mlines, ilines):
    """on the implementations alone: the same script on MemoryFS and on PhysicalFS gives, step by step, the
    same success/failure, the same returned values and the same tree and bytes"""
    out = []
    by = {c.name: c for c in cases}
    for a in cases:
        if not hasattr(a, "twin"):
            continue
        tree = {}
        for step in range(a.nops):
            la = ilines.get(("r", a.name, step))
            lb = ilines.get(("r", a.twin, step))
            toks = a.ops[step].split(" ")
            if toks[0] == "snap":
                t = spec.tree_of_snapshot(lb)
                if t is not None:
                    tree = t
            if toks[0] in ("copyfile", "movefile", "copydir", "movedir"):
                # left unspecified by C01/C02: a transfer whose source has the wrong type or that goes into the
                # source's own subtree - the two backends may part ways here, the rest of the pair is not compared
                k1, src = spec.resolve_spec(toks[1])
                k2, dst = spec.resolve_spec(toks[2])
                if src is not None and dst is not None:
                    is_dir = tree.get(src) == "d"
                    is_file = src in tree and not is_dir
                    if (toks[0] in ("copyfile", "movefile") and is_dir) or (toks[0] in ("copydir", "movedir") and is_file) \
                            or dst[:len(src)] == src:
                        break
            va = view(la)
            vb = view(lb)
            if va != vb:
                out.append({"case": a.name, "case_text": a.text(), "step": step, "op": a.ops[step], "kind": "r",
                            "model": lb, "impl": la, "violates": True,
                            "note": "MemoryFS answers %s where PhysicalFS answers %s for the same history" % ((la or "")[:140], (lb or "")[:140])})
                break
    return out


def view(line):
    if line is None:
        return None
    import re
    v = histprop.contract_view(line)
    # other error kinds aside: only success / failure (the not-found and already-exists classes are
    # checked against the contracts by the contract oracle on each backend separately)
    v = re.sub(r"err:[A-Za-z-]+", "err", v)
    if v.startswith("ok:items:"):
        v = re.sub(r"e[A-Za-z-]+(?=,|$)", "err", v)
    return v


P = P2("C02", [], use_spec=True, oracle=oracle, corpus_cases=corpus_cases,
       rule=("the same generated history (60% untyped: calls of the wrong type for their target, overwrites, re-creations; "
             "contents up to 70 kB and non-UTF-8; no seeks on append handles) is run from an empty filesystem on MemoryFS and "
             "on PhysicalFS over a fresh temporary directory; oracle on the implementations alone: step by step the same "
             "success/failure, the same returned values, the same tree and bytes; each side is additionally checked against "
             "the abstract contracts (not-found / already-exists classes) and against its model"),
       assumptions=["the host is Linux with a POSIX filesystem under the temporary directory", "timestamps, message texts and other I/O error kinds are not compared"])
generate, corpus, run_and_compare, known = P.generate, P.corpus, P.run_and_compare, P.known
RULE, ASSUMPTIONS, BUILDS = P.RULE, P.ASSUMPTIONS, P.BUILDS
