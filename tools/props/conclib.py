"""Concurrent programs: exploration by the harness, replay by the model, linearizability oracle."""
import os
import re
import subprocess
from concurrent.futures import ThreadPoolExecutor
import vfx
from props import hist


class Prog:
    def __init__(self, name, config_lines, setup, threads, mode="explore 3000"):
        self.name, self.config, self.setup, self.threads, self.mode = name, config_lines, setup, threads, mode

    def text(self, schedule=None):
        out = ["conc " + self.name] + self.config + ["setup " + s for s in self.setup]
        for i, t in enumerate(self.threads):
            out.append("thread %d" % i)
            out += ["op " + o for o in t]
        if schedule is None:
            out.append("mode " + self.mode)
        else:
            out.append("schedule " + schedule)
        out.append("end")
        return "\n".join(out) + "\n"


def _run(args):
    exe, path, extra = args
    p = subprocess.run([exe] + extra + [path], stdout=subprocess.PIPE, stderr=subprocess.PIPE, text=True, timeout=3000)
    return p.returncode, p.stdout, p.stderr


def explore(progs, tag, release=False, flag="--conc"):
    """harness: all schedules of every program. returns {name: dict(runs=[(schedule, rest)], seq=set, done=str)}"""
    os.makedirs(vfx.WORK, exist_ok=True)
    exe = os.path.join(vfx.HARNESS, "target", "release" if release else "debug", "vfsx")
    n = max(1, min(vfx.NPROC, len(progs)))
    shards = [[] for _ in range(n)]
    for i, p in enumerate(progs):
        shards[i % n].append(p)
    jobs = []
    for i, sh in enumerate(shards):
        f = os.path.join(vfx.WORK, "%s_conc_%d.txt" % (tag, i))
        open(f, "w").write("".join(p.text() for p in sh))
        jobs.append((exe, f, [flag]))
    with ThreadPoolExecutor(max_workers=n) as ex:
        res = list(ex.map(_run, jobs))
    out = {}
    for (rc, so, se), job in zip(res, jobs):
        if rc != 0:
            raise RuntimeError("harness %s failed: %s" % (flag, se[-1500:]))
        for line in so.splitlines():
            kind, name, rest = line.split(" ", 2)
            d = out.setdefault(name, {"runs": [], "seq": set(), "done": ""})
            if kind == "run":
                sch, r = rest.split(" ", 1)
                d["runs"].append((sch, r))
            elif kind == "seq":
                d["seq"].add(rest)
            elif kind == "done":
                d["done"] = rest
        os.remove(job[1])
    return out


def replay_model(progs, explored, tag, limit_per_prog=400):
    """model: replay (a sample of) the explored schedules. returns {(name, schedule): rest}"""
    model = vfx.build_model()
    by = {p.name: p for p in progs}
    items = []
    for name, d in explored.items():
        runs = [r for r in d["runs"] if not r[0].startswith("stress") and "DEADLOCK" not in r[1]]
        step = max(1, len(runs) // limit_per_prog)
        for sch, _ in runs[::step]:
            items.append((name, sch))
    n = max(1, min(vfx.NPROC, len(items)))
    shards = [[] for _ in range(n)]
    for i, it in enumerate(items):
        shards[i % n].append(it)
    jobs = []
    for i, sh in enumerate(shards):
        f = os.path.join(vfx.WORK, "%s_concm_%d.txt" % (tag, i))
        with open(f, "w") as fh:
            for name, sch in sh:
                fh.write(by[name].text(schedule=sch))
        jobs.append((model, f, []))
    with ThreadPoolExecutor(max_workers=n) as ex:
        res = list(ex.map(_run, jobs))
    out = {}
    for (rc, so, se), job in zip(res, jobs):
        if rc != 0:
            raise RuntimeError("model failed on conc cases: %s" % se[-1500:])
        for line in so.splitlines():
            kind, name, rest = line.split(" ", 2)
            sch, r = rest.split(" ", 1) if not rest.startswith("labels") else ("", rest)
            out[(name, sch)] = r
        os.remove(job[1])
    return out, len(items)


_ERR = re.compile(r"err:[\w-]+:(?:U|P[0-9a-f-]+)")


def abstract(rest):
    """results and final state at the level linearizability is judged: ok values (metadata with its timestamps:
    explicitly set values exactly, values of now() as 'auto'), failures as 'err'"""
    body = rest.split(" :: ", 1)[1] if " :: " in rest else rest
    return _ERR.sub("err", body)
