"""C13 - no operation panics."""
import vfx
from props import hist, histprop

CONFIGS = hist.CONFIGS
HOSTILE = ["", "/", ".", "..", "../..", "a/", "//", "a//b", "...", "é/../日", "a/./../b", "x" * 300]
I64MAX = 9223372036854775807
I64MIN = -9223372036854775808


def project(kind, case, step, op, line):
    """only panics matter here (the rest is the business of the other properties)"""
    if line is None:
        return None
    return "panic" if line.startswith("panic") else "no-panic"


def finish(c, g):
    import random
    rng = random.Random(len(c.lines) * 7 + 1)
    t = g.target
    # calls on the root and with odd arguments, of every kind
    for _ in range(10):
        a = rng.choice(HOSTILE)
        k = rng.choice(["exists", "metadata", "readdir", "createdir", "createdirall", "removefile", "removedir", "isfile",
                        "isdir", "readtostring", "walkdir", "probe", "asstr", "filename", "extension", "copyfile", "movefile",
                        "setmtime", "openfile", "appendfile", "createfile"])
        if len(a) > 1 and a.endswith("/") and k in ("openfile", "appendfile", "createfile"):
            k = "exists"
        if k in ("copyfile", "movefile"):
            c.op(k, vfx.ps(t, a), vfx.ps(t, rng.choice(HOSTILE + ["q"])))
        elif k == "setmtime":
            c.op(k, vfx.ps(t, a), rng.choice([0, -1, 10 ** 18]))
        elif k in ("openfile", "appendfile", "createfile"):
            i = c.op(k, vfx.ps(t, a))
            c.op("hdrop", i)
        elif k == "removedir" and a in ("", "/", ".", "..", "../..", "//"):
            continue
        else:
            c.op(k, vfx.ps(t, a))
    # handles used after their file (and its directory) were removed, reads and seeks at any offset
    c.op("createdirall", vfx.ps(t, "hd"))
    w = c.op("createfile", vfx.ps(t, "hd/f"))
    c.op("hwrite", w, vfx.hexs(b"0123456789"))
    c.op("hflush", w)
    r = c.op("openfile", vfx.ps(t, "hd/f"))
    c.op("removefile", vfx.ps(t, "hd/f"))
    c.op("removedir", vfx.ps(t, "hd"))
    for _ in range(6):
        x = rng.random()
        if x < 0.4:
            c.op("hread", r, rng.choice([0, 1, 3, 100]))
        elif x < 0.8:
            wh = rng.choice(["s", "c", "e"])
            off = rng.choice([0, 5, 10, 11, 2 ** 40]) if wh == "s" else rng.choice([0, -1, -11, 1, I64MIN, -5] + ([] if g.has_phys else [I64MAX]))
            c.op("hseek", r, wh, off)
        else:
            c.op("hwrite", w, vfx.hexs(rng.choice([b"", b"zz"])))
    c.op("hdrop", w)
    c.op("hdrop", r)
    c.op("snap", t)
    if g.kind == "phys":
        # hostile directory content made behind the crate's back
        c.op("xrawname", 0, "66ff6f")          # a name that is not UTF-8
        c.op("xsymlink", 0, vfx.hexs("dangling"), vfx.hexs("/nonexistent/target"))
        c.op("xsymlink", 0, vfx.hexs("loop"), vfx.hexs("loop"))
        for k in ("readdir", "walkdir", "probe"):
            c.op(k, "%d:" % t)
        for n in ("dangling", "loop"):
            for k in ("createdir", "exists", "metadata", "probe", "removefile", "createdirall", "readtostring"):
                c.op(k, vfx.ps(t, n))


def corpus_cases():
    """every operation on every kind of target (wrong types, the root, below files) and handles that outlive their file"""
    kinds = ["mem", "phys", "alt_mem", "ovl_mm", "ovl_pp", "ovl_sub"]
    return hist.matrix_cases("c13", kinds, root_removal=True) + hist.stale_handle_cases("c13", kinds)


P = histprop.HistProp(
    "C13", CONFIGS, typed=False, corpus_cases=corpus_cases, project=project, quick_cases=8, thorough_cases=100, nops=(8, 16), finish=finish,
    builds=(False, True), hostile=0.3, allow_big=False,
    rule=("untyped histories on all 15 configurations followed by calls of every kind on the root and on odd join arguments "
          "('', '/', '.', '..', 'a/', '//', '...', multi-byte, 300 characters), by reads/seeks/writes on handles whose file "
          "and directory were removed (offsets 0, +-1, len, len+1, i64::MIN/MAX, 2^40, zero-length buffers), and on "
          "PhysicalFS by listings and calls over a non-UTF-8 file name, a dangling symlink and a symlink loop created behind "
          "the crate's back; every call runs under catch_unwind in a debug and in a release build; a case counts as "
          "non-trivial when it has at least 3 successful and 1 failing call"),
    assumptions=["copy_dir/move_dir into the source's own subtree is excluded (documented non-termination)",
                 "writes at positions beyond 100 kB are excluded (allocation failure aborts, it does not panic)",
                 "RwLock poisoning is excluded (needs an earlier panic)"])
generate, corpus, run_and_compare, known = P.generate, P.corpus, P.run_and_compare, P.known
RULE, ASSUMPTIONS, BUILDS = P.RULE, P.ASSUMPTIONS, P.BUILDS
